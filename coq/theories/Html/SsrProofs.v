(** C06 — proofs about Html/{Escape,Tokenizer,Ssr}.v. *)
From Coq Require Import List ZArith NArith Bool Lia.
From LV Require Import Base.Bytes Html.Escape Html.Tokenizer Html.Script Html.Ssr.
Import ListNotations.
Open Scope N_scope.

Ltac neq_false :=
  repeat match goal with
  | H : ?c <> ?k |- context [N.eqb ?c ?k] => rewrite (proj2 (N.eqb_neq c k) H)
  end.

(** * escaped text contains no markup character *)
Definition no_markup_text (l : bytes) : Prop := Forall (fun c => c <> 60 /\ c <> 62) l.
Definition no_markup_attr (l : bytes) : Prop := Forall (fun c => c <> 60 /\ c <> 62 /\ c <> 34) l.

Lemma encode_text_no_markup s : no_markup_text (encode_text s).
Proof.
  induction s as [|c s IH]; [constructor|]. cbn [encode_text flat_map].
  apply Forall_app; split; [|exact IH]. unfold esc_text_byte.
  destruct (N.eqb_spec c 38); [repeat constructor; lia|].
  destruct (N.eqb_spec c 60); [repeat constructor; lia|].
  destruct (N.eqb_spec c 62); [repeat constructor; lia|].
  repeat constructor; assumption.
Qed.

Lemma encode_dq_no_markup s : no_markup_attr (encode_dq s).
Proof.
  induction s as [|c s IH]; [constructor|]. cbn [encode_dq flat_map].
  apply Forall_app; split; [|exact IH]. unfold esc_attr_byte.
  destruct (N.eqb_spec c 38); [repeat constructor; lia|].
  destruct (N.eqb_spec c 60); [repeat constructor; lia|].
  destruct (N.eqb_spec c 62); [repeat constructor; lia|].
  destruct (N.eqb_spec c 34); [repeat constructor; lia|].
  repeat constructor; assumption.
Qed.

(** every '&' of escaped text starts one of the four references: an '&' is never bare, so
    the named-reference table beyond these four is never consulted *)
Inductive refs_only : bytes -> Prop :=
| ro_nil : refs_only []
| ro_amp r : refs_only r -> refs_only (e_amp ++ r)
| ro_lt r : refs_only r -> refs_only (e_lt ++ r)
| ro_gt r : refs_only r -> refs_only (e_gt ++ r)
| ro_quot r : refs_only r -> refs_only (e_quot ++ r)
| ro_other c r : c <> 38 -> refs_only r -> refs_only (c :: r).

Lemma encode_text_refs_only s : refs_only (encode_text s).
Proof.
  induction s as [|c s IH]; [constructor|]. cbn [encode_text flat_map]. unfold esc_text_byte.
  destruct (N.eqb_spec c 38); [now apply ro_amp|].
  destruct (N.eqb_spec c 60); [now apply ro_lt|].
  destruct (N.eqb_spec c 62); [now apply ro_gt|].
  now apply ro_other.
Qed.
Lemma encode_dq_refs_only s : refs_only (encode_dq s).
Proof.
  induction s as [|c s IH]; [constructor|]. cbn [encode_dq flat_map]. unfold esc_attr_byte.
  destruct (N.eqb_spec c 38); [now apply ro_amp|].
  destruct (N.eqb_spec c 60); [now apply ro_lt|].
  destruct (N.eqb_spec c 62); [now apply ro_gt|].
  destruct (N.eqb_spec c 34); [now apply ro_quot|].
  now apply ro_other.
Qed.

(** * text round trip *)
(** what may follow a text run: the end of input or markup *)
Definition stops (m : tmode) (tail : bytes) : Prop :=
  match m with
  | MBody => tail = [] \/ exists t, tail = 60 :: t /\ starts_markup t = true
  | MRcdata name => exists t, tail = 60 :: t /\ is_end_tag_for name t = true
  | MRaw name => exists t, tail = 60 :: t /\ is_end_tag_for name t = true
  end.

Definition drops_nul (m : tmode) : bool := match m with MBody => true | _ => false end.

Lemma scan_text_stop m cr tail :
  stops m tail -> scan_text m cr None tail = Some ([], tail).
Proof.
  destruct m; cbn [stops].
  - intros [->|(t & -> & H)]; [reflexivity|]. cbn [scan_text]. cbn [N.eqb Pos.eqb]. now rewrite H.
  - intros (t & -> & H). cbn [scan_text]. cbn [N.eqb Pos.eqb]. now rewrite H.
  - intros (t & -> & H). cbn [scan_text]. cbn [N.eqb Pos.eqb]. now rewrite H.
Qed.

Lemma text_roundtrip_gen m s : forall cr tail,
  (match m with MRaw _ => False | _ => True end) -> stops m tail ->
  scan_text m cr None (encode_text s ++ tail) = Some (norm (drops_nul m) cr s, tail).
Proof.
  induction s as [|c s IH]; intros cr tail Hm Hs.
  - cbn [encode_text flat_map app norm]. now apply scan_text_stop.
  - cbn [encode_text flat_map]. rewrite <- app_assoc. unfold esc_text_byte.
    assert (Hamp : (match m with MRaw _ => false | _ => true end) = true) by (destruct m; [reflexivity|reflexivity|contradiction]).
    destruct (N.eqb_spec c 38) as [->|H38].
    { cbn [e_amp app scan_text]. cbn [N.eqb Pos.eqb andb]. rewrite Hamp.
      cbn. rewrite IH by assumption. reflexivity. }
    destruct (N.eqb_spec c 60) as [->|H60].
    { cbn [e_lt app scan_text]. cbn [N.eqb Pos.eqb andb]. rewrite Hamp.
      cbn. rewrite IH by assumption. reflexivity. }
    destruct (N.eqb_spec c 62) as [->|H62].
    { cbn [e_gt app scan_text]. cbn [N.eqb Pos.eqb andb]. rewrite Hamp.
      cbn. rewrite IH by assumption. reflexivity. }
    cbn [app scan_text norm]. neq_false. cbn [andb].
    destruct (N.eqb_spec c 0) as [->|H0].
    { destruct m; cbn [drops_nul]; rewrite IH by assumption; reflexivity. }
    destruct (N.eqb_spec c 13) as [->|H13].
    { rewrite IH by assumption. reflexivity. }
    destruct (N.eqb_spec c 10) as [->|H10].
    { destruct cr; rewrite IH by assumption; reflexivity. }
    rewrite IH by assumption. reflexivity.
Qed.

(** text of any bytes, escaped and followed by markup or the end of input, is read back by
    the data state as exactly that text (modulo HTML's NUL / newline rules); no tag is opened *)
Lemma text_roundtrip s tail :
  stops MBody tail ->
  scan_text MBody false None (encode_text s ++ tail) = Some (norm_body s, tail).
Proof. intros H. now apply (text_roundtrip_gen MBody). Qed.

Lemma rcdata_roundtrip name s tail :
  stops (MRcdata name) tail ->
  scan_text (MRcdata name) false None (encode_text s ++ tail) = Some (norm_attr s, tail).
Proof. intros H. now apply (text_roundtrip_gen (MRcdata name)). Qed.

(** * attribute values *)
Lemma dq_value_gen s : forall n v cr acc rest,
  scan_attrs (AValDq n v cr None) acc (encode_dq s ++ 34 :: rest)
  = scan_attrs AGap (add_attr acc (n, v ++ norm false cr s)) rest.
Proof.
  induction s as [|c s IH]; intros n v cr acc rest.
  - cbn [encode_dq flat_map app norm scan_attrs]. cbn [N.eqb Pos.eqb]. now rewrite app_nil_r.
  - cbn [encode_dq flat_map]. rewrite <- app_assoc. unfold esc_attr_byte.
    destruct (N.eqb_spec c 38) as [->|H38].
    { cbn [e_amp app scan_attrs]. cbn. rewrite IH. now rewrite <- app_assoc. }
    destruct (N.eqb_spec c 60) as [->|H60].
    { cbn [e_lt app scan_attrs]. cbn. rewrite IH. now rewrite <- app_assoc. }
    destruct (N.eqb_spec c 62) as [->|H62].
    { cbn [e_gt app scan_attrs]. cbn. rewrite IH. now rewrite <- app_assoc. }
    destruct (N.eqb_spec c 34) as [->|H34].
    { cbn [e_quot app scan_attrs]. cbn. rewrite IH. now rewrite <- app_assoc. }
    cbn [app scan_attrs norm]. neq_false.
    destruct (N.eqb_spec c 0) as [->|H0].
    { rewrite IH. now rewrite <- app_assoc. }
    destruct (N.eqb_spec c 13) as [->|H13].
    { rewrite IH. now rewrite <- app_assoc. }
    destruct (N.eqb_spec c 10) as [->|H10].
    { destruct cr; rewrite IH; [reflexivity | now rewrite <- app_assoc]. }
    rewrite IH. now rewrite <- app_assoc.
Qed.

(** an attribute value of any bytes, escaped and closed by the quote, is read back as exactly
    that value; the tokenizer is then where it is after any quoted value *)
Lemma attr_roundtrip n s acc rest :
  scan_attrs (AValDq n [] false None) acc (encode_dq s ++ 34 :: rest)
  = scan_attrs AGap (add_attr acc (n, norm_attr s)) rest.
Proof. apply dq_value_gen. Qed.

(** ** attribute names are program text *)
Lemma name_byte_ok_props c :
  name_byte_ok c = true ->
  is_ws c = false /\ c <> 47 /\ c <> 62 /\ c <> 61 /\ c <> 0 /\ lower_b c = c /\ c <> 34.
Proof.
  unfold name_byte_ok, is_ws, lower_b, is_lower, is_digit, is_upper, in_range. intros H.
  assert (Hc : (97 <= c /\ c <= 122) \/ (48 <= c /\ c <= 57) \/ c = 45).
  { repeat (apply orb_true_iff in H; destruct H as [H|H]).
    - apply andb_true_iff in H. destruct H as [H1 H2]. apply N.leb_le in H1, H2. now left.
    - apply andb_true_iff in H. destruct H as [H1 H2]. apply N.leb_le in H1, H2. right; now left.
    - apply N.eqb_eq in H. right; now right. }
  repeat split; try lia.
  - repeat (apply orb_false_iff; split); apply N.eqb_neq; lia.
  - destruct (N.leb_spec 65 c); destruct (N.leb_spec c 90); cbn [andb]; lia.
Qed.

Lemma scan_name_bytes nm : forall n0 acc rest,
  forallb name_byte_ok nm = true ->
  scan_attrs (AName n0) acc (nm ++ rest) = scan_attrs (AName (n0 ++ nm)) acc rest.
Proof.
  induction nm as [|c nm IH]; intros n0 acc rest H; [now rewrite app_nil_r|].
  cbn [forallb] in H. apply andb_true_iff in H. destruct H as [Hc Hn].
  destruct (name_byte_ok_props c Hc) as (Hws & H47 & H62 & H61 & H0 & Hl & _).
  cbn [app scan_attrs]. rewrite Hws. neq_false. unfold name_byte. neq_false. rewrite Hl.
  rewrite IH by assumption. now rewrite <- app_assoc.
Qed.

(** the tokenizer between two attributes: nothing pending, or a value-less attribute whose
    name has just been read *)
Definition state_of (pend : option bytes) : astate :=
  match pend with None => AGap | Some n => AName n end.
Definition commit (acc : list attr) (pend : option bytes) : list attr :=
  match pend with None => acc | Some n => add_attr acc (n, []) end.

Lemma name_first c nm : name_ok (c :: nm) = true ->
  name_byte_ok c = true /\ forallb name_byte_ok nm = true.
Proof.
  unfold name_ok. intros H. apply andb_true_iff in H. destruct H as [_ H].
  cbn [forallb] in H. now apply andb_true_iff in H.
Qed.

(** [ name] after anything: the name is being read, what was pending is committed *)
Lemma scan_bool_attr pend acc name rest :
  name_ok name = true ->
  scan_attrs (state_of pend) acc (32 :: name ++ rest)
  = scan_attrs (AName name) (commit acc pend) rest.
Proof.
  intros Hn. destruct name as [|c nm]; [discriminate|].
  destruct (name_first c nm Hn) as [Hc Hnm].
  destruct (name_byte_ok_props c Hc) as (Hws & H47 & H62 & H61 & H0 & Hl & _).
  destruct pend as [p|]; cbn [state_of commit app scan_attrs]; cbn [is_ws N.eqb Pos.eqb orb];
    rewrite Hws; neq_false; unfold name_byte; neq_false; rewrite Hl;
    now rewrite (scan_name_bytes nm [c]).
Qed.

(** [ name="value"] after anything *)
Lemma scan_str_attr pend acc name value rest :
  name_ok name = true ->
  scan_attrs (state_of pend) acc (attr_html name value ++ rest)
  = scan_attrs AGap (add_attr (commit acc pend) (name, norm_attr value)) rest.
Proof.
  intros Hn. unfold attr_html. cbn [app]. rewrite <- !app_assoc. cbn [app].
  rewrite scan_bool_attr by assumption.
  cbn [scan_attrs]. cbn [is_ws N.eqb Pos.eqb orb].
  cbn [scan_attrs]. cbn [is_ws N.eqb Pos.eqb orb].
  rewrite <- app_assoc. cbn [app]. apply attr_roundtrip.
Qed.

Lemma scan_close pend acc rest :
  scan_attrs (state_of pend) acc (62 :: rest) = Some (commit acc pend, rest).
Proof. destruct pend; reflexivity. Qed.

(** ** a whole attribute list *)
Definition id_name : bytes := [105; 100].
Definition reg_html (a : vattr) : bytes :=
  match a with
  | AStr n v => attr_html n v
  | ABool n true => 32 :: n
  | AId v => attr_html id_name v
  | _ => []
  end.
Definition cls_piece (a : vattr) : bytes :=
  match a with
  | AClass v => 32 :: v
  | AToggle n on => 32 :: (if on then n else [])
  | _ => []
  end.
Definition sty_piece (a : vattr) : bytes :=
  match a with
  | AStyle v => v ++ [59]
  | AProp n v => n ++ [58] ++ v ++ [59]
  | _ => []
  end.
Definition reg_tree (acc : list attr) (a : vattr) : list attr :=
  match a with
  | AStr n v => add_attr acc (n, norm_attr v)
  | ABool n true => add_attr acc (n, [])
  | AId v => add_attr acc (id_name, norm_attr v)
  | _ => acc
  end.

Lemma fold_attr_step attrs : forall b c s,
  fold_left attr_step attrs (b, c, s)
  = (b ++ flat_map reg_html attrs, c ++ flat_map cls_piece attrs, s ++ flat_map sty_piece attrs).
Proof.
  induction attrs as [|a attrs IH]; intros b c s; cbn [fold_left flat_map].
  - now rewrite !app_nil_r.
  - destruct a as [n v|n [|]|v|n on|v|n v|v]; cbn [attr_step reg_html cls_piece sty_piece];
      rewrite IH; cbn [app]; rewrite <- ?app_assoc; reflexivity.
Qed.

Lemma fold_tree_attr_step attrs : forall acc c s,
  fold_left tree_attr_step attrs (acc, c, s)
  = (fold_left reg_tree attrs acc, c ++ flat_map cls_piece attrs, s ++ flat_map sty_piece attrs).
Proof.
  induction attrs as [|a attrs IH]; intros acc c s; cbn [fold_left flat_map].
  - now rewrite !app_nil_r.
  - destruct a as [n v|n [|]|v|n on|v|n v|v]; cbn [tree_attr_step reg_tree cls_piece sty_piece];
      rewrite IH; cbn [app]; rewrite <- ?app_assoc; reflexivity.
Qed.

Lemma scan_regular attrs : forall pend acc rest,
  forallb attr_ok attrs = true ->
  exists pend' acc',
    scan_attrs (state_of pend) acc (flat_map reg_html attrs ++ rest)
    = scan_attrs (state_of pend') acc' rest
    /\ commit acc' pend' = fold_left reg_tree attrs (commit acc pend).
Proof.
  induction attrs as [|a attrs IH]; intros pend acc rest Hok.
  - exists pend, acc. split; reflexivity.
  - cbn [forallb] in Hok. apply andb_true_iff in Hok. destruct Hok as [Ha Hok].
    cbn [flat_map fold_left]. rewrite <- app_assoc.
    destruct a as [n v|n [|]|v|n on|v|n v|v]; cbn [reg_html reg_tree attr_ok] in *;
      try (cbn [app]; now apply IH).
    + rewrite scan_str_attr by assumption.
      destruct (IH None (add_attr (commit acc pend) (n, norm_attr v)) rest Hok) as (p' & a' & E1 & E2).
      exists p', a'. split; [exact E1 | exact E2].
    + change ((32 :: n) ++ flat_map reg_html attrs ++ rest) with (32 :: n ++ flat_map reg_html attrs ++ rest).
      rewrite scan_bool_attr by assumption.
      destruct (IH (Some n) (commit acc pend) rest Hok) as (p' & a' & E1 & E2).
      exists p', a'. split; [exact E1 | exact E2].
    + rewrite scan_str_attr by reflexivity.
      destruct (IH None (add_attr (commit acc pend) (id_name, norm_attr v)) rest Hok) as (p' & a' & E1 & E2).
      exists p', a'. split; [exact E1 | exact E2].
Qed.

(** the attributes of a rendered start tag are read back as the attributes of the view *)
Lemma scan_attrs_html attrs rest :
  forallb attr_ok attrs = true ->
  scan_attrs AGap [] (attrs_html attrs ++ 62 :: rest) = Some (tree_attrs attrs, rest).
Proof.
  intros Hok. unfold attrs_html, tree_attrs.
  rewrite fold_attr_step, fold_tree_attr_step. cbn [app].
  set (cls := flat_map cls_piece attrs). set (sty := flat_map sty_piece attrs).
  rewrite <- !app_assoc.
  destruct (scan_regular attrs None [] (
      match cls with [] => [] | _ :: _ => attr_html class_name (trim cls) end
      ++ match sty with [] => [] | _ :: _ => attr_html style_attr_name (trim sty) end ++ 62 :: rest) Hok)
    as (p1 & a1 & E1 & E2).
  change (state_of None) with AGap in E1. rewrite E1. cbn [commit] in E2.
  destruct cls as [|c0 cls'].
  - cbn [app]. destruct sty as [|s0 sty'].
    + cbn [app]. rewrite scan_close. now rewrite E2.
    + rewrite scan_str_attr by reflexivity. change AGap with (state_of None).
      rewrite scan_close. cbn [commit]. now rewrite E2.
  - rewrite scan_str_attr by reflexivity. rewrite E2.
    destruct sty as [|s0 sty'].
    + cbn [app]. change AGap with (state_of None). now rewrite scan_close.
    + change AGap with (state_of None). rewrite scan_str_attr by reflexivity.
      change AGap with (state_of None). now rewrite scan_close.
Qed.

(** rendered attributes start with a space or are empty *)
Lemma attrs_html_head attrs rest :
  exists d r, attrs_html attrs ++ 62 :: rest = d :: r /\ is_tag_delim d = true.
Proof.
  unfold attrs_html. rewrite fold_attr_step. cbn [app].
  set (cls := flat_map cls_piece attrs). set (sty := flat_map sty_piece attrs).
  assert (Hreg : flat_map reg_html attrs = [] \/ exists r, flat_map reg_html attrs = 32 :: r).
  { induction attrs as [|a attrs IH]; [now left|]. cbn [flat_map].
    destruct a as [n v|n [|]|v|n on|v|n v|v]; cbn [reg_html app]; try exact IH;
      right; eexists; reflexivity. }
  destruct Hreg as [->|(r & ->)].
  - cbn [app]. destruct cls; [|eexists; eexists; split; [reflexivity|reflexivity]].
    cbn [app]. destruct sty; eexists; eexists; split; reflexivity.
  - eexists; eexists; split; reflexivity.
Qed.

(** * raw text (script, style): read back verbatim unless it contains its own end tag *)
Lemma lower_b_60 b : lower_b b = 60 -> b = 60.
Proof. unfold lower_b, is_upper, in_range. destruct (N.leb_spec 65 b); destruct (N.leb_spec b 90); cbn [andb]; lia. Qed.

(** a pattern without '<' that matches across "a ++ '<' :: b" matches inside a *)
Lemma strip_ci_inside p : forall a b r,
  ~ In 60 p -> strip_ci p (a ++ 60 :: b) = Some r -> exists r', strip_ci p a = Some r'.
Proof.
  induction p as [|x p IH]; intros a b r Hp H; [eexists; reflexivity|].
  destruct a as [|y a]; cbn [app strip_ci] in *.
  - destruct (N.eqb_spec x (lower_b 60)) as [E|E]; [|discriminate].
    exfalso. apply Hp. left. exact E.
  - destruct (x =? lower_b y); [|discriminate].
    apply (IH a b r); [|exact H]. intros Hin. apply Hp. now right.
Qed.

Lemma has_sub_here p s r : strip_ci p s = Some r -> has_sub p s = true.
Proof. intros H. destruct s; cbn [has_sub]; [destruct p; [reflexivity|discriminate] | now rewrite H]. Qed.
Lemma has_sub_cons p c s : has_sub p s = true -> has_sub p (c :: s) = true.
Proof. intros H. cbn [has_sub]. rewrite H. apply orb_true_r. Qed.

Lemma strip_ci_app p : forall s r x, strip_ci p s = Some r -> strip_ci p (s ++ x) = Some (r ++ x).
Proof.
  induction p as [|a p IH]; intros s r x H; cbn [strip_ci] in *; [now injection H as <-|].
  destruct s as [|b s]; [discriminate|]. cbn [app].
  destruct (a =? lower_b b); [now apply IH | discriminate].
Qed.

Definition lower_name (name : bytes) : Prop := Forall (fun c => is_lower c = true) name.
Lemma lower_name_no_lt name : lower_name name -> ~ In 60 name.
Proof.
  intros H Hin. unfold lower_name in H. rewrite Forall_forall in H. specialize (H 60 Hin). discriminate.
Qed.

(** inside raw text that does not contain "</name", no '<' starts the end tag, whatever
    follows the text begins with '<' *)
Lemma raw_no_end_tag name s' b :
  lower_name name ->
  has_sub ([60; 47] ++ name) (60 :: s') = false ->
  is_end_tag_for name (s' ++ 60 :: b) = false.
Proof.
  intros Hn Hsub. unfold is_end_tag_for.
  destruct s' as [|y s'']; [reflexivity|]. cbn [app].
  destruct (N.eqb_spec y 47) as [->|Hy].
  2: { destruct y as [|py]; [reflexivity|].
       repeat (destruct py as [py|py|]; try reflexivity); exfalso; apply Hy; reflexivity. }
  destruct (strip_ci name (s'' ++ 60 :: b)) as [r|] eqn:E; [|reflexivity].
  destruct (strip_ci_inside name s'' b r (lower_name_no_lt name Hn) E) as (r' & E').
  exfalso.
  assert (H1 : strip_ci ([60; 47] ++ name) (60 :: 47 :: s'') = Some r') by exact E'.
  apply has_sub_here in H1. rewrite H1 in Hsub. discriminate.
Qed.

Lemma raw_roundtrip name s : forall cr b,
  lower_name name ->
  is_end_tag_for name b = true ->
  has_sub ([60; 47] ++ name) s = false ->
  (beq name script_name = true -> has_sub [60; 33; 45; 45] s = false) ->
  scan_text (MRaw name) cr None (s ++ 60 :: b) = Some (norm false cr s, 60 :: b).
Proof.
  induction s as [|c s IH]; intros cr b Hn Hb Hsub Hcom.
  - cbn [app norm scan_text]. cbn [N.eqb Pos.eqb]. now rewrite Hb.
  - assert (Hsub' : has_sub ([60; 47] ++ name) s = false).
    { cbn [has_sub] in Hsub. apply orb_false_iff in Hsub. tauto. }
    assert (Hcom' : beq name script_name = true -> has_sub [60; 33; 45; 45] s = false).
    { intros Hs. specialize (Hcom Hs). cbn [has_sub] in Hcom. apply orb_false_iff in Hcom. tauto. }
    cbn [app scan_text norm].
    destruct (N.eqb_spec c 60) as [->|H60].
    + rewrite (raw_no_end_tag name s b Hn Hsub).
      assert (Hbang : (beq name script_name
                       && match strip_ci [33; 45; 45] (s ++ 60 :: b) with Some _ => true | None => false end) = false).
      { destruct (beq name script_name) eqn:Es; [|reflexivity]. cbn [andb].
        specialize (Hcom eq_refl).
        destruct (strip_ci [33; 45; 45] (s ++ 60 :: b)) as [r|] eqn:E; [|reflexivity].
        assert (Hno : ~ In 60 [33; 45; 45]) by (cbn; intros [H|[H|[H|[]]]]; discriminate).
        destruct (strip_ci_inside [33; 45; 45] s b r Hno E) as (r' & E').
        exfalso.
        assert (H1 : strip_ci [60; 33; 45; 45] (60 :: s) = Some r') by exact E'.
        apply has_sub_here in H1. rewrite H1 in Hcom. discriminate. }
      rewrite Hbang. rewrite IH by assumption. reflexivity.
    + neq_false. cbn [andb].
      destruct (N.eqb_spec c 38) as [->|H38]; cbn [andb].
      { rewrite IH by assumption. reflexivity. }
      destruct (N.eqb_spec c 0) as [->|H0].
      { rewrite IH by assumption. reflexivity. }
      destruct (N.eqb_spec c 13) as [->|H13].
      { rewrite IH by assumption. reflexivity. }
      destruct (N.eqb_spec c 10) as [->|H10].
      { destruct cr; rewrite IH by assumption; reflexivity. }
      rewrite IH by assumption. reflexivity.
Qed.

(** * tokens of rendered constructs *)
Definition chars_toks (s : bytes) : list token := match s with [] => [] | _ => [TChars s] end.

Lemma next_tokens_text h s tail :
  h <> [] -> scan_text MBody false None (h ++ tail) = Some (s, tail) ->
  next_tokens (h ++ tail) = Some (chars_toks s, tail).
Proof.
  intros Hh H. unfold next_tokens. rewrite H. destruct s; [|reflexivity].
  assert (Hlt : Nat.ltb (length tail) (length (h ++ tail)) = true).
  { apply Nat.ltb_lt. rewrite app_length. destruct h; [contradiction | cbn [length]; lia]. }
  now rewrite Hlt.
Qed.

Lemma next_tokens_markup t :
  starts_markup t = true -> next_tokens (60 :: t) = markup_tokens (60 :: t).
Proof.
  intros H. unfold next_tokens. cbn [scan_text]. cbn [N.eqb Pos.eqb]. rewrite H.
  now rewrite Nat.ltb_irrefl.
Qed.

Lemma marker_tokens tail : next_tokens (marker ++ tail) = Some ([TComment []], tail).
Proof. unfold marker. cbn [app]. rewrite next_tokens_markup by reflexivity. reflexivity. Qed.

Lemma lower_props c : is_lower c = true -> is_tag_delim c = false /\ c <> 0 /\ lower_b c = c.
Proof.
  unfold is_lower, is_tag_delim, is_ws, lower_b, is_upper, in_range. intros H.
  apply andb_true_iff in H. destruct H as [H1 H2]. apply N.leb_le in H1, H2.
  repeat split; try lia.
  - repeat (apply orb_false_iff; split); apply N.eqb_neq; lia.
  - destruct (N.leb_spec 65 c); destruct (N.leb_spec c 90); cbn [andb]; lia.
Qed.

Lemma scan_tag_name_lower nm d r :
  lower_name nm -> is_tag_delim d = true -> scan_tag_name (nm ++ d :: r) = (nm, d :: r).
Proof.
  intros Hn Hd. induction Hn as [|c nm Hc _ IH]; cbn [app scan_tag_name].
  - now rewrite Hd.
  - destruct (lower_props c Hc) as (H1 & H2 & H3). rewrite H1, IH.
    destruct (N.eqb_spec c 0); [contradiction|]. now rewrite H3.
Qed.

Lemma tag_name_lower t : lower_name (tag_name t).
Proof. destruct t; repeat constructor. Qed.

Lemma end_tag_tokens t tail :
  next_tokens ([60; 47] ++ tag_name t ++ 62 :: tail) = Some ([TEnd (tag_name t)], tail).
Proof.
  cbn [app]. rewrite next_tokens_markup by reflexivity.
  unfold markup_tokens, scan_end_tag.
  assert (Ha : exists c nm, tag_name t = c :: nm /\ is_alpha c = true) by (destruct t; eexists; eexists; split; reflexivity).
  destruct Ha as (c & nm & E & Hc).
  rewrite (scan_tag_name_lower (tag_name t) 62 tail (tag_name_lower t) eq_refl).
  rewrite E. cbn [app]. rewrite Hc. rewrite <- E. reflexivity.
Qed.

Lemma start_tag_tokens t attrs X :
  forallb attr_ok attrs = true ->
  markup_tokens (60 :: tag_name t ++ attrs_html attrs ++ 62 :: X) =
  match classify (tag_name t) with
  | KRcdata =>
      match scan_text (MRcdata (tag_name t)) false None X with
      | Some (content, r2) =>
          Some ([TStart (tag_name t) (tree_attrs attrs);
                 TChars (if beq (tag_name t) textarea_name then drop_lf content else content)], r2)
      | None => None
      end
  | KRaw =>
      match scan_text (MRaw (tag_name t)) false None X with
      | Some (content, r2) => Some ([TStart (tag_name t) (tree_attrs attrs); TChars content], r2)
      | None => None
      end
  | KUnsupported => None
  | _ => Some ([TStart (tag_name t) (tree_attrs attrs)], X)
  end.
Proof.
  intros Hok.
  destruct (attrs_html_head attrs X) as (d & r & E & Hd).
  assert (Hs := scan_attrs_html attrs X Hok). rewrite E in Hs. rewrite E.
  assert (Hn := scan_tag_name_lower (tag_name t) d r (tag_name_lower t) Hd).
  destruct t; cbn [tag_name textarea_name title_name script_name style_name app] in *;
    unfold markup_tokens; rewrite Hn, Hs; reflexivity.
Qed.

Lemma start_tag_starts t Y : starts_markup (tag_name t ++ Y) = true.
Proof. destruct t; reflexivity. Qed.

(** * the token stream of a rendered view *)
Inductive Toks : bytes -> list token -> Prop :=
| Toks_nil : Toks [] []
| Toks_step inp toks rest more :
    inp <> [] -> next_tokens inp = Some (toks, rest) -> (length rest < length inp)%nat ->
    Toks rest more -> Toks inp (toks ++ more).

(** the fuel of [tokenize] is enough (its exhaustion is excluded) *)
Lemma Toks_tokenize inp l :
  Toks inp l -> forall f, (length inp <= f)%nat -> tokenize f inp = Some l.
Proof.
  induction 1 as [|inp toks rest more Hne Hn Hlen _ IH]; intros f Hf.
  - destruct f; reflexivity.
  - destruct inp as [|c t]; [contradiction|].
    destruct f as [|f]; [cbn [length] in Hf; lia|].
    cbn [tokenize]. rewrite Hn. rewrite IH by (cbn [length] in *; lia). reflexivity.
Qed.

Definition sep_toks (p : pos) : list token := match p with AfterText => [TComment []] | _ => [] end.
Definition leaf_or_empty (v : view) : bytes := match leaf_text v with Some s => s | None => [] end.
(** what a text-like child shows as in an escaping parent *)
Definition shown (v : view) : bytes := match v with VText [] => [32] | _ => leaf_or_empty v end.
Definition title_text (kids : list view) : bytes := match kids with [k] => shown k | _ => [] end.

Fixpoint toks (p : pos) (v : view) {struct v} : list token * pos :=
  match v with
  | VEl t attrs kids =>
      let name := tag_name t in
      let st := TStart name (tree_attrs attrs) in
      (if is_void t then [st]
       else match t with
            | Textarea => [st; TChars (drop_lf (norm_attr (raw_text kids))); TEnd name]
            | ScriptT | StyleT => [st; TChars (norm_attr (raw_text kids)); TEnd name]
            | Title => [st; TChars (norm_attr (title_text kids)); TEnd name]
            | _ =>
                st :: (fix go (p : pos) (l : list view) : list token :=
                         match l with
                         | [] => []
                         | k :: l' => let '(ts, p') := toks p k in ts ++ go p' l'
                         end) FirstChild kids ++ [TEnd name]
            end, NextChild)
  | VUnit => ([TComment []], NextChild)
  | _ => (sep_toks p ++ chars_toks (norm_body (shown v)), AfterText)
  end.
Fixpoint toks_list (p : pos) (l : list view) : list token :=
  match l with
  | [] => []
  | k :: l' => let '(ts, p') := toks p k in ts ++ toks_list p' l'
  end.

(** ** unfolding lemmas for the nested fixpoints *)
Lemma render_el esc p t attrs kids :
  render esc p (VEl t attrs kids) =
  (([60] ++ tag_name t ++ attrs_html attrs ++ [62])
   ++ (if is_void t then []
       else (match t with Textarea => encode_text (render_list (escape_children t) FirstChild kids)
                        | _ => render_list (escape_children t) FirstChild kids end)
            ++ [60; 47] ++ tag_name t ++ [62]), NextChild).
Proof.
  assert (E : forall p0 l,
    (fix go (p : pos) (l : list view) {struct l} : bytes :=
       match l with
       | [] => []
       | k :: l' => let '(h, p') := render (escape_children t) p k in h ++ go p' l'
       end) p0 l = render_list (escape_children t) p0 l).
  { intros p0 l. revert p0. induction l as [|k l IH]; intros p0; [reflexivity|].
    cbn [render_list]. destruct (render (escape_children t) p0 k). now rewrite IH. }
  cbn [render]. rewrite E. reflexivity.
Qed.

Lemma toks_el p t attrs kids :
  toks p (VEl t attrs kids) =
  (if is_void t then [TStart (tag_name t) (tree_attrs attrs)]
   else match t with
        | Textarea => [TStart (tag_name t) (tree_attrs attrs); TChars (drop_lf (norm_attr (raw_text kids))); TEnd (tag_name t)]
        | ScriptT | StyleT => [TStart (tag_name t) (tree_attrs attrs); TChars (norm_attr (raw_text kids)); TEnd (tag_name t)]
        | Title => [TStart (tag_name t) (tree_attrs attrs); TChars (norm_attr (title_text kids)); TEnd (tag_name t)]
        | _ => TStart (tag_name t) (tree_attrs attrs) :: toks_list FirstChild kids ++ [TEnd (tag_name t)]
        end, NextChild).
Proof.
  assert (E : forall p0 l,
    (fix go (p : pos) (l : list view) {struct l} : list token :=
       match l with
       | [] => []
       | k :: l' => let '(ts, p') := toks p k in ts ++ go p' l'
       end) p0 l = toks_list p0 l).
  { intros p0 l. revert p0. induction l as [|k l IH]; intros p0; [reflexivity|].
    cbn [toks_list]. destruct (toks p0 k). now rewrite IH. }
  cbn [toks]. rewrite E. reflexivity.
Qed.

Lemma view_ok_el t attrs kids :
  view_ok (VEl t attrs kids) = true ->
  forallb attr_ok attrs = true /\ forallb view_ok kids = true
  /\ (match t with
      | Textarea | ScriptT | StyleT => forallb text_like kids
      | Title => match kids with [] => true | [k] => text_like k | _ => false end
      | _ => true
      end) = true.
Proof.
  cbn [view_ok]. intros H. apply andb_true_iff in H. destruct H as [H H3].
  apply andb_true_iff in H. destruct H as [H1 H2]. repeat split; assumption.
Qed.

Lemma known_class_el t attrs kids :
  known_class (VEl t attrs kids) = false ->
  raw_breakout t kids = false /\ forallb (fun k => negb (known_class k)) kids = true.
Proof.
  cbn [known_class]. intros H. apply orb_false_iff in H. destruct H as [H1 H2]. split; [assumption|].
  clear - H2. induction kids as [|k l IH]; [reflexivity|].
  apply orb_false_iff in H2. destruct H2 as [Hk Hl]. cbn [forallb]. rewrite Hk. now apply IH.
Qed.

(** ** induction on views *)
Section ViewInd.
  Variable P : view -> Prop.
  Hypothesis Htext : forall s, P (VText s).
  Hypothesis Hchar : forall c, P (VChar c).
  Hypothesis Hnum : forall z, P (VNum z).
  Hypothesis Hunit : P VUnit.
  Hypothesis Hel : forall t attrs kids, Forall P kids -> P (VEl t attrs kids).
  Fixpoint view_ind' (v : view) : P v :=
    match v with
    | VText s => Htext s
    | VChar c => Hchar c
    | VNum z => Hnum z
    | VUnit => Hunit
    | VEl t attrs kids =>
        Hel t attrs kids
          ((fix go (l : list view) : Forall P l :=
              match l with
              | [] => Forall_nil P
              | k :: l' => Forall_cons k (view_ind' k) (go l')
              end) kids)
    end.
End ViewInd.

(** ** small facts about rendered pieces *)
Lemma dec_fuel_nonempty f : forall n acc, acc <> [] -> dec_fuel f n acc <> [].
Proof.
  induction f as [|f IH]; intros n acc Ha; cbn [dec_fuel]; [assumption|].
  destruct (n <? 10); [discriminate | apply IH; discriminate].
Qed.
Lemma dec_nonempty n : dec n <> [].
Proof. unfold dec. cbn [dec_fuel]. destruct (n <? 10); [discriminate | apply dec_fuel_nonempty; discriminate]. Qed.
Lemma dec_z_nonempty z : dec_z z <> [].
Proof. destruct z; cbn [dec_z]; [discriminate | apply dec_nonempty | discriminate]. Qed.
Lemma utf8_nonempty c : utf8 c <> [].
Proof. unfold utf8. repeat match goal with |- context [if ?b then _ else _] => destruct b end; discriminate. Qed.

Lemma encode_text_nonempty s : s <> [] -> encode_text s <> [].
Proof.
  destruct s as [|c s]; [contradiction|]. intros _. cbn [encode_text flat_map]. unfold esc_text_byte.
  repeat match goal with |- context [if ?b then _ else _] => destruct b end; discriminate.
Qed.

Lemma shown_nonempty v : text_like v = true -> shown v <> [].
Proof.
  destruct v as [s|c|z| |t a k]; cbn [text_like shown leaf_or_empty leaf_text]; try discriminate; intros _.
  - destruct s; discriminate.
  - apply utf8_nonempty.
  - apply dec_z_nonempty.
Qed.

Definition sep_bytes (p : pos) : bytes := match p with AfterText => marker | _ => [] end.

Lemma render_text_like p v :
  text_like v = true -> render true p v = (sep_bytes p ++ encode_text (shown v), AfterText).
Proof.
  destruct v as [s|c|z| |t a k]; cbn [text_like]; try discriminate; intros _;
    cbn [render leaf_text shown leaf_or_empty]; f_equal; f_equal.
  destruct s; reflexivity.
Qed.

Lemma toks_text_like p v :
  text_like v = true -> toks p v = (sep_toks p ++ chars_toks (norm_body (shown v)), AfterText).
Proof. destruct v; cbn [text_like]; try discriminate; reflexivity. Qed.

Lemma stops_marker x : stops MBody (marker ++ x).
Proof. right. eexists. split; reflexivity. Qed.
Lemma stops_start_tag t x : stops MBody (60 :: tag_name t ++ x).
Proof. right. eexists. split; [reflexivity | apply start_tag_starts]. Qed.
Lemma stops_end_tag x : stops MBody ([60; 47] ++ x).
Proof. right. eexists. split; reflexivity. Qed.

Lemma stops_render_list l tail :
  stops MBody tail -> stops MBody (render_list true AfterText l ++ tail).
Proof.
  intros Hs. destruct l as [|k l]; [exact Hs|]. cbn [render_list].
  destruct k as [s|c|z| |t a kids].
  - rewrite (render_text_like AfterText (VText s) eq_refl). cbn [sep_bytes]. rewrite <- !app_assoc. apply stops_marker.
  - rewrite (render_text_like AfterText (VChar c) eq_refl). cbn [sep_bytes]. rewrite <- !app_assoc. apply stops_marker.
  - rewrite (render_text_like AfterText (VNum z) eq_refl). cbn [sep_bytes]. rewrite <- !app_assoc. apply stops_marker.
  - cbn [render]. rewrite <- app_assoc. apply stops_marker.
  - rewrite render_el. rewrite <- !app_assoc. cbn [app]. apply stops_start_tag.
Qed.

Lemma strip_ci_self nm x : lower_name nm -> strip_ci nm (nm ++ x) = Some x.
Proof.
  induction 1 as [|c nm Hc _ IH]; [reflexivity|]. cbn [app strip_ci].
  destruct (lower_props c Hc) as (_ & _ & Hl). rewrite Hl, N.eqb_refl. exact IH.
Qed.

Lemma is_end_tag_self t x : is_end_tag_for (tag_name t) (47 :: tag_name t ++ 62 :: x) = true.
Proof. unfold is_end_tag_for. now rewrite (strip_ci_self _ _ (tag_name_lower t)). Qed.

Lemma render_list_raw l : forall p,
  forallb text_like l = true -> render_list false p l = raw_text l.
Proof.
  induction l as [|k l IH]; intros p H; [reflexivity|].
  cbn [forallb] in H. apply andb_true_iff in H. destruct H as [Hk Hl].
  cbn [render_list raw_text].
  destruct k as [s|c|z| |t a kids]; cbn [text_like] in Hk; try discriminate;
    cbn [render leaf_text]; rewrite IH by assumption.
  - destruct p; destruct s; reflexivity.
  - destruct p; reflexivity.
  - destruct p; reflexivity.
Qed.

Lemma length_app_lt (h : bytes) x : h <> [] -> (length x < length (h ++ x))%nat.
Proof. intros H. rewrite app_length. destruct h; [contradiction | cbn [length]; lia]. Qed.

(** ** the main induction: a rendered view tokenizes to the tokens of the view *)
Definition TokP (v : view) : Prop :=
  forall p tail more,
    view_ok v = true -> known_class v = false ->
    (text_like v = true -> stops MBody tail) ->
    Toks tail more ->
    Toks (fst (render true p v) ++ tail) (fst (toks p v) ++ more).

Lemma pos_agree v p : snd (render true p v) = snd (toks p v).
Proof. destruct v; reflexivity. Qed.

Lemma Toks_step1 inp tok rest more :
  inp <> [] -> next_tokens inp = Some ([tok], rest) -> (length rest < length inp)%nat ->
  Toks rest more -> Toks inp (tok :: more).
Proof. intros. change (tok :: more) with ([tok] ++ more). now eapply Toks_step; eauto. Qed.
Lemma Toks_step2 inp tok1 tok2 rest more :
  inp <> [] -> next_tokens inp = Some ([tok1; tok2], rest) -> (length rest < length inp)%nat ->
  Toks rest more -> Toks inp (tok1 :: tok2 :: more).
Proof. intros. change (tok1 :: tok2 :: more) with ([tok1; tok2] ++ more). now eapply Toks_step; eauto. Qed.

Lemma Toks_end_tag t tail more :
  Toks tail more -> Toks ([60; 47] ++ tag_name t ++ 62 :: tail) (TEnd (tag_name t) :: more).
Proof.
  intros H. change (TEnd (tag_name t) :: more) with ([TEnd (tag_name t)] ++ more).
  eapply Toks_step; [discriminate | apply end_tag_tokens | | exact H].
  cbn [app length]. rewrite app_length. cbn [length]. lia.
Qed.

Lemma Toks_marker x more : Toks x more -> Toks (marker ++ x) (TComment [] :: more).
Proof.
  intros H. change (TComment [] :: more) with ([TComment []] ++ more).
  eapply Toks_step; [discriminate | apply marker_tokens | | exact H].
  unfold marker. cbn [app length]. lia.
Qed.

Lemma TokP_text_like v : text_like v = true -> TokP v.
Proof.
  intros Ht p tail more _ _ Hs Hm. specialize (Hs Ht).
  rewrite (render_text_like p v Ht), (toks_text_like p v Ht). cbn [fst snd].
  assert (Htxt : Toks (encode_text (shown v) ++ tail) (chars_toks (norm_body (shown v)) ++ more)).
  { eapply Toks_step; [| | |exact Hm].
    - intros E. apply app_eq_nil in E. destruct E as [E _].
      now apply (encode_text_nonempty _ (shown_nonempty v Ht)).
    - apply next_tokens_text; [apply encode_text_nonempty, shown_nonempty, Ht|].
      now apply text_roundtrip.
    - apply length_app_lt, encode_text_nonempty, shown_nonempty, Ht. }
  destruct p; cbn [sep_bytes sep_toks app]; try exact Htxt.
  rewrite <- app_assoc. now apply Toks_marker.
Qed.

Lemma TokP_unit : TokP VUnit.
Proof.
  intros p tail more _ _ _ Hm. cbn [render toks fst snd].
  now apply Toks_marker.
Qed.

Lemma TokP_list l :
  Forall TokP l -> forall p tail more,
  forallb view_ok l = true -> forallb (fun k => negb (known_class k)) l = true ->
  stops MBody tail -> Toks tail more ->
  Toks (render_list true p l ++ tail) (toks_list p l ++ more).
Proof.
  induction 1 as [|k l Hk _ IH]; intros p tail more Hok Hkn Hs Hm; [exact Hm|].
  cbn [forallb] in Hok, Hkn. apply andb_true_iff in Hok, Hkn.
  destruct Hok as [Hok1 Hok2]. destruct Hkn as [Hkn1 Hkn2]. apply negb_true_iff in Hkn1.
  cbn [render_list toks_list].
  destruct (render true p k) as [h p1] eqn:Er. destruct (toks p k) as [ts p2] eqn:Et.
  rewrite <- !app_assoc.
  assert (Htail : text_like k = true -> stops MBody (render_list true p1 l ++ tail)).
  { intros Ht. rewrite (render_text_like p k Ht) in Er. injection Er as _ <-. now apply stops_render_list. }
  assert (Hp := pos_agree k p). rewrite Er, Et in Hp. cbn [snd] in Hp. subst p2.
  assert (H1 := Hk p (render_list true p1 l ++ tail) (toks_list p1 l ++ more) Hok1 Hkn1 Htail).
  rewrite Er, Et in H1. cbn [fst] in H1. apply H1. now apply IH.
Qed.

Lemma TokP_el t attrs kids : Forall TokP kids -> TokP (VEl t attrs kids).
Proof.
  intros Hkids p tail more Hok Hkn _ Hm.
  destruct (view_ok_el t attrs kids Hok) as (Hattrs & Hkok & Hshape).
  destruct (known_class_el t attrs kids Hkn) as (Hraw & Hkkn).
  rewrite render_el, toks_el. cbn [fst snd].
  rewrite <- !app_assoc. cbn [app].
  (* the start tag *)
  assert (Hstart : forall X,
    next_tokens (60 :: tag_name t ++ attrs_html attrs ++ 62 :: X)
    = markup_tokens (60 :: tag_name t ++ attrs_html attrs ++ 62 :: X)).
  { intros X. apply next_tokens_markup, start_tag_starts. }
  assert (Hlen : forall (X Y : bytes), Nat.le (length Y) (length X) ->
    Nat.lt (length Y) (length (60 :: tag_name t ++ attrs_html attrs ++ 62 :: X))).
  { intros X Y H. cbn [length]. rewrite !app_length. cbn [length]. lia. }
  destruct t; cbn [is_void escape_children] in *;
    repeat rewrite <- app_assoc; cbn [app]; repeat rewrite <- app_assoc; cbn [app].
  - (* div *)
    eapply Toks_step1; [discriminate | rewrite Hstart, (start_tag_tokens Div attrs _ Hattrs); reflexivity | apply Hlen; lia |].
    apply (TokP_list kids Hkids); try assumption; [apply stops_end_tag | now apply (Toks_end_tag Div)].
  - (* span *)
    eapply Toks_step1; [discriminate | rewrite Hstart, (start_tag_tokens Span attrs _ Hattrs); reflexivity | apply Hlen; lia |].
    apply (TokP_list kids Hkids); try assumption; [apply stops_end_tag | now apply (Toks_end_tag Span)].
  - (* section *)
    eapply Toks_step1; [discriminate | rewrite Hstart, (start_tag_tokens Section attrs _ Hattrs); reflexivity | apply Hlen; lia |].
    apply (TokP_list kids Hkids); try assumption; [apply stops_end_tag | now apply (Toks_end_tag Section)].
  - (* input *)
    eapply Toks_step1; [discriminate | rewrite Hstart, (start_tag_tokens Input attrs _ Hattrs); reflexivity | apply Hlen; lia | exact Hm].
  - (* br *)
    eapply Toks_step1; [discriminate | rewrite Hstart, (start_tag_tokens Br attrs _ Hattrs); reflexivity | apply Hlen; lia | exact Hm].
  - (* img *)
    eapply Toks_step1; [discriminate | rewrite Hstart, (start_tag_tokens Img attrs _ Hattrs); reflexivity | apply Hlen; lia | exact Hm].
  - (* textarea: the content is the escaped raw text of the children *)
    rewrite (render_list_raw kids FirstChild Hshape).
    eapply Toks_step2; [discriminate | | | apply (Toks_end_tag Textarea), Hm].
    + rewrite Hstart, (start_tag_tokens Textarea attrs _ Hattrs).
      change (classify (tag_name Textarea)) with KRcdata. cbv iota.
      rewrite rcdata_roundtrip; [reflexivity|].
      eexists. split; [reflexivity | apply (is_end_tag_self Textarea)].
    + apply Hlen. cbn [app]. rewrite !app_length. cbn [app length]. rewrite ?app_length. cbn [length]. lia.
  - (* title: at most one text-like child, rendered as in an ordinary element *)
    assert (Hinner : render_list true FirstChild kids = encode_text (title_text kids)).
    { destruct kids as [|k [|k2 ks]]; [reflexivity | | discriminate].
      cbn [render_list title_text]. rewrite (render_text_like FirstChild k Hshape). cbn [sep_bytes app].
      now rewrite app_nil_r. }
    rewrite Hinner.
    eapply Toks_step2; [discriminate | | | apply (Toks_end_tag Title), Hm].
    + rewrite Hstart, (start_tag_tokens Title attrs _ Hattrs).
      change (classify (tag_name Title)) with KRcdata. cbv iota.
      rewrite rcdata_roundtrip; [reflexivity|].
      eexists. split; [reflexivity | apply (is_end_tag_self Title)].
    + apply Hlen. cbn [app]. rewrite !app_length. cbn [app length]. rewrite ?app_length. cbn [length]. lia.
  - (* script *)
    rewrite (render_list_raw kids FirstChild Hshape).
    cbn [raw_breakout] in Hraw. apply orb_false_iff in Hraw. destruct Hraw as [Hr1 Hr2].
    eapply Toks_step2; [discriminate | | | apply (Toks_end_tag ScriptT), Hm].
    + rewrite Hstart, (start_tag_tokens ScriptT attrs _ Hattrs).
      change (classify (tag_name ScriptT)) with KRaw. cbv iota.
      rewrite (raw_roundtrip (tag_name ScriptT) (raw_text kids) false
                 (47 :: tag_name ScriptT ++ 62 :: tail) (tag_name_lower ScriptT) (is_end_tag_self ScriptT tail) Hr1 (fun _ => Hr2)).
      reflexivity.
    + apply Hlen. cbn [app]. rewrite !app_length. cbn [app length]. rewrite ?app_length. cbn [length]. lia.
  - (* style *)
    rewrite (render_list_raw kids FirstChild Hshape).
    cbn [raw_breakout] in Hraw.
    eapply Toks_step2; [discriminate | | | apply (Toks_end_tag StyleT), Hm].
    + rewrite Hstart, (start_tag_tokens StyleT attrs _ Hattrs).
      change (classify (tag_name StyleT)) with KRaw. cbv iota.
      rewrite (raw_roundtrip (tag_name StyleT) (raw_text kids) false
                 (47 :: tag_name StyleT ++ 62 :: tail) (tag_name_lower StyleT) (is_end_tag_self StyleT tail) Hraw).
      * reflexivity.
      * intros Hb. discriminate Hb.
    + apply Hlen. cbn [app]. rewrite !app_length. cbn [app length]. rewrite ?app_length. cbn [length]. lia.
Qed.

Lemma TokP_all v : TokP v.
Proof.
  induction v using view_ind'.
  - now apply TokP_text_like.
  - now apply TokP_text_like.
  - now apply TokP_text_like.
  - apply TokP_unit.
  - now apply TokP_el.
Qed.

(** * tree construction on the tokens of a view *)
Fixpoint push_nodes (ns : list node) (stack : list frame) (top : list node) : list frame * list node :=
  match ns with
  | [] => (stack, top)
  | n :: ns' => let '(st, tp) := push_node n stack top in push_nodes ns' st tp
  end.

Lemma push_nodes_app a b stack top :
  push_nodes (a ++ b) stack top = let '(st, tp) := push_nodes a stack top in push_nodes b st tp.
Proof.
  revert stack top. induction a as [|n a IH]; intros stack top; [reflexivity|].
  cbn [app push_nodes]. destruct (push_node n stack top). apply IH.
Qed.

Lemma push_nodes_frame ns fr st top :
  push_nodes ns (fr :: st) top
  = ({| fr_name := fr_name fr; fr_attrs := fr_attrs fr; fr_kids := fr_kids fr ++ ns |} :: st, top).
Proof.
  revert fr. induction ns as [|n ns IH]; intros fr.
  - cbn [push_nodes]. rewrite app_nil_r. now destruct fr.
  - cbn [push_nodes push_node]. rewrite IH. cbn [fr_name fr_attrs fr_kids]. now rewrite <- app_assoc.
Qed.

Lemma push_nodes_top ns top : push_nodes ns [] top = ([], top ++ ns).
Proof.
  revert top. induction ns as [|n ns IH]; intros top; cbn [push_nodes push_node].
  - now rewrite app_nil_r.
  - rewrite IH. now rewrite <- app_assoc.
Qed.

Lemma tree_el p t attrs kids :
  tree p (VEl t attrs kids) =
  ([NEl (tag_name t) (tree_attrs attrs)
      (if is_void t then []
       else match t with
            | Textarea => text_nodes (drop_lf (norm_attr (raw_text kids)))
            | ScriptT | StyleT => text_nodes (norm_attr (raw_text kids))
            | Title => text_nodes (norm_attr (title_text kids))
            | _ => tree_list FirstChild kids
            end)], NextChild).
Proof.
  assert (E : forall p0 l,
    (fix go (p : pos) (l : list view) {struct l} : list node :=
       match l with
       | [] => []
       | k :: l' => let '(ns, p') := tree p k in ns ++ go p' l'
       end) p0 l = tree_list p0 l).
  { intros p0 l. revert p0. induction l as [|k l IH]; intros p0; [reflexivity|].
    cbn [tree_list]. destruct (tree p0 k). now rewrite IH. }
  cbn [tree]. rewrite E. destruct t; cbn [is_void]; try reflexivity.
  destruct kids as [|k [|k2 ks]]; try reflexivity.
  all: cbn [title_text shown leaf_or_empty]; destruct k as [[|c s]|c|z| |t' a' k']; reflexivity.
Qed.

Lemma build_chars s more stack top :
  build (chars_toks s ++ more) stack top
  = let '(st, tp) := push_nodes (text_nodes s) stack top in build more st tp.
Proof.
  destruct s as [|c s]; [reflexivity|]. cbn [chars_toks text_nodes app build push_nodes].
  now destruct (push_node (NText (c :: s)) stack top).
Qed.

Definition BuildP (v : view) : Prop :=
  forall p more stack top,
    view_ok v = true ->
    build (fst (toks p v) ++ more) stack top
    = let '(st, tp) := push_nodes (fst (tree p v)) stack top in build more st tp.

Lemma tree_pos_agree v p : snd (toks p v) = snd (tree p v).
Proof. destruct v; reflexivity. Qed.

Lemma shown_norm v :
  text_like v = true ->
  norm_body (shown v) = match v with VText [] => [32] | _ => norm_body (leaf_or_empty v) end.
Proof. destruct v as [[|c s]|c|z| |t a k]; cbn [text_like]; try discriminate; reflexivity. Qed.

Lemma BuildP_text_like v : text_like v = true -> BuildP v.
Proof.
  intros Ht p more stack top _. rewrite (toks_text_like p v Ht). cbn [fst].
  assert (Et : fst (tree p v) = (match p with AfterText => [NComment []] | _ => [] end)
                                ++ text_nodes (norm_body (shown v))).
  { rewrite (shown_norm v Ht). destruct v as [[|c s]|c|z| |t a k]; cbn [text_like] in Ht; try discriminate; reflexivity. }
  rewrite Et. rewrite <- app_assoc, push_nodes_app.
  destruct p; cbn [sep_toks app push_nodes]; try apply build_chars.
  cbn [build]. destruct (push_node (NComment []) stack top). apply build_chars.
Qed.

Lemma BuildP_list l :
  Forall BuildP l -> forall p more stack top,
  forallb view_ok l = true ->
  build (toks_list p l ++ more) stack top
  = let '(st, tp) := push_nodes (tree_list p l) stack top in build more st tp.
Proof.
  induction 1 as [|k l Hk _ IH]; intros p more stack top Hok; [reflexivity|].
  cbn [forallb] in Hok. apply andb_true_iff in Hok. destruct Hok as [Hk1 Hl].
  cbn [toks_list tree_list].
  assert (Hp := tree_pos_agree k p).
  destruct (toks p k) as [ts p1] eqn:Et. destruct (tree p k) as [ns p2] eqn:En. cbn [snd] in Hp. subst p2.
  rewrite <- app_assoc. specialize (Hk p (toks_list p1 l ++ more) stack top Hk1).
  rewrite Et, En in Hk. cbn [fst] in Hk. rewrite Hk. rewrite push_nodes_app.
  destruct (push_nodes ns stack top) as [st tp]. now apply IH.
Qed.

Lemma classify_tag t :
  classify (tag_name t) =
  match t with
  | Div | Span | Section => KOrdinary
  | Input | Br | Img => KVoid
  | Textarea | Title => KRcdata
  | ScriptT | StyleT => KRaw
  end.
Proof. destruct t; reflexivity. Qed.

Lemma beq_refl_name t : beq (tag_name t) (tag_name t) = true.
Proof. destruct t; reflexivity. Qed.

(** a text-only element: start tag, its text, end tag *)
Lemma build_text_element t attrs content more stack top :
  (match classify (tag_name t) with KRcdata | KRaw => True | _ => False end) ->
  build (TStart (tag_name t) attrs :: TChars content :: TEnd (tag_name t) :: more) stack top
  = let '(st, tp) := push_node (NEl (tag_name t) attrs (text_nodes content)) stack top in build more st tp.
Proof.
  intros Hc. cbn [build]. destruct (classify (tag_name t)) eqn:E; try contradiction;
    destruct content as [|c s]; cbn [build push_node fr_name fr_attrs fr_kids text_nodes app];
    rewrite beq_refl_name; reflexivity.
Qed.

Lemma BuildP_el t attrs kids : Forall BuildP kids -> BuildP (VEl t attrs kids).
Proof.
  intros Hkids p more stack top Hok.
  destruct (view_ok_el t attrs kids Hok) as (_ & Hkok & _).
  rewrite toks_el, tree_el. cbn [fst push_nodes].
  destruct t; cbn [is_void app].
  1-3: cbn [build]; rewrite classify_tag; cbv iota; rewrite <- app_assoc;
       rewrite (BuildP_list kids Hkids FirstChild _ _ top Hkok); rewrite push_nodes_frame;
       cbn [fr_name fr_attrs fr_kids app build]; rewrite beq_refl_name;
       now destruct (push_node _ stack top).
  1-3: cbn [build]; rewrite classify_tag; cbv iota; now destruct (push_node _ stack top).
  all: rewrite build_text_element by (rewrite classify_tag; exact I);
       now destruct (push_node _ stack top).
Qed.

Lemma BuildP_all v : BuildP v.
Proof.
  induction v using view_ind'.
  - now apply BuildP_text_like.
  - now apply BuildP_text_like.
  - now apply BuildP_text_like.
  - intros p more stack top _. cbn [toks tree fst app build push_nodes]. now destruct (push_node (NComment []) stack top).
  - now apply BuildP_el.
Qed.

(** * the theorems *)
(** for every view of the grammar with arbitrary byte strings in every string-valued position,
    outside the class of open finding F-C06-b, the HTML that is emitted parses to exactly the
    tree of the view: the element structure is the view's, the text and attribute values are
    the strings (modulo HTML's own NUL / newline rules); in particular the parse succeeds, so
    nothing in the output leaves the transcribed subset of the parsing algorithm *)
Lemma render_parses_except_known v :
  view_ok v = true -> known_class v = false ->
  parse_fragment (to_html v) = Some (tree_of v).
Proof.
  intros Hok Hkn. unfold parse_fragment, to_html, tree_of.
  assert (HT := TokP_all v FirstChild [] [] Hok Hkn (fun _ => or_introl eq_refl) Toks_nil).
  rewrite !app_nil_r in HT.
  rewrite (Toks_tokenize _ _ HT _ (le_n _)).
  assert (HB := BuildP_all v FirstChild [] [] [] Hok). rewrite app_nil_r in HB. rewrite HB.
  rewrite push_nodes_top. reflexivity.
Qed.

Definition str_script_breakout : bytes :=   (* </script><img src=^x^><script>, ^ = double quote *)
  [60; 47; 115; 99; 114; 105; 112; 116; 62; 60; 105; 109; 103; 32; 115; 114; 99; 61; 34; 120; 34; 62; 60; 115; 99; 114; 105; 112; 116; 62].

(** open finding F-C06-b: a string child of script (or style) that contains the element's end
    tag ends it; here the data injects an img element *)
Example render_parses_refuted :
  exists v, view_ok v = true /\ known_class v = true /\
    parse_fragment (to_html v)
    = Some [NEl script_name [] []; NEl [105; 109; 103] [([115; 114; 99], [120])] []; NEl script_name [] []]
    /\ tree_of v = [NEl script_name [] [NText str_script_breakout]].
Proof.
  exists (VEl ScriptT [] [VText str_script_breakout]).
  repeat split; vm_compute; reflexivity.
Qed.

(** the hypotheses are satisfiable by a view that exercises every position *)
Definition hostile06 : bytes := [34; 39; 62; 60; 47; 116; 105; 116; 108; 101; 62; 38; 97; 109; 112; 59; 0; 13; 10].
Definition demo_view : view :=
  VEl Div [AStr [116; 105; 116; 108; 101] hostile06; ABool [104; 105; 100; 100; 101; 110] true; AClass hostile06;
           AToggle hostile06 true; AStyle hostile06; AProp [99; 111; 108; 111; 114] hostile06; AId hostile06]
    [VText hostile06; VText []; VChar 60; VNum (-5)%Z; VUnit;
     VEl Textarea [] [VText hostile06; VChar 38];
     VEl Title [] [VText hostile06];
     VEl ScriptT [] [VText [97; 60; 98; 38; 99]];
     VEl Input [AStr [118; 97; 108; 117; 101] hostile06] [];
     VEl Span [] [VText hostile06]].
Example render_parses_nonvacuous :
  view_ok demo_view = true /\ known_class demo_view = false /\
  parse_fragment (to_html demo_view) = Some (tree_of demo_view).
Proof. repeat split; vm_compute; reflexivity. Qed.

(** * document title and meta content (leptos_meta) *)
Definition title_nodes (t : bytes) : list node := [NEl title_name [] (text_nodes (norm_attr t))].

(** the <title> element injected into <head> parses to a title element whose text is exactly
    the title string, whatever it contains *)
Lemma title_parses t : parse_fragment (title_html t) = Some (title_nodes t).
Proof.
  destruct t as [|c s]; [vm_compute; reflexivity|].
  assert (E : title_html (c :: s) = to_html (VEl Title [] [VText (c :: s)])).
  { unfold to_html. rewrite render_el. cbn [fst is_void escape_children render_list render leaf_text].
    unfold title_html. cbn [tag_name app]. now rewrite app_nil_r. }
  rewrite E. rewrite render_parses_except_known by reflexivity.
  unfold tree_of. rewrite tree_el. reflexivity.
Qed.

Definition meta_name : bytes := [109; 101; 116; 97].
Definition name_attr : bytes := [110; 97; 109; 101].
Definition content_attr : bytes := [99; 111; 110; 116; 101; 110; 116].

Lemma meta_tokens n c rest :
  markup_tokens (60 :: meta_name ++ attr_html name_attr n ++ attr_html content_attr c ++ 62 :: rest)
  = Some ([TStart meta_name [(name_attr, norm_attr n); (content_attr, norm_attr c)]], rest).
Proof.
  set (X := attr_html name_attr n ++ attr_html content_attr c ++ 62 :: rest).
  assert (HX : exists r, X = 32 :: r) by (eexists; reflexivity). destruct HX as [r EX].
  assert (Hn : scan_tag_name (meta_name ++ X) = (meta_name, X)).
  { rewrite EX. apply scan_tag_name_lower; [repeat constructor | reflexivity]. }
  assert (Hs : scan_attrs AGap [] X = Some ([(name_attr, norm_attr n); (content_attr, norm_attr c)], rest)).
  { subst X. change AGap with (state_of None).
    rewrite scan_str_attr by reflexivity. change AGap with (state_of None).
    rewrite scan_str_attr by reflexivity. change AGap with (state_of None).
    rewrite scan_close. reflexivity. }
  unfold markup_tokens. cbn [meta_name app] in *. rewrite Hn, Hs. reflexivity.
Qed.

(** the <meta name=.. content=..> element parses to one void element with exactly these two
    attribute values *)
Lemma meta_parses n c :
  parse_fragment (meta_html n c)
  = Some [NEl meta_name [(name_attr, norm_attr n); (content_attr, norm_attr c)] []].
Proof.
  unfold parse_fragment.
  assert (HT : Toks (meta_html n c) [TStart meta_name [(name_attr, norm_attr n); (content_attr, norm_attr c)]]).
  { eapply Toks_step1; [discriminate | | | apply Toks_nil].
    - assert (E : meta_html n c = 60 :: meta_name ++ attr_html name_attr n ++ attr_html content_attr c ++ 62 :: [])
        by reflexivity.
      rewrite E. rewrite next_tokens_markup by reflexivity. apply meta_tokens.
    - unfold meta_html. cbn [app length]. lia. }
  rewrite (Toks_tokenize _ _ HT _ (le_n _)). reflexivity.
Qed.
