(** Executable entry point of the C07 model for the correspondence check.
    case = (0 ooo drive tree init sched)   obs = (ref ref2 events)   — see harness/stream. *)
From Coq Require Import List ZArith NArith Bool.
From LV Require Import Base.Sexp Html.Stream.
Import ListNotations.
Open Scope N_scope.

(** Views that tachys renders exactly like a view of the grammar are decoded to that view
    (the correspondence check compares them with the real types): [Vec<T>] and a keyed list = their items followed
    by the unit view (the [<!>] end marker, position NextChild); [Option]: [Some v] = [v],
    [None] = unit; [Either*]/[Result::Ok]/[OwnedView]/[View]/[[T; 1]] = their content; non-empty
    arrays / [StaticVec] / [Fragment] = the tuple of their items; [&str], [Cow], [Arc<str>],
    [Oco], integers = the text node of their characters; chained [.child()] calls = one tuple
    child. *)
Fixpoint view_of (s : sexp) : view :=
  match s with
  | Num _ => VTuple []
  | Lst l =>
    let go := (fix go (l : list sexp) : list view :=
                 match l with [] => [] | x :: l => view_of x :: go l end) in
    match l with
    | Num k :: rest =>
      match k, rest with
      | 0%Z, [t] => VText (as_bytes t)
      | 1%Z, [t; c] => VElem (as_N t mod 4) (view_of c)
      | 2%Z, _ => VTuple (go rest)
      | 3%Z, [f; c] => VSuspend (as_N f) (view_of c)
      | 4%Z, [f; fb; c; sm] => VBoundary (as_N f) (view_of fb) (view_of c) (as_bool sm)
      | 5%Z, [c] => VAppend (view_of c)
      | 6%Z, [t] => VRawSync (as_bytes t)
      | 7%Z, [f; c] => VRawAsync (as_N f) (view_of c)
      | 8%Z, _ => VTuple (go rest ++ [VTuple []])
      | 29%Z, _ => VTuple (go rest ++ [VTuple []])
      | 9%Z, [c] => view_of c
      | 15%Z, [_; c] => view_of c
      | 16%Z, _ :: cs => VTuple (go cs)
      | 26%Z, [_; t] => VText (as_bytes t)
      | 27%Z, t :: cs => VElem (as_N t mod 4) (VTuple (go cs))
      | _, _ => VTuple []
      end
    | _ => VTuple []
    end
  end.

Definition event_of (s : sexp) : event :=
  match as_Z (nth_s 0 s) with
  | 0%Z => EComplete (as_N (nth_s 1 s))
  | _ => EPoll
  end.

Fixpoint insert_sorted (x : N) (l : list N) : list N :=
  match l with
  | [] => [x]
  | y :: l' => if x <=? y then x :: l else y :: insert_sorted x l'
  end.
Definition sort_N (l : list N) : list N := fold_right insert_sorted [] l.

Definition s_html (h : html) : sexp := sbytes (serialize h).

Definition s_obs (o : obs) : sexp :=
  match o with
  | OPending => Lst [Num 0]
  | OSome s => Lst [Num 1; s_html s]
  | ONone => Lst [Num 2]
  | OWake n => Lst [Num 3; sN n]
  | OStall => Lst [Num 8]
  | OBound => Lst [Num 9]
  | OFuel => Lst [Num 10]
  | OPanic => Lst [Num 11]
  end.

Definition poll_bound : nat := 64.

Definition init_state (ooo : bool) (init : list fid) (v : view) : run_state clo oclo :=
  {| rs_sb := stream_of ooo (fun f => memf f init) v;
     rs_done := init; rs_reg := []; rs_ended := false |}.

Definition completes (ev : list event) : list fid :=
  flat_map (fun e => match e with EComplete f => [f] | EPoll => [] end) ev.

(** drive 0: the schedule, then complete what is left, then at most [n] polls *)
Definition run_free (n : nat) (ooo : bool) (v : view) (init : list fid) (ev : list event)
  : list obs :=
  let fuel := poll_fuel v in
  let s := init_state ooo init v in
  let '(s, l1) := run_events _ _ res_clo res_oclo fuel ev s in
  let '(s, l2) := complete_all _ _ (sort_N (futures_of v)) s in
  let '(_, l3) := drain _ _ res_clo res_oclo fuel n s in
  l1 ++ l2 ++ l3.

(** drive 1: an executor ([n] bounds the polls of one wake-up) *)
Definition run_executor (n : nat) (ooo : bool) (v : view) (init : list fid) (ev : list event)
  : list obs :=
  let fuel := poll_fuel v in
  let s := init_state ooo init v in
  let '(s, l1) := run_task _ _ res_clo res_oclo fuel n s in
  let '(_, l2) := run_exec _ _ res_clo res_oclo fuel n
                    (completes ev ++ sort_N (futures_of v)) s in
  l1 ++ l2.

(** the harness' reference: every future complete before rendering, in-order stream *)
Definition reference (v : view) : list obs :=
  let s := {| rs_sb := stream_of false (fun _ => true) v;
              rs_done := futures_of v; rs_reg := []; rs_ended := false |} in
  snd (drain _ _ res_clo res_oclo (poll_fuel v) poll_bound s).

Fixpoint has_raw (v : view) : bool :=
  match v with
  | VText _ => false
  | VElem _ c | VSuspend _ c => has_raw c
  | VTuple vs => existsb has_raw vs
  | VBoundary _ _ _ _ | VAppend _ | VRawSync _ | VRawAsync _ _ => true
  end.

Definition s_reference (v : view) : sexp :=
  let l := reference v in
  match last l ONone with
  | ONone => s_html (somes l)
  | OPending => Lst [Num (-1); s_html (somes l)]
  | _ => Lst [Num (-2); s_html (somes l)]
  end.

Definition run_C07 (c : sexp) : sexp :=
  match as_Z (nth_s 0 c) with
  | 0%Z =>
      let ooo := as_bool (nth_s 1 c) in
      let v := view_of (nth_s 3 c) in
      let init := map as_N (as_list (nth_s 4 c)) in
      let ev := map event_of (as_list (nth_s 5 c)) in
      let l := match as_Z (nth_s 2 c) with
               | 0%Z => run_free poll_bound ooo v init ev
               | _ => run_executor poll_bound ooo v init ev
               end in
      Lst [ s_reference v;
            (if has_raw v then Lst []
             else Lst [s_html (fst (to_html (fun _ => true) v FirstChild))]);
            Lst (map s_obs l) ]
  | _ => Lst []
  end.
