(** C06 — a partial transcription of the WHATWG HTML parsing algorithm (section 13.2),
    byte level, sufficient for what tachys emits and honest about the rest: every construct
    outside the transcribed subset makes the parser answer [None] (it never guesses).

    Transcribed: newline normalisation (CR, CR LF -> LF; done inside the scanners, which is
    the same as preprocessing the input stream because markup bytes contain no CR); the data
    state with NUL dropped as the "in body" insertion mode does; RCDATA (title, textarea:
    references decoded, NUL -> U+FFFD, leading LF of textarea dropped) and RAWTEXT / script
    data up to the appropriate end tag (a [<!--] inside script is outside the subset);
    character references [&amp; &lt; &gt; &quot;] and the literal ampersand (any other name,
    numeric references: outside the subset); start tags with double-quoted and value-less
    attributes, duplicate attributes dropped, [/>]; end tags; [<!...>] bogus comments,
    [<!-- -->] comments, [<!DOCTYPE html>]; tree construction by a stack for ordinary
    (div, span, section), void (br, img, input, meta, link), RCDATA and raw-text elements,
    requiring proper nesting.  No proofs in this file. *)
From Coq Require Import List NArith Bool.
From LV Require Import Base.Bytes.
Import ListNotations.
Open Scope N_scope.

Inductive node :=
| NText (s : bytes)
| NComment (s : bytes)
| NEl (name : bytes) (attrs : list (bytes * bytes)) (kids : list node).

Inductive token :=
| TChars (s : bytes)
| TComment (s : bytes)
| TStart (name : bytes) (attrs : list (bytes * bytes))
| TEnd (name : bytes)
| TDoctype.

Fixpoint beq (a b : bytes) : bool :=
  match a, b with
  | [], [] => true
  | x :: a', y :: b' => (x =? y) && beq a' b'
  | _, _ => false
  end.

Definition fffd : bytes := [239; 191; 189].
Definition is_ws (c : N) : bool := (c =? 9) || (c =? 10) || (c =? 12) || (c =? 13) || (c =? 32).
Definition is_alpha (c : N) : bool := is_upper c || is_lower c.
Definition lower_b (c : N) : N := if is_upper c then c + 32 else c.
Definition is_tag_delim (c : N) : bool := is_ws c || (c =? 47) || (c =? 62).

(** [p] (lower case) is a prefix of [s], ASCII case-insensitively; returns what follows *)
Fixpoint strip_ci (p s : bytes) : option bytes :=
  match p, s with
  | [], _ => Some s
  | _ :: _, [] => None
  | a :: p', b :: s' => if a =? lower_b b then strip_ci p' s' else None
  end.

(** the four references html_escape produces (13.2.5.73: they end in ';' and no longer name of
    the table starts with one of them) *)
Definition ref_char (buf : bytes) : option N :=
  if beq buf [97; 109; 112] then Some 38
  else if beq buf [108; 116] then Some 60
  else if beq buf [103; 116] then Some 62
  else if beq buf [113; 117; 111; 116] then Some 34
  else None.

Definition ocons (x : N) (r : option (bytes * bytes)) : option (bytes * bytes) :=
  match r with Some (t, rest) => Some (x :: t, rest) | None => None end.
Definition oapp (x : bytes) (r : option (bytes * bytes)) : option (bytes * bytes) :=
  match r with Some (t, rest) => Some (x ++ t, rest) | None => None end.

(** * text *)
Inductive tmode :=
| MBody                       (* data state, tree construction "in body" *)
| MRcdata (name : bytes)      (* RCDATA state for <name> *)
| MRaw (name : bytes).        (* RAWTEXT / script data state for <name> *)

(** after a '<' in the data state: does markup start here? *)
Definition starts_markup (t : bytes) : bool :=
  match t with
  | c :: _ => is_alpha c || (c =? 47) || (c =? 33) || (c =? 63)
  | [] => false
  end.

(** after a '<' in RCDATA / RAWTEXT: is this the appropriate end tag? *)
Definition is_end_tag_for (name t : bytes) : bool :=
  match t with
  | 47 :: t' =>
      match strip_ci name t' with
      | Some (d :: _) => is_tag_delim d
      | _ => false
      end
  | _ => false
  end.

Definition script_name : bytes := [115; 99; 114; 105; 112; 116].
Definition textarea_name : bytes := [116; 101; 120; 116; 97; 114; 101; 97].
Definition title_name : bytes := [116; 105; 116; 108; 101].
Definition style_name : bytes := [115; 116; 121; 108; 101].

(** the text up to the next markup (data state), resp. up to the appropriate end tag, decoded.
    [cr]: the previous byte was a CR (a following LF belongs to it); [rf]: a character
    reference is being read and these are its alphanumerics so far. Returns the text and the
    input from the '<' on; [None]: outside the subset. *)
Fixpoint scan_text (m : tmode) (cr : bool) (rf : option bytes) (inp : bytes) {struct inp}
  : option (bytes * bytes) :=
  match inp with
  | [] =>
      match rf with
      | None => Some ([], [])
      | Some [] => Some ([38], [])
      | Some _ => None
      end
  | c :: t =>
      let normal := fun (_ : unit) =>
        if c =? 60 then
          match m with
          | MBody => if starts_markup t then Some ([], inp) else ocons 60 (scan_text m false None t)
          | MRcdata name =>
              if is_end_tag_for name t then Some ([], inp) else ocons 60 (scan_text m false None t)
          | MRaw name =>
              if is_end_tag_for name t then Some ([], inp)
              else if beq name script_name
                      && match strip_ci [33; 45; 45] t with Some _ => true | None => false end
              then None                   (* "<!--" in script data: escaped states, outside the subset *)
              else ocons 60 (scan_text m false None t)
          end
        else if (c =? 38) && match m with MRaw _ => false | _ => true end then
          scan_text m false (Some []) t
        else if c =? 0 then
          match m with
          | MBody => scan_text m false None t
          | _ => oapp fffd (scan_text m false None t)
          end
        else if c =? 13 then ocons 10 (scan_text m true None t)
        else if c =? 10 then (if cr then scan_text m false None t else ocons 10 (scan_text m false None t))
        else ocons c (scan_text m false None t) in
      match rf with
      | None => normal tt
      | Some buf =>
          if is_alnum c then scan_text m false (Some (buf ++ [c])) t
          else if c =? 59 then
            match buf with
            | [] => ocons 38 (ocons 59 (scan_text m false None t))
            | _ => match ref_char buf with
                   | Some d => ocons d (scan_text m false None t)
                   | None => None
                   end
            end
          else
            match buf with
            | [] => if c =? 35 then None else oapp [38] (normal tt)
            | _ => None
            end
      end
  end.

(** * tags *)
(** tag name state: up to whitespace, '/' or '>' (not consumed), lower-cased *)
Fixpoint scan_tag_name (inp : bytes) : bytes * bytes :=
  match inp with
  | [] => ([], [])
  | c :: t =>
      if is_tag_delim c then ([], inp)
      else let '(n, rest) := scan_tag_name t in
           ((if c =? 0 then fffd else [lower_b c]) ++ n, rest)
  end.

Definition attr := (bytes * bytes)%type.
Definition has_attr (acc : list attr) (n : bytes) : bool := existsb (fun a => beq (fst a) n) acc.
(** a second attribute with the same name is dropped (13.2.5.33) *)
Definition add_attr (acc : list attr) (a : attr) : list attr :=
  if has_attr acc (fst a) then acc else acc ++ [a].

Inductive astate :=
| AGap                                   (* after the tag name / after a quoted value *)
| ABefore                                (* before attribute name *)
| AName (n : bytes)                      (* attribute name *)
| AAfterName (n : bytes)
| ABeforeVal (n : bytes)
| AValDq (n v : bytes) (cr : bool) (rf : option bytes)
| ASlash.                                (* self-closing start tag *)

Definition name_byte (c : N) : bytes := if c =? 0 then fffd else [lower_b c].

(** the attributes of a tag and the input after its '>' *)
Fixpoint scan_attrs (st : astate) (acc : list attr) (inp : bytes) {struct inp}
  : option (list attr * bytes) :=
  match inp with
  | [] => None
  | c :: t =>
      let before := fun (_ : unit) =>
        if is_ws c then scan_attrs ABefore acc t
        else if c =? 47 then scan_attrs ASlash acc t
        else if c =? 62 then Some (acc, t)
        else scan_attrs (AName (name_byte c)) acc t in
      match st with
      | AGap => before tt
      | ABefore => before tt
      | ASlash => if c =? 62 then Some (acc, t) else before tt
      | AName n =>
          if is_ws c then scan_attrs (AAfterName n) acc t
          else if c =? 47 then scan_attrs ASlash (add_attr acc (n, [])) t
          else if c =? 62 then Some (add_attr acc (n, []), t)
          else if c =? 61 then scan_attrs (ABeforeVal n) acc t
          else scan_attrs (AName (n ++ name_byte c)) acc t
      | AAfterName n =>
          if is_ws c then scan_attrs (AAfterName n) acc t
          else if c =? 47 then scan_attrs ASlash (add_attr acc (n, [])) t
          else if c =? 61 then scan_attrs (ABeforeVal n) acc t
          else if c =? 62 then Some (add_attr acc (n, []), t)
          else scan_attrs (AName (name_byte c)) (add_attr acc (n, [])) t
      | ABeforeVal n =>
          if is_ws c then scan_attrs (ABeforeVal n) acc t
          else if c =? 34 then scan_attrs (AValDq n [] false None) acc t
          else if c =? 62 then Some (add_attr acc (n, []), t)
          else None                       (* single-quoted and unquoted values: outside the subset *)
      | AValDq n v cr rf =>
          let normal := fun (_ : unit) =>
            if c =? 34 then scan_attrs AGap (add_attr acc (n, v)) t
            else if c =? 38 then scan_attrs (AValDq n v false (Some [])) acc t
            else if c =? 0 then scan_attrs (AValDq n (v ++ fffd) false None) acc t
            else if c =? 13 then scan_attrs (AValDq n (v ++ [10]) true None) acc t
            else if c =? 10 then
              (if cr then scan_attrs (AValDq n v false None) acc t
               else scan_attrs (AValDq n (v ++ [10]) false None) acc t)
            else scan_attrs (AValDq n (v ++ [c]) false None) acc t in
          match rf with
          | None => normal tt
          | Some buf =>
              if is_alnum c then scan_attrs (AValDq n v false (Some (buf ++ [c]))) acc t
              else if c =? 59 then
                match buf with
                | [] => scan_attrs (AValDq n (v ++ [38; 59]) false None) acc t
                | _ => match ref_char buf with
                       | Some d => scan_attrs (AValDq n (v ++ [d]) false None) acc t
                       | None => None
                       end
                end
              else
                match buf with
                | [] =>
                    if c =? 35 then None
                    else (* a literal '&', then this byte *)
                      if c =? 34 then scan_attrs AGap (add_attr acc (n, v ++ [38])) t
                      else if c =? 38 then scan_attrs (AValDq n (v ++ [38]) false (Some [])) acc t
                      else if c =? 0 then scan_attrs (AValDq n (v ++ [38] ++ fffd) false None) acc t
                      else if c =? 13 then scan_attrs (AValDq n (v ++ [38; 10]) true None) acc t
                      else scan_attrs (AValDq n (v ++ [38; c]) false None) acc t
                | _ => None
                end
          end
      end
  end.

(** after "</": the name and the input after '>' (attributes on end tags: outside the subset) *)
Fixpoint skip_ws_gt (inp : bytes) : option bytes :=
  match inp with
  | [] => None
  | c :: t => if is_ws c then skip_ws_gt t else if c =? 62 then Some t else None
  end.
Definition scan_end_tag (inp : bytes) : option (bytes * bytes) :=
  match inp with
  | c :: _ =>
      if is_alpha c then
        let '(n, rest) := scan_tag_name inp in
        match skip_ws_gt rest with Some r => Some (n, r) | None => None end
      else None
  | [] => None
  end.

(** HTML's own normalisations of a string: CR and CR LF become LF (input stream
    preprocessing); NUL is dropped ("in body" text) or becomes U+FFFD (everywhere else) *)
Fixpoint norm (drop_nul : bool) (cr : bool) (s : bytes) : bytes :=
  match s with
  | [] => []
  | c :: t =>
      if c =? 0 then (if drop_nul then [] else fffd) ++ norm drop_nul false t
      else if c =? 13 then 10 :: norm drop_nul true t
      else if c =? 10 then (if cr then norm drop_nul false t else 10 :: norm drop_nul false t)
      else c :: norm drop_nul false t
  end.
Definition norm_body (s : bytes) : bytes := norm true false s.     (* text in the body *)
Definition norm_attr (s : bytes) : bytes := norm false false s.    (* attribute values, RCDATA, raw text, comments *)

(** * comments and DOCTYPE *)
(** bogus comment state: everything up to '>' (raw; normalised by the caller) *)
Fixpoint scan_bogus (inp : bytes) : bytes * bytes :=
  match inp with
  | [] => ([], [])
  | c :: t =>
      if c =? 62 then ([], t)
      else let '(d, rest) := scan_bogus t in (c :: d, rest)
  end.

(** comment state, after "<!--" and not at an abrupt end: up to "-->" or "--!>" *)
Fixpoint scan_comment (inp : bytes) : bytes * bytes :=
  match inp with
  | [] => ([], [])
  | c :: t =>
      match inp with
      | 45 :: 45 :: 62 :: r => ([], r)
      | 45 :: 45 :: 33 :: 62 :: r => ([], r)
      | _ => let '(d, rest) := scan_comment t in (c :: d, rest)
      end
  end.

Definition doctype_name : bytes := [100; 111; 99; 116; 121; 112; 101].   (* doctype *)
Definition html_gt : bytes := [32; 104; 116; 109; 108; 62].               (* " html>" *)

(** after "<!" *)
Definition scan_bang (t : bytes) : option (token * bytes) :=
  match t with
  | 45 :: 45 :: r =>
      match r with
      | 62 :: r' => Some (TComment [], r')
      | 45 :: 62 :: r' => Some (TComment [], r')
      | _ => let '(d, rest) := scan_comment r in Some (TComment (norm_attr d), rest)
      end
  | _ =>
      match strip_ci doctype_name t with
      | Some r =>
          match strip_ci html_gt r with
          | Some r' => Some (TDoctype, r')
          | None => None                  (* other DOCTYPEs: outside the subset *)
          end
      | None => let '(d, rest) := scan_bogus t in Some (TComment (norm_attr d), rest)
      end
  end.

(** * element kinds *)
Inductive kind := KOrdinary | KVoid | KRcdata | KRaw | KUnsupported.
Definition in_names (n : bytes) (l : list bytes) : bool := existsb (beq n) l.
Definition ordinary_names : list bytes :=
  [[100; 105; 118]; [115; 112; 97; 110]; [115; 101; 99; 116; 105; 111; 110]].   (* div span section *)
Definition void_names : list bytes :=
  [[98; 114]; [105; 109; 103]; [105; 110; 112; 117; 116]; [109; 101; 116; 97]; [108; 105; 110; 107]].
  (* br img input meta link *)
Definition classify (n : bytes) : kind :=
  if in_names n ordinary_names then KOrdinary
  else if in_names n void_names then KVoid
  else if beq n textarea_name || beq n title_name then KRcdata
  else if beq n script_name || beq n style_name then KRaw
  else KUnsupported.

Definition drop_lf (s : bytes) : bytes := match s with 10 :: r => r | _ => s end.

(** * one step of the tokenizer in the data state *)
(** at a '<' that starts markup: the tokens of this construct (a comment, an end tag, a start
    tag — for RCDATA / raw-text elements together with their content, as the tree builder would
    have switched the tokenizer) and the rest *)
Definition markup_tokens (rest : bytes) : option (list token * bytes) :=
  match rest with
  | 60 :: 47 :: t =>
      match scan_end_tag t with
      | Some (n, r) => Some ([TEnd n], r)
      | None => None
      end
  | 60 :: 33 :: t =>
      match scan_bang t with
      | Some (tok, r) => Some ([tok], r)
      | None => None
      end
  | 60 :: c :: t =>
      if is_alpha c then
        let '(n, r0) := scan_tag_name (c :: t) in
        match scan_attrs AGap [] r0 with
        | None => None
        | Some (attrs, r1) =>
            match classify n with
            | KRcdata =>
                match scan_text (MRcdata n) false None r1 with
                | Some (content, r2) =>
                    let content := if beq n textarea_name then drop_lf content else content in
                    Some ([TStart n attrs; TChars content], r2)
                | None => None
                end
            | KRaw =>
                match scan_text (MRaw n) false None r1 with
                | Some (content, r2) => Some ([TStart n attrs; TChars content], r2)
                | None => None
                end
            | KUnsupported => None
            | _ => Some ([TStart n attrs], r1)
            end
        end
      else None                   (* "<?" *)
  | _ => None
  end.

(** a text run (possibly consisting of dropped NULs only), or the markup at the head *)
Definition next_tokens (inp : bytes) : option (list token * bytes) :=
  match scan_text MBody false None inp with
  | None => None
  | Some (txt, rest) =>
      match txt with
      | _ :: _ => Some ([TChars txt], rest)
      | [] => if Nat.ltb (length rest) (length inp) then Some ([], rest) else markup_tokens rest
      end
  end.

Fixpoint tokenize (fuel : nat) (inp : bytes) : option (list token) :=
  match inp with
  | [] => Some []
  | _ :: _ =>
      match fuel with
      | O => None                         (* fuel exhausted: excluded by tokenize_fuel_enough *)
      | S f =>
          match next_tokens inp with
          | None => None
          | Some (toks, rest) =>
              match tokenize f rest with
              | Some more => Some (toks ++ more)
              | None => None
              end
          end
      end
  end.

(** * tree construction: a stack of open elements; end tags must match (implied end tags,
    misnesting: outside the subset) *)
Record frame := { fr_name : bytes; fr_attrs : list attr; fr_kids : list node }.

Definition push_node (n : node) (stack : list frame) (top : list node) : list frame * list node :=
  match stack with
  | [] => ([], top ++ [n])
  | fr :: st => ({| fr_name := fr_name fr; fr_attrs := fr_attrs fr; fr_kids := fr_kids fr ++ [n] |} :: st, top)
  end.

Fixpoint build (toks : list token) (stack : list frame) (top : list node) : option (list node) :=
  match toks with
  | [] => match stack with [] => Some top | _ => None end
  | tok :: more =>
      match tok with
      | TChars [] => build more stack top
      | TChars s => let '(st, tp) := push_node (NText s) stack top in build more st tp
      | TComment s => let '(st, tp) := push_node (NComment s) stack top in build more st tp
      | TDoctype => None
      | TStart n attrs =>
          match classify n with
          | KVoid => let '(st, tp) := push_node (NEl n attrs []) stack top in build more st tp
          | KUnsupported => None
          | _ => build more ({| fr_name := n; fr_attrs := attrs; fr_kids := [] |} :: stack) top
          end
      | TEnd n =>
          match stack with
          | fr :: st =>
              if beq (fr_name fr) n then
                let '(st', tp) := push_node (NEl n (fr_attrs fr) (fr_kids fr)) st top in build more st' tp
              else None
          | [] => None
          end
      end
  end.

(** the children of the context element (body) that the fragment [inp] parses to *)
Definition parse_fragment (inp : bytes) : option (list node) :=
  match tokenize (length inp) inp with
  | Some toks => build toks [] []
  | None => None
  end.
