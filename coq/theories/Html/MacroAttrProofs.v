(** C18 — the attribute list either macro path prints has the attribute SET the template denotes. *)
From Coq Require Import String.
From Coq Require Import List NArith Bool Lia Permutation.
From LV Require Import Base.Bytes Html.Macro Html.MacroParse Html.MacroSort Html.MacroParseProofs.
Import ListNotations.
Open Scope N_scope.

(** ---- splitting ---- *)
Lemma split_on_nonempty : forall sep s, split_on sep s <> [].
Proof.
  intros sep [|c r]; cbn [split_on]; [discriminate|].
  destruct (sep c); [discriminate|]. destruct (split_on sep r); discriminate.
Qed.

Lemma split_on_app_sep : forall sep x c rest, sep c = true ->
    split_on sep (x ++ c :: rest) = split_on sep x ++ split_on sep rest.
Proof.
  intros sep x c rest Hc. induction x as [|d x IH]; cbn [app split_on].
  - now rewrite Hc.
  - destruct (sep d); [now rewrite IH|]. rewrite IH.
    destruct (split_on sep x) as [|p ps] eqn:E; [now apply split_on_nonempty in E|]. reflexivity.
Qed.

Lemma tokens_app_sep : forall x c rest, is_ws c = true -> tokens (x ++ c :: rest) = tokens x ++ tokens rest.
Proof. intros. unfold tokens. rewrite split_on_app_sep by assumption. apply filter_app. Qed.

Lemma tokens_ws_cons : forall c r, is_ws c = true -> tokens (c :: r) = tokens r.
Proof. intros c r H. change (c :: r) with ([] ++ c :: r). now rewrite tokens_app_sep. Qed.

Lemma tokens_class_buf : forall parts,
    tokens (flat_map (fun p => 32 :: p) parts) = flat_map tokens parts.
Proof.
  induction parts as [|a parts IH]; [reflexivity|].
  cbn [flat_map]. rewrite <- app_comm_cons, tokens_ws_cons by reflexivity.
  destruct parts as [|b ps].
  - cbn [flat_map]. now rewrite !app_nil_r.
  - cbn [flat_map] in *. rewrite <- app_comm_cons in *. rewrite tokens_app_sep by reflexivity.
    rewrite tokens_ws_cons in IH by reflexivity. now rewrite IH.
Qed.

Lemma decls_app_sep : forall x rest, decls (x ++ 59 :: rest) = decls x ++ decls rest.
Proof.
  intros. unfold decls. rewrite split_on_app_sep by reflexivity. now rewrite map_app, filter_app.
Qed.

Lemma decls_style_buf : forall parts,
    decls (flat_map (fun p => p ++ [59]) parts) = flat_map decls parts.
Proof.
  induction parts as [|a parts IH]; [reflexivity|].
  cbn [flat_map]. rewrite <- app_assoc. cbn [app]. now rewrite decls_app_sep, IH.
Qed.

(** ---- trimming does not change the token / declaration lists ---- *)
Lemma tokens_trim_start : forall s, tokens (trim_start s) = tokens s.
Proof.
  induction s as [|c s IH]; [reflexivity|]. cbn [trim_start].
  destruct (is_ws c) eqn:E; [|reflexivity]. now rewrite tokens_ws_cons.
Qed.

Definition sp_head (s : bytes) : bytes := hd [] (split_on is_ws s).
Definition sp_rest (s : bytes) : list bytes := filter nonempty (tl (split_on is_ws s)).

Lemma tokens_hd_rest : forall s,
    tokens s = (if nonempty (sp_head s) then [sp_head s] else []) ++ sp_rest s.
Proof.
  intros s. unfold tokens, sp_head, sp_rest.
  destruct (split_on is_ws s) as [|p ps] eqn:E; [now apply split_on_nonempty in E|].
  cbn [filter hd tl]. now destruct (nonempty p).
Qed.

Lemma sp_cons_ws : forall c r, is_ws c = true -> sp_head (c :: r) = [] /\ sp_rest (c :: r) = tokens r.
Proof. intros c r H. unfold sp_head, sp_rest, tokens. cbn [split_on]. now rewrite H. Qed.

Lemma sp_cons_nws : forall c r, is_ws c = false ->
    sp_head (c :: r) = c :: sp_head r /\ sp_rest (c :: r) = sp_rest r.
Proof.
  intros c r H. unfold sp_head, sp_rest. cbn [split_on]. rewrite H.
  destruct (split_on is_ws r) as [|p ps] eqn:E; [now apply split_on_nonempty in E|]. now split.
Qed.

Lemma trim_end_sp : forall s, sp_head (trim_end s) = sp_head s /\ sp_rest (trim_end s) = sp_rest s.
Proof.
  induction s as [|c r [IH1 IH2]]; [now split|]. cbn [trim_end].
  destruct (is_ws c) eqn:Ec.
  - destruct (sp_cons_ws c r Ec) as [H1 H2]. rewrite H1, H2. cbn [andb].
    destruct (trim_end r) as [|d r'] eqn:Er; cbn [is_nil].
    + split; [reflexivity|]. rewrite tokens_hd_rest, <- IH1, <- IH2. reflexivity.
    + destruct (sp_cons_ws c (d :: r') Ec) as [H3 H4]. rewrite H3, H4. split; [reflexivity|].
      now rewrite !tokens_hd_rest, IH1, IH2.
  - cbn [andb]. destruct (sp_cons_nws c r Ec) as [H1 H2].
    destruct (sp_cons_nws c (trim_end r) Ec) as [H3 H4]. rewrite H1, H2, H3, H4. now rewrite IH1, IH2.
Qed.

Lemma tokens_trim_end : forall s, tokens (trim_end s) = tokens s.
Proof. intros s. rewrite !tokens_hd_rest. now destruct (trim_end_sp s) as [-> ->]. Qed.

Lemma tokens_trim : forall s, tokens (trim s) = tokens s.
Proof. intros. unfold trim. now rewrite tokens_trim_end, tokens_trim_start. Qed.

Lemma ws_not_semi : forall c, is_ws c = true -> (59 =? c) = false.
Proof.
  intros c H. destruct (59 =? c) eqn:E; [|reflexivity]. apply N.eqb_eq in E. subst. discriminate.
Qed.

Lemma decls_ws_cons : forall c r, is_ws c = true -> decls (c :: r) = decls r.
Proof.
  intros c r H. unfold decls. cbn [split_on]. rewrite (ws_not_semi c H).
  destruct (split_on (N.eqb 59) r) as [|p ps] eqn:E; [now apply split_on_nonempty in E|].
  cbn [map]. unfold trim at 1. cbn [trim_start]. rewrite H. reflexivity.
Qed.

Lemma decls_trim_start : forall s, decls (trim_start s) = decls s.
Proof.
  induction s as [|c s IH]; [reflexivity|]. cbn [trim_start].
  destruct (is_ws c) eqn:E; [|reflexivity]. now rewrite decls_ws_cons.
Qed.

Lemma trim_end_last : forall x c, is_ws c = false -> trim_end (x ++ [c]) = x ++ [c].
Proof.
  induction x as [|a x IH]; intros c H; cbn [app trim_end].
  - rewrite H. reflexivity.
  - rewrite IH by assumption. destruct (x ++ [c]) eqn:E; [now destruct x|]. cbn [is_nil].
    now rewrite andb_false_r.
Qed.

Lemma trim_start_last : forall x c, is_ws c = false -> exists y, trim_start (x ++ [c]) = y ++ [c].
Proof.
  induction x as [|a x IH]; intros c H; cbn [app trim_start].
  - rewrite H. now exists [].
  - destruct (is_ws a); [now apply IH | now exists (a :: x)].
Qed.

Lemma style_buf_last : forall parts, parts <> [] ->
    exists x, flat_map (fun p : bytes => p ++ [59]) parts = x ++ [59].
Proof.
  induction parts as [|p parts IH]; intros H; [congruence|].
  destruct parts as [|q ps].
  - exists p. cbn [flat_map]. now rewrite app_nil_r.
  - destruct IH as [x Hx]; [discriminate|]. exists (p ++ [59] ++ x).
    cbn [flat_map] in *. rewrite Hx. now rewrite <- !app_assoc.
Qed.

Lemma decls_trim_style_buf : forall parts,
    decls (trim (flat_map (fun p : bytes => p ++ [59]) parts)) = flat_map decls parts.
Proof.
  intros parts. destruct parts as [|p ps] eqn:E; [reflexivity|]. rewrite <- E.
  destruct (style_buf_last parts) as [x Hx]; [now rewrite E|].
  unfold trim. rewrite Hx. destruct (trim_start_last x 59) as [y Hy]; [reflexivity|].
  rewrite Hy, trim_end_last by reflexivity. rewrite <- Hy, decls_trim_start, <- Hx.
  apply decls_style_buf.
Qed.

(** ---- the three components of an attribute set ---- *)
Definition notcs (kv : bytes * bytes) : bool := negb (is_cs (fst kv)).
Definition cls_tok (kv : bytes * bytes) : list bytes :=
  if beq (fst kv) k_class then tokens (snd kv) else [].
Definition sty_dec (kv : bytes * bytes) : list bytes :=
  if beq (fst kv) k_style then decls (snd kv) else [].

Lemma norm_attrs_components : forall X Y,
    Permutation (filter notcs X) (filter notcs Y) ->
    Permutation (flat_map cls_tok X) (flat_map cls_tok Y) ->
    Permutation (flat_map sty_dec X) (flat_map sty_dec Y) ->
    norm_attrs X = norm_attrs Y.
Proof.
  intros X Y H1 H2 H3. unfold norm_attrs.
  change (filter (fun kv => negb (is_cs (fst kv))) X) with (filter notcs X).
  change (filter (fun kv => negb (is_cs (fst kv))) Y) with (filter notcs Y).
  change (flat_map (fun kv => if beq (fst kv) k_class then tokens (snd kv) else []) X) with (flat_map cls_tok X).
  change (flat_map (fun kv => if beq (fst kv) k_class then tokens (snd kv) else []) Y) with (flat_map cls_tok Y).
  change (flat_map (fun kv => if beq (fst kv) k_style then decls (snd kv) else []) X) with (flat_map sty_dec X).
  change (flat_map (fun kv => if beq (fst kv) k_style then decls (snd kv) else []) Y) with (flat_map sty_dec Y).
  rewrite (sort_pair_perm _ _ H1), (sort_ble_perm _ _ H2), (sort_ble_perm _ _ H3).
  now rewrite (is_nil_perm _ _ _ H2), (is_nil_perm _ _ _ H3).
Qed.

Lemma norm_attrs_perm : forall X Y, Permutation X Y -> norm_attrs X = norm_attrs Y.
Proof.
  intros X Y H. apply norm_attrs_components.
  - clear -H. induction H; cbn [filter]; try destruct (notcs x); try destruct (notcs y); auto.
    + apply perm_swap.
    + etransitivity; eassumption.
  - now apply Permutation_flat_map.
  - now apply Permutation_flat_map.
Qed.

(** ---- the builder path's attribute sort is a permutation ---- *)
Lemma insert_tail_perm : forall x racc, Permutation (insert_tail x racc) (x :: racc).
Proof.
  intros x. induction racc as [|y r IH]; cbn [insert_tail]; [reflexivity|].
  destruct (attr_less x y); [|reflexivity].
  etransitivity; [apply perm_skip, IH | apply perm_swap].
Qed.

Lemma sort_attrs_perm : forall l, Permutation (sort_attrs l) l.
Proof.
  intros l. unfold sort_attrs. etransitivity; [symmetry; apply Permutation_rev|].
  assert (H : forall l acc, Permutation (fold_left (fun racc x => insert_tail x racc) l acc) (l ++ acc)).
  { clear. induction l as [|x l IH]; intros acc; cbn [fold_left app]; [reflexivity|].
    etransitivity; [apply IH|]. etransitivity; [apply Permutation_app_head, insert_tail_perm|].
    symmetry. apply Permutation_middle. }
  specialize (H l []). now rewrite app_nil_r in H.
Qed.

(** ---- well-formed attributes ---- *)
Definition reserved : list bytes := Eval vm_compute in map bs ["inner_html"; "node_ref"]%string.
Definition reserved_prefix : list bytes :=
  Eval vm_compute in map bs ["class:"; "style:"; "prop:"; "on:"; "use:"; "bind"; "attr:"; "let:"; "clone:"]%string.
Fixpoint starts_with (p s : bytes) : bool :=
  match p, s with
  | [], _ => true
  | x :: p, y :: s => (x =? y) && starts_with p s
  | _ :: _, [] => false
  end.

(** a plain attribute has a name the parser can read and the macro does not treat specially;
    [class=] / [style=] carry a string (a literal or a [String]) *)
Definition wf_attr (a : attr) : bool :=
  match a with
  | APlain n v =>
      name_okb n && negb (mem n reserved) && negb (existsb (fun p => starts_with p n) reserved_prefix)
      && (if is_cs n then match v with VLit _ | VDynStr _ => true | _ => false end else true)
  | _ => true
  end.

Lemma kclass_not_style : beq k_class k_style = false.
Proof. reflexivity. Qed.
Lemma kstyle_not_class : beq k_style k_class = false.
Proof. reflexivity. Qed.

Ltac attr_cases n :=
  unfold is_cs in *;
  destruct (beq n k_class) eqn:Ec;
  [apply beq_eq in Ec; subst n; cbn in *
  |destruct (beq n k_style) eqn:Es; [apply beq_eq in Es; subst n; cbn in * | cbn in *; rewrite ?Ec, ?Es; cbn]].

Lemma attr_plain : forall a, wf_attr a = true ->
    filter notcs (attr_pairs a) = map val_of (b_plain a).
Proof.
  intros [n v|n v|ns b|p v|p v|] H; cbn [wf_attr] in H.
  - apply andb_true_iff in H as [_ H]. unfold notcs.
    destruct v as [s| |s|[|]|[s|]]; attr_cases n; try discriminate; try reflexivity;
      cbn; unfold is_cs; rewrite ?Ec, ?Es; cbn; rewrite ?Ec, ?Es; reflexivity.
  - destruct v as [[|]|]; reflexivity.
  - destruct b; cbn [attr_pairs b_plain map]; [|reflexivity].
    induction ns as [|x ns IH]; [reflexivity|]. cbn [map filter]. exact IH.
  - reflexivity.
  - reflexivity.
  - reflexivity.
Qed.

Lemma attr_class : forall a, wf_attr a = true ->
    flat_map cls_tok (attr_pairs a) = flat_map tokens (b_class a).
Proof.
  intros [n v|n v|ns b|p v|p v|] H; cbn [wf_attr] in H.
  - apply andb_true_iff in H as [_ H]. unfold cls_tok.
    destruct v as [s| |s|[|]|[s|]]; attr_cases n; try discriminate; try reflexivity;
      cbn; unfold is_cs; rewrite ?Ec, ?Es; cbn; rewrite ?Ec, ?Es; reflexivity.
  - destruct v as [[|]|]; reflexivity.
  - destruct b; cbn [attr_pairs b_class].
    + induction ns as [|x ns IH]; [reflexivity|]. cbn [map flat_map]. rewrite IH. reflexivity.
    + induction ns as [|x ns IH]; [reflexivity|]. cbn [map flat_map]. rewrite <- IH. reflexivity.
  - reflexivity.
  - reflexivity.
  - reflexivity.
Qed.

Lemma attr_style : forall a, wf_attr a = true ->
    flat_map sty_dec (attr_pairs a) = flat_map decls (b_style a).
Proof.
  intros [n v|n v|ns b|p v|p v|] H; cbn [wf_attr] in H.
  - apply andb_true_iff in H as [_ H]. unfold sty_dec.
    destruct v as [s| |s|[|]|[s|]]; attr_cases n; try discriminate; try reflexivity;
      cbn; unfold is_cs; rewrite ?Ec, ?Es; cbn; rewrite ?Ec, ?Es; reflexivity.
  - destruct v as [[|]|]; reflexivity.
  - destruct b; cbn [attr_pairs b_style flat_map]; [|reflexivity].
    induction ns as [|x ns IH]; [reflexivity|]. cbn [map flat_map]. exact IH.
  - reflexivity.
  - reflexivity.
  - reflexivity.
Qed.

Lemma flat_map_ext_in : forall A B (f g : A -> list B) l,
    (forall x, In x l -> f x = g x) -> flat_map f l = flat_map g l.
Proof.
  intros A B f g l H. induction l as [|x l IH]; [reflexivity|]. cbn [flat_map].
  rewrite H by now left. rewrite IH; [reflexivity|]. intros y Hy. apply H. now right.
Qed.

Lemma filter_flat_map : forall A B (p : B -> bool) (f : A -> list B) l,
    filter p (flat_map f l) = flat_map (fun x => filter p (f x)) l.
Proof.
  intros. induction l as [|x l IH]; [reflexivity|]. cbn [flat_map]. now rewrite filter_app, IH.
Qed.

Lemma flat_map_flat_map : forall A B C (g : B -> list C) (f : A -> list B) l,
    flat_map g (flat_map f l) = flat_map (fun x => flat_map g (f x)) l.
Proof.
  intros. induction l as [|x l IH]; [reflexivity|]. cbn [flat_map]. now rewrite flat_map_app, IH.
Qed.

Lemma filter_filter_id : forall A (p : A -> bool) l, filter p (filter p l) = filter p l.
Proof.
  intros. induction l as [|x l IH]; [reflexivity|]. cbn [filter].
  destruct (p x) eqn:E; cbn [filter]; rewrite ?E, IH; reflexivity.
Qed.

Lemma cls_of_notcs : forall X, flat_map cls_tok (filter notcs X) = [].
Proof.
  induction X as [|kv X IH]; [reflexivity|]. cbn [filter]. destruct (notcs kv) eqn:E; [|exact IH].
  cbn [flat_map]. rewrite IH, app_nil_r. unfold cls_tok. unfold notcs, is_cs in E.
  apply negb_true_iff, orb_false_iff in E as [E _]. now rewrite E.
Qed.

Lemma sty_of_notcs : forall X, flat_map sty_dec (filter notcs X) = [].
Proof.
  induction X as [|kv X IH]; [reflexivity|]. cbn [filter]. destruct (notcs kv) eqn:E; [|exact IH].
  cbn [flat_map]. rewrite IH, app_nil_r. unfold sty_dec. unfold notcs, is_cs in E.
  apply negb_true_iff, orb_false_iff in E as [_ E]. now rewrite E.
Qed.

(** the attribute list the builder path prints has the attribute set of the template *)
Lemma builder_attrs_denote : forall attrs, forallb wf_attr attrs = true ->
    norm_attrs (map val_of (b_attr_list attrs)) = denote_attrs attrs.
Proof.
  intros attrs Hwf. unfold denote_attrs.
  set (l := sort_attrs attrs).
  assert (Hl : forall a, In a l -> wf_attr a = true).
  { intros a Ha. rewrite forallb_forall in Hwf. apply Hwf.
    eapply Permutation_in; [apply sort_attrs_perm | exact Ha]. }
  transitivity (norm_attrs (flat_map attr_pairs l));
    [|apply norm_attrs_perm, Permutation_flat_map, sort_attrs_perm].
  unfold b_attr_list. fold l.
  set (cb := flat_map (fun p => 32 :: p) (flat_map b_class l)).
  set (sb := flat_map (fun p => p ++ [59]) (flat_map b_style l)).
  rewrite !map_app.
  assert (Hplain : map val_of (flat_map b_plain l) = filter notcs (flat_map attr_pairs l)).
  { rewrite filter_flat_map. rewrite flat_map_concat_map, concat_map, map_map, <- flat_map_concat_map.
    apply flat_map_ext_in. intros a Ha. symmetry. now apply attr_plain, Hl. }
  assert (Hcls : (if is_nil cb then [] else tokens (trim cb)) = flat_map cls_tok (flat_map attr_pairs l)).
  { rewrite flat_map_flat_map.
    rewrite (flat_map_ext_in _ _ (fun x => flat_map cls_tok (attr_pairs x)) (fun x => flat_map tokens (b_class x)))
      by (intros a Ha; now apply attr_class, Hl).
    rewrite <- flat_map_flat_map. rewrite tokens_trim. unfold cb. rewrite tokens_class_buf.
    destruct (flat_map b_class l); reflexivity. }
  assert (Hsty : (if is_nil sb then [] else decls (trim sb)) = flat_map sty_dec (flat_map attr_pairs l)).
  { rewrite flat_map_flat_map.
    rewrite (flat_map_ext_in _ _ (fun x => flat_map sty_dec (attr_pairs x)) (fun x => flat_map decls (b_style x)))
      by (intros a Ha; now apply attr_style, Hl).
    rewrite <- flat_map_flat_map. unfold sb. rewrite decls_trim_style_buf.
    destruct (flat_map b_style l) as [|p ps]; [reflexivity|].
    cbn [flat_map]. destruct p; reflexivity. }
  apply norm_attrs_components.
  - rewrite !filter_app, Hplain, filter_filter_id.
    destruct (is_nil cb), (is_nil sb); cbn; rewrite ?app_nil_r; reflexivity.
  - rewrite !flat_map_app, Hplain, cls_of_notcs, <- Hcls.
    destruct (is_nil cb), (is_nil sb); cbn; rewrite ?app_nil_r; reflexivity.
  - rewrite !flat_map_app, Hplain, sty_of_notcs, <- Hsty.
    destruct (is_nil cb), (is_nil sb); cbn; rewrite ?app_nil_r; reflexivity.
Qed.

(** the names the builder path prints are readable *)
Lemma builder_attr_names : forall attrs, forallb wf_attr attrs = true ->
    forallb (fun kv : bytes * option bytes => name_okb (fst kv)) (b_attr_list attrs) = true.
Proof.
  intros attrs Hwf. unfold b_attr_list. rewrite !forallb_app. repeat (apply andb_true_iff; split).
  - apply forallb_forall. intros kv Hkv. apply in_flat_map in Hkv as (a & Ha & Hkv).
    assert (Hw : wf_attr a = true).
    { rewrite forallb_forall in Hwf. apply Hwf. eapply Permutation_in; [apply sort_attrs_perm | exact Ha]. }
    destruct a as [n v| | | | |]; cbn [b_plain] in Hkv; try contradiction.
    cbn [wf_attr] in Hw. apply andb_true_iff in Hw as [Hw _]. apply andb_true_iff in Hw as [Hw _].
    apply andb_true_iff in Hw as [Hw _].
    destruct (beq n k_class || beq n k_style); [contradiction|].
    destruct v as [s| |s|[|]|[s|]]; cbn in Hkv; try contradiction; destruct Hkv as [<-|[]]; exact Hw.
  - destruct (is_nil _); reflexivity.
  - destruct (is_nil _); reflexivity.
Qed.

(** ---- the inert path prints the template's static attributes as they are ---- *)
Lemma inert_attrs_pairs : forall attrs,
    forallb wf_attr attrs = true -> forallb attr_static attrs = true ->
    map val_of (flat_map i_attr attrs) = flat_map attr_pairs attrs.
Proof.
  induction attrs as [|a attrs IH]; intros Hw Hs; [reflexivity|].
  cbn [forallb] in Hw, Hs. apply andb_true_iff in Hw as [Hwa Hw]. apply andb_true_iff in Hs as [Hsa Hs].
  cbn [flat_map]. rewrite map_app, IH by assumption. f_equal.
  destruct a as [n v| | | | |]; cbn [attr_static] in Hsa; try discriminate.
  cbn [wf_attr] in Hwa. apply andb_true_iff in Hwa as [_ Hwa].
  destruct v as [s| |s|[|]|[s|]]; try discriminate; [reflexivity|].
  cbn [i_attr attr_pairs]. unfold is_cs in *.
  destruct (beq n k_class); [discriminate|]. destruct (beq n k_style); [discriminate|]. reflexivity.
Qed.

Lemma inert_attr_names : forall attrs, forallb wf_attr attrs = true ->
    forallb (fun kv : bytes * option bytes => name_okb (fst kv)) (flat_map i_attr attrs) = true.
Proof.
  intros attrs Hwf. apply forallb_forall. intros kv Hkv. apply in_flat_map in Hkv as (a & Ha & Hkv).
  rewrite forallb_forall in Hwf. specialize (Hwf a Ha).
  destruct a as [n v| | | | |]; cbn [i_attr] in Hkv; try contradiction.
  cbn [wf_attr] in Hwf. apply andb_true_iff in Hwf as [Hw _]. apply andb_true_iff in Hw as [Hw _].
  apply andb_true_iff in Hw as [Hw _].
  destruct v as [s| |s|[|]|[s|]]; cbn in Hkv; try contradiction.
  - destruct Hkv as [<-|[]]. exact Hw.
  - destruct (beq n k_class); [contradiction|]. destruct Hkv as [<-|[]]. exact Hw.
Qed.
