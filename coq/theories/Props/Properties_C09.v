(** C09 — computations run only when something they read has changed.
    Statements only; proofs in Reactive/*Proofs.v.

    The model carries ghost causes: [add_cause j] (called when signal j is written / notified
    and when memo j recomputes to a changed value) records j in [since k] of every node k whose
    last run TRACKED j; [begin_run] (every invocation of a memo or effect body) empties [since]
    and, unless it is the node's first run, increments [nocause] when it finds [since] empty. *)
From Coq Require Import List ZArith.
From LV Require Import Reactive.Graph Reactive.Effects Reactive.GraphInvariant Reactive.GraphPullBase
                       Reactive.GraphMarkOrigin Reactive.GraphPullMemo
                       Reactive.EffectsProofs Reactive.EffectsRunProofs Reactive.ConvergeProofs.
Import ListNotations.
Close Scope Z_scope.
Open Scope nat_scope.

(** [memo_run_has_cause] + [effect_runs_once_per_change] + [at_most_once_per_change]: in every
    reachable state, for all programs, histories and schedules, no body invocation other than a
    first one ever found its cause list empty (repaired EffectInner::update_if_necessary).
    Effects may write signals; excluded is the class of the open finding F-C02-d
    ([self_feeding p]: an effect writes a signal of its own static cone), for which the
    invariant behind this proof does not hold (no C09 violation is known there: the oracle
    found none on the generated self-feeding programs). *)
Theorem C09_no_invocation_without_cause_except_known :
  forall p par selw, wf_prog p -> ~ self_feeding p ->
  forall ops, wf_ops p ops -> nocause (run_fixed p par selw ops) = 0.
Proof. exact no_causeless_run_except_known. Qed.
Print Assumptions C09_no_invocation_without_cause_except_known.

(** what the counter counts *)
Theorem C09_counter_counts_causeless_invocations :
  forall fr i s,
  nocause (begin_run fr i s) =
  if fr then nocause s else match since (getn s i) with [] => S (nocause s) | _ :: _ => nocause s end.
Proof. exact nocause_counts. Qed.
Print Assumptions C09_counter_counts_causeless_invocations.

(** [untracked_never_causes]: a cause is recorded for k only if k's last run tracked the node;
    reads through untrack / get_untracked and branches not taken are not in that set *)
Theorem C09_cause_only_if_tracked :
  forall j s k,
  since (getn (add_cause j s) k) = since (getn s k) \/
  (In j (tracked_of (rlog (getn s k))) /\ since (getn (add_cause j s) k) = j :: since (getn s k)).
Proof. exact cause_only_if_tracked. Qed.
Print Assumptions C09_cause_only_if_tracked.

(** [at_most_once_per_change]: a run consumes every cause recorded so far, so two runs need two
    causes *)
Theorem C09_run_consumes_causes :
  forall fr i s, i < length (nodes s) -> since (getn (begin_run fr i s) i) = [].
Proof. exact run_consumes_causes. Qed.
Print Assumptions C09_run_consumes_causes.

(** F-C09 on the code before the fix: one set runs the effect twice, the second invocation has
    no cause; repaired code: none *)
Theorem C09_effect_double_run_prefix_refuted : nocause (run_prefix_c p_twice no_par no_sel ops_c) = 1.
Proof. exact double_run_prefix_refuted. Qed.
Print Assumptions C09_effect_double_run_prefix_refuted.

Theorem C09_effect_double_run_fixed : nocause (run_flat p_twice ops_c) = 0.
Proof. exact double_run_fixed. Qed.
Print Assumptions C09_effect_double_run_fixed.
