(** C11 — keyed lists keep item identity and end in the new order.
    Statements only; proofs live in Dom/KeyedProofs.v, Dom/KeyedTop.v (model: Dom/Keyed.v,
    the transcription of tachys/src/view/keyed.rs after the [fix:] commit).
    All theorems are UNBOUNDED: any key lists without duplicates, any item views (a [builder]
    says which fresh, non-empty list of nodes the state of the item view of a key owns;
    [fixed_bld m] = m nodes per item, [var_bld m] = [m k] nodes for the item of key [k]: a row that
    is itself a keyed list / Vec / Option / Either / tuple ... is such a node list, its markers and
    placeholders included), any leading siblings [pre] and following siblings [post]. *)
From Coq Require Import List NArith.
From LV Require Import Dom.Dom Dom.Keyed Dom.KeyedProofs Dom.KeyedTop.
Import ListNotations.

(** One update of a mounted keyed list from its current keys to [to]: no panic; the parent's
    children are [pre ++ nodes of the items in the order of to ++ marker :: post] (new order,
    siblings untouched); items whose key is in both lists are the same items (same DOM
    nodes, same build); items whose key disappeared are unmounted and their nodes are no
    longer children; exactly the keys of [to] that were not rendered are passed to view_fn,
    each once, and their items consist of fresh nodes; every set_index call carries the
    item's new index and every item whose index changed receives one; and the state
    invariant [st_wf] holds again.  ([keyed_ok] is spelled out in Dom/KeyedTop.v.) *)
Theorem C11_keyed_ok :
  forall (pre post : list node) (st : kstate) (to : list N),
    st_wf pre post st -> NoDup to -> keyed_ok pre post st to.
Proof. exact keyed_rebuild_ok. Qed.
Print Assumptions C11_keyed_ok.

(** histories: every update of any chain of updates satisfies the statement above, from
    the state the chain has reached *)
Theorem C11_history_ok :
  forall (pre post : list node) (tos : list (list N)) (st : kstate),
    st_wf pre post st -> Forall (@NoDup N) tos -> history_ok pre post st tos.
Proof. exact keyed_history_ok. Qed.
Print Assumptions C11_history_ok.

(** the starting point: building a keyed list and mounting it before the first following
    sibling (or appending it) establishes the invariant, for any keys and sibling context *)
Theorem C11_build_mount_wf :
  forall (m : builder) (pre post : list node) (next : N) (keys : list N),
    bld_ok m -> NoDup keys -> NoDup (pre ++ post) ->
    (forall n, In n (pre ++ post) -> (n < next)%N) ->
    st_wf pre post (fst (build_mount m (pre ++ post) (hd_error post) next keys)) /\
    ks_keys (fst (build_mount m (pre ++ post) (hd_error post) next keys)) = keys.
Proof. exact build_mount_wf. Qed.
Print Assumptions C11_build_mount_wf.

(** the core of the repaired elision: on any two non-empty duplicate-free lists, apply_diff
    driven by diff ends with exactly the keys [to], in the DOM too *)
Theorem C11_apply_diff_props :
  forall (pre post : list node) (mk : node) (to : list N) (m : builder) (its : list item)
         (next : N) (gen : nat),
    bld_ok m -> wf_items pre post mk next its -> NoDup to ->
    apply_props pre post mk to its next gen
      (apply_diff m mk (diff (map it_key its) to) to (start pre post mk its next gen)).
Proof. exact apply_diff_props. Qed.
Print Assumptions C11_apply_diff_props.

(** named special cases *)
Theorem C11_keyed_ok_same :
  forall pre post st, st_wf pre post st -> keyed_ok pre post st (ks_keys st).
Proof. exact keyed_ok_same. Qed.
Print Assumptions C11_keyed_ok_same.

Theorem C11_keyed_ok_clear :
  forall pre post st, st_wf pre post st -> keyed_ok pre post st [].
Proof. exact keyed_ok_clear. Qed.
Print Assumptions C11_keyed_ok_clear.

Theorem C11_keyed_ok_reverse :
  forall pre post st, st_wf pre post st -> keyed_ok pre post st (rev (ks_keys st)).
Proof. exact keyed_ok_reverse. Qed.
Print Assumptions C11_keyed_ok_reverse.

Theorem C11_keyed_ok_append :
  forall pre post st extra, st_wf pre post st -> NoDup (ks_keys st ++ extra) ->
    keyed_ok pre post st (ks_keys st ++ extra).
Proof. exact keyed_ok_append. Qed.
Print Assumptions C11_keyed_ok_append.

Theorem C11_keyed_ok_remove_only :
  forall pre post st (keep : N -> bool), st_wf pre post st ->
    keyed_ok pre post st (filter keep (ks_keys st)).
Proof. exact keyed_ok_remove_only. Qed.
Print Assumptions C11_keyed_ok_remove_only.
