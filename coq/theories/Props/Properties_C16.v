(** C16 — store writes notify exactly the fields on the written path.
    Statements only; proofs live in Store/PathsProofs.v and Store/KeyedProofs.v. *)
From Coq Require Import List Arith Bool.
From LV Require Import Store.Paths Store.PathsProofs.
Import ListNotations.

(** a write through the field at path p wakes a reader of the field at path r iff one of the
    two paths is a prefix of the other: the field itself, every ancestor, every descendant —
    at any depth — and nothing else *)
Theorem C16_notified_iff_related :
  forall p r, wakes p r = true <-> (is_prefix p r = true \/ is_prefix r p = true).
Proof. exact notified_iff_related. Qed.
Print Assumptions C16_notified_iff_related.

(** writing the store itself wakes every reader *)
Theorem C16_root_write_wakes_all : forall r, wakes_k WRoot [] r = true.
Proof. exact root_write_wakes_all. Qed.
Print Assumptions C16_root_write_wakes_all.

(** the write guard of a keyed collection field wakes exactly the same readers *)
Theorem C16_keyed_write_wakes_same : forall p r, wakes_k WKeyed p r = wakes p r.
Proof. exact keyed_write_wakes_same. Qed.
Print Assumptions C16_keyed_write_wakes_same.

(** siblings and cousins (paths that part ways at some segment) never wake each other *)
Theorem C16_sibling_never :
  forall p a b s1 s2, a <> b -> wakes (p ++ a :: s1) (p ++ b :: s2) = false.
Proof. exact sibling_never. Qed.
Print Assumptions C16_sibling_never.

(** position in the notification order: a reader of an ancestor r of the written field p
    (or of p itself) is woken at position |r|, a reader of a proper descendant at |p|+1 *)
Theorem C16_wake_position :
  forall p r, wake_pos p r =
    if is_prefix r p then Some (length r)
    else if is_prefix p r then Some (S (length p)) else None.
Proof. exact wake_pos_spec. Qed.
Print Assumptions C16_wake_position.

(** hence the order of notification is monotone in the depth of the reader, strictly so for
    readers of ancestors of the written field (and of the field itself) against anything deeper *)
Theorem C16_ancestors_before_descendants :
  forall p r1 r2 i1 i2,
    wake_pos p r1 = Some i1 -> wake_pos p r2 = Some i2 -> length r1 <= length r2 ->
    i1 <= i2 /\ (is_prefix r1 p = true -> length r1 < length r2 -> i1 < i2).
Proof. exact ancestors_before_descendants. Qed.
Print Assumptions C16_ancestors_before_descendants.
