(** C16 — store writes notify exactly the fields on the written path.
    Statements only; proofs live in Store/PathsProofs.v and Store/KeyedProofs.v. *)
From Coq Require Import List Arith Bool ZArith.
From LV Require Import Base.Sexp Store.Paths Store.PathsProofs Store.Keyed Store.KeyedProofs
                       Store.Sim Store.SimProofs Store.SymProofs.
Import ListNotations.

(** a write through the field at path p wakes a reader of the field at path r iff one of the
    two paths is a prefix of the other: the field itself, every ancestor, every descendant —
    at any depth — and nothing else *)
Theorem C16_notified_iff_related :
  forall p r, wakes p r = true <-> (is_prefix p r = true \/ is_prefix r p = true).
Proof. exact notified_iff_related. Qed.
Print Assumptions C16_notified_iff_related.

(** writing the store itself wakes every reader *)
Theorem C16_root_write_wakes_all : forall r, wakes_k WRoot [] r = true.
Proof. exact root_write_wakes_all. Qed.
Print Assumptions C16_root_write_wakes_all.

(** the write guard of a keyed collection field wakes exactly the same readers (it refreshes
    the keys first, then notifies the same triggers) *)
Theorem C16_keyed_write_wakes_same : forall p r, wakes_k WKeyed p r = wakes p r.
Proof. exact keyed_write_wakes_same. Qed.
Print Assumptions C16_keyed_write_wakes_same.

(** siblings and cousins (paths that part ways at some segment) never wake each other *)
Theorem C16_sibling_never :
  forall p a b s1 s2, a <> b -> wakes (p ++ a :: s1) (p ++ b :: s2) = false.
Proof. exact sibling_never. Qed.
Print Assumptions C16_sibling_never.

(** position in the notification order: a reader of an ancestor r of the written field p
    (or of p itself) is woken at position |r|, a reader of a proper descendant at |p|+1 *)
Theorem C16_wake_position :
  forall p r, p <> [] -> wake_pos p r =
    if is_prefix r p then Some (length r)
    else if is_prefix p r then Some (S (length p)) else None.
Proof. exact wake_pos_spec. Qed.
Print Assumptions C16_wake_position.

(** ... and for the root's own path (the guard of a type-erased handle of the store notifies
    children, children, this): the store's readers at 0, everybody else at 2 *)
Theorem C16_wake_position_root :
  forall r, wake_pos [] r = match r with [] => Some 0 | _ :: _ => Some 2 end.
Proof. exact wake_pos_root. Qed.
Print Assumptions C16_wake_position_root.

(** hence the order of notification is monotone in the depth of the reader, strictly so for
    readers of ancestors of the written field (and of the field itself) against anything deeper *)
Theorem C16_ancestors_before_descendants :
  forall p r1 r2 i1 i2,
    wake_pos p r1 = Some i1 -> wake_pos p r2 = Some i2 -> length r1 <= length r2 ->
    i1 <= i2 /\ (is_prefix r1 p = true -> length r1 < length r2 -> i1 < i2).
Proof. exact ancestors_before_descendants. Qed.
Print Assumptions C16_ancestors_before_descendants.

(** ---- keyed collections: FieldKeys, over all histories of insert / remove / reorder and
    all visiting orders of its hash maps (the lists of choices cs / c1 / c2) ---- *)

(** two live keys never share a path segment *)
Theorem C16_slots_injective :
  forall h0 h cs k1 k2 s i1 i2,
    NoDup h0 -> Forall (@NoDup key) h ->
    fk_get k1 (fk_history cs (fk_new h0) h) = Some (s, i1) ->
    fk_get k2 (fk_history cs (fk_new h0) h) = Some (s, i2) ->
    k1 = k2.
Proof. exact slots_injective_all_histories. Qed.
Print Assumptions C16_slots_injective.

(** the invariant behind it (keys distinct, live and spare segments pairwise distinct and
    bounded by the counter) holds initially and is preserved by every update *)
Theorem C16_keys_invariant :
  forall h cs f, fk_wf f -> Forall (@NoDup key) h -> fk_wf (fk_history cs f h).
Proof. exact fk_history_wf. Qed.
Print Assumptions C16_keys_invariant.

Theorem C16_keys_invariant_initially : forall ks, NoDup ks -> fk_wf (fk_new ks).
Proof. exact fk_new_wf. Qed.
Print Assumptions C16_keys_invariant_initially.

(** a reader keeps following its key across reorders: while the key stays in the collection
    its path segment is unchanged, and its index is its current position *)
Theorem C16_reader_follows_key :
  forall c1 c2 f latest, fk_wf f -> NoDup latest ->
  forall k s i i', fk_get k f = Some (s, i) -> nth_error latest i' = Some k ->
    fk_get k (fk_update c1 c2 f latest) = Some (s, i').
Proof. exact key_segment_stable. Qed.
Print Assumptions C16_reader_follows_key.

(** every recorded index is the position of its key: AtKeyed reads and writes the item
    that carries the reader's key *)
Theorem C16_index_is_position :
  forall c1 c2 f latest, fk_wf f -> NoDup latest ->
  forall k s i, fk_get k (fk_update c1 c2 f latest) = Some (s, i) -> nth_error latest i = Some k.
Proof. exact index_is_position. Qed.
Print Assumptions C16_index_is_position.

(** a removed key is dropped *)
Theorem C16_removed_key_dropped :
  forall c1 c2 f latest, fk_wf f -> NoDup latest ->
  forall k, ~ In k latest -> fk_get k (fk_update c1 c2 f latest) = None.
Proof. exact key_dropped. Qed.
Print Assumptions C16_removed_key_dropped.

(** hence the items of two different live keys never wake each other's readers *)
Theorem C16_keyed_items_independent :
  forall f k1 k2 s1 s2 i1 i2 p t1 t2,
    fk_wf f -> k1 <> k2 -> fk_get k1 f = Some (s1, i1) -> fk_get k2 f = Some (s2, i2) ->
    wakes (p ++ s1 :: t1) (p ++ s2 :: t2) = false.
Proof. exact keyed_items_independent. Qed.
Print Assumptions C16_keyed_items_independent.

(** FieldKeys::new as it was before the repair 8ee08c9 (current_key: 0) violated
    slots_injective: after adding key 20 to [7; 8; 9], keys 8 and 20 share segment 1 *)
Theorem C16_slots_injective_prefix_refuted :
  let f := fk_update [] [] (fk_new_prefix [7; 8; 9]%Z) [7; 8; 9; 20]%Z in
  fk_get 8%Z f = Some (1, 1) /\ fk_get 20%Z f = Some (1, 3).
Proof. exact slots_injective_prefix_refuted. Qed.
Print Assumptions C16_slots_injective_prefix_refuted.

(** ---- the simulation that is compared with the implementation (Store/Sim.v): store value,
    KeyMap, one ordered subscriber set per trigger, one source set per effect, run queue ---- *)

(** [simulate] (all subscriber kinds) is what runs against the implementation.  When every
    reader is an executor-scheduled effect — Effect::new, a Memo read by an Effect,
    Effect::new_isomorphic; i.e. no ImmediateEffect (runs inside the notification) and no
    RenderEffect (first run at creation) — it coincides with [simulate_plain], whose final
    state is [after]; the two theorems below are about those readers only (hence _partial:
    ImmediateEffect / RenderEffect readers are covered by the correspondence check alone) *)
Theorem C16_simulation_of_scheduled_readers :
  forall sh v readers hs sched kcs, plain_readers readers ->
    simulate sh v readers hs sched kcs = simulate_plain sh v readers hs sched kcs.
Proof. exact simulate_plain_eq. Qed.
Print Assumptions C16_simulation_of_scheduled_readers.

(** after the initial effect runs and ANY history of writes / patches / pokes / reports, under
    any executor schedule and any FieldKeys visiting orders, the subscription state is
    consistent (subscriber sets and source sets mirror each other, nothing is left queued)
    and every effect's sources are the track_field sets of the fields it last read *)
Theorem C16_reachable_states_consistent_partial :
  forall sh readers sched kcs v hs, quiescent (length readers) (after sh readers sched kcs v hs).
Proof. exact reachable_quiescent. Qed.
Print Assumptions C16_reachable_states_consistent_partial.

(** end to end: in any such state, dropping a write guard wakes exactly the effects whose last
    run read a field related (prefix either way) to the written path *)
Theorem C16_sim_write_wakes_exactly_related_partial :
  forall sh readers sched kcs v hs kc chain new s1,
    let s := after sh readers sched kcs v hs in
    do_set sh kc s chain new = (s1, true) ->
    exists k p, forall e, exists rs,
      reads s e rs /\ (In e (st_queue s1) <-> exists r, In r rs /\ wakes_k k p r = true).
Proof. exact sim_write_wakes_exactly_related. Qed.
Print Assumptions C16_sim_write_wakes_exactly_related_partial.

(** the same for a plain field guard and a reader of one field, spelled with the prefix relation *)
Theorem C16_sim_field_write_wakes_iff_prefix :
  forall n s p e r, consistent n s -> st_queue s = [] -> reads s e [r] ->
    (In e (st_queue (notify_all s (notified WField p))) <-> (is_prefix p r = true \/ is_prefix r p = true)).
Proof. exact field_write_wakes_iff_prefix. Qed.
Print Assumptions C16_sim_field_write_wakes_iff_prefix.

(** order: an effect woken at an earlier position of the notification order (C16_wake_position)
    is queued at the executor — and on a FIFO executor run — before one woken at a later position *)
Theorem C16_sim_earlier_position_queued_first :
  forall n s k p e1 e2 r1 r2 i1 i2,
    consistent n s -> st_queue s = [] -> reads s e1 [r1] -> reads s e2 [r2] ->
    wake_pos_k k p r1 = Some i1 -> wake_pos_k k p r2 = Some i2 -> i1 < i2 ->
    exists q1 q2, st_queue (notify_all s (notified k p)) = q1 ++ q2 /\ In e1 q1 /\ ~ In e2 q1 /\ In e2 q2.
Proof. exact earlier_position_queued_first. Qed.
Print Assumptions C16_sim_earlier_position_queued_first.

(** readers of ancestors of the written field (and of the field itself) are queued before
    readers of anything deeper on the written path or below it *)
Theorem C16_sim_ancestor_reader_queued_first :
  forall n s p e1 e2 r1 r2,
    consistent n s -> st_queue s = [] -> reads s e1 [r1] -> reads s e2 [r2] ->
    is_prefix r1 p = true -> (is_prefix r2 p = true \/ is_prefix p r2 = true) -> length r1 < length r2 ->
    exists q1 q2, st_queue (notify_all s (notified WField p)) = q1 ++ q2 /\ In e1 q1 /\ ~ In e2 q1 /\ In e2 q2.
Proof. exact ancestor_reader_queued_first. Qed.
Print Assumptions C16_sim_ancestor_reader_queued_first.

(** Patch::patch wakes exactly the effects that read a field related to a changed leaf *)
Theorem C16_sim_patch_wakes_exactly_related :
  forall n s ps e rs, consistent n s -> st_queue s = [] -> reads s e rs ->
    (In e (st_queue (notify_all s (concat (map triggers_for_path ps)))) <->
     exists p r, In p ps /\ In r rs /\ wakes p r = true).
Proof. exact patch_wakes_exactly_related. Qed.
Print Assumptions C16_sim_patch_wakes_exactly_related.

(** a reader that lost its field (removed key, None, missing index) is dropped: no write wakes it *)
Theorem C16_sim_blocked_reader_never_woken :
  forall n s k p e, consistent n s -> st_queue s = [] -> reads s e [] ->
    ~ In e (st_queue (notify_all s (notified k p))).
Proof. exact blocked_reader_never_woken. Qed.
Print Assumptions C16_sim_blocked_reader_never_woken.

(** ---- open finding F-C16-e: the keys of a keyed collection are refreshed only by its own
    write guard and by its iterator ---- *)

(** refuted as a statement about all histories: after a write through an ancestor reordered
    the collection [7; 8; 9] into [9; 8; 7], the reader of key 7 reaches the item of key 9 *)
Theorem C16_keyed_reader_follows_key_refuted :
  let sh := SStruct [SKeyed (SStruct [SInt; SInt])] in
  let it k n := Lst [Num k; Num n] in
  let v := Lst [Lst [it 7%Z 70%Z; it 8%Z 80%Z; it 9%Z 90%Z]] in
  let v' := Lst [Lst [it 9%Z 90%Z; it 8%Z 80%Z; it 7%Z 70%Z]] in
  let s := after sh [mkReader 0 0 [Fld 0; Key 7%Z]] [] [] v [HSet [] v'] in
  r_val (fst (walk (root_reached sh s) [Fld 0; Key 7%Z] 0)) = Some (it 9%Z 90%Z).
Proof. exact keyed_reader_follows_key_refuted. Qed.
Print Assumptions C16_keyed_reader_follows_key_refuted.

(** except in that known class (KnownClass = the KeyMap entry is out of sync with the
    collection, ~ entry_synced), a keyed step reaches the item carrying the reader's key ... *)
Theorem C16_keyed_reader_follows_key_except_known :
  forall r v k s0 it,
    r_sh r = SKeyed s0 -> entry_synced (r_keys r) (r_segs r) v ->
    r_val (extend r v (Key k)) = Some it -> item_key it = k.
Proof. exact keyed_step_reads_own_key_except_known. Qed.
Print Assumptions C16_keyed_reader_follows_key_except_known.

(** ... and update_keys(), which the keyed field's own write guard and its iterator run,
    (re-)establishes the sync, whatever the visiting orders *)
Theorem C16_update_keys_restores_sync :
  forall c1 c2 f v, fk_wf f -> NoDup (keys_of v) -> keys_synced (fk_update c1 c2 f (keys_of v)) v.
Proof. exact update_restores_sync. Qed.
Print Assumptions C16_update_keys_restores_sync.

(** ---- open finding F-C16-n: Patch names a changed item of a keyed collection by its index,
    keyed readers subscribe by the path segment of their key ---- *)

(** refuted as a statement about all histories: [7; 8] reordered into [8; 7] through the
    collection's own guard, then patched with a new value for the item of key 7: the reader of
    key 8 (reader 1) is queued, the reader of key 7 (reader 0) is not *)
Theorem C16_patch_keyed_item_refuted :
  let sh := SStruct [SKeyed (SStruct [SInt; SInt])] in
  let it k n := Lst [Num k; Num n] in
  let v := Lst [Lst [it 7%Z 1%Z; it 8%Z 2%Z]] in
  let readers := [mkReader 0 0 [Fld 0; Key 7%Z; Fld 1]; mkReader 0 0 [Fld 0; Key 8%Z; Fld 1]] in
  let s := after sh readers [] [] v [HSet [Fld 0] (Lst [it 8%Z 2%Z; it 7%Z 1%Z])] in
  st_queue (fst (do_patch sh s [Fld 0] (Lst [it 8%Z 2%Z; it 7%Z 5%Z]))) = [1].
Proof. exact patch_keyed_item_refuted. Qed.
Print Assumptions C16_patch_keyed_item_refuted.

(** except in that known class (KnownClass = the collection's key map is not aligned: some
    key's path segment differs from its index, ~ keys_aligned), the path of a keyed item is the
    index path Patch notifies, so C16_sim_patch_wakes_exactly_related speaks about keyed
    readers too; a fresh key map is aligned *)
Theorem C16_patch_keyed_item_except_known :
  forall r v k s0 f,
    r_sh r = SKeyed s0 -> km_find (r_segs r) (r_keys r) = Some f -> keys_aligned f ->
    forall seg idx, fk_get k f = Some (seg, idx) ->
      r_segs (extend r v (Key k)) = r_segs r ++ [idx].
Proof. exact keyed_path_is_index_path_except_known. Qed.
Print Assumptions C16_patch_keyed_item_except_known.

Theorem C16_fresh_keys_aligned : forall ks, NoDup ks -> keys_aligned (fk_new ks).
Proof. exact fk_new_aligned. Qed.
Print Assumptions C16_fresh_keys_aligned.

(** nested keyed collections (keyed inside a keyed item): when update_keys() of the outer
    collection removes a key, the FieldKeys of every keyed field at or below the removed item's
    path are forgotten (repair of F-C16-l), so the item that later takes over the recycled path
    segment is NOT in the known class: its nested collections start in sync *)
Theorem C16_recycled_slot_starts_fresh :
  forall c1 c2 p latest m f seg q v,
    km_find p m = Some f -> In seg (fk_removed f latest) -> starts_with (p ++ [seg]) q = true ->
    NoDup (keys_of v) -> entry_synced (km_update c1 c2 p latest m) q v.
Proof. exact recycled_slot_starts_fresh. Qed.
Print Assumptions C16_recycled_slot_starts_fresh.

(** ---- open finding F-C16-g: order between two readers that both sit strictly below the
    written field ---- *)

(** refuted as a statement about every pair (reader of an ancestor, reader of its descendant):
    with readers created in the order [store.m.x; store.m], writing the store queues the reader
    of store.m.x (effect 0) before the reader of store.m (effect 1) *)
Theorem C16_ancestor_first_refuted :
  let sh := SStruct [SInt; SStruct [SInt; SInt]] in
  let v := Lst [Num 1%Z; Lst [Num 2%Z; Num 3%Z]] in
  let readers := [mkReader 0 0 [Fld 1; Fld 0]; mkReader 0 0 [Fld 1]] in
  let s := after sh readers [] [] v [] in
  st_queue (fst (do_set sh ([], []) s [] (Lst [Num 4%Z; Lst [Num 5%Z; Num 6%Z]]))) = [0; 1].
Proof. exact ancestor_first_refuted. Qed.
Print Assumptions C16_ancestor_first_refuted.

(** except in that known class (KnownClass: the written field is a proper ancestor of both
    readers), the reader of an ancestor is queued before the reader of its descendant ... *)
Theorem C16_ancestor_first_except_known :
  forall n s p e1 e2 r1 r2,
    consistent n s -> st_queue s = [] -> reads s e1 [r1] -> reads s e2 [r2] ->
    is_prefix r1 r2 = true -> r1 <> r2 -> wakes p r1 = true -> wakes p r2 = true ->
    ~ (is_prefix p r1 = true /\ p <> r1) ->
    exists q1 q2, st_queue (notify_all s (notified WField p)) = q1 ++ q2 /\ In e1 q1 /\ ~ In e2 q1 /\ In e2 q2.
Proof. exact ancestor_first_except_known. Qed.
Print Assumptions C16_ancestor_first_except_known.

(** ... and the store's own guard queues the readers of the store before everybody else *)
Theorem C16_store_reader_queued_first :
  forall n s e1 e2 r2,
    consistent n s -> st_queue s = [] -> reads s e1 [[]] -> reads s e2 [r2] -> r2 <> [] ->
    exists q1 q2, st_queue (notify_all s (notified WRoot [])) = q1 ++ q2 /\ In e1 q1 /\ ~ In e2 q1 /\ In e2 q2.
Proof. exact store_reader_queued_first. Qed.
Print Assumptions C16_store_reader_queued_first.

(** a write always wakes the readers of the written field itself, and the wake relation is
    symmetric: a write at p wakes the readers of r exactly when a write at r wakes those of p *)
Theorem C16_write_wakes_own_readers : forall p, wakes p p = true.
Proof. exact wakes_self. Qed.
Print Assumptions C16_write_wakes_own_readers.

Theorem C16_wakes_symmetric : forall p r, wakes p r = wakes r p.
Proof. exact wakes_sym. Qed.
Print Assumptions C16_wakes_symmetric.
