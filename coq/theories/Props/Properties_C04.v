(** C04 — a mounted reactive view always settles to the render of current state.
    Statements only; proofs live in Dom/ReactiveProofs.v. *)
From Coq Require Import List NArith.
From LV Require Import Dom.ReactiveView Dom.ReactiveProofs.
Import ListNotations.

(** for every reactive view program of the grammar (dynamic text / attribute / class / style,
    conditionals, async leaves), every initial signal values, every history of signal writes and
    future completions (any order, also an older future after a newer one) interleaved with every
    order of task polls: whenever no task is ready and no async leaf is waiting for the future of its
    last run, what is on screen is the from-scratch render of the current signal values.
    Keyed lists, Suspense boundaries, ErrorBoundary and owner-disposal events are not in this model
    (keyed lists inside reactive views are driven and judged by the oracle only). *)
Theorem C04_reactive_view_converges :
  forall r s0 es,
    let st := run_events (mount r s0) es in
    idle st = true -> settled (root st) = true -> shape_of (root st) = fresh (sigs (ev st)) r.
Proof. exact reactive_view_converges. Qed.
Print Assumptions C04_reactive_view_converges.

(** polling the task of an effect that is not part of the mounted state any more (its branch was
    switched away, or an enclosing closure re-ran and replaced it) runs no closure and changes nothing *)
Theorem C04_disposed_branch_effects_never_run :
  forall st k,
    ~ In (picked st k) (eids (root st)) ->
    root (step st (EPoll k)) = root st /\ log (ev (step st (EPoll k))) = log (ev st) /\
    sigs (ev (step st (EPoll k))) = sigs (ev st).
Proof. exact disposed_branch_effects_never_run. Qed.
Print Assumptions C04_disposed_branch_effects_never_run.

(** PARTIAL. Proved: a signal write by itself, and a poll that finds no notified effect of the polled
    task, leave every DOM node the same object (id) with the same mutation count and content — a node
    is only ever created, replaced or mutated by the run of an effect whose closure read a written
    signal. Not proved (compared on every generated case: per-node identity / mutation status of model
    and implementation): the finer frame statement that the run of one effect touches only the nodes
    that effect governs. *)
Theorem C04_untouched_parts_unmutated_partial :
  forall st e,
    match e with
    | EWrite _ _ => True
    | EPoll k => due_in (picked st k) (root st) = false
    | EComplete _ _ => False
    end ->
    nodes (root (step st e)) = nodes (root st) /\ shape_of (root (step st e)) = shape_of (root st).
Proof. exact untouched_parts_unmutated_partial. Qed.
Print Assumptions C04_untouched_parts_unmutated_partial.
