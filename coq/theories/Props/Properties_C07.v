(** C07 — streamed HTML equals the fully resolved render for any completion order.
    Statements only; the model is Html/Stream.v, the proofs are in Html/StreamProofs.v.

    [run_free n ooo v init ev]: render view [v] while the futures [init] are complete, follow
    the schedule [ev] (completions and polls, any interleaving), then complete the remaining
    futures and poll (at most [n] times) until None.  [run_executor]: the same schedule of
    completions, but the stream is polled only when its waker has been called.
    [somes l]: concatenation of the emitted chunks.  [resolved v]: the document of the fully
    awaited view.  [known_class ooo init v]: decidable class of finding F-C07-a. *)
From Coq Require Import List NArith.
From LV Require Import Html.Stream Html.StreamRun Html.StreamProofs Html.StreamOooProofs.
Import ListNotations.
Local Open Scope nat_scope.

(** in-order concatenation is REFUTED as stated (F-C07-a): a<!>bc instead of a<!>b<!>c *)
Theorem C07_in_order_concat_refuted :
  exists v init ev,
    somes (run_free (poll_fuel v) false v init ev) <> fst (resolved v FirstChild).
Proof. exact in_order_concat_refuted. Qed.
Print Assumptions C07_in_order_concat_refuted.

(** … and holds for every view outside that class, for every schedule: the chunks concatenate
    to the resolved render, the stream ends with None, and no poll bound / fuel / panic is hit *)
Theorem C07_in_order_concat_except_known :
  forall v init n, poll_fuel v <= n -> known_class false init v = false ->
  forall ev,
    let l := run_free n false v init ev in
    somes l = fst (resolved v FirstChild) /\ In ONone l /\ clean l.
Proof. exact in_order_concat_free. Qed.
Print Assumptions C07_in_order_concat_except_known.

(** the same when the stream is polled only on wake-ups (any completion order) *)
Theorem C07_in_order_concat_executor_except_known :
  forall v init n ev, poll_fuel v <= n -> known_class false init v = false ->
    somes (run_executor n false v init ev) = fst (resolved v FirstChild).
Proof. exact in_order_concat_exec. Qed.
Print Assumptions C07_in_order_concat_executor_except_known.

(** terminates: for EVERY view (known class included) and every schedule, once all futures have
    completed the in-order stream yields None within poll_fuel v = 4·|v|+4 polls, and yields
    only chunks before that *)
Theorem C07_terminates_in_order :
  forall v init ev,
  let s1 := fst (run_events clo oclo res_clo res_oclo (poll_fuel v) ev (init_state false init v)) in
  let s2 := fst (complete_all clo oclo (sort_N (futures_of v)) s1) in
  let '(s3, l) := drain clo oclo res_clo res_oclo (poll_fuel v) (poll_fuel v) s2 in
  rs_ended s3 = true /\ length l <= poll_fuel v
  /\ (forall o, In o l -> o = ONone \/ exists x, o = OSome x).
Proof. exact terminates_in_order. Qed.
Print Assumptions C07_terminates_in_order.

(** no lost wake-up, state form (in-order and out-of-order, any state): a poll that returns
    Pending leaves the task's waker with a future that is incomplete and still owned by the
    stream; completing that future wakes the task *)
Theorem C07_no_lost_wake :
  forall fuel (s s' : run_state clo oclo),
  step_poll clo oclo res_clo res_oclo fuel s = (s', PPending) ->
  exists f, In f (rs_reg s') /\ memf f (rs_done s') = false
            /\ In f (sbfuts clo oclo fclo foclo (rs_sb s))
            /\ holds clo oclo (rs_sb s') f
            /\ snd (step_complete clo oclo f s') = 1%N.
Proof. exact no_lost_wake_view. Qed.
Print Assumptions C07_no_lost_wake.

(** no lost wake-up, run form: an executor that polls the in-order stream of EVERY view only
    when woken reaches None after the last completion — it never stalls — for every order of
    completions *)
Theorem C07_executor_never_stalls_in_order :
  forall v init ev n, poll_fuel v <= n ->
  clean (run_executor n false v init ev) /\ In ONone (run_executor n false v init ev).
Proof. exact executor_never_stalls_in_order. Qed.
Print Assumptions C07_executor_never_stalls_in_order.

(* ------------------------------------------------------------------ out-of-order *)
(** [wf_ooo v]: the view uses no raw push_async node (no view does in an out-of-order stream) and a boundary whose future
    yields None has a fallback without futures.  [apply_scripts h [] None]: what a browser has
    after parsing the concatenated stream [h] — text is appended to the document, a <template>
    is inert, its script replaces the marked fallback in the document parsed so far ([None]: a
    script did not find its markers). *)

(** out-of-order equality is REFUTED as stated (F-C07-a): <div><p>l</p>mr</div> instead of
    <div><p>l</p>m<!>r</div> *)
Theorem C07_ooo_after_scripts_refuted :
  exists v init ev, wf_ooo v = true /\
    apply_scripts (somes (run_free (poll_fuel v) true v init ev)) [] None
    <> Some (fst (resolved v FirstChild)).
Proof. exact ooo_after_scripts_refuted. Qed.
Print Assumptions C07_ooo_after_scripts_refuted.

(** … and holds outside that class: after its replacement scripts the out-of-order stream is the
    resolved render, for every schedule; the stream ends with None, nothing goes wrong *)
Theorem C07_ooo_after_scripts_except_known :
  forall v init n ev,
  poll_fuel v <= n -> wf_ooo v = true -> known_class true init v = false ->
  let l := run_free n true v init ev in
  apply_scripts (somes l) [] None = Some (fst (resolved v FirstChild)) /\ In ONone l /\ clean l.
Proof. exact ooo_after_scripts_free. Qed.
Print Assumptions C07_ooo_after_scripts_except_known.

Theorem C07_ooo_after_scripts_executor_except_known :
  forall v init n ev,
  poll_fuel v <= n -> wf_ooo v = true -> known_class true init v = false ->
  let l := run_executor n true v init ev in
  apply_scripts (somes l) [] None = Some (fst (resolved v FirstChild)) /\ In ONone l /\ clean l.
Proof. exact ooo_after_scripts_exec. Qed.
Print Assumptions C07_ooo_after_scripts_executor_except_known.

(** for EVERY well-formed view (known class included), every schedule, both drives: the
    out-of-order stream terminates (None within the poll bound once all futures are complete),
    never panics, a wake-driven executor never stalls, every replacement script finds its
    markers, and no marker is left over: no chunk is dropped *)
Theorem C07_ooo_terminates_and_scripts_apply :
  forall v init n ev,
  poll_fuel v <= n -> wf_ooo v = true ->
  (let l := run_free n true v init ev in
   (exists D, apply_scripts (somes l) [] None = Some D /\ plain D) /\ In ONone l /\ clean l)
  /\ (let l := run_executor n true v init ev in
      (exists D, apply_scripts (somes l) [] None = Some D /\ plain D) /\ In ONone l /\ clean l).
Proof. exact ooo_always_sound. Qed.
Print Assumptions C07_ooo_terminates_and_scripts_apply.

(** each boundary shows its fallback until it is replaced: after any prefix of any schedule the
    browser's document (with what the stream still buffers) has exactly one fallback region per
    unresolved chunk, and filling the regions with their final content gives the resolved render *)
Theorem C07_ooo_fallback_until_replaced :
  forall v init ev,
  wf_ooo v = true -> known_class true init v = false ->
  let x := run_events clo oclo res_clo res_oclo (poll_fuel v) ev (init_state true init v) in
  exists D rs e,
    apply_scripts (somes (snd x) ++ Tb (rs_sb (fst x))) [] None = Some D
    /\ wfd D rs /\ NoDup (rids rs)
    /\ (forall i F0, In (i, F0) rs -> exists f k, In (f, k) (Qb (rs_sb (fst x))) /\ o_id k = Some i)
    /\ (forall f k, In (f, k) (Qb (rs_sb (fst x))) -> exists i F0, o_id k = Some i /\ In (i, F0) rs)
    /\ fill e None D = fst (resolved v FirstChild).
Proof. exact ooo_fallback_until_replaced. Qed.
Print Assumptions C07_ooo_fallback_until_replaced.
