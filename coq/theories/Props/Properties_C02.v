(** C02 — effects converge to the current state under every task schedule.
    Statements only; proofs in Reactive/Effects*Proofs.v, ConvergeProofs.v. *)
From Coq Require Import List ZArith.
From LV Require Import Reactive.Graph Reactive.Effects Reactive.GraphInvariant Reactive.GraphPullBase
                       Reactive.GraphPullDefs Reactive.GraphProofs Reactive.EffectsProofs
                       Reactive.EffectsRunProofs Reactive.EffectsOrderProofs Reactive.ConvergeProofs
                       Reactive.GraphRun Reactive.OwnerTreeExamples.
Import ListNotations.
Close Scope Z_scope.
Open Scope nat_scope.

(** [idle_converged]: for all programs (effects over signals and memos, effects and watch handlers
    that write signals), all histories of writes interleaved with partial executor progress, and
    all choices of which ready task is polled next: whenever the run queue is empty (and the
    case was not cut off as diverging), every live effect that did not miss a notification
    while paused (documented as not replayed) has run, has no notification or dirty flag
    pending, its last run's log shows the current value of everything it tracked, and every
    memo it tracked is Clean with a consistent cone.
    Known class excluded: [self_feeding p] — some effect writes a signal of its own static cone
    (finding F-C02-d, open; refuted for that class by [C02_self_feeding_refuted] below).
    [par] is the (static) tree of owners the effects were created under, any tree; pause / resume
    / dispose act on subtrees of it (theorems [C02_pause_reaches_descendants] ... below).
    [selw] marks the internal effects of selectors.  A Selector (computed/selector.rs) is modelled
    as a program transformation into cells, triggers and an internal RenderEffect (GraphRun.v);
    that effect keeps its previous value in a cell it reads and writes, so a program with a
    selector lies in the class [self_feeding] as defined here and is NOT covered by this theorem:
    the selector part is compared with the code (traces) and checked by the Python oracle only.
    Not modelled: effects created by other effects at run time. *)
Theorem C02_idle_converged_except_known :
  forall p par selw, wf_prog p -> ~ self_feeding p ->
  forall ops e, wf_ops p ops -> let s := run_fixed p par selw ops in
  ready s = [] -> halted s = false -> effb p e = true ->
  ealive (getn s e) = true -> emissed (getn s e) = false ->
  EffectConverged p s e.
Proof. exact idle_converged_except_known. Qed.
Print Assumptions C02_idle_converged_except_known.

(** the known class is not empty and contains the witness program of F-C02-d; a program with
    writing effects outside the class (a relay) converges *)
Theorem C02_known_class_witness : self_feeding p_self.
Proof. exact p_self_is_self_feeding. Qed.
Print Assumptions C02_known_class_witness.

Theorem C02_relay_converges :
  let s := run_flat p_relay ops_relay in
  ready s = [] /\ halted s = false /\ sval (getn s 1) = 6%Z /\
  last_log s 4 = [(3, 12%Z, true)] /\ last_log s 2 = [(0, 5%Z, true)].
Proof. exact relay_converges. Qed.
Print Assumptions C02_relay_converges.

(** between operations no task is unspawned or in the middle of a poll *)
Theorem C02_tasks_at_rest_between_operations :
  forall p par selw, wf_prog p -> no_self_feed p ->
  forall ops, wf_ops p ops ->
  halted (run_fixed p par selw ops) = true \/
  forall e, effb p e = true -> epoll (getn (run_fixed p par selw ops) e) = false.
Proof. exact reachable_at_rest. Qed.
Print Assumptions C02_tasks_at_rest_between_operations.

(** [no_glitch_in_run]: every value read during a run (of an effect or a memo body; [CtxDep]: the
    running body statically mentions what it reads; the node read has not been disposed) is, at
    that moment, the cached value of a
    Clean memo whose whole tracked cone is current, or the signal's present value *)
Theorem C02_no_glitch_in_run :
  forall p, wf_prog p ->
  forall m c j s stk t s' v,
  Inv p stk t s -> ctx_ok stk c -> TopOK c s -> j < t -> j < length p -> effb p j = false ->
  CtxDep p c j -> dead p s j = false ->
  read_any p m c j s = (s', v) ->
  Inv p stk t s' /\
  (memob p j = true -> cache (getn s' j) = Some v /\ ConsistentM p s' j) /\
  (sigb p j = true -> v = sval (getn s' j)).
Proof. exact read_in_run_consistent. Qed.
Print Assumptions C02_no_glitch_in_run.

(** [paused_never_runs]: polling the task of an effect whose owner's [paused] flag is up starts no
    body, whatever its flags and for any update_if_necessary ([poll_sched]: what the executor does
    with a task taken from the run queue) *)
Theorem C02_paused_never_runs :
  forall p selw chk e s, epaused (getn s e) = true -> only_diverge s (poll_sched p selw chk e s).
Proof. exact paused_never_runs_sched. Qed.
Print Assumptions C02_paused_never_runs.

(** the owner tree: Owner::pause on the owner effect [o] was created under raises, and
    Owner::resume on it clears, the flag of EVERY effect [e] created under that owner or under
    any of its descendants ([under par o e]; [wf_par]: an owner is created after its parent),
    whether or not the owners in between were paused themselves; nobody else's flag changes.
    Hence an effect paused through an inner owner and resumed through an outer one is polled as
    an unpaused effect from then on. *)
Theorem C02_pause_reaches_descendants :
  forall p par b o e s, wf_par par -> under p par o e -> e < length p -> e < length (nodes s) ->
  epaused (getn (set_paused_tree p par b o s) e) = b.
Proof. exact set_paused_tree_reaches. Qed.
Print Assumptions C02_pause_reaches_descendants.

Theorem C02_pause_leaves_others :
  forall p par b o e s, ~ In e (subtree p par (length p) o) ->
  epaused (getn (set_paused_tree p par b o s) e) = epaused (getn s e).
Proof. exact set_paused_tree_others. Qed.
Print Assumptions C02_pause_leaves_others.

(** on a tree of depth 3 (effect, under it an effect, under that a RenderEffect): the innermost
    owner is paused, a write is consumed without a run, the OUTERMOST owner is resumed, and the
    next write reaches the inner effect: at idle its last run shows the current value *)
Theorem C02_resume_of_ancestor_reaches_inner_effect :
  let s := run_fixed p_tree par_tree no_sel ops_tree in
  ready s = [] /\ halted s = false /\ epaused (getn s 4) = false /\ emissed (getn s 4) = false /\
  last_log s 4 = [(1, 2%Z, true)].
Proof. exact resume_ancestor_reaches_inner. Qed.
Print Assumptions C02_resume_of_ancestor_reaches_inner_effect.

(** selectors (compared, not proved): the model of Selector::new_with_fn(same bucket of ten) with
    an effect reading selected(10) while the source goes 3 -> 15 -> 27: the reader runs three
    times and sees 0, 1, 0; and the transformed program lies in the class [self_feeding], which
    is why [C02_idle_converged_except_known] does not speak about selectors *)
Theorem C02_selector_model_notifies_coarse_comparator :
  filter (fun e => match e with EvEnd 5 _ => true | _ => false end) (snd (run_trace c_sel)) =
  [EvEnd 5 0%Z; EvEnd 5 1%Z; EvEnd 5 0%Z].
Proof. exact selector_bucket_runs. Qed.
Print Assumptions C02_selector_model_notifies_coarse_comparator.

Theorem C02_selector_model_in_excluded_class : self_feeding (fst (run_trace c_sel)).
Proof. exact selector_is_in_excluded_class. Qed.
Print Assumptions C02_selector_model_in_excluded_class.

(** [disposed_never_runs]: after its owner is cleaned up, the next poll ends the task without
    running anything, and marks no longer reach it *)
Theorem C02_disposed_never_runs :
  forall p selw chk e s, ealive (getn s e) = false -> trace (poll_sched p selw chk e s) = trace s.
Proof. exact disposed_never_runs_sched. Qed.
Print Assumptions C02_disposed_never_runs.

Theorem C02_dead_effect_ignores_marks :
  forall e s, ealive (getn s e) = false -> eff_mark_dirty e s = s /\ eff_notify e s = s.
Proof. exact dead_effect_ignores_marks. Qed.
Print Assumptions C02_dead_effect_ignores_marks.

(** [wake_order_is_subscription_order]: a write to a signal read directly by effects appends the
    woken tasks to the run queue in subscriber-list order; and the subscriber list is the order
    of subscription (a new subscriber goes to the end, removing one keeps the others' order) *)
Theorem C02_wake_order_is_subscriber_order :
  forall p j s,
  NoDup (subs (getn s j)) -> (forall k, In k (subs (getn s j)) -> effb p k = true) ->
  ready (notify_sig p j s) = ready s ++ filter (wakes s) (subs (getn s j)).
Proof. exact wake_order_is_subscriber_order. Qed.
Print Assumptions C02_wake_order_is_subscriber_order.

Theorem C02_subscribe_appends :
  forall l x, subscribe l x = l \/ (~ In x l /\ subscribe l x = l ++ [x]).
Proof. exact subscribe_appends. Qed.
Print Assumptions C02_subscribe_appends.

Theorem C02_unsubscribe_keeps_order :
  forall l x, exists l1 l2,
  (l = l1 ++ l2 /\ unsubscribe l x = l1 ++ l2 /\ ~ In x l) \/
  (l = l1 ++ x :: l2 /\ unsubscribe l x = l1 ++ l2 /\ ~ In x l1).
Proof. exact unsubscribe_keeps_order. Qed.
Print Assumptions C02_unsubscribe_keeps_order.

(** state-based form *)
Theorem C02_idle_effect_converged :
  forall p s e, Inv0 p s -> ready s = [] -> effb p e = true ->
  ealive (getn s e) = true -> epoll (getn s e) = false -> emissed (getn s e) = false ->
  EffectConverged p s e.
Proof. exact idle_effect_converged. Qed.
Print Assumptions C02_idle_effect_converged.

(** F-C02-c on the code before the fix (effect reads m3 then m2, m3 absorbs m2's change): idle,
    yet the effect's last run shows m2 = 2 while m2 is 4 *)
Theorem C02_lost_update_prefix_refuted :
  let s := run_prefix_c p_lost no_par no_sel ops_c in
  ready s = [] /\ last_log s 3 = [(2, 1%Z, true); (1, 2%Z, true)] /\
  cache (getn (fst (read_top p_lost 1 s)) 1) = Some 4%Z.
Proof. exact lost_update_prefix_refuted. Qed.
Print Assumptions C02_lost_update_prefix_refuted.

Theorem C02_lost_update_fixed :
  let s := run_flat p_lost ops_c in
  ready s = [] /\ last_log s 3 = [(2, 1%Z, true); (1, 4%Z, true)].
Proof. exact lost_update_fixed. Qed.
Print Assumptions C02_lost_update_fixed.

(** F-C02-a on the code before the fix (paused effect, write through WriteSignal, resume): the
    write made after resume never reaches the effect *)
Theorem C02_resume_then_write_prefix_refuted :
  let s := run_prefix_a p_take no_par no_sel ops_a in
  ready s = [] /\ last_log s 1 = [(0, 1%Z, true)] /\ sval (getn s 0) = 3%Z.
Proof. exact resume_prefix_refuted. Qed.
Print Assumptions C02_resume_then_write_prefix_refuted.

Theorem C02_resume_then_write_fixed :
  let s := run_flat p_take ops_a in
  ready s = [] /\ last_log s 1 = [(0, 3%Z, true)].
Proof. exact resume_fixed. Qed.
Print Assumptions C02_resume_then_write_fixed.

(** F-C02-d (open): a self-feeding effect ends, idle, with a stale first read of j *)
Theorem C02_self_feeding_refuted :
  let s := run_flat p_self [ORead 2; ORun] in
  ready s = [] /\ last_log s 3 = [(1, 1%Z, true); (1, 1%Z, true); (2, 5%Z, true)] /\
  cache (getn s 1) = Some 5%Z.
Proof. exact self_feeding_refuted. Qed.
Print Assumptions C02_self_feeding_refuted.
