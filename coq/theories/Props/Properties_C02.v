(** C02 — effects converge to the current state under every task schedule.
    Statements only; proofs in Reactive/Effects*Proofs.v, ConvergeProofs.v. *)
From Coq Require Import List ZArith.
From LV Require Import Reactive.Graph Reactive.Effects Reactive.GraphInvariant Reactive.GraphPullBase
                       Reactive.GraphProofs Reactive.EffectsProofs Reactive.EffectsRunProofs
                       Reactive.ConvergeProofs.
Import ListNotations.
Close Scope Z_scope.
Open Scope nat_scope.

(** [idle_converged]: for all programs, all histories of writes interleaved with partial executor
    progress, and all choices of which ready task is polled next: whenever the run queue is empty,
    every live effect that did not miss a notification while paused (documented as not replayed)
    has run, has no notification or dirty flag pending, its last run's log shows the current
    value of everything it tracked, and every memo it tracked is Clean with a consistent cone.
    Partial: effects whose bodies write signals are not covered ([pure_effects]); the
    self-feeding ones among them are the open finding F-C02-d. *)
Theorem C02_idle_converged_partial :
  forall p, wf_prog p -> pure_effects p ->
  forall ops e, wf_ops p ops -> let s := run_fixed p ops in
  ready s = [] -> effb p e = true ->
  ealive (getn s e) = true -> epoll (getn s e) = false -> emissed (getn s e) = false ->
  EffectConverged p s e.
Proof. exact idle_converged. Qed.
Print Assumptions C02_idle_converged_partial.

(** state-based form *)
Theorem C02_idle_effect_converged :
  forall p s e, Inv0 p s -> ready s = [] -> effb p e = true ->
  ealive (getn s e) = true -> epoll (getn s e) = false -> emissed (getn s e) = false ->
  EffectConverged p s e.
Proof. exact idle_effect_converged. Qed.
Print Assumptions C02_idle_effect_converged.

(** F-C02-c on the code before the fix (effect reads m3 then m2, m3 absorbs m2's change): idle,
    yet the effect's last run shows m2 = 2 while m2 is 4 *)
Theorem C02_lost_update_prefix_refuted :
  let s := run_prefix_c p_lost ops_c in
  ready s = [] /\ last_log s 3 = [(2, 1%Z, true); (1, 2%Z, true)] /\
  cache (getn (fst (read_top p_lost 1 s)) 1) = Some 4%Z.
Proof. exact lost_update_prefix_refuted. Qed.
Print Assumptions C02_lost_update_prefix_refuted.

Theorem C02_lost_update_fixed :
  let s := run_fixed p_lost ops_c in
  ready s = [] /\ last_log s 3 = [(2, 1%Z, true); (1, 4%Z, true)].
Proof. exact lost_update_fixed. Qed.
Print Assumptions C02_lost_update_fixed.

(** F-C02-a on the code before the fix (paused effect, write through WriteSignal, resume): the
    write made after resume never reaches the effect *)
Theorem C02_resume_then_write_prefix_refuted :
  let s := run_prefix_a p_take ops_a in
  ready s = [] /\ last_log s 1 = [(0, 1%Z, true)] /\ sval (getn s 0) = 3%Z.
Proof. exact resume_prefix_refuted. Qed.
Print Assumptions C02_resume_then_write_prefix_refuted.

Theorem C02_resume_then_write_fixed :
  let s := run_fixed p_take ops_a in
  ready s = [] /\ last_log s 1 = [(0, 3%Z, true)].
Proof. exact resume_fixed. Qed.
Print Assumptions C02_resume_then_write_fixed.

(** F-C02-d (open): a self-feeding effect ends, idle, with a stale first read of j *)
Theorem C02_self_feeding_refuted :
  let s := run_fixed p_self [ORead 2; ORun] in
  ready s = [] /\ last_log s 3 = [(1, 1%Z, true); (1, 1%Z, true); (2, 5%Z, true)] /\
  cache (getn s 1) = Some 5%Z.
Proof. exact self_feeding_refuted. Qed.
Print Assumptions C02_self_feeding_refuted.
