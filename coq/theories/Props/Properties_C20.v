(** C20 — concurrent server renders never see each other's state.
    Statements only; proofs live in Reactive/AmbientProofs.v.

    Level: proof of the SCOPING DISCIPLINE on the executable model Reactive/Ambient.v (thread-local
    OWNER / OBSERVER / arena MAP, the wrappers exactly as coded).  [all_scoped progs] is the
    discipline: every step of every task that depends on the ambient state sits inside a wrapper
    (ScopedFuture / Owner::with / OwnedView) holding an owner of the task's own request.  That
    leptos applies a wrapper at every boundary is NOT proved here; it is what the differential runs
    of ./check C20 test (the programs the model runs for a harness case do satisfy the hypothesis:
    C20_harness_programs_follow_the_discipline). *)
From Coq Require Import List ZArith.
From LV Require Import Reactive.Ambient Reactive.AmbientProofs.
Import ListNotations.

(** for ALL interleavings [s] of request starts, completions of external futures and polls of
    single tasks, of any number of requests, with global or sandboxed arenas: every ambient
    read made by code of request r sees an owner of r — or none once r's own root is dropped —
    never an owner of another request *)
Theorem C20_scoped_isolation : forall sb progs s r e,
  all_scoped progs -> r <> 0 ->
  In e (q_log (get_req r (c_w (run_sched sb s (init_world progs))))) ->
  ev_owner e = r \/ ev_owner e = 0.
Proof. exact scoped_isolation. Qed.
Print Assumptions C20_scoped_isolation.

(** solo equivalence: the projection of the interleaved run on request r — its whole record:
    the log of what every probe saw (owner, both context values, arena item), its owners and
    their contexts, handles, tasks, cleanup log — and every arena entry of r are those of the
    run that keeps r's events only ... *)
Theorem C20_solo_equivalence : forall sb progs s r,
  all_scoped progs -> r <> 0 ->
  get_req r (c_w (run_sched sb s (init_world progs))) =
  get_req r (c_w (run_sched sb (only r s) (init_world progs))) /\
  forall k, belongs sb r k = true ->
    store_get k (w_store (c_w (run_sched sb s (init_world progs)))) =
    store_get k (w_store (c_w (run_sched sb (only r s) (init_world progs)))).
Proof. exact solo_equivalence. Qed.
Print Assumptions C20_solo_equivalence.

(** ... in which no other request ever exists *)
Theorem C20_solo_run_is_alone : forall sb progs s r r',
  all_scoped progs -> r' <> r ->
  get_req r' (c_w (run_sched sb (only r s) (init_world progs))) = get_req r' (c_w (init_world progs)).
Proof. exact solo_is_alone. Qed.
Print Assumptions C20_solo_run_is_alone.

(** dropping the root owner of r, in any reachable state, leaves the record and every arena
    entry of every other request untouched *)
Theorem C20_drop_frame : forall sb progs s r r',
  all_scoped progs -> r <> 0 -> r' <> r ->
  get_req r' (c_w (run_sched sb s (init_world progs))) =
  get_req r' (c_w (drop_req sb r (run_sched sb s (init_world progs)))) /\
  forall k, belongs sb r' k = true ->
    store_get k (w_store (c_w (run_sched sb s (init_world progs)))) =
    store_get k (w_store (c_w (drop_req sb r (run_sched sb s (init_world progs))))).
Proof. exact drop_frame. Qed.
Print Assumptions C20_drop_frame.

(** the hypothesis is necessary: a task polled without its wrapper reads, from inside request 1,
    the owner and the context value of request 2 *)
Theorem C20_unscoped_counterexample : forall sb, exists progs s e,
  ~ all_scoped progs /\
  In e (q_log (get_req 1 (c_w (run_sched sb s (init_world progs))))) /\
  ev_owner e = 2 /\ e = (7, 1, 2, 102%Z, (-1)%Z, (-9)%Z).
Proof. exact unscoped_counterexample. Qed.
Print Assumptions C20_unscoped_counterexample.

(** the programs the model executes for any harness case (Ambient.compile / main_prog: how
    Suspend, Suspense, Provider, Resource, OnceResource and build_response apply the wrappers)
    satisfy the discipline, and what run_C20 computes is such a schedule *)
Theorem C20_harness_programs_follow_the_discipline : forall views, all_scoped (harness_progs views).
Proof. exact harness_progs_scoped. Qed.
Print Assumptions C20_harness_programs_follow_the_discipline.

Theorem C20_harness_run_isolated : forall sb views acts r e,
  Forall (fun a => coarse_req a <> 0) acts -> r <> 0 ->
  In e (q_log (get_req r (c_w (run_actions sb acts (init_world (harness_progs views)))))) ->
  ev_owner e = r \/ ev_owner e = 0.
Proof. exact harness_run_isolated. Qed.
Print Assumptions C20_harness_run_isolated.

(** two variants of the code that would break the frame, as witnesses that the model tells them
    apart: (a) an owner cleaned up through the arena that is *current* on the thread instead of
    its own deletes the other request's item at the colliding key (an item under a nested
    owner); as coded it survives *)
Theorem C20_ambient_arena_drop_breaks_frame :
  let c := run_sched true nested_sched (init_world nested_progs) in
  store_get (2, (0, 0)) (w_store (c_w c)) = Some 22%Z /\
  store_get (2, (0, 0)) (w_store (c_w (drop_req_ambient_arena 1 c))) = None /\
  store_get (2, (0, 0)) (w_store (c_w (drop_req true 1 c))) = Some 22%Z.
Proof. exact ambient_arena_drop_breaks_frame. Qed.
Print Assumptions C20_ambient_arena_drop_breaks_frame.

(** (b) a Sandboxed task holding its arena weakly: a plain spawned task that outlives its
    request's owner reads the other request's item (22) through its own handle; as coded it
    reads nothing (-1) *)
Theorem C20_weak_sandbox_leaks :
  let c := run_sched true late_sched (init_world late_progs) in
  q_log (get_req 1 (c_w (poll_task_weak 1 1 c))) = [(9, 8, 2, (-1)%Z, (-1)%Z, 22%Z)] /\
  q_log (get_req 1 (c_w (poll_task true 1 1 c))) = [(9, 8, 2, (-1)%Z, (-1)%Z, (-1)%Z)].
Proof. exact weak_sandbox_leaks. Qed.
Print Assumptions C20_weak_sandbox_leaks.

(** (c) a request whose owner is a child of the ambient owner instead of a root (the
    server-function handler of leptos_axum / leptos_actix before the repair of F-C20-b): next to
    a page request it observes that request's owner and root context (101), and dropping the
    page's root runs its cleanup (7); with a root of its own, as coded now, neither happens *)
Theorem C20_server_fn_child_owner_leaks : forall sb,
  let c0 := run_sched sb [SStart 1; SPoll 1 0] (init_world sfn_progs) in
  q_log (get_req 2 (c_w (poll_task sb 2 0 (start_child sb 2 c0)))) = [(1, 10, 1, 101%Z, (-1)%Z, (-9)%Z)] /\
  q_clog (get_req 1 (c_w (drop_req sb 1 (poll_task sb 2 0 (start_child sb 2 c0))))) = [(7%Z, 1)] /\
  q_log (get_req 2 (c_w (poll_task sb 2 0 (start sb 2 c0)))) = [(1, 10, 2, (-1)%Z, (-1)%Z, (-9)%Z)] /\
  q_clog (get_req 1 (c_w (drop_req sb 1 (poll_task sb 2 0 (start sb 2 c0))))) = [].
Proof. exact server_fn_child_owner_leaks. Qed.
Print Assumptions C20_server_fn_child_owner_leaks.
