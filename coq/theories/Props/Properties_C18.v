(** C18 — the view! macro renders what the template says.
    Statements only; proofs live in Html/MacroProofs.v (with MacroParseProofs, MacroAttrProofs,
    MacroSort).  [view_html true] is what [view!] renders (compile-time inert HTML wherever the
    macro finds an eligible subtree), [builder_html] = [view_html false] the builder path alone,
    [inert_html] the compile-time string of one inert element; [parse] reads HTML into an element
    tree with attribute SETS and merged text (comments dropped); [denote] is defined on the
    template alone.  [wf]: readable names, no component tags, void elements empty, raw-text
    elements hold text without "</", blocks are non-empty strings, no element named script / style /
    noscript below an SVG / MathML element (the HTML parser reads those as ordinary elements there;
    the model threads the parent namespace and the foreign-content flag for them and is compared
    with the code byte for byte, finding F-C18-l).  [KnownClass] = finding
    F-C18-f (a <title> with two text children), for which the statements are refuted below.
    The model covers elements, attributes, class:/style: forms, attributes that are instructions to
    the builder and render nothing (on:, prop:, use:, node_ref: one constructor [ASilent]), text,
    blocks, fragments and comments ([NComment]: no view, but an element holding one is never inert);
    rstml parsing, token plumbing and component/slot expansion are outside it (compared only). *)
From Coq Require Import List NArith Bool.
From LV Require Import Base.Bytes Html.Macro Html.MacroParse Html.MacroAttrProofs Html.MacroProofs.
Import ListNotations.

(** both paths yield the same document *)
Theorem C18_inert_eq_builder_except_known :
  forall n, wf [n] -> ~ KnownClass [n] -> is_inert_element n = true ->
  parse (inert_html n) = parse (builder_html [n]).
Proof. exact inert_eq_builder. Qed.
Print Assumptions C18_inert_eq_builder_except_known.

(** … except inside <title>, where the builder path's text separator is literal text *)
Theorem C18_inert_eq_builder_refuted :
  exists n, wf [n] /\ is_inert_element n = true /\ parse (inert_html n) <> parse (builder_html [n]).
Proof. exact inert_eq_builder_refuted. Qed.
Print Assumptions C18_inert_eq_builder_refuted.

(** the builder path renders the element tree, attribute sets and text the template denotes *)
Theorem C18_builder_denotes_except_known :
  forall t, wf t -> ~ KnownClass t -> parse (builder_html t) = denote t.
Proof. exact builder_denotes. Qed.
Print Assumptions C18_builder_denotes_except_known.

(** so does the inert path *)
Theorem C18_inert_denotes_except_known :
  forall n, wf [n] -> ~ KnownClass [n] -> is_inert_element n = true ->
  parse (inert_html n) = denote [n].
Proof. exact inert_denotes. Qed.
Print Assumptions C18_inert_denotes_except_known.

(** and so does the macro as it is, whichever subtrees it compiles to inert HTML *)
Theorem C18_view_denotes_except_known :
  forall io t, wf t -> ~ KnownClass t -> parse (view_html io t) = denote t.
Proof. exact view_denotes. Qed.
Print Assumptions C18_view_denotes_except_known.

Theorem C18_view_eq_builder_except_known :
  forall t, wf t -> ~ KnownClass t -> parse (view_html true t) = parse (builder_html t).
Proof. exact view_eq_builder. Qed.
Print Assumptions C18_view_eq_builder_except_known.

(** adding a (dynamic) attribute to an element never changes how its children render, and its
    attribute set is the old one plus the new pairs *)
Theorem C18_static_parts_stable_attr_except_known :
  forall io io' tag attrs a ch,
  wf [NElem tag attrs ch] -> wf_attr a = true -> ~ KnownClass [NElem tag attrs ch] ->
  exists kids,
    parse (view_html io [NElem tag attrs ch])
    = [TElem tag (norm_attrs (flat_map attr_pairs attrs)) kids]
    /\ parse (view_html io' [NElem tag (attrs ++ [a]) ch])
       = [TElem tag (norm_attrs (flat_map attr_pairs attrs ++ attr_pairs a)) kids].
Proof. exact static_parts_stable_attr. Qed.
Print Assumptions C18_static_parts_stable_attr_except_known.

(** an element renders as one and the same subtree — what it renders to on its own — in every
    context (static or dynamic siblings and ancestors, inert path on or off) *)
Theorem C18_static_parts_stable_except_known :
  forall c io io' tag attrs ch,
  wf [plug c (NElem tag attrs ch)] -> ~ KnownClass [plug c (NElem tag attrs ch)] ->
  exists x,
    parse (view_html io' [NElem tag attrs ch]) = [x]
    /\ occurs x (parse (view_html io [plug c (NElem tag attrs ch)])).
Proof. exact static_parts_stable. Qed.
Print Assumptions C18_static_parts_stable_except_known.

(** an element renders the same bytes whatever escape flag / position its parent hands down:
    below a raw-text ancestor (<noscript>) its text is escaped by its own kind, on both paths *)
Theorem C18_element_ignores_parent_escape :
  forall io top pt f e1 e2 pos1 pos2 tag attrs ch,
  r_node io top e1 pt pos1 (NElem tag attrs ch) = r_node io top e2 pt pos2 (NElem tag attrs ch)
  /\ inert_node f e1 (NElem tag attrs ch) = inert_node f e2 (NElem tag attrs ch).
Proof. exact element_ignores_parent_escape. Qed.
Print Assumptions C18_element_ignores_parent_escape.

(** the macro's and the renderer's own tables of void and raw-text elements agree *)
Theorem C18_void_tables_agree :
  forall tag, beq tag k_param = false -> mem tag macro_void = b_void tag.
Proof. exact void_tables_agree. Qed.
Print Assumptions C18_void_tables_agree.

(** text is escaped on the inert path iff the renderer escapes it (child by child, or the
    content as a whole for textarea) *)
Theorem C18_raw_tables_agree :
  forall tag, negb (mem tag macro_raw) = b_escape tag || b_whole tag.
Proof. exact raw_tables_agree. Qed.
Print Assumptions C18_raw_tables_agree.
