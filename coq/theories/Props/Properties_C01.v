(** C01 — derived values always equal a from-scratch recomputation.
    Statements only; proofs live in Reactive/Graph*Proofs.v and Reactive/Effects*Proofs.v.

    The model ([Reactive/Graph.v], [Effects.v]) transcribes MemoInner, the signal notification
    path, Track::track, untrack, derived signals and effects.  [run_fixed p ops] is the state
    after the history [ops] (set / notify / read / poll the k-th ready task / run to idle /
    pause / resume / dispose — every schedule is some [ops]). *)
From Coq Require Import List ZArith.
From LV Require Import Reactive.Graph Reactive.Effects Reactive.GraphInvariant Reactive.GraphPullBase
                       Reactive.GraphPullDefs Reactive.GraphProofs Reactive.EffectsProofs
                       Reactive.EffectsRunProofs.
Import ListNotations.
Close Scope Z_scope.
Open Scope nat_scope.

(** the global invariant (DESIGN 7.C01 clauses (a)-(f), generalised to effects, ghost causes and
    the waker / run-queue discipline) holds in every reachable state: for all well-formed
    programs, all histories, all schedules.  ([pure_effects]: effect bodies do not write
    signals — the part of the quantifier still open, see F-C02-d and the final report.) *)
Theorem C01_invariant_in_every_reachable_state :
  forall p, wf_prog p -> pure_effects p ->
  forall ops, wf_ops p ops -> Inv0 p (run_fixed p ops).
Proof. exact reachable_inv. Qed.
Print Assumptions C01_invariant_in_every_reachable_state.

(** [read_consistent], consistency form: after any history, a read of node n leaves every signal
    untouched, leaves n Clean with the returned value cached, and the WHOLE cone of tracked
    inputs of n is current: every tracked entry of every last-run log in the cone shows the
    source's present value (no mixture of old and new inputs); a signal read returns its value.
    Partial: "the value is the body replayed over that log" is not yet stated (the body was
    evaluated reading exactly the logged values; the replay function is the missing piece). *)
Theorem C01_read_consistent_partial :
  forall p, wf_prog p -> pure_effects p ->
  forall ops n s' v,
  wf_ops p ops -> n < length p -> effb p n = false ->
  read_top p n (run_fixed p ops) = (s', v) ->
  Inv0 p s' /\
  (forall i, sval (getn s' i) = sval (getn (run_fixed p ops) i)) /\
  (memob p n = true -> st (getn s' n) = Clean /\ cache (getn s' n) = Some v /\ ConsistentM p s' n) /\
  (sigb p n = true -> v = sval (getn s' n)).
Proof. exact read_consistent_cone. Qed.
Print Assumptions C01_read_consistent_partial.

(** reading again, with nothing written in between, returns the same value *)
Theorem C01_read_idempotent :
  forall p, wf_prog p -> pure_effects p ->
  forall ops n s1 v1 s2 v2,
  wf_ops p ops -> n < length p -> memob p n = true ->
  read_top p n (run_fixed p ops) = (s1, v1) -> read_top p n s1 = (s2, v2) -> v2 = v1.
Proof. exact read_idempotent. Qed.
Print Assumptions C01_read_idempotent.

(** state-based forms: any state satisfying the invariant (reachable or not) *)
Theorem C01_write_preserves_invariant :
  forall p j v s, Inv0 p s -> sigb p j = true ->
  Inv0 p (notify_sig p j (updn j (fun n => set_sval n v) s)).
Proof. exact Inv_notify. Qed.
Print Assumptions C01_write_preserves_invariant.

Theorem C01_read_preserves_invariant_and_cleans :
  forall p, wf_prog p -> forall n s s' v,
  Inv0 p s -> n < length p -> effb p n = false ->
  read_top p n s = (s', v) ->
  Inv0 p s' /\ PullRel p (S n) [] None s s' /\
  (memob p n = true -> st (getn s' n) = Clean /\ cache (getn s' n) = Some v) /\
  (sigb p n = true -> v = sval (getn s' n)).
Proof. exact Inv_read. Qed.
Print Assumptions C01_read_preserves_invariant_and_cleans.

Theorem C01_clean_memo_has_consistent_cone :
  forall p s, Inv0 p s -> forall j, memob p j = true -> st (getn s j) = Clean -> ConsistentM p s j.
Proof. exact clean_consistent. Qed.
Print Assumptions C01_clean_memo_has_consistent_cone.
