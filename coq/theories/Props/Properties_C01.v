(** C01 — derived values always equal a from-scratch recomputation.
    Statements only; proofs live in Reactive/Graph*Proofs.v. *)
From Coq Require Import List ZArith.
From LV Require Import Reactive.Graph Reactive.GraphInvariant Reactive.GraphPullBase
                       Reactive.GraphPullDefs Reactive.GraphProofs.
Import ListNotations.

(** CHECKPOINT FORM (state-based): the global invariant [Inv0] (DESIGN 7.C01 (a)-(f)) is
    preserved by every write / notify and by every read from outside the graph, and after a
    read the node is Clean with its whole tracked cone current (no mixture of old and new
    inputs).  Still to be connected: reachability of [Inv0] from [init] through polls of
    effects, and "value = replay of the body over the log" (see the final report). *)

Theorem C01_write_preserves_invariant_partial :
  forall p j v s, Inv0 p s -> sigb p j = true ->
  Inv0 p (notify_sig p j (updn j (fun n => set_sval n v) s)).
Proof. exact Inv_notify. Qed.
Print Assumptions C01_write_preserves_invariant_partial.

Theorem C01_read_clean_partial :
  forall p, wf_prog p -> forall n s s' v,
  Inv0 p s -> n < length p -> effb p n = false ->
  read_top p n s = (s', v) ->
  Inv0 p s' /\ PullRel p (S n) [] None s s' /\
  (memob p n = true -> st (getn s' n) = Clean /\ cache (getn s' n) = Some v) /\
  (sigb p n = true -> v = sval (getn s' n)).
Proof. exact Inv_read. Qed.
Print Assumptions C01_read_clean_partial.

Theorem C01_clean_memo_consistent_partial :
  forall p s, Inv0 p s -> forall j, memob p j = true -> st (getn s j) = Clean -> ConsistentM p s j.
Proof. exact clean_consistent. Qed.
Print Assumptions C01_clean_memo_consistent_partial.
