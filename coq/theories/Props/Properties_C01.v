(** C01 — derived values always equal a from-scratch recomputation.
    Statements only; proofs live in Reactive/Graph*Proofs.v and Reactive/Effects*Proofs.v.

    The model ([Reactive/Graph.v], [Effects.v]) transcribes MemoInner, the signal notification
    path, Track::track, untrack, derived signals and effects.  [run_fixed p par selw ops] is the state
    after the history [ops] ([par]: the tree of owners the effects were created under; [selw]: which
    effects are internal effects of selectors — both concern C02 only) (set / notify / read / poll the k-th ready task / run to idle /
    pause / resume / dispose of an effect / dispose of a signal or memo — every schedule is
    some [ops]).

    Scope of the model: graphs whose nodes are declared up front (signals on both notification
    paths, memos with or without equality cut-off, derived signals, effects); conditional and
    untracked reads, reads from inside other computations, equal-value writes and bare notifies
    are all in.  Memos created at run time inside another computation are NOT modelled (nor
    generated); DESIGN 7.C01 defers them to the owner model.  [no_self_feed] (no effect writes a
    signal of its own static cone: the complement of the open finding F-C02-d) is vacuous for
    the graphs of signals and memos C01 quantifies over; it only restricts which effects may
    run between the reads. *)
From Coq Require Import List ZArith.
From LV Require Import Reactive.Graph Reactive.Effects Reactive.GraphInvariant Reactive.GraphPullBase
                       Reactive.GraphPullDefs Reactive.GraphProofs Reactive.EffectsProofs
                       Reactive.EffectsRunProofs Reactive.GraphReplay Reactive.GraphSpecProofs.
Import ListNotations.
Close Scope Z_scope.
Open Scope nat_scope.

(** the global invariant (DESIGN 7.C01 clauses (a)-(f), generalised to effects, ghost causes and
    the waker / run-queue discipline) holds in every reachable state: for all well-formed
    programs, all histories, all schedules; effects may write signals, except into their own
    static cone (F-C02-d). *)
Theorem C01_invariant_in_every_reachable_state :
  forall p par selw, wf_prog p -> no_self_feed p ->
  forall ops, wf_ops p ops -> Inv0 p (run_fixed p par selw ops).
Proof. exact reachable_inv. Qed.
Print Assumptions C01_invariant_in_every_reachable_state.

(** [read_consistent]: for every well-formed graph, every history and every memo n, a read of n
    returns the value obtained by replaying n's body over the log of its last run
    ([replay_body]: the body is re-evaluated from scratch, every read answered by the next log
    entry, derived signals expanded in place; it fails unless the body consumes exactly the
    log), and that log is Consistent: every TRACKED entry shows the source's current value,
    recursively so for tracked memos; untracked entries contribute the value seen at the last
    run.  One replay over one log explains the value, hence no mixture of old and new inputs.
    ("Current value" of a source memo built with a comparator coarser than equality
    (new_with_compare, [CPar]): a value that comparator does not tell from the memo's present
    value — the memo itself always holds what its function gives, its subscribers are by
    design not told about a change its comparator ignores; [eqv].  A source that has been
    disposed since the last run ([dead]; history operation [ODropSrc]) owes nothing: disposal is
    not a change, the value logged for it stands, and a later run reads 0 for it (the harness's
    reading of try_get() = None).  The node read must itself not have been disposed.) *)
Theorem C01_read_consistent :
  forall p par selw, wf_prog p -> no_self_feed p ->
  forall ops n cm e s' v,
  wf_ops p ops -> decl_of p n = DMemo cm e -> dead p (run_fixed p par selw ops) n = false ->
  read_top p n (run_fixed p par selw ops) = (s', v) ->
  cache (getn s' n) = Some v /\
  replay_body p n e (rlog (getn s' n)) = Some v /\
  ConsistentM p s' n.
Proof. exact read_consistent. Qed.
Print Assumptions C01_read_consistent.

(** [read_eq_spec]: when no memo / derived body reads through untrack or get_untracked, every
    memo compares with equality or always-changed ([exact_prog]) and no source has been
    disposed, the value read is the
    denotational value of the node over the current signal values ([spec]: bodies evaluated
    recursively from the signals alone, no caches, no states), and the read changed no signal *)
Theorem C01_read_eq_spec :
  forall p par selw, wf_prog p -> no_self_feed p ->
  forall ops n s' v,
  uf_prog p -> exact_prog p -> wf_ops p ops -> n < length p -> memob p n = true ->
  dead p (run_fixed p par selw ops) n = false -> (forall i, dead p s' i = false) ->
  read_top p n (run_fixed p par selw ops) = (s', v) ->
  spec p s' n = Some v /\ (forall i, sval (getn s' i) = sval (getn (run_fixed p par selw ops) i)).
Proof. exact read_eq_spec. Qed.
Print Assumptions C01_read_eq_spec.

(** the same read, seen from the graph: signals untouched, n Clean with the value cached, the
    whole cone of tracked inputs current, a signal read returns its value *)
Theorem C01_read_leaves_cone_current :
  forall p par selw, wf_prog p -> no_self_feed p ->
  forall ops n s' v,
  wf_ops p ops -> n < length p -> effb p n = false -> dead p (run_fixed p par selw ops) n = false ->
  read_top p n (run_fixed p par selw ops) = (s', v) ->
  Inv0 p s' /\
  (forall i, sval (getn s' i) = sval (getn (run_fixed p par selw ops) i)) /\
  (memob p n = true -> st (getn s' n) = Clean /\ cache (getn s' n) = Some v /\ ConsistentM p s' n) /\
  (sigb p n = true -> v = sval (getn s' n)).
Proof. exact read_consistent_cone. Qed.
Print Assumptions C01_read_leaves_cone_current.

(** any Clean memo of any state satisfying the invariant holds its denotational value *)
Theorem C01_clean_memo_eq_spec :
  forall p s, Inv0 p s -> uf_prog p -> exact_prog p -> (forall i, dead p s i = false) ->
  forall j, memob p j = true -> st (getn s j) = Clean ->
  exists v, cache (getn s j) = Some v /\ spec p s j = Some v.
Proof. exact clean_memo_eq_spec. Qed.
Print Assumptions C01_clean_memo_eq_spec.

(** reading again, with nothing written in between, returns the same value *)
Theorem C01_read_idempotent :
  forall p par selw, wf_prog p -> no_self_feed p ->
  forall ops n s1 v1 s2 v2,
  wf_ops p ops -> n < length p -> memob p n = true -> dead p (run_fixed p par selw ops) n = false ->
  read_top p n (run_fixed p par selw ops) = (s1, v1) -> read_top p n s1 = (s2, v2) -> v2 = v1.
Proof. exact read_idempotent. Qed.
Print Assumptions C01_read_idempotent.

(** state-based forms: any state satisfying the invariant (reachable or not) *)
Theorem C01_write_preserves_invariant :
  forall p j v s, Inv0 p s -> sigb p j = true -> dead p s j = false ->
  Inv0 p (notify_sig p j (updn j (fun n => set_sval n v) s)).
Proof. exact Inv_notify. Qed.
Print Assumptions C01_write_preserves_invariant.

Theorem C01_read_preserves_invariant_and_cleans :
  forall p, wf_prog p -> forall n s s' v,
  Inv0 p s -> n < length p -> effb p n = false -> dead p s n = false ->
  read_top p n s = (s', v) ->
  Inv0 p s' /\ PullRel p (S n) [] None s s' /\
  (memob p n = true -> st (getn s' n) = Clean /\ cache (getn s' n) = Some v) /\
  (sigb p n = true -> v = sval (getn s' n)).
Proof. exact Inv_read. Qed.
Print Assumptions C01_read_preserves_invariant_and_cleans.

Theorem C01_clean_memo_has_consistent_cone :
  forall p s, Inv0 p s -> forall j, memob p j = true -> st (getn s j) = Clean -> ConsistentM p s j.
Proof. exact clean_consistent. Qed.
Print Assumptions C01_clean_memo_has_consistent_cone.
