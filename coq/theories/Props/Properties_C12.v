(** C12 — data handed from server to client arrives intact and inert.
    Statements only; proofs live in Html/ScriptProofs.v. [esc] is the (arbitrary) table of
    characters Rust's Debug formatting writes as \u{..}. *)
From Coq Require Import List NArith ZArith.
From LV Require Import Base.Sexp Base.Bytes Html.Script Html.ScriptProofs.
Import ListNotations.
Open Scope N_scope.

(** every string of Unicode scalar values, written by ssr.rs as a JavaScript string literal and
    followed by any other script text, is read back by the ECMAScript literal grammar as exactly
    that string, leaving exactly that text *)
Theorem C12_payload_roundtrip :
  forall esc s rest, Forall scalar s -> js_read (js_string esc s ++ rest) = Some (s, rest).
Proof. exact payload_roundtrip. Qed.
Print Assumptions C12_payload_roundtrip.

(** binary encodings (Encoded = Vec<u8>): any byte buffer, turned into a string by
    IntoEncodedString (base64, STANDARD_NO_PAD), is turned back into exactly that buffer by
    FromEncodedStr ... *)
Theorem C12_binary_payload_roundtrip :
  forall l, all_bytes l = true -> bytes_from_encoded_str (bytes_to_encoded_string l) = Some l.
Proof. exact binary_payload_roundtrip. Qed.
Print Assumptions C12_binary_payload_roundtrip.

(** ... also after travelling as a JavaScript string literal in the hydration script *)
Theorem C12_binary_payload_delivered :
  forall esc l rest, all_bytes l = true ->
  exists s, js_read (js_string esc (bytes_to_encoded_string l) ++ rest) = Some (s, rest)
            /\ bytes_from_encoded_str s = Some l.
Proof. exact binary_payload_delivered. Qed.
Print Assumptions C12_binary_payload_delivered.

(** for all payloads, error messages, ids, modes, commands (incl. real resource creation) and
    completion orders: no chunk the pending_data() stream emits contains '<' ... *)
Theorem C12_chunks_have_no_lt :
  forall esc isl script c,
  In (entry_chunk c) (log (session esc isl script)) -> Forall (fun x => x <> 60) c.
Proof. exact chunks_have_no_lt. Qed.
Print Assumptions C12_chunks_have_no_lt.

(** ... hence none contains "</script" (in any letter case) or "<!--" *)
Theorem C12_script_inert :
  forall esc isl script c,
  In (entry_chunk c) (log (session esc isl script)) -> inert c = true.
Proof. exact script_inert. Qed.
Print Assumptions C12_script_inert.

(** ... and when build_response (integrations/utils) sends a chunk as [<script>chunk</script>],
    the script element ends exactly at that end tag: the browser takes the chunk, the whole
    chunk and nothing else, as the script's text *)
Theorem C12_script_element_text :
  forall esc isl script c,
  In (entry_chunk c) (log (session esc isl script)) ->
  script_text (c ++ k_script_close) = Some c /\ has_comment_open c = false.
Proof. exact script_element_text. Qed.
Print Assumptions C12_script_element_text.

(** consume_buffers (the exit used by custom hydration contexts): for every order in which the
    futures complete, each registered id comes out paired with the data registered under it *)
Theorem C12_consume_pairs :
  forall fuel order s l rest,
  log (consume_loop fuel order s) = Lst [Num 14%Z; Lst l] :: rest ->
  l = map pair_entry (abuf s).
Proof. exact consume_pairs. Qed.
Print Assumptions C12_consume_pairs.

(** the ids the server hands to code the browser re-runs are, in order, exactly the ids the
    browser's counter hands out — for any nesting of hydrated / non-hydrated regions and any
    interleaving with everything else a session does (non-islands applications never switch
    hydration off: [script_ok]) *)
Theorem C12_ids_align :
  forall esc isl script, script_ok isl script ->
  let s := session esc isl script in
  map snd (filter fst (handed s)) = client_ids s.
Proof. exact ids_align. Qed.
Print Assumptions C12_ids_align.

(** those ids are 0, 1, 2, ... (so the n-th resource created in the browser asks for id n-1,
    which is what the n-th hydrated resource on the server was written under) *)
Theorem C12_ids_count_up :
  forall esc isl script, script_ok isl script -> N.of_nat (length script) <= two63 ->
  let s := session esc isl script in
  client_ids s = map N.of_nat (seq 0 (length (client_ids s))).
Proof. exact ids_count_up. Qed.
Print Assumptions C12_ids_count_up.

(** and they never collide with an id handed out in a non-hydrated region *)
Theorem C12_ids_disjoint :
  forall esc isl script i j, script_ok isl script -> N.of_nat (length script) <= two63 ->
  let s := session esc isl script in
  In (true, i) (handed s) -> In (false, j) (handed s) -> i < j.
Proof. exact ids_disjoint. Qed.
Print Assumptions C12_ids_disjoint.

(** the code before the repairs (commits 1045e8b, 6cb2d26, 0d234dc of /repo) violated the first
    two statements: F-C12-a, F-C12-c, F-C12-b *)
Theorem C12_payload_roundtrip_prefix_refuted_lt :
  exists s, Forall scalar s /\
    js_read (js_string_prefix_data (fun _ => false) s) <> Some (s, []).
Proof. exact payload_roundtrip_prefix_refuted_lt. Qed.
Print Assumptions C12_payload_roundtrip_prefix_refuted_lt.

Theorem C12_payload_roundtrip_prefix_refuted_nul :
  exists s, Forall scalar s /\
    js_read (js_string_prefix_data (fun _ => false) s) = Some ([1], []) /\ s <> [1].
Proof. exact payload_roundtrip_prefix_refuted_nul. Qed.
Print Assumptions C12_payload_roundtrip_prefix_refuted_nul.

Theorem C12_script_inert_prefix_refuted :
  exists m, Forall scalar m /\ inert (js_string_prefix_error (fun _ => false) m) = false.
Proof. exact script_inert_prefix_refuted. Qed.
Print Assumptions C12_script_inert_prefix_refuted.
