(** C05 — hydration adopts server-rendered HTML without mismatch.
    Statements only; proofs live in Dom/HydrateProofs.v. *)
From Coq Require Import List NArith.
From LV Require Import Base.Bytes Dom.HydrateModel Dom.HydrateProofs.
Import ListNotations.

(** the structural heart: a browser parsing the server's markup for [v] builds exactly the DOM
    the marker protocol intends (separators between adjacent texts, placeholder space for the
    empty string, trailing markers of lists / unit / None, elements with their children) *)
Theorem C05_print_parse_roundtrip :
  forall v, wf false v = true -> parse (render v) = Some (fst (dom_of v FirstChild)).
Proof. exact print_parse_roundtrip. Qed.
Print Assumptions C05_print_parse_roundtrip.

(** hydrating a view against the parse of its own server rendering finds every expected element,
    text node and marker where the walk looks for it ([hydrate] is [None] exactly where the code
    calls failed_to_cast_* / unwraps a failed cast) *)
Theorem C05_hydrate_total :
  forall v, wf false v = true -> exists root st h, hydrate_parsed v = Some (root, st, h).
Proof. exact hydrate_parsed_total. Qed.
Print Assumptions C05_hydrate_total.

(** the only DOM writes of hydration are the resets of placeholder text ([resets st]: one
    [OSetText n ""] per bound empty string); the node set (kinds, names, attributes, order, shape)
    after hydration is the one the parser built *)
Theorem C05_hydrate_creates_nothing :
  forall v root st h, wf false v = true -> hydrate_parsed v = Some (root, st, h) ->
  h_ops h = rev (resets st) /\ skeleton (apply_ops root (h_ops h)) = skeleton root.
Proof. exact hydrate_creates_nothing. Qed.
Print Assumptions C05_hydrate_creates_nothing.

(** PARTIAL ("state bound to the existing nodes, in order"). Proved: the state hydration returns is
    [st_of v FirstChild [] 0] — each part of the view is bound to the node at the child position
    where the printer put it in the expected DOM (separators skipped), an element before its
    children, list items before their marker — and the list of bound nodes is strictly increasing in
    document order (hence pairwise distinct) and lies below the root among the nodes the parser built
    for this view. Not proved as a separate statement: coverage (that the only unbound nodes are the
    separator comments between adjacent texts and the inside of inert subtrees); the implementation's
    bound nodes are compared with [st_of] on every generated case through the nodes a full rebuild
    writes to. *)
Theorem C05_hydrate_binds_in_order_partial :
  forall v root st h, wf false v = true -> hydrate_parsed v = Some (root, st, h) ->
  st = st_of v FirstChild [] 0 /\
  Sorted.StronglySorted doc_lt (bound st) /\
  Forall (under [] 0 (length (fst (dom_of v FirstChild)))) (bound st).
Proof. exact hydrate_binds_in_order. Qed.
Print Assumptions C05_hydrate_binds_in_order_partial.

(** PARTIAL (structural form of "behaves like a client-built tree"), in the _except_known form for the
    open finding F-C05-c: [wf] excludes raw-text elements (textarea / style / script), whose children
    tachys does not hydrate — [hydrated_as_built_refuted_for_raw] in Dom/HydrateProofs.v is the
    witness that the statement fails for them. Proved, for every view of the proved grammar and every
    position: [dom_hyd] — the parsed DOM in which every bound text node holds its view string, i.e.
    the same nodes as parsed ([C05_hydrated_same_nodes]) with the placeholder resets of
    [C05_hydrate_creates_nothing] applied — equals the client-built DOM once marker comments are
    dropped. Not proved: that replaying the logged writes on the parsed tree yields [dom_hyd]
    (computed by the model through [apply_ops] and compared with the implementation's
    hydrated-vs-client-built verdict on every generated case), the rebuild semantics after hydration
    (compared only), and the streamed forms with Suspends pending at render time (driven and checked
    by the oracle only; open finding F-C05-d = C07's F-C07-a). *)
Theorem C05_hydrated_behaves_as_built_partial_except_known :
  forall v in_p pos, wf in_p v = true ->
    strip_forest (fst (dom_hyd v pos)) = strip_forest (dom_csr v).
Proof. exact hydrated_as_built. Qed.
Print Assumptions C05_hydrated_behaves_as_built_partial_except_known.

Theorem C05_hydrated_behaves_as_built_refuted_for_raw_text_elements :
  exists v, strip_forest (fst (dom_hyd v FirstChild)) <> strip_forest (dom_csr v).
Proof. exact hydrated_as_built_refuted_for_raw. Qed.
Print Assumptions C05_hydrated_behaves_as_built_refuted_for_raw_text_elements.

Theorem C05_hydrated_same_nodes :
  forall v pos,
    skeleton_forest (fst (dom_hyd v pos)) = skeleton_forest (fst (dom_of v pos)) /\
    snd (dom_hyd v pos) = snd (dom_of v pos).
Proof. exact dom_hyd_same_nodes. Qed.
Print Assumptions C05_hydrated_same_nodes.
