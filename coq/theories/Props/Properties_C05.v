(** C05 — hydration adopts server-rendered HTML without mismatch.
    Statements only; proofs live in Dom/HydrateProofs.v. *)
From Coq Require Import List NArith.
From LV Require Import Base.Bytes Dom.HydrateModel Dom.HydrateProofs.
Import ListNotations.

(** the structural heart: a browser parsing the server's markup for [v] builds exactly the DOM
    the marker protocol intends (separators between adjacent texts, placeholder space for the
    empty string, trailing markers of lists / unit / None, elements with their children) *)
Theorem C05_print_parse_roundtrip :
  forall v, wf false v = true -> parse (render v) = Some (fst (dom_of v FirstChild)).
Proof. exact print_parse_roundtrip. Qed.
Print Assumptions C05_print_parse_roundtrip.

(** hydrating a view against the parse of its own server rendering finds every expected element,
    text node and marker where the walk looks for it ([hydrate] is [None] exactly where the code
    calls failed_to_cast_* / unwraps a failed cast) *)
Theorem C05_hydrate_total :
  forall v, wf false v = true -> exists root st h, hydrate_parsed v = Some (root, st, h).
Proof. exact hydrate_parsed_total. Qed.
Print Assumptions C05_hydrate_total.

(** the only DOM writes of hydration are the resets of placeholder text ([resets st]: one
    [OSetText n ""] per bound empty string); the node set (kinds, names, attributes, order, shape)
    after hydration is the one the parser built *)
Theorem C05_hydrate_creates_nothing :
  forall v root st h, wf false v = true -> hydrate_parsed v = Some (root, st, h) ->
  h_ops h = rev (resets st) /\ skeleton (apply_ops root (h_ops h)) = skeleton root.
Proof. exact hydrate_creates_nothing. Qed.
Print Assumptions C05_hydrate_creates_nothing.
