(** C03 — updating a view in place gives the same DOM as rendering it fresh.
    Statements only; proofs live in Dom/ViewProofs.v, Dom/ViewTop.v (model: Dom/View.v).
    [cv v] is what a fresh render of [v] shows (node identity forgotten), [cs s] what the
    state [s] shows; [mounted pre post s w]: the parent's children are
    [pre ++ nodes of s ++ post] without repetition.  KnownClass_C03 is the complement of
    [okv v /\ compat v s]: [okv] = no view that may own no node (StaticVec / Fragment, empty
    array or tuple: F-C03-ab; distinct keys in a keyed list); [compat v s] = no element
    rebuilt in place whose [class:on] toggle was on and whose class string / toggle do not put
    the token back (F-C03-c), and a retained row of a keyed list already shows what its item
    view shows (tachys does not call view_fn again for a retained key).
    Covered: text (String, &str, i32), unit, elements (the tag is an arbitrary number in the
    model and in every theorem: p / span / div and the raw-text elements textarea / style /
    script / noscript of the harness are instances) with id / hidden / class / class:on /
    style attributes, tuples, arrays, Either, EitherOf3, Option, Vec, keyed lists (through
    C11's theorem, the item views being arbitrary views of this grammar), AnyView type changes.
    All theorems are for arbitrary sibling contexts, nesting depth and histories. *)
From Coq Require Import List NArith.
From LV Require Import Base.Sexp Dom.Dom Dom.View Dom.ViewProofs Dom.ViewTop Dom.ViewRun Dom.ViewSer.
Import ListNotations.

(** a fresh render (build + mount between the siblings) shows [cv v] *)
Theorem C03_render_fresh_ok :
  forall (pre post : list N) (v : view) (n : N),
    okv v -> NoDup (pre ++ post) -> (forall x, In x (pre ++ post) -> (x < n)%N) ->
    let '(s, w) := render_fresh pre post v n in mounted pre post s w /\ cs s = cv v.
Proof. exact render_fresh_ok. Qed.
Print Assumptions C03_render_fresh_ok.

(** rebuilding any mounted state (whatever history produced it) with a value [v] — of the
    same or of a different shape, i.e. including AnyView type changes, Either/Option
    switches, Vec growth and shrinkage, attribute changes — leaves the siblings untouched
    and shows exactly what a fresh render of [v] shows; no panic.  This is
    [rebuild_eq_fresh] outside the known classes. *)
Theorem C03_rebuild_eq_fresh_except_known :
  forall (pre post : list N) (s : st) (w : rw) (v : view),
    mounted pre post s w -> okv v -> compat v s ->
    let '(s', w') := rebuild_any v s w in mounted pre post s' w' /\ cs s' = cv v.
Proof. exact rebuild_eq_fresh. Qed.
Print Assumptions C03_rebuild_eq_fresh_except_known.

(** any sequence of rebuilds ends showing the last value *)
Theorem C03_rebuild_seq_eq_fresh :
  forall (vs : list view) (pre post : list N) (s : st) (w : rw) (v0 : view),
    mounted pre post s w -> cs s = cv v0 -> all_ok vs s w ->
    let '(s', w') := rebuild_seq vs s w in mounted pre post s' w' /\ cs s' = cv (last vs v0).
Proof. exact rebuild_seq_eq_fresh. Qed.
Print Assumptions C03_rebuild_seq_eq_fresh.

(** unmounting removes exactly the nodes the view added *)
Theorem C03_unmount_removes_exactly :
  forall (pre post : list N) (s : st) (w : rw),
    mounted pre post s w -> unmount_st s (r_dom w) = pre ++ post.
Proof. exact unmount_removes_exactly. Qed.
Print Assumptions C03_unmount_removes_exactly.

(** a rebuild with a value of the same shape keeps the node(s) at the root of the state *)
Theorem C03_retained_nodes_kept :
  forall (v : view) (s : st) (w : rw) (s' : st) (w' : rw),
    rebuild_any v s w = (s', w') -> tcode_eqb (tc_view v) (tc_st s) = true ->
    match s with
    | SText id _ _ | SUnit id | SEl id _ _ _ _ _ => ids s' = [id]
    | SVec _ mk => exists l, ids s' = l ++ [mk]
    | _ => True
    end.
Proof. exact retained_nodes_kept. Qed.
Print Assumptions C03_retained_nodes_kept.

(** the link to what is compared with the implementation: the nodes of a state as serialised
    by run_C03 (ViewRun.v), with the node-identity flags removed (what the oracle compares),
    are the serialisation of the content [cs] the theorems above speak about *)
Theorem C03_serialisation_is_cs :
  forall (old : list N) (s : st) (n : N), good n s -> NoDup (ids s) ->
    map strip (map (fun k => lookup_sexp k (node_sexps old s)) (ids s)) = map ser_t (cs s).
Proof. exact serialisation_is_cs. Qed.
Print Assumptions C03_serialisation_is_cs.

(** the general statement is refuted on the code as it is — F-C03-a: replacing an empty
    StaticVec loses the new content (the parent stays empty) *)
Theorem C03_rebuild_eq_fresh_refuted_static_empty :
  let '(s, w) := render_fresh [] [] (VEither 2 0 (VStatic [])) 0 in
  let '(s', w') := rebuild_any (VEither 2 1 (VText 0 [104; 105]%N)) s w in
  r_dom w' = [] /\ ids s' = [0%N].
Proof. exact refuted_static_empty. Qed.
Print Assumptions C03_rebuild_eq_fresh_refuted_static_empty.

(** F-C03-b: a rebuilt StaticVec lands after its following sibling *)
Theorem C03_rebuild_eq_fresh_refuted_static_after_sibling :
  let '(s, w) := render_fresh [0%N] [1%N] (VStatic [VText 0 [97%N]]) 2 in
  let '(s', w') := rebuild_any (VStatic [VText 0 [98%N]]) s w in
  r_dom w = [0; 2; 1]%N /\ r_dom w' = [0; 1; 3]%N /\ ids s' = [3%N].
Proof. exact refuted_static_after_sibling. Qed.
Print Assumptions C03_rebuild_eq_fresh_refuted_static_after_sibling.

(** F-C03-c: rebuilding an element with the very same attributes drops the class of an
    unchanged [class:on] toggle *)
Theorem C03_rebuild_eq_fresh_refuted_class_toggle :
  let a := {| va_id := None; va_hidden := false; va_class := [97%N]; va_on := true; va_color := [114%N] |} in
  let '(s, w) := render_fresh [] [] (VEl 0 a VUnit) 0 in
  let '(s', w') := rebuild_any (VEl 0 a VUnit) s w in
  cs s = cv (VEl 0 a VUnit) /\ cs s' <> cv (VEl 0 a VUnit).
Proof. exact refuted_class_toggle. Qed.
Print Assumptions C03_rebuild_eq_fresh_refuted_class_toggle.
