(** C03 — placeholder while the proofs are being written. *)
From Coq Require Import List.
