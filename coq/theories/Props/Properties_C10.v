(** C10 — async derived values and resources settle on the latest inputs.
    Statements only; proofs live in Reactive/AsyncProofs.v.
    [run c initial evs]: the node built with configuration [c] (source shape, dependent, fetcher)
    and optional initial value, after the history [evs] of source writes, refetches, manual
    writes / notifies, completions of any created fetch future in any order, polls of the node's
    task and of the dependent's task in any order, and awaiters created and polled at any point.
    [gc c]: the repaired code (the three fix: commits). Polls are atomic (threads: C19). *)
From Coq Require Import List ZArith Bool.
From LV Require Import Reactive.Async Reactive.AsyncProofs.
From LV Require Reactive.Transition Reactive.TransitionProofs.
Import ListNotations.

(** at most one fetch is in flight and it is the newest: the version test never fails, so an
    older fetch can never overwrite a newer one *)
Theorem C10_fetches_are_serial : forall c initial evs, gc c ->
  forall f v, task (run c initial evs) = TFetch f v -> v = version (run c initial evs).
Proof. exact fetches_are_serial. Qed.
Print Assumptions C10_fetches_are_serial.

(** once every future has completed (or was dropped) and the node's task is not ready, the
    node is not loading and — unless a manual write came after the last fetch result — holds
    the fetcher applied to the current inputs *)
Theorem C10_quiescent_latest : forall c initial evs, gc c ->
  let s := run c initial evs in
  quiescent s ->
  loading s = false /\ (manual s = false -> value s = Some (fetchf c (inputs c s))).
Proof. exact quiescent_latest. Qed.
Print Assumptions C10_quiescent_latest.

(** the code before each of the three fixes violated it *)
Theorem C10_quiescent_latest_prefix_refuted :
  let s := run w1_cfg None w1_evs in
  quiescentb s = true /\ manual s = false /\ value s = Some 0%Z /\
  ex_fetch (inputs w1_cfg s) = 10%Z.
Proof. exact quiescent_latest_prefix_refuted. Qed.
Print Assumptions C10_quiescent_latest_prefix_refuted.

Theorem C10_quiescent_latest_steal_refuted :
  let s := run w2_cfg None w2_evs in
  quiescentb s = true /\ manual s = false /\ value s = Some 0%Z /\
  ex_fetch (inputs w2_cfg s) = 1000%Z.
Proof. exact quiescent_latest_steal_refuted. Qed.
Print Assumptions C10_quiescent_latest_steal_refuted.

Theorem C10_quiescent_latest_stale_initial_refuted :
  let s := run w3_cfg None w3_evs in
  quiescentb s = true /\ manual s = false /\ value s = Some 0%Z /\
  ex_fetch (inputs w3_cfg s) = 1%Z.
Proof. exact quiescent_latest_stale_initial_refuted. Qed.
Print Assumptions C10_quiescent_latest_stale_initial_refuted.

(** no awaiter stays parked once loading is off … *)
Theorem C10_awaiters_resumed : forall c initial evs, gc c ->
  loading (run c initial evs) = false -> wakers (run c initial evs) = [].
Proof. exact awaiters_resumed. Qed.
Print Assumptions C10_awaiters_resumed.

(** … because turning loading off invokes the latest waker of every parked awaiter (an awaiter
    re-polled with a fresh waker is parked again under the new one) *)
Theorem C10_parked_awaiters_woken : forall s a g w,
  In (a, g) (wakers s) -> nth_error (awaiters s) a = Some (APending g w) ->
  exists w', nth_error (awaiters (notify_subs s)) a = Some (APending g w') /\ (w < w')%nat.
Proof. exact parked_awaiters_woken. Qed.
Print Assumptions C10_parked_awaiters_woken.

(** a synchronous read returns none or a value that was provided or produced before *)
Theorem C10_sync_read_is_previous_or_none : forall c initial evs, gc c ->
  forall v, value (run c initial evs) = Some v -> In v (legit (run c initial evs)).
Proof. exact sync_read_is_previous_or_none. Qed.
Print Assumptions C10_sync_read_is_previous_or_none.

(** … precisely: it is the initial value, a manually written value, or the result of a fetch
    future that has completed *)
Theorem C10_value_origin : forall c initial evs, gc c ->
  let s := run c initial evs in
  forall v, value s = Some v ->
  initial = Some v \/ In (ManualSet v) evs \/
  exists f fu, nth_error (futs s) f = Some fu /\ f_done fu = true /\ f_res fu = v.
Proof. exact value_origin. Qed.
Print Assumptions C10_value_origin.

(** every stored value / notify marks the subscribed dependent and raises its channel flag *)
Theorem C10_dependents_notified_each_transition : forall s,
  d_sub s = true ->
  d_dirty (notify_subs s) = true /\ d_set (notify_subs s) = true /\
  (d_reg s = true \/ d_woken s = true -> d_woken (notify_subs s) = true) /\
  loading (notify_subs s) = false.
Proof. exact dependents_notified_each_transition. Qed.
Print Assumptions C10_dependents_notified_each_transition.

(** Suspense: an await under a boundary registers it with the node on every poll — also when the
    value is already resolved … *)
Theorem C10_suspense_registers : forall c s a g w,
  once c = false -> nth_error (awaiters s) a = Some (APending g w) -> nth a (aw_sus s) false = true ->
  susp_reg (poll_awaiter c a s) = S (susp_reg s).
Proof. exact suspense_registers. Qed.
Print Assumptions C10_suspense_registers.

(** … the start of the next load gives every registered boundary a pending task … *)
Theorem C10_suspense_told_of_load : forall fid s a b,
  let s' := set_task (TFetch fid (S (version s)))
              (set_version (S (version s)) (set_loading true (set_first_run false
                 (set_susp_held a (set_susp_reg b s))))) in
  susp_held s' = a /\ susp_reg s' = b.
Proof. exact suspense_told_of_load. Qed.
Print Assumptions C10_suspense_told_of_load.

(** … and none is left pending at a quiescent point *)
Theorem C10_suspense_released : forall c initial evs, gc c ->
  let s := run c initial evs in
  quiescent s -> susp_held s = 0%nat.
Proof. exact suspense_released. Qed.
Print Assumptions C10_suspense_released.

(** transitions (reactive_graph/src/transition.rs; model Reactive/Transition.v): one task awaits
    [AsyncTransition::run(action)]; the action [p] creates async derived values and awaits nested
    runs; [evs] completes the fetch futures and polls the tasks in any order, [settle] is the end of
    a case. [snaps] records, for each run whose awaiting code has resumed, whether each value created
    inside its action (from node [lo] on, nested runs included) held its value at that moment:
    "every task that awaited it has been resumed with a value" *)
Theorem C10_transition_resumes_only_when_all_resolved : forall p evs fuel r lo l,
  nth_error (Transition.snaps (Transition.settle true fuel (Transition.run true p evs))) r = Some (Some (lo, l)) ->
  forallb (fun b => b) l = true.
Proof. exact TransitionProofs.resumed_only_when_all_resolved. Qed.
Print Assumptions C10_transition_resumes_only_when_all_resolved.

(** a variant of [AsyncTransition::run] that clears the global slot when an action finishes, instead
    of putting the previously installed transition back, violates it *)
Theorem C10_transition_clearing_variant_refuted :
  exists p evs r lo l,
    nth_error (Transition.snaps (Transition.run false p evs)) r = Some (Some (lo, l)) /\
    forallb (fun b => b) l = false.
Proof. exact TransitionProofs.clearing_variant_refuted. Qed.
Print Assumptions C10_transition_clearing_variant_refuted.
