(** C14 — the router matches exactly the paths its route table declares.
    Statements only; proofs live in Router/MatchProofs.v. *)
From Coq Require Import List NArith.
From LV Require Import Base.Bytes Router.Match Router.MatchProofs.
Import ListNotations.
Open Scope N_scope.

(** for a match of any segment value (nested tuples, optionals, wildcard), the matched
    prefix and the remainder partition the path *)
Theorem C14_matched_remaining_partition :
  forall s path m r ps, seg_test s path = TSome m r ps -> m ++ r = path.
Proof. exact seg_test_partition. Qed.
Print Assumptions C14_matched_remaining_partition.

(** among sibling definitions the first one (in declaration order) that matches wins: every
    earlier sibling did not match, and the result is that sibling's own result *)
Theorem C14_first_match_wins :
  forall rs id p ch ps rem,
    match_siblings rs id p = NYes ch ps rem ->
    exists pre c post,
      rs = pre ++ c :: post
      /\ (forall pre1 x pre2, pre = pre1 ++ x :: pre2 ->
            match_nested x (id + forest_size pre1) p = NNo)
      /\ match_nested c (id + forest_size pre) p = NYes ch ps rem.
Proof. exact first_match_wins. Qed.
Print Assumptions C14_first_match_wins.
