(** C14 — the router matches exactly the paths its route table declares.
    Statements only; proofs live in Router/MatchProofs.v.  Model: Router/Match.v (what the
    matcher does), reference: Router/Flat.v (what the server's route table says, and the
    decidable known-finding classes F-C14-a..d = k_boundary, k_slash_static, k_optional,
    k_dslash, the same predicates as [classify] in gen/c14.py). *)
From Coq Require Import List NArith.
From LV Require Import Base.Bytes Router.Match Router.Flat Router.Build Router.MatchProofs Router.MatchOptProofs.
Import ListNotations.
Open Scope N_scope.

(** ---- "a path is matched iff it matches one of the generated flat routes" ----
    plain statement: refuted by the faithful model, once per known class *)
Theorem C14_match_iff_flat_refuted :
  exists base rs p, wf_tree rs = true /\ wf_routes rs = true /\ starts_with_slash p = true
                    /\ matches base rs p <> flat_any base rs p.
Proof. exact match_iff_flat_refuted. Qed.
Print Assumptions C14_match_iff_flat_refuted.

(* F-C14-a: /foox matches (StaticSegment "foo", StaticSegment "x") *)
Theorem C14_match_iff_flat_refuted_boundary :
  exists rs p, wf_tree rs = true /\ wf_routes rs = true /\ starts_with_slash p = true
               /\ matches None rs p = true /\ flat_any None rs p = false.
Proof. exact match_iff_flat_refuted_boundary. Qed.
Print Assumptions C14_match_iff_flat_refuted_boundary.

(* F-C14-b: /about matches "/" { "", "about" } whose table entry is //about *)
Theorem C14_match_iff_flat_refuted_slash_static :
  exists rs p, wf_tree rs = true /\ wf_routes rs = true /\ starts_with_slash p = true
               /\ matches None rs p = true /\ flat_any None rs p = false.
Proof. exact match_iff_flat_refuted_slash_static. Qed.
Print Assumptions C14_match_iff_flat_refuted_slash_static.

(* F-C14-c: /a/b is in the table of (:x?, "a", :y?) but is not matched *)
Theorem C14_match_iff_flat_refuted_optional :
  exists rs p, wf_tree rs = true /\ wf_routes rs = true /\ starts_with_slash p = true
               /\ matches None rs p = false /\ flat_any None rs p = true.
Proof. exact match_iff_flat_refuted_optional. Qed.
Print Assumptions C14_match_iff_flat_refuted_optional.

(* F-C14-d: // is "/" plus the tolerated trailing slash, StaticSegment "" does not match it *)
Theorem C14_match_iff_flat_refuted_dslash :
  exists rs p, wf_tree rs = true /\ wf_routes rs = true /\ starts_with_slash p = true
               /\ matches None rs p = false /\ flat_any None rs p = true.
Proof. exact match_iff_flat_refuted_dslash. Qed.
Print Assumptions C14_match_iff_flat_refuted_dslash.

(* F-C14-a also makes the matcher partial: /xéa on (StaticSegment "x", ParamSegment "p") panics *)
Theorem C14_match_route_total_refuted :
  exists rs p, wf_tree rs = true /\ wf_routes rs = true /\ starts_with_slash p = true
               /\ match_route None rs p = MPanic.
Proof. exact match_route_total_refuted. Qed.
Print Assumptions C14_match_route_total_refuted.

(* the three shapes that make up F-C14-c (k_optional) *)
Theorem C14_refuted_optional_not_last :
  exists rs p, wf_tree rs = true /\ wf_routes rs = true /\ starts_with_slash p = true
               /\ k_optional rs = true /\ matches None rs p = false /\ flat_any None rs p = true.
Proof. exact refuted_optional_not_last. Qed.
Print Assumptions C14_refuted_optional_not_last.

Theorem C14_refuted_optional_nested_tuple :
  exists rs p, wf_tree rs = true /\ wf_routes rs = true /\ starts_with_slash p = true
               /\ k_optional rs = true /\ matches None rs p = false /\ flat_any None rs p = true.
Proof. exact refuted_optional_nested_tuple. Qed.
Print Assumptions C14_refuted_optional_nested_tuple.

Theorem C14_refuted_optional_parent :
  exists rs p, wf_tree rs = true /\ wf_routes rs = true /\ starts_with_slash p = true
               /\ k_optional rs = true /\ matches None rs p = false /\ flat_any None rs p = true.
Proof. exact refuted_optional_parent. Qed.
Print Assumptions C14_refuted_optional_parent.

(** outside the four known classes, for every route table (any nesting of tuples and of
    routes, any number of siblings, OptionalParamSegments as a top-level suffix of the
    segment tuple of routes without children), with or without base path — the empty base
    [Some ""] that <Routes> / <FlatRoutes> always hand to RouteDefs::new_with_base when
    <Router> has no base is outside the known classes, i.e. inside this theorem — and every
    request path: the router matches exactly when the table does, and it does not panic *)
Theorem C14_match_iff_flat_except_known :
  forall base rs p,
    wf_tree rs = true -> wf_routes rs = true -> starts_with_slash p = true ->
    known_class base rs p = false ->
    matches base rs p = flat_any base rs p /\ match_route base rs p <> MPanic.
Proof. exact match_iff_flat_fine. Qed.
Print Assumptions C14_match_iff_flat_except_known.

(** ---- first matching definition in declaration order wins ---- *)
Theorem C14_first_match_wins :
  forall rs id p ch ps rem,
    match_siblings rs id p = NYes ch ps rem ->
    exists pre c post,
      rs = pre ++ c :: post
      /\ (forall pre1 x pre2, pre = pre1 ++ x :: pre2 ->
            match_nested x (id + forest_size pre1) p = NNo)
      /\ match_nested c (id + forest_size pre) p = NYes ch ps rem.
Proof. exact first_match_wins. Qed.
Print Assumptions C14_first_match_wins.

(** at the level of the table, with or without base, any number of routes: the FIRST entry
    of the registered table (Static(base) + generated route, declaration order) that matches
    the path wins, and the parameters a match returns are exactly what the reference binds
    for one of that entry's expansions (each value is the corresponding path segment) *)
Theorem C14_first_entry_wins_params_except_known :
  forall base rs p ch ps,
    wf_tree rs = true -> wf_routes rs = true -> starts_with_slash p = true ->
    known_class base rs p = false ->
    match_route base rs p = MYes ch ps ->
    exists pre f post e,
      table base (gen_routes rs) = pre ++ f :: post
      /\ Forall (fun g => route_matches_flat g p = false) pre
      /\ In e (expand_optionals f)
      /\ flat_match e p = Some ps.
Proof. exact first_entry_wins_params. Qed.
Print Assumptions C14_first_entry_wins_params_except_known.

(** expand_optionals: no optional survives; each optional is decided both ways *)
Theorem C14_expand_optionals_spec :
  forall f, Forall (fun e => existsb is_popt e = false) (expand_optionals f)
            /\ length (expand_optionals f) = Nat.pow 2 (count_popt f).
Proof. exact expand_optionals_spec. Qed.
Print Assumptions C14_expand_optionals_spec.

(** ---- matched prefix and remainder partition the path ----
    for one segment value (any nesting of tuples, optionals, wildcard): always *)
Theorem C14_matched_remaining_partition :
  forall s path m r ps, seg_test s path = TSome m r ps -> m ++ r = path.
Proof. exact seg_test_partition. Qed.
Print Assumptions C14_matched_remaining_partition.

(** for a nested match (the matched texts of the chain of routes, then the remainder):
    refuted when an optional parent falls back to its children (F-C14-c) ... *)
Theorem C14_nested_partition_refuted :
  exists rs p ch ps rem, match_siblings rs 0 p = NYes ch ps rem /\ chain_text ch ++ rem <> p.
Proof. exact siblings_partition_refuted. Qed.
Print Assumptions C14_nested_partition_refuted.

(** ... and true whenever no route that has children has an optional segment *)
Theorem C14_nested_partition_except_known :
  forall rs, k_optional_parent rs = false ->
  forall id p ch ps rem, match_siblings rs id p = NYes ch ps rem -> chain_text ch ++ rem = p.
Proof. exact siblings_partition_except_known. Qed.
Print Assumptions C14_nested_partition_except_known.

(** ---- each parameter value is the corresponding path segment ----
    (C14_first_entry_wins_params_except_known: the returned parameters are the reference's
    bindings) ... *)
(** ... and such a binding of a {param} is a non-empty run of bytes without '/' *)
Theorem C14_param_value_is_segment :
  forall ts p b r, existsb is_wild_tok ts = false -> spre ts p = Some (b, r) ->
    Forall (fun kv => snd kv <> [] /\ has_slash (snd kv) = false) b.
Proof. exact pattern_param_values. Qed.
Print Assumptions C14_param_value_is_segment.

(** ---- a path built from a route's segments with given parameter values matches that
    route and returns those values ----
    refuted as such (F-C14-b: StaticSegment "a/b" does not match /a/b) ... *)
Theorem C14_build_then_match_refuted :
  exists rs f vals,
    wf_tree rs = true /\ wf_routes rs = true /\ gen_routes rs = [f] /\ vals_ok f vals
    /\ match_route None rs (build_path f vals) = MNo.
Proof. exact build_then_match_refuted. Qed.
Print Assumptions C14_build_then_match_refuted.

(** ... and true outside the known classes, for any table and base: the path built from an
    expansion [e] of route [i] the way the table entry is built (after the base), with one
    value per parameter (non-empty, free of '/'; anything for a splat), is matched; the
    winner is the first table entry whose pattern matches; and if no earlier entry matches
    and route [i] has no optional segment, the returned parameters are exactly those values *)
Theorem C14_build_then_match_except_known :
  forall base rs i f e vals p,
    wf_tree rs = true -> wf_routes rs = true ->
    nth_error (gen_routes rs) i = Some f ->
    In e (expand_optionals f) ->
    vals_ok e vals -> p = built base e vals ->
    known_class base rs p = false ->
    exists ch ps,
      match_route base rs p = MYes ch ps
      /\ (exists pre g post e',
            table base (gen_routes rs) = pre ++ g :: post
            /\ Forall (fun x => route_matches_flat x p = false) pre
            /\ In e' (expand_optionals g) /\ flat_match e' p = Some ps)
      /\ (existsb is_popt f = false ->
          Forall (fun x => route_matches_flat x p = false) (firstn i (table base (gen_routes rs))) ->
          ps = bindings f vals).
Proof. exact build_then_match_any. Qed.
Print Assumptions C14_build_then_match_except_known.

(** the same about the REAL builder (Router/Build.v transcribes StaticPath::into_paths of
    static_routes.rs; the harness drives it on every generated route): every path it builds
    from an expansion of route [i] as the router registers it (Static(base) in front), for
    prerendered values that are non-empty and free of '/', is a [built] path, hence matched,
    first entry wins, and the values come back *)
Theorem C14_build_then_match_real_except_known :
  forall base rs i f e pm paths p,
    wf_tree rs = true -> wf_routes rs = true ->
    nth_error (gen_routes rs) i = Some f -> In e (expand_optionals f) ->
    pm_ok pm ->
    into_paths (registered base e) pm = Some paths -> In p paths ->
    starts_with_slash p = true -> known_class base rs p = false ->
    exists vals ch ps,
      vals_ok e vals /\ p = built base e vals
      /\ match_route base rs p = MYes ch ps
      /\ (exists pre g post e',
            table base (gen_routes rs) = pre ++ g :: post
            /\ Forall (fun x => route_matches_flat x p = false) pre
            /\ In e' (expand_optionals g) /\ flat_match e' p = Some ps)
      /\ (existsb is_popt f = false ->
          Forall (fun x => route_matches_flat x p = false) (firstn i (table base (gen_routes rs))) ->
          ps = bindings f vals).
Proof. exact build_then_match_real. Qed.
Print Assumptions C14_build_then_match_real_except_known.

(* F-C14-e: the builder is todo!() on an unexpanded OptionalParam *)
Theorem C14_into_paths_total_refuted :
  exists f pm, into_paths f pm = None.
Proof. exact into_paths_total_refuted. Qed.
Print Assumptions C14_into_paths_total_refuted.
