(** C08 — owner disposal releases exactly what the scope created, exactly once.
    Statements only; proofs live in Reactive/OwnerProofs.v.
    [final_core b ops] is the owner tree + arena reached by running the scope program [b] under a
    fresh root owner and then the history [ops] (re-runs, cleanups and handle drops of any scope,
    effect / memo notifications, task polls in any order, allocations, explicit disposals, pause /
    resume) — i.e. [forall b ops] = all programs, all histories, all executor orders.
    [err] is the fuel flag of the model: the cascade never sets it (C08_cascade_fuel_suffices);
    only [RunAll]'s scheduler fuel could. [sub c o p]: [p] is reached from [o] through the
    children lists of live owners (the subtree [cleanup o] walks). *)
From Coq Require Import List ZArith Bool.
From LV Require Import Reactive.Owner Reactive.OwnerProofs Reactive.OwnerDropProofs.
Import ListNotations.

(** every cleanup runs at most once over any history *)
Theorem C08_cleanup_never_twice : forall b ops, NoDup (cids (clog (final_core b ops))).
Proof. exact cleanup_never_twice. Qed.
Print Assumptions C08_cleanup_never_twice.

(** one cleanup of [o] runs exactly the cleanups registered under [o] and its descendants *)
Theorem C08_cleanup_runs_each_once : forall b ops,
  err (final_core b ops) = false ->
  forall o, alive (final_core b ops) o = true ->
  forall l, clog (cleanup o (final_core b ops)) = l ++ clog (final_core b ops) ->
  NoDup (cids l) /\
  forall cid, In cid (cids l) <->
              exists p ow, sub (final_core b ops) o p /\
                           nth_error (owners (final_core b ops)) p = Some ow /\ In cid (o_cleanups ow).
Proof. exact r_cleanup_runs_subtree. Qed.
Print Assumptions C08_cleanup_runs_each_once.

(** descendants before ancestors: for every owner [p] of the subtree and every scope [r] at or
    below a child [q] of [p], the cleanups of [r] are logged before those of [p] *)
Theorem C08_descendants_first : forall b ops,
  err (final_core b ops) = false ->
  forall o, alive (final_core b ops) o = true ->
  forall l, clog (cleanup o (final_core b ops)) = l ++ clog (final_core b ops) ->
  forall p a q r ar cid1 cid2,
    sub (final_core b ops) o p -> nth_error (owners (final_core b ops)) p = Some a ->
    In cid2 (o_cleanups a) -> In q (o_children a) -> alive (final_core b ops) q = true ->
    sub (final_core b ops) q r -> nth_error (owners (final_core b ops)) r = Some ar ->
    In cid1 (o_cleanups ar) ->
    logged_before cid1 cid2 (cids l).
Proof. exact r_descendants_first. Qed.
Print Assumptions C08_descendants_first.

(** every owner of the subtree is emptied and every arena key registered there is disposed *)
Theorem C08_handles_disposed : forall b ops,
  err (final_core b ops) = false ->
  forall o, alive (final_core b ops) o = true ->
  forall p ow, sub (final_core b ops) o p -> nth_error (owners (final_core b ops)) p = Some ow ->
  gone_at (cleanup o (final_core b ops)) p /\
  forall k, In k (o_nodes ow) -> contains (cleanup o (final_core b ops)) k = false.
Proof. exact r_handles_disposed. Qed.
Print Assumptions C08_handles_disposed.

(** a disposed key never resolves again, whatever is allocated or released later *)
Theorem C08_no_aba : forall b ops1 ops2 ops3 k,
  contains (final_core b ops1) k = true ->
  contains (final_core b (ops1 ++ ops2)) k = false ->
  contains (final_core b (ops1 ++ ops2 ++ ops3)) k = false.
Proof. exact no_aba. Qed.
Print Assumptions C08_no_aba.

(** nothing outside the subtree changes: neither owners nor arena values *)
Theorem C08_frame : forall b ops o,
  (forall p, ~ sub (final_core b ops) o p ->
             nth_error (owners (cleanup o (final_core b ops))) p = nth_error (owners (final_core b ops)) p) /\
  (forall k, (forall p ow, sub (final_core b ops) o p ->
                           nth_error (owners (final_core b ops)) p = Some ow -> ~ In k (o_nodes ow)) ->
             get (cleanup o (final_core b ops)) k = get (final_core b ops) k).
Proof. exact r_frame. Qed.
Print Assumptions C08_frame.

(** context lookups resolve to the nearest providing live ancestor *)
Theorem C08_context_nearest_ancestor : forall b ops o ty,
  o < length (owners (final_core b ops)) ->
  nearest (final_core b ops) ty o (use_ctx (final_core b ops) o ty).
Proof. exact r_context. Qed.
Print Assumptions C08_context_nearest_ancestor.

(** take_context / update_context act on the owner holding the binding that use_context returns *)
Theorem C08_context_provider_holds_binding : forall b ops o ty,
  use_ctx (final_core b ops) o ty =
  match provider (final_core b ops) o ty with
  | Some p => ctx_at (final_core b ops) p ty
  | None => None
  end.
Proof. exact r_provider. Qed.
Print Assumptions C08_context_provider_holds_binding.

(** after all scopes are gone no arena entries remain *)
Theorem C08_no_leak : forall b ops,
  let c := final_core b ops in
  err c = false -> unowned c = false ->
  (forall p ow, nth_error (owners c) p = Some ow -> o_alive ow = false) ->
  arena_len c = 0.
Proof. exact no_leak. Qed.
Print Assumptions C08_no_leak.

(** an effect whose arena entry was released (Effect) or whose handle was dropped (RenderEffect)
    never runs again: its task ends at the next poll *)
Theorem C08_disposed_effect_never_runs : forall s i e,
  nth_error (effs s) i = Some e -> eff_alive s e = false -> e_done e = false ->
  let s' := poll i s in
  (exists ef, nth_error (effs s') i = Some ef /\ e_done ef = true) /\
  forall j, In (LEff j) (clog (b_core s')) -> In (LEff j) (clog (b_core s)).
Proof. exact disposed_effect_never_runs. Qed.
Print Assumptions C08_disposed_effect_never_runs.

(** the fuel of the release cascade always suffices *)
Theorem C08_cascade_fuel_suffices : forall b ops,
  err (final_core b ops) = false -> forall o k,
  err (cleanup o (final_core b ops)) = false /\ err (drop_owner o (final_core b ops)) = false /\
  err (dispose k (final_core b ops)) = false.
Proof. exact r_fuel. Qed.
Print Assumptions C08_cascade_fuel_suffices.

(** the other exit of a scope — the last strong reference to an owner goes away (a dropped Owner
    handle, the last ArcMemo handle, an effect task ending: Drop for OwnerInner = [drop_owner]):
    descendants' cleanups still run before their ancestors' … *)
Theorem C08_drop_descendants_first : forall b ops,
  err (final_core b ops) = false ->
  forall o, alive (final_core b ops) o = true ->
  forall l, clog (drop_owner o (final_core b ops)) = l ++ clog (final_core b ops) ->
  forall p a q r ar cid1 cid2,
    sub (final_core b ops) o p -> nth_error (owners (final_core b ops)) p = Some a ->
    In cid2 (o_cleanups a) -> In q (o_children a) -> alive (final_core b ops) q = true ->
    sub (final_core b ops) q r -> nth_error (owners (final_core b ops)) r = Some ar ->
    In cid1 (o_cleanups ar) ->
    logged_before cid1 cid2 (cids l).
Proof. exact r_drop_descendants_first. Qed.
Print Assumptions C08_drop_descendants_first.

(** … and every owner of the subtree is emptied and every arena key registered there is gone *)
Theorem C08_drop_handles_disposed : forall b ops,
  err (final_core b ops) = false ->
  forall o, alive (final_core b ops) o = true ->
  forall p ow, sub (final_core b ops) o p -> nth_error (owners (final_core b ops)) p = Some ow ->
  gone_at (drop_owner o (final_core b ops)) p /\
  forall k, In k (o_nodes ow) -> get (drop_owner o (final_core b ops)) k = None.
Proof. exact r_drop_subtree_released. Qed.
Print Assumptions C08_drop_handles_disposed.
