(** C13 — calling a server function remotely equals calling it directly.
    Statements only; proofs live in ServerFn/*Proofs.v. *)
From Coq Require Import List NArith.
From LV Require Import Base.Bytes Router.Url ServerFn.ErrorCodec ServerFn.ErrorCodecProofs.
Import ListNotations.
Open Scope N_scope.

(** an error's kind and message survive the wire format "Kind|message": for every custom
    error type whose FromStr inverts its Display, every variant and every (UTF-8) message,
    including empty ones and ones containing the '|' delimiter *)
Theorem C13_error_roundtrip :
  forall (C : Type) (cdisplay : C -> bytes) (cparse : bytes -> option C) (e : sfe C),
  err_ok C cdisplay cparse e -> de C cparse (ser C cdisplay e) = e.
Proof. exact error_roundtrip. Qed.
Print Assumptions C13_error_roundtrip.

(** the decoder yields a standard error only from that error's own wire form *)
Theorem C13_decode_std_sound :
  forall (C : Type) (cdisplay : C -> bytes) (cparse : bytes -> option C) data k m,
  decode C cparse data = inl (Std k m) -> data = ser C cdisplay (Std k m).
Proof. exact decode_std_sound. Qed.
Print Assumptions C13_decode_std_sound.

(** any other byte string (invalid UTF-8, no delimiter, unknown kind, unparsable custom
    text) is turned into a Deserialization error value carrying the diagnostic *)
Theorem C13_de_malformed :
  forall (C : Type) (cparse : bytes -> option C) data msg,
  decode C cparse data = inr msg -> de C cparse data = Std KDeserialization msg.
Proof. exact de_malformed. Qed.
Print Assumptions C13_de_malformed.
