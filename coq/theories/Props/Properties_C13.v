(** C13 — calling a server function remotely equals calling it directly.
    Statements only; proofs live in ServerFn/*Proofs.v.  The serde codecs are parameters
    (hypothesis [codecs_ok]); everything leptos wrote around them is modelled. *)
From Coq Require Import List NArith.
From LV Require Import Base.Bytes Router.Url Router.UrlProofs
  ServerFn.ErrorCodec ServerFn.ErrorCodecProofs ServerFn.Base64Proofs ServerFn.UrlFormProofs
  ServerFn.Protocol ServerFn.ProtocolProofs ServerFn.Websocket ServerFn.WebsocketProofs
  ServerFn.InjectiveProofs.
Import ListNotations.
Open Scope N_scope.

(** an error's kind and message survive the wire format "Kind|message": for every custom
    error type whose FromStr inverts its Display, every variant and every (UTF-8) message,
    including empty ones and ones containing the '|' delimiter *)
Theorem C13_error_roundtrip :
  forall (C : Type) (cdisplay : C -> bytes) (cparse : bytes -> option C) (e : sfe C),
  err_ok C cdisplay cparse e -> de C cparse (ser C cdisplay e) = e.
Proof. exact error_roundtrip. Qed.
Print Assumptions C13_error_roundtrip.

(** the decoder yields a standard error only from that error's own wire form *)
Theorem C13_decode_std_sound :
  forall (C : Type) (cdisplay : C -> bytes) (cparse : bytes -> option C) data k m,
  decode C cparse data = inl (Std k m) -> data = ser C cdisplay (Std k m).
Proof. exact decode_std_sound. Qed.
Print Assumptions C13_decode_std_sound.

(** any other byte string (invalid UTF-8, no delimiter, unknown kind, unparsable custom
    text) is turned into a Deserialization error value carrying the diagnostic *)
Theorem C13_de_malformed :
  forall (C : Type) (cparse : bytes -> option C) data msg,
  decode C cparse data = inr msg -> de C cparse data = Std KDeserialization msg.
Proof. exact de_malformed. Qed.
Print Assumptions C13_de_malformed.

(** base64 as server_fn uses it (URL_SAFE for the URL form, STANDARD_NO_PAD for binary
    encoders' text form): decoding an encoding returns the bytes *)
Theorem C13_base64url_roundtrip :
  forall (url pad : bool) (l : bytes),
  all_bytes l = true -> b64_decode url pad (b64_encode url pad l) = inl l.
Proof. exact base64_roundtrip. Qed.
Print Assumptions C13_base64url_roundtrip.

(** the URL-embedded form: whatever query (and fragment) the base URL already carries —
    stale __path/__err pairs of an earlier failure included — the client reads back exactly
    this server function's path and this error from the URL [to_url] produces *)
Theorem C13_url_error_roundtrip :
  forall (C : Type) (cdisplay : C -> bytes) (cparse : bytes -> option C)
         (u : purl) (path : bytes) (e : sfe C),
  err_ok C cdisplay cparse e -> utf8_valid path = true ->
  read_back C cparse (to_url C cdisplay u path e) = (Some path, Some e).
Proof. exact url_error_roundtrip. Qed.
Print Assumptions C13_url_error_roundtrip.

(** an __err value that is not canonical URL-safe base64 still gives an error value *)
Theorem C13_decode_err_malformed :
  forall (C : Type) (cparse : bytes -> option C) s err,
  b64_decode true true s = inr err ->
  decode_err C cparse s = Std KDeserialization (b64_error_display err).
Proof. exact decode_err_malformed. Qed.
Print Assumptions C13_decode_err_malformed.

(** strip_error_info removes the __path/__err pairs and nothing else.
    PARTIAL: stated for queries whose decoded pairs are valid UTF-8 strings ([pair_ok]);
    that from_utf8_lossy always returns such strings is a std fact not proved here. *)
Theorem C13_strip_removes_only_err_pairs_partial :
  forall u : purl,
  Forall pair_ok (form_parse (match u_query u with Some q => q | None => [] end)) ->
  form_parse (match u_query (strip_error_info u) with Some q => q | None => [] end)
  = filter (fun kv => negb (is_err_key (fst kv)))
           (form_parse (match u_query u with Some q => q | None => [] end))
  /\ u_pre (strip_error_info u) = u_pre u /\ u_frag (strip_error_info u) = u_frag u.
Proof. exact strip_removes_only_err_pairs. Qed.
Print Assumptions C13_strip_removes_only_err_pairs_partial.

(** remote = direct: for every argument on which the codecs decode what they encode (the
    assumption about serde & co.) and every result, Ok or Err of any variant and message,
    the client path (encode request, transport, decode on the server, run the body, encode
    the response or the error response, status rule, decode on the client) returns what
    the body returns, and the redirect hook stays silent *)
Theorem C13_remote_eq_direct :
  forall (C : Type) (cdisplay : C -> bytes) (cparse : bytes -> option C) (In Out : Type)
         (enc_in : In -> bytes + bytes) (dec_in : bytes -> In + bytes)
         (enc_out : Out -> bytes + bytes) (dec_out : bytes -> Out + bytes)
         (in_err_kind : kind) (ct_in ct_out path : bytes) (body : In -> Out + sfe C)
         (parse_referer : bytes -> referer),
  contains L_text_html ct_in = false ->
  forall x : In,
  codecs_ok C cdisplay cparse In Out enc_in dec_in enc_out dec_out body x ->
  remote C cdisplay cparse In Out enc_in dec_in enc_out dec_out in_err_kind ct_in ct_out path
         body parse_referer x
  = (direct C In Out body x, []).
Proof. exact remote_eq_direct. Qed.
Print Assumptions C13_remote_eq_direct.

(** malformed responses: whatever arrives, the client's result is a value of the declared
    type; an error status always gives [Err (de body)] … *)
Theorem C13_malformed_total_error_status :
  forall (C : Type) (cparse : bytes -> option C) (Out : Type) (dec_out : bytes -> Out + bytes)
         (res : response),
  400 <= rs_status res <= 599 ->
  client_result C cparse Out dec_out res = (Err (de C cparse (rs_body res)), []).
Proof. exact client_error_status. Qed.
Print Assumptions C13_malformed_total_error_status.

(** … a success status with an undecodable body gives a Deserialization error … *)
Theorem C13_malformed_total_undecodable :
  forall (C : Type) (cparse : bytes -> option C) (Out : Type) (dec_out : bytes -> Out + bytes)
         (res : response) (msg : bytes),
  ~ (400 <= rs_status res <= 599) -> dec_out (rs_body res) = inr msg ->
  client_result C cparse Out dec_out res = (Err (Std KDeserialization msg), []).
Proof. exact client_undecodable. Qed.
Print Assumptions C13_malformed_total_undecodable.

(** … and no response at all leads to the panic outcome *)
Theorem C13_malformed_total :
  forall (C : Type) (cparse : bytes -> option C) (Out : Type) (dec_out : bytes -> Out + bytes)
         (res : response),
  fst (client_result C cparse Out dec_out res) <> Panic.
Proof. exact client_result_total. Qed.
Print Assumptions C13_malformed_total.

(** malformed requests: a payload the input codec rejects is answered with status 500 and
    the wire form of an error; the client obtains exactly that error value *)
Theorem C13_malformed_request :
  forall (C : Type) (cdisplay : C -> bytes) (cparse : bytes -> option C) (In Out : Type)
         (dec_in : bytes -> In + bytes) (enc_out : Out -> bytes + bytes)
         (dec_out : bytes -> Out + bytes) (in_err_kind : kind) (ct_out path : bytes)
         (body : In -> Out + sfe C) (parse_referer : bytes -> referer)
         (data msg : bytes) (acc : option bytes),
  dec_in data = inr msg ->
  (match acc with Some a => contains L_text_html a | None => false end) = false ->
  utf8_valid msg = true ->
  let res := run_on_server C cdisplay In Out dec_in enc_out in_err_kind ct_out path body
               parse_referer {| rq_data := data; rq_accept := acc; rq_referer := None |} in
  rs_status res = 500
  /\ rs_body res = ser C cdisplay (Std in_err_kind msg)
  /\ client_result C cparse Out dec_out res = (Err (Std in_err_kind msg), []).
Proof. exact server_malformed_request. Qed.
Print Assumptions C13_malformed_request.

(** the multipart boundary lookup (a panic before fix 51c8f23) yields a value for every
    Content-Type header, present or not *)
Theorem C13_multipart_boundary_total :
  forall (C : Type) (parse_boundary : bytes -> option bytes) (ct : option bytes),
  multipart_boundary C parse_boundary ct <> Panic.
Proof. exact multipart_boundary_total. Qed.
Print Assumptions C13_multipart_boundary_total.

(** websocket protocol: the stream a remote caller receives is, item by item, the stream the
    body returns when called directly — values and error items of every variant and message,
    in both directions — for all item codecs that decode what they encode and every body,
    when the transport delivers the frames it was given *)
Theorem C13_ws_remote_eq_direct :
  forall (C : Type) (cdisplay : C -> bytes) (cparse : bytes -> option C) (In Out : Type)
         (enc_in : In -> bytes + bytes) (dec_in : bytes -> In + bytes)
         (enc_out : Out -> bytes + bytes) (dec_out : bytes -> Out + bytes)
         (body : list (item C In) -> list (item C Out)) (items : list (item C In)),
  Forall (item_ok C cdisplay cparse enc_in dec_in) items ->
  Forall (item_ok C cdisplay cparse enc_out dec_out) (body items) ->
  ws_remote C cdisplay cparse In Out enc_in dec_in enc_out dec_out body [] [] items
  = ws_direct C In Out body items.
Proof. exact ws_remote_eq_direct. Qed.
Print Assumptions C13_ws_remote_eq_direct.

(** a frame the item codec rejects arrives as a Deserialization error value … *)
Theorem C13_ws_frame_undecodable :
  forall (C : Type) (cparse : bytes -> option C) (A : Type) (dec : bytes -> A + bytes) b msg,
  dec b = inr msg -> recv_item C cparse dec (inl b) = inr (Std KDeserialization msg).
Proof. exact ws_frame_undecodable. Qed.
Print Assumptions C13_ws_frame_undecodable.

(** … an item that cannot be encoded travels, and arrives, as a Serialization error … *)
Theorem C13_ws_unencodable_item :
  forall (C : Type) (cdisplay : C -> bytes) (cparse : bytes -> option C) (A : Type)
         (enc : A -> bytes + bytes) (dec : bytes -> A + bytes) x msg,
  enc x = inr msg -> utf8_valid msg = true ->
  recv_item C cparse dec (send_item C cdisplay enc (inl x)) = inr (Std KSerialization msg).
Proof. exact ws_unencodable_item. Qed.
Print Assumptions C13_ws_unencodable_item.

(** … and frames replaced in flight never lose or invent items of an item-wise body *)
Theorem C13_ws_faults_keep_length :
  forall (C : Type) (cdisplay : C -> bytes) (cparse : bytes -> option C) (In Out : Type)
         (enc_in : In -> bytes + bytes) (dec_in : bytes -> In + bytes)
         (enc_out : Out -> bytes + bytes) (dec_out : bytes -> Out + bytes)
         (body : list (item C In) -> list (item C Out)) up down items,
  (forall l, length (body l) = length l) ->
  length (ws_remote C cdisplay cparse In Out enc_in dec_in enc_out dec_out body up down items)
  = length items.
Proof. exact ws_remote_length. Qed.
Print Assumptions C13_ws_faults_keep_length.

(** the string form of an error (ServerFnErrorWrapper: Display, then FromStr), for every error
    type, text or binary encoder: the error comes back *)
Theorem C13_wrapper_roundtrip :
  forall (E : Type) (fmt : format) (eser : E -> bytes) (ede : bytes -> E)
         (deser_error : bytes -> E) (e : E),
  (fmt = FText -> utf8_valid (eser e) = true) ->
  all_bytes (eser e) = true ->
  ede (eser e) = e ->
  exists s, wrapper_to_string E fmt eser e = Some s
            /\ wrapper_from_str E fmt ede deser_error s = e.
Proof. exact wrapper_roundtrip. Qed.
Print Assumptions C13_wrapper_roundtrip.

(** a string that is not the text form of any encoded value still gives an error value *)
Theorem C13_wrapper_malformed :
  forall (E : Type) (fmt : format) (ede : bytes -> E) (deser_error : bytes -> E) s err,
  from_encoded_string fmt s = inr err ->
  wrapper_from_str E fmt ede deser_error s = deser_error (b64_error_display err).
Proof. exact wrapper_from_str_malformed. Qed.
Print Assumptions C13_wrapper_malformed.

(** for ServerFnError<C> itself: kind and message survive the string form *)
Theorem C13_error_string_roundtrip :
  forall (C : Type) (cdisplay : C -> bytes) (cparse : bytes -> option C) (e : sfe C),
  err_ok C cdisplay cparse e ->
  exists s, sfe_to_string C cdisplay e = Some s /\ sfe_from_str C cparse s = e.
Proof. exact sfe_string_roundtrip. Qed.
Print Assumptions C13_error_string_roundtrip.

(** the wire forms are injective, so the receiving side cannot take one failure for another:
    two different errors (kind or message) never share a wire text … *)
Theorem C13_error_wire_injective :
  forall (C : Type) (cdisplay : C -> bytes) (cparse : bytes -> option C) (e1 e2 : sfe C),
  err_ok C cdisplay cparse e1 -> err_ok C cdisplay cparse e2 ->
  ser C cdisplay e1 = ser C cdisplay e2 -> e1 = e2.
Proof. exact ser_injective. Qed.
Print Assumptions C13_error_wire_injective.

(** … two different byte strings never share a base64 text (either engine) … *)
Theorem C13_base64_injective :
  forall (url pad : bool) (l1 l2 : bytes),
  all_bytes l1 = true -> all_bytes l2 = true ->
  b64_encode url pad l1 = b64_encode url pad l2 -> l1 = l2.
Proof. exact b64_encode_injective. Qed.
Print Assumptions C13_base64_injective.

(** … and from one referer two different (server-function path, error) pairs never give the
    same redirect URL *)
Theorem C13_url_error_injective :
  forall (C : Type) (cdisplay : C -> bytes) (cparse : bytes -> option C)
         (u : purl) (p1 p2 : bytes) (e1 e2 : sfe C),
  err_ok C cdisplay cparse e1 -> err_ok C cdisplay cparse e2 ->
  utf8_valid p1 = true -> utf8_valid p2 = true ->
  to_url C cdisplay u p1 e1 = to_url C cdisplay u p2 e2 -> p1 = p2 /\ e1 = e2.
Proof. exact to_url_injective. Qed.
Print Assumptions C13_url_error_injective.
