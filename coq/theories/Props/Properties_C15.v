(** C15 — URL, query and parameter decoding is total and happens exactly once.
    Statements only; proofs live in Router/UrlProofs.v. *)
From Coq Require Import List NArith.
From LV Require Import Base.Bytes Router.Url Router.UrlProofs Router.UrlOnceProofs.
Import ListNotations.
Open Scope N_scope.

(** escaping any string and unescaping the result returns the original string *)
Theorem C15_unescape_escape :
  forall s, all_bytes s = true -> utf8_valid s = true -> unescape (escape s) = s.
Proof. exact unescape_escape. Qed.
Print Assumptions C15_unescape_escape.

(** a parameter map written to a query string and parsed back is the same map
    (keys, values, multiplicity, order) *)
Theorem C15_map_query_roundtrip :
  forall m, wf_map m -> parse_search_params (47 :: to_query_string m) = m.
Proof. exact map_query_roundtrip. Qed.
Print Assumptions C15_map_query_roundtrip.

(** each query parameter is the once-decoded text of its part of the URL *)
Theorem C15_query_value_decoded_once :
  forall k v, str_ok k -> str_ok v ->
  parse_search_params ([47; 63] ++ escape k ++ [61] ++ escape v) = [(k, [v])].
Proof. exact query_value_decoded_once. Qed.
Print Assumptions C15_query_value_decoded_once.

(** each path parameter is the once-decoded raw segment, in a flat route … *)
Theorem C15_route_param_decoded_once :
  forall k v, str_ok v -> route_params [(k, escape v)] = [(k, [v])].
Proof. exact route_param_decoded_once. Qed.
Print Assumptions C15_route_param_decoded_once.

(** … and when re-collected by the nested router *)
Theorem C15_nested_param_decoded_once :
  forall k v, str_ok v -> params_including_parents [[(k, escape v)]] = [(k, [v])].
Proof. exact nested_param_decoded_once. Qed.
Print Assumptions C15_nested_param_decoded_once.

(** decoding is the identity on text that needs no decoding: from_utf8_lossy never
    alters valid UTF-8, so "lossy" totality costs nothing on well-formed input *)
Theorem C15_lossy_identity_on_valid :
  forall l, utf8_valid l = true -> from_utf8_lossy l = l.
Proof. exact lossy_valid. Qed.
Print Assumptions C15_lossy_identity_on_valid.

(** every value the application can read from a nested route's parameter map (the
    params_including_parents memo over any number of ancestor levels, whatever raw
    segments they matched) is the once-decoded text of a raw segment bound to that name *)
Theorem C15_nested_values_decoded_once :
  forall levels k vs v,
    In (k, vs) (params_including_parents levels) -> In v vs ->
    exists raw r, In raw levels /\ In (k, r) raw /\ v = unescape r.
Proof. exact nested_values_decoded_once. Qed.
Print Assumptions C15_nested_values_decoded_once.

(** what the application reads with get / get_str after insert(k, raw) is the raw text decoded
    exactly once … *)
Theorem C15_insert_read_decoded_once :
  forall m k v, str_ok v -> get_str (insert m k (escape v)) k = Some v.
Proof. exact insert_read_decoded_once. Qed.
Print Assumptions C15_insert_read_decoded_once.

(** … and ParamsMap::replace decodes once and leaves exactly that value under the key *)
Theorem C15_replace_read_decoded_once :
  forall m k v, str_ok v ->
  get_str (replace m k (escape v)) k = Some v /\ get_all (replace m k (escape v)) k = Some [v].
Proof. exact replace_read_decoded_once. Qed.
Print Assumptions C15_replace_read_decoded_once.

(** the nested router for any chain of routes and any depth: every value a component reads
    from its params map is the once-decoded text of a raw segment bound to that name *)
Theorem C15_level_values_decoded_once :
  forall own m k vs v,
    In m (level_maps own) -> In (k, vs) m -> In v vs ->
    exists lvl r, In lvl own /\ In (k, r) lvl /\ v = unescape r.
Proof. exact level_values_decoded_once. Qed.
Print Assumptions C15_level_values_decoded_once.

(** "exactly once" from the other side: raw text that was escaped twice is read back escaped
    once — never decoded a second time — by Url::unescape, ParamsMap::insert/replace + get_str /
    get_all, the query parser, and flat and nested route parameters *)
Theorem C15_decoded_exactly_once_not_twice :
  forall m k v, str_ok k -> str_ok v ->
  unescape (escape (escape v)) = escape v
  /\ get_str (insert m k (escape (escape v))) k = Some (escape v)
  /\ get_all (replace m k (escape (escape v))) k = Some [escape v]
  /\ parse_search_params ([47; 63] ++ escape k ++ [61] ++ escape (escape v)) = [(k, [escape v])]
  /\ route_params [(k, escape (escape v))] = [(k, [escape v])]
  /\ params_including_parents [[(k, escape (escape v))]] = [(k, [escape v])].
Proof. exact decoded_exactly_once_not_twice. Qed.
Print Assumptions C15_decoded_exactly_once_not_twice.
