(** C17 — action state reflects its dispatch history under any completion order.
    Statements only; proofs live in Reactive/ActionProofs.v. [run true evs] is the model of
    ArcAction after "fix: an aborted action dispatch never writes its result"; [evs] ranges over
    all histories of dispatch / abort / drop-handle / complete / poll / clear / run-until-idle
    events, i.e. all completion orders and all executor poll orders. [summary evs] is what the
    history alone says about each dispatch: (abort handle state, result delivered by its future). *)
From Coq Require Import List ZArith Bool.
From LV Require Import Reactive.Action Reactive.ActionProofs Reactive.ActionBoundProofs.
Import ListNotations.

(** pending exactly while at least one dispatch is neither finished nor aborted *)
Theorem C17_pending_iff_unfinished : forall evs,
  let s := run true evs in
  idle s = true ->
  (pending s = true <->
   exists k h, nth_error (summary evs) k = Some (h, None) /\ h <> Sent).
Proof. exact pending_iff_unfinished. Qed.
Print Assumptions C17_pending_iff_unfinished.

(** version = number of completions (writes): each is a distinct dispatch whose own future
    delivered the written value, and at an idle point every dispatch that completed and was
    never aborted has been counted *)
Theorem C17_version_counts_completions : forall evs,
  let s := run true evs in
  version s = length (wkeys (wlog s)) /\
  NoDup (wkeys (wlog s)) /\
  (forall k r, In (Wrote k r) (wlog s) -> exists h, nth_error (summary evs) k = Some (h, Some r)) /\
  (idle s = true -> forall k h r, nth_error (summary evs) k = Some (h, Some r) -> h <> Sent ->
                    In (Wrote k r) (wlog s)).
Proof. exact version_counts_completions. Qed.
Print Assumptions C17_version_counts_completions.

(** value = result of the most recently completed dispatch (None if cleared since) *)
Theorem C17_value_is_last_completed : forall evs,
  let s := run true evs in value s = last_value (wlog s).
Proof. exact value_is_last_completed. Qed.
Print Assumptions C17_value_is_last_completed.

(** a server action restored from the URL of a failed no-JS form post ([run_from v0]: created with
    the decoded error as its value) runs exactly like a fresh action — so every theorem here about
    pending / version / input / the write log applies to it — and reports the restored value until
    its first completion or clear *)
Theorem C17_restored_value_until_first_write : forall v0 evs,
  let s := run_from v0 true evs in
  let s' := run true evs in
  in_flight s = in_flight s' /\ input s = input s' /\ version s = version s' /\
  tasks s = tasks s' /\ wlog s = wlog s' /\
  value s = match wlog s' with [] => v0 | l => last_value l end.
Proof. exact restored_value_until_first_write. Qed.
Print Assumptions C17_restored_value_until_first_write.

(** input is cleared once nothing is pending *)
Theorem C17_input_cleared_when_idle : forall evs,
  let s := run true evs in pending s = false -> input s = None.
Proof. exact input_cleared_when_idle. Qed.
Print Assumptions C17_input_cleared_when_idle.

(** aborted dispatches never write: once abort() was called for a dispatch that has not
    written yet, no continuation of the history makes it write *)
Theorem C17_aborted_never_writes : forall evs1 evs2 k,
  abort_sent evs1 k ->
  (forall r, ~ In (Wrote k r) (wlog (run true evs1))) ->
  forall r, ~ In (Wrote k r) (wlog (run true (evs1 ++ evs2))).
Proof. exact aborted_never_writes. Qed.
Print Assumptions C17_aborted_never_writes.

(** the code before the fix (unbiased select!) violated it *)
Theorem C17_aborted_never_writes_prefix_refuted :
  abort_sent prefix_witness1 0 /\
  (forall r, ~ In (Wrote 0 r) (wlog (run false prefix_witness1))) /\
  In (Wrote 0 42%Z) (wlog (run false (prefix_witness1 ++ prefix_witness2))) /\
  value (run false (prefix_witness1 ++ prefix_witness2)) = Some 42%Z /\
  version (run false (prefix_witness1 ++ prefix_witness2)) = 1.
Proof. exact aborted_never_writes_prefix_refuted. Qed.
Print Assumptions C17_aborted_never_writes_prefix_refuted.

(** multi-actions keep one independent submission record per dispatch *)
Theorem C17_multi_records_independent : forall pre e u0 post,
  new_sub e = Some u0 ->
  let j := length (m_subs (mrun pre)) in
  nth_error (m_subs (mrun (pre ++ e :: post))) j =
  Some (fold_left sub_step (flat_map (sproj j) post) u0).
Proof. exact multi_records_independent. Qed.
Print Assumptions C17_multi_records_independent.

Theorem C17_multi_one_record_per_dispatch : forall evs,
  length (m_subs (mrun evs)) =
  length (filter (fun e => match new_sub e with Some _ => true | None => false end) evs).
Proof. exact multi_one_record_per_dispatch. Qed.
Print Assumptions C17_multi_one_record_per_dispatch.

(** idle points exist after every history (the theorems above are not vacuous) *)
Theorem C17_run_until_idle_is_idle : forall b evs picks c,
  idle (run b (evs ++ [RunAll picks c])) = true.
Proof. exact run_until_idle_is_idle. Qed.
Print Assumptions C17_run_until_idle_is_idle.

(** the version never runs ahead of the dispatches: after any history — idle or not, any
    completion order, any aborts — it is at most the number of dispatches made so far *)
Theorem C17_version_le_dispatches : forall evs,
  version (run true evs) <= length (summary evs).
Proof. exact version_le_dispatches. Qed.
Print Assumptions C17_version_le_dispatches.
