(** C06 — server-rendered HTML cannot be altered by the data it contains.
    Statements only; proofs live in Html/SsrProofs.v. Strings are arbitrary byte lists; [norm_body]
    / [norm_attr] are HTML's own treatment of NUL and CR (identity on strings without them). *)
From Coq Require Import List NArith.
From LV Require Import Base.Bytes Html.Escape Html.Tokenizer Html.Ssr Html.SsrProofs.
Import ListNotations.
Open Scope N_scope.

(** text of any bytes, escaped by encode_text and followed by the end of input or by markup, is
    read back by the data state as exactly that text: no tag is opened, nothing is lost *)
Theorem C06_text_roundtrip :
  forall s tail, stops MBody tail ->
  scan_text MBody false None (encode_text s ++ tail) = Some (norm_body s, tail).
Proof. exact text_roundtrip. Qed.
Print Assumptions C06_text_roundtrip.

(** the same inside title / textarea (RCDATA): the text ends only at the element's end tag *)
Theorem C06_rcdata_roundtrip :
  forall name s tail, stops (MRcdata name) tail ->
  scan_text (MRcdata name) false None (encode_text s ++ tail) = Some (norm_attr s, tail).
Proof. exact rcdata_roundtrip. Qed.
Print Assumptions C06_rcdata_roundtrip.

(** an attribute value of any bytes, escaped by encode_double_quoted_attribute and closed by the
    quote, is read back as exactly that value and the tag continues after it *)
Theorem C06_attr_roundtrip :
  forall n s acc rest,
  scan_attrs (AValDq n [] false None) acc (encode_dq s ++ 34 :: rest)
  = scan_attrs AGap (add_attr acc (n, norm_attr s)) rest.
Proof. exact attr_roundtrip. Qed.
Print Assumptions C06_attr_roundtrip.

(** escaped text contains neither '<' nor '>', escaped attribute values moreover no quote *)
Theorem C06_escaped_text_has_no_markup_chars :
  forall s, Forall (fun c => c <> 60 /\ c <> 62) (encode_text s).
Proof. exact encode_text_no_markup. Qed.
Print Assumptions C06_escaped_text_has_no_markup_chars.

Theorem C06_escaped_attr_has_no_markup_chars :
  forall s, Forall (fun c => c <> 60 /\ c <> 62 /\ c <> 34) (encode_dq s).
Proof. exact encode_dq_no_markup. Qed.
Print Assumptions C06_escaped_attr_has_no_markup_chars.

(** every '&' of escaped output starts one of &amp; &lt; &gt; &quot; — never a bare ampersand,
    so no other entry of the named character reference table can ever be matched *)
Theorem C06_escaped_text_has_no_bare_ampersand : forall s, refs_only (encode_text s).
Proof. exact encode_text_refs_only. Qed.
Print Assumptions C06_escaped_text_has_no_bare_ampersand.

Theorem C06_escaped_attr_has_no_bare_ampersand : forall s, refs_only (encode_dq s).
Proof. exact encode_dq_refs_only. Qed.
Print Assumptions C06_escaped_attr_has_no_bare_ampersand.

(** the attributes of a rendered start tag (strings, booleans, id, class + class toggles, style
    + style properties) are read back as exactly the attributes of the view *)
Theorem C06_attributes_roundtrip :
  forall attrs rest, forallb attr_ok attrs = true ->
  scan_attrs AGap [] (attrs_html attrs ++ 62 :: rest) = Some (tree_attrs attrs, rest).
Proof. exact scan_attrs_html. Qed.
Print Assumptions C06_attributes_roundtrip.

(** render_parses_to_itself, outside the class of open finding F-C06-b: for every well-formed
    view — arbitrary strings as text / char / number children, attribute values, class, class
    toggle names, style, style property values, textarea and title content, script / style
    content that does not contain its own end tag — the HTML emitted by to_html parses to exactly
    the tree of the view *)
Theorem C06_render_parses_to_itself_except_known :
  forall v, view_ok v = true -> known_class v = false ->
  parse_fragment (to_html v) = Some (tree_of v).
Proof. exact render_parses_except_known. Qed.
Print Assumptions C06_render_parses_to_itself_except_known.

(** ... and inside that class the statement is false (F-C06-b): a string child of script that
    contains the end tag ends the element, here injecting an img element *)
Theorem C06_render_parses_to_itself_refuted :
  exists v, view_ok v = true /\ known_class v = true /\
    parse_fragment (to_html v)
    = Some [NEl script_name [] []; NEl [105; 109; 103] [([115; 114; 99], [120])] []; NEl script_name [] []]
    /\ tree_of v = [NEl script_name [] [NText str_script_breakout]].
Proof. exact render_parses_refuted. Qed.
Print Assumptions C06_render_parses_to_itself_refuted.

(** the document title injected by leptos_meta parses to a title element whose text is the title *)
Theorem C06_title_parses :
  forall t, parse_fragment (title_html t) = Some [NEl title_name [] (text_nodes (norm_attr t))].
Proof. exact title_parses. Qed.
Print Assumptions C06_title_parses.

(** meta content (and name) injected by leptos_meta parse to one meta element with these values *)
Theorem C06_meta_parses :
  forall n c, parse_fragment (meta_html n c)
  = Some [NEl meta_name [(name_attr, norm_attr n); (content_attr, norm_attr c)] []].
Proof. exact meta_parses. Qed.
Print Assumptions C06_meta_parses.
