(** C19 — cross-thread use of the reactive graph loses no wake-ups and cannot deadlock.
    Statements only; proofs live in Reactive/{ParkProofs,LocksProofs,CrossProofs}.v.

    Everything here is about PROTOCOL MODELS under sequential consistency (Reactive/Park.v,
    Cross.v, Locks.v): one step = one yield-to-yield segment of the instrumented code, a
    schedule = list of thread ids.  Weak-memory effects of the Relaxed atomics, OS scheduling
    and lock fairness cannot be exhibited by these models (level: proof of protocol models,
    partial). *)
From Coq Require Import List ZArith Bool Arith.
From LV Require Import Reactive.Park Reactive.ParkProofs Reactive.Locks Reactive.LocksProofs
  Reactive.Cross Reactive.CrossProofs.
Import ListNotations.

(** await path, repaired protocol (`park_if_still_loading`): for every number and kind of
    awaiters and every schedule, when no thread can move any more the completer has finished
    and every awaiter has resumed with the value — no wake-up is lost and the completer cannot
    be stuck behind the readers of the value lock *)
Theorem C19_no_lost_wakeup :
  forall (kinds : list bool) (sched : list nat),
    let s := arun Fixed (ainit kinds) sched in
    aterminal s ->
    c_pc s = CDone /\ forall a, In a (aws s) -> a_pc a = ADone VAL.
Proof. exact no_lost_wakeup. Qed.
Print Assumptions C19_no_lost_wakeup.

(** the same at the granularity of USER CALLBACKS (the awaiter's waker `clone` / `wake_by_ref`
    are yield points, so the awaiter can be pre-empted inside the wakers lock and the completer
    blocks on it): BOUNDED sweep by computation — one awaiter (either kind), every schedule of at
    most 14 slots *)
Theorem C19_no_lost_wakeup_callback_points_bounded :
  forall (kind : bool) (sched : list nat),
    (length sched <= 14)%nat -> Forall (fun t => (t < 2)%nat) sched ->
    let u := urun (uinit [kind]) sched in
    uterminalb u = true -> u_all_done u = true.
Proof. exact no_lost_wakeup_callback_points_bounded. Qed.
Print Assumptions C19_no_lost_wakeup_callback_points_bounded.

(** the protocol before the fix (load `loading`; push the waker afterwards) loses a wake-up:
    F-C19, fixed in /repo; witness of length 6 *)
Theorem C19_no_lost_wakeup_prefix_refuted :
  exists kinds sched,
    let s := arun Prefix (ainit kinds) sched in
    aterminal s /\ exists a, In a (aws s) /\ a_pc a = AParked /\ a_woken a = false.
Proof. exact no_lost_wakeup_prefix_refuted. Qed.
Print Assumptions C19_no_lost_wakeup_prefix_refuted.

(** effect notification channel: for every number of writer threads, all their programs, both
    granularities and every schedule, once every writer has finished and the effect's task is
    parked with no wake outstanding, the effect's last run saw the final value of the signal
    and no notification is left unconsumed *)
Theorem C19_no_lost_notification :
  forall (fine : bool) (progs : list (list Z)) (sched : list nat),
    let s := crun (cinit fine progs) sched in
    cterminal s ->
    hd_error (c_log s) = Some (c_sv s) /\ c_flag s = false /\ c_dirty s = false.
Proof. exact no_lost_notification. Qed.
Print Assumptions C19_no_lost_notification.

(** lock layer: if every acquisition of every thread is of a lock ranked strictly above all
    locks the thread holds (hence also: no thread re-acquires a lock it holds), no schedule of
    any number of threads reaches a deadlock or a self-deadlock *)
Theorem C19_no_self_deadlock :
  forall (rank : nat -> nat) (B : nat), (forall l, (rank l <= B)%nat) ->
  forall (traces : list (list ev)) (sched : list nat),
    (forall tr, In tr traces -> disciplined rank [] tr = true) ->
    deadlocked (lrun1 (linit traces) sched) = false.
Proof. exact lock_order_no_deadlock. Qed.
Print Assumptions C19_no_self_deadlock.

(** the guard scopes of the current code (hand-mirrored table [head_ops]: signal write, memo
    mark / update / read, effect mark / re-run, async derived completion and await) follow the
    order "subscriber's lock before its sources' locks, reactivity before value": threads
    running any sequences of these operations never deadlock *)
Theorem C19_lock_order_acyclic :
  forall (progs : list (list (list ev))) (sched : list nat),
    (forall p o, In p progs -> In o p -> In o head_ops) ->
    deadlocked (lrun1 (linit (map (@concat ev) progs)) sched) = false.
Proof. exact head_lock_order_acyclic. Qed.
Print Assumptions C19_lock_order_acyclic.

(** before the fixes: `notify_subs` marking subscribers under `inner.read()` deadlocks with an
    effect re-running on another thread (F-C19-c, fixed in /repo) *)
Theorem C19_lock_order_notify_subs_prefix_refuted :
  exists sched, deadlocked (lrun1 (linit [e_rerun_sd; d_complete_prefix]) sched) = true.
Proof. exact notify_subs_prefix_deadlocks. Qed.
Print Assumptions C19_lock_order_notify_subs_prefix_refuted.

(** with the subscribers of a memo walked under `reactivity.read()` (one site of the memo fix
    reverted) the writer of s and the effect re-running on another thread deadlock *)
Theorem C19_lock_order_memo_mark_prefix_refuted :
  exists sched, deadlocked (lrun1 (linit [e_rerun_mt; s_set_me_prefix]) sched) = true.
Proof. exact memo_mark_prefix_cross_thread_deadlock. Qed.
Print Assumptions C19_lock_order_memo_mark_prefix_refuted.

(** before the memo fix (F-C02-b, fixed in /repo by another check): a single thread writing a
    signal whose memo has an ImmediateEffect subscriber deadlocks with itself; with the
    current scopes the same operation completes *)
Theorem C19_no_self_deadlock_memo_prefix_refuted :
  deadlocked (lrun1 (linit [s_set_immediate_prefix]) (repeat 0%nat 40%nat)) = true
  /\ deadlocked (lrun1 (linit [s_set_immediate_head]) (repeat 0%nat 40%nat)) = false
  /\ map l_finished (lrun1 (linit [s_set_immediate_head]) (repeat 0%nat 40%nat)) = [true].
Proof. exact memo_immediate_prefix_self_deadlock. Qed.
Print Assumptions C19_no_self_deadlock_memo_prefix_refuted.

(** signal writes from any number of threads are linearizable: for every schedule the value is
    the result of executing the writes one after the other in the order they took the lock;
    per thread that order is the program order; when all threads have finished it contains all
    writes — the final value is that of some sequential order of the writes *)
Theorem C19_linearizable_final_values :
  forall (progs : list (list op)) (sched : list nat),
    let s := mrun (minit progs) sched in
    m_sv s = replay progs (m_order s)
    /\ (forall j x, nth_error (m_thr s) j = Some x ->
          exists p, nth_error progs j = Some p /\ proj j (m_order s) = widx p (nw x))
    /\ (mterminal s ->
        forall j p, nth_error progs j = Some p -> proj j (m_order s) = all_writes p).
Proof. exact linearizable_final_values. Qed.
Print Assumptions C19_linearizable_final_values.

(** OPEN, design limitation F-C19-b: a write marks its subscribers one after the other; an
    effect woken by the first mark runs on another thread and reads a new memo with a stale
    one: (a, b) = (3, 2) for a = s + 1, b = s * 2 *)
Theorem C19_no_glitch_across_threads_refuted :
  exists vals sched, existsb (fun p => negb (consistent p)) (g_log (grun (ginit vals) sched)) = true.
Proof. exact no_glitch_across_threads_refuted. Qed.
Print Assumptions C19_no_glitch_across_threads_refuted.

(** … and only then: in every schedule in which the effect's task is never polled in the middle
    of a notification, every run of the effect sees values of one single state of s *)
Theorem C19_no_glitch_across_threads_except_known :
  forall (vals : list Z) (sched : list nat),
    has_mid_poll (ginit vals) sched = false ->
    forallb consistent (g_log (grun (ginit vals) sched)) = true.
Proof. exact no_glitch_except_mid_notification. Qed.
Print Assumptions C19_no_glitch_across_threads_except_known.

(** OPEN, design limitation F-C19-d: a memo recomputation that overlaps a write on another
    thread stores a value computed from the old signal and marks the memo Clean: the final memo
    value is not the function of the final signal value *)
Theorem C19_memo_final_value_refuted :
  exists progs sched,
    let s := mrun (minit progs) sched in
    forallb thr_finished (m_thr s) = true /\ final_pull s <> F (m_sv s).
Proof. exact memo_final_value_refuted. Qed.
Print Assumptions C19_memo_final_value_refuted.

(** OPEN, design limitation F-C19-e: two overlapping pulls leave a Clean memo with its value
    taken; the next read panics *)
Theorem C19_memo_pull_total_refuted :
  exists progs sched, existsb t_panic (m_thr (mrun (minit progs) sched)) = true.
Proof. exact memo_pull_panic_refuted. Qed.
Print Assumptions C19_memo_pull_total_refuted.

(** OPEN, design limitation F-C19-f: `Plain::try_new` takes the value lock with the
    non-blocking `try_read`; a read that coincides with a write on another thread yields `None`
    and `get()` panics ("already been disposed"), which ends the reading effect's task *)
Theorem C19_signal_read_total_refuted : exists sched, r_r (rrun rinit sched) = RPanic.
Proof. exact signal_read_total_refuted. Qed.
Print Assumptions C19_signal_read_total_refuted.

(** … and only then: a read outside the write's critical section returns the value before or
    after the write *)
Theorem C19_signal_read_total_except_known :
  forall sched, read_under_write rinit sched = false ->
    r_r (rrun rinit sched) <> RPanic
    /\ forall v, r_r (rrun rinit sched) = RDone v -> (v = 1 \/ v = 2)%Z.
Proof. exact signal_read_total_except_contended. Qed.
Print Assumptions C19_signal_read_total_except_known.

(** read guards and synchronous reads of an async derived value overlapping the completion of
    a reload (the value's task suspends instead of parking its thread; a synchronous read that
    meets the write lock blocks and then returns the new value): BOUNDED sweep by computation,
    two threads, every schedule of at most 12 slots *)
Theorem C19_guard_vs_reload_bounded :
  forall sched, (length sched <= 12)%nat -> Forall (fun t => (t < 2)%nat) sched ->
    (h_quiet (hrun hinit sched) = true -> h_good (hrun hinit sched) = true)
    /\ (d_quiet (drun dinit sched) = true -> d_good (drun dinit sched) = true).
Proof. exact guard_vs_reload_bounded. Qed.
Print Assumptions C19_guard_vs_reload_bounded.

(** awaiting an async derived value while a user holds its write guard (`d.write()`) on another
    thread: for every kind of future and every schedule the awaiter resumes with the value before
    or after the write (repaired code: the `(_, Pending)` arm wakes itself) *)
Theorem C19_await_vs_write_guard :
  forall kind sched, let s := wrun true kind winit sched in
    w_terminal s -> exists v, w_a s = UDone v /\ (v = 1 \/ v = 7)%Z.
Proof. exact await_vs_write_guard. Qed.
Print Assumptions C19_await_vs_write_guard.

(** before the fix the awaiter returned Pending with nothing registered: F-C19-g, fixed in /repo *)
Theorem C19_await_vs_write_guard_prefix_refuted :
  exists sched, let s := wrun false 1 winit sched in
    w_terminal s /\ w_a s = UParked false.
Proof. exact await_vs_write_guard_prefix_refuted. Qed.
Print Assumptions C19_await_vs_write_guard_prefix_refuted.
