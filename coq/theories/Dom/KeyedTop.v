(** C11, top level: one [rebuild] of a keyed list and histories of rebuilds. *)
From Coq Require Import List NArith ZArith Bool Arith Lia Sorted Permutation.
From LV Require Import Dom.Dom Dom.DomProofs Dom.Keyed Dom.KeyedLemmas Dom.KeyedDiffProofs
                       Dom.KeyedRender Dom.KeyedProofs.
Import ListNotations.

(** what one [apply_diff] must achieve, on its final working state [w] *)
Definition apply_props (pre post : list node) (mk : node) (to : list N) (its : list item)
                       (next : N) (gen : nat) (w : work) : Prop :=
  let items' := somes (w_children w) in
  w_panic w = false /\ map it_key items' = to /\
  w_dom w = pre ++ flat_map it_nodes items' ++ mk :: post /\
  wf_items pre post mk (w_next w) items' /\ (next <= w_next w)%N /\ gen <= w_gen w /\
  (forall it, In it its -> In (it_key it) to -> In it items') /\
  (forall it, In it items' -> In it its \/
     (gen <= it_gen it /\ forall n, In n (it_nodes it) -> (next <= n)%N)) /\
  (forall it, In it its -> ~ In (it_key it) to -> In (EvUnmount (it_key it) (it_gen it)) (w_log w)) /\
  NoDup (built (w_log w)) /\
  (forall k, In k (built (w_log w)) <-> In k to /\ ~ In k (map it_key its)) /\
  (forall k g i, In (EvSetIndex k g i) (w_log w) ->
     exists it, In it its /\ it_key it = k /\ it_gen it = g /\ index_of k to = Some i) /\
  (forall it i j, nth_error its i = Some it -> index_of (it_key it) to = Some j -> i <> j ->
     In (EvSetIndex (it_key it) (it_gen it) j) (w_log w)).

Definition start (pre post : list node) (mk : node) (its : list item) (next : N) (gen : nat) : work :=
  {| w_children := map Some its; w_dom := pre ++ flat_map it_nodes its ++ mk :: post;
     w_log := []; w_next := next; w_gen := gen; w_panic := false |}.

(* ------------------------------------------------------------ from the empty list *)

Definition normal_adds (s n : nat) : list addop := map (fun i => {| a_at := i; a_mode := Normal |}) (seq s n).
Definition append_adds (s n : nat) : list addop := map (fun i => {| a_at := i; a_mode := Append |}) (seq s n).

Lemma nth_error_nil : forall {A} i, nth_error (@nil A) i = None.
Proof. destruct i; reflexivity. Qed.

Lemma diff_loop_from_empty : forall to n index na,
  index + n = length to ->
  diff_loop [] to n index na 0 None = ([], [], normal_adds index n).
Proof.
  intros to n. induction n as [|n IH]; intros index na H; [reflexivity|].
  cbn [diff_loop]. rewrite nth_error_nil.
  destruct (nth_error to index) as [t|] eqn:Et.
  2:{ apply nth_error_None in Et. lia. }
  cbn [opt_eqb]. unfold it_rem, it_add, it_move. rewrite nth_error_nil, Et. cbn [memN existsb negb it_kept].
  rewrite IH by lia. reflexivity.
Qed.

Lemma somes_all_none : forall (c : list (option item)) s,
  (forall j it, s <= j -> nth_error c j <> Some (Some it)) -> somes (skipn s c) = [].
Proof.
  induction c as [|o c IH]; intros s H; [destruct s; reflexivity|].
  destruct s as [|s].
  - cbn [skipn]. destruct o as [it|].
    + exfalso. apply (H 0 it); auto.
    + cbn [somes]. apply (IH 0). intros j it Hj. apply (H (S j) it). lia.
  - cbn [skipn]. apply IH. intros j it Hj. apply (H (S j) it). lia.
Qed.

Lemma fold_append_normal : forall (m : builder) mk items n s w,
  (forall j it, s <= j -> nth_error (w_children w) j <> Some (Some it)) ->
  fold_left (step_add m mk items) (append_adds s n) w
  = fold_left (step_add m mk items) (normal_adds s n) w.
Proof.
  intros m mk items n. induction n as [|n IH]; intros s w H; [reflexivity|].
  unfold append_adds, normal_adds in *. cbn [seq map fold_left].
  assert (step_add m mk items w {| a_at := s; a_mode := Append |}
          = step_add m mk items w {| a_at := s; a_mode := Normal |}) as E.
  { unfold step_add. cbn [a_at a_mode]. unfold mount_at, next_mounted.
    rewrite (somes_all_none _ s H). reflexivity. }
  rewrite E. apply IH. intros j it Hj.
  unfold step_add. cbn [a_at a_mode]. destruct (w_panic w); [apply H; lia|].
  destruct (nth_error items s); [|cbn [panic w_children]; apply H; lia].
  destruct (s <? length (w_children w)); [|cbn [panic w_children]; apply H; lia].
  cbn [w_children]. rewrite nth_set_nth_neq by lia. apply H. lia.
Qed.

Lemma wf_sibs : forall pre post mk next its, wf_items pre post mk next its ->
  wf_items pre post mk next [].
Proof.
  intros pre post mk next its H. pose proof (good_of_wf _ _ _ _ _ H) as G. destruct H as [Hk Hd Hne Hfr].
  constructor; simpl.
  - constructor.
  - exact (g_sibs _ _ _ _ _ G).
  - intros it [].
  - intros n Hn. apply Hfr. rewrite !in_app_iff in *. simpl in *. tauto.
Qed.

(* ------------------------------------------------------------------------ clear *)

Lemma fold_step_clear : forall its w,
  let w' := fold_left step_clear (map Some its) w in
  w_children w' = w_children w /\
  w_dom w' = fold_left (fun d it => unmount_item it d) its (w_dom w) /\
  w_log w' = w_log w ++ map (fun it => EvUnmount (it_key it) (it_gen it)) its /\
  w_next w' = w_next w /\ w_gen w' = w_gen w /\ w_panic w' = w_panic w.
Proof.
  induction its as [|it its IH]; intros w; cbv zeta.
  - simpl. rewrite app_nil_r. repeat split; auto.
  - cbn [map fold_left]. destruct (IH (step_clear w (Some it))) as [C [D [L [Nx [G P]]]]].
    rewrite C, D, L, Nx, G, P. cbn [step_clear w_children w_dom w_log w_next w_gen w_panic map].
    rewrite <- app_assoc. repeat split; auto.
Qed.

Lemma unmount_all : forall pre post mk next its,
  wf_items pre post mk next its ->
  fold_left (fun d it => unmount_item it d) its (pre ++ flat_map it_nodes its ++ mk :: post)
  = pre ++ mk :: post.
Proof.
  intros pre post mk next its Hwf. pose proof (good_of_wf _ _ _ _ _ Hwf) as G.
  set (dummy := {| it_key := 0%N; it_gen := 0; it_nodes := [] |}).
  set (item_at := fun i => nth i its dummy).
  assert (its = map item_at (seq 0 (length its))) as E by (symmetry; apply list_map_nth).
  assert (forall l d, fold_left (fun d it => unmount_item it d) (map item_at l) d
                      = fold_left (fun d i => unmount_item (item_at i) d) l d) as Hf.
  { induction l as [|i l IHl]; intros d; [reflexivity|]. cbn [map fold_left]. apply IHl. }
  rewrite E at 1. rewrite Hf.
  assert (pre ++ flat_map it_nodes its ++ mk :: post
          = render (nodes_in its) pre post mk (map it_key its)) as ->.
  { unfold render. rewrite flat_nodes_in; auto. exact (wf_keys _ _ _ _ _ Hwf). }
  rewrite (render_unmount_all pre post mk (nodes_in its) (map it_key its) item_at); auto.
  - assert (map (fun i => it_key (item_at i)) (seq 0 (length its)) = map it_key its) as ->.
    { rewrite <- (map_map item_at it_key). rewrite <- E. reflexivity. }
    rewrite diffl_self. reflexivity.
  - intros i Hi. apply in_seq in Hi.
    assert (In (item_at i) its) as Hin by (unfold item_at; apply nth_In; lia).
    split; [apply in_map; auto|]. apply nodes_in_item; auto. exact (wf_keys _ _ _ _ _ Hwf).
Qed.

(* ----------------------------------------------------- apply_diff (diff from to), all cases *)

Lemma built_unmounts : forall its, built (map (fun it => EvUnmount (it_key it) (it_gen it)) its) = [].
Proof. intros. apply built_nil. intros e He. apply in_map_iff in He. destruct He as [it [<- _]]. exact I. Qed.

Lemma diff_from_empty : forall to,
  d_clear (diff [] to) = false /\ d_removed (diff [] to) = [] /\
  d_added (diff [] to) = append_adds 0 (length to) /\
  unpack_moves (diff [] to) = ([], append_adds 0 (length to)).
Proof.
  intros to. destruct to as [|t0 to'].
  - repeat split; reflexivity.
  - repeat split; try reflexivity.
    unfold diff, unpack_moves. cbn [d_items_to_move d_added d_removed d_moved].
    rewrite unpack_loop_spec; [reflexivity|constructor|]. cbn [total fold_right length]. lia.
Qed.

Theorem apply_diff_props : forall pre post mk to (m : builder) its next gen,
  bld_ok m -> wf_items pre post mk next its -> NoDup to ->
  apply_props pre post mk to its next gen
    (apply_diff m mk (diff (map it_key its) to) to (start pre post mk its next gen)).
Proof.
  intros pre post mk to m its next gen Hm Hwf Hto.
  destruct its as [|it0 its'] eqn:Eits.
  - (* from the empty list: every key is appended *)
    set (n := length to).
    assert (diff_loop [] to (Nat.max (length (@nil N)) (length to)) 0 0 0 None = ([], [], normal_adds 0 n)) as El.
    { cbn [length Nat.max]. apply diff_loop_from_empty. reflexivity. }
    pose proof (diff_loop_spec [] to Hto (Nat.max (length (@nil N)) (length to)) 0 0 0 None _ _ _
                  (Nat.le_refl _) El) as LS.
    pose proof (apply_general_props pre post mk to m Hm [] next gen Hwf Hto _ _ _ LS) as P.
    cbv zeta in P. unfold apply_props. cbv zeta. cbn [map] in *.
    assert (apply_diff m mk (diff [] to) to (start pre post mk [] next gen)
            = apply_general mk m [] [] (normal_adds 0 n) to (start pre post mk [] next gen)) as ->; [|exact P].
    destruct (diff_from_empty to) as [F1 [F2 [F3 F4]]]. fold n in F3, F4.
    rewrite (apply_diff_general mk m _ [] [] (append_adds 0 n)); auto.
    unfold apply_general. cbn [fold_left enumerate_from]. unfold append_adds, normal_adds.
    rewrite !map_length. fold (append_adds 0 n). fold (normal_adds 0 n).
    rewrite fold_append_normal; [reflexivity|].
    intros j it _ Hc. cbn [with_children w_children start map app] in Hc.
    apply nth_error_In in Hc. apply repeat_spec in Hc. discriminate.
  - destruct to as [|t0 to'] eqn:Eto.
    + (* clear *)
      rewrite <- Eits in *. assert (diff (map it_key its) [] =
        {| d_removed := []; d_moved := []; d_items_to_move := 0; d_added := []; d_clear := true |}) as ->.
      { rewrite Eits. reflexivity. }
      unfold apply_diff. cbn [d_clear d_added andb].
      destruct (fold_step_clear its (start pre post mk its next gen)) as [C [D [L [Nx [G P]]]]].
      cbn [start w_children] in C, D, L, Nx, G, P |- *.
      unfold apply_props. cbv zeta. cbn [with_children w_children w_dom w_log w_next w_gen w_panic somes map flat_map].
      rewrite D, L, Nx, G, P. cbn [start w_dom w_log w_next w_gen w_panic app].
      rewrite (unmount_all pre post mk next its Hwf). rewrite built_unmounts.
      split; [reflexivity|]. split; [reflexivity|]. split; [reflexivity|].
      split; [eapply wf_sibs; eauto|]. split; [lia|]. split; [lia|].
      split; [intros it _ []|]. split; [intros it []|].
      split; [intros it Hit _; apply in_map_iff; exists it; auto|].
      split; [constructor|]. split; [intros k; split; [intros []|intros [[] _]]|].
      split.
      * intros k g i Hc. apply in_map_iff in Hc. destruct Hc as [it [E _]]. discriminate.
      * intros it i j _ Hc. discriminate.
    + (* the general case *)
      rewrite <- Eits, <- Eto in *.
      assert (map it_key its <> []) as Hf by (rewrite Eits; discriminate).
      assert (to <> []) as Ht by (rewrite Eto; discriminate).
      destruct (diff_loop (map it_key its) to (Nat.max (length (map it_key its)) (length to)) 0 0 0 None)
        as [[r ms] a] eqn:El.
      pose proof (diff_loop_spec (map it_key its) to Hto
                    (Nat.max (length (map it_key its)) (length to)) 0 0 0 None _ _ _
                    (Nat.le_refl _) El) as LS.
      assert (Forall (fun mv => m_len mv = 1) ms) as Hl.
      { eapply Forall_impl; [|exact (ls_mv_ok _ _ _ _ _ _ _ _ LS)]. intros mv [H _]. exact H. }
      destruct (unpack_diff _ _ _ _ _ Hf Ht El Hl) as [U1 [U2 [U3 U4]]].
      rewrite (apply_diff_general mk m _ r ms a); auto.
      exact (apply_general_props pre post mk to m Hm its next gen Hwf Hto _ _ _ LS).
Qed.

(* --------------------------------------------------------------------- rebuild *)

(** the invariant of a mounted keyed list between updates: [hashed_items] are the keys
    of [rendered_items], and the parent's children are
    [pre ++ (nodes of the items, in order) ++ marker :: post] without repetition *)
Definition st_wf (pre post : list node) (st : kstate) : Prop :=
  bld_ok (ks_bld st) /\ map it_key (ks_items st) = ks_keys st /\
  ks_dom st = pre ++ flat_map it_nodes (ks_items st) ++ ks_marker st :: post /\
  wf_items pre post (ks_marker st) (ks_next st) (ks_items st).

(** C11 for one update of a mounted keyed list [st] to the keys [to] *)
Definition keyed_ok (pre post : list node) (st : kstate) (to : list N) : Prop :=
  let '(st', log, panicked) := rebuild st to in
  panicked = false /\
  (* the children end in the new order; siblings and marker untouched *)
  ks_dom st' = pre ++ flat_map it_nodes (ks_items st') ++ ks_marker st :: post /\
  map it_key (ks_items st') = to /\
  (* common keys keep their item (same nodes, same state) *)
  (forall it, In it (ks_items st) -> In (it_key it) to -> In it (ks_items st')) /\
  (* removed keys are unmounted and their nodes are gone *)
  (forall it, In it (ks_items st) -> ~ In (it_key it) to ->
     In (EvUnmount (it_key it) (it_gen it)) log /\
     forall n, In n (it_nodes it) -> ~ In n (ks_dom st')) /\
  (* exactly the new keys are built, each once, from fresh nodes *)
  NoDup (built log) /\
  (forall k, In k (built log) <-> In k to /\ ~ In k (ks_keys st)) /\
  (forall it, In it (ks_items st') -> In it (ks_items st) \/
     (ks_gen st <= it_gen it /\ forall n, In n (it_nodes it) -> ~ In n (ks_dom st))) /\
  (* every set_index call tells an item its new index, and every item whose index changed gets one *)
  (forall k g i, In (EvSetIndex k g i) log ->
     exists it, In it (ks_items st) /\ it_key it = k /\ it_gen it = g /\ index_of k to = Some i) /\
  (forall it i j, nth_error (ks_items st) i = Some it -> index_of (it_key it) to = Some j -> i <> j ->
     In (EvSetIndex (it_key it) (it_gen it) j) log) /\
  (* and the invariant holds again *)
  st_wf pre post st'.

Theorem keyed_rebuild_ok : forall pre post st to,
  st_wf pre post st -> NoDup to -> keyed_ok pre post st to.
Proof.
  intros pre post st to [Hm [Hk [Hd Hwf]]] Hto. unfold keyed_ok, rebuild.
  pose proof (apply_diff_props pre post (ks_marker st) to (ks_bld st) (ks_items st) (ks_next st) (ks_gen st)
                Hm Hwf Hto) as P.
  unfold start in P. rewrite <- Hd, Hk in P.
  set (w := apply_diff (ks_bld st) (ks_marker st) (diff (ks_keys st) to) to _) in *.
  destruct P as [P1 [P2 [P3 [P4 [P5 [P6 [P7 [P8 [P9 [P10 [P11 [P12 P13]]]]]]]]]]]].
  cbn [ks_dom ks_items ks_keys ks_marker ks_bld ks_next ks_gen].
  assert (forall n, In n (ks_dom st) -> (n < ks_next st)%N) as Hfresh.
  { intros n Hn. rewrite Hd in Hn. exact (wf_fresh _ _ _ _ _ Hwf n Hn). }
  split; [exact P1|]. split; [exact P3|]. split; [exact P2|]. split; [exact P7|].
  split; [|split; [exact P10|split; [rewrite <- Hk; exact P11|split; [|split; [exact P12|split; [exact P13|]]]]]].
  - (* removed items *)
    intros it Hit Hn. split; [apply P9; auto|]. intros n Hnn Hc. rewrite P3 in Hc.
    assert (In n (ks_dom st)) as Hold.
    { rewrite Hd. apply in_or_app. right. apply in_or_app. left. apply in_flat_map. eauto. }
    pose proof (wf_dom _ _ _ _ _ Hwf) as Hnd. rewrite <- Hd in Hnd.
    assert (forall x, In x (pre ++ ks_marker st :: post) -> x <> n) as Hsib.
    { intros x Hx E. subst x. pose proof (good_of_wf _ _ _ _ _ Hwf) as G.
      eapply (g_sib _ _ _ _ _ G (it_key it) n); eauto.
      - apply in_map. auto.
      - rewrite nodes_in_item; auto. exact (wf_keys _ _ _ _ _ Hwf). }
    rewrite !in_app_iff in Hc. destruct Hc as [Hc|[Hc|Hc]].
    + apply (Hsib n); auto. apply in_or_app. left. auto.
    + apply in_flat_map in Hc. destruct Hc as [it' [Hit' Hn']].
      destruct (P8 it' Hit') as [Ho|[_ Hf]].
      * pose proof (good_of_wf _ _ _ _ _ Hwf) as G.
        assert (it_key it' <> it_key it) as Hne.
        { intro E. apply Hn. rewrite <- E. rewrite <- P2. apply in_map. auto. }
        eapply (g_disj _ _ _ _ _ G (it_key it') (it_key it) n); eauto.
        -- apply in_map. auto.
        -- apply in_map. auto.
        -- rewrite nodes_in_item; auto. exact (wf_keys _ _ _ _ _ Hwf).
        -- rewrite nodes_in_item; auto. exact (wf_keys _ _ _ _ _ Hwf).
      * specialize (Hf n Hn'). specialize (Hfresh n Hold). lia.
    + apply (Hsib n); auto. apply in_or_app. right. auto.
  - (* new items are made of fresh nodes *)
    intros it Hit. destruct (P8 it Hit) as [Ho|[Hg Hf]]; auto. right. split; auto.
    intros n Hn Hc. specialize (Hf n Hn). specialize (Hfresh n Hc). lia.
  - (* the invariant *)
    unfold st_wf. cbn [ks_dom ks_items ks_keys ks_marker ks_bld ks_next ks_gen]. auto.
Qed.

(* ------------------------------------------------------------------- histories *)

Definition state_after (st : kstate) (to : list N) : kstate := fst (fst (rebuild st to)).

(** every update in a chain of updates satisfies C11, from the state the chain reached *)
Fixpoint history_ok (pre post : list node) (st : kstate) (tos : list (list N)) : Prop :=
  match tos with
  | [] => True
  | to :: rest => keyed_ok pre post st to /\ history_ok pre post (state_after st to) rest
  end.

Theorem keyed_history_ok : forall pre post tos st,
  st_wf pre post st -> Forall (@NoDup N) tos -> history_ok pre post st tos.
Proof.
  intros pre post tos. induction tos as [|to tos IH]; intros st Hwf Hnd; [exact I|].
  inversion Hnd; subst. pose proof (keyed_rebuild_ok pre post st to Hwf H1) as Hok.
  split; [exact Hok|]. apply IH; auto. unfold state_after. unfold keyed_ok in Hok.
  destruct (rebuild st to) as [[st' log] p]. cbn [fst]. tauto.
Qed.

(* ------------------------------------------------ named special cases (corollaries) *)

Corollary keyed_ok_same : forall pre post st,
  st_wf pre post st -> keyed_ok pre post st (ks_keys st).
Proof.
  intros pre post st H. apply keyed_rebuild_ok; auto. destruct H as [_ [Hk [_ Hwf]]].
  rewrite <- Hk. exact (wf_keys _ _ _ _ _ Hwf).
Qed.

Corollary keyed_ok_clear : forall pre post st, st_wf pre post st -> keyed_ok pre post st [].
Proof. intros. apply keyed_rebuild_ok; auto. constructor. Qed.

Corollary keyed_ok_reverse : forall pre post st,
  st_wf pre post st -> keyed_ok pre post st (rev (ks_keys st)).
Proof.
  intros pre post st H. apply keyed_rebuild_ok; auto. destruct H as [_ [Hk [_ Hwf]]].
  rewrite <- Hk. apply NoDup_rev. exact (wf_keys _ _ _ _ _ Hwf).
Qed.

Corollary keyed_ok_append : forall pre post st extra,
  st_wf pre post st -> NoDup (ks_keys st ++ extra) -> keyed_ok pre post st (ks_keys st ++ extra).
Proof. intros. apply keyed_rebuild_ok; auto. Qed.

Corollary keyed_ok_remove_only : forall pre post st (keep : N -> bool),
  st_wf pre post st -> keyed_ok pre post st (filter keep (ks_keys st)).
Proof.
  intros pre post st keep H. apply keyed_rebuild_ok; auto. destruct H as [_ [Hk [_ Hwf]]].
  apply NoDup_filter. rewrite <- Hk. exact (wf_keys _ _ _ _ _ Hwf).
Qed.

(* ------------------------------------------------------- the initial build + mount *)

Lemma fold_step_build : forall b ks i w,
  let w' := fold_left (step_build b) (enumerate_from i ks) w in
  w_children w' = w_children w ++ map Some (build_items b ks (w_next w) (w_gen w)) /\
  w_dom w' = w_dom w /\ w_next w' = build_next b ks (w_next w) /\
  w_gen w' = w_gen w + length ks /\ w_panic w' = w_panic w.
Proof.
  induction ks as [|k ks IH]; intros i w; cbv zeta.
  - simpl. rewrite app_nil_r, Nat.add_0_r. repeat split; auto.
  - cbn [enumerate_from fold_left]. destruct (IH (S i) (step_build b w (i, k))) as [C [D [Nx [G P]]]].
    rewrite C, D, Nx, G, P. cbn [step_build w_children w_dom w_next w_gen w_panic build_items build_next map length].
    unfold build_item. rewrite <- app_assoc. cbn [app]. repeat split; auto; lia.
Qed.

Lemma insert_before_fresh_end : forall n l, ~ In n l -> insert_before n None l = l ++ [n].
Proof. intros. unfold insert_before. rewrite remove_node_notin; auto. Qed.

Lemma mount_fresh : forall (ns : list node) anchor (L R : list node),
  NoDup ns -> (forall n, In n ns -> ~ In n (L ++ R)) ->
  (anchor = hd_error R) -> (forall a, anchor = Some a -> ~ In a L) ->
  fold_left (fun d n => insert_before n anchor d) ns (L ++ R) = L ++ ns ++ R.
Proof.
  intros ns anchor L R Hnd Hfresh Ha HaL. destruct R as [|a R]; cbn [hd_error] in Ha; subst anchor.
  - rewrite !app_nil_r in *. clear HaL. revert L Hfresh. induction ns as [|n ns IH]; intros L Hf.
    + rewrite app_nil_r. reflexivity.
    + inversion Hnd; subst. cbn [fold_left]. rewrite insert_before_fresh_end by (apply Hf; left; auto).
      rewrite IH; auto.
      * rewrite <- app_assoc. reflexivity.
      * intros x Hx Hc. apply in_app_or in Hc. destruct Hc as [Hc|[Hc|[]]].
        -- eapply Hf; eauto. right. auto.
        -- subst. contradiction.
  - rewrite mount_block; auto.
    + rewrite !diffl_disjoint; auto.
      * intros y Hy Hc. apply (Hfresh y Hc). apply in_or_app. right. right. auto.
      * intros y Hy Hc. apply (Hfresh y Hc). apply in_or_app. left. auto.
    + intro Hc. apply (Hfresh a Hc). apply in_or_app. right. left. auto.
Qed.

Lemma mount_all : forall (pre post : list node) l done dom,
  dom = pre ++ flat_map it_nodes done ++ post ->
  NoDup (flat_map it_nodes (done ++ l)) ->
  (forall n, In n (flat_map it_nodes (done ++ l)) -> ~ In n (pre ++ post)) ->
  NoDup (pre ++ post) ->
  fold_left (fun d it => mount_item it (hd_error post) d) l dom
  = pre ++ flat_map it_nodes (done ++ l) ++ post.
Proof.
  intros pre post. induction l as [|it l IH]; intros done dom Hd Hn Hf Hnd.
  - rewrite app_nil_r. exact Hd.
  - cbn [fold_left].
    assert (done ++ it :: l = (done ++ [it]) ++ l) as E by (rewrite <- app_assoc; reflexivity).
    rewrite E in *. apply IH; auto.
    rewrite flat_map_app in Hn, Hf. rewrite flat_map_app in Hn, Hf. cbn [flat_map] in Hn, Hf.
    rewrite app_nil_r in Hn, Hf.
    unfold mount_item. rewrite Hd.
    replace (pre ++ flat_map it_nodes done ++ post) with ((pre ++ flat_map it_nodes done) ++ post)
      by (rewrite <- app_assoc; reflexivity).
    rewrite mount_fresh; auto.
    + rewrite flat_map_app. cbn [flat_map]. rewrite app_nil_r, <- !app_assoc. reflexivity.
    + apply NoDup_app_l in Hn. apply NoDup_app_r in Hn. exact Hn.
    + intros n Hin Hc. rewrite <- app_assoc in Hc. rewrite !in_app_iff in Hc.
      destruct Hc as [Hc|[Hc|Hc]].
      * apply (Hf n); [|apply in_or_app; left; auto]. rewrite !in_app_iff. auto.
      * apply NoDup_app_l in Hn. eapply NoDup_app_disj; [exact Hn | exact Hc | exact Hin].
      * apply (Hf n); [|apply in_or_app; right; auto]. rewrite !in_app_iff. auto.
    + intros a Ea Hc. destruct post as [|p post']; [discriminate|]. inversion Ea. subst a.
      apply in_app_or in Hc. destruct Hc as [Hc|Hc].
      * apply NoDup_remove_2 in Hnd. apply Hnd. apply in_or_app. left. auto.
      * apply (Hf p); [|apply in_or_app; right; left; auto]. rewrite !in_app_iff. auto.
Qed.

Lemma fold_step_mount : forall anchor l w,
  let w' := fold_left (step_mount anchor) l w in
  w_dom w' = fold_left (fun d it => mount_item it anchor d) l (w_dom w) /\
  w_children w' = w_children w /\ w_next w' = w_next w /\ w_gen w' = w_gen w.
Proof.
  intros anchor. induction l as [|it l IH]; intros w; cbv zeta; [auto|].
  cbn [fold_left]. destruct (IH (step_mount anchor w it)) as [A [B [C D]]].
  rewrite A, B, C, D. cbn [step_mount w_dom w_children w_next w_gen]. auto.
Qed.

(** [keyed(keys).build()] mounted before the first following sibling (or appended) gives a
    well-formed state: the starting point of every history *)
Theorem build_mount_wf : forall (m : builder) (pre post : list node) next keys,
  bld_ok m -> NoDup keys -> NoDup (pre ++ post) -> (forall n, In n (pre ++ post) -> (n < next)%N) ->
  st_wf pre post (fst (build_mount m (pre ++ post) (hd_error post) next keys)) /\
  ks_keys (fst (build_mount m (pre ++ post) (hd_error post) next keys)) = keys.
Proof.
  intros m pre post next keys Hm Hk Hnd Hfr. unfold build_mount.
  set (w0 := {| w_children := []; w_dom := pre ++ post; w_log := []; w_next := next; w_gen := 0; w_panic := false |}).
  destruct (fold_step_build m keys 0 w0) as [C [D [Nx [G P]]]].
  subst w0.
  match type of C with w_children ?x = _ => set (w1 := x) in * end.
  cbn [w_children w_dom w_next w_gen w_panic app] in C, D, Nx, G, P.
  set (items := build_items m keys next 0) in *.
  set (nx' := build_next m keys next) in *.
  assert (somes (w_children w1) = items) as Hs by (rewrite C; apply somes_map_Some).
  rewrite Hs.
  destruct (build_items_range m keys next 0 Hm) as [Hfnd [Hrange Hle]]. fold items in Hfnd, Hrange. fold nx' in Hrange, Hle.
  destruct (fold_step_mount (hd_error post) items w1) as [M1 [M2 [M3 M4]]].
  set (w2 := fold_left (step_mount (hd_error post)) items w1) in *.
  rewrite D in M1. rewrite (mount_all pre post items [] (pre ++ post)) in M1; auto.
  2:{ intros n Hn Hc. apply Hrange in Hn. apply Hfr in Hc. lia. }
  cbn [app] in M1.
  assert (somes (w_children w2) = items) as Hs2 by (rewrite M2; exact Hs).
  rewrite Hs2, M1, M4, G. set (mk := w_next w1).
  assert (mk = nx') as Emk by exact Nx.
  (* the marker goes in last *)
  assert (insert_before mk (hd_error post) (pre ++ flat_map it_nodes items ++ post)
          = pre ++ flat_map it_nodes items ++ mk :: post) as Hmk.
  { pose proof (mount_fresh [mk] (hd_error post) (pre ++ flat_map it_nodes items) post) as Hm1.
    cbn [fold_left] in Hm1. rewrite <- !app_assoc in Hm1. cbn [app] in Hm1. apply Hm1; auto.
    - constructor; [intros []|constructor].
    - intros n [E|[]] Hc. subst n. rewrite !in_app_iff in Hc. destruct Hc as [Hc|[Hc|Hc]].
      + assert (mk < next)%N by (apply Hfr; apply in_or_app; auto). lia.
      + apply Hrange in Hc. lia.
      + assert (mk < next)%N by (apply Hfr; apply in_or_app; auto). lia.
    - intros a Ea Hc. destruct post as [|p post']; [discriminate|]. inversion Ea. subst a.
      apply in_app_or in Hc. destruct Hc as [Hc|Hc].
      + apply NoDup_remove_2 in Hnd. apply Hnd. apply in_or_app. left. auto.
      + apply Hrange in Hc. assert (p < next)%N by (apply Hfr; apply in_or_app; right; left; auto). lia. }
  rewrite Hmk. cbn [fst ks_bld ks_dom ks_marker ks_keys ks_items ks_next ks_gen].
  split; [|reflexivity]. unfold st_wf. cbn [ks_bld ks_dom ks_marker ks_keys ks_items ks_next ks_gen].
  split; [exact Hm|]. split; [apply build_items_keys|]. split; [reflexivity|].
  constructor.
  - unfold items. rewrite build_items_keys. exact Hk.
  - eapply Permutation_NoDup with (l := mk :: (flat_map it_nodes items ++ pre) ++ post).
    + eapply perm_trans; [apply Permutation_middle|]. rewrite <- app_assoc.
      apply Permutation_app_swap_app.
    + rewrite <- app_assoc. constructor.
      * intro Hc. rewrite !in_app_iff in Hc. destruct Hc as [Hc|[Hc|Hc]].
        -- apply Hrange in Hc. lia.
        -- assert (mk < next)%N by (apply Hfr; apply in_or_app; auto). lia.
        -- assert (mk < next)%N by (apply Hfr; apply in_or_app; auto). lia.
      * apply NoDup_app_intro; auto. intros n Hn Hc. apply Hrange in Hn. apply Hfr in Hc. lia.
  - intros it Hit. eapply build_items_nonempty; eauto.
  - intros n Hn. rewrite !in_app_iff in Hn. cbn [In] in Hn. destruct Hn as [Hn|[Hn|[Hn|Hn]]].
    + assert (n < next)%N by (apply Hfr; apply in_or_app; auto). lia.
    + apply Hrange in Hn. lia.
    + lia.
    + assert (n < next)%N by (apply Hfr; apply in_or_app; auto). lia.
Qed.

(* ------------------------------------------------- the hypotheses are satisfiable *)

(** a keyed list of three 2-node items between two leading and one following sibling *)
Definition ex_state : kstate :=
  fst (build_mount (fixed_bld 2) ([100; 101] ++ [102])%N (hd_error [102%N]) 200%N [5; 3; 8]%N).

Example ex_state_wf : st_wf [100; 101]%N [102%N] ex_state.
Proof.
  apply (build_mount_wf (fixed_bld 2) [100; 101]%N [102%N] 200%N [5; 3; 8]%N).
  - apply fixed_bld_ok. lia.
  - repeat constructor; simpl; intuition discriminate.
  - repeat constructor; simpl; intuition discriminate.
  - simpl. intros n [H|[H|[H|[]]]]; subst; reflexivity.
Qed.

(** ... updated to a list with a removal, an addition and a move: the theorem applies, and
    the model indeed ends with the children in the new order *)
Example ex_keyed_ok : keyed_ok [100; 101]%N [102%N] ex_state [8; 9; 5]%N.
Proof.
  apply keyed_rebuild_ok; [exact ex_state_wf|]. repeat constructor; simpl; intuition discriminate.
Qed.

Example ex_result :
  ks_dom (state_after ex_state [8; 9; 5]%N) = [100; 101; 204; 205; 207; 208; 200; 201; 206; 102]%N
  /\ ks_dom ex_state = [100; 101; 200; 201; 202; 203; 204; 205; 206; 102]%N.
Proof. vm_compute. split; reflexivity. Qed.

Example ex_history : history_ok [100; 101]%N [102%N] ex_state [[8; 9; 5]; []; [1; 2]; [2; 1; 7]]%N.
Proof.
  apply keyed_history_ok; [exact ex_state_wf|].
  repeat constructor; simpl; intuition discriminate.
Qed.

(** rows of different sizes (harness mode 20): the row of key [k] is a nested keyed list of [k mod 3]
    one-node rows, i.e. it owns [k mod 3 + 1] top-level nodes, the last one being the inner list's
    marker.  The hypotheses hold for such builders too ([var_bld_ok]), and moving the last row to the
    front puts it before the FIRST node of the row that was first *)
Definition ex_nested_bld : builder := var_bld (fun k => S (N.to_nat (N.modulo k 3))).
Definition ex_nested : kstate :=
  fst (build_mount ex_nested_bld ([100] ++ [101])%N (hd_error [101%N]) 200%N [1; 2; 3]%N).

Example ex_nested_wf : st_wf [100]%N [101%N] ex_nested.
Proof.
  apply (build_mount_wf ex_nested_bld [100]%N [101%N] 200%N [1; 2; 3]%N).
  - apply var_bld_ok. intros k. apply le_n_S, Nat.le_0_l.
  - repeat constructor; simpl; intuition discriminate.
  - repeat constructor; simpl; intuition discriminate.
  - simpl. intros n [H|[H|[]]]; subst; reflexivity.
Qed.

Example ex_nested_ok : keyed_ok [100]%N [101%N] ex_nested [3; 1; 2]%N.
Proof.
  apply keyed_rebuild_ok; [exact ex_nested_wf|]. repeat constructor; simpl; intuition discriminate.
Qed.

Example ex_nested_result :
  ks_dom ex_nested = [100; 200; 201; 202; 203; 204; 205; 206; 101]%N
  /\ ks_dom (state_after ex_nested [3; 1; 2]%N) = [100; 205; 200; 201; 202; 203; 204; 206; 101]%N.
Proof. vm_compute. split; reflexivity. Qed.

(* ----------------------------------------- which items are new, and the final list *)

(** the new items of an update: built in order for the keys of [to] that were not rendered *)
Definition new_items (b : builder) (to : list N) (its : list item) (next : N) (gen : nat) : list item :=
  build_items b (newkeys to its) next gen.

Theorem apply_diff_new : forall pre post mk to (b : builder) its next gen,
  bld_ok b -> wf_items pre post mk next its -> NoDup to ->
  let w := apply_diff b mk (diff (map it_key its) to) to (start pre post mk its next gen) in
  (forall it, In it (somes (w_children w)) -> In it its \/ In it (new_items b to its next gen)) /\
  w_next w = build_next b (newkeys to its) next /\ w_gen w = gen + length (newkeys to its).
Proof.
  intros pre post mk to b its next gen Hb Hwf Hto. cbv zeta. unfold new_items.
  destruct its as [|it0 its'] eqn:Eits.
  - set (n := length to).
    assert (diff_loop [] to (Nat.max (length (@nil N)) (length to)) 0 0 0 None = ([], [], normal_adds 0 n)) as El.
    { cbn [length Nat.max]. apply diff_loop_from_empty. reflexivity. }
    pose proof (diff_loop_spec [] to Hto (Nat.max (length (@nil N)) (length to)) 0 0 0 None _ _ _
                  (Nat.le_refl _) El) as LS.
    pose proof (apply_general_new pre post mk to b Hb [] next gen Hwf Hto _ _ _ LS) as P.
    cbv zeta in P. cbn [map] in *.
    assert (apply_diff b mk (diff [] to) to (start pre post mk [] next gen)
            = apply_general mk b [] [] (normal_adds 0 n) to (start pre post mk [] next gen)) as ->; [|exact P].
    destruct (diff_from_empty to) as [F1 [F2 [F3 F4]]]. fold n in F3, F4.
    rewrite (apply_diff_general mk b _ [] [] (append_adds 0 n)); auto.
    unfold apply_general. cbn [fold_left enumerate_from]. unfold append_adds, normal_adds.
    rewrite !map_length. fold (append_adds 0 n). fold (normal_adds 0 n).
    rewrite fold_append_normal; [reflexivity|].
    intros j it _ Hc. cbn [with_children w_children start map app] in Hc.
    apply nth_error_In in Hc. apply repeat_spec in Hc. discriminate.
  - destruct to as [|t0 to'] eqn:Eto.
    + rewrite <- Eits in *. assert (diff (map it_key its) [] =
        {| d_removed := []; d_moved := []; d_items_to_move := 0; d_added := []; d_clear := true |}) as ->.
      { rewrite Eits. reflexivity. }
      unfold apply_diff. cbn [d_clear d_added andb].
      destruct (fold_step_clear its (start pre post mk its next gen)) as [C [D [L [Nx [G P]]]]].
      change (w_children (start pre post mk its next gen)) with (map Some its).
      cbn [with_children w_children w_next w_gen somes]. rewrite Nx, G. cbn [start w_next w_gen].
      unfold newkeys. cbn [filter build_items build_next length]. rewrite Nat.add_0_r.
      split; [intros it []|auto].
    + rewrite <- Eits, <- Eto in *.
      assert (map it_key its <> []) as Hf by (rewrite Eits; discriminate).
      assert (to <> []) as Ht by (rewrite Eto; discriminate).
      destruct (diff_loop (map it_key its) to (Nat.max (length (map it_key its)) (length to)) 0 0 0 None)
        as [[r ms] a] eqn:El.
      pose proof (diff_loop_spec (map it_key its) to Hto
                    (Nat.max (length (map it_key its)) (length to)) 0 0 0 None _ _ _
                    (Nat.le_refl _) El) as LS.
      assert (Forall (fun mv => m_len mv = 1) ms) as Hl.
      { eapply Forall_impl; [|exact (ls_mv_ok _ _ _ _ _ _ _ _ LS)]. intros mv [H _]. exact H. }
      destruct (unpack_diff _ _ _ _ _ Hf Ht El Hl) as [U1 [U2 [U3 U4]]].
      rewrite (apply_diff_general mk b _ r ms a); auto.
      exact (apply_general_new pre post mk to b Hb its next gen Hwf Hto _ _ _ LS).
Qed.

(** the final list, spelled out: in the order of [to], the old item of a retained key, the
    next new item otherwise *)
Fixpoint assemble (to : list N) (olds news : list item) : list item :=
  match to with
  | [] => []
  | k :: r =>
      match find_item k olds with
      | Some it => it :: assemble r olds news
      | None => match news with
                | n :: ns => n :: assemble r olds ns
                | [] => []
                end
      end
  end.

Lemma build_items_keys' : forall b ks next gen, map it_key (build_items b ks next gen) = ks.
Proof. induction ks as [|k ks IH]; intros; cbn [build_items map it_key]; [|rewrite IH]; reflexivity. Qed.

Lemma assemble_eq : forall b to olds items next gen,
  NoDup to -> NoDup (map it_key olds) -> map it_key items = to ->
  (forall it, In it items -> In it olds \/
     In it (build_items b (filter (fun k => negb (memN k (map it_key olds))) to) next gen)) ->
  items = assemble to olds (build_items b (filter (fun k => negb (memN k (map it_key olds))) to) next gen).
Proof.
  intros b to olds. induction to as [|k to IH]; intros items next gen Hto Ho Hk Hprov.
  - destruct items; [reflexivity|discriminate].
  - destruct items as [|x items]; [discriminate|]. cbn [map] in Hk. inversion Hk as [[Hkx Hkr]].
    inversion Hto as [|? ? Hnk Hto']; subst.
    cbn [assemble filter].
    destruct (find_item (it_key x) olds) as [o|] eqn:Ef.
    + (* retained: the old item *)
      apply find_item_Some in Ef. destruct Ef as [Hin Hko].
      assert (memN (it_key x) (map it_key olds) = true) as Hm.
      { apply memN_In. rewrite <- Hko. apply in_map. auto. }
      rewrite Hm. cbn [negb].
      assert (x = o) as ->.
      { destruct (Hprov x (or_introl eq_refl)) as [Hx|Hx].
        - apply (same_key_same_item olds x o); auto.
        - exfalso. apply (in_map it_key) in Hx. rewrite build_items_keys' in Hx.
          apply filter_In in Hx. destruct Hx as [_ Hx]. rewrite Hm in Hx. discriminate. }
      f_equal. apply IH; auto.
      intros it Hit. destruct (Hprov it (or_intror Hit)) as [H|H]; auto. right.
      cbn [filter] in H. rewrite Hm in H. exact H.
    + (* new: the next item built *)
      apply find_item_None in Ef.
      assert (memN (it_key x) (map it_key olds) = false) as Hm by (apply memN_false; exact Ef).
      rewrite Hm. cbn [negb build_items].
      assert (x = {| it_key := it_key x; it_gen := gen; it_nodes := fst (b (it_key x) next) |}) as Ex.
      { destruct (Hprov x (or_introl eq_refl)) as [Hx|Hx].
        - exfalso. apply Ef. apply in_map. auto.
        - cbn [filter] in Hx. rewrite Hm in Hx. cbn [negb build_items] in Hx. destruct Hx as [Hx|Hx]; auto.
          exfalso. apply (in_map it_key) in Hx. rewrite build_items_keys' in Hx. apply filter_In in Hx.
          destruct Hx as [Hx _]. contradiction. }
      rewrite <- Ex. f_equal. apply IH; auto.
      intros it Hit. destruct (Hprov it (or_intror Hit)) as [H|H]; auto.
      cbn [filter] in H. rewrite Hm in H. cbn [negb build_items] in H. destruct H as [H|H]; auto.
      exfalso. apply Hnk. replace (it_key x) with (it_key it) by (rewrite <- H; reflexivity).
      apply in_map. exact Hit.
Qed.

(** one rebuild: the items of the new state, spelled out *)
Theorem rebuild_items : forall pre post st to,
  st_wf pre post st -> NoDup to ->
  let '(st', log, p) := rebuild st to in
  ks_items st' = assemble to (ks_items st) (new_items (ks_bld st) to (ks_items st) (ks_next st) (ks_gen st)) /\
  ks_next st' = build_next (ks_bld st) (newkeys to (ks_items st)) (ks_next st) /\
  ks_gen st' = ks_gen st + length (newkeys to (ks_items st)).
Proof.
  intros pre post st to Hwf Hto. pose proof (keyed_rebuild_ok pre post st to Hwf Hto) as Hok.
  destruct Hwf as [Hb [Hk [Hd Hwf]]]. unfold keyed_ok, rebuild in *.
  pose proof (apply_diff_new pre post (ks_marker st) to (ks_bld st) (ks_items st) (ks_next st) (ks_gen st)
                Hb Hwf Hto) as P.
  cbv zeta in P. unfold start in P. rewrite <- Hd, Hk in P.
  set (w := apply_diff (ks_bld st) (ks_marker st) (diff (ks_keys st) to) to _) in *.
  destruct P as [P1 [P2 P3]]. cbn [ks_items ks_next ks_gen] in *.
  destruct Hok as [_ [_ [Hkeys _]]].
  split; [|auto]. unfold new_items, newkeys.
  apply assemble_eq; auto. exact (wf_keys _ _ _ _ _ Hwf).
Qed.
