(** C11, top level: one [rebuild] of a keyed list and histories of rebuilds. *)
From Coq Require Import List NArith ZArith Bool Arith Lia Sorted Permutation.
From LV Require Import Dom.Dom Dom.DomProofs Dom.Keyed Dom.KeyedLemmas Dom.KeyedDiffProofs
                       Dom.KeyedRender Dom.KeyedProofs.
Import ListNotations.

(** what one [apply_diff] must achieve, on its final working state [w] *)
Definition apply_props (pre post : list node) (mk : node) (to : list N) (its : list item)
                       (next : N) (gen : nat) (w : work) : Prop :=
  let items' := somes (w_children w) in
  w_panic w = false /\ map it_key items' = to /\
  w_dom w = pre ++ flat_map it_nodes items' ++ mk :: post /\
  wf_items pre post mk (w_next w) items' /\ (next <= w_next w)%N /\ gen <= w_gen w /\
  (forall it, In it its -> In (it_key it) to -> In it items') /\
  (forall it, In it items' -> In it its \/
     (gen <= it_gen it /\ forall n, In n (it_nodes it) -> (next <= n)%N)) /\
  (forall it, In it its -> ~ In (it_key it) to -> In (EvUnmount (it_key it) (it_gen it)) (w_log w)) /\
  NoDup (built (w_log w)) /\
  (forall k, In k (built (w_log w)) <-> In k to /\ ~ In k (map it_key its)) /\
  (forall k g i, In (EvSetIndex k g i) (w_log w) ->
     exists it, In it its /\ it_key it = k /\ it_gen it = g /\ index_of k to = Some i) /\
  (forall it i j, nth_error its i = Some it -> index_of (it_key it) to = Some j -> i <> j ->
     In (EvSetIndex (it_key it) (it_gen it) j) (w_log w)).

Definition start (pre post : list node) (mk : node) (its : list item) (next : N) (gen : nat) : work :=
  {| w_children := map Some its; w_dom := pre ++ flat_map it_nodes its ++ mk :: post;
     w_log := []; w_next := next; w_gen := gen; w_panic := false |}.

(* ------------------------------------------------------------ from the empty list *)

Definition normal_adds (s n : nat) : list addop := map (fun i => {| a_at := i; a_mode := Normal |}) (seq s n).
Definition append_adds (s n : nat) : list addop := map (fun i => {| a_at := i; a_mode := Append |}) (seq s n).

Lemma nth_error_nil : forall {A} i, nth_error (@nil A) i = None.
Proof. destruct i; reflexivity. Qed.

Lemma diff_loop_from_empty : forall to n index na,
  index + n = length to ->
  diff_loop [] to n index na 0 None = ([], [], normal_adds index n).
Proof.
  intros to n. induction n as [|n IH]; intros index na H; [reflexivity|].
  cbn [diff_loop]. rewrite nth_error_nil.
  destruct (nth_error to index) as [t|] eqn:Et.
  2:{ apply nth_error_None in Et. lia. }
  cbn [opt_eqb]. unfold it_rem, it_add, it_move. rewrite nth_error_nil, Et. cbn [memN existsb negb it_kept].
  rewrite IH by lia. reflexivity.
Qed.

Lemma somes_all_none : forall (c : list (option item)) s,
  (forall j it, s <= j -> nth_error c j <> Some (Some it)) -> somes (skipn s c) = [].
Proof.
  induction c as [|o c IH]; intros s H; [destruct s; reflexivity|].
  destruct s as [|s].
  - cbn [skipn]. destruct o as [it|].
    + exfalso. apply (H 0 it); auto.
    + cbn [somes]. apply (IH 0). intros j it Hj. apply (H (S j) it). lia.
  - cbn [skipn]. apply IH. intros j it Hj. apply (H (S j) it). lia.
Qed.

Lemma fold_append_normal : forall m mk items n s w,
  (forall j it, s <= j -> nth_error (w_children w) j <> Some (Some it)) ->
  fold_left (step_add m mk items) (append_adds s n) w
  = fold_left (step_add m mk items) (normal_adds s n) w.
Proof.
  intros m mk items n. induction n as [|n IH]; intros s w H; [reflexivity|].
  unfold append_adds, normal_adds in *. cbn [seq map fold_left].
  assert (step_add m mk items w {| a_at := s; a_mode := Append |}
          = step_add m mk items w {| a_at := s; a_mode := Normal |}) as E.
  { unfold step_add. cbn [a_at a_mode]. unfold mount_at, next_mounted.
    rewrite (somes_all_none _ s H). reflexivity. }
  rewrite E. apply IH. intros j it Hj.
  unfold step_add. cbn [a_at a_mode]. destruct (w_panic w); [apply H; lia|].
  destruct (nth_error items s); [|cbn [panic w_children]; apply H; lia].
  destruct (s <? length (w_children w)); [|cbn [panic w_children]; apply H; lia].
  cbn [w_children]. rewrite nth_set_nth_neq by lia. apply H. lia.
Qed.

Lemma wf_sibs : forall pre post mk next its, wf_items pre post mk next its ->
  wf_items pre post mk next [].
Proof.
  intros pre post mk next its H. pose proof (good_of_wf _ _ _ _ _ H) as G. destruct H as [Hk Hd Hne Hfr].
  constructor; simpl.
  - constructor.
  - exact (g_sibs _ _ _ _ _ G).
  - intros it [].
  - intros n Hn. apply Hfr. rewrite !in_app_iff in *. simpl in *. tauto.
Qed.

(* ------------------------------------------------------------------------ clear *)

Lemma fold_step_clear : forall its w,
  let w' := fold_left step_clear (map Some its) w in
  w_children w' = w_children w /\
  w_dom w' = fold_left (fun d it => unmount_item it d) its (w_dom w) /\
  w_log w' = w_log w ++ map (fun it => EvUnmount (it_key it) (it_gen it)) its /\
  w_next w' = w_next w /\ w_gen w' = w_gen w /\ w_panic w' = w_panic w.
Proof.
  induction its as [|it its IH]; intros w; cbv zeta.
  - simpl. rewrite app_nil_r. repeat split; auto.
  - cbn [map fold_left]. destruct (IH (step_clear w (Some it))) as [C [D [L [Nx [G P]]]]].
    rewrite C, D, L, Nx, G, P. cbn [step_clear w_children w_dom w_log w_next w_gen w_panic map].
    rewrite <- app_assoc. repeat split; auto.
Qed.

Lemma unmount_all : forall pre post mk next its,
  wf_items pre post mk next its ->
  fold_left (fun d it => unmount_item it d) its (pre ++ flat_map it_nodes its ++ mk :: post)
  = pre ++ mk :: post.
Proof.
  intros pre post mk next its Hwf. pose proof (good_of_wf _ _ _ _ _ Hwf) as G.
  set (dummy := {| it_key := 0%N; it_gen := 0; it_nodes := [] |}).
  set (item_at := fun i => nth i its dummy).
  assert (its = map item_at (seq 0 (length its))) as E by (symmetry; apply list_map_nth).
  assert (forall l d, fold_left (fun d it => unmount_item it d) (map item_at l) d
                      = fold_left (fun d i => unmount_item (item_at i) d) l d) as Hf.
  { induction l as [|i l IHl]; intros d; [reflexivity|]. cbn [map fold_left]. apply IHl. }
  rewrite E at 1. rewrite Hf.
  assert (pre ++ flat_map it_nodes its ++ mk :: post
          = render (nodes_in its) pre post mk (map it_key its)) as ->.
  { unfold render. rewrite flat_nodes_in; auto. exact (wf_keys _ _ _ _ _ Hwf). }
  rewrite (render_unmount_all pre post mk (nodes_in its) (map it_key its) item_at); auto.
  - assert (map (fun i => it_key (item_at i)) (seq 0 (length its)) = map it_key its) as ->.
    { rewrite <- (map_map item_at it_key). rewrite <- E. reflexivity. }
    rewrite diffl_self. reflexivity.
  - intros i Hi. apply in_seq in Hi.
    assert (In (item_at i) its) as Hin by (unfold item_at; apply nth_In; lia).
    split; [apply in_map; auto|]. apply nodes_in_item; auto. exact (wf_keys _ _ _ _ _ Hwf).
Qed.

(* ----------------------------------------------------- apply_diff (diff from to), all cases *)

Lemma built_unmounts : forall its, built (map (fun it => EvUnmount (it_key it) (it_gen it)) its) = [].
Proof. intros. apply built_nil. intros e He. apply in_map_iff in He. destruct He as [it [<- _]]. exact I. Qed.

Lemma diff_from_empty : forall to,
  d_clear (diff [] to) = false /\ d_removed (diff [] to) = [] /\
  d_added (diff [] to) = append_adds 0 (length to) /\
  unpack_moves (diff [] to) = ([], append_adds 0 (length to)).
Proof.
  intros to. destruct to as [|t0 to'].
  - repeat split; reflexivity.
  - repeat split; try reflexivity.
    unfold diff, unpack_moves. cbn [d_items_to_move d_added d_removed d_moved].
    rewrite unpack_loop_spec; [reflexivity|constructor|]. cbn [total fold_right length]. lia.
Qed.

Theorem apply_diff_props : forall pre post mk to m its next gen,
  1 <= m -> wf_items pre post mk next its -> NoDup to ->
  apply_props pre post mk to its next gen
    (apply_diff m mk (diff (map it_key its) to) to (start pre post mk its next gen)).
Proof.
  intros pre post mk to m its next gen Hm Hwf Hto.
  destruct its as [|it0 its'] eqn:Eits.
  - (* from the empty list: every key is appended *)
    set (n := length to).
    assert (diff_loop [] to (Nat.max (length (@nil N)) (length to)) 0 0 0 None = ([], [], normal_adds 0 n)) as El.
    { cbn [length Nat.max]. apply diff_loop_from_empty. reflexivity. }
    pose proof (diff_loop_spec [] to Hto (Nat.max (length (@nil N)) (length to)) 0 0 0 None _ _ _
                  (Nat.le_refl _) El) as LS.
    pose proof (apply_general_props pre post mk to m Hm [] next gen Hwf Hto _ _ _ LS) as P.
    cbv zeta in P. unfold apply_props. cbv zeta. cbn [map] in *.
    assert (apply_diff m mk (diff [] to) to (start pre post mk [] next gen)
            = apply_general mk m [] [] (normal_adds 0 n) to (start pre post mk [] next gen)) as ->; [|exact P].
    destruct (diff_from_empty to) as [F1 [F2 [F3 F4]]]. fold n in F3, F4.
    rewrite (apply_diff_general mk m _ [] [] (append_adds 0 n)); auto.
    unfold apply_general. cbn [fold_left enumerate_from]. unfold append_adds, normal_adds.
    rewrite !map_length. fold (append_adds 0 n). fold (normal_adds 0 n).
    rewrite fold_append_normal; [reflexivity|].
    intros j it _ Hc. cbn [with_children w_children start map app] in Hc.
    apply nth_error_In in Hc. apply repeat_spec in Hc. discriminate.
  - destruct to as [|t0 to'] eqn:Eto.
    + (* clear *)
      rewrite <- Eits in *. assert (diff (map it_key its) [] =
        {| d_removed := []; d_moved := []; d_items_to_move := 0; d_added := []; d_clear := true |}) as ->.
      { rewrite Eits. reflexivity. }
      unfold apply_diff. cbn [d_clear d_added andb].
      destruct (fold_step_clear its (start pre post mk its next gen)) as [C [D [L [Nx [G P]]]]].
      cbn [start w_children] in C, D, L, Nx, G, P |- *.
      unfold apply_props. cbv zeta. cbn [with_children w_children w_dom w_log w_next w_gen w_panic somes map flat_map].
      rewrite D, L, Nx, G, P. cbn [start w_dom w_log w_next w_gen w_panic app].
      rewrite (unmount_all pre post mk next its Hwf). rewrite built_unmounts.
      split; [reflexivity|]. split; [reflexivity|]. split; [reflexivity|].
      split; [eapply wf_sibs; eauto|]. split; [lia|]. split; [lia|].
      split; [intros it _ []|]. split; [intros it []|].
      split; [intros it Hit _; apply in_map_iff; exists it; auto|].
      split; [constructor|]. split; [intros k; split; [intros []|intros [[] _]]|].
      split.
      * intros k g i Hc. apply in_map_iff in Hc. destruct Hc as [it [E _]]. discriminate.
      * intros it i j _ Hc. discriminate.
    + (* the general case *)
      rewrite <- Eits, <- Eto in *.
      assert (map it_key its <> []) as Hf by (rewrite Eits; discriminate).
      assert (to <> []) as Ht by (rewrite Eto; discriminate).
      destruct (diff_loop (map it_key its) to (Nat.max (length (map it_key its)) (length to)) 0 0 0 None)
        as [[r ms] a] eqn:El.
      pose proof (diff_loop_spec (map it_key its) to Hto
                    (Nat.max (length (map it_key its)) (length to)) 0 0 0 None _ _ _
                    (Nat.le_refl _) El) as LS.
      assert (Forall (fun mv => m_len mv = 1) ms) as Hl.
      { eapply Forall_impl; [|exact (ls_mv_ok _ _ _ _ _ _ _ _ LS)]. intros mv [H _]. exact H. }
      destruct (unpack_diff _ _ _ _ _ Hf Ht El Hl) as [U1 [U2 [U3 U4]]].
      rewrite (apply_diff_general mk m _ r ms a); auto.
      exact (apply_general_props pre post mk to m Hm its next gen Hwf Hto _ _ _ LS).
Qed.
