(** C04 — model of a mounted reactive view: a tree whose dynamic nodes are RenderEffects with body
    [rebuild ∘ invoke] over signals, driven by a harness-owned executor.

    Anchors:
      tachys/src/reactive_graph/mod.rs   impl Render for F: ReactiveFunction  (build = RenderEffect::new
                                         running the closure at once; rebuild = build a new effect,
                                         mount it before the old state, unmount + drop the old one);
                                         impl AttributeValue for F (new_with_value on rebuild)
      tachys/src/reactive_graph/{class,style}.rs, html/class.rs   dynamic class / class toggle / style
      tachys/src/view/either.rs          Either::rebuild: same side -> rebuild in place, other side ->
                                         build, insert_before_this, unmount, drop
      tachys/src/view/strings.rs, html/element/mod.rs   rebuild of text and elements
      reactive_graph/src/effect/render_effect.rs, channel.rs   the effect's task: first run inside
                                         [new], then one executor task per effect that re-runs the body when
                                         notified; dropping the effect ends the task (it is woken once more)
      leptos/src/show.rs                 <Show>: the condition goes through a memo
    No proofs in this file. *)
From Coq Require Import List NArith Bool Arith.
Import ListNotations.

(** * Programs *)
Inductive expr := ESig (i : nat) | EConst (n : N) | EAdd (a b : expr).

Fixpoint eval (s : list N) (e : expr) : N :=
  match e with
  | ESig i => nth i s 0%N
  | EConst n => n
  | EAdd a b => (eval s a + eval s b)%N
  end.
Fixpoint reads (e : expr) (i : nat) : bool :=
  match e with
  | ESig j => Nat.eqb i j
  | EConst _ => false
  | EAdd a b => reads a i || reads b i
  end.
Definition nz (n : N) : bool := negb (N.eqb n 0).

(** dynamic element properties: title=move || .., class=move || .., class:on=move || ..,
    style:width=move || .. *)
Inductive pkind := PAttr | PClass | PToggle | PStyle.
(** the value the DOM shows for a property *)
Definition pval (k : pkind) (n : N) : N :=
  match k with PToggle => if nz n then 1%N else 0%N | _ => n end.

(** [RStatic n]: a static text; [RText l e]: [move || e.to_string()]; [RElem props kids]: an element
    with dynamic properties and children; [RIf l memo c a b]: [move || if c != 0 { Either::Left(a) }
    else { Either::Right(b) }], with [memo] the condition is read through a memo as in <Show>.
    [RAsync l es ea]: an async leaf, [move || { let a = es; Suspend::new(async move { wait; a + ea }) }] —
    [es] is read in the closure, [ea] inside the future, which is a new, independent future per run.
    [l] labels a closure (echoed in the run log). Every view renders to exactly one DOM node (an
    async leaf to none until its first future completes). *)
Inductive rview :=
| RStatic (n : N)
| RText (l : nat) (e : expr)
| RElem (props : list (pkind * nat * expr)) (kids : list rview)
| RIf (l : nat) (memo : bool) (c : expr) (a b : rview)
| RAsync (l : nat) (es ea : expr).

(** * Retained state *)
(** a RenderEffect: executor task id, label, "notified since last poll" *)
Record ef := { eid : nat; lbl : nat; note : bool }.

Inductive pinst := PI (k : pkind) (e : expr) (f : ef) (shown : N).

(** the instance tree: view state + the DOM nodes it owns (id, mutation counter) *)
Inductive inst :=
| IStatic (id muts : nat) (n : N)
| IText (f : ef) (e : expr) (id muts : nat) (shown : N)
| IElem (id muts : nat) (props : list pinst) (kids : list inst)
| IIf (f : ef) (memo : bool) (c : expr) (a b : rview) (br : bool) (child : inst)
(** async leaf: text node (once [shown]), the outstanding future of the last run with the value of
    [es] it captured, and whether the sources read inside the future are linked to the effect
    (Suspend forwards them when the future completes) *)
| IAsync (f : ef) (es ea : expr) (id muts : nat) (shown : option N) (pend : option (nat * N)) (sub : bool).

Record env := {
  sigs : list N;
  neid : nat;            (* next executor task id *)
  nid : nat;             (* next DOM node id *)
  ready : list nat;      (* executor run queue, ascending *)
  log : list nat;        (* labels of closure invocations, newest first *)
  nfut : nat;            (* number of futures created by async leaves so far *)
  opened : list (nat * nat)   (* (label, number) of the futures created and not yet completed, oldest first *)
}.

Fixpoint insert_sorted (x : nat) (l : list nat) : list nat :=
  match l with
  | [] => [x]
  | y :: r => if Nat.ltb x y then x :: l else if Nat.eqb x y then l else y :: insert_sorted x r
  end.

Definition wake (t : nat) (v : env) : env :=
  {| sigs := sigs v; neid := neid v; nid := nid v; ready := insert_sorted t (ready v); log := log v; nfut := nfut v; opened := opened v |}.
Definition logged (l : nat) (v : env) : env :=
  {| sigs := sigs v; neid := neid v; nid := nid v; ready := ready v; log := l :: log v; nfut := nfut v; opened := opened v |}.
(** Executor::spawn_local: a new task is ready *)
Definition spawn (v : env) : nat * env :=
  (neid v, {| sigs := sigs v; neid := S (neid v); nid := nid v;
              ready := insert_sorted (neid v) (ready v); log := log v; nfut := nfut v; opened := opened v |}).
(** a closure run of an async leaf creates future number [nfut] *)
Definition new_future (l : nat) (v : env) : nat * env :=
  (nfut v, {| sigs := sigs v; neid := neid v; nid := nid v; ready := ready v; log := log v;
              nfut := S (nfut v); opened := opened v ++ [(l, nfut v)] |}).
Definition new_node (v : env) : nat * env :=
  (nid v, {| sigs := sigs v; neid := neid v; nid := S (nid v); ready := ready v; log := log v; nfut := nfut v; opened := opened v |}).

(** ** build *)
Definition build_prop (p : pkind * nat * expr) (v : env) : pinst * nat * env :=
  let '(k, l, e) := p in
  let v1 := logged l v in
  let x := pval k (eval (sigs v1) e) in
  (* build writes the attribute / class / style (a toggle only when on) *)
  let m := match k with PToggle => if N.eqb x 0 then O else 1%nat | _ => 1%nat end in
  let '(t, v2) := spawn v1 in
  (PI k e {| eid := t; lbl := l; note := false |} x, m, v2).

Fixpoint build_props (ps : list (pkind * nat * expr)) (v : env) : list pinst * nat * env :=
  match ps with
  | [] => ([], O, v)
  | p :: ps => let '(pi, m, v1) := build_prop p v in
               let '(pis, m2, v2) := build_props ps v1 in (pi :: pis, (m + m2)%nat, v2)
  end.

Fixpoint build (r : rview) (v : env) {struct r} : inst * env :=
  match r with
  | RStatic n => let '(id, v1) := new_node v in (IStatic id O n, v1)
  | RText l e =>
      let v1 := logged l v in
      let x := eval (sigs v1) e in
      let '(id, v2) := new_node v1 in
      let '(t, v3) := spawn v2 in
      (IText {| eid := t; lbl := l; note := false |} e id O x, v3)
  | RElem ps ks =>
      let '(id, v1) := new_node v in
      let '(pis, m, v2) := build_props ps v1 in
      let '(kis, v3) :=
        (fix go (l : list rview) (v : env) {struct l} : list inst * env :=
           match l with
           | [] => ([], v)
           | k :: l => let '(ki, v1) := build k v in
                       let '(kis, v2) := go l v1 in (ki :: kis, v2)
           end) ks v2 in
      (IElem id (m + length ks)%nat pis kis, v3)
  | RIf l memo c a b =>
      let v1 := logged l v in
      let br := nz (eval (sigs v1) c) in
      let '(ch, v2) := build (if br then a else b) v1 in
      let '(t, v3) := spawn v2 in
      (IIf {| eid := t; lbl := l; note := false |} memo c a b br ch, v3)
  | RAsync l es ea =>
      (* Suspend::build: the future is pending, the state starts as the placeholder of None *)
      let v1 := logged l v in
      let a := eval (sigs v1) es in
      let '(k, v2) := new_future l v1 in
      let '(id, v3) := new_node v2 in
      let '(t, v4) := spawn v3 in
      (IAsync {| eid := t; lbl := l; note := false |} es ea id O None (Some (k, a)) false, v4)
  end.

Fixpoint build_list (l : list rview) (v : env) : list inst * env :=
  match l with
  | [] => ([], v)
  | k :: l => let '(ki, v1) := build k v in
              let '(kis, v2) := build_list l v1 in (ki :: kis, v2)
  end.

(** ** disposal: dropping a state drops its effects; each dropped effect's task is woken *)
Definition prop_eids (ps : list pinst) : list nat := map (fun '(PI _ _ f _) => eid f) ps.
Fixpoint eids (i : inst) : list nat :=
  match i with
  | IStatic _ _ _ => []
  | IText f _ _ _ _ => [eid f]
  | IElem _ _ ps ks =>
      prop_eids ps ++ (fix go (l : list inst) : list nat :=
                         match l with [] => [] | k :: l => eids k ++ go l end) ks
  | IIf f _ _ _ _ _ ch => eid f :: eids ch
  | IAsync f _ _ _ _ _ _ _ => [eid f]
  end.
Definition dispose (i : inst) (v : env) : env := fold_left (fun v t => wake t v) (eids i) v.

(** ** rebuild of a view against the state of the same view *)
Definition rebuild_prop (p : pinst) (v : env) : pinst * nat * env :=
  let '(PI k e f shown) := p in
  (* AttributeValue / IntoClass / IntoStyle for F :: rebuild — a new effect seeded with the old value *)
  let v1 := logged (lbl f) v in
  let x := pval k (eval (sigs v1) e) in
  let m := if N.eqb x shown then O else 1%nat in
  let '(t, v2) := spawn v1 in
  (PI k e {| eid := t; lbl := lbl f; note := false |} x, m, wake (eid f) v2).

Fixpoint rebuild_props (ps : list pinst) (v : env) : list pinst * nat * env :=
  match ps with
  | [] => ([], O, v)
  | p :: ps => let '(pi, m, v1) := rebuild_prop p v in
               let '(pis, m2, v2) := rebuild_props ps v1 in (pi :: pis, (m + m2)%nat, v2)
  end.

(** returns the new state, whether its DOM node was replaced, and the environment *)
Fixpoint rebuild (i : inst) (v : env) {struct i} : inst * bool * env :=
  match i with
  | IStatic id m n => (i, false, v)
  | IText f e id m shown =>
      let '(i', v1) := build (RText (lbl f) e) v in (i', true, dispose i v1)
  | IElem id m ps ks =>
      let '(ps', mp, v1) := rebuild_props ps v in
      let '(ks', mk, v2) :=
        (fix go (l : list inst) (v : env) {struct l} : list inst * nat * env :=
           match l with
           | [] => ([], O, v)
           | k :: l => let '(k', rep, v1) := rebuild k v in
                       let '(ks', mk, v2) := go l v1 in
                       (k' :: ks', ((if rep then 2 else 0) + mk)%nat, v2)
           end) ks v1 in
      (IElem id (m + mp + mk)%nat ps' ks', false, v2)
  | IIf f memo c a b br ch =>
      let '(i', v1) := build (RIf (lbl f) memo c a b) v in (i', true, dispose i v1)
  | IAsync f es ea _ _ _ _ _ =>
      let '(i', v1) := build (RAsync (lbl f) es ea) v in (i', true, dispose i v1)
  end.

Fixpoint rebuild_list (l : list inst) (v : env) : list inst * nat * env :=
  match l with
  | [] => ([], O, v)
  | k :: l => let '(k', rep, v1) := rebuild k v in
              let '(ks', mk, v2) := rebuild_list l v1 in
              (k' :: ks', ((if rep then 2 else 0) + mk)%nat, v2)
  end.

(** ** a signal write: every effect that read the signal is notified and its task woken *)
Definition notify_ef (hit : bool) (f : ef) : ef :=
  if hit then {| eid := eid f; lbl := lbl f; note := true |} else f.

Fixpoint notify (i : nat) (t : inst) : inst :=
  match t with
  | IStatic _ _ _ => t
  | IText f e id m x => IText (notify_ef (reads e i) f) e id m x
  | IElem id m ps ks =>
      IElem id m (map (fun '(PI k e f x) => PI k e (notify_ef (reads e i) f) x) ps)
            ((fix go (l : list inst) : list inst :=
                match l with [] => [] | k :: l => notify i k :: go l end) ks)
  | IIf f memo c a b br ch => IIf (notify_ef (reads c i) f) memo c a b br (notify i ch)
  | IAsync f es ea id m sh pe sub =>
      IAsync (notify_ef (reads es i || (sub && reads ea i)) f) es ea id m sh pe sub
  end.

Definition hit_props (i : nat) (ps : list pinst) : list nat :=
  flat_map (fun '(PI _ e f _) => if reads e i then [eid f] else []) ps.
Fixpoint hits (i : nat) (t : inst) : list nat :=
  match t with
  | IStatic _ _ _ => []
  | IText f e _ _ _ => if reads e i then [eid f] else []
  | IElem _ _ ps ks =>
      hit_props i ps ++ (fix go (l : list inst) : list nat :=
                           match l with [] => [] | k :: l => hits i k ++ go l end) ks
  | IIf f _ c _ _ _ ch => (if reads c i then [eid f] else []) ++ hits i ch
  | IAsync f es ea _ _ _ _ sub => if reads es i || (sub && reads ea i) then [eid f] else []
  end.

Fixpoint set_nth (i : nat) (x : N) (l : list N) : list N :=
  match l, i with
  | [], _ => []
  | _ :: r, O => x :: r
  | y :: r, S i => y :: set_nth i x r
  end.

(** ** on_cleanup: a text closure registers a callback on every run (logged as label + 500); the
    callbacks registered under an effect's owner — its own and those of the effects created during
    its last run, in creation order — run when the effect re-runs (Owner::with_cleanup), before the
    closure is invoked *)
Definition cleanup_mark : nat := 500.
Fixpoint cleanups (i : inst) : list nat :=
  match i with
  | IStatic _ _ _ => []
  | IText f _ _ _ _ => [(lbl f + cleanup_mark)%nat]
  | IElem _ _ _ ks =>
      (fix go (l : list inst) : list nat := match l with [] => [] | k :: l => cleanups k ++ go l end) ks
  | IIf _ _ _ _ _ _ ch => cleanups ch
  | IAsync _ _ _ _ _ _ _ _ => []
  end.
Definition log_all (ls : list nat) (v : env) : env := fold_left (fun v l => logged l v) ls v.

(** ** one poll of task [t]: every live effect with that id that was notified re-runs *)
Definition clear (f : ef) : ef := {| eid := eid f; lbl := lbl f; note := false |}.
Definition due (t : nat) (f : ef) : bool := Nat.eqb (eid f) t && note f.

Definition poll_prop (t : nat) (p : pinst) (v : env) : pinst * nat * env :=
  let '(PI k e f shown) := p in
  if due t f then
    let v1 := logged (lbl f) v in
    let x := pval k (eval (sigs v1) e) in
    (PI k e (clear f) x, if N.eqb x shown then O else 1%nat, v1)
  else (p, O, v).

Fixpoint poll_props (t : nat) (ps : list pinst) (v : env) : list pinst * nat * env :=
  match ps with
  | [] => ([], O, v)
  | p :: ps => let '(pi, m, v1) := poll_prop t p v in
               let '(pis, m2, v2) := poll_props t ps v1 in (pi :: pis, (m + m2)%nat, v2)
  end.

Fixpoint poll (t : nat) (i : inst) (v : env) {struct i} : inst * bool * env :=
  match i with
  | IStatic _ _ _ => (i, false, v)
  | IText f e id m shown =>
      if due t f then
        let v1 := logged (lbl f) (logged (lbl f + cleanup_mark) v) in
        let x := eval (sigs v1) e in
        (IText (clear f) e id (if N.eqb x shown then m else S m) x, false, v1)
      else (i, false, v)
  | IElem id m ps ks =>
      let '(ps', mp, v1) := poll_props t ps v in
      let '(ks', mk, v2) :=
        (fix go (l : list inst) (v : env) {struct l} : list inst * nat * env :=
           match l with
           | [] => ([], O, v)
           | k :: l => let '(k', rep, v1) := poll t k v in
                       let '(ks', mk, v2) := go l v1 in
                       (k' :: ks', ((if rep then 2 else 0) + mk)%nat, v2)
           end) ks v1 in
      (IElem id (m + mp + mk)%nat ps' ks', false, v2)
  | IIf f memo c a b br ch =>
      if due t f then
        let br' := nz (eval (sigs v) c) in
        if memo && Bool.eqb br' br then
          (* memo unchanged: the closure does not run *)
          let '(ch', rep, v1) := poll t ch v in (IIf (clear f) memo c a b br ch', rep, v1)
        else
          let v1 := logged (lbl f) (log_all (cleanups ch) v) in
          if Bool.eqb br' br then
            (* same side: Either::rebuild -> rebuild in place *)
            let '(ch', rep, v2) := rebuild ch v1 in
            (IIf (clear f) memo c a b br ch', rep, v2)
          else
            (* other side: build, insert before, unmount and drop the old state *)
            let '(ch', v2) := build (if br' then a else b) v1 in
            (* a memo that changed marks its subscriber dirty while the effect is checking it:
               the task is woken once more (and finds nothing to do) *)
            (IIf (clear f) memo c a b br' ch', true,
             let v3 := dispose ch v2 in if memo then wake (eid f) v3 else v3)
      else
        let '(ch', rep, v1) := poll t ch v in (IIf f memo c a b br ch', rep, v1)
  | IAsync f es ea id m sh pe sub =>
      if due t f then
        (* re-run: the previous future is aborted (on_cleanup), Suspend::rebuild waits for the new one;
           what is shown stays until it completes; the sources of the future are linked again only then *)
        let v1 := logged (lbl f) v in
        let a := eval (sigs v1) es in
        let '(k, v2) := new_future (lbl f) v1 in
        (IAsync (clear f) es ea id m sh (Some (k, a)) false, false, v2)
      else (i, false, v)
  end.

Fixpoint poll_list (t : nat) (l : list inst) (v : env) : list inst * nat * env :=
  match l with
  | [] => ([], O, v)
  | k :: l => let '(k', rep, v1) := poll t k v in
              let '(ks', mk, v2) := poll_list t l v1 in
              (k' :: ks', ((if rep then 2 else 0) + mk)%nat, v2)
  end.

(** the view an instance is the state of *)
Fixpoint view_of (i : inst) : rview :=
  match i with
  | IStatic _ _ n => RStatic n
  | IText f e _ _ _ => RText (lbl f) e
  | IElem _ _ ps ks =>
      RElem (map (fun '(PI k e f _) => (k, lbl f, e)) ps)
            ((fix go (l : list inst) : list rview :=
                match l with [] => [] | k :: l => view_of k :: go l end) ks)
  | IIf f memo c a b _ _ => RIf (lbl f) memo c a b
  | IAsync f es ea _ _ _ _ _ => RAsync (lbl f) es ea
  end.

(** * The mounted system *)
Record sys := { root : inst; ev : env }.

Inductive event :=
| EWrite (i : nat) (x : N)     (* signal.set(x) *)
| EPoll (k : nat)              (* poll the (k mod len)-th ready task *)
| EComplete (l j : nat).       (* the (j mod len)-th outstanding future of the async closure labelled l completes *)

Definition mount (r : rview) (s0 : list N) : sys :=
  let '(i, v) := build r {| sigs := s0; neid := O; nid := O; ready := []; log := []; nfut := O; opened := [] |} in
  {| root := i; ev := v |}.

Definition remove_ready (t : nat) (v : env) : env :=
  {| sigs := sigs v; neid := neid v; nid := nid v;
     ready := filter (fun x => negb (Nat.eqb x t)) (ready v); log := log v; nfut := nfut v; opened := opened v |}.

(** future [k] completes: the async leaf waiting for it (if it is still mounted and has not re-run
    since) shows [a + ea] and links the sources read inside the future; returns whether a node
    appeared (the parent's child list changed) *)
Fixpoint complete (k : nat) (i : inst) (v : env) {struct i} : inst * bool * env :=
  match i with
  | IStatic _ _ _ | IText _ _ _ _ _ => (i, false, v)
  | IElem id m ps ks =>
      let '(ks', mk, v1) :=
        (fix go (l : list inst) (v : env) {struct l} : list inst * nat * env :=
           match l with
           | [] => ([], O, v)
           | x :: l => let '(x', rep, v1) := complete k x v in
                       let '(l', mk, v2) := go l v1 in
                       (x' :: l', ((if rep then 2 else 0) + mk)%nat, v2)
           end) ks v in
      (IElem id (m + mk)%nat ps ks', false, v1)
  | IIf f memo c a b br ch =>
      let '(ch', rep, v1) := complete k ch v in (IIf f memo c a b br ch', rep, v1)
  | IAsync f es ea id m sh pe sub =>
      match pe with
      | Some (k', a) =>
          if Nat.eqb k k' then
            let x := (a + eval (sigs v) ea)%N in
            match sh with
            | None => (IAsync f es ea id m (Some x) None true, true, v)
            | Some y => (IAsync f es ea id (if N.eqb x y then m else S m) (Some x) None true, false, v)
            end
          else (i, false, v)
      | None => (i, false, v)
      end
  end.
Fixpoint complete_list (k : nat) (l : list inst) (v : env) : list inst * nat * env :=
  match l with
  | [] => ([], O, v)
  | x :: l => let '(x', rep, v1) := complete k x v in
              let '(l', mk, v2) := complete_list k l v1 in
              (x' :: l', ((if rep then 2 else 0) + mk)%nat, v2)
  end.

Definition close_future (k : nat) (v : env) : env :=
  {| sigs := sigs v; neid := neid v; nid := nid v; ready := ready v; log := log v; nfut := nfut v;
     opened := filter (fun x => negb (Nat.eqb (snd x) k)) (opened v) |}.

Definition step (s : sys) (e : event) : sys :=
  match e with
  | EWrite i x =>
      let v := ev s in
      let v1 := {| sigs := set_nth i x (sigs v); neid := neid v; nid := nid v; ready := ready v; log := log v; nfut := nfut v; opened := opened v |} in
      {| root := notify i (root s); ev := fold_left (fun v t => wake t v) (hits i (root s)) v1 |}
  | EPoll k =>
      match ready (ev s) with
      | [] => s
      | r => let t := nth (k mod length r) r O in
             let '(i', _, v') := poll t (root s) (remove_ready t (ev s)) in
             {| root := i'; ev := v' |}
      end
  | EComplete l j =>
      match filter (fun x => Nat.eqb (fst x) l) (opened (ev s)) with
      | [] => s
      | o => let k := snd (nth (j mod length o) o (O, O)) in
             let '(i', _, v') := complete k (root s) (close_future k (ev s)) in
             {| root := i'; ev := v' |}
      end
  end.

Definition run_events (s : sys) (es : list event) : sys := fold_left step es s.

Definition idle (s : sys) : bool := match ready (ev s) with [] => true | _ => false end.

(** * What is on screen *)
Inductive shape := SText (n : N) | SElem (props : list (pkind * N)) (kids : list shape)
                 | SHole.   (* an async leaf whose first future has not completed: only a placeholder comment *)

Fixpoint shape_of (i : inst) : shape :=
  match i with
  | IStatic _ _ n => SText n
  | IText _ _ _ _ x => SText x
  | IElem _ _ ps ks =>
      SElem (map (fun '(PI k _ _ x) => (k, x)) ps)
            ((fix go (l : list inst) : list shape :=
                match l with [] => [] | k :: l => shape_of k :: go l end) ks)
  | IIf _ _ _ _ _ _ ch => shape_of ch
  | IAsync _ _ _ _ _ sh _ _ => match sh with Some x => SText x | None => SHole end
  end.

(** no async leaf is waiting for a future *)
Fixpoint settled (i : inst) : bool :=
  match i with
  | IStatic _ _ _ | IText _ _ _ _ _ => true
  | IElem _ _ _ ks => (fix go (l : list inst) : bool := match l with [] => true | k :: l => settled k && go l end) ks
  | IIf _ _ _ _ _ _ ch => settled ch
  | IAsync _ _ _ _ _ _ pe _ => match pe with None => true | Some _ => false end
  end.

(** rendering the view from scratch with the given signal values *)
Fixpoint fresh (s : list N) (r : rview) : shape :=
  match r with
  | RStatic n => SText n
  | RText _ e => SText (eval s e)
  | RElem ps ks =>
      SElem (map (fun '(k, _, e) => (k, pval k (eval s e))) ps)
            ((fix go (l : list rview) : list shape :=
                match l with [] => [] | k :: l => fresh s k :: go l end) ks)
  | RIf _ _ c a b => if nz (eval s c) then fresh s a else fresh s b
  | RAsync _ es ea => SText (eval s es + eval s ea)
  end.

(** DOM nodes with identity and mutation counter, in document order *)
Fixpoint nodes (i : inst) : list (nat * nat) :=
  match i with
  | IStatic id m _ => [(id, m)]
  | IText _ _ id m _ => [(id, m)]
  | IElem id m _ ks =>
      (id, m) :: (fix go (l : list inst) : list (nat * nat) :=
                    match l with [] => [] | k :: l => nodes k ++ go l end) ks
  | IIf _ _ _ _ _ _ ch => nodes ch
  | IAsync _ _ _ id m sh _ _ => match sh with Some _ => [(id, m)] | None => [] end
  end.
