(** The parent's child list as [pre ++ (nodes of the items, in some order of keys) ++ marker :: post],
    and what mounting / unmounting one item does to that order of keys. *)
From Coq Require Import List NArith Bool Arith Lia.
From LV Require Import Dom.Dom Dom.DomProofs Dom.Keyed Dom.KeyedLemmas.
Import ListNotations.

Definition render (nodes_of : N -> list node) (pre post : list node) (mk : node) (s : list N)
  : list node := pre ++ flat_map nodes_of s ++ mk :: post.

(** the node sets of the keys of [U], the siblings and the marker are pairwise disjoint *)
Record good (nodes_of : N -> list node) (pre post : list node) (mk : node) (U : list N) : Prop := {
  g_nodup : forall k, In k U -> NoDup (nodes_of k);
  g_disj : forall k k' n, In k U -> In k' U -> k <> k' -> In n (nodes_of k) -> ~ In n (nodes_of k');
  g_sib : forall k n, In k U -> In n (nodes_of k) -> ~ In n (pre ++ mk :: post);
  g_sibs : NoDup (pre ++ mk :: post) }.

Ltac norm_app := repeat (rewrite <- app_assoc || rewrite <- app_comm_cons); cbn [app].

Section Render.
Variable nodes_of : N -> list node.
Variables pre post : list node.
Variable mk : node.
Variable U : list N.
Hypothesis G : good nodes_of pre post mk U.
Notation rend := (render nodes_of pre post mk).

Lemma flat_diffl : forall x S, In x U -> (forall k, In k S -> In k U) ->
  diffl (flat_map nodes_of S) (nodes_of x) = flat_map nodes_of (remove_node x S).
Proof.
  intros x S Hx. induction S as [|k S IH]; intros HS; [reflexivity|].
  cbn [flat_map]. rewrite diffl_app. rewrite IH by (intros; apply HS; right; auto).
  unfold remove_node at 2. cbn [filter]. fold (remove_node x S).
  destruct (N.eqb_spec x k) as [E|E]; cbn [negb].
  - subst. rewrite diffl_self. reflexivity.
  - cbn [flat_map]. f_equal. apply diffl_disjoint. intros n Hn.
    eapply (g_disj _ _ _ _ _ G k x); eauto. apply HS. left. auto.
Qed.

Lemma sib_diffl : forall x l, In x U -> (forall n, In n l -> In n (pre ++ mk :: post)) ->
  diffl l (nodes_of x) = l.
Proof.
  intros x l Hx Hl. apply diffl_disjoint. intros n Hn Hc.
  eapply (g_sib _ _ _ _ _ G x n); eauto.
Qed.

Lemma render_unmount : forall x S, In x U -> (forall k, In k S -> In k U) ->
  diffl (rend S) (nodes_of x) = rend (remove_node x S).
Proof.
  intros x S Hx HS. unfold render. rewrite !diffl_app. rewrite flat_diffl; auto.
  rewrite (sib_diffl x pre); auto.
  2:{ intros; apply in_or_app; left; auto. }
  rewrite (sib_diffl x (mk :: post)); auto. intros; apply in_or_app; right; auto.
Qed.

Lemma render_mount_before : forall x y a ys S1 S2,
  In x U -> (forall k, In k (S1 ++ y :: S2) -> In k U) -> NoDup (S1 ++ y :: S2) ->
  x <> y -> nodes_of y = a :: ys ->
  fold_left (fun d n => insert_before n (Some a) d) (nodes_of x) (rend (S1 ++ y :: S2))
  = rend (remove_node x S1 ++ x :: y :: remove_node x S2).
Proof.
  intros x y a ys S1 S2 Hx HS Hnd Hxy Hy.
  assert (In y U) as HyU by (apply HS; apply in_or_app; right; left; auto).
  assert (In a (nodes_of y)) as Hay by (rewrite Hy; left; auto).
  unfold render. rewrite flat_map_app. cbn [flat_map]. rewrite Hy.
  replace (pre ++ (flat_map nodes_of S1 ++ (a :: ys) ++ flat_map nodes_of S2) ++ mk :: post)
    with ((pre ++ flat_map nodes_of S1) ++ a :: (ys ++ flat_map nodes_of S2 ++ mk :: post)).
  2:{ norm_app. reflexivity. }
  rewrite mount_block.
  - rewrite !diffl_app.
    rewrite (sib_diffl x pre); auto.
    2:{ intros; apply in_or_app; left; auto. }
    rewrite (sib_diffl x (mk :: post)); auto.
    2:{ intros; apply in_or_app; right; auto. }
    rewrite !flat_diffl; auto.
    2:{ intros; apply HS; apply in_or_app; right; right; auto. }
    2:{ intros; apply HS; apply in_or_app; left; auto. }
    assert (diffl ys (nodes_of x) = ys) as ->.
    { apply diffl_disjoint. intros n Hn. eapply (g_disj _ _ _ _ _ G y x); eauto.
      rewrite Hy. right. auto. }
    rewrite !flat_map_app. cbn [flat_map]. rewrite Hy. norm_app. reflexivity.
  - apply (g_nodup _ _ _ _ _ G); auto.
  - eapply (g_disj _ _ _ _ _ G y x); eauto.
  - intro Hin. apply in_app_or in Hin. destruct Hin as [Hin|Hin].
    + eapply (g_sib _ _ _ _ _ G y a); eauto. apply in_or_app. left. auto.
    + apply in_flat_map in Hin. destruct Hin as [k [Hk Hak]].
      apply NoDup_remove_2 in Hnd.
      assert (k <> y) by (intro; subst; apply Hnd; apply in_or_app; left; auto).
      eapply (g_disj _ _ _ _ _ G k y); eauto. apply HS. apply in_or_app. left. auto.
Qed.

Lemma render_mount_marker : forall x S,
  In x U -> (forall k, In k S -> In k U) ->
  fold_left (fun d n => insert_before n (Some mk) d) (nodes_of x) (rend S)
  = rend (remove_node x S ++ [x]).
Proof.
  intros x S Hx HS. unfold render.
  replace (pre ++ flat_map nodes_of S ++ mk :: post)
    with ((pre ++ flat_map nodes_of S) ++ mk :: post) by (norm_app; reflexivity).
  rewrite mount_block.
  - rewrite diffl_app. rewrite (sib_diffl x pre); auto.
    2:{ intros; apply in_or_app; left; auto. }
    rewrite (sib_diffl x post); auto.
    2:{ intros; apply in_or_app; right; right; auto. }
    rewrite flat_diffl; auto. rewrite flat_map_app. cbn [flat_map]. rewrite app_nil_r.
    norm_app. reflexivity.
  - apply (g_nodup _ _ _ _ _ G); auto.
  - intro Hc. eapply (g_sib _ _ _ _ _ G x mk); eauto. apply in_or_app. right. left. auto.
  - intro Hin. apply in_app_or in Hin. destruct Hin as [Hin|Hin].
    + pose proof (g_sibs _ _ _ _ _ G) as Hs. apply NoDup_remove_2 in Hs. apply Hs.
      apply in_or_app. left. auto.
    + apply in_flat_map in Hin. destruct Hin as [k [Hk Hak]].
      eapply (g_sib _ _ _ _ _ G k mk); eauto. apply in_or_app. right. left. auto.
Qed.

End Render.

(* ------------------------------------------------------------ order of the placed keys *)

Lemma filter_mem_remove : forall P x S, ~ In x P ->
  filter (fun k => memN k P) (remove_node x S) = filter (fun k => memN k P) S.
Proof.
  intros P x S Hx. unfold remove_node. rewrite filter_filter. apply filter_ext. intros k.
  destruct (N.eqb_spec x k) as [E|E]; cbn [negb andb]; auto.
  subst. symmetry. apply memN_false. auto.
Qed.

Lemma filter_mem_grow : forall A x B S, ~ In x S ->
  filter (fun k => memN k (A ++ x :: B)) S = filter (fun k => memN k (A ++ B)) S.
Proof.
  intros A x B S Hx. apply filter_ext_in. intros k Hk.
  destruct (memN k (A ++ B)) eqn:E.
  - apply memN_In. apply memN_In in E. apply in_app_or in E. apply in_or_app. simpl. tauto.
  - apply memN_false. apply memN_false in E. intro H. apply E. apply in_app_or in H.
    apply in_or_app. destruct H as [H|[H|H]]; auto. subst. contradiction.
Qed.

(** placing [x] right before the next placed key [y] keeps the placed keys in placed order *)
Lemma place_before : forall S1 S2 y x A B,
  NoDup (S1 ++ y :: S2) -> ~ In x (A ++ y :: B) -> x <> y ->
  filter (fun k => memN k (A ++ y :: B)) (S1 ++ y :: S2) = A ++ y :: B ->
  filter (fun k => memN k (A ++ x :: y :: B)) (remove_node x S1 ++ x :: y :: remove_node x S2)
  = A ++ x :: y :: B.
Proof.
  intros S1 S2 y x A B Hnd Hx Hxy Hf.
  assert (NoDup (A ++ y :: B)) as HndP by (rewrite <- Hf; apply NoDup_filter; auto).
  assert (memN y (A ++ y :: B) = true) as Hy by (apply memN_In; apply in_or_app; right; left; auto).
  rewrite filter_app in Hf. cbn [filter] in Hf. rewrite Hy in Hf.
  apply app_pivot_inj in Hf.
  2:{ rewrite filter_In. intros [Hc _]. apply NoDup_remove_2 in Hnd. apply Hnd. apply in_or_app. auto. }
  2:{ apply NoDup_remove_2 in HndP. intro; apply HndP; apply in_or_app; auto. }
  destruct Hf as [Hf1 Hf2].
  rewrite filter_app. cbn [filter].
  assert (memN x (A ++ x :: y :: B) = true) as -> by (apply memN_In; apply in_or_app; right; left; auto).
  assert (memN y (A ++ x :: y :: B) = true) as ->
    by (apply memN_In; apply in_or_app; right; right; left; auto).
  rewrite !(filter_mem_grow A x (y :: B)) by (rewrite remove_node_In; tauto).
  rewrite !filter_mem_remove by auto. rewrite Hf1, Hf2. reflexivity.
Qed.

(** placing [x] at the end (before the marker) when no placed key follows *)
Lemma place_end : forall S x A,
  ~ In x A -> filter (fun k => memN k A) S = A ->
  filter (fun k => memN k (A ++ [x])) (remove_node x S ++ [x]) = A ++ [x].
Proof.
  intros S x A Hx Hf. rewrite filter_app. cbn [filter].
  assert (memN x (A ++ [x]) = true) as -> by (apply memN_In; apply in_or_app; right; left; auto).
  rewrite (filter_mem_grow A x []) by (rewrite remove_node_In; tauto).
  rewrite app_nil_r. rewrite filter_mem_remove by auto. rewrite Hf. reflexivity.
Qed.
