(** Executable model of how tachys view states are built, mounted, rebuilt in place and
    unmounted (tachys/src/view/{strings,tuples,either,iterators,any_view}.rs,
    html/element/mod.rs, html/attribute/value.rs, html/class.rs, html/style.rs), for the
    grammar driven by harness/dom/src/c03.rs: every child position is an [AnyView].

    A parent element's children are a list of node ids (Dom.v); what a node IS (text,
    comment, element with attributes and its own child list) is kept in the view state that
    owns it, exactly like the [Render::State]s keep handles to their nodes.  Model only. *)
From Coq Require Import List NArith Bool Arith.
From LV Require Import Dom.Dom Dom.Keyed.
Import ListNotations.

Definition str := list N.

(** the attribute values of an element view: id: Option<String>, hidden: bool,
    class: String, class:on: bool, style:color: String *)
Record vattrs := { va_id : option str; va_hidden : bool; va_class : str; va_on : bool; va_color : str }.

Inductive view :=
| VText (kind : nat) (s : str)                     (* 0 String (also &str once erased), 1 i32 *)
| VUnit
| VEl (tag : nat) (a : vattrs) (child : view)      (* any element: 0 p, 1 span, 2 div, and the raw-text elements
                                                      3 textarea, 4 style, 5 script, 6 noscript
                                                      ([ESCAPE_CHILDREN = false]): on the client
                                                      [Render::build] / [rebuild] of [HtmlElement] build, mount,
                                                      RETAIN and rebuild the children of every element alike
                                                      (only [hydrate] and the HTML output look at that flag) *)
| VTuple (arr : bool) (l : list view)              (* tuple, or array [T; N] *)
| VEither (arity : nat) (branch : nat) (child : view)   (* Either (2) / EitherOf3 (3) *)
| VOpt (o : option view)
| VVec (l : list view)
| VStatic (l : list view)
| VKeyed (items : list (N * view)).                (* keyed(items, key, view_fn), item views erased *)

(** what the DOM holds for an element: id attribute, hidden attribute, class attribute
    (its tokens), inline style color *)
Record dattrs := { da_id : option str; da_hidden : bool; da_class : option (list str); da_color : option str }.

(** [Render::State] of each view; node ids are handles to DOM nodes *)
Inductive st :=
| SText (id : N) (kind : nat) (s : str)            (* StringState / StrState / I32State *)
| SUnit (id : N)                                   (* Placeholder of [()] *)
| SEl (id : N) (tag : nat) (prev : vattrs) (dom_attrs : dattrs) (kids : list N) (child : st)
                                                   (* ElementState + the element's own children *)
| STuple (arr : bool) (l : list st)                (* tuple states / ArrayState *)
| SEither (arity : nat) (branch : nat) (child : st)
| SOptSome (child : st)                            (* OptionState = Either<T::State, Placeholder> *)
| SOptNone (ph : N)
| SVec (l : list st) (marker : N)                  (* VecState *)
| SStatic (l : list st) (mounted : bool)           (* StaticVecState; [mounted] = parent.is_some() *)
| SKeyed (rows : list (N * nat * st)) (marker : N) (gen : nat).
                                                   (* KeyedState: key, number of the view_fn call, item state *)

(** [TypeId] of the erased view: its outermost constructor *)
Inductive tcode := TText (kind : nat) | TUnit | TEl (tag : nat) | TTuple (arr : bool) (n : nat) | TEither (arity : nat) | TOpt | TVec | TStatic | TKeyed.

Definition tc_view (v : view) : tcode :=
  match v with
  | VText k _ => TText k | VUnit => TUnit | VEl tag _ _ => TEl tag | VTuple arr l => TTuple arr (length l)
  | VEither ar _ _ => TEither ar | VOpt _ => TOpt | VVec _ => TVec | VStatic _ => TStatic | VKeyed _ => TKeyed
  end.
Definition tc_st (s : st) : tcode :=
  match s with
  | SText _ k _ => TText k | SUnit _ => TUnit | SEl _ tag _ _ _ _ => TEl tag | STuple arr l => TTuple arr (length l)
  | SEither ar _ _ => TEither ar | SOptSome _ | SOptNone _ => TOpt | SVec _ _ => TVec | SStatic _ _ => TStatic
  | SKeyed _ _ _ => TKeyed
  end.
Definition tcode_eqb (a b : tcode) : bool :=
  match a, b with
  | TUnit, TUnit | TOpt, TOpt | TVec, TVec | TStatic, TStatic | TKeyed, TKeyed => true
  | TText x, TText y => Nat.eqb x y
  | TEither x, TEither y => Nat.eqb x y
  | TEl x, TEl y => Nat.eqb x y
  | TTuple a x, TTuple b y => Bool.eqb a b && Nat.eqb x y
  | _, _ => false
  end.

(* ------------------------------------------------------------------ strings, classes *)
Fixpoint str_eqb (a b : str) : bool :=
  match a, b with
  | [], [] => true
  | x :: a, y :: b => N.eqb x y && str_eqb a b
  | _, _ => false
  end.
Definition ostr_eqb (a b : option str) : bool :=
  match a, b with Some x, Some y => str_eqb x y | None, None => true | _, _ => false end.

(** split at spaces (class strings are single-space separated tokens) *)
Fixpoint tokens_aux (s : str) (cur : str) : list str :=
  match s with
  | [] => match cur with [] => [] | _ => [rev cur] end
  | c :: r => if N.eqb c 32 then match cur with [] => tokens_aux r [] | _ => rev cur :: tokens_aux r [] end
              else tokens_aux r (c :: cur)
  end.
Definition tokens (s : str) : list str := tokens_aux s [].
Definition tok_on : str := [111; 110]%N.
Definition has_tok (t : str) (l : list str) : bool := existsb (str_eqb t) l.
(** [classList.add] / [classList.remove] *)
Definition add_class (t : str) (c : option (list str)) : option (list str) :=
  match c with
  | Some l => if has_tok t l then Some l else Some (l ++ [t])
  | None => Some [t]
  end.
Definition remove_class (t : str) (c : option (list str)) : option (list str) :=
  match c with
  | Some l => Some (filter (fun x => negb (str_eqb t x)) l)
  | None => None
  end.

(** attributes of a freshly built element: set in declaration order *)
Definition build_attrs (a : vattrs) : dattrs :=
  {| da_id := va_id a; da_hidden := va_hidden a;
     da_class := (if va_on a then add_class tok_on else fun c => c) (Some (tokens (va_class a)));
     da_color := Some (va_color a) |}.

(** [attributes.rebuild]: each attribute against its previous value.  The class string has
    become an [Arc<str>] on the way through [into_any()], whose rebuild compares pointers:
    the class attribute is always written again; the [class:on] toggle only reacts to a
    change of its own flag *)
Definition rebuild_attrs (a prev : vattrs) (d : dattrs) : dattrs :=
  let c1 := Some (tokens (va_class a)) in
  let c2 := if Bool.eqb (va_on a) (va_on prev) then c1
            else if va_on a then add_class tok_on c1 else remove_class tok_on c1 in
  {| da_id := match va_id a, va_id prev with
              | None, None => da_id d
              | None, Some _ => None
              | Some v, None => Some v
              | Some v, Some p => if str_eqb v p then da_id d else Some v
              end;
     da_hidden := if Bool.eqb (va_hidden a) (va_hidden prev) then da_hidden d else va_hidden a;
     da_class := c2;
     da_color := if str_eqb (va_color a) (va_color prev) then da_color d else Some (va_color a) |}.

(* ------------------------------------------------------------------------ Mountable *)

(** the top-level nodes a state owns, in mount order *)
Fixpoint ids (s : st) : list N :=
  match s with
  | SText id _ _ | SUnit id | SEl id _ _ _ _ _ => [id]
  | STuple _ l => flat_map ids l
  | SEither _ _ c | SOptSome c => ids c
  | SOptNone ph => [ph]
  | SVec l mk => flat_map ids l ++ [mk]
  | SStatic l _ => flat_map ids l
  | SKeyed rows mk _ => flat_map (fun r => ids (snd r)) rows ++ [mk]
  end.

(** [mount] reaches every member state; a StaticVec remembers that it has a parent *)
Fixpoint mark_mounted (s : st) : st :=
  match s with
  | STuple a l => STuple a (map mark_mounted l)
  | SEither ar r c => SEither ar r (mark_mounted c)
  | SOptSome c => SOptSome (mark_mounted c)
  | SVec l mk => SVec (map mark_mounted l) mk
  | SStatic l _ => SStatic (map mark_mounted l) true
  | SKeyed rows mk g => SKeyed (map (fun r => (fst r, mark_mounted (snd r))) rows) mk g
  | _ => s
  end.

(** [state.mount(parent, anchor)]: each node in order before the anchor *)
Definition mount_ids (ns : list N) (anchor : option N) (dom : list N) : list N :=
  fold_left (fun d n => insert_before n anchor d) ns dom.
Definition mount_st (s : st) (anchor : option N) (dom : list N) : st * list N :=
  (mark_mounted s, mount_ids (ids s) anchor dom).

Definition unmount_st (s : st) (dom : list N) : list N :=
  fold_left (fun d n => remove_node n d) (ids s) dom.

(** [state.insert_before_this(child)]: the node (in order) that has a parent, if any *)
Fixpoint anchor_of (s : st) (dom : list N) : option N :=
  match s with
  | SText id _ _ | SUnit id | SEl id _ _ _ _ _ => if memN id dom then Some id else None
  | STuple _ l => (fix first l := match l with [] => None | x :: r =>
                   match anchor_of x dom with Some a => Some a | None => first r end end) l
  | SEither _ _ c | SOptSome c => anchor_of c dom
  | SOptNone ph => if memN ph dom then Some ph else None
  | SVec l mk => match (fix first l := match l with [] => None | x :: r =>
                          match anchor_of x dom with Some a => Some a | None => first r end end) l with
                 | Some a => Some a
                 | None => if memN mk dom then Some mk else None
                 end
  | SStatic l _ => (fix first l := match l with [] => None | x :: r =>
                      match anchor_of x dom with Some a => Some a | None => first r end end) l
  | SKeyed rows mk _ =>
      (* rendered_items.first(): only the first row is asked; the marker if there is no row *)
      match rows with
      | r :: _ => anchor_of (snd r) dom
      | [] => if memN mk dom then Some mk else None
      end
  end.

(** returns the child as mounted (or untouched when [self] is not in the UI — the boolean
    that Either / AnyView ignore) *)
Definition insert_before_this (s child : st) (dom : list N) : bool * st * list N :=
  match anchor_of s dom with
  | Some a => let '(c, d) := mount_st child (Some a) dom in (true, c, d)
  | None => (false, child, dom)
  end.

(* ----------------------------------------------------------------------------- build *)

Fixpoint build (v : view) (nx : N) : st * N :=
  match v with
  | VText k s => (SText nx k s, (nx + 1)%N)
  | VUnit => (SUnit nx, (nx + 1)%N)
  | VEl tag a c =>
      (* create_element; attributes.build; children.build(); children.mount(&el, None) *)
      let '(cs, nx1) := build c (nx + 1)%N in
      let '(cs', kids) := mount_st cs None [] in
      (SEl nx tag a (build_attrs a) kids cs', nx1)
  | VTuple arr l =>
      let '(ss, nx1) := (fix go l nx := match l with
                           | [] => ([], nx)
                           | x :: r => let '(s, n1) := build x nx in
                                       let '(ss, n2) := go r n1 in (s :: ss, n2)
                           end) l nx in
      (STuple arr ss, nx1)
  | VEither ar r c => let '(s, nx1) := build c nx in (SEither ar r s, nx1)
  | VOpt (Some c) => let '(s, nx1) := build c nx in (SOptSome s, nx1)
  | VOpt None => (SOptNone nx, (nx + 1)%N)
  | VVec l =>
      (* the marker is created first *)
      let '(ss, nx1) := (fix go l nx := match l with
                           | [] => ([], nx)
                           | x :: r => let '(s, n1) := build x nx in
                                       let '(ss, n2) := go r n1 in (s :: ss, n2)
                           end) l (nx + 1)%N in
      (SVec ss nx, nx1)
  | VStatic l =>
      let '(ss, nx1) := (fix go l nx := match l with
                           | [] => ([], nx)
                           | x :: r => let '(s, n1) := build x nx in
                                       let '(ss, n2) := go r n1 in (s :: ss, n2)
                           end) l nx in
      (SStatic ss false, nx1)
  | VKeyed items =>
      (* rows are built in order, then the marker is created *)
      let '(rows, nx1) := (fix go (l : list (N * view)) (g : nat) (nx : N) := match l with
                             | [] => ([], nx)
                             | (k, x) :: r => let '(s, n1) := build x nx in
                                              let '(rest, n2) := go r (S g) n1 in ((k, g, s) :: rest, n2)
                             end) items 0 nx in
      (SKeyed rows nx1 (length items), (nx1 + 1)%N)
  end.

(* --------------------------------------------------------------------------- rebuild *)

(** working state of a rebuild: children of the current parent, id counter, sticky panic *)
Record rw := { r_dom : list N; r_next : N; r_panic : bool }.
Definition rpanic (w : rw) : rw := {| r_dom := r_dom w; r_next := r_next w; r_panic := true |}.
Definition with_dom (w : rw) (d : list N) : rw := {| r_dom := d; r_next := r_next w; r_panic := r_panic w |}.

(** [AnyView::rebuild] with a different type / [Either::rebuild] switching sides:
    build, [old.insert_before_this(&mut new)] (result ignored), [old.unmount()] *)
Definition replace_with (v : view) (old : st) (w : rw) : st * rw :=
  let '(ns, nx) := build v (r_next w) in
  let '(_, ns', d1) := insert_before_this old ns (r_dom w) in
  (ns', {| r_dom := unmount_st old d1; r_next := nx; r_panic := r_panic w |}).

(** [Rndr::try_mount_before(item, marker)] (Vec::rebuild, after the [fix:] commit): a list whose marker
    has no parent — the list is not mounted, e.g. the hidden side of an EitherKeepAlive or a view that
    F-C03-a lost — keeps the new item unmounted; [mount] mounts it with the rest of the list *)
Definition mount_before (s : st) (marker : N) (w : rw) : st * rw :=
  if memN marker (r_dom w) then
    let '(s', d) := mount_st s (Some marker) (r_dom w) in (s', with_dom w d)
  else (s, w).

(** [rebuild_any v s w] = [AnyView::rebuild] of the erased [v] on the state [s] *)
Fixpoint rebuild_any (v : view) (s : st) (w : rw) {struct v} : st * rw :=
  if negb (tcode_eqb (tc_view v) (tc_st s)) then replace_with v s w else
  match v, s with
  | VText k t, SText id _ _ => (SText id k t, w)       (* set_text if different *)
  | VUnit, SUnit id => (SUnit id, w)
  | VEl tag a c, SEl id _ prev d kids cs =>
      (* attributes.rebuild; children.rebuild — inside the element *)
      let '(cs', wk) := rebuild_any c cs {| r_dom := kids; r_next := r_next w; r_panic := r_panic w |} in
      (SEl id tag a (rebuild_attrs a prev d) (r_dom wk) cs',
       {| r_dom := r_dom w; r_next := r_next wk; r_panic := r_panic wk |})
  | VTuple arr l, STuple _ ss =>
      let '(ss', w') := (fix go l ss w := match l, ss with
                           | x :: r, s :: sr => let '(s', w1) := rebuild_any x s w in
                                                let '(rest, w2) := go r sr w1 in (s' :: rest, w2)
                           | _, _ => ([], w)
                           end) l ss w in
      (STuple arr ss', w')
  | VEither ar r c, SEither _ r0 cs =>
      if Nat.eqb r r0 then let '(cs', w') := rebuild_any c cs w in (SEither ar r cs', w')
      else let '(ns, w') := replace_with c cs w in (SEither ar r ns, w')
  | VOpt (Some c), SOptSome cs => let '(cs', w') := rebuild_any c cs w in (SOptSome cs', w')
  | VOpt None, SOptSome cs =>
      (* new placeholder; old.insert_before_this(new); old.unmount() *)
      let ph := r_next w in
      let '(_, _, d1) := insert_before_this cs (SUnit ph) (r_dom w) in
      (SOptNone ph, {| r_dom := unmount_st cs d1; r_next := (ph + 1)%N; r_panic := r_panic w |})
  | VOpt (Some c), SOptNone ph =>
      let '(ns, w') := replace_with c (SUnit ph) w in (SOptSome ns, w')
  | VOpt None, SOptNone ph => (SOptNone ph, w)
  | VVec l, SVec ss mk =>
      match ss, l with
      | [], _ =>
          (* build everything, then mount each item before the marker *)
          let '(ns, nx) := (fix go l nx := match l with
                              | [] => ([], nx)
                              | x :: r => let '(s, n1) := build x nx in
                                          let '(rest, n2) := go r n1 in (s :: rest, n2)
                              end) l (r_next w) in
          let '(ns', w') := fold_left (fun acc s => let '(done, w) := acc in
                                                    if r_panic w then (done ++ [s], w) else
                                                    let '(s', w1) := mount_before s mk w in (done ++ [s'], w1))
                                      ns ([], {| r_dom := r_dom w; r_next := nx; r_panic := r_panic w |}) in
          (SVec ns' mk, w')
      | _, [] =>
          (SVec [] mk, with_dom w (fold_left (fun d s => unmount_st s d) ss (r_dom w)))
      | _, _ =>
          (* zip_longest *)
          let '(kept, adds, w') :=
            (fix go l ss w := match l, ss with
               | x :: r, s :: sr => let '(s', w1) := rebuild_any x s w in
                                    let '(kept, adds, w2) := go r sr w1 in (s' :: kept, adds, w2)
               | x :: r, [] =>
                   if r_panic w then ([], [], w) else
                   let '(s, nx) := build x (r_next w) in
                   let '(s', w1) := mount_before s mk {| r_dom := r_dom w; r_next := nx; r_panic := r_panic w |} in
                   let '(kept, adds, w2) := go r [] w1 in (kept, s' :: adds, w2)
               | [], s :: sr =>
                   (fix drop sr w := match sr with
                      | [] => ([], [], w)
                      | s :: sr => drop sr (with_dom w (unmount_st s (r_dom w)))
                      end) (s :: sr) w
               | [], [] => ([], [], w)
               end) l ss w in
          (SVec (kept ++ adds) mk, w')
      end
  | VStatic l, SStatic ss mounted =>
      (* unmount everything; parent.take().expect(..); build; mount(parent, None) *)
      let d1 := fold_left (fun d s => unmount_st s d) ss (r_dom w) in
      if negb mounted then (SStatic ss mounted, rpanic w) else
      let '(ns, nx) := (fix go l nx := match l with
                          | [] => ([], nx)
                          | x :: r => let '(s, n1) := build x nx in
                                      let '(rest, n2) := go r n1 in (s :: rest, n2)
                          end) l (r_next w) in
      let '(s', d2) := mount_st (SStatic ns false) None d1 in
      (s', {| r_dom := d2; r_next := nx; r_panic := r_panic w |})
  | VKeyed items, SKeyed rows mk g0 =>
      (* Keyed::rebuild = diff + apply_diff of Keyed.v, the item views being whatever views the
         keys map to; retained rows keep their state untouched (view_fn is not called for them) *)
      let keys := map fst items in
      let view_of := fun k => match find (fun kv => N.eqb (fst kv) k) items with
                              | Some kv => snd kv | None => VUnit end in
      let bld : builder := fun k nx => let '(c, nx') := build (view_of k) nx in (ids c, nx') in
      let kst := {| ks_bld := bld; ks_dom := r_dom w; ks_marker := mk;
                    ks_keys := map (fun r => fst (fst r)) rows;
                    ks_items := map (fun r => {| it_key := fst (fst r); it_gen := snd (fst r);
                                                 it_nodes := ids (snd r) |}) rows;
                    ks_next := r_next w; ks_gen := g0 |} in
      let '(kst', _, p) := Keyed.rebuild kst keys in
      let rows' := (fix go (its : list item) (nx : N) := match its with
                      | [] => []
                      | it :: r =>
                          match find (fun r0 => N.eqb (fst (fst r0)) (it_key it)) rows with
                          | Some r0 => (it_key it, it_gen it, snd r0) :: go r nx
                          | None => let '(c, nx') := build (view_of (it_key it)) nx in
                                    (it_key it, it_gen it, c) :: go r nx'
                          end
                      end) (ks_items kst') (r_next w) in
      (SKeyed rows' mk (ks_gen kst'),
       {| r_dom := ks_dom kst'; r_next := ks_next kst'; r_panic := r_panic w || p |})
  | _, _ => (s, rpanic w)
  end.
