(** Executable entry point of the C11 model for the correspondence check.
    case  (m npre npost (l0 l1 ... ln));  observation: see harness/dom/src/c11.rs *)
From Coq Require Import List ZArith NArith Bool.
From LV Require Import Base.Sexp Dom.Dom Dom.Keyed.
Import ListNotations.

Definition label := (Z * Z * Z)%type.
Definition labels := list (node * label).

Fixpoint lookup (n : node) (t : labels) : label :=
  match t with
  | [] => ((-4)%Z, 0%Z, 0%Z)
  | (x, l) :: r => if N.eqb n x then l else lookup n r
  end.

Definition item_labels (it : item) : labels :=
  map (fun jn => (snd jn, (Z.of_N (it_key it), Z.of_nat (it_gen it), Z.of_nat (fst jn))))
      (enumerate_from 0 (it_nodes it)).

Definition s_children (t : labels) (before dom : list node) : sexp :=
  Lst (map (fun n =>
              let '(k, g, j) := lookup n t in
              Lst [Num k; Num g; Num j;
                   Num (match index_of n before with Some p => Z.of_nat p | None => (-1)%Z end)])
           dom).

Definition s_event (e : event) : sexp :=
  match e with
  | EvSetIndex k g i => Lst [Num 0; sN k; snat g; snat i]
  | EvMount k g => Lst [Num 1; sN k; snat g]
  | EvUnmount k g => Lst [Num 2; sN k; snat g]
  | EvBuild k g i => Lst [Num 3; sN k; snat g; snat i]
  end.

Fixpoint run_steps (t : labels) (st : kstate) (ls : list (list N)) : list sexp :=
  match ls with
  | [] => []
  | l :: rest =>
      let '(st', log, p) := rebuild st l in
      if p then [Lst [Num (-9)]] else
      let t' := t ++ flat_map item_labels (ks_items st') in
      Lst [s_children t' (ks_dom st) (ks_dom st'); Lst (map s_event log)] :: run_steps t' st' rest
  end.

Definition run_C11 (c : sexp) : sexp :=
  let m := as_nat (nth_s 0 c) in
  let npre := as_nat (nth_s 1 c) in
  let npost := as_nat (nth_s 2 c) in
  let ls := map (fun l => map as_N (as_list l)) (as_list (nth_s 3 c)) in
  let pre := map N.of_nat (seq 0 npre) in
  let post := map N.of_nat (seq npre npost) in
  let t0 := map (fun i => (N.of_nat i, ((-1)%Z, 0%Z, Z.of_nat i))) (seq 0 npre)
            ++ map (fun j => (N.of_nat (npre + j), ((-2)%Z, 0%Z, Z.of_nat j))) (seq 0 npost) in
  match ls with
  | [] => Lst []
  | l0 :: rest =>
      let '(st, log) := build_mount m (pre ++ post) (hd_error post) (N.of_nat (npre + npost)) l0 in
      let t := t0 ++ [(ks_marker st, ((-3)%Z, 0%Z, 0%Z))] ++ flat_map item_labels (ks_items st) in
      Lst (Lst [s_children t (pre ++ post) (ks_dom st); Lst (map s_event log)]
           :: run_steps t st rest)
  end.
