(** Executable entry point of the C11 model for the correspondence check.
    case  (m npre npost (l0 l1 ... ln));  observation: see harness/dom/src/c11.rs *)
From Coq Require Import List ZArith NArith Bool.
From LV Require Import Base.Sexp Dom.Dom Dom.Keyed.
Import ListNotations.

Definition label := (Z * Z * Z)%type.
Definition labels := list (node * label).

Fixpoint lookup (n : node) (t : labels) : label :=
  match t with
  | [] => ((-4)%Z, 0%Z, 0%Z)
  | (x, l) :: r => if N.eqb n x then l else lookup n r
  end.

Definition item_labels (it : item) : labels :=
  map (fun jn => (snd jn, (Z.of_N (it_key it), Z.of_nat (it_gen it), Z.of_nat (fst jn))))
      (enumerate_from 0 (it_nodes it)).

Definition s_children (t : labels) (before dom : list node) : sexp :=
  Lst (map (fun n =>
              let '(k, g, j) := lookup n t in
              Lst [Num k; Num g; Num j;
                   Num (match index_of n before with Some p => Z.of_nat p | None => (-1)%Z end)])
           dom).

Definition s_event (e : event) : sexp :=
  match e with
  | EvSetIndex k g i => Lst [Num 0; sN k; snat g; snat i]
  | EvMount k g => Lst [Num 1; sN k; snat g]
  | EvUnmount k g => Lst [Num 2; sN k; snat g]
  | EvBuild k g i => Lst [Num 3; sN k; snat g; snat i]
  end.

(* ------------------------------------------------------------ shaped rows (mode 20) *)
(** which of the top-level nodes of a row of the given shape are visible (text / element; [false] =
    comment: the marker of an inner keyed list or Vec, the placeholder of [()] / [None]), in mount
    order.  Shapes: see harness/dom/src/c11.rs. *)
Fixpoint shape_nodes (fuel : nat) (s : sexp) : list bool :=
  match fuel with
  | 0 => [true]
  | S f =>
      let kids := flat_map (shape_nodes f) (tl (as_list s)) in
      match as_Z (nth_s 0 s) with
      | 1%Z => [false]
      | 3%Z | 9%Z | 10%Z => kids
      | 4%Z | 5%Z => kids ++ [false]
      | 6%Z | 11%Z => match tl (as_list s) with [] => [false] | _ => kids end
      | 7%Z | 8%Z => shape_nodes f (nth_s 2 s)
      | 12%Z => shape_nodes f (nth_s (if Z.eqb (as_Z (nth_s 1 s)) 0 then 2 else 3) s)
      | _ => [true]
      end
  end.

Definition shape_of (shapes : list (list bool)) (k : N) : list bool :=
  nth (N.to_nat (N.modulo k (N.of_nat (length shapes)))) shapes [true].

(** labels of a shaped row: node [j] is [(key gen j)] if visible, a comment otherwise *)
Definition shaped_labels (shapes : list (list bool)) (it : item) : labels :=
  map (fun jn => (snd jn,
                  if nth (fst jn) (shape_of shapes (it_key it)) true
                  then (Z.of_N (it_key it), Z.of_nat (it_gen it), Z.of_nat (fst jn))
                  else ((-3)%Z, 0%Z, 0%Z)))
      (enumerate_from 0 (it_nodes it)).

(** [state.unmount(); state.mount(&parent, anchor)] (a list that is hidden and shown again, e.g. under an
    Either that switches back and forth with a kept state): every item and the marker leave the parent, then
    every item, in order, and the marker are mounted before the anchor.  COMPARED with the implementation, not
    under the theorems (the invariant [st_wf] after a re-mount is not proved). *)
Definition remount (st : kstate) (anchor : option node) : kstate * list event :=
  let w0 := {| w_children := []; w_dom := unmount st;
               w_log := map (fun it => EvUnmount (it_key it) (it_gen it)) (ks_items st);
               w_next := ks_next st; w_gen := ks_gen st; w_panic := false |} in
  let w1 := fold_left (step_mount anchor) (ks_items st) w0 in
  ({| ks_bld := ks_bld st; ks_dom := insert_before (ks_marker st) anchor (w_dom w1); ks_marker := ks_marker st;
      ks_keys := ks_keys st; ks_items := ks_items st; ks_next := ks_next st; ks_gen := ks_gen st |}, w_log w1).

(** a step of a history: a key list, or [(-1)] = unmount + mount again.  [keep] says which events the harness
    logs (rows that are plain elements cannot log their own mount / unmount).  After the last step the list is
    unmounted: the last entry shows what is left in the parent. *)
Definition no_mounts (l : list event) : list event :=
  filter (fun e => match e with EvMount _ _ => false | _ => true end) l.

(** [state.mount(&parent, anchor)] of a list that is not in the parent *)
Definition mount_again (st : kstate) (anchor : option node) : kstate * list event :=
  let w0 := {| w_children := []; w_dom := ks_dom st; w_log := [];
               w_next := ks_next st; w_gen := ks_gen st; w_panic := false |} in
  let w1 := fold_left (step_mount anchor) (ks_items st) w0 in
  ({| ks_bld := ks_bld st; ks_dom := insert_before (ks_marker st) anchor (w_dom w1); ks_marker := ks_marker st;
      ks_keys := ks_keys st; ks_items := ks_items st; ks_next := ks_next st; ks_gen := ks_gen st |}, w_log w1).

Definition with_ks_dom (st : kstate) (d : list node) : kstate :=
  {| ks_bld := ks_bld st; ks_dom := d; ks_marker := ks_marker st; ks_keys := ks_keys st;
     ks_items := ks_items st; ks_next := ks_next st; ks_gen := ks_gen st |}.

Fixpoint run_steps (lab : item -> labels) (keep : event -> bool) (anchor : option node) (hidden : bool) (t : labels)
                   (st : kstate) (ls : list (list Z)) : list sexp :=
  match ls with
  | [] =>
      [Lst [s_children t (ks_dom st) (unmount st);
            Lst (map s_event (filter keep (map (fun it => EvUnmount (it_key it) (it_gen it)) (ks_items st))))]]
  | [(-1)%Z] :: rest =>
      let '(st', log) := remount st anchor in
      Lst [s_children t (ks_dom st) (ks_dom st'); Lst (map s_event (filter keep log))]
      :: run_steps lab keep anchor hidden t st' rest
  | [(-2)%Z] :: rest =>
      (* unmounted by a parent that keeps the state: rows and marker leave the DOM *)
      let st' := with_ks_dom st (unmount st) in
      Lst [s_children t (ks_dom st) (ks_dom st');
           Lst (map s_event (filter keep (map (fun it => EvUnmount (it_key it) (it_gen it)) (ks_items st))))]
      :: run_steps lab keep anchor true t st' rest
  | [(-3)%Z] :: rest =>
      let '(st', log) := mount_again st anchor in
      Lst [s_children t (ks_dom st) (ks_dom st'); Lst (map s_event (filter keep log))]
      :: run_steps lab keep anchor false t st' rest
  | [(-4)%Z] :: rest =>
      Lst [s_children t (ks_dom st) (ks_dom st); Lst []] :: run_steps lab keep anchor hidden t st rest
  | l :: rest =>
      (* a list that is not in the DOM is diffed all the same: every insertion relative to a detached node
         or marker is the no-op of Dom.insert_before, every removal removes nothing; [mount] places the rows *)
      let '(st', log, p) := rebuild st (map Z.to_N l) in
      if p then [Lst [Num (-9)]] else
      let t' := t ++ flat_map lab (ks_items st') in
      Lst [s_children t' (ks_dom st) (ks_dom st');
           Lst (map s_event (filter keep (if hidden then no_mounts log else log)))]
      :: run_steps lab keep anchor hidden t' st' rest
  end.

Definition keep_all (e : event) : bool := true.
Definition keep_calls (e : event) : bool :=
  match e with EvMount _ _ | EvUnmount _ _ => false | _ => true end.

(* ------------------------------------------------------------ leptos <For> / <ForEnumerate> *)
(** modes 11 / 12 (harness/dom/src/c11for.rs): the list is the keyed list of Keyed.v with
    one node per row; every row owns a counter signal that the harness increments once per
    entry.  That the row's reactive state stays alive while the row is retained is what the
    model asserts by answering [count = entries since the row was built] and [disposed = 0]
    (compared with the implementation, not a theorem). *)

Fixpoint birth_of (g : nat) (t : list (nat * nat)) : nat :=
  match t with
  | [] => 0
  | (x, b) :: r => if Nat.eqb x g then b else birth_of g r
  end.

Definition note_births (step : nat) (items : list item) (t : list (nat * nat)) : list (nat * nat) :=
  fold_left (fun t it => if existsb (fun xb => Nat.eqb (fst xb) (it_gen it)) t then t
                         else t ++ [(it_gen it, step)]) items t.

Definition for_entry (enumerate : bool) (t : labels) (births : list (nat * nat)) (keys : list N)
                     (step bump : nat) (before : list node) (n : node) : sexp :=
  let '(k, g, j) := lookup n t in
  let prev := Num (match index_of n before with Some p => Z.of_nat p | None => (-1)%Z end) in
  if (k <? 0)%Z then Lst [Num k; Num 0; Num j; prev]
  else
    let c := snat (step - birth_of (Z.to_nat g) births + bump) in
    if enumerate
    then Lst [Num k; Num g; c; prev;
              Num (match index_of (Z.to_N k) keys with Some p => Z.of_nat p | None => (-7)%Z end)]
    else Lst [Num k; Num g; c; prev].

Definition for_log (e : event) : list sexp :=
  match e with
  | EvUnmount k g => [Lst [Num 4; sN k; snat g]]
  | EvBuild k g _ => [Lst [Num 3; sN k; snat g]]
  | _ => []
  end.

Definition for_step (enumerate : bool) (t : labels) (births : list (nat * nat)) (step : nat)
                    (before : list node) (st : kstate) (log : list event) : sexp * list node :=
  let vis := filter (fun n => negb (N.eqb n (ks_marker st))) (ks_dom st) in
  let a := Lst (map (for_entry enumerate t births (ks_keys st) step 0 before) vis) in
  let b := Lst (map (for_entry enumerate t births (ks_keys st) step 1 vis) vis) in
  let flags := Lst (map (fun it => Lst [sN (it_key it); snat (it_gen it); Num 0; Num 0]) (ks_items st)) in
  (Lst [a; Lst (flat_map for_log log); flags; b], vis).

Fixpoint for_steps (enumerate : bool) (t : labels) (births : list (nat * nat)) (step : nat)
                   (before : list node) (st : kstate) (ls : list (list N)) : list sexp :=
  match ls with
  | [] => []
  | l :: rest =>
      let '(st', log, p) := rebuild st l in
      if p then [Lst [Num (-9)]] else
      let t' := t ++ flat_map item_labels (ks_items st') in
      let births' := note_births step (ks_items st') births in
      let '(out, vis) := for_step enumerate t' births' step before st' log in
      out :: for_steps enumerate t' births' (S step) vis st' rest
  end.

Definition run_for (enumerate : bool) (c : sexp) : sexp :=
  let npre := as_nat (nth_s 1 c) in
  let npost := as_nat (nth_s 2 c) in
  let ls := map (fun l => map as_N (as_list l)) (as_list (nth_s 3 c)) in
  let pre := map N.of_nat (seq 0 npre) in
  let post := map N.of_nat (seq npre npost) in
  let t0 := map (fun i => (N.of_nat i, ((-1)%Z, 0%Z, Z.of_nat i))) (seq 0 npre)
            ++ map (fun j => (N.of_nat (npre + j), ((-2)%Z, 0%Z, Z.of_nat j))) (seq 0 npost) in
  match ls with
  | [] => Lst []
  | l0 :: rest =>
      let '(st, log) := build_mount (fixed_bld 1) (pre ++ post) (hd_error post) (N.of_nat (npre + npost)) l0 in
      let t := t0 ++ [(ks_marker st, ((-3)%Z, 0%Z, 0%Z))] ++ flat_map item_labels (ks_items st) in
      let births := note_births 0 (ks_items st) [] in
      let '(out, vis) := for_step enumerate t births 0 [] st log in
      Lst (out :: for_steps enumerate t births 1 vis st rest)
  end.

Definition run_C11 (c : sexp) : sexp :=
  if Z.eqb (as_Z (nth_s 0 c)) 11 then run_for false c else
  if Z.eqb (as_Z (nth_s 0 c)) 12 then run_for true c else
  (* mode 13 (nested <For> whose inner lists change between the outer updates): not modelled — the
     check judges it with the oracle only *)
  if Z.eqb (as_Z (nth_s 0 c)) 13 then Lst [] else
  (* mode 14 (harness/dom/src/c11store.rs): <For> over a keyed store field; the observation is that of
     mode 11 (the count a row shows is the label of its item in the store, incremented once per entry),
     whatever path the writes take (the 5th component of the case) *)
  if Z.eqb (as_Z (nth_s 0 c)) 14 then run_for false c else
  let mode := as_Z (nth_s 0 c) in
  let shaped := Z.eqb mode 20 in
  (* modes 4 / 5: rows are plain one-node elements (keyed(..).add_any_attr(..) with String keys; a list rendered
     to HTML, hydrated and then updated): only the view_fn and set_index calls are logged *)
  let plain := Z.eqb mode 4 || Z.eqb mode 5 in
  let shapes := map (shape_nodes 40) (as_list (nth_s 4 c)) in
  let bld := if shaped then var_bld (fun k => length (shape_of shapes k))
             else if plain then fixed_bld 1 else fixed_bld (as_nat (nth_s 0 c)) in
  let lab := if shaped then shaped_labels shapes else item_labels in
  let keep := if plain then keep_calls else keep_all in
  let npre := as_nat (nth_s 1 c) in
  let npost := as_nat (nth_s 2 c) in
  let ls := map as_Zs (as_list (nth_s 3 c)) in
  let pre := map N.of_nat (seq 0 npre) in
  let post := map N.of_nat (seq npre npost) in
  let t0 := map (fun i => (N.of_nat i, ((-1)%Z, 0%Z, Z.of_nat i))) (seq 0 npre)
            ++ map (fun j => (N.of_nat (npre + j), ((-2)%Z, 0%Z, Z.of_nat j))) (seq 0 npost) in
  match ls with
  | [] => Lst []
  | l0 :: rest =>
      let '(st1, log1) := build_mount bld (pre ++ post) (hd_error post) (N.of_nat (npre + npost)) (map Z.to_N l0) in
      (* a step (-4) right after the first list: built, but not mounted yet *)
      let deferred := match rest with [(-4)%Z] :: _ => true | _ => false end in
      let st := if deferred then with_ks_dom st1 (pre ++ post) else st1 in
      let log := if deferred then no_mounts log1 else log1 in
      let t := t0 ++ [(ks_marker st, ((-3)%Z, 0%Z, 0%Z))] ++ flat_map lab (ks_items st) in
      Lst (Lst [s_children t (pre ++ post) (ks_dom st); Lst (map s_event (filter keep log))]
           :: run_steps lab keep (hd_error post) deferred t st rest)
  end.
