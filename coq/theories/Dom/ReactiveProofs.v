(** C04 — proofs about Dom/ReactiveView.v. *)
From Coq Require Import List NArith Bool Arith Lia.
From LV Require Import Dom.ReactiveView.
Import ListNotations.

(** * Induction principles for the nested types *)
Section rview_ind'.
  Variable P : rview -> Prop.
  Hypothesis Hs : forall n, P (RStatic n).
  Hypothesis Ht : forall l e, P (RText l e).
  Hypothesis He : forall ps ks, Forall P ks -> P (RElem ps ks).
  Hypothesis Hi : forall l m c a b, P a -> P b -> P (RIf l m c a b).
  Hypothesis Ha : forall l es ea, P (RAsync l es ea).
  Fixpoint rview_ind' (r : rview) : P r :=
    match r with
    | RStatic n => Hs n
    | RText l e => Ht l e
    | RElem ps ks =>
        He ps ks ((fix all (l : list rview) : Forall P l :=
                     match l with [] => Forall_nil P | x :: r => Forall_cons x (rview_ind' x) (all r) end) ks)
    | RIf l m c a b => Hi l m c a b (rview_ind' a) (rview_ind' b)
    | RAsync l es ea => Ha l es ea
    end.
End rview_ind'.

Section inst_ind'.
  Variable P : inst -> Prop.
  Hypothesis Hs : forall id m n, P (IStatic id m n).
  Hypothesis Ht : forall f e id m x, P (IText f e id m x).
  Hypothesis He : forall id m ps ks, Forall P ks -> P (IElem id m ps ks).
  Hypothesis Hi : forall f memo c a b br ch, P ch -> P (IIf f memo c a b br ch).
  Hypothesis Ha : forall f es ea id m sh pe sub, P (IAsync f es ea id m sh pe sub).
  Fixpoint inst_ind' (i : inst) : P i :=
    match i with
    | IStatic id m n => Hs id m n
    | IText f e id m x => Ht f e id m x
    | IElem id m ps ks =>
        He id m ps ks ((fix all (l : list inst) : Forall P l :=
                          match l with [] => Forall_nil P | x :: r => Forall_cons x (inst_ind' x) (all r) end) ks)
    | IIf f memo c a b br ch => Hi f memo c a b br ch (inst_ind' ch)
    | IAsync f es ea id m sh pe sub => Ha f es ea id m sh pe sub
    end.
End inst_ind'.

(** * The invariant: every live effect that is not notified shows the current value; a notified
    one has its task in the run queue ([P] = "is queued") *)
Definition ef_ok (P : nat -> Prop) (f : ef) (current : Prop) : Prop :=
  (note f = false -> current) /\ (note f = true -> P (eid f)).

Definition pinv (s : list N) (P : nat -> Prop) (p : pinst) : Prop :=
  let '(PI k e f x) := p in ef_ok P f (x = pval k (eval s e)).

Fixpoint inv (s : list N) (P : nat -> Prop) (i : inst) {struct i} : Prop :=
  match i with
  | IStatic _ _ _ => True
  | IText f e _ _ x => ef_ok P f (x = eval s e)
  | IElem _ _ ps ks =>
      Forall (pinv s P) ps /\
      (fix go (l : list inst) : Prop := match l with [] => True | k :: l => inv s P k /\ go l end) ks
  | IIf f memo c a b br ch =>
      ef_ok P f (br = nz (eval s c)) /\ view_of ch = (if br then a else b) /\ inv s P ch
  | IAsync f es ea _ _ sh pe sub =>
      (* not notified: a waiting leaf captured the current value of [es]; a settled one shows the
         current value and is subscribed to what its future read *)
      ef_ok P f (match pe with
                 | Some (_, a) => a = eval s es
                 | None => sh = Some (eval s es + eval s ea)%N /\ sub = true
                 end)
  end.
Fixpoint inv_list (s : list N) (P : nat -> Prop) (l : list inst) : Prop :=
  match l with [] => True | k :: l => inv s P k /\ inv_list s P l end.

Lemma inv_elem s P id m ps ks :
  inv s P (IElem id m ps ks) = (Forall (pinv s P) ps /\ inv_list s P ks).
Proof.
  cbn [inv]. f_equal. induction ks as [|k ks IH]; [reflexivity|]. cbn [inv_list]. now rewrite IH.
Qed.

Fixpoint views_of (l : list inst) : list rview :=
  match l with [] => [] | k :: l => view_of k :: views_of l end.
Lemma view_of_elem id m ps ks :
  view_of (IElem id m ps ks) = RElem (map (fun '(PI k e f _) => (k, lbl f, e)) ps) (views_of ks).
Proof. reflexivity. Qed.

Lemma ef_ok_mono (P Q : nat -> Prop) f c : (forall x, P x -> Q x) -> ef_ok P f c -> ef_ok Q f c.
Proof. intros H [A B]. split; auto. Qed.

Lemma inv_mono s (P Q : nat -> Prop) i : (forall x, P x -> Q x) -> inv s P i -> inv s Q i.
Proof.
  intro H. induction i as [id m n|f e id m x|id m ps ks IH|f memo c a b br ch IH|af aes aea aid am ash ape asub] using inst_ind'; intro Hi.
  - exact I.
  - cbn [inv] in *. eapply ef_ok_mono; eauto.
  - rewrite inv_elem in *. destruct Hi as [Hp Hk]. split.
    + eapply Forall_impl; [|exact Hp]. intros [k e f x]. cbn [pinv]. apply ef_ok_mono, H.
    + clear Hp. induction IH as [|k ks Hk1 _ IHks]; [exact I|].
      cbn [inv_list] in *. destruct Hk as [A B]. split; auto.
  - cbn [inv] in *. destruct Hi as (A & B & C). split; [eapply ef_ok_mono; eauto|]. split; auto.
  - cbn [inv] in *. eapply ef_ok_mono; eauto.
Qed.

Definition none (_ : nat) : Prop := False.

(** * Environment bookkeeping *)
Lemma insert_sorted_in x t l : In x (insert_sorted t l) <-> x = t \/ In x l.
Proof.
  induction l as [|y r IH]; cbn [insert_sorted].
  - cbn. intuition.
  - destruct (Nat.ltb t y); [cbn; intuition|].
    destruct (Nat.eqb_spec t y) as [->|Hne]; [cbn; intuition|].
    cbn [In]. rewrite IH. intuition.
Qed.

Definition le_env (v v' : env) : Prop :=
  sigs v' = sigs v /\ (forall x, In x (ready v) -> In x (ready v')).

Lemma le_env_refl v : le_env v v.
Proof. split; auto. Qed.
Lemma le_env_trans a b c : le_env a b -> le_env b c -> le_env a c.
Proof. intros [A1 A2] [B1 B2]. split; [congruence|auto]. Qed.
Lemma le_wake t v : le_env v (wake t v).
Proof. split; [reflexivity|]. intros x Hx. cbn. apply insert_sorted_in. now right. Qed.
Lemma wake_in t v : In t (ready (wake t v)).
Proof. cbn. apply insert_sorted_in. now left. Qed.
Lemma le_logged l v : le_env v (logged l v).
Proof. split; auto. Qed.
Lemma le_log_all ls v : le_env v (log_all ls v).
Proof.
  unfold log_all. revert v. induction ls as [|l ls IH]; intro v; [apply le_env_refl|].
  cbn [fold_left]. eapply le_env_trans; [apply (le_logged l)|apply IH].
Qed.
Lemma le_spawn v : le_env v (snd (spawn v)).
Proof. split; [reflexivity|]. intros x Hx. cbn. apply insert_sorted_in. now right. Qed.
Lemma le_new_node v : le_env v (snd (new_node v)).
Proof. split; auto. Qed.

Lemma le_fold_wake l v : le_env v (fold_left (fun v t => wake t v) l v).
Proof.
  revert v. induction l as [|t l IH]; intro v; [apply le_env_refl|].
  cbn [fold_left]. eapply le_env_trans; [apply le_wake|apply IH].
Qed.
Lemma fold_wake_in l : forall v t, In t l -> In t (ready (fold_left (fun v t => wake t v) l v)).
Proof.
  induction l as [|y l IH]; intros v t Ht; [destruct Ht|].
  cbn [fold_left]. destruct Ht as [->|Ht]; [|now apply IH].
  apply (proj2 (le_fold_wake l (wake t v))). apply wake_in.
Qed.
Lemma le_dispose i v : le_env v (dispose i v).
Proof. apply le_fold_wake. Qed.

(** * build produces a current instance of the view *)
Lemma build_elem ps ks v :
  build (RElem ps ks) v =
  let '(id, v1) := new_node v in
  let '(pis, m, v2) := build_props ps v1 in
  let '(kis, v3) := build_list ks v2 in
  (IElem id (m + length ks)%nat pis kis, v3).
Proof. reflexivity. Qed.

Lemma build_props_ok ps : forall v,
  let '(pis, m, v') := build_props ps v in
  Forall (pinv (sigs v) none) pis /\ map (fun '(PI k e f _) => (k, lbl f, e)) pis = ps /\ le_env v v'.
Proof.
  induction ps as [|[[k l] e] ps IH]; intro v.
  - cbn. repeat split; auto.
  - cbn [build_props build_prop]. cbn [spawn].
    set (v1 := logged l v).
    set (v2 := {| sigs := sigs v1; neid := S (neid v1); nid := nid v1;
                  ready := insert_sorted (neid v1) (ready v1); log := log v1; nfut := nfut v1; opened := opened v1 |}).
    specialize (IH v2). destruct (build_props ps v2) as [[pis m2] v3].
    destruct IH as (A & B & C).
    assert (L : le_env v v2).
    { eapply le_env_trans; [apply (le_logged l)|]. apply (le_spawn v1). }
    repeat split.
    + constructor; [|exact A]. cbn [pinv]. split; [reflexivity|discriminate].
    + cbn [map lbl]. now rewrite B.
    + destruct C as [C1 C2], L as [L1 L2]. congruence.
    + intros x Hx. apply C. now apply L.
Qed.

Definition build_spec (r : rview) : Prop :=
  forall v, let '(i, v') := build r v in
            inv (sigs v) none i /\ view_of i = r /\ le_env v v'.

Lemma build_list_ok ks : Forall build_spec ks -> forall v,
  let '(kis, v') := build_list ks v in
  inv_list (sigs v) none kis /\ views_of kis = ks /\ le_env v v'.
Proof.
  intro IH. induction IH as [|k ks Hk _ IHks]; intro v.
  - cbn. repeat split; auto.
  - cbn [build_list]. specialize (Hk v). destruct (build k v) as [ki v1]. destruct Hk as (A & B & C).
    specialize (IHks v1). destruct (build_list ks v1) as [kis v2]. destruct IHks as (A2 & B2 & C2).
    destruct C as [C1 C3]. rewrite C1 in A2. repeat split.
    + exact A.
    + exact A2.
    + cbn [views_of]. now rewrite B, B2.
    + destruct C2 as [D1 D2]. congruence.
    + intros x Hx. apply C2, C3, Hx.
Qed.

Lemma build_ok r : build_spec r.
Proof.
  induction r as [n|l e|ps ks IH|l m c a b IHa IHb|al aes aea] using rview_ind'; intro v.
  - cbn. repeat split; auto.
  - cbn [build new_node spawn]. repeat split; auto; try discriminate.
    intros x Hx. cbn. apply insert_sorted_in. now right.
  - rewrite build_elem. cbn [new_node].
    set (v1 := {| sigs := sigs v; neid := neid v; nid := S (nid v); ready := ready v; log := log v; nfut := nfut v; opened := opened v |}).
    pose proof (build_props_ok ps v1) as Hp. destruct (build_props ps v1) as [[pis m] v2].
    destruct Hp as (A & B & C).
    pose proof (build_list_ok ks IH v2) as Hk. destruct (build_list ks v2) as [kis v3].
    destruct Hk as (A2 & B2 & C2).
    destruct C as [C1 C3]. rewrite C1 in A2.
    split; [rewrite inv_elem; split; assumption|].
    split; [rewrite view_of_elem; now rewrite B, B2|].
    split.
    + destruct C2 as [D1 D2]. rewrite D1, C1. reflexivity.
    + intros x Hx. apply C2, C3. exact Hx.
  - cbn [build]. set (v1 := logged l v).
    set (br := nz (eval (sigs v1) c)).
    assert (Hsub : build_spec (if br then a else b)) by (destruct br; assumption).
    specialize (Hsub v1). destruct (build (if br then a else b) v1) as [ch v2].
    destruct Hsub as (A & B & C). cbn [spawn].
    split; [|split; [reflexivity|split]].
    + cbn [inv]. split; [split; [reflexivity|discriminate]|]. split; [exact B|exact A].
    + destruct C as [C1 _]. cbn. exact C1.
    + intros x Hx. cbn. apply insert_sorted_in. right. apply C. exact Hx.
  - cbn [build new_future new_node spawn logged sigs]. split; [|split; [reflexivity|split]].
    + cbn [inv]. split; [intros _; reflexivity|discriminate].
    + reflexivity.
    + intros x Hx. cbn. apply insert_sorted_in. now right.
Qed.

(** * rebuild produces a current instance of the same view *)
Lemma rebuild_elem id m ps ks v :
  rebuild (IElem id m ps ks) v =
  let '(ps', mp, v1) := rebuild_props ps v in
  let '(ks', mk, v2) := rebuild_list ks v1 in
  (IElem id (m + mp + mk)%nat ps' ks', false, v2).
Proof. reflexivity. Qed.

Lemma rebuild_props_ok ps : forall v,
  let '(pis, m, v') := rebuild_props ps v in
  Forall (pinv (sigs v) none) pis /\
  map (fun '(PI k e f _) => (k, lbl f, e)) pis = map (fun '(PI k e f _) => (k, lbl f, e)) ps /\ le_env v v'.
Proof.
  induction ps as [|[k e f x] ps IH]; intro v.
  - cbn. repeat split; auto.
  - cbn [rebuild_props rebuild_prop]. cbn [spawn].
    set (v1 := logged (lbl f) v).
    set (v2 := wake (eid f) {| sigs := sigs v1; neid := S (neid v1); nid := nid v1;
                               ready := insert_sorted (neid v1) (ready v1); log := log v1; nfut := nfut v1; opened := opened v1 |}).
    specialize (IH v2). destruct (rebuild_props ps v2) as [[pis m2] v3].
    destruct IH as (A & B & C).
    assert (L : le_env v v2).
    { eapply le_env_trans; [apply (le_logged (lbl f))|].
      eapply le_env_trans; [apply (le_spawn v1)|]. apply le_wake. }
    repeat split.
    + constructor; [|exact A]. cbn [pinv]. split; [reflexivity|discriminate].
    + cbn [map lbl]. now rewrite B.
    + destruct C as [C1 C2], L as [L1 L2]. congruence.
    + intros y Hy. apply C. now apply L.
Qed.

Definition rebuild_spec (i : inst) : Prop :=
  forall v, let '(i', rep, v') := rebuild i v in
            inv (sigs v) none i' /\ view_of i' = view_of i /\ le_env v v'.

Lemma rebuild_list_ok ks : Forall rebuild_spec ks -> forall v,
  let '(ks', m, v') := rebuild_list ks v in
  inv_list (sigs v) none ks' /\ views_of ks' = views_of ks /\ le_env v v'.
Proof.
  intro IH. induction IH as [|k ks Hk _ IHks]; intro v.
  - cbn. repeat split; auto.
  - cbn [rebuild_list]. specialize (Hk v). destruct (rebuild k v) as [[k' rep] v1]. destruct Hk as (A & B & C).
    specialize (IHks v1). destruct (rebuild_list ks v1) as [[ks' mk] v2]. destruct IHks as (A2 & B2 & C2).
    destruct C as [C1 C3]. rewrite C1 in A2. repeat split.
    + exact A.
    + exact A2.
    + cbn [views_of]. now rewrite B, B2.
    + destruct C2 as [D1 D2]. congruence.
    + intros x Hx. apply C2, C3, Hx.
Qed.

Lemma rebuild_ok i : rebuild_spec i.
Proof.
  induction i as [id m n|f e id m x|id m ps ks IH|f memo c a b br ch IH|af aes aea aid am ash ape asub] using inst_ind'; intro v.
  - cbn. repeat split; auto.
  - cbn [rebuild]. pose proof (build_ok (RText (lbl f) e) v) as H.
    destruct (build (RText (lbl f) e) v) as [i' v1]. destruct H as (A & B & C). repeat split.
    + exact A.
    + exact B.
    + destruct C as [C1 _]. rewrite <- C1. apply (le_dispose (IText f e id m x) v1).
    + intros y Hy. apply (le_dispose (IText f e id m x) v1), C, Hy.
  - rewrite rebuild_elem.
    pose proof (rebuild_props_ok ps v) as Hp. destruct (rebuild_props ps v) as [[ps' mp] v1].
    destruct Hp as (A & B & C).
    pose proof (rebuild_list_ok ks IH v1) as Hk. destruct (rebuild_list ks v1) as [[ks' mk] v2].
    destruct Hk as (A2 & B2 & C2).
    destruct C as [C1 C3]. rewrite C1 in A2.
    split; [rewrite inv_elem; split; assumption|].
    split; [rewrite !view_of_elem; now rewrite B, B2|].
    split.
    + destruct C2 as [D1 D2]. congruence.
    + intros y Hy. apply C2, C3, Hy.
  - cbn [rebuild]. pose proof (build_ok (RIf (lbl f) memo c a b) v) as H.
    destruct (build (RIf (lbl f) memo c a b) v) as [i' v1]. destruct H as (A & B & C). repeat split.
    + exact A.
    + exact B.
    + destruct C as [C1 _]. rewrite <- C1. apply (le_dispose (IIf f memo c a b br ch) v1).
    + intros y Hy. apply (le_dispose (IIf f memo c a b br ch) v1), C, Hy.
  - cbn [rebuild]. pose proof (build_ok (RAsync (lbl af) aes aea) v) as H.
    destruct (build (RAsync (lbl af) aes aea) v) as [i' v1]. destruct H as (A & B & C). repeat split.
    + exact A.
    + exact B.
    + destruct C as [C1 _]. rewrite <- C1. apply (le_dispose (IAsync af aes aea aid am ash ape asub) v1).
    + intros y Hy. apply (le_dispose (IAsync af aes aea aid am ash ape asub) v1), C, Hy.
Qed.

(** * A signal write notifies exactly the effects that read it *)
Lemma nth_set_nth_other : forall s i j x, i <> j -> nth i (set_nth j x s) 0%N = nth i s 0%N.
Proof.
  induction s as [|y s IH]; intros i j x Hij; [destruct j; reflexivity|].
  destruct j as [|j]; destruct i as [|i]; cbn [set_nth nth]; try congruence; try reflexivity.
  apply IH. congruence.
Qed.

Lemma eval_set_nth e j x s : reads e j = false -> eval (set_nth j x s) e = eval s e.
Proof.
  induction e as [i|n|a IHa b IHb]; cbn [reads eval]; intro H.
  - apply nth_set_nth_other. apply Nat.eqb_neq in H. congruence.
  - reflexivity.
  - apply orb_false_iff in H as [Ha Hb]. now rewrite IHa, IHb.
Qed.

Fixpoint notify_list (j : nat) (l : list inst) : list inst :=
  match l with [] => [] | k :: l => notify j k :: notify_list j l end.
Fixpoint hits_list (j : nat) (l : list inst) : list nat :=
  match l with [] => [] | k :: l => hits j k ++ hits_list j l end.

Lemma notify_elem j id m ps ks :
  notify j (IElem id m ps ks) =
  IElem id m (map (fun '(PI k e f x) => PI k e (notify_ef (reads e j) f) x) ps) (notify_list j ks).
Proof.
  cbn [notify]. f_equal. induction ks as [|k ks IH]; [reflexivity|]. cbn [notify_list]. now rewrite IH.
Qed.
Lemma hits_elem j id m ps ks : hits j (IElem id m ps ks) = hit_props j ps ++ hits_list j ks.
Proof.
  cbn [hits]. f_equal. induction ks as [|k ks IH]; [reflexivity|]. cbn [hits_list]. now rewrite IH.
Qed.

Lemma view_of_notify j i : view_of (notify j i) = view_of i.
Proof.
  induction i as [id m n|f e id m x|id m ps ks IH|f memo c a b br ch IH|af aes aea aid am ash ape asub] using inst_ind'.
  - reflexivity.
  - cbn. unfold notify_ef. destruct (reads e j); reflexivity.
  - rewrite notify_elem, !view_of_elem. f_equal.
    + rewrite map_map. apply map_ext. intros [k e f x]. unfold notify_ef. destruct (reads e j); reflexivity.
    + induction IH as [|k ks Hk _ IHks]; [reflexivity|]. cbn [notify_list views_of]. now rewrite Hk, IHks.
  - cbn. unfold notify_ef. destruct (reads c j); reflexivity.
  - cbn. unfold notify_ef. destruct (reads aes j || asub && reads aea j); reflexivity.
Qed.

Lemma notify_ef_ok (P Q : nat -> Prop) hit f (c c' : Prop) :
  (forall y, P y -> Q y) -> (hit = true -> Q (eid f)) -> (hit = false -> c -> c') ->
  ef_ok P f c -> ef_ok Q (notify_ef hit f) c'.
Proof.
  intros HPQ Hhit Hc [A B]. unfold notify_ef. destruct hit.
  - split; cbn; [discriminate|]. intros _. now apply Hhit.
  - split; [intro Hn; apply Hc; auto|intro Hn; apply HPQ; auto].
Qed.

Lemma notify_inv j x s (P Q : nat -> Prop) i :
  (forall y, P y -> Q y) -> (forall y, In y (hits j i) -> Q y) ->
  inv s P i -> inv (set_nth j x s) Q (notify j i).
Proof.
  intro HPQ. induction i as [id m n|f e id m v|id m ps ks IH|f memo c a b br ch IH|af aes aea aid am ash ape asub] using inst_ind';
    intros Hh Hi.
  - exact I.
  - cbn [notify inv] in *.
    apply (notify_ef_ok P Q (reads e j) f (v = eval s e) (v = eval (set_nth j x s) e) HPQ); [| |exact Hi].
    + intro E. apply Hh. cbn [hits]. rewrite E. now left.
    + intros E ->. now rewrite eval_set_nth.
  - rewrite notify_elem, inv_elem in *. rewrite hits_elem in Hh. destruct Hi as [Hp Hk]. split.
    + assert (Hh' : forall y, In y (hit_props j ps) -> Q y) by (intros; apply Hh, in_or_app; now left).
      clear Hh Hk IH. induction Hp as [|[k e f v] ps Hp1 _ IHp]; [constructor|].
      cbn [map]. constructor.
      * cbn [pinv] in *.
        apply (notify_ef_ok P Q (reads e j) f (v = pval k (eval s e)) (v = pval k (eval (set_nth j x s) e)) HPQ);
          [| |exact Hp1].
        -- intro E. apply Hh'. cbn [hit_props flat_map]. rewrite E. now left.
        -- intros E ->. now rewrite eval_set_nth.
      * apply IHp. intros y Hy. apply Hh'. cbn [hit_props flat_map]. apply in_or_app. now right.
    + assert (Hh' : forall y, In y (hits_list j ks) -> Q y) by (intros; apply Hh, in_or_app; now right).
      clear Hh Hp. induction IH as [|k ks Hk1 _ IHks]; [exact I|].
      cbn [notify_list inv_list hits_list] in *. destruct Hk as [A B]. split.
      * apply Hk1; [|exact A]. intros y Hy. apply Hh', in_or_app. now left.
      * apply IHks; [exact B|]. intros y Hy. apply Hh', in_or_app. now right.
  - cbn [notify inv hits] in *. destruct Hi as (A & B & C). split; [|split].
    + apply (notify_ef_ok P Q (reads c j) f (br = nz (eval s c)) (br = nz (eval (set_nth j x s) c)) HPQ);
        [| |exact A].
      * intro E. apply Hh. rewrite E. now left.
      * intros E ->. now rewrite eval_set_nth.
    + now rewrite view_of_notify.
    + apply IH; [|exact C]. intros y Hy. apply Hh, in_or_app. now right.
  - cbn [notify inv hits] in *.
    eapply (notify_ef_ok P Q (reads aes j || asub && reads aea j) af _ _ HPQ); [| |exact Hi].
    + intro E. apply Hh. rewrite E. now left.
    + intro E. apply orb_false_iff in E as [E1 E2]. destruct ape as [[k a]|].
      * intros ->. now rewrite eval_set_nth.
      * intros [-> ->]. cbn [andb] in E2. now rewrite !eval_set_nth.
Qed.

(** * Polling a task *)
Lemma poll_elem t id m ps ks v :
  poll t (IElem id m ps ks) v =
  let '(ps', mp, v1) := poll_props t ps v in
  let '(ks', mk, v2) := poll_list t ks v1 in
  (IElem id (m + mp + mk)%nat ps' ks', false, v2).
Proof.
  cbn [poll]. destruct (poll_props t ps v) as [[ps' mp] v1].
  match goal with
  | |- (let '(_, _) := ?G ks v1 in _) = _ => assert (E : forall l w, G l w = poll_list t l w)
  end.
  { induction l as [|a l IHl]; intro w; [reflexivity|].
    cbn [poll_list]. cbn -[poll]. destruct (poll t a w) as [[k' rep] w1]. now rewrite IHl. }
  now rewrite E.
Qed.

Definition queued (t : nat) (v : env) (y : nat) : Prop := y = t \/ In y (ready v).
Definition inq (v : env) (y : nat) : Prop := In y (ready v).

Lemma not_due_ok t f v v' (c : Prop) :
  due t f = false -> le_env v v' -> ef_ok (queued t v) f c -> ef_ok (inq v') f c.
Proof.
  intros Hd [_ L] [A B]. split; [exact A|]. intro Hn. destruct (B Hn) as [E|E]; [|now apply L].
  unfold due in Hd. rewrite Hn, E, Nat.eqb_refl in Hd. discriminate.
Qed.

Lemma poll_props_ok t ps : forall v,
  Forall (pinv (sigs v) (queued t v)) ps ->
  let '(ps', m, v') := poll_props t ps v in
  Forall (pinv (sigs v) (inq v')) ps' /\
  map (fun '(PI k e f _) => (k, lbl f, e)) ps' = map (fun '(PI k e f _) => (k, lbl f, e)) ps /\ le_env v v'.
Proof.
  induction ps as [|[k e f x] ps IH]; intros v Hp.
  - cbn. repeat split; auto.
  - inversion Hp as [|? ? Hp1 Hp2]; subst. cbn [poll_props poll_prop].
    destruct (due t f) eqn:Hd.
    + set (v1 := logged (lbl f) v).
      assert (Hp2' : Forall (pinv (sigs v1) (queued t v1)) ps) by exact Hp2.
      specialize (IH v1 Hp2'). destruct (poll_props t ps v1) as [[ps' m2] v2]. destruct IH as (A & B & C).
      split; [|split].
      * constructor; [|exact A]. cbn [pinv]. split; [reflexivity|discriminate].
      * cbn [map lbl clear]. now rewrite B.
      * eapply le_env_trans; [apply (le_logged (lbl f))|exact C].
    + specialize (IH v Hp2). destruct (poll_props t ps v) as [[ps' m2] v2]. destruct IH as (A & B & C).
      split; [|split].
      * constructor; [|exact A]. cbn [pinv] in *. eapply not_due_ok; eauto.
      * cbn [map]. now rewrite B.
      * exact C.
Qed.

Definition poll_spec (t : nat) (i : inst) : Prop :=
  forall v, inv (sigs v) (queued t v) i ->
  let '(i', rep, v') := poll t i v in
  inv (sigs v) (inq v') i' /\ view_of i' = view_of i /\ le_env v v'.

Lemma queued_le t v v' y : le_env v v' -> queued t v y -> queued t v' y.
Proof. intros [_ L] [E|E]; [now left|right; auto]. Qed.

Lemma poll_list_ok t ks : Forall (poll_spec t) ks -> forall v,
  inv_list (sigs v) (queued t v) ks ->
  let '(ks', m, v') := poll_list t ks v in
  inv_list (sigs v) (inq v') ks' /\ views_of ks' = views_of ks /\ le_env v v'.
Proof.
  intro IH. induction IH as [|k ks Hk _ IHks]; intros v Hi.
  - cbn. repeat split; auto.
  - cbn [inv_list] in Hi. destruct Hi as [Hi1 Hi2]. cbn [poll_list].
    specialize (Hk v Hi1). destruct (poll t k v) as [[k' rep] v1]. destruct Hk as (A & B & C).
    assert (Hi2' : inv_list (sigs v1) (queued t v1) ks).
    { destruct C as [C1 C2]. rewrite C1. clear - Hi2 C2.
      induction ks as [|k ks IH]; [exact I|]. cbn [inv_list] in *. destruct Hi2 as [X Y]. split; [|auto].
      eapply inv_mono; [|exact X]. intros y [E|E]; [now left|right; auto]. }
    specialize (IHks v1 Hi2'). destruct (poll_list t ks v1) as [[ks' mk] v2]. destruct IHks as (A2 & B2 & C2).
    destruct C as [C1 C3]. rewrite C1 in A2. split; [|split].
    + cbn [inv_list]. split; [|exact A2]. eapply inv_mono; [|exact A]. intros y Hy. apply C2, Hy.
    + cbn [views_of]. now rewrite B, B2.
    + split; [destruct C2; congruence|]. intros y Hy. apply C2, C3, Hy.
Qed.

Lemma poll_ok t i : poll_spec t i.
Proof.
  induction i as [id m n|f e id m x|id m ps ks IH|f memo c a b br ch IH|af aes aea aid am ash ape asub] using inst_ind'; intros v Hi.
  - cbn. repeat split; auto.
  - cbn [poll inv] in *. destruct (due t f) eqn:Hd.
    + split; [|split; [reflexivity|]].
      * cbn [inv]. split; [reflexivity|discriminate].
      * eapply le_env_trans; [apply (le_logged (lbl f + cleanup_mark))|apply le_logged].
    + split; [|split; [reflexivity|apply le_env_refl]]. cbn [inv]. eapply not_due_ok; eauto. apply le_env_refl.
  - rewrite poll_elem. rewrite inv_elem in Hi. destruct Hi as [Hp Hk].
    pose proof (poll_props_ok t ps v Hp) as H1. destruct (poll_props t ps v) as [[ps' mp] v1].
    destruct H1 as (A & B & C).
    assert (Hk' : inv_list (sigs v1) (queued t v1) ks).
    { destruct C as [C1 C2]. rewrite C1. clear - Hk C2.
      induction ks as [|k ks IHk]; [exact I|]. cbn [inv_list] in *. destruct Hk as [X Y]. split; [|auto].
      eapply inv_mono; [|exact X]. intros y [E|E]; [now left|right; auto]. }
    pose proof (poll_list_ok t ks IH v1 Hk') as H2. destruct (poll_list t ks v1) as [[ks' mk] v2].
    destruct H2 as (A2 & B2 & C2). destruct C as [C1 C3]. rewrite C1 in A2.
    split; [|split].
    + rewrite inv_elem. split; [|exact A2].
      eapply Forall_impl; [|exact A]. intros [k e f x]. cbn [pinv]. apply ef_ok_mono. intros y Hy. apply C2, Hy.
    + rewrite !view_of_elem. now rewrite B, B2.
    + split; [destruct C2; congruence|]. intros y Hy. apply C2, C3, Hy.
  - cbn [poll inv] in *. destruct Hi as (Hf & Hv & Hc).
    destruct (due t f) eqn:Hd.
    + destruct (memo && Bool.eqb (nz (eval (sigs v) c)) br) eqn:Hm.
      * (* memo unchanged *)
        apply andb_true_iff in Hm as [_ Hm]. apply eqb_prop in Hm.
        specialize (IH v Hc). destruct (poll t ch v) as [[ch' rep] v1]. destruct IH as (A & B & C).
        split; [|split; [reflexivity|exact C]]. cbn [inv].
        split; [split; [intros _; now rewrite Hm|discriminate]|]. split; [now rewrite B|exact A].
      * destruct (Bool.eqb (nz (eval (sigs v) c)) br) eqn:Hb.
        -- (* same side: rebuild *)
           apply eqb_prop in Hb. set (v1 := logged (lbl f) (log_all (cleanups ch) v)).
           assert (Lv1 : le_env v v1).
           { eapply le_env_trans; [apply (le_log_all (cleanups ch))|apply le_logged]. }
           pose proof (rebuild_ok ch v1) as H. destruct (rebuild ch v1) as [[ch' rep] v2].
           destruct H as (A & B & C). rewrite (proj1 Lv1) in A.
           split; [|split; [reflexivity|]].
           ++ cbn [inv]. split; [split; [intros _; now rewrite Hb|discriminate]|].
              split; [now rewrite B|]. eapply inv_mono; [|exact A]. intros y [].
           ++ eapply le_env_trans; [exact Lv1|exact C].
        -- (* other side: build the new branch, drop the old state *)
           set (v1 := logged (lbl f) (log_all (cleanups ch) v)). set (br' := nz (eval (sigs v) c)).
           assert (Lv1 : le_env v v1).
           { eapply le_env_trans; [apply (le_log_all (cleanups ch))|apply le_logged]. }
           pose proof (build_ok (if br' then a else b) v1) as H.
           destruct (build (if br' then a else b) v1) as [ch' v2]. destruct H as (A & B & C).
           rewrite (proj1 Lv1) in A.
           assert (L : le_env v (let v3 := dispose ch v2 in if memo then wake (eid f) v3 else v3)).
           { eapply le_env_trans; [exact Lv1|]. eapply le_env_trans; [exact C|].
             eapply le_env_trans; [apply (le_dispose ch)|]. cbv zeta. destruct memo; [apply le_wake|apply le_env_refl]. }
           split; [|split; [reflexivity|exact L]].
           cbn [inv]. split; [split; [reflexivity|discriminate]|].
           split; [exact B|]. eapply inv_mono; [|exact A]. intros y [].
    + specialize (IH v Hc). destruct (poll t ch v) as [[ch' rep] v1]. destruct IH as (A & B & C).
      split; [|split; [reflexivity|exact C]]. cbn [inv].
      split; [eapply not_due_ok; eauto|]. split; [now rewrite B|exact A].
  - cbn [poll inv] in *. destruct (due t af) eqn:Hd.
    + cbn [new_future]. split; [|split; [reflexivity|]].
      * cbn [inv clear note]. split; [intros _; reflexivity|discriminate].
      * split; [reflexivity|]. intros y Hy. exact Hy.
    + split; [|split; [reflexivity|apply le_env_refl]]. cbn [inv]. eapply not_due_ok; eauto. apply le_env_refl.
Qed.

(** * Convergence *)
Fixpoint fresh_list (s : list N) (l : list rview) : list shape :=
  match l with [] => [] | k :: l => fresh s k :: fresh_list s l end.
Lemma fresh_elem s ps ks :
  fresh s (RElem ps ks) = SElem (map (fun '(k, _, e) => (k, pval k (eval s e))) ps) (fresh_list s ks).
Proof.
  cbn [fresh]. f_equal. induction ks as [|k ks IH]; [reflexivity|]. cbn [fresh_list]. now rewrite IH.
Qed.
Fixpoint shapes_of (l : list inst) : list shape :=
  match l with [] => [] | k :: l => shape_of k :: shapes_of l end.
Lemma shape_of_elem id m ps ks :
  shape_of (IElem id m ps ks) = SElem (map (fun '(PI k _ _ x) => (k, x)) ps) (shapes_of ks).
Proof. reflexivity. Qed.

Lemma ef_ok_none f c : ef_ok none f c -> c.
Proof. intros [A B]. destruct (note f) eqn:E; [destruct (B eq_refl)|auto]. Qed.

Fixpoint settled_list (l : list inst) : bool :=
  match l with [] => true | k :: l => settled k && settled_list l end.
Lemma settled_elem id m ps ks : settled (IElem id m ps ks) = settled_list ks.
Proof. reflexivity. Qed.

Lemma settled_shape s i : inv s none i -> settled i = true -> shape_of i = fresh s (view_of i).
Proof.
  induction i as [id m n|f e id m x|id m ps ks IH|f memo c a b br ch IH|af aes aea aid am ash ape asub]
    using inst_ind'; intros Hi Hs.
  - reflexivity.
  - cbn [inv] in Hi. apply ef_ok_none in Hi. cbn. now rewrite Hi.
  - rewrite inv_elem in Hi. destruct Hi as [Hp Hk]. rewrite settled_elem in Hs.
    rewrite shape_of_elem, view_of_elem, fresh_elem. f_equal.
    + rewrite map_map. clear Hk IH. induction Hp as [|[k e f x] ps Hp1 _ IHp]; [reflexivity|].
      cbn [map]. cbn [pinv] in Hp1. apply ef_ok_none in Hp1. now rewrite Hp1, IHp.
    + clear Hp. induction IH as [|k ks Hk1 _ IHks]; [reflexivity|].
      cbn [inv_list] in Hk. destruct Hk as [A B]. cbn [settled_list] in Hs.
      apply andb_true_iff in Hs as [S1 S2]. cbn [shapes_of views_of fresh_list].
      now rewrite (Hk1 A S1), (IHks B S2).
  - cbn [inv] in Hi. destruct Hi as (Hf & Hv & Hc). apply ef_ok_none in Hf. cbn [settled] in Hs.
    cbn [shape_of view_of fresh]. rewrite (IH Hc Hs), Hv, <- Hf. destruct br; reflexivity.
  - cbn [inv] in Hi. apply ef_ok_none in Hi. cbn [settled] in Hs. destruct ape as [[k a]|]; [discriminate|].
    destruct Hi as [-> _]. reflexivity.
Qed.

(** ** a future completes *)
Lemma complete_elem k id m ps ks v :
  complete k (IElem id m ps ks) v =
  let '(ks', mk, v1) := complete_list k ks v in (IElem id (m + mk)%nat ps ks', false, v1).
Proof.
  cbn [complete].
  match goal with
  | |- (let '(_, _) := ?G ks v in _) = _ => assert (E : forall l w, G l w = complete_list k l w)
  end.
  { induction l as [|x l IHl]; intro w; [reflexivity|].
    cbn [complete_list]. cbn -[complete]. destruct (complete k x w) as [[x' rep] w1]. now rewrite IHl. }
  now rewrite E.
Qed.

Definition complete_spec (k : nat) (i : inst) : Prop :=
  forall (P : nat -> Prop) v, inv (sigs v) P i ->
  let '(i', rep, v') := complete k i v in
  inv (sigs v) P i' /\ view_of i' = view_of i /\ v' = v.

Lemma complete_ok k i : complete_spec k i.
Proof.
  induction i as [id m n|f e id m x|id m ps ks IH|f memo c a b br ch IH|af aes aea aid am ash ape asub]
    using inst_ind'; intros P v Hi.
  - cbn. auto.
  - cbn. auto.
  - rewrite complete_elem. rewrite inv_elem in Hi. destruct Hi as [Hp Hk].
    assert (H : let '(ks', mk, v') := complete_list k ks v in
                inv_list (sigs v) P ks' /\ views_of ks' = views_of ks /\ v' = v).
    { clear Hp. induction IH as [|x ks Hx _ IHks]; [cbn; auto|].
      cbn [inv_list] in Hk. destruct Hk as [A B]. cbn [complete_list].
      specialize (Hx P v A). destruct (complete k x v) as [[x' rep] v1]. destruct Hx as (X1 & X2 & ->).
      specialize (IHks B). destruct (complete_list k ks v) as [[l' mk] v2]. destruct IHks as (Y1 & Y2 & ->).
      cbn [inv_list views_of]. rewrite X2, Y2. auto. }
    destruct (complete_list k ks v) as [[ks' mk] v1]. destruct H as (A & B & ->).
    split; [rewrite inv_elem; auto|]. split; [|reflexivity]. rewrite !view_of_elem. now rewrite B.
  - cbn [complete inv] in *. destruct Hi as (Hf & Hv & Hc).
    specialize (IH P v Hc). destruct (complete k ch v) as [[ch' rep] v1]. destruct IH as (A & B & ->).
    split; [|split; reflexivity]. cbn [inv]. rewrite B. auto.
  - cbn [complete]. destruct ape as [[k' a]|]; [|auto].
    destruct (Nat.eqb k k'); [|auto].
    cbn [inv] in Hi. destruct Hi as [Hcur Hq].
    assert (Hnew : ef_ok P af (Some (a + eval (sigs v) aea)%N = Some (eval (sigs v) aes + eval (sigs v) aea)%N /\ true = true)).
    { split; [|exact Hq]. intro Hn. rewrite (Hcur Hn). auto. }
    destruct ash as [y|]; (split; [exact Hnew|split; reflexivity]).
Qed.

Definition sys_inv (r : rview) (st : sys) : Prop :=
  inv (sigs (ev st)) (inq (ev st)) (root st) /\ view_of (root st) = r.

Lemma mount_inv r s0 : sys_inv r (mount r s0).
Proof.
  unfold mount. set (v0 := {| sigs := s0; neid := 0; nid := 0; ready := []; log := []; nfut := O; opened := [] |}).
  pose proof (build_ok r v0) as H. destruct (build r v0) as [i v]. destruct H as (A & B & [C _]).
  split; cbn [root ev]; [|exact B]. rewrite C. eapply inv_mono; [|exact A]. intros y [].
Qed.

Lemma step_inv r st e : sys_inv r st -> sys_inv r (step st e).
Proof.
  intros [Hi Hv]. destruct e as [j x|k|l j]; cbn [step].
  - set (v1 := {| sigs := set_nth j x (sigs (ev st)); neid := neid (ev st); nid := nid (ev st);
                  ready := ready (ev st); log := log (ev st); nfut := nfut (ev st); opened := opened (ev st) |}).
    pose proof (le_fold_wake (hits j (root st)) v1) as [L1 L2].
    split; cbn [root ev].
    + rewrite L1. cbn [v1 sigs]. eapply notify_inv; [| |exact Hi].
      * intros y Hy. apply L2. exact Hy.
      * intros y Hy. apply fold_wake_in. exact Hy.
    + now rewrite view_of_notify.
  - destruct (ready (ev st)) as [|r0 rs] eqn:Er; [split; assumption|].
    set (t := nth (k mod length (r0 :: rs)) (r0 :: rs) 0%nat).
    set (v := remove_ready t (ev st)).
    assert (Hq : inv (sigs v) (queued t v) (root st)).
    { eapply inv_mono; [|exact Hi]. intros y Hy. unfold inq in Hy. unfold queued.
      destruct (Nat.eq_dec y t) as [->|Hne]; [now left|right].
      cbn [v remove_ready ready]. apply filter_In. split; [exact Hy|].
      apply negb_true_iff, Nat.eqb_neq. exact Hne. }
    pose proof (poll_ok t (root st) v Hq) as H. destruct (poll t (root st) v) as [[i' rep] v'].
    destruct H as (A & B & [C _]). split; cbn [root ev].
    + now rewrite C.
    + now rewrite B.
  - destruct (filter (fun x => Nat.eqb (fst x) l) (opened (ev st))) as [|o0 os] eqn:Eo; [split; assumption|].
    set (k := snd (nth (j mod length (o0 :: os)) (o0 :: os) (0%nat, 0%nat))).
    pose proof (complete_ok k (root st) (inq (ev st)) (close_future k (ev st)) Hi) as H.
    destruct (complete k (root st) (close_future k (ev st))) as [[i' rep] v']. destruct H as (A & B & ->).
    split; cbn [root ev]; [exact A|now rewrite B].
Qed.

Lemma run_inv r es : forall st, sys_inv r st -> sys_inv r (run_events st es).
Proof.
  induction es as [|e es IH]; intros st H; [exact H|]. cbn [run_events fold_left]. apply IH, step_inv, H.
Qed.

(** for every program, every history of signal writes, future completions (in any order, also an
    older future after a newer one) and every polling order: whenever no task is ready and no async
    leaf is waiting for the future of its last run, the DOM is the from-scratch render of the current
    signal values *)
Theorem reactive_view_converges r s0 es :
  let st := run_events (mount r s0) es in
  idle st = true -> settled (root st) = true -> shape_of (root st) = fresh (sigs (ev st)) r.
Proof.
  intros st Hidle Hset. destruct (run_inv r es _ (mount_inv r s0)) as [Hi Hv]. fold st in Hi, Hv.
  rewrite <- Hv. apply settled_shape; [|exact Hset]. eapply inv_mono; [|exact Hi].
  intros y Hy. unfold inq, idle in *. destruct (ready (ev st)); [destruct Hy|discriminate].
Qed.

(** * Effects that are not due do nothing; effects outside the tree never run *)
Fixpoint due_in (t : nat) (i : inst) : bool :=
  match i with
  | IStatic _ _ _ => false
  | IText f _ _ _ _ => due t f
  | IElem _ _ ps ks =>
      existsb (fun '(PI _ _ f _) => due t f) ps
      || (fix go (l : list inst) : bool := match l with [] => false | k :: l => due_in t k || go l end) ks
  | IIf f _ _ _ _ _ ch => due t f || due_in t ch
  | IAsync f _ _ _ _ _ _ _ => due t f
  end.
Fixpoint due_in_list (t : nat) (l : list inst) : bool :=
  match l with [] => false | k :: l => due_in t k || due_in_list t l end.
Lemma due_in_elem t id m ps ks :
  due_in t (IElem id m ps ks) = existsb (fun '(PI _ _ f _) => due t f) ps || due_in_list t ks.
Proof.
  cbn [due_in]. f_equal. induction ks as [|k ks IH]; [reflexivity|]. cbn [due_in_list]. now rewrite IH.
Qed.

Lemma poll_props_idle t ps v :
  existsb (fun '(PI _ _ f _) => due t f) ps = false -> poll_props t ps v = (ps, 0%nat, v).
Proof.
  induction ps as [|[k e f x] ps IH]; intro H; [reflexivity|].
  cbn [existsb] in H. apply orb_false_iff in H as [H1 H2].
  cbn [poll_props poll_prop]. rewrite H1, (IH H2). reflexivity.
Qed.

Lemma poll_idle t i : forall v, due_in t i = false -> poll t i v = (i, false, v).
Proof.
  induction i as [id m n|f e id m x|id m ps ks IH|f memo c a b br ch IH|af aes aea aid am ash ape asub] using inst_ind'; intros v H.
  - reflexivity.
  - cbn [due_in] in H. cbn [poll]. now rewrite H.
  - rewrite due_in_elem in H. apply orb_false_iff in H as [Hp Hk].
    rewrite poll_elem, (poll_props_idle t ps v Hp).
    assert (E : poll_list t ks v = (ks, 0%nat, v)).
    { clear Hp. induction IH as [|k ks Hk1 _ IHks]; [reflexivity|].
      cbn [due_in_list] in Hk. apply orb_false_iff in Hk as [A B].
      cbn [poll_list]. rewrite (Hk1 v A), (IHks B). reflexivity. }
    rewrite E. now rewrite !Nat.add_0_r.
  - cbn [due_in] in H. apply orb_false_iff in H as [Hf Hc]. cbn [poll]. rewrite Hf, (IH v Hc). reflexivity.
  - cbn [due_in] in H. cbn [poll]. now rewrite H.
Qed.

Fixpoint eids_list (l : list inst) : list nat :=
  match l with [] => [] | k :: l => eids k ++ eids_list l end.
Lemma eids_elem id m ps ks : eids (IElem id m ps ks) = prop_eids ps ++ eids_list ks.
Proof. reflexivity. Qed.

Lemma due_in_eids t i : due_in t i = true -> In t (eids i).
Proof.
  induction i as [id m n|f e id m x|id m ps ks IH|f memo c a b br ch IH|af aes aea aid am ash ape asub] using inst_ind'; intro H.
  - discriminate.
  - cbn [due_in eids] in *. unfold due in H. apply andb_true_iff in H as [H _].
    apply Nat.eqb_eq in H. now left.
  - rewrite due_in_elem in H. rewrite eids_elem. apply in_or_app. apply orb_true_iff in H as [H|H].
    + left. apply existsb_exists in H as ([k e f x] & Hin & Hd). unfold due in Hd.
      apply andb_true_iff in Hd as [Hd _]. apply Nat.eqb_eq in Hd. subst t.
      unfold prop_eids. apply in_map_iff. exists (PI k e f x). auto.
    + right. induction IH as [|k ks Hk1 _ IHks]; [discriminate|].
      cbn [due_in_list eids_list] in *. apply in_or_app. apply orb_true_iff in H as [H|H]; auto.
  - cbn [due_in eids] in *. apply orb_true_iff in H as [H|H].
    + unfold due in H. apply andb_true_iff in H as [H _]. apply Nat.eqb_eq in H. now left.
    + right. auto.
  - cbn [due_in eids] in *. unfold due in H. apply andb_true_iff in H as [H _].
    apply Nat.eqb_eq in H. now left.
Qed.

(** the task picked by [EPoll k] *)
Definition picked (st : sys) (k : nat) : nat :=
  nth (k mod length (ready (ev st))) (ready (ev st)) 0%nat.

(** polling the task of an effect that is no longer part of the view state (its branch was replaced,
    or the enclosing closure re-ran) runs nothing and changes nothing on screen *)
Theorem disposed_branch_effects_never_run st k :
  ~ In (picked st k) (eids (root st)) ->
  root (step st (EPoll k)) = root st /\ log (ev (step st (EPoll k))) = log (ev st) /\
  sigs (ev (step st (EPoll k))) = sigs (ev st).
Proof.
  intro H. cbn [step]. unfold picked in H. destruct (ready (ev st)) as [|r0 rs] eqn:Er; [auto|].
  rewrite poll_idle; [cbn; auto|].
  destruct (due_in _ (root st)) eqn:E; [|reflexivity]. apply due_in_eids in E. contradiction.
Qed.

(** DOM nodes with identity and mutation counter *)
Fixpoint nodes_list (l : list inst) : list (nat * nat) :=
  match l with [] => [] | k :: l => nodes k ++ nodes_list l end.
Lemma nodes_elem id m ps ks : nodes (IElem id m ps ks) = (id, m) :: nodes_list ks.
Proof. reflexivity. Qed.

Lemma nodes_notify j i : nodes (notify j i) = nodes i.
Proof.
  induction i as [id m n|f e id m x|id m ps ks IH|f memo c a b br ch IH|af aes aea aid am ash ape asub] using inst_ind'.
  - reflexivity.
  - reflexivity.
  - rewrite notify_elem, !nodes_elem. f_equal.
    induction IH as [|k ks Hk _ IHks]; [reflexivity|]. cbn [notify_list nodes_list]. now rewrite Hk, IHks.
  - cbn [notify nodes]. exact IH.
  - reflexivity.
Qed.

(** a signal write by itself touches no DOM node; a poll that finds no notified effect with the
    polled id touches none either — so a node can only be created, replaced or mutated by the run of
    an effect that was notified, i.e. (see [step]) one whose closure read a written signal *)
Theorem untouched_parts_unmutated_partial st e :
  match e with
  | EWrite _ _ => True
  | EPoll k => due_in (picked st k) (root st) = false
  | EComplete _ _ => False    (* the completion of a future is an input change of its async leaf *)
  end ->
  nodes (root (step st e)) = nodes (root st) /\ shape_of (root (step st e)) = shape_of (root st).
Proof.
  destruct e as [j x|k|l j]; intro H; cbn [step]; [| |destruct H].
  - cbn [root]. split; [apply nodes_notify|].
    induction (root st) as [id m n|f e id m v|id m ps ks IH|f memo c a b br ch IH|af aes aea aid am ash ape asub] using inst_ind'.
    + reflexivity.
    + reflexivity.
    + rewrite notify_elem, !shape_of_elem. f_equal.
      * rewrite map_map. apply map_ext. intros [k e f v]. reflexivity.
      * induction IH as [|k ks Hk _ IHks]; [reflexivity|]. cbn [notify_list shapes_of]. now rewrite Hk, IHks.
    + cbn [notify shape_of]. exact IH.
    + reflexivity.
  - unfold picked in H. destruct (ready (ev st)) as [|r0 rs] eqn:Er; [auto|].
    rewrite poll_idle by exact H. auto.
Qed.

(** the hypotheses are satisfiable: a program with a conditional over a dynamic child, run through a
    write and a schedule that polls the inner effect first *)
Definition ex_prog : rview :=
  RElem [(PToggle, 1%nat, ESig 0)]
        [RIf 2 false (ESig 0) (RText 3 (EAdd (ESig 0) (ESig 1))) (RStatic 7); RText 4 (ESig 1)].
Example ex_prog_converges :
  let st := run_events (mount ex_prog [1%N; 5%N])
              [EPoll 0; EPoll 0; EPoll 0; EPoll 0; EWrite 0 0%N; EWrite 1 2%N; EPoll 1; EPoll 0; EPoll 0; EPoll 0; EPoll 0] in
  idle st = true /\ shape_of (root st) = SElem [(PToggle, 0%N)] [SText 7; SText 2].
Proof. vm_compute. split; reflexivity. Qed.

(** an async leaf whose signal changes while its first future is pending; the OLDER future completes
    AFTER the newer one: it was aborted by the re-run's cleanup and must not overwrite the newer value *)
Definition ex_async : rview := RElem [] [RAsync 1 (ESig 0) (ESig 1); RText 2 (ESig 0)].
Example ex_async_converges :
  let st := run_events (mount ex_async [3%N; 10%N])
              [EPoll 0; EPoll 0; EWrite 0 4%N; EPoll 0; EPoll 0; EComplete 1 1; EComplete 1 0] in
  idle st = true /\ settled (root st) = true /\
  shape_of (root st) = SElem [] [SText 14; SText 4].
Proof. vm_compute. repeat split; reflexivity. Qed.
