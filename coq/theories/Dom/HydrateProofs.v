(** C05 — proofs about Dom/HydrateModel.v. *)
From Coq Require Import List NArith Bool Lia Arith Sorted.
From LV Require Import Base.Bytes Dom.HydrateModel.
Import ListNotations.
Open Scope N_scope.

(** * Induction principles for the nested types *)
Section view_ind'.
  Variable P : view -> Prop.
  Hypothesis Htext : forall s, P (VText s).
  Hypothesis Hunit : P VUnit.
  Hypothesis Helem : forall n a ks, Forall P ks -> P (VElem n a ks).
  Hypothesis Hvoid : forall n a, P (VVoid n a).
  Hypothesis Htuple : forall vs, Forall P vs -> P (VTuple vs).
  Hypothesis Hsome : forall v, P v -> P (VSome v).
  Hypothesis Hnone : P VNone.
  Hypothesis Hleft : forall v, P v -> P (VLeft v).
  Hypothesis Hright : forall v, P v -> P (VRight v).
  Hypothesis Hvec : forall vs, Forall P vs -> P (VVec vs).
  Hypothesis Hany : forall v, P v -> P (VAny v).
  Hypothesis Hkeyed : forall vs, Forall P vs -> P (VKeyed vs).
  Hypothesis Hinert : forall e, P (VInert e).
  Hypothesis Hraw : forall n a ps, P (VRaw n a ps).
  Hypothesis Hsusp : forall v, P v -> P (VSuspend v).
  Fixpoint view_ind' (v : view) : P v :=
    let all := fix all (l : list view) : Forall P l :=
      match l with [] => Forall_nil P | x :: r => Forall_cons x (view_ind' x) (all r) end in
    match v with
    | VText s => Htext s
    | VUnit => Hunit
    | VElem n a ks => Helem n a ks (all ks)
    | VVoid n a => Hvoid n a
    | VTuple vs => Htuple vs (all vs)
    | VSome v => Hsome v (view_ind' v)
    | VNone => Hnone
    | VLeft v => Hleft v (view_ind' v)
    | VRight v => Hright v (view_ind' v)
    | VVec vs => Hvec vs (all vs)
    | VAny v => Hany v (view_ind' v)
    | VKeyed vs => Hkeyed vs (all vs)
    | VInert e => Hinert e
    | VRaw n a ps => Hraw n a ps
    | VSuspend v => Hsusp v (view_ind' v)
    end.
End view_ind'.

Section dom_ind'.
  Variable P : dom -> Prop.
  Hypothesis Htext : forall s, P (DText s).
  Hypothesis Hcomment : forall s, P (DComment s).
  Hypothesis Helem : forall n a ks, Forall P ks -> P (DElem n a ks).
  Fixpoint dom_ind' (d : dom) : P d :=
    match d with
    | DText s => Htext s
    | DComment s => Hcomment s
    | DElem n a ks =>
        Helem n a ks ((fix all (l : list dom) : Forall P l :=
                         match l with [] => Forall_nil P | x :: r => Forall_cons x (dom_ind' x) (all r) end) ks)
    end.
End dom_ind'.

(** * Basic facts *)
Lemma bytes_eqb_refl a : bytes_eqb a a = true.
Proof. induction a as [|x a IH]; cbn [bytes_eqb]; [reflexivity|]. now rewrite N.eqb_refl, IH. Qed.

Lemma bytes_eqb_eq a b : bytes_eqb a b = true <-> a = b.
Proof.
  split.
  - revert b. induction a as [|x a IH]; intros [|y b] H; cbn [bytes_eqb] in H; try discriminate; [reflexivity|].
    apply andb_true_iff in H as [H1 H2]. apply N.eqb_eq in H1. apply IH in H2. now subst.
  - intros ->. apply bytes_eqb_refl.
Qed.

Lemma bytes_eqb_sym a b : bytes_eqb a b = bytes_eqb b a.
Proof.
  destruct (bytes_eqb a b) eqn:E.
  - apply bytes_eqb_eq in E. subst. now rewrite bytes_eqb_refl.
  - destruct (bytes_eqb b a) eqn:E2; [|reflexivity]. apply bytes_eqb_eq in E2. subst.
    now rewrite bytes_eqb_refl in E.
Qed.

(** the local list recursions coincide with the top-level ones *)
Lemma to_html_tuple vs pos : to_html (VTuple vs) pos = html_seq vs pos.
Proof.
  revert pos. induction vs as [|v vs IH]; intro pos; [reflexivity|].
  change (to_html (VTuple (v :: vs)) pos)
    with (let '(b1, p1) := to_html v pos in
          let '(b2, p2) := to_html (VTuple vs) p1 in (b1 ++ b2, p2)).
  cbn [html_seq]. destruct (to_html v pos) as [b1 p1]. now rewrite IH.
Qed.

Lemma dom_of_tuple vs pos : dom_of (VTuple vs) pos = dom_seq vs pos.
Proof.
  revert pos. induction vs as [|v vs IH]; intro pos; [reflexivity|].
  change (dom_of (VTuple (v :: vs)) pos)
    with (let '(b1, p1) := dom_of v pos in
          let '(b2, p2) := dom_of (VTuple vs) p1 in (b1 ++ b2, p2)).
  cbn [dom_seq]. destruct (dom_of v pos) as [b1 p1]. now rewrite IH.
Qed.

Lemma to_html_elem n a ks pos :
  to_html (VElem n a ks) pos = (open_tag n a ++ fst (html_seq ks FirstChild) ++ close_tag n, NextChild).
Proof.
  rewrite <- to_html_tuple. destruct ks; reflexivity.
Qed.

Lemma dom_of_elem n a ks pos :
  dom_of (VElem n a ks) pos = ([DElem n a (fst (dom_seq ks FirstChild))], NextChild).
Proof.
  rewrite <- dom_of_tuple. destruct ks; reflexivity.
Qed.

Lemma to_html_vec vs pos : to_html (VVec vs) pos = (fst (html_seq vs pos) ++ marker, NextChild).
Proof.
  rewrite <- to_html_tuple.
  change (to_html (VVec vs) pos) with (let '(b, _) := to_html (VTuple vs) pos in (b ++ marker, NextChild)).
  now destruct (to_html (VTuple vs) pos).
Qed.

Lemma dom_of_vec vs pos : dom_of (VVec vs) pos = (fst (dom_seq vs pos) ++ [sep], NextChild).
Proof.
  rewrite <- dom_of_tuple.
  change (dom_of (VVec vs) pos) with (let '(b, _) := dom_of (VTuple vs) pos in (b ++ [sep], NextChild)).
  now destruct (dom_of (VTuple vs) pos).
Qed.

Lemma to_html_keyed vs pos : to_html (VKeyed vs) pos = (fst (html_seq vs pos) ++ marker, NextChild).
Proof.
  rewrite <- to_html_tuple.
  change (to_html (VKeyed vs) pos) with (let '(b, _) := to_html (VTuple vs) pos in (b ++ marker, NextChild)).
  now destruct (to_html (VTuple vs) pos).
Qed.

Lemma dom_of_keyed vs pos : dom_of (VKeyed vs) pos = (fst (dom_seq vs pos) ++ [sep], NextChild).
Proof.
  rewrite <- dom_of_tuple.
  change (dom_of (VKeyed vs) pos) with (let '(b, _) := dom_of (VTuple vs) pos in (b ++ [sep], NextChild)).
  now destruct (dom_of (VTuple vs) pos).
Qed.

Lemma wf_elem in_p n a ks :
  wf in_p (VElem n a ks) = elem_ok in_p n false && attrs_ok a && wf_seq (in_p || bytes_eqb n s_p) ks.
Proof. reflexivity. Qed.

Lemma wf_tuple in_p vs :
  wf in_p (VTuple vs) = negb (match vs with [] => true | _ => false end) && wf_seq in_p vs.
Proof. reflexivity. Qed.
Lemma wf_vec in_p vs : wf in_p (VVec vs) = wf_seq in_p vs.
Proof. reflexivity. Qed.
Lemma wf_keyed in_p vs : wf in_p (VKeyed vs) = wf_seq in_p vs.
Proof. reflexivity. Qed.

Lemma ser_elem n a ks :
  raw_kind n = None ->
  ser (DElem n a ks) = open_tag n a ++ (if is_void n then [] else ser_forest ks ++ close_tag n).
Proof. intro H. cbn [ser]. rewrite H. reflexivity. Qed.

Lemma ser_forest_app a b : ser_forest (a ++ b) = ser_forest a ++ ser_forest b.
Proof. induction a as [|x a IH]; [reflexivity|]. cbn [app ser_forest]. now rewrite IH, app_assoc. Qed.

(** kinds: the names of the subset *)
Lemma kind_of_cases n k :
  kind_of n = Some k ->
  (n = s_span /\ k = KOrdinary) \/
  ((n = s_div \/ n = s_section \/ n = s_ul \/ n = s_main) /\ k = KBlock) \/
  (n = s_p /\ k = KPara) \/
  ((n = s_br \/ n = s_img \/ n = s_input) /\ k = KVoid) \/
  (n = s_hr /\ k = KVoidBlock).
Proof.
  unfold kind_of, mem. cbn [existsb].
  destruct (bytes_eqb n s_span) eqn:E1; [apply bytes_eqb_eq in E1; intros [= <-]; auto|].
  destruct (bytes_eqb n s_div) eqn:E2; [apply bytes_eqb_eq in E2; intros [= <-]; auto 10|].
  destruct (bytes_eqb n s_section) eqn:E3; [apply bytes_eqb_eq in E3; intros [= <-]; auto 10|].
  destruct (bytes_eqb n s_ul) eqn:E4; [apply bytes_eqb_eq in E4; intros [= <-]; auto 10|].
  destruct (bytes_eqb n s_main) eqn:E5; [apply bytes_eqb_eq in E5; intros [= <-]; auto 10|].
  cbn [orb].
  destruct (bytes_eqb n s_p) eqn:E6; [apply bytes_eqb_eq in E6; intros [= <-]; auto 10|].
  destruct (bytes_eqb n s_br) eqn:E7; [apply bytes_eqb_eq in E7; intros [= <-]; auto 10|].
  destruct (bytes_eqb n s_img) eqn:E8; [apply bytes_eqb_eq in E8; intros [= <-]; auto 10|].
  destruct (bytes_eqb n s_input) eqn:E9; [apply bytes_eqb_eq in E9; intros [= <-]; auto 15|].
  cbn [orb].
  destruct (bytes_eqb n s_hr) eqn:E10; [apply bytes_eqb_eq in E10; intros [= <-]; auto 15|].
  discriminate.
Qed.

Lemma kind_void_is_void n k : kind_of n = Some k -> is_void n = kind_void k.
Proof.
  intro H. apply kind_of_cases in H.
  destruct H as [[-> ->]|[[[->|[->|[->| ->]]] ->]|[[-> ->]|[[[->|[->| ->]] ->]|[-> ->]]]]]; reflexivity.
Qed.

Lemma kind_not_raw n k : kind_of n = Some k -> raw_kind n = None.
Proof.
  intro H. apply kind_of_cases in H.
  destruct H as [[-> ->]|[[[->|[->|[->| ->]]] ->]|[[-> ->]|[[[->|[->| ->]] ->]|[-> ->]]]]]; reflexivity.
Qed.

(** * The printer writes the serialisation of [dom_of] *)
Lemma to_html_dom_seq_step (P : view -> Prop) :
  True.
Proof. exact I. Qed.

Lemma to_html_dom v : forall in_p pos, wf in_p v = true ->
  to_html v pos = (ser_forest (fst (dom_of v pos)), snd (dom_of v pos)).
Proof.
  induction v as [s| |n a ks IH|n a|vs IH|v IH| |v IH|v IH|vs IH|v IH|vs IH|e|rn ra rps|v IH] using view_ind';
    intros in_p pos Hwf.
  - cbn. destruct (pos_eqb pos NextChildAfterText); destruct s; cbn; now rewrite ?app_nil_r.
  - reflexivity.
  - rewrite to_html_elem, dom_of_elem. cbn [fst snd ser_forest]. rewrite app_nil_r.
    rewrite wf_elem in Hwf. apply andb_true_iff in Hwf as [Hwf Hks]. apply andb_true_iff in Hwf as [He Ha].
    unfold elem_ok in He. destruct (kind_of n) as [k|] eqn:Ek; [|discriminate].
    rewrite (ser_elem _ _ _ (kind_not_raw _ _ Ek)).
    apply andb_true_iff in He as [Hv _]. apply eqb_prop in Hv.
    rewrite (kind_void_is_void _ _ Ek), Hv. do 3 f_equal.
    (* children *)
    clear Ek Hv Ha. revert Hks. generalize (in_p || bytes_eqb n s_p) as b. generalize FirstChild as p.
    induction IH as [|x ks Hk _ IHks]; intros p b Hks; [reflexivity|].
    cbn [wf_seq] in Hks. apply andb_true_iff in Hks as [H1 H2].
    cbn [html_seq dom_seq]. rewrite (Hk b p H1). destruct (dom_of x p) as [d1 p1]. cbn [fst snd].
    specialize (IHks p1 b H2).
    destruct (html_seq ks p1) as [b2 p2]. destruct (dom_seq ks p1) as [d2 p2']. cbn [fst snd] in *.
    now rewrite ser_forest_app, IHks.
  - cbn [to_html dom_of fst snd ser_forest]. rewrite app_nil_r.
    cbn [wf] in Hwf. apply andb_true_iff in Hwf as [He Ha].
    unfold elem_ok in He. destruct (kind_of n) as [k|] eqn:Ek; [|discriminate].
    rewrite (ser_elem _ _ _ (kind_not_raw _ _ Ek)).
    apply andb_true_iff in He as [Hv _]. apply eqb_prop in Hv.
    rewrite (kind_void_is_void _ _ Ek), Hv. now rewrite app_nil_r.
  - rewrite to_html_tuple, dom_of_tuple. rewrite wf_tuple in Hwf. apply andb_true_iff in Hwf as [_ Hks].
    revert pos Hks. induction IH as [|k ks Hk _ IHks]; intros p Hks; [reflexivity|].
    cbn [wf_seq] in Hks. apply andb_true_iff in Hks as [H1 H2].
    cbn [html_seq dom_seq]. rewrite (Hk in_p p H1). destruct (dom_of k p) as [d1 p1]. cbn [fst snd].
    specialize (IHks p1 H2). rewrite IHks.
    destruct (dom_seq ks p1) as [d2 p2']. cbn [fst snd]. now rewrite ser_forest_app.
  - apply (IH in_p pos Hwf).
  - reflexivity.
  - apply (IH in_p pos Hwf).
  - apply (IH in_p pos Hwf).
  - rewrite to_html_vec, dom_of_vec. rewrite wf_vec in Hwf. cbn [fst snd].
    rewrite ser_forest_app. cbn [ser_forest ser sep]. rewrite app_nil_r. do 2 f_equal.
    revert pos Hwf. induction IH as [|k ks Hk _ IHks]; intros p Hks; [reflexivity|].
    cbn [wf_seq] in Hks. apply andb_true_iff in Hks as [H1 H2].
    cbn [html_seq dom_seq]. rewrite (Hk in_p p H1). destruct (dom_of k p) as [d1 p1]. cbn [fst snd].
    specialize (IHks p1 H2).
    destruct (html_seq ks p1) as [b2 p2]. destruct (dom_seq ks p1) as [d2 p2']. cbn [fst snd] in *.
    now rewrite ser_forest_app, IHks.
  - apply (IH in_p pos Hwf).
  - rewrite to_html_keyed, dom_of_keyed. rewrite wf_keyed in Hwf. cbn [fst snd].
    rewrite ser_forest_app. cbn [ser_forest ser sep]. rewrite app_nil_r. do 2 f_equal.
    revert pos Hwf. induction IH as [|k ks Hk _ IHks]; intros p Hks; [reflexivity|].
    cbn [wf_seq] in Hks. apply andb_true_iff in Hks as [H1 H2].
    cbn [html_seq dom_seq]. rewrite (Hk in_p p H1). destruct (dom_of k p) as [d1 p1]. cbn [fst snd].
    specialize (IHks p1 H2).
    destruct (html_seq ks p1) as [b2 p2]. destruct (dom_seq ks p1) as [d2 p2']. cbn [fst snd] in *.
    now rewrite ser_forest_app, IHks.
  - cbn. now rewrite app_nil_r.
  - discriminate.
  - apply (IH in_p pos Hwf).
Qed.

(** * The expected DOM is one the parser keeps unchanged *)
Fixpoint ends_text (f : list dom) (prev : bool) : bool :=
  match f with [] => prev | d :: f' => ends_text f' (is_text_node d) end.

Lemma ends_text_app x y prev : ends_text (x ++ y) prev = ends_text y (ends_text x prev).
Proof. revert prev. induction x as [|d x IH]; intro prev; [reflexivity|]. cbn [app ends_text]. apply IH. Qed.

Lemma forest_ok_app b x y prev :
  forest_ok b (x ++ y) prev = forest_ok b x prev && forest_ok b y (ends_text x prev).
Proof.
  revert prev. induction x as [|d x IH]; intro prev; [reflexivity|].
  cbn [app forest_ok ends_text]. rewrite IH. now rewrite !andb_assoc.
Qed.

Lemma node_ok_elem in_p n a ks :
  node_ok in_p (DElem n a ks) =
  match kind_of n with
  | None => false
  | Some k => negb (in_p && closes_p k) && attrs_ok a &&
              (if kind_void k then match ks with [] => true | _ => false end
               else forest_ok (in_p || bytes_eqb n s_p) ks false)
  end.
Proof.
  cbn [node_ok]. destruct (kind_of n) as [k|]; [|reflexivity]. f_equal.
  destruct (kind_void k); [reflexivity|].
  generalize false. induction ks as [|d ks IH]; intro pv; [reflexivity|].
  cbn [forest_ok]. now rewrite IH.
Qed.

Lemma dom_of_ok v : forall in_p pos prev,
  wf in_p v = true -> (prev = true -> pos = NextChildAfterText) ->
  forest_ok in_p (fst (dom_of v pos)) prev = true /\
  (ends_text (fst (dom_of v pos)) prev = true -> snd (dom_of v pos) = NextChildAfterText).
Proof.
  assert (Hseq : forall vs, Forall (fun v => forall in_p pos prev,
            wf in_p v = true -> (prev = true -> pos = NextChildAfterText) ->
            forest_ok in_p (fst (dom_of v pos)) prev = true /\
            (ends_text (fst (dom_of v pos)) prev = true -> snd (dom_of v pos) = NextChildAfterText)) vs ->
          forall in_p pos prev, wf_seq in_p vs = true -> (prev = true -> pos = NextChildAfterText) ->
            forest_ok in_p (fst (dom_seq vs pos)) prev = true /\
            (ends_text (fst (dom_seq vs pos)) prev = true -> snd (dom_seq vs pos) = NextChildAfterText)).
  { intros vs IH. induction IH as [|x vs Hx _ IHvs]; intros in_p pos prev Hwf Hprev.
    - cbn. auto.
    - cbn [wf_seq] in Hwf. apply andb_true_iff in Hwf as [H1 H2].
      cbn [dom_seq]. destruct (Hx in_p pos prev H1 Hprev) as [Ha Hb].
      destruct (dom_of x pos) as [d1 p1]. cbn [fst snd] in *.
      destruct (IHvs in_p p1 (ends_text d1 prev) H2 Hb) as [Hc Hd].
      destruct (dom_seq vs p1) as [d2 p2]. cbn [fst snd] in *.
      rewrite forest_ok_app, ends_text_app, Ha, Hc. auto. }
  induction v as [s| |n a ks IH|n a|vs IH|v IH| |v IH|v IH|vs IH|v IH|vs IH|e|rn ra rps|v IH] using view_ind';
    intros in_p pos prev Hwf Hprev.
  - cbn [wf] in Hwf. cbn [dom_of fst snd].
    destruct (pos_eqb pos NextChildAfterText) eqn:Ep.
    + cbn [app forest_ok ends_text sep is_text_node text_node node_ok andb negb].
      rewrite andb_false_r. cbn [negb andb]. split; [|reflexivity].
      destruct s; cbn; [reflexivity|]. cbn in Hwf. now rewrite Hwf.
    + destruct prev; [specialize (Hprev eq_refl); subst pos; discriminate|].
      cbn [app forest_ok ends_text is_text_node text_node node_ok andb negb]. split; [|reflexivity].
      destruct s; cbn; [reflexivity|]. cbn in Hwf. now rewrite Hwf.
  - cbn. rewrite andb_false_r. split; [reflexivity|discriminate].
  - rewrite dom_of_elem. cbn [fst snd forest_ok ends_text is_text_node]. rewrite andb_false_r.
    split; [|discriminate]. cbn [negb andb]. rewrite andb_true_r, node_ok_elem.
    rewrite wf_elem in Hwf. apply andb_true_iff in Hwf as [Hwf Hks]. apply andb_true_iff in Hwf as [He Ha].
    unfold elem_ok in He. destruct (kind_of n) as [k|] eqn:Ek; [|discriminate].
    apply andb_true_iff in He as [Hv Hp]. apply eqb_prop in Hv. rewrite Hv, Hp, Ha. cbn [andb].
    apply (Hseq ks IH (in_p || bytes_eqb n s_p) FirstChild false Hks). discriminate.
  - cbn [dom_of fst snd forest_ok ends_text is_text_node]. rewrite andb_false_r.
    split; [|discriminate]. cbn [negb andb]. rewrite andb_true_r, node_ok_elem.
    cbn [wf] in Hwf. apply andb_true_iff in Hwf as [He Ha].
    unfold elem_ok in He. destruct (kind_of n) as [k|] eqn:Ek; [|discriminate].
    apply andb_true_iff in He as [Hv Hp]. apply eqb_prop in Hv. now rewrite Hv, Hp, Ha.
  - rewrite dom_of_tuple. rewrite wf_tuple in Hwf. apply andb_true_iff in Hwf as [_ Hks].
    apply (Hseq vs IH in_p pos prev Hks Hprev).
  - apply (IH in_p pos prev Hwf Hprev).
  - cbn. rewrite andb_false_r. split; [reflexivity|discriminate].
  - apply (IH in_p pos prev Hwf Hprev).
  - apply (IH in_p pos prev Hwf Hprev).
  - rewrite dom_of_vec. rewrite wf_vec in Hwf. cbn [fst snd].
    destruct (Hseq vs IH in_p pos prev Hwf Hprev) as [Ha _].
    rewrite forest_ok_app, ends_text_app, Ha. cbn. rewrite andb_false_r. split; [reflexivity|discriminate].
  - apply (IH in_p pos prev Hwf Hprev).
  - rewrite dom_of_keyed. rewrite wf_keyed in Hwf. cbn [fst snd].
    destruct (Hseq vs IH in_p pos prev Hwf Hprev) as [Ha _].
    rewrite forest_ok_app, ends_text_app, Ha. cbn. rewrite andb_false_r. split; [reflexivity|discriminate].
  - cbn [wf] in Hwf. destruct e as [s|s|n a ks]; try discriminate.
    cbn [dom_of fst snd forest_ok ends_text is_text_node]. rewrite andb_false_r, Hwf.
    split; [reflexivity|discriminate].
  - discriminate.
  - apply (IH in_p pos prev Hwf Hprev).
Qed.

(** * Tokenizer: running over a serialised node yields its tokens *)
Fixpoint toks (d : dom) : list token :=
  match d with
  | DText s => map TChar s
  | DComment _ => [TComment []]
  | DElem n a ks =>
      TStart n a ::
      (if is_void n then []
       else (fix go (l : list dom) : list token :=
               match l with [] => [] | k :: l => toks k ++ go l end) ks ++ [TEnd n])
  end.
Fixpoint toks_forest (l : list dom) : list token :=
  match l with [] => [] | k :: l => toks k ++ toks_forest l end.

Lemma toks_elem n a ks :
  toks (DElem n a ks) = TStart n a :: (if is_void n then [] else toks_forest ks ++ [TEnd n]).
Proof. reflexivity. Qed.

Lemma run_tok_app st a b : run_tok st (a ++ b) = run_tok (run_tok st a) b.
Proof. apply fold_left_app. Qed.

Lemma run_text out s : run_tok (MData, out) (esc_text s) = (MData, rev (map TChar s) ++ out).
Proof.
  revert out. induction s as [|c s IH]; intro out; [reflexivity|].
  cbn [esc_text flat_map]. fold (esc_text s). rewrite run_tok_app.
  cbn [map rev]. rewrite <- app_assoc. cbn [app].
  unfold esc_text_byte.
  destruct (N.eqb_spec c 38) as [->|H38]; [apply IH|].
  destruct (N.eqb_spec c 60) as [->|H60]; [apply IH|].
  destruct (N.eqb_spec c 62) as [->|H62]; [apply IH|].
  cbn [run_tok fold_left step].
  apply N.eqb_neq in H38, H60. rewrite H38, H60. apply IH.
Qed.

Lemma run_attr_value tg an av out v :
  text_ok v = true ->
  run_tok (MAttrValDQ tg an av, out) (esc_attr v) = (MAttrValDQ tg an (rev v ++ av), out).
Proof.
  revert av. induction v as [|c v IH]; intros av Hv; [reflexivity|].
  cbn [text_ok forallb] in Hv. apply andb_true_iff in Hv as [Hc Hv].
  cbn [esc_attr flat_map]. fold (esc_attr v). rewrite run_tok_app.
  cbn [rev]. rewrite <- app_assoc. cbn [app].
  unfold esc_attr_byte, esc_text_byte.
  destruct (N.eqb_spec c 34) as [->|H34]; [apply (IH _ Hv)|].
  destruct (N.eqb_spec c 38) as [->|H38]; [apply (IH _ Hv)|].
  destruct (N.eqb_spec c 60) as [->|H60]; [apply (IH _ Hv)|].
  destruct (N.eqb_spec c 62) as [->|H62]; [apply (IH _ Hv)|].
  cbn [run_tok fold_left step].
  unfold char_ok in Hc. apply andb_true_iff in Hc as [H0 _]. apply negb_true_iff in H0.
  apply N.eqb_neq in H34, H38. rewrite H34, H38, H0. apply (IH _ Hv).
Qed.

(** characters of names *)
Lemma name_char_props c :
  name_char c = true ->
  is_ws c = false /\ (c =? 47) = false /\ (c =? 62) = false /\ (c =? 0) = false /\ (c =? 61) = false /\
  (c =? 34) = false /\ (c =? 39) = false /\ (c =? 60) = false /\ lower c = c.
Proof.
  unfold name_char, is_lower, is_digit, in_range. intro H.
  rewrite !orb_true_iff, !andb_true_iff, !N.leb_le, N.eqb_eq in H.
  unfold is_ws, lower, is_upper, in_range.
  repeat split; try (apply N.eqb_neq; lia).
  - rewrite !orb_false_iff. repeat split; apply N.eqb_neq; lia.
  - destruct ((65 <=? c) && (c <=? 90)) eqn:E; [|reflexivity].
    apply andb_true_iff in E as [E1 E2]. apply N.leb_le in E1, E2. lia.
Qed.

Lemma lower_is_alpha c : is_lower c = true -> is_alpha c = true /\ name_char c = true.
Proof. intro H. unfold is_alpha, name_char. rewrite H. now rewrite orb_true_r. Qed.

Lemma run_tag_name e acc out n :
  forallb name_char n = true ->
  run_tok (MTagName e acc, out) n = (MTagName e (rev n ++ acc), out).
Proof.
  revert acc. induction n as [|c n IH]; intros acc Hn; [reflexivity|].
  cbn [forallb] in Hn. apply andb_true_iff in Hn as [Hc Hn].
  destruct (name_char_props c Hc) as (Hws & H47 & H62 & H0 & _ & _ & _ & _ & Hl).
  cbn [run_tok fold_left step]. rewrite Hws, H47, H62, H0, Hl.
  cbn [rev]. rewrite <- app_assoc. apply (IH _ Hn).
Qed.

Lemma run_attr_name tg acc out n :
  forallb name_char n = true ->
  run_tok (MAttrName tg acc, out) n = (MAttrName tg (rev n ++ acc), out).
Proof.
  revert acc. induction n as [|c n IH]; intros acc Hn; [reflexivity|].
  cbn [forallb] in Hn. apply andb_true_iff in Hn as [Hc Hn].
  destruct (name_char_props c Hc) as (Hws & H47 & H62 & H0 & H61 & H34 & H39 & H60 & Hl).
  cbn [run_tok fold_left step]. unfold step_attr_name. rewrite Hws, H47, H62, H61, H34, H39, H60, H0, Hl.
  cbn [orb rev]. rewrite <- app_assoc. apply (IH _ Hn).
Qed.

Definition with_attrs (tg : tagacc) (l : list attr) : tagacc :=
  {| t_end := t_end tg; t_name := t_name tg; t_attrs := l |}.

Definition names_disjoint (done todo : list attr) : Prop :=
  forall x y, In x done -> In y todo -> bytes_eqb (fst y) (fst x) = false.

Lemma nodup_names_cons a l :
  nodup_names (a :: l) = true ->
  (forall y, In y l -> bytes_eqb (fst a) (fst y) = false) /\ nodup_names l = true.
Proof.
  cbn [nodup_names]. intro H. apply andb_true_iff in H as [H1 H2]. split; [|exact H2].
  apply negb_true_iff in H1. intros y Hy.
  destruct (bytes_eqb (fst a) (fst y)) eqn:E; [|reflexivity].
  assert (existsb (fun b => bytes_eqb (fst a) (fst b)) l = true) by (apply existsb_exists; eauto).
  congruence.
Qed.

Lemma run_cons st c s : run_tok st (c :: s) = run_tok (step st c) s.
Proof. reflexivity. Qed.
Lemma run_nil st : run_tok st [] = st.
Proof. reflexivity. Qed.

Lemma run_attrs a : forall tg out,
  forallb (fun x => name_ok (fst x) && text_ok (snd x)) a = true ->
  nodup_names a = true -> names_disjoint (t_attrs tg) a ->
  run_tok (MAfterAttrValQ tg, out) (attrs_html a ++ [62]) =
  emit_tag (with_attrs tg (rev a ++ t_attrs tg)) out.
Proof.
  induction a as [|[k v] a IH]; intros tg out Hok Hnd Hdis.
  - cbn. destruct tg; reflexivity.
  - cbn [forallb fst snd] in Hok. apply andb_true_iff in Hok as [Hkv Hok].
    apply andb_true_iff in Hkv as [Hk Hv].
    apply nodup_names_cons in Hnd as [Hfresh Hnd]. cbn [fst] in Hfresh.
    cbn [attrs_html flat_map]. fold (attrs_html a). unfold attr_html. cbn [fst snd].
    rewrite <- !app_assoc. cbn [app].
    destruct k as [|k0 k]; [discriminate|].
    unfold name_ok in Hk. apply andb_true_iff in Hk as [Hk0 Hkall].
    cbn [forallb] in Hkall. apply andb_true_iff in Hkall as [Hk0c Hkrest].
    destruct (name_char_props k0 Hk0c) as (Hws & H47 & H62 & H0 & H61 & H34 & H39 & H60 & Hl).
    (* space, first name character *)
    rewrite run_cons.
    replace (step (MAfterAttrValQ tg, out) 32) with (MBeforeAttrName tg, out) by reflexivity.
    cbn [app]. rewrite run_cons.
    replace (step (MBeforeAttrName tg, out) k0) with (MAttrName tg [k0], out).
    2:{ cbn [step]. rewrite Hws, H47, H62, H61. unfold step_attr_name.
        now rewrite Hws, H47, H62, H61, H34, H39, H60, H0, Hl. }
    (* rest of the name *)
    rewrite run_tok_app, (run_attr_name tg [k0] out k Hkrest).
    (* = " value " *)
    rewrite run_cons.
    replace (step (MAttrName tg (rev k ++ [k0]), out) 61) with (MBeforeAttrValue tg (rev k ++ [k0]), out) by reflexivity.
    rewrite run_cons.
    replace (step (MBeforeAttrValue tg (rev k ++ [k0]), out) 34) with (MAttrValDQ tg (rev k ++ [k0]) [], out) by reflexivity.
    rewrite run_tok_app, (run_attr_value _ _ _ _ _ Hv). rewrite app_nil_r.
    rewrite run_cons.
    replace (step (MAttrValDQ tg (rev k ++ [k0]) (rev v), out) 34)
      with (MAfterAttrValQ (add_attr tg (rev k ++ [k0]) (rev v)), out) by reflexivity.
    (* the attribute is new *)
    assert (Hadd : add_attr tg (rev k ++ [k0]) (rev v) = with_attrs tg ((k0 :: k, v) :: t_attrs tg)).
    { unfold add_attr. rewrite rev_app_distr, !rev_involutive. cbn [rev app].
      destruct (existsb (fun a0 => bytes_eqb (k0 :: k) (fst a0)) (t_attrs tg)) eqn:E; [|reflexivity].
      apply existsb_exists in E as (x & Hx & Hxe).
      specialize (Hdis x (k0 :: k, v) Hx (or_introl eq_refl)). cbn [fst] in Hdis. congruence. }
    rewrite Hadd, IH; [| exact Hok | exact Hnd |].
    + cbn [with_attrs t_attrs t_end t_name rev]. now rewrite <- app_assoc.
    + intros x y Hx Hy. cbn [with_attrs t_attrs] in Hx. destruct Hx as [<-|Hx].
      * cbn [fst]. rewrite bytes_eqb_sym. apply (Hfresh y Hy).
      * apply (Hdis x y Hx). now right.
Qed.

Lemma run_open_tag n a out :
  name_ok n = true -> raw_kind n = None -> attrs_ok a = true ->
  run_tok (MData, out) (open_tag n a) = (MData, TStart n a :: out).
Proof.
  intros Hn Hraw Ha. unfold attrs_ok in Ha. apply andb_true_iff in Ha as [Hok Hnd].
  destruct n as [|c0 n]; [discriminate|].
  unfold name_ok in Hn. apply andb_true_iff in Hn as [Hc0 Hall].
  cbn [forallb] in Hall. apply andb_true_iff in Hall as [Hc0c Hrest].
  destruct (lower_is_alpha c0 Hc0) as [Halpha _].
  destruct (name_char_props c0 Hc0c) as (_ & H47 & _ & _ & _ & _ & _ & _ & Hl).
  assert (H33 : (c0 =? 33) = false).
  { unfold is_lower, in_range in Hc0. apply andb_true_iff in Hc0 as [E _]. apply N.leb_le in E.
    apply N.eqb_neq. lia. }
  unfold open_tag. cbn [app]. rewrite !run_cons.
  replace (step (step (MData, out) 60) c0) with (MTagName false [c0], out).
  2:{ cbn [step N.eqb Pos.eqb]. now rewrite H33, H47, Halpha, Hl. }
  rewrite run_tok_app, (run_tag_name false [c0] out n Hrest).
  assert (E : rev (rev n ++ [c0]) = c0 :: n) by (now rewrite rev_app_distr, rev_involutive).
  transitivity (run_tok (MAfterAttrValQ {| t_end := false; t_name := c0 :: n; t_attrs := [] |}, out)
                        (attrs_html a ++ [62])).
  - destruct a as [|[k v] a]; cbn [attrs_html flat_map attr_html app]; rewrite !run_cons;
      cbn [step is_ws N.eqb Pos.eqb orb]; now rewrite E.
  - rewrite run_attrs; [| exact Hok | exact Hnd | intros x y []].
    unfold emit_tag. cbn [with_attrs t_attrs t_end t_name]. now rewrite Hraw, app_nil_r, rev_involutive.
Qed.

Lemma run_close_tag n out :
  name_ok n = true -> run_tok (MData, out) (close_tag n) = (MData, TEnd n :: out).
Proof.
  intro Hn. destruct n as [|c0 n]; [discriminate|].
  unfold name_ok in Hn. apply andb_true_iff in Hn as [Hc0 Hall].
  cbn [forallb] in Hall. apply andb_true_iff in Hall as [Hc0c Hrest].
  destruct (lower_is_alpha c0 Hc0) as [Halpha _].
  destruct (name_char_props c0 Hc0c) as (_ & _ & _ & _ & _ & _ & _ & _ & Hl).
  unfold close_tag. cbn [app]. rewrite !run_cons.
  replace (step (step (step (MData, out) 60) 47) c0) with (MTagName true [c0], out).
  2:{ cbn [step N.eqb Pos.eqb]. now rewrite Halpha, Hl. }
  rewrite run_tok_app, (run_tag_name true [c0] out n Hrest).
  rewrite run_cons, run_nil.
  cbn [step is_ws N.eqb Pos.eqb orb emit_tag t_end t_name].
  now rewrite rev_app_distr, rev_involutive.
Qed.

Lemma kind_name_ok n k : kind_of n = Some k -> name_ok n = true.
Proof.
  intro H. apply kind_of_cases in H.
  destruct H as [[-> ->]|[[[->|[->|[->| ->]]] ->]|[[-> ->]|[[[->|[->| ->]] ->]|[-> ->]]]]]; reflexivity.
Qed.

Lemma toks_forest_app a b : toks_forest (a ++ b) = toks_forest a ++ toks_forest b.
Proof. induction a as [|x a IH]; [reflexivity|]. cbn [app toks_forest]. now rewrite IH, app_assoc. Qed.

Lemma run_node d : forall in_p out,
  node_ok in_p d = true -> run_tok (MData, out) (ser d) = (MData, rev (toks d) ++ out).
Proof.
  induction d as [s|s|n a ks IH] using dom_ind'; intros in_p out Hok.
  - apply run_text.
  - reflexivity.
  - rewrite node_ok_elem in Hok. destruct (kind_of n) as [k|] eqn:Ek; [|discriminate].
    apply andb_true_iff in Hok as [Hok Hks]. apply andb_true_iff in Hok as [_ Ha].
    rewrite (ser_elem _ _ _ (kind_not_raw _ _ Ek)), toks_elem, (kind_void_is_void _ _ Ek).
    pose proof (kind_name_ok _ _ Ek) as Hn.
    rewrite run_tok_app, (run_open_tag n a out Hn (kind_not_raw _ _ Ek) Ha).
    destruct (kind_void k).
    + cbn. reflexivity.
    + rewrite run_tok_app.
      assert (Hf : forall b pv o, forest_ok b ks pv = true ->
                     run_tok (MData, o) (ser_forest ks) = (MData, rev (toks_forest ks) ++ o)).
      { clear Hks. induction IH as [|x ks Hx _ IHks]; intros b pv o Hf; [reflexivity|].
        cbn [forest_ok] in Hf. apply andb_true_iff in Hf as [Hf Hf2]. apply andb_true_iff in Hf as [_ Hf1].
        cbn [ser_forest toks_forest]. rewrite run_tok_app, (Hx b o Hf1), (IHks b _ _ Hf2).
        now rewrite rev_app_distr, <- app_assoc. }
      rewrite (Hf _ _ _ Hks), (run_close_tag n _ Hn).
      cbn [rev]. rewrite rev_app_distr. cbn [rev app]. now rewrite <- !app_assoc.
Qed.

Lemma run_forest f : forall in_p pv out,
  forest_ok in_p f pv = true ->
  run_tok (MData, out) (ser_forest f) = (MData, rev (toks_forest f) ++ out).
Proof.
  induction f as [|x f IH]; intros in_p pv out Hf; [reflexivity|].
  cbn [forest_ok] in Hf. apply andb_true_iff in Hf as [Hf Hf2]. apply andb_true_iff in Hf as [_ Hf1].
  cbn [ser_forest toks_forest]. rewrite run_tok_app, (run_node x in_p out Hf1), (IH in_p _ _ Hf2).
  now rewrite rev_app_distr, <- app_assoc.
Qed.

Lemma tokenize_forest f in_p :
  forest_ok in_p f false = true -> tokenize (ser_forest f) = Some (toks_forest f).
Proof.
  intro H. unfold tokenize. rewrite (run_forest f in_p false [] H). now rewrite app_nil_r, rev_involutive.
Qed.

(** * Newline normalisation is the identity on the printer's output *)
Definition no_cr (s : bytes) : bool := forallb (fun c => negb (c =? 13)) s.

Lemma normalize_no_cr s : no_cr s = true -> normalize_newlines s = s.
Proof.
  induction s as [|c s IH]; intro H; [reflexivity|].
  cbn [no_cr forallb] in H. apply andb_true_iff in H as [Hc Hs].
  cbn [normalize_newlines]. apply negb_true_iff in Hc. rewrite Hc. now rewrite (IH Hs).
Qed.

Lemma no_cr_app a b : no_cr (a ++ b) = no_cr a && no_cr b.
Proof. apply forallb_app. Qed.

Lemma text_ok_no_cr s : text_ok s = true -> no_cr s = true.
Proof.
  induction s as [|c s IH]; intro H; [reflexivity|].
  cbn [text_ok forallb] in H. apply andb_true_iff in H as [Hc Hs].
  cbn [no_cr forallb]. unfold char_ok in Hc. apply andb_true_iff in Hc as [_ Hc]. rewrite Hc. apply (IH Hs).
Qed.

Lemma no_cr_esc_attr s : no_cr s = true -> no_cr (esc_attr s) = true.
Proof.
  induction s as [|c s IH]; intro H; [reflexivity|].
  cbn [no_cr forallb] in H. apply andb_true_iff in H as [Hc Hs].
  cbn [esc_attr flat_map]. fold (esc_attr s). rewrite no_cr_app, (IH Hs), andb_true_r.
  unfold esc_attr_byte, esc_text_byte.
  destruct (c =? 34); [reflexivity|]. destruct (c =? 38); [reflexivity|].
  destruct (c =? 60); [reflexivity|]. destruct (c =? 62); [reflexivity|].
  cbn [no_cr forallb]. now rewrite Hc.
Qed.

Lemma no_cr_esc_text s : no_cr s = true -> no_cr (esc_text s) = true.
Proof.
  induction s as [|c s IH]; intro H; [reflexivity|].
  cbn [no_cr forallb] in H. apply andb_true_iff in H as [Hc Hs].
  cbn [esc_text flat_map]. fold (esc_text s). rewrite no_cr_app, (IH Hs), andb_true_r.
  unfold esc_text_byte.
  destruct (c =? 38); [reflexivity|].
  destruct (c =? 60); [reflexivity|]. destruct (c =? 62); [reflexivity|].
  cbn [no_cr forallb]. now rewrite Hc.
Qed.

Lemma name_chars_no_cr n : forallb name_char n = true -> no_cr n = true.
Proof.
  induction n as [|c n IH]; intro H; [reflexivity|].
  cbn [forallb] in H. apply andb_true_iff in H as [Hc Hn].
  change (no_cr (c :: n)) with (negb (c =? 13) && no_cr n). rewrite (IH Hn), andb_true_r.
  unfold name_char, is_lower, is_digit, in_range in Hc.
  rewrite !orb_true_iff, !andb_true_iff, !N.leb_le, N.eqb_eq in Hc.
  apply negb_true_iff, N.eqb_neq. lia.
Qed.

Lemma name_ok_no_cr n : name_ok n = true -> no_cr n = true.
Proof.
  destruct n as [|c n]; [discriminate|]. unfold name_ok. intro H.
  apply andb_true_iff in H as [_ H]. now apply name_chars_no_cr.
Qed.

Lemma no_cr_attrs a :
  forallb (fun x => name_ok (fst x) && text_ok (snd x)) a = true -> no_cr (attrs_html a) = true.
Proof.
  induction a as [|[k v] a IH]; intro H; [reflexivity|].
  cbn [forallb fst snd] in H. apply andb_true_iff in H as [Hkv Ha]. apply andb_true_iff in Hkv as [Hk Hv].
  cbn [attrs_html flat_map]. fold (attrs_html a). unfold attr_html. cbn [fst snd].
  rewrite !no_cr_app, (IH Ha), (name_ok_no_cr _ Hk), (no_cr_esc_attr _ (text_ok_no_cr _ Hv)). reflexivity.
Qed.

Lemma no_cr_node d : forall in_p, node_ok in_p d = true -> no_cr (ser d) = true.
Proof.
  induction d as [s|s|n a ks IH] using dom_ind'; intros in_p Hok.
  - cbn [node_ok] in Hok. apply andb_true_iff in Hok as [Hs _].
    apply no_cr_esc_text, text_ok_no_cr, Hs.
  - reflexivity.
  - rewrite node_ok_elem in Hok. destruct (kind_of n) as [k|] eqn:Ek; [|discriminate].
    apply andb_true_iff in Hok as [Hok Hks]. apply andb_true_iff in Hok as [_ Ha].
    unfold attrs_ok in Ha. apply andb_true_iff in Ha as [Ha _].
    pose proof (name_ok_no_cr _ (kind_name_ok _ _ Ek)) as Hn.
    rewrite (ser_elem _ _ _ (kind_not_raw _ _ Ek)), (kind_void_is_void _ _ Ek). unfold open_tag, close_tag.
    rewrite !no_cr_app, Hn, (no_cr_attrs _ Ha). cbn [no_cr forallb N.eqb Pos.eqb negb andb].
    destruct (kind_void k); [reflexivity|].
    rewrite !no_cr_app, Hn. cbn [no_cr forallb N.eqb Pos.eqb negb andb]. rewrite andb_true_r.
    revert Hks. generalize (in_p || bytes_eqb n s_p) as b. generalize false as pv.
    induction IH as [|x ks Hx _ IHks]; intros pv b Hf; [reflexivity|].
    cbn [forest_ok] in Hf. apply andb_true_iff in Hf as [Hf Hf2]. apply andb_true_iff in Hf as [_ Hf1].
    cbn [ser_forest]. rewrite no_cr_app, (Hx b Hf1). apply (IHks _ _ Hf2).
Qed.

Lemma no_cr_forest f : forall in_p pv, forest_ok in_p f pv = true -> no_cr (ser_forest f) = true.
Proof.
  induction f as [|x f IH]; intros in_p pv Hf; [reflexivity|].
  cbn [forest_ok] in Hf. apply andb_true_iff in Hf as [Hf Hf2]. apply andb_true_iff in Hf as [_ Hf1].
  cbn [ser_forest]. rewrite no_cr_app, (no_cr_node x in_p Hf1). apply (IH _ _ Hf2).
Qed.

(** * Tree construction rebuilds the forest *)
Definition push_kids (f : list dom) (st : list frame) : list frame :=
  match st with
  | [] => []
  | fr :: st => {| f_name := f_name fr; f_attrs := f_attrs fr; f_kids := rev f ++ f_kids fr |} :: st
  end.
Definition top_text (st : list frame) : bool :=
  match st with
  | fr :: _ => match f_kids fr with DText _ :: _ => true | _ => false end
  | [] => false
  end.

Lemma push_kids_cons d f st : push_kids (d :: f) st = push_kids f (push_kids [d] st).
Proof. destruct st as [|fr st]; [reflexivity|]. cbn [push_kids rev f_name f_attrs f_kids]. now rewrite <- !app_assoc. Qed.

Lemma has_open_push n f st : has_open n (push_kids f st) = has_open n st.
Proof. destruct st; reflexivity. Qed.

Lemma top_text_push d st : st <> [] -> top_text (push_kids [d] st) = is_text_node d.
Proof. destruct st as [|fr st]; [congruence|]. intros _. destruct d; reflexivity. Qed.

Lemma push_kids_nonempty f st : st <> [] -> push_kids f st <> [].
Proof. destruct st; [congruence|]. discriminate. Qed.

Lemma build_chars s : forall t n a ks st,
  text_ok s = true ->
  fold_left bstep (map TChar s) (Some ({| f_name := n; f_attrs := a; f_kids := DText t :: ks |} :: st)) =
  Some ({| f_name := n; f_attrs := a; f_kids := DText (t ++ s) :: ks |} :: st).
Proof.
  induction s as [|c s IH]; intros t n a ks st Hs.
  - cbn. now rewrite app_nil_r.
  - cbn [text_ok forallb] in Hs. apply andb_true_iff in Hs as [Hc Hs].
    unfold char_ok in Hc. apply andb_true_iff in Hc as [H0 _]. apply negb_true_iff in H0.
    cbn [map fold_left bstep]. rewrite H0. unfold first_in_textarea. cbn [f_kids f_name].
    rewrite !andb_false_r. unfold append_char. cbn [f_kids f_name f_attrs].
    rewrite (IH (t ++ [c]) n a ks st Hs). now rewrite <- app_assoc.
Qed.

(** the current node is not a textarea (whose first newline the tree builder drops) *)
Definition not_ta (st : list frame) : Prop :=
  match st with fr :: _ => bytes_eqb (f_name fr) s_textarea = false | [] => True end.
Lemma not_ta_push f st : not_ta st -> not_ta (push_kids f st).
Proof. destruct st; auto. Qed.
Lemma kind_not_textarea n k : kind_of n = Some k -> bytes_eqb n s_textarea = false.
Proof.
  intro H. apply kind_not_raw in H. unfold raw_kind in H.
  destruct (bytes_eqb n s_textarea); [discriminate|reflexivity].
Qed.

Lemma build_text s st :
  text_ok s = true -> s <> [] -> st <> [] -> top_text st = false -> not_ta st ->
  fold_left bstep (map TChar s) (Some st) = Some (push_kids [DText s] st).
Proof.
  intros Hs Hne Hst Htop Hta. destruct st as [|fr st]; [congruence|]. destruct s as [|c s]; [congruence|].
  cbn [text_ok forallb] in Hs. apply andb_true_iff in Hs as [Hc Hs].
  unfold char_ok in Hc. apply andb_true_iff in Hc as [H0 _]. apply negb_true_iff in H0.
  cbn [map fold_left bstep]. rewrite H0. unfold first_in_textarea. cbn [not_ta] in Hta. rewrite Hta.
  cbn [andb]. rewrite andb_false_r.
  assert (E : append_char c (fr :: st) =
              {| f_name := f_name fr; f_attrs := f_attrs fr; f_kids := DText [c] :: f_kids fr |} :: st).
  { unfold append_char. cbn [top_text] in Htop. destruct (f_kids fr) as [|[t|t|n a ks] r]; try reflexivity; discriminate. }
  rewrite E, (build_chars s [c] _ _ (f_kids fr) st Hs). reflexivity.
Qed.

Lemma pop_until_top n fr st fuel :
  st <> [] -> bytes_eqb n (f_name fr) = true ->
  pop_until n (fr :: st) (S fuel) = add_kid (close_frame fr) st.
Proof.
  intros Hst Hn. destruct st as [|fr2 st]; [congruence|]. cbn [pop_until]. rewrite Hn. reflexivity.
Qed.

Lemma add_kid_push d st : add_kid d st = push_kids [d] st.
Proof. destruct st; reflexivity. Qed.

Lemma build_node d : forall in_p st,
  node_ok in_p d = true -> st <> [] -> has_open s_p st = in_p ->
  (is_text_node d = true -> top_text st = false) -> not_ta st ->
  fold_left bstep (toks d) (Some st) = Some (push_kids [d] st).
Proof.
  induction d as [s|s|n a ks IH] using dom_ind'; intros in_p st Hok Hst Hp Htop Hta.
  - cbn [node_ok] in Hok. apply andb_true_iff in Hok as [Hs Hne].
    apply build_text; auto. destruct s; [discriminate|congruence].
  - cbn [node_ok] in Hok. destruct s; [|discriminate]. cbn. now rewrite add_kid_push.
  - rewrite node_ok_elem in Hok. destruct (kind_of n) as [k|] eqn:Ek; [|discriminate].
    apply andb_true_iff in Hok as [Hok Hks]. apply andb_true_iff in Hok as [Hcp _].
    rewrite toks_elem, (kind_void_is_void _ _ Ek).
    cbn [fold_left bstep]. rewrite Ek, Hp.
    assert (Hnc : closes_p k && in_p = false).
    { apply negb_true_iff in Hcp. now rewrite andb_comm. }
    rewrite Hnc.
    destruct (kind_void k) eqn:Ev.
    + destruct ks; [|discriminate]. cbn. now rewrite add_kid_push.
    + rewrite fold_left_app.
      set (st1 := {| f_name := n; f_attrs := a; f_kids := [] |} :: st).
      assert (Hf : forall b pv s0, forest_ok b ks pv = true -> s0 <> [] -> has_open s_p s0 = b ->
                     top_text s0 = pv -> not_ta s0 ->
                     fold_left bstep (toks_forest ks) (Some s0) = Some (push_kids ks s0)).
      { clear Hks Htop. induction IH as [|x ks Hx _ IHks]; intros b pv s0 Hf Hs0 Hb Hpv Hta0.
        - destruct s0 as [|fr s0]; [congruence|]. cbn. destruct fr; reflexivity.
        - cbn [forest_ok] in Hf. apply andb_true_iff in Hf as [Hf Hf2]. apply andb_true_iff in Hf as [Hadj Hf1].
          cbn [toks_forest]. rewrite fold_left_app, (Hx b s0 Hf1 Hs0 Hb); [| |exact Hta0].
          + rewrite (push_kids_cons x ks). apply (IHks b (is_text_node x)); auto.
            * now apply push_kids_nonempty.
            * now rewrite has_open_push.
            * now apply top_text_push.
            * now apply not_ta_push.
          + intro Hx'. rewrite Hx', andb_true_r in Hadj. apply negb_true_iff in Hadj. congruence. }
      rewrite (Hf (in_p || bytes_eqb n s_p) false st1 Hks); [| discriminate | | reflexivity |].
      3:{ unfold st1. cbn [not_ta f_name]. apply (kind_not_textarea _ _ Ek). }
      2:{ unfold st1. cbn [has_open existsb f_name]. fold (has_open s_p st).
          rewrite Hp, orb_comm. f_equal. apply bytes_eqb_sym. }
      cbn [fold_left bstep]. rewrite Ek. unfold st1. cbn [push_kids f_name f_attrs f_kids].
      rewrite app_nil_r.
      assert (Hpop : pop_until n ({| f_name := n; f_attrs := a; f_kids := rev ks |} :: st)
                       (length ({| f_name := n; f_attrs := a; f_kids := rev ks |} :: st))
                     = push_kids [DElem n a ks] st).
      { cbn [length]. rewrite pop_until_top; [|exact Hst|cbn [f_name]; apply bytes_eqb_refl].
        unfold close_frame. cbn [f_name f_attrs f_kids]. now rewrite rev_involutive, add_kid_push. }
      apply kind_of_cases in Ek.
      destruct Ek as [[-> ->]|[[Hn ->]|[[-> ->]|[[_ ->]|[_ ->]]]]]; try discriminate.
      * (* span *)
        destruct st as [|fr2 st2]; [congruence|]. cbn [end_ordinary f_name].
        rewrite bytes_eqb_refl. now rewrite Hpop.
      * (* block *)
        assert (Ho : has_open n ({| f_name := n; f_attrs := a; f_kids := rev ks |} :: st) = true).
        { cbn [has_open existsb f_name]. now rewrite bytes_eqb_refl. }
        rewrite Ho. now rewrite Hpop.
      * (* p *)
        assert (Ho : has_open s_p ({| f_name := s_p; f_attrs := a; f_kids := rev ks |} :: st) = true)
          by reflexivity.
        rewrite Ho. now rewrite Hpop.
Qed.

Lemma build_forest f : forall in_p pv st,
  forest_ok in_p f pv = true -> st <> [] -> has_open s_p st = in_p -> top_text st = pv -> not_ta st ->
  fold_left bstep (toks_forest f) (Some st) = Some (push_kids f st).
Proof.
  induction f as [|x f IH]; intros in_p pv st Hf Hst Hp Hpv Hta.
  - destruct st as [|fr st]; [congruence|]. cbn. destruct fr; reflexivity.
  - cbn [forest_ok] in Hf. apply andb_true_iff in Hf as [Hf Hf2]. apply andb_true_iff in Hf as [Hadj Hf1].
    cbn [toks_forest]. rewrite fold_left_app, (build_node x in_p st Hf1 Hst Hp); [| |exact Hta].
    + rewrite (push_kids_cons x f). apply (IH in_p (is_text_node x)); auto.
      * now apply push_kids_nonempty.
      * now rewrite has_open_push.
      * now apply top_text_push.
      * now apply not_ta_push.
    + intro Hx'. rewrite Hx', andb_true_r in Hadj. apply negb_true_iff in Hadj. congruence.
Qed.

Theorem parse_ser_forest f :
  forest_ok false f false = true -> parse (ser_forest f) = Some f.
Proof.
  intro H. unfold parse.
  rewrite (normalize_no_cr _ (no_cr_forest f false false H)), (tokenize_forest f false H).
  unfold build. rewrite (build_forest f false false [root_frame] H); try reflexivity; [|discriminate].
  cbn. now rewrite app_nil_r, rev_involutive.
Qed.

(** parse (to_html v) = the expected DOM *)
Theorem print_parse_roundtrip v :
  wf false v = true -> parse (render v) = Some (fst (dom_of v FirstChild)).
Proof.
  intro H. unfold render. rewrite (to_html_dom v false FirstChild H). cbn [fst].
  apply parse_ser_forest. apply (dom_of_ok v false FirstChild false H). discriminate.
Qed.

(** * Hydration walks the parsed tree *)

(** the state hydration must produce for view [v] whose first node is child number [idx] of the
    element at [par], computed from the shape of the expected DOM alone *)
Fixpoint st_of (v : view) (pos : Position) (par : path) (idx : nat) {struct v} : stree :=
  let seq := fix seq (l : list view) (pos : Position) (par : path) (idx : nat) {struct l} : list stree :=
    match l with
    | [] => []
    | v :: l => st_of v pos par idx
                :: seq l (snd (dom_of v pos)) par (idx + length (fst (dom_of v pos)))%nat
    end in
  match v with
  | VText s => SText ((if pos_eqb pos NextChildAfterText then S idx else idx) :: par) s
  | VUnit => SMarker (idx :: par)
  | VNone => SRightS (SMarker (idx :: par))
  | VElem n a ks =>
      SElem (idx :: par) a (match ks with [] => None | _ => Some (seq ks FirstChild (idx :: par) O) end)
  | VVoid n a => SElem (idx :: par) a None
  | VTuple vs => SSeq (seq vs pos par idx)
  | VSome v | VLeft v => SLeftS (st_of v pos par idx)
  | VRight v => SRightS (st_of v pos par idx)
  | VAny v => SAny (st_of v pos par idx)
  | VVec vs => SVec (seq vs pos par idx) ((idx + length (fst (dom_seq vs pos)))%nat :: par)
  | VKeyed vs => SKeyed par (seq vs pos par idx) ((idx + length (fst (dom_seq vs pos)))%nat :: par)
  | VInert e => SInert (idx :: par)
  | VRaw n a _ => SElem (idx :: par) a None
  | VSuspend v => SSusp (st_of v pos par idx)
  end.

Fixpoint st_seq (l : list view) (pos : Position) (par : path) (idx : nat) : list stree :=
  match l with
  | [] => []
  | v :: l => st_of v pos par idx
              :: st_seq l (snd (dom_of v pos)) par (idx + length (fst (dom_of v pos)))%nat
  end.

Lemma st_of_tuple vs pos par idx : st_of (VTuple vs) pos par idx = SSeq (st_seq vs pos par idx).
Proof. reflexivity. Qed.

Lemma st_of_elem n a ks pos par idx :
  st_of (VElem n a ks) pos par idx =
  SElem (idx :: par) a (match ks with [] => None | _ => Some (st_seq ks FirstChild (idx :: par) O) end).
Proof. reflexivity. Qed.

Lemma st_of_vec vs pos par idx :
  st_of (VVec vs) pos par idx =
  SVec (st_seq vs pos par idx) ((idx + length (fst (dom_seq vs pos)))%nat :: par).
Proof. reflexivity. Qed.

Lemma st_of_keyed vs pos par idx :
  st_of (VKeyed vs) pos par idx =
  SKeyed par (st_seq vs pos par idx) ((idx + length (fst (dom_seq vs pos)))%nat :: par).
Proof. reflexivity. Qed.

(** the DOM writes implied by a state: one reset per empty string *)
Fixpoint resets (s : stree) : list op :=
  let seq := fix seq (l : list stree) : list op :=
    match l with [] => [] | s :: l => resets s ++ seq l end in
  match s with
  | SText n [] => [OSetText n []]
  | SText _ _ | SMarker _ | SInert _ => []
  | SElem _ _ (Some l) => seq l
  | SElem _ _ None => []
  | SSeq l | SVec l _ | SKeyed _ l _ => seq l
  | SLeftS s | SRightS s | SAny s | SSusp s => resets s
  end.
Fixpoint resets_seq (l : list stree) : list op :=
  match l with [] => [] | s :: l => resets s ++ resets_seq l end.

(** the local list recursion of [hydrate] *)
Lemma hydrate_tuple root vs h :
  hydrate root (VTuple vs) h =
  match hydrate_seq root vs h with Some (ss, h1) => Some (SSeq ss, h1) | None => None end.
Proof.
  cbn [hydrate].
  assert (E : forall h, (fix seq (l : list view) (h : hstate) {struct l} : option (list stree * hstate) :=
            match l with
            | [] => Some ([], h)
            | v :: l =>
                match hydrate root v h with
                | None => None
                | Some (s, h1) =>
                    match seq l h1 with
                    | None => None
                    | Some (ss, h2) => Some (s :: ss, h2)
                    end
                end
            end) vs h = hydrate_seq root vs h).
  { induction vs as [|v vs IH]; intro h0; [reflexivity|].
    cbn [hydrate_seq]. destruct (hydrate root v h0) as [[s h1]|]; [|reflexivity]. now rewrite IH. }
  now rewrite E.
Qed.

Lemma hydrate_elem root n a ks h :
  hydrate root (VElem n a ks) h =
  match goto_element root h with
  | None => None
  | Some el =>
      match ks with
      | [] => Some (SElem el a None, {| h_cur := el; h_pos := NextChild; h_ops := h_ops h |})
      | _ =>
          match hydrate_seq root ks {| h_cur := el; h_pos := FirstChild; h_ops := h_ops h |} with
          | None => None
          | Some (ss, h1) =>
              Some (SElem el a (Some ss), {| h_cur := el; h_pos := NextChild; h_ops := h_ops h1 |})
          end
      end
  end.
Proof.
  cbn [hydrate]. destruct (goto_element root h) as [el|]; [|reflexivity].
  destruct ks as [|k ks]; [reflexivity|].
  pose proof (hydrate_tuple root (k :: ks) {| h_cur := el; h_pos := FirstChild; h_ops := h_ops h |}) as H.
  cbn [hydrate] in H.
  match goal with |- match ?X with _ => _ end = _ => destruct X as [[ss h1]|] eqn:E end;
  match type of H with _ = match ?Y with _ => _ end => destruct Y as [[ss' h1']|] end; congruence.
Qed.

Lemma hydrate_vec root vs h :
  hydrate root (VVec vs) h =
  match hydrate_seq root vs h with
  | None => None
  | Some (ss, h1) =>
      match next_placeholder root h1 with
      | Some (m, h2) => Some (SVec ss m, h2)
      | None => None
      end
  end.
Proof.
  pose proof (hydrate_tuple root vs h) as H. cbn [hydrate] in H |- *.
  match goal with |- match ?X with _ => _ end = _ => destruct X as [[ss h1]|] eqn:E end;
  destruct (hydrate_seq root vs h) as [[ss' h1']|]; try congruence.
  injection H as -> ->. reflexivity.
Qed.

Lemma hydrate_keyed root vs h :
  hydrate root (VKeyed vs) h =
  let parent := if pos_eqb (h_pos h) FirstChild then h_cur h else cur_parent (h_cur h) in
  if negb (is_elem (node_at root parent))
     || (negb (pos_eqb (h_pos h) FirstChild) && match h_cur h with [] => true | _ => false end)
  then None
  else match hydrate_seq root vs h with
       | None => None
       | Some (ss, h1) =>
           match next_placeholder root h1 with
           | Some (m, h2) => Some (SKeyed parent ss m, h2)
           | None => None
           end
       end.
Proof.
  pose proof (hydrate_tuple root vs h) as H. cbn [hydrate] in H |- *. cbv zeta.
  destruct (negb _ || _); [reflexivity|].
  match goal with |- match ?X with _ => _ end = _ => destruct X as [[ss h1]|] eqn:E end;
  destruct (hydrate_seq root vs h) as [[ss' h1']|]; try congruence.
  injection H as -> ->. reflexivity.
Qed.

(** navigation *)
Lemma get_app d p q :
  get d (p ++ q) = match get d p with Some d' => get d' q | None => None end.
Proof.
  revert d. induction p as [|i p IH]; intro d; [reflexivity|].
  cbn [app get]. destruct d as [s|s|n a ks]; try reflexivity.
  destruct (nth_error ks i); [apply IH|reflexivity].
Qed.

Lemma node_at_cons root i par n a ks :
  node_at root par = Some (DElem n a ks) -> node_at root (i :: par) = nth_error ks i.
Proof.
  unfold node_at. intro H. cbn [rev]. rewrite get_app, H. cbn [get].
  destruct (nth_error ks i); reflexivity.
Qed.

Lemma nth_error_mid {A} (pre x post : list A) j :
  (j < length x)%nat -> nth_error (pre ++ x ++ post) (length pre + j) = nth_error x j.
Proof.
  intro H. rewrite nth_error_app2 by lia. replace (length pre + j - length pre)%nat with j by lia.
  now rewrite nth_error_app1.
Qed.

Definition cursor_ok (par : path) (pre : list dom) (pos : Position) (cur : path) : Prop :=
  match pos with
  | FirstChild => pre = [] /\ cur = par
  | NextChild | NextChildAfterText => pre <> [] /\ cur = (length pre - 1)%nat :: par
  | _ => False
  end.

(** the step every view starts with: to the first child if [FirstChild], else to the next sibling *)
Lemma first_step root par n a pre x rest pos cur :
  node_at root par = Some (DElem n a (pre ++ x :: rest)) ->
  cursor_ok par pre pos cur ->
  (if pos_eqb pos FirstChild then cur_child root cur else cur_sibling root cur) = length pre :: par /\
  node_at root (length pre :: par) = Some x.
Proof.
  intros Hn Hc.
  assert (Hx : node_at root (length pre :: par) = Some x).
  { rewrite (node_at_cons _ _ _ _ _ _ Hn). rewrite nth_error_app2 by lia. now rewrite Nat.sub_diag. }
  split; [|exact Hx].
  destruct pos; cbn [cursor_ok pos_eqb] in *; try contradiction.
  - destruct Hc as [-> ->]. unfold cur_child. cbn [length] in *. now rewrite Hx.
  - destruct Hc as [Hne ->]. unfold cur_sibling.
    assert (E : S (length pre - 1) = length pre) by (destruct pre; [congruence|cbn; lia]).
    now rewrite E, Hx.
  - destruct Hc as [Hne ->]. unfold cur_sibling.
    assert (E : S (length pre - 1) = length pre) by (destruct pre; [congruence|cbn; lia]).
    now rewrite E, Hx.
Qed.

Lemma cursor_ok_after par pre x pos :
  (pos = NextChild \/ pos = NextChildAfterText) -> x <> [] ->
  cursor_ok par (pre ++ x) pos ((length pre + length x - 1)%nat :: par).
Proof.
  intros Hp Hx. assert (pre ++ x <> []) by (destruct pre; destruct x; cbn; congruence).
  destruct Hp as [-> | ->]; cbn [cursor_ok]; (split; [assumption|]); now rewrite app_length.
Qed.

Lemma cursor_ok_after' par pre x pos c :
  (pos = NextChild \/ pos = NextChildAfterText) -> x <> [] ->
  c = (length pre + length x - 1)%nat -> cursor_ok par (pre ++ x) pos (c :: par).
Proof. intros Hp Hx ->. now apply cursor_ok_after. Qed.

Definition hyd_spec (root : dom) (v : view) : Prop :=
  forall par n0 a0 pre post in_p pos h,
    wf in_p v = true ->
    node_at root par = Some (DElem n0 a0 (pre ++ fst (dom_of v pos) ++ post)) ->
    h_pos h = pos -> cursor_ok par pre pos (h_cur h) ->
    exists h',
      hydrate root v h = Some (st_of v pos par (length pre), h') /\
      h_pos h' = snd (dom_of v pos) /\
      cursor_ok par (pre ++ fst (dom_of v pos)) (h_pos h') (h_cur h') /\
      h_ops h' = rev (resets (st_of v pos par (length pre))) ++ h_ops h.

Lemma hyd_seq_spec root vs :
  Forall (hyd_spec root) vs ->
  forall par n0 a0 pre post in_p pos h,
    wf_seq in_p vs = true ->
    node_at root par = Some (DElem n0 a0 (pre ++ fst (dom_seq vs pos) ++ post)) ->
    h_pos h = pos -> cursor_ok par pre pos (h_cur h) ->
    exists h',
      hydrate_seq root vs h = Some (st_seq vs pos par (length pre), h') /\
      h_pos h' = snd (dom_seq vs pos) /\
      cursor_ok par (pre ++ fst (dom_seq vs pos)) (h_pos h') (h_cur h') /\
      h_ops h' = rev (resets_seq (st_seq vs pos par (length pre))) ++ h_ops h.
Proof.
  intro IH. induction IH as [|v vs Hv _ IHvs]; intros par n0 a0 pre post in_p pos h Hwf Hn Hpos Hc.
  - exists h. cbn. rewrite app_nil_r. subst pos. auto.
  - cbn [wf_seq] in Hwf. apply andb_true_iff in Hwf as [Hw1 Hw2].
    cbn [dom_seq] in Hn |- *. cbn [hydrate_seq st_seq].
    destruct (dom_of v pos) as [x1 p1] eqn:E1. destruct (dom_seq vs p1) as [x2 p2] eqn:E2.
    cbn [fst snd] in *.
    destruct (Hv par n0 a0 pre (x2 ++ post) in_p pos h Hw1) as (h1 & Hh1 & Hp1 & Hc1 & Ho1); auto.
    { rewrite E1. cbn [fst]. now rewrite <- app_assoc in Hn. }
    rewrite E1 in Hp1, Hc1. cbn [fst snd] in *.
    assert (Hn2 : node_at root par = Some (DElem n0 a0 ((pre ++ x1) ++ fst (dom_seq vs p1) ++ post))).
    { rewrite E2. cbn [fst]. now rewrite <- !app_assoc in *. }
    assert (Hc1' : cursor_ok par (pre ++ x1) p1 (h_cur h1)) by (now rewrite <- Hp1).
    destruct (IHvs par n0 a0 (pre ++ x1) post in_p p1 h1 Hw2 Hn2 Hp1 Hc1') as (h2 & Hh2 & Hp2 & Hc2 & Ho2).
    rewrite E2 in Hp2, Hc2. cbn [fst snd] in *. rewrite app_length in Hh2, Ho2.
    exists h2. rewrite Hh1, Hh2. repeat split; auto.
    + now rewrite app_assoc.
    + rewrite Ho2, Ho1. cbn [resets_seq]. now rewrite rev_app_distr, <- app_assoc.
Qed.

Lemma goto_element_ok root par n a pre x rest h :
  node_at root par = Some (DElem n a (pre ++ x :: rest)) ->
  cursor_ok par pre (h_pos h) (h_cur h) -> is_elem (Some x) = true ->
  goto_element root h = Some (length pre :: par).
Proof.
  intros Hn Hc Hx. destruct (first_step _ _ _ _ _ _ _ _ _ Hn Hc) as [Hs Hat].
  unfold goto_element.
  assert (E : (if pos_eqb (h_pos h) FirstChild then cur_child root (h_cur h)
               else if pos_eqb (h_pos h) Current then h_cur h else cur_sibling root (h_cur h))
              = length pre :: par).
  { destruct (h_pos h); cbn [pos_eqb cursor_ok] in *; try contradiction; exact Hs. }
  now rewrite E, Hat, Hx.
Qed.

Lemma next_placeholder_ok root par n a pre x rest h :
  node_at root par = Some (DElem n a (pre ++ x :: rest)) ->
  cursor_ok par pre (h_pos h) (h_cur h) -> is_comment (Some x) = true ->
  next_placeholder root h =
  Some (length pre :: par, {| h_cur := length pre :: par; h_pos := NextChild; h_ops := h_ops h |}).
Proof.
  intros Hn Hc Hx. destruct (first_step _ _ _ _ _ _ _ _ _ Hn Hc) as [Hs Hat].
  unfold next_placeholder. now rewrite Hs, Hat, Hx.
Qed.

Lemma resets_elem n a l : resets (SElem n a (Some l)) = resets_seq l.
Proof. reflexivity. Qed.
Lemma resets_seq_eq l : resets (SSeq l) = resets_seq l.
Proof. reflexivity. Qed.
Lemma resets_vec l m : resets (SVec l m) = resets_seq l.
Proof. reflexivity. Qed.
Lemma resets_keyed p l m : resets (SKeyed p l m) = resets_seq l.
Proof. reflexivity. Qed.

Lemma hyd_all root v : hyd_spec root v.
Proof.
  induction v as [s| |n a ks IH|n a|vs IH|v IH| |v IH|v IH|vs IH|v IH|vs IH|e|rn ra rps|v IH] using view_ind';
    intros par n0 a0 pre post in_p pos h Hwf Hn Hpos Hc; subst pos.
  - (* text *)
    cbn [dom_of fst snd] in *. cbn [hydrate st_of].
    destruct (pos_eqb (h_pos h) NextChildAfterText) eqn:Ep.
    + cbn [app] in Hn.
      destruct (first_step _ _ _ _ _ _ _ _ _ Hn Hc) as [Hs _]. rewrite Hs.
      assert (Ht : node_at root (S (length pre) :: par) = Some (text_node s)).
      { rewrite (node_at_cons _ _ _ _ _ _ Hn).
        rewrite nth_error_app2 by lia. replace (S (length pre) - length pre)%nat with 1%nat by lia.
        reflexivity. }
      assert (Hsib : cur_sibling root (length pre :: par) = S (length pre) :: par)
        by (unfold cur_sibling; now rewrite Ht).
      rewrite Hsib, Ht. cbn [is_text text_node].
      eexists. split; [reflexivity|]. cbn [h_pos h_cur h_ops]. split; [reflexivity|]. split.
      * apply cursor_ok_after'; [now right|discriminate|cbn [length app]; lia].
      * destruct s; reflexivity.
    + cbn [app] in Hn.
      destruct (first_step _ _ _ _ _ _ _ _ _ Hn Hc) as [Hs Ht]. rewrite Hs, Ht. cbn [is_text text_node].
      eexists. split; [reflexivity|]. cbn [h_pos h_cur h_ops]. split; [reflexivity|]. split.
      * apply cursor_ok_after'; [now right|discriminate|cbn [length app]; lia].
      * destruct s; reflexivity.
  - (* unit *)
    cbn [dom_of fst snd app] in *. cbn [hydrate st_of].
    rewrite (next_placeholder_ok _ _ _ _ _ _ _ _ Hn Hc eq_refl).
    eexists. split; [reflexivity|]. cbn [h_pos h_cur h_ops]. split; [reflexivity|]. split; [|reflexivity].
    apply cursor_ok_after'; [now left|discriminate|cbn [length app]; lia].
  - (* element *)
    rewrite dom_of_elem in *. cbn [fst snd app] in *. rewrite hydrate_elem, st_of_elem.
    rewrite (goto_element_ok _ _ _ _ _ _ _ _ Hn Hc eq_refl).
    assert (Hafter : cursor_ok par (pre ++ [DElem n a (fst (dom_seq ks FirstChild))]) NextChild (length pre :: par)).
    { apply cursor_ok_after'; [now left|discriminate|cbn [length app]; lia]. }
    destruct ks as [|k ks].
    + eexists. split; [reflexivity|]. cbn [h_pos h_cur h_ops]. auto.
    + rewrite wf_elem in Hwf. apply andb_true_iff in Hwf as [_ Hks].
      destruct (first_step _ _ _ _ _ _ _ _ _ Hn Hc) as [_ Hel].
      set (el := (length pre :: par)) in *.
      assert (Hel' : node_at root el =
                     Some (DElem n a ([] ++ fst (dom_seq (k :: ks) FirstChild) ++ []))).
      { now rewrite app_nil_r. }
      destruct (hyd_seq_spec root (k :: ks) IH el n a [] [] _ FirstChild
                  {| h_cur := el; h_pos := FirstChild; h_ops := h_ops h |} Hks Hel' eq_refl)
        as (h1 & Hh1 & _ & _ & Ho1).
      { split; reflexivity. }
      cbn [length] in Hh1, Ho1. rewrite Hh1.
      eexists. split; [reflexivity|]. cbn [h_pos h_cur h_ops]. split; [reflexivity|]. split; [exact Hafter|].
      rewrite resets_elem. exact Ho1.
  - (* void element *)
    cbn [dom_of fst snd app] in *. cbn [hydrate st_of].
    rewrite (goto_element_ok _ _ _ _ _ _ _ _ Hn Hc eq_refl).
    eexists. split; [reflexivity|]. cbn [h_pos h_cur h_ops]. split; [reflexivity|]. split; [|reflexivity].
    apply cursor_ok_after'; [now left|discriminate|cbn [length app]; lia].
  - (* tuple *)
    rewrite dom_of_tuple in *. rewrite hydrate_tuple, st_of_tuple.
    rewrite wf_tuple in Hwf. apply andb_true_iff in Hwf as [_ Hks].
    destruct (hyd_seq_spec root vs IH par n0 a0 pre post in_p (h_pos h) h Hks Hn eq_refl Hc)
      as (h1 & Hh1 & Hp1 & Hc1 & Ho1).
    rewrite Hh1. exists h1. rewrite resets_seq_eq. auto.
  - (* Some *)
    destruct (IH par n0 a0 pre post in_p (h_pos h) h Hwf Hn eq_refl Hc) as (h1 & Hh1 & Hp1 & Hc1 & Ho1).
    cbn [hydrate st_of dom_of]. rewrite Hh1. exists h1. auto.
  - (* None *)
    cbn [dom_of fst snd app] in *. cbn [hydrate st_of].
    rewrite (next_placeholder_ok _ _ _ _ _ _ _ _ Hn Hc eq_refl).
    eexists. split; [reflexivity|]. cbn [h_pos h_cur h_ops]. split; [reflexivity|]. split; [|reflexivity].
    apply cursor_ok_after'; [now left|discriminate|cbn [length app]; lia].
  - (* Left *)
    destruct (IH par n0 a0 pre post in_p (h_pos h) h Hwf Hn eq_refl Hc) as (h1 & Hh1 & Hp1 & Hc1 & Ho1).
    cbn [hydrate st_of dom_of]. rewrite Hh1. exists h1. auto.
  - (* Right *)
    destruct (IH par n0 a0 pre post in_p (h_pos h) h Hwf Hn eq_refl Hc) as (h1 & Hh1 & Hp1 & Hc1 & Ho1).
    cbn [hydrate st_of dom_of]. rewrite Hh1. exists h1. auto.
  - (* Vec *)
    rewrite dom_of_vec in *. cbn [fst snd] in *. rewrite hydrate_vec, st_of_vec.
    rewrite wf_vec in Hwf.
    assert (Hn1 : node_at root par = Some (DElem n0 a0 (pre ++ fst (dom_seq vs (h_pos h)) ++ sep :: post))).
    { now rewrite <- app_assoc in Hn. }
    destruct (hyd_seq_spec root vs IH par n0 a0 pre (sep :: post) in_p (h_pos h) h Hwf Hn1 eq_refl Hc)
      as (h1 & Hh1 & Hp1 & Hc1 & Ho1).
    rewrite Hh1.
    assert (Hn2 : node_at root par = Some (DElem n0 a0 ((pre ++ fst (dom_seq vs (h_pos h))) ++ sep :: post))).
    { now rewrite <- app_assoc. }
    rewrite (next_placeholder_ok _ _ _ _ _ _ _ _ Hn2 Hc1 eq_refl). rewrite app_length.
    eexists. split; [reflexivity|]. cbn [h_pos h_cur h_ops]. split; [reflexivity|]. split.
    + apply cursor_ok_after'; [now left| |rewrite app_length; cbn [length app]; lia].
      destruct (fst (dom_seq vs (h_pos h))); discriminate.
    + rewrite resets_vec. exact Ho1.
  - (* Any *)
    destruct (IH par n0 a0 pre post in_p (h_pos h) h Hwf Hn eq_refl Hc) as (h1 & Hh1 & Hp1 & Hc1 & Ho1).
    cbn [hydrate st_of dom_of]. rewrite Hh1. exists h1. auto.
  - (* keyed *)
    rewrite dom_of_keyed in *. cbn [fst snd] in *. rewrite hydrate_keyed, st_of_keyed. cbv zeta.
    rewrite wf_keyed in Hwf.
    assert (Hpar : (if pos_eqb (h_pos h) FirstChild then h_cur h else cur_parent (h_cur h)) = par
                   /\ (negb (pos_eqb (h_pos h) FirstChild) && match h_cur h with [] => true | _ => false end) = false).
    { destruct (h_pos h); cbn [cursor_ok pos_eqb] in Hc |- *; try contradiction;
        destruct Hc as [_ ->]; split; reflexivity. }
    destruct Hpar as [-> ->]. rewrite Hn. cbn [is_elem negb orb].
    assert (Hn1 : node_at root par = Some (DElem n0 a0 (pre ++ fst (dom_seq vs (h_pos h)) ++ sep :: post))).
    { now rewrite <- app_assoc in Hn. }
    destruct (hyd_seq_spec root vs IH par n0 a0 pre (sep :: post) in_p (h_pos h) h Hwf Hn1 eq_refl Hc)
      as (h1 & Hh1 & Hp1 & Hc1 & Ho1).
    rewrite Hh1.
    assert (Hn2 : node_at root par = Some (DElem n0 a0 ((pre ++ fst (dom_seq vs (h_pos h))) ++ sep :: post))).
    { now rewrite <- app_assoc. }
    rewrite (next_placeholder_ok _ _ _ _ _ _ _ _ Hn2 Hc1 eq_refl). rewrite app_length.
    eexists. split; [reflexivity|]. cbn [h_pos h_cur h_ops]. split; [reflexivity|]. split.
    + apply cursor_ok_after'; [now left| |rewrite app_length; cbn [length app]; lia].
      destruct (fst (dom_seq vs (h_pos h))); discriminate.
    + rewrite resets_keyed. exact Ho1.
  - (* inert *)
    cbn [wf] in Hwf. destruct e as [s|s|n a ks]; try discriminate.
    cbn [dom_of fst snd app] in *. cbn [hydrate st_of].
    rewrite (goto_element_ok _ _ _ _ _ _ _ _ Hn Hc eq_refl).
    eexists. split; [reflexivity|]. cbn [h_pos h_cur h_ops]. split; [reflexivity|]. split; [|reflexivity].
    apply cursor_ok_after'; [now left|discriminate|cbn [length app]; lia].
  - (* raw-text element: outside wf *)
    discriminate.
  - (* Suspend (future resolved) *)
    destruct (IH par n0 a0 pre post in_p (h_pos h) h Hwf Hn eq_refl Hc) as (h1 & Hh1 & Hp1 & Hc1 & Ho1).
    cbn [hydrate st_of dom_of]. rewrite Hh1. exists h1. auto.
Qed.

(** ** hydrate_total *)
Theorem hydrate_total v :
  wf false v = true ->
  exists st h, parse (render v) = Some (fst (dom_of v FirstChild)) /\
               hydrate_from (root_of (fst (dom_of v FirstChild))) v = Some (st, h).
Proof.
  intro Hwf. set (f := fst (dom_of v FirstChild)).
  destruct (hyd_all (root_of f) v [] s_div [] [] [] false FirstChild
              {| h_cur := []; h_pos := FirstChild; h_ops := [] |} Hwf) as (h' & Hh & _).
  - unfold node_at, root_of. cbn. now rewrite app_nil_r.
  - reflexivity.
  - split; reflexivity.
  - exists (st_of v FirstChild [] 0), h'. split; [now apply print_parse_roundtrip|exact Hh].
Qed.

Theorem hydrate_parsed_total v :
  wf false v = true -> exists root st h, hydrate_parsed v = Some (root, st, h).
Proof.
  intro Hwf. destruct (hydrate_total v Hwf) as (st & h & Hp & Hh).
  exists (root_of (fst (dom_of v FirstChild))), st, h. unfold hydrate_parsed. now rewrite Hp, Hh.
Qed.

(** the result of [hydrate_parsed] spelled out *)
Lemma hydrate_parsed_spec v root st h :
  wf false v = true -> hydrate_parsed v = Some (root, st, h) ->
  root = root_of (fst (dom_of v FirstChild)) /\ st = st_of v FirstChild [] 0 /\
  h_ops h = rev (resets st) /\ h_pos h = snd (dom_of v FirstChild).
Proof.
  intros Hwf H. unfold hydrate_parsed in H. rewrite (print_parse_roundtrip v Hwf) in H.
  set (f := fst (dom_of v FirstChild)) in *.
  destruct (hyd_all (root_of f) v [] s_div [] [] [] false FirstChild
              {| h_cur := []; h_pos := FirstChild; h_ops := [] |} Hwf) as (h' & Hh & Hp & _ & Ho).
  - unfold node_at, root_of. cbn. now rewrite app_nil_r.
  - reflexivity.
  - split; reflexivity.
  - unfold hydrate_from in H. cbn [length] in Hh, Ho. rewrite Hh in H. injection H as <- <- <-.
    cbn [h_ops] in Ho. rewrite app_nil_r in Ho. auto.
Qed.

(** ** hydrate_creates_nothing *)
(** the tree with every text emptied: node set, kinds, names, attributes, order *)
Fixpoint skeleton (d : dom) : dom :=
  match d with
  | DText _ => DText []
  | DComment s => DComment s
  | DElem n a ks => DElem n a (map skeleton ks)
  end.

Lemma skeleton_set_text p : forall d s, skeleton (set_text_at d p s) = skeleton d.
Proof.
  induction p as [|i p IH]; intros d s.
  - destruct d; reflexivity.
  - destruct d as [t|t|n a ks]; try reflexivity.
    cbn [set_text_at skeleton]. f_equal.
    revert i. induction ks as [|k ks IHks]; intro i; [reflexivity|].
    destruct i as [|i]; cbn [map].
    + now rewrite IH.
    + now rewrite IHks.
Qed.

Lemma skeleton_apply_ops ops d : skeleton (apply_ops d ops) = skeleton d.
Proof.
  unfold apply_ops. generalize (rev ops) as l. intro l. revert d.
  induction l as [|o l IH]; intro d; [reflexivity|].
  cbn [fold_left]. rewrite IH. destruct o as [n s]. apply skeleton_set_text.
Qed.

Theorem hydrate_creates_nothing v root st h :
  wf false v = true -> hydrate_parsed v = Some (root, st, h) ->
  h_ops h = rev (resets st) /\ skeleton (apply_ops root (h_ops h)) = skeleton root.
Proof.
  intros Hwf H. destruct (hydrate_parsed_spec v root st h Hwf H) as (_ & _ & Ho & _).
  split; [exact Ho|apply skeleton_apply_ops].
Qed.

(** hypotheses are satisfiable by a non-trivial view:
    <p id="x&quot;"> "a" "" () <span></span> <br> vec!["q","r"] Some("") </p> "tail" *)
Definition ex_view : view :=
  VTuple [VElem s_p [([105; 100], [120; 34])]
            [VText [97]; VText []; VUnit; VElem s_span [] []; VVoid s_br []; VVec [VText [113]; VText [114]];
             VSome (VText [])];
          VText [116; 97; 105; 108]].
Example ex_view_wf : wf false ex_view = true.
Proof. reflexivity. Qed.
Example ex_view_hydrates :
  match hydrate_parsed ex_view with
  | Some (_, st, h) => (length (bound st), length (h_ops h)) = (11%nat, 2%nat)
  | None => False
  end.
Proof. vm_compute. reflexivity. Qed.

(** ** hydrate_binds_in_order (positional form) *)
(** the state hydration returns is exactly [st_of]: every part of the view is bound to the node at
    the position where the printer put it (child indices counted over the expected DOM, separators
    skipped), elements before their children, list items before their marker *)
Theorem hydrate_binds_positionally v root st h :
  wf false v = true -> hydrate_parsed v = Some (root, st, h) ->
  root = root_of (fst (dom_of v FirstChild)) /\ st = st_of v FirstChild [] 0.
Proof.
  intros Hwf H. destruct (hydrate_parsed_spec v root st h Hwf H) as (A & B & _). auto.
Qed.

(** ** hydrated_behaves_as_built (structural form) *)
(** the parsed DOM with every bound text node holding its view string: the DOM once the resets
    listed by [hydrate_creates_nothing] are applied *)
Fixpoint dom_hyd (v : view) (pos : Position) {struct v} : list dom * Position :=
  let seq := fix seq (l : list view) (pos : Position) {struct l} : list dom * Position :=
    match l with
    | [] => ([], pos)
    | v :: l => let '(b1, p1) := dom_hyd v pos in
                let '(b2, p2) := seq l p1 in (b1 ++ b2, p2)
    end in
  match v with
  | VText s =>
      ((if pos_eqb pos NextChildAfterText then [sep] else []) ++ [DText s], NextChildAfterText)
  | VUnit | VNone => ([sep], NextChild)
  | VElem n a ks =>
      ([DElem n a (match ks with [] => [] | _ => fst (seq ks FirstChild) end)], NextChild)
  | VVoid n a => ([DElem n a []], NextChild)
  | VTuple vs => seq vs pos
  | VSome v | VLeft v | VRight v | VAny v | VSuspend v => dom_hyd v pos
  | VVec vs | VKeyed vs => let '(b, _) := seq vs pos in (b ++ [sep], NextChild)
  | VInert e => ([e], NextChild)
  | VRaw n a parts =>
      ([DElem n a (match raw_content parts with [] => [] | c => [DText c] end)], NextChild)
  end.
Fixpoint hyd_seq (l : list view) (pos : Position) : list dom * Position :=
  match l with
  | [] => ([], pos)
  | v :: l => let '(b1, p1) := dom_hyd v pos in
              let '(b2, p2) := hyd_seq l p1 in (b1 ++ b2, p2)
  end.

Lemma dom_hyd_tuple vs pos : dom_hyd (VTuple vs) pos = hyd_seq vs pos.
Proof. reflexivity. Qed.
Lemma dom_hyd_elem n a ks pos :
  dom_hyd (VElem n a ks) pos = ([DElem n a (fst (hyd_seq ks FirstChild))], NextChild).
Proof. destruct ks; reflexivity. Qed.
Lemma dom_hyd_vec vs pos : dom_hyd (VVec vs) pos = (fst (hyd_seq vs pos) ++ [sep], NextChild).
Proof.
  change (dom_hyd (VVec vs) pos) with (let '(b, _) := hyd_seq vs pos in (b ++ [sep], NextChild)).
  now destruct (hyd_seq vs pos).
Qed.
Lemma dom_hyd_keyed vs pos : dom_hyd (VKeyed vs) pos = (fst (hyd_seq vs pos) ++ [sep], NextChild).
Proof.
  change (dom_hyd (VKeyed vs) pos) with (let '(b, _) := hyd_seq vs pos in (b ++ [sep], NextChild)).
  now destruct (hyd_seq vs pos).
Qed.

Lemma strip_elem n a ks : strip (DElem n a ks) = [DElem n a (strip_forest ks)].
Proof. reflexivity. Qed.
Lemma strip_forest_app a b : strip_forest (a ++ b) = strip_forest a ++ strip_forest b.
Proof. induction a as [|x a IH]; [reflexivity|]. cbn [app strip_forest]. now rewrite IH, app_assoc. Qed.
Lemma dom_csr_elem n a ks : dom_csr (VElem n a ks) = [DElem n a (csr_seq ks)].
Proof. reflexivity. Qed.
Lemma dom_csr_tuple vs : dom_csr (VTuple vs) = csr_seq vs.
Proof. reflexivity. Qed.
Lemma dom_csr_vec vs : dom_csr (VVec vs) = csr_seq vs ++ [sep].
Proof. reflexivity. Qed.
Lemma dom_csr_keyed vs : dom_csr (VKeyed vs) = csr_seq vs ++ [sep].
Proof. reflexivity. Qed.

(** marker comments aside, the hydrated DOM is the client-built DOM — for every view of the proved
    grammar and every starting position (raw-text elements are excluded by [wf]: finding F-C05-c) *)
Theorem hydrated_as_built v : forall in_p pos, wf in_p v = true ->
  strip_forest (fst (dom_hyd v pos)) = strip_forest (dom_csr v).
Proof.
  assert (Hseq : forall vs, Forall (fun v => forall in_p pos, wf in_p v = true ->
                   strip_forest (fst (dom_hyd v pos)) = strip_forest (dom_csr v)) vs ->
                 forall in_p pos, wf_seq in_p vs = true ->
                   strip_forest (fst (hyd_seq vs pos)) = strip_forest (csr_seq vs)).
  { intros vs IH. induction IH as [|x vs Hx _ IHvs]; intros in_p pos Hwf; [reflexivity|].
    cbn [wf_seq] in Hwf. apply andb_true_iff in Hwf as [H1 H2].
    cbn [hyd_seq csr_seq]. specialize (Hx in_p pos H1). destruct (dom_hyd x pos) as [b1 p1].
    specialize (IHvs in_p p1 H2). destruct (hyd_seq vs p1) as [b2 p2]. cbn [fst] in *.
    now rewrite !strip_forest_app, Hx, IHvs. }
  induction v as [s| |n a ks IH|n a|vs IH|v IH| |v IH|v IH|vs IH|v IH|vs IH|e|rn ra rps|v IH] using view_ind';
    intros in_p pos Hwf.
  - cbn [dom_hyd dom_csr fst]. destruct (pos_eqb pos NextChildAfterText); reflexivity.
  - reflexivity.
  - rewrite dom_hyd_elem, dom_csr_elem. cbn [fst strip_forest]. rewrite !strip_elem.
    rewrite wf_elem in Hwf. apply andb_true_iff in Hwf as [_ Hks].
    now rewrite (Hseq ks IH _ FirstChild Hks).
  - reflexivity.
  - rewrite dom_hyd_tuple, dom_csr_tuple. rewrite wf_tuple in Hwf. apply andb_true_iff in Hwf as [_ Hks].
    apply (Hseq vs IH in_p pos Hks).
  - apply (IH in_p pos Hwf).
  - reflexivity.
  - apply (IH in_p pos Hwf).
  - apply (IH in_p pos Hwf).
  - rewrite dom_hyd_vec, dom_csr_vec. cbn [fst]. rewrite wf_vec in Hwf.
    now rewrite !strip_forest_app, (Hseq vs IH in_p pos Hwf).
  - apply (IH in_p pos Hwf).
  - rewrite dom_hyd_keyed, dom_csr_keyed. cbn [fst]. rewrite wf_keyed in Hwf.
    now rewrite !strip_forest_app, (Hseq vs IH in_p pos Hwf).
  - reflexivity.
  - discriminate.
  - apply (IH in_p pos Hwf).
Qed.

(** a raw-text element shows why: its hydrated content is one merged text node (or none), the
    client-built one has a node per child *)
Example hydrated_as_built_refuted_for_raw :
  exists v, strip_forest (fst (dom_hyd v FirstChild)) <> strip_forest (dom_csr v).
Proof. exists (VRaw s_textarea [] [Some [97%N]; Some [98%N]]). vm_compute. discriminate. Qed.

(** [dom_hyd] is the parsed DOM except for the content of placeholder text nodes *)
Fixpoint skeleton_forest (l : list dom) : list dom :=
  match l with [] => [] | k :: l => skeleton k :: skeleton_forest l end.
Lemma skeleton_forest_app a b : skeleton_forest (a ++ b) = skeleton_forest a ++ skeleton_forest b.
Proof. induction a as [|x a IH]; [reflexivity|]. cbn [app skeleton_forest]. now rewrite IH. Qed.
Lemma skeleton_elem n a ks : skeleton (DElem n a ks) = DElem n a (skeleton_forest ks).
Proof.
  reflexivity.
Qed.

Theorem dom_hyd_same_nodes v : forall pos,
  skeleton_forest (fst (dom_hyd v pos)) = skeleton_forest (fst (dom_of v pos)) /\
  snd (dom_hyd v pos) = snd (dom_of v pos).
Proof.
  assert (Hseq : forall vs, Forall (fun v => forall pos,
                   skeleton_forest (fst (dom_hyd v pos)) = skeleton_forest (fst (dom_of v pos)) /\
                   snd (dom_hyd v pos) = snd (dom_of v pos)) vs ->
                 forall pos, skeleton_forest (fst (hyd_seq vs pos)) = skeleton_forest (fst (dom_seq vs pos)) /\
                             snd (hyd_seq vs pos) = snd (dom_seq vs pos)).
  { intros vs IH. induction IH as [|x vs Hx _ IHvs]; intro pos; [split; reflexivity|].
    cbn [hyd_seq dom_seq]. destruct (Hx pos) as [A B].
    destruct (dom_hyd x pos) as [b1 p1]. destruct (dom_of x pos) as [c1 q1]. cbn [fst snd] in *. subst q1.
    destruct (IHvs p1) as [A2 B2].
    destruct (hyd_seq vs p1) as [b2 p2]. destruct (dom_seq vs p1) as [c2 q2]. cbn [fst snd] in *.
    now rewrite !skeleton_forest_app, A, A2. }
  induction v as [s| |n a ks IH|n a|vs IH|v IH| |v IH|v IH|vs IH|v IH|vs IH|e|rn ra rps|v IH] using view_ind'; intro pos.
  - cbn [dom_hyd dom_of fst snd]. destruct (pos_eqb pos NextChildAfterText); split; reflexivity.
  - split; reflexivity.
  - rewrite dom_hyd_elem, dom_of_elem. cbn [fst snd skeleton_forest]. rewrite !skeleton_elem.
    destruct (Hseq ks IH FirstChild) as [A _]. now rewrite A.
  - split; reflexivity.
  - rewrite dom_hyd_tuple, dom_of_tuple. apply (Hseq vs IH).
  - apply IH.
  - split; reflexivity.
  - apply IH.
  - apply IH.
  - rewrite dom_hyd_vec, dom_of_vec. cbn [fst snd]. destruct (Hseq vs IH pos) as [A _].
    now rewrite !skeleton_forest_app, A.
  - apply IH.
  - rewrite dom_hyd_keyed, dom_of_keyed. cbn [fst snd]. destruct (Hseq vs IH pos) as [A _].
    now rewrite !skeleton_forest_app, A.
  - split; reflexivity.
  - split; reflexivity.
  - apply IH.
Qed.

(** ** the bound nodes are listed in document order *)
Fixpoint lex_lt (a b : list nat) : Prop :=
  match a, b with
  | [], _ :: _ => True
  | x :: a', y :: b' => (x < y)%nat \/ (x = y /\ lex_lt a' b')
  | _, [] => False
  end.
(** document (pre-)order on node paths; paths are innermost-index-first *)
Definition doc_lt (p q : path) : Prop := lex_lt (rev p) (rev q).

(** [p] lies in the subtree of child number [j] of [par], for some [lo <= j < hi] *)
Definition under (par : path) (lo hi : nat) (p : path) : Prop :=
  exists q j, p = q ++ j :: par /\ (lo <= j < hi)%nat.

Lemma lex_lt_prefix c a b : lex_lt a b -> lex_lt (c ++ a) (c ++ b).
Proof. induction c as [|x c IH]; intro H; [exact H|]. cbn. right. auto. Qed.

Lemma doc_lt_under par lo1 hi1 lo2 hi2 p q :
  under par lo1 hi1 p -> under par lo2 hi2 q -> (hi1 <= lo2)%nat -> doc_lt p q.
Proof.
  intros (q1 & j1 & -> & H1) (q2 & j2 & -> & H2) Hle. unfold doc_lt.
  rewrite !rev_app_distr. cbn [rev]. rewrite <- !app_assoc. apply lex_lt_prefix. cbn. left. lia.
Qed.

Lemma doc_lt_child par idx lo hi p : under (idx :: par) lo hi p -> doc_lt (idx :: par) p.
Proof.
  intros (q & j & -> & _). unfold doc_lt. rewrite rev_app_distr. cbn [rev].
  rewrite <- !app_assoc. apply lex_lt_prefix. cbn. right. split; [reflexivity|]. exact I.
Qed.

Lemma under_weaken par lo hi lo' hi' p :
  under par lo hi p -> (lo' <= lo)%nat -> (hi <= hi')%nat -> under par lo' hi' p.
Proof. intros (q & j & E & H) A B. exists q, j. split; [exact E|lia]. Qed.

Lemma under_deeper par idx lo hi p lo' hi' :
  under (idx :: par) lo hi p -> (lo' <= idx < hi')%nat -> under par lo' hi' p.
Proof.
  intros (q & j & -> & _) H. exists (q ++ [j]), idx. split; [now rewrite <- app_assoc|exact H].
Qed.

Lemma under_self par idx lo hi : (lo <= idx < hi)%nat -> under par lo hi (idx :: par).
Proof. intro H. exists [], idx. auto. Qed.

Lemma sorted_app {A} (R : A -> A -> Prop) l1 l2 :
  StronglySorted R l1 -> StronglySorted R l2 ->
  (forall a b, In a l1 -> In b l2 -> R a b) -> StronglySorted R (l1 ++ l2).
Proof.
  intros H1 H2 H. induction H1 as [|a l1 Hs IH Hf]; [exact H2|].
  cbn [app]. constructor.
  - apply IH. intros x y Hx Hy. apply H; [now right|exact Hy].
  - apply Forall_app. split; [exact Hf|]. apply Forall_forall. intros y Hy. apply H; [now left|exact Hy].
Qed.

Lemma bound_elem_some n a l : bound (SElem n a (Some l)) = n :: bound_seq l.
Proof. reflexivity. Qed.
Lemma bound_sseq l : bound (SSeq l) = bound_seq l.
Proof. reflexivity. Qed.
Lemma bound_svec l m : bound (SVec l m) = bound_seq l ++ [m].
Proof. reflexivity. Qed.
Lemma bound_skeyed p l m : bound (SKeyed p l m) = bound_seq l ++ [m].
Proof. reflexivity. Qed.

Definition order_spec (v : view) : Prop :=
  forall pos par idx,
    let l := bound (st_of v pos par idx) in
    let n := length (fst (dom_of v pos)) in
    Forall (under par idx (idx + n)) l /\ StronglySorted doc_lt l.

Lemma order_seq vs : Forall order_spec vs ->
  forall pos par idx,
    let l := bound_seq (st_seq vs pos par idx) in
    let n := length (fst (dom_seq vs pos)) in
    Forall (under par idx (idx + n)) l /\ StronglySorted doc_lt l.
Proof.
  intro IH. induction IH as [|v vs Hv _ IHvs]; intros pos par idx; cbv zeta.
  - cbn. split; constructor.
  - cbn [st_seq bound_seq dom_seq].
    destruct (Hv pos par idx) as [A1 B1]. cbv zeta in A1, B1.
    destruct (dom_of v pos) as [x1 p1] eqn:E1. cbn [fst snd] in *.
    destruct (IHvs p1 par (idx + length x1)%nat) as [A2 B2]. cbv zeta in A2, B2.
    destruct (dom_seq vs p1) as [x2 p2] eqn:E2. cbn [fst snd] in *. rewrite app_length.
    split.
    + apply Forall_app. split.
      * eapply Forall_impl; [|exact A1]. intros p Hp. eapply under_weaken; [exact Hp|lia|lia].
      * eapply Forall_impl; [|exact A2]. intros p Hp. eapply under_weaken; [exact Hp|lia|lia].
    + apply sorted_app; [exact B1|exact B2|].
      intros a b Ha Hb. rewrite Forall_forall in A1, A2.
      eapply doc_lt_under; [apply (A1 a Ha)|apply (A2 b Hb)|lia].
Qed.

Lemma dom_of_nonempty_text s pos : (1 <= length (fst (dom_of (VText s) pos)))%nat.
Proof. cbn. destruct (pos_eqb pos NextChildAfterText); cbn; lia. Qed.

Lemma order_all v : order_spec v.
Proof.
  induction v as [s| |n a ks IH|n a|vs IH|v IH| |v IH|v IH|vs IH|v IH|vs IH|e|rn ra rps|v IH] using view_ind';
    intros pos par idx; cbv zeta.
  - cbn [st_of bound dom_of fst]. split.
    + constructor; [|constructor]. destruct (pos_eqb pos NextChildAfterText); cbn [app length].
      * replace (S idx) with (idx + 1)%nat by lia. apply under_self. lia.
      * apply under_self. lia.
    + constructor; constructor.
  - cbn. split; [constructor; [apply under_self; lia|constructor]|constructor; constructor].
  - rewrite st_of_elem, dom_of_elem. cbn [fst length].
    destruct ks as [|k ks].
    + cbn. split; [constructor; [apply under_self; lia|constructor]|constructor; constructor].
    + rewrite bound_elem_some.
      destruct (order_seq (k :: ks) IH FirstChild (idx :: par) 0%nat) as [A B]. cbv zeta in A, B.
      split.
      * constructor; [apply under_self; lia|].
        eapply Forall_impl; [|exact A]. intros p Hp. eapply under_deeper; [exact Hp|lia].
      * constructor; [exact B|]. eapply Forall_impl; [|exact A]. intros p Hp. eapply doc_lt_child. exact Hp.
  - cbn. split; [constructor; [apply under_self; lia|constructor]|constructor; constructor].
  - rewrite st_of_tuple, dom_of_tuple, bound_sseq. apply (order_seq vs IH).
  - apply IH.
  - cbn. split; [constructor; [apply under_self; lia|constructor]|constructor; constructor].
  - apply IH.
  - apply IH.
  - rewrite st_of_vec, dom_of_vec, bound_svec. cbn [fst]. rewrite app_length. cbn [length].
    destruct (order_seq vs IH pos par idx) as [A B]. cbv zeta in A, B. split.
    + apply Forall_app. split.
      * eapply Forall_impl; [|exact A]. intros p Hp. eapply under_weaken; [exact Hp|lia|lia].
      * constructor; [apply under_self; lia|constructor].
    + apply sorted_app; [exact B|constructor; constructor|].
      intros a b Ha [<-|[]]. rewrite Forall_forall in A.
      eapply doc_lt_under; [apply (A a Ha)|apply (under_self par (idx + length (fst (dom_seq vs pos))) (idx + length (fst (dom_seq vs pos))) (S (idx + length (fst (dom_seq vs pos))))); lia|lia].
  - apply IH.
  - rewrite st_of_keyed, dom_of_keyed, bound_skeyed. cbn [fst]. rewrite app_length. cbn [length].
    destruct (order_seq vs IH pos par idx) as [A B]. cbv zeta in A, B. split.
    + apply Forall_app. split.
      * eapply Forall_impl; [|exact A]. intros p Hp. eapply under_weaken; [exact Hp|lia|lia].
      * constructor; [apply under_self; lia|constructor].
    + apply sorted_app; [exact B|constructor; constructor|].
      intros a b Ha [<-|[]]. rewrite Forall_forall in A.
      eapply doc_lt_under; [apply (A a Ha)|apply (under_self par (idx + length (fst (dom_seq vs pos))) (idx + length (fst (dom_seq vs pos))) (S (idx + length (fst (dom_seq vs pos))))); lia|lia].
  - cbn. split; [constructor; [apply under_self; lia|constructor]|constructor; constructor].
  - cbn. split; [constructor; [apply under_self; lia|constructor]|constructor; constructor].
  - apply IH.
Qed.

(** the nodes hydration binds are pairwise distinct nodes below the root, listed in document order *)
Theorem hydrate_binds_in_order v root st h :
  wf false v = true -> hydrate_parsed v = Some (root, st, h) ->
  st = st_of v FirstChild [] 0 /\
  StronglySorted doc_lt (bound st) /\
  Forall (under [] 0 (length (fst (dom_of v FirstChild)))) (bound st).
Proof.
  intros Hwf H. destruct (hydrate_binds_positionally v root st h Hwf H) as [_ ->].
  destruct (order_all v FirstChild [] 0%nat) as [A B]. cbv zeta in A, B. auto.
Qed.
