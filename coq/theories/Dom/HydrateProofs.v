(** C05 — proofs about Dom/HydrateModel.v. *)
From Coq Require Import List NArith Bool Lia Arith.
From LV Require Import Base.Bytes Dom.HydrateModel.
Import ListNotations.
Open Scope N_scope.

(** * Induction principles for the nested types *)
Section view_ind'.
  Variable P : view -> Prop.
  Hypothesis Htext : forall s, P (VText s).
  Hypothesis Hunit : P VUnit.
  Hypothesis Helem : forall n a ks, Forall P ks -> P (VElem n a ks).
  Hypothesis Hvoid : forall n a, P (VVoid n a).
  Hypothesis Htuple : forall vs, Forall P vs -> P (VTuple vs).
  Hypothesis Hsome : forall v, P v -> P (VSome v).
  Hypothesis Hnone : P VNone.
  Hypothesis Hleft : forall v, P v -> P (VLeft v).
  Hypothesis Hright : forall v, P v -> P (VRight v).
  Hypothesis Hvec : forall vs, Forall P vs -> P (VVec vs).
  Hypothesis Hany : forall v, P v -> P (VAny v).
  Hypothesis Hkeyed : forall vs, Forall P vs -> P (VKeyed vs).
  Hypothesis Hinert : forall e, P (VInert e).
  Fixpoint view_ind' (v : view) : P v :=
    let all := fix all (l : list view) : Forall P l :=
      match l with [] => Forall_nil P | x :: r => Forall_cons x (view_ind' x) (all r) end in
    match v with
    | VText s => Htext s
    | VUnit => Hunit
    | VElem n a ks => Helem n a ks (all ks)
    | VVoid n a => Hvoid n a
    | VTuple vs => Htuple vs (all vs)
    | VSome v => Hsome v (view_ind' v)
    | VNone => Hnone
    | VLeft v => Hleft v (view_ind' v)
    | VRight v => Hright v (view_ind' v)
    | VVec vs => Hvec vs (all vs)
    | VAny v => Hany v (view_ind' v)
    | VKeyed vs => Hkeyed vs (all vs)
    | VInert e => Hinert e
    end.
End view_ind'.

Section dom_ind'.
  Variable P : dom -> Prop.
  Hypothesis Htext : forall s, P (DText s).
  Hypothesis Hcomment : forall s, P (DComment s).
  Hypothesis Helem : forall n a ks, Forall P ks -> P (DElem n a ks).
  Fixpoint dom_ind' (d : dom) : P d :=
    match d with
    | DText s => Htext s
    | DComment s => Hcomment s
    | DElem n a ks =>
        Helem n a ks ((fix all (l : list dom) : Forall P l :=
                         match l with [] => Forall_nil P | x :: r => Forall_cons x (dom_ind' x) (all r) end) ks)
    end.
End dom_ind'.

(** * Basic facts *)
Lemma bytes_eqb_refl a : bytes_eqb a a = true.
Proof. induction a as [|x a IH]; cbn [bytes_eqb]; [reflexivity|]. now rewrite N.eqb_refl, IH. Qed.

Lemma bytes_eqb_eq a b : bytes_eqb a b = true <-> a = b.
Proof.
  split.
  - revert b. induction a as [|x a IH]; intros [|y b] H; cbn [bytes_eqb] in H; try discriminate; [reflexivity|].
    apply andb_true_iff in H as [H1 H2]. apply N.eqb_eq in H1. apply IH in H2. now subst.
  - intros ->. apply bytes_eqb_refl.
Qed.

Lemma bytes_eqb_sym a b : bytes_eqb a b = bytes_eqb b a.
Proof.
  destruct (bytes_eqb a b) eqn:E.
  - apply bytes_eqb_eq in E. subst. now rewrite bytes_eqb_refl.
  - destruct (bytes_eqb b a) eqn:E2; [|reflexivity]. apply bytes_eqb_eq in E2. subst.
    now rewrite bytes_eqb_refl in E.
Qed.

(** the local list recursions coincide with the top-level ones *)
Lemma to_html_tuple vs pos : to_html (VTuple vs) pos = html_seq vs pos.
Proof.
  revert pos. induction vs as [|v vs IH]; intro pos; [reflexivity|].
  change (to_html (VTuple (v :: vs)) pos)
    with (let '(b1, p1) := to_html v pos in
          let '(b2, p2) := to_html (VTuple vs) p1 in (b1 ++ b2, p2)).
  cbn [html_seq]. destruct (to_html v pos) as [b1 p1]. now rewrite IH.
Qed.

Lemma dom_of_tuple vs pos : dom_of (VTuple vs) pos = dom_seq vs pos.
Proof.
  revert pos. induction vs as [|v vs IH]; intro pos; [reflexivity|].
  change (dom_of (VTuple (v :: vs)) pos)
    with (let '(b1, p1) := dom_of v pos in
          let '(b2, p2) := dom_of (VTuple vs) p1 in (b1 ++ b2, p2)).
  cbn [dom_seq]. destruct (dom_of v pos) as [b1 p1]. now rewrite IH.
Qed.

Lemma to_html_elem n a ks pos :
  to_html (VElem n a ks) pos = (open_tag n a ++ fst (html_seq ks FirstChild) ++ close_tag n, NextChild).
Proof.
  rewrite <- to_html_tuple. destruct ks; reflexivity.
Qed.

Lemma dom_of_elem n a ks pos :
  dom_of (VElem n a ks) pos = ([DElem n a (fst (dom_seq ks FirstChild))], NextChild).
Proof.
  rewrite <- dom_of_tuple. destruct ks; reflexivity.
Qed.

Lemma to_html_vec vs pos : to_html (VVec vs) pos = (fst (html_seq vs pos) ++ marker, NextChild).
Proof.
  rewrite <- to_html_tuple.
  change (to_html (VVec vs) pos) with (let '(b, _) := to_html (VTuple vs) pos in (b ++ marker, NextChild)).
  now destruct (to_html (VTuple vs) pos).
Qed.

Lemma dom_of_vec vs pos : dom_of (VVec vs) pos = (fst (dom_seq vs pos) ++ [sep], NextChild).
Proof.
  rewrite <- dom_of_tuple.
  change (dom_of (VVec vs) pos) with (let '(b, _) := dom_of (VTuple vs) pos in (b ++ [sep], NextChild)).
  now destruct (dom_of (VTuple vs) pos).
Qed.

Lemma to_html_keyed vs pos : to_html (VKeyed vs) pos = (fst (html_seq vs pos) ++ marker, NextChild).
Proof.
  rewrite <- to_html_tuple.
  change (to_html (VKeyed vs) pos) with (let '(b, _) := to_html (VTuple vs) pos in (b ++ marker, NextChild)).
  now destruct (to_html (VTuple vs) pos).
Qed.

Lemma dom_of_keyed vs pos : dom_of (VKeyed vs) pos = (fst (dom_seq vs pos) ++ [sep], NextChild).
Proof.
  rewrite <- dom_of_tuple.
  change (dom_of (VKeyed vs) pos) with (let '(b, _) := dom_of (VTuple vs) pos in (b ++ [sep], NextChild)).
  now destruct (dom_of (VTuple vs) pos).
Qed.

Lemma wf_elem in_p n a ks :
  wf in_p (VElem n a ks) = elem_ok in_p n false && attrs_ok a && wf_seq (in_p || bytes_eqb n s_p) ks.
Proof. reflexivity. Qed.

Lemma wf_tuple in_p vs :
  wf in_p (VTuple vs) = negb (match vs with [] => true | _ => false end) && wf_seq in_p vs.
Proof. reflexivity. Qed.
Lemma wf_vec in_p vs : wf in_p (VVec vs) = wf_seq in_p vs.
Proof. reflexivity. Qed.
Lemma wf_keyed in_p vs : wf in_p (VKeyed vs) = wf_seq in_p vs.
Proof. reflexivity. Qed.

Lemma ser_elem n a ks :
  ser (DElem n a ks) = open_tag n a ++ (if is_void n then [] else ser_forest ks ++ close_tag n).
Proof. reflexivity. Qed.

Lemma ser_forest_app a b : ser_forest (a ++ b) = ser_forest a ++ ser_forest b.
Proof. induction a as [|x a IH]; [reflexivity|]. cbn [app ser_forest]. now rewrite IH, app_assoc. Qed.

(** kinds: the names of the subset *)
Lemma kind_of_cases n k :
  kind_of n = Some k ->
  (n = s_span /\ k = KOrdinary) \/
  ((n = s_div \/ n = s_section \/ n = s_ul \/ n = s_main) /\ k = KBlock) \/
  (n = s_p /\ k = KPara) \/
  ((n = s_br \/ n = s_img \/ n = s_input) /\ k = KVoid) \/
  (n = s_hr /\ k = KVoidBlock).
Proof.
  unfold kind_of, mem. cbn [existsb].
  destruct (bytes_eqb n s_span) eqn:E1; [apply bytes_eqb_eq in E1; intros [= <-]; auto|].
  destruct (bytes_eqb n s_div) eqn:E2; [apply bytes_eqb_eq in E2; intros [= <-]; auto 10|].
  destruct (bytes_eqb n s_section) eqn:E3; [apply bytes_eqb_eq in E3; intros [= <-]; auto 10|].
  destruct (bytes_eqb n s_ul) eqn:E4; [apply bytes_eqb_eq in E4; intros [= <-]; auto 10|].
  destruct (bytes_eqb n s_main) eqn:E5; [apply bytes_eqb_eq in E5; intros [= <-]; auto 10|].
  cbn [orb].
  destruct (bytes_eqb n s_p) eqn:E6; [apply bytes_eqb_eq in E6; intros [= <-]; auto 10|].
  destruct (bytes_eqb n s_br) eqn:E7; [apply bytes_eqb_eq in E7; intros [= <-]; auto 10|].
  destruct (bytes_eqb n s_img) eqn:E8; [apply bytes_eqb_eq in E8; intros [= <-]; auto 10|].
  destruct (bytes_eqb n s_input) eqn:E9; [apply bytes_eqb_eq in E9; intros [= <-]; auto 15|].
  cbn [orb].
  destruct (bytes_eqb n s_hr) eqn:E10; [apply bytes_eqb_eq in E10; intros [= <-]; auto 15|].
  discriminate.
Qed.

Lemma kind_void_is_void n k : kind_of n = Some k -> is_void n = kind_void k.
Proof.
  intro H. apply kind_of_cases in H.
  destruct H as [[-> ->]|[[[->|[->|[->| ->]]] ->]|[[-> ->]|[[[->|[->| ->]] ->]|[-> ->]]]]]; reflexivity.
Qed.

(** * The printer writes the serialisation of [dom_of] *)
Lemma to_html_dom_seq_step (P : view -> Prop) :
  True.
Proof. exact I. Qed.

Lemma to_html_dom v : forall in_p pos, wf in_p v = true ->
  to_html v pos = (ser_forest (fst (dom_of v pos)), snd (dom_of v pos)).
Proof.
  induction v as [s| |n a ks IH|n a|vs IH|v IH| |v IH|v IH|vs IH|v IH|vs IH|e] using view_ind';
    intros in_p pos Hwf.
  - cbn. destruct (pos_eqb pos NextChildAfterText); destruct s; cbn; now rewrite ?app_nil_r.
  - reflexivity.
  - rewrite to_html_elem, dom_of_elem. cbn [fst snd ser_forest]. rewrite app_nil_r, ser_elem.
    rewrite wf_elem in Hwf. apply andb_true_iff in Hwf as [Hwf Hks]. apply andb_true_iff in Hwf as [He Ha].
    unfold elem_ok in He. destruct (kind_of n) as [k|] eqn:Ek; [|discriminate].
    apply andb_true_iff in He as [Hv _]. apply eqb_prop in Hv.
    rewrite (kind_void_is_void _ _ Ek), Hv. do 3 f_equal.
    (* children *)
    clear Ek Hv Ha. revert Hks. generalize (in_p || bytes_eqb n s_p) as b. generalize FirstChild as p.
    induction IH as [|x ks Hk _ IHks]; intros p b Hks; [reflexivity|].
    cbn [wf_seq] in Hks. apply andb_true_iff in Hks as [H1 H2].
    cbn [html_seq dom_seq]. rewrite (Hk b p H1). destruct (dom_of x p) as [d1 p1]. cbn [fst snd].
    specialize (IHks p1 b H2).
    destruct (html_seq ks p1) as [b2 p2]. destruct (dom_seq ks p1) as [d2 p2']. cbn [fst snd] in *.
    now rewrite ser_forest_app, IHks.
  - cbn [to_html dom_of fst snd ser_forest]. rewrite app_nil_r, ser_elem.
    cbn [wf] in Hwf. apply andb_true_iff in Hwf as [He Ha].
    unfold elem_ok in He. destruct (kind_of n) as [k|] eqn:Ek; [|discriminate].
    apply andb_true_iff in He as [Hv _]. apply eqb_prop in Hv.
    rewrite (kind_void_is_void _ _ Ek), Hv. now rewrite app_nil_r.
  - rewrite to_html_tuple, dom_of_tuple. rewrite wf_tuple in Hwf. apply andb_true_iff in Hwf as [_ Hks].
    revert pos Hks. induction IH as [|k ks Hk _ IHks]; intros p Hks; [reflexivity|].
    cbn [wf_seq] in Hks. apply andb_true_iff in Hks as [H1 H2].
    cbn [html_seq dom_seq]. rewrite (Hk in_p p H1). destruct (dom_of k p) as [d1 p1]. cbn [fst snd].
    specialize (IHks p1 H2). rewrite IHks.
    destruct (dom_seq ks p1) as [d2 p2']. cbn [fst snd]. now rewrite ser_forest_app.
  - apply (IH in_p pos Hwf).
  - reflexivity.
  - apply (IH in_p pos Hwf).
  - apply (IH in_p pos Hwf).
  - rewrite to_html_vec, dom_of_vec. rewrite wf_vec in Hwf. cbn [fst snd].
    rewrite ser_forest_app. cbn [ser_forest ser sep]. rewrite app_nil_r. do 2 f_equal.
    revert pos Hwf. induction IH as [|k ks Hk _ IHks]; intros p Hks; [reflexivity|].
    cbn [wf_seq] in Hks. apply andb_true_iff in Hks as [H1 H2].
    cbn [html_seq dom_seq]. rewrite (Hk in_p p H1). destruct (dom_of k p) as [d1 p1]. cbn [fst snd].
    specialize (IHks p1 H2).
    destruct (html_seq ks p1) as [b2 p2]. destruct (dom_seq ks p1) as [d2 p2']. cbn [fst snd] in *.
    now rewrite ser_forest_app, IHks.
  - apply (IH in_p pos Hwf).
  - rewrite to_html_keyed, dom_of_keyed. rewrite wf_keyed in Hwf. cbn [fst snd].
    rewrite ser_forest_app. cbn [ser_forest ser sep]. rewrite app_nil_r. do 2 f_equal.
    revert pos Hwf. induction IH as [|k ks Hk _ IHks]; intros p Hks; [reflexivity|].
    cbn [wf_seq] in Hks. apply andb_true_iff in Hks as [H1 H2].
    cbn [html_seq dom_seq]. rewrite (Hk in_p p H1). destruct (dom_of k p) as [d1 p1]. cbn [fst snd].
    specialize (IHks p1 H2).
    destruct (html_seq ks p1) as [b2 p2]. destruct (dom_seq ks p1) as [d2 p2']. cbn [fst snd] in *.
    now rewrite ser_forest_app, IHks.
  - cbn. now rewrite app_nil_r.
Qed.

(** * The expected DOM is one the parser keeps unchanged *)
Fixpoint ends_text (f : list dom) (prev : bool) : bool :=
  match f with [] => prev | d :: f' => ends_text f' (is_text_node d) end.

Lemma ends_text_app x y prev : ends_text (x ++ y) prev = ends_text y (ends_text x prev).
Proof. revert prev. induction x as [|d x IH]; intro prev; [reflexivity|]. cbn [app ends_text]. apply IH. Qed.

Lemma forest_ok_app b x y prev :
  forest_ok b (x ++ y) prev = forest_ok b x prev && forest_ok b y (ends_text x prev).
Proof.
  revert prev. induction x as [|d x IH]; intro prev; [reflexivity|].
  cbn [app forest_ok ends_text]. rewrite IH. now rewrite !andb_assoc.
Qed.

Lemma node_ok_elem in_p n a ks :
  node_ok in_p (DElem n a ks) =
  match kind_of n with
  | None => false
  | Some k => negb (in_p && closes_p k) && attrs_ok a &&
              (if kind_void k then match ks with [] => true | _ => false end
               else forest_ok (in_p || bytes_eqb n s_p) ks false)
  end.
Proof.
  cbn [node_ok]. destruct (kind_of n) as [k|]; [|reflexivity]. f_equal.
  destruct (kind_void k); [reflexivity|].
  generalize false. induction ks as [|d ks IH]; intro pv; [reflexivity|].
  cbn [forest_ok]. now rewrite IH.
Qed.

Lemma dom_of_ok v : forall in_p pos prev,
  wf in_p v = true -> (prev = true -> pos = NextChildAfterText) ->
  forest_ok in_p (fst (dom_of v pos)) prev = true /\
  (ends_text (fst (dom_of v pos)) prev = true -> snd (dom_of v pos) = NextChildAfterText).
Proof.
  assert (Hseq : forall vs, Forall (fun v => forall in_p pos prev,
            wf in_p v = true -> (prev = true -> pos = NextChildAfterText) ->
            forest_ok in_p (fst (dom_of v pos)) prev = true /\
            (ends_text (fst (dom_of v pos)) prev = true -> snd (dom_of v pos) = NextChildAfterText)) vs ->
          forall in_p pos prev, wf_seq in_p vs = true -> (prev = true -> pos = NextChildAfterText) ->
            forest_ok in_p (fst (dom_seq vs pos)) prev = true /\
            (ends_text (fst (dom_seq vs pos)) prev = true -> snd (dom_seq vs pos) = NextChildAfterText)).
  { intros vs IH. induction IH as [|x vs Hx _ IHvs]; intros in_p pos prev Hwf Hprev.
    - cbn. auto.
    - cbn [wf_seq] in Hwf. apply andb_true_iff in Hwf as [H1 H2].
      cbn [dom_seq]. destruct (Hx in_p pos prev H1 Hprev) as [Ha Hb].
      destruct (dom_of x pos) as [d1 p1]. cbn [fst snd] in *.
      destruct (IHvs in_p p1 (ends_text d1 prev) H2 Hb) as [Hc Hd].
      destruct (dom_seq vs p1) as [d2 p2]. cbn [fst snd] in *.
      rewrite forest_ok_app, ends_text_app, Ha, Hc. auto. }
  induction v as [s| |n a ks IH|n a|vs IH|v IH| |v IH|v IH|vs IH|v IH|vs IH|e] using view_ind';
    intros in_p pos prev Hwf Hprev.
  - cbn [wf] in Hwf. cbn [dom_of fst snd].
    destruct (pos_eqb pos NextChildAfterText) eqn:Ep.
    + cbn [app forest_ok ends_text sep is_text_node text_node node_ok andb negb].
      rewrite andb_false_r. cbn [negb andb]. split; [|reflexivity].
      destruct s; cbn; [reflexivity|]. cbn in Hwf. now rewrite Hwf.
    + destruct prev; [specialize (Hprev eq_refl); subst pos; discriminate|].
      cbn [app forest_ok ends_text is_text_node text_node node_ok andb negb]. split; [|reflexivity].
      destruct s; cbn; [reflexivity|]. cbn in Hwf. now rewrite Hwf.
  - cbn. rewrite andb_false_r. split; [reflexivity|discriminate].
  - rewrite dom_of_elem. cbn [fst snd forest_ok ends_text is_text_node]. rewrite andb_false_r.
    split; [|discriminate]. cbn [negb andb]. rewrite andb_true_r, node_ok_elem.
    rewrite wf_elem in Hwf. apply andb_true_iff in Hwf as [Hwf Hks]. apply andb_true_iff in Hwf as [He Ha].
    unfold elem_ok in He. destruct (kind_of n) as [k|] eqn:Ek; [|discriminate].
    apply andb_true_iff in He as [Hv Hp]. apply eqb_prop in Hv. rewrite Hv, Hp, Ha. cbn [andb].
    apply (Hseq ks IH (in_p || bytes_eqb n s_p) FirstChild false Hks). discriminate.
  - cbn [dom_of fst snd forest_ok ends_text is_text_node]. rewrite andb_false_r.
    split; [|discriminate]. cbn [negb andb]. rewrite andb_true_r, node_ok_elem.
    cbn [wf] in Hwf. apply andb_true_iff in Hwf as [He Ha].
    unfold elem_ok in He. destruct (kind_of n) as [k|] eqn:Ek; [|discriminate].
    apply andb_true_iff in He as [Hv Hp]. apply eqb_prop in Hv. now rewrite Hv, Hp, Ha.
  - rewrite dom_of_tuple. rewrite wf_tuple in Hwf. apply andb_true_iff in Hwf as [_ Hks].
    apply (Hseq vs IH in_p pos prev Hks Hprev).
  - apply (IH in_p pos prev Hwf Hprev).
  - cbn. rewrite andb_false_r. split; [reflexivity|discriminate].
  - apply (IH in_p pos prev Hwf Hprev).
  - apply (IH in_p pos prev Hwf Hprev).
  - rewrite dom_of_vec. rewrite wf_vec in Hwf. cbn [fst snd].
    destruct (Hseq vs IH in_p pos prev Hwf Hprev) as [Ha _].
    rewrite forest_ok_app, ends_text_app, Ha. cbn. rewrite andb_false_r. split; [reflexivity|discriminate].
  - apply (IH in_p pos prev Hwf Hprev).
  - rewrite dom_of_keyed. rewrite wf_keyed in Hwf. cbn [fst snd].
    destruct (Hseq vs IH in_p pos prev Hwf Hprev) as [Ha _].
    rewrite forest_ok_app, ends_text_app, Ha. cbn. rewrite andb_false_r. split; [reflexivity|discriminate].
  - cbn [wf] in Hwf. destruct e as [s|s|n a ks]; try discriminate.
    cbn [dom_of fst snd forest_ok ends_text is_text_node]. rewrite andb_false_r, Hwf.
    split; [reflexivity|discriminate].
Qed.
