(** Executable entry point of the C03 model for the correspondence check.
    case / observation: see harness/dom/src/c03.rs *)
From Coq Require Import List ZArith NArith Bool.
From LV Require Import Base.Sexp Dom.Dom Dom.View.
Import ListNotations.

Fixpoint decode_view (fuel : nat) (s : sexp) : view :=
  match fuel with
  | 0 => VUnit
  | S f =>
      let kids := fun x => map (decode_view f) (as_list x) in
      match as_Z (nth_s 0 s) with
      | 0%Z => VText 0 (as_bytes (nth_s 1 s))
      | 9%Z => VText 1 [(48 + as_N (nth_s 1 s))%N]
      | 10%Z => VText 0 (as_bytes (nth_s 1 s))   (* into_any(): the owned form of &str is String *)
      | 1%Z => VUnit
      | 2%Z => let a := nth_s 2 s in
               VEl (as_nat (nth_s 1 s))
                   {| va_id := as_opt as_bytes (nth_s 0 a); va_hidden := as_bool (nth_s 1 a);
                      va_class := as_bytes (nth_s 2 a); va_on := as_bool (nth_s 3 a);
                      va_color := as_bytes (nth_s 4 a) |}
                   (decode_view f (nth_s 3 s))
      | 3%Z => VTuple false (kids (nth_s 1 s))
      | 12%Z => VTuple true (kids (nth_s 1 s))
      | 4%Z => VEither 2 (as_nat (nth_s 1 s)) (decode_view f (nth_s 2 s))
      | 11%Z => VEither 3 (as_nat (nth_s 1 s)) (decode_view f (nth_s 2 s))
      | 5%Z => VOpt (as_opt (decode_view f) (nth_s 1 s))
      | 6%Z => VVec (kids (nth_s 1 s))
      | 7%Z => VStatic (kids (nth_s 1 s))
      (* Arc<str> stays Arc<str> when erased (its own TypeId); Cow<str> becomes a String *)
      | 13%Z => VText (if Z.eqb (as_Z (nth_s 1 s)) 0 then 2 else 0) (as_bytes (nth_s 2 s))
      (* a primitive of type [kind]: one TypeId per type; the case carries what it displays *)
      | 14%Z => VText (10 + as_nat (nth_s 1 s)) (as_bytes (nth_s 3 s))
      (* (A,): state and nodes of A, its own TypeId *)
      | 15%Z => VTuple false [decode_view f (nth_s 1 s)]
      | 16%Z => VEither (as_nat (nth_s 1 s)) (as_nat (nth_s 2 s)) (decode_view f (nth_s 3 s))
      (* Result<T, E>: ResultState = Either<T::State, the placeholder of ()>; Ok -> Err and Err -> Ok
         replace (build, insert_before_this, unmount), Ok -> Ok rebuilds, Err -> Err keeps the placeholder *)
      | 17%Z => match as_list (nth_s 1 s) with
                | [] => VEither 100 1 VUnit
                | x :: _ => VEither 100 0 (decode_view f x)
                end
      (* EitherKeepAlive, InertElement: not modelled (cases containing them are judged by the oracle only) *)
      | 18%Z | 19%Z => VUnit
      | _ => VKeyed (map (fun kv => (as_N (nth_s 0 kv), decode_view f (nth_s 1 kv))) (as_list (nth_s 1 s)))
      end
  end.

Fixpoint lookup_sexp (id : N) (t : list (N * sexp)) : sexp :=
  match t with
  | [] => Lst [Num (-1)]
  | (x, s) :: r => if N.eqb id x then s else lookup_sexp id r
  end.

Definition s_ostr (o : option str) : sexp := sopt sbytes o.

(** class attribute as the string the DOM reports: tokens joined by one space *)
Fixpoint join_tokens (l : list str) : str :=
  match l with
  | [] => []
  | [t] => t
  | t :: r => t ++ [32%N] ++ join_tokens r
  end.

Definition s_attrs (d : dattrs) : sexp :=
  Lst [s_ostr (da_id d); sbool (da_hidden d); s_ostr (option_map join_tokens (da_class d));
       s_ostr (da_color d)].

Definition s_old (old : list N) (id : N) : sexp := sbool (memN id old).

(** every top-level node of a state with its serialisation *)
Fixpoint node_sexps (old : list N) (s : st) : list (N * sexp) :=
  match s with
  | SText id _ t => [(id, Lst [Num 0; sbytes t; s_old old id])]
  | SUnit id | SOptNone id => [(id, Lst [Num 1; s_old old id])]
  | SEl id tag _ d kids c =>
      let t := node_sexps old c in
      [(id, Lst [Num 2; snat tag; s_attrs d; Lst (map (fun k => lookup_sexp k t) kids); s_old old id])]
  | STuple _ l | SStatic l _ => flat_map (node_sexps old) l
  | SEither _ _ c | SOptSome c => node_sexps old c
  | SVec l mk => flat_map (node_sexps old) l ++ [(mk, Lst [Num 1; s_old old mk])]
  | SKeyed rows mk _ => flat_map (fun r => node_sexps old (snd r)) rows ++ [(mk, Lst [Num 1; s_old old mk])]
  end.

(** ids of the nodes below the parent: its children and, for the elements among them, theirs *)
Fixpoint inner_ids (s : st) (present : list N) : list N :=
  match s with
  | SEl id _ _ _ kids c => if memN id present then kids ++ inner_ids c kids else []
  | STuple _ l | SStatic l _ | SVec l _ => flat_map (fun x => inner_ids x present) l
  | SEither _ _ c | SOptSome c => inner_ids c present
  | SKeyed rows _ _ => flat_map (fun r => inner_ids (snd r) present) rows
  | _ => []
  end.
Definition subtree_ids (s : st) (dom : list N) : list N := dom ++ inner_ids s dom.

Definition digit (i : nat) : N := (48 + N.of_nat i)%N.
Definition sib_table (npre npost : nat) : list (N * sexp) :=
  map (fun i => (N.of_nat i, Lst [Num 0; sbytes ([80; 82; 69]%N ++ [digit i]); Num 1])) (seq 0 npre)
  ++ map (fun j => (N.of_nat (npre + j), Lst [Num 0; sbytes ([80; 79; 83; 84]%N ++ [digit j]); Num 1]))
         (seq 0 npost).

Definition s_children (npre npost : nat) (old : list N) (s : st) (dom : list N) : sexp :=
  let t := sib_table npre npost ++ node_sexps old s in
  Lst (map (fun k => lookup_sexp k t) dom).

(** the value rendered from scratch between the same siblings *)
Definition fresh_children (npre npost : nat) (v : view) : sexp :=
  let sibs := map N.of_nat (seq 0 (npre + npost)) in
  let anchor := match npost with 0 => None | S _ => Some (N.of_nat npre) end in
  let '(s, _) := build v (N.of_nat (npre + npost)) in
  let '(s', dom) := mount_st s anchor sibs in
  s_children npre npost sibs s' dom.

Fixpoint run_steps (npre npost : nat) (vs : list view) (s : st) (w : rw) : list sexp * st * rw :=
  match vs with
  | [] => ([], s, w)
  | v :: rest =>
      let old := subtree_ids s (r_dom w) in
      let '(s', w') := rebuild_any v s w in
      let '(out, s'', w'') := run_steps npre npost rest s' w' in
      (Lst [s_children npre npost old s' (r_dom w'); fresh_children npre npost v] :: out, s'', w'')
  end.

Definition run_C03 (c : sexp) : sexp :=
  let npre := as_nat (nth_s 0 c) in
  let npost := as_nat (nth_s 1 c) in
  let v0 := decode_view 40 (nth_s 2 c) in
  let vs := map (decode_view 40) (as_list (nth_s 3 c)) in
  let sibs := map N.of_nat (seq 0 (npre + npost)) in
  let anchor := match npost with 0 => None | S _ => Some (N.of_nat npre) end in
  let '(s0, nx) := build v0 (N.of_nat (npre + npost)) in
  let '(s0', dom0) := mount_st s0 anchor sibs in
  let first := s_children npre npost sibs s0' dom0 in
  let '(steps, s, w) := run_steps npre npost vs s0' {| r_dom := dom0; r_next := nx; r_panic := false |} in
  if r_panic w then Lst [Num (-9)] else
  let old := subtree_ids s (r_dom w) in
  let last := s_children npre npost old s (unmount_st s (r_dom w)) in
  Lst (first :: steps ++ [last]).
