(** C03, top level: mounted states, sequences of rebuilds, unmount, known classes. *)
From Coq Require Import List NArith Bool Arith Lia.
From LV Require Import Dom.Dom Dom.DomProofs Dom.Keyed Dom.KeyedProofs Dom.View Dom.ViewProofs.
Import ListNotations.

(** a view state [s] mounted in a parent whose children are [r_dom w]: the parent's children
    are [pre ++ (the nodes of s) ++ post], without repetition, and [s] is a [good] state *)
Definition mounted (pre post : list N) (s : st) (w : rw) : Prop :=
  r_panic w = false /\ r_dom w = pre ++ ids s ++ post /\ good (r_next w) s /\
  NoDup (pre ++ ids s ++ post) /\ (forall x, In x (pre ++ post) -> (x < r_next w)%N).

(** build + mount between the siblings [pre] and [post] (before the first of [post], or
    appended): what the harness and [leptos::mount] do *)
Definition render_fresh (pre post : list N) (v : view) (n : N) : st * rw :=
  let '(s, n') := build v n in
  let '(s', dom) := mount_st s (hd_error post) (pre ++ post) in
  (s', {| r_dom := dom; r_next := n'; r_panic := false |}).

Theorem render_fresh_ok : forall (pre post : list N) v n,
  okv v -> NoDup (pre ++ post) -> (forall x, In x (pre ++ post) -> (x < n)%N) ->
  let '(s, w) := render_fresh pre post v n in mounted pre post s w /\ cs s = cv v.
Proof.
  intros pre post v n Hok Hnd Hb. unfold render_fresh. destruct (build v n) as [s n'] eqn:Eb.
  destruct (build_ok v Hok _ _ _ Eb) as [G [C [Le [Lo Nd]]]].
  unfold mount_st. rewrite (mark_mounted_good _ _ G).
  assert (forall x, In x (ids s) -> ~ In x (pre ++ post)) as Hfresh.
  { intros x Hx Hc. specialize (Lo x Hx). specialize (Hb x Hc). lia. }
  assert (mount_ids (ids s) (hd_error post) (pre ++ post) = pre ++ ids s ++ post) as Em.
  { destruct post as [|p post']; cbn [hd_error].
    - rewrite !app_nil_r in *. apply mount_ids_end; auto.
    - apply mount_ids_before; auto. apply NoDup_remove_2 in Hnd. intro Hc. apply Hnd.
      apply in_or_app. auto. }
  rewrite Em. unfold mounted. cbn [r_panic r_dom r_next]. repeat split; auto.
  - apply (NoDup_replace_block pre [] post (ids s) n); auto.
  - intros x Hx. specialize (Hb x Hx). lia.
Qed.

(** the headline: rebuilding a mounted state with a new value leaves the parent with the
    siblings untouched and, between them, the nodes of a state that shows exactly what a
    fresh render of the value shows ([cv v], cf. [render_fresh_ok]) *)
Theorem rebuild_eq_fresh : forall pre post s w v,
  mounted pre post s w -> okv v -> compat v s ->
  let '(s', w') := rebuild_any v s w in mounted pre post s' w' /\ cs s' = cv v.
Proof.
  intros pre post s w v [Hp [Hd [Hg [Hnd Hb]]]] Hok Hcp.
  destruct (rebuild_any v s w) as [s' w'] eqn:E.
  destruct (rebuild_any_ok v Hok s pre post w Hcp Hg Hp Hd Hnd Hb s' w' E) as [P1 [D1 [G1 [C1 [L1 N1]]]]].
  split; auto. unfold mounted. repeat split; auto. intros x Hx. specialize (Hb x Hx). lia.
Qed.

(** any sequence of rebuilds *)
Fixpoint rebuild_seq (vs : list view) (s : st) (w : rw) : st * rw :=
  match vs with
  | [] => (s, w)
  | v :: rest => let '(s', w') := rebuild_any v s w in rebuild_seq rest s' w'
  end.
(** every value of the sequence is outside the known classes when its turn comes *)
Fixpoint all_ok (vs : list view) (s : st) (w : rw) : Prop :=
  match vs with
  | [] => True
  | v :: rest => okv v /\ compat v s /\ let '(s', w') := rebuild_any v s w in all_ok rest s' w'
  end.

Theorem rebuild_seq_eq_fresh : forall vs pre post s w v0,
  mounted pre post s w -> cs s = cv v0 -> all_ok vs s w ->
  let '(s', w') := rebuild_seq vs s w in mounted pre post s' w' /\ cs s' = cv (last vs v0).
Proof.
  induction vs as [|v vs IH]; intros pre post s w v0 Hm Hc Hok.
  - simpl. auto.
  - destruct Hok as [Hv [Hcp Hr]]. cbn [rebuild_seq]. pose proof (rebuild_eq_fresh pre post s w v Hm Hv Hcp) as H.
    destruct (rebuild_any v s w) as [s1 w1]. destruct H as [Hm1 Hc1].
    specialize (IH pre post s1 w1 v Hm1 Hc1 Hr). destruct (rebuild_seq vs s1 w1) as [s2 w2].
    destruct vs as [|v1 vs]; auto.
    assert (forall (l : list view) x d d', last (x :: l) d = last (x :: l) d') as Hl.
    { induction l as [|y l IHl]; intros x d d'; [reflexivity|]. cbn [last] in *. apply IHl. }
    change (last (v :: v1 :: vs) v0) with (last (v1 :: vs) v0). rewrite (Hl vs v1 v0 v). exact IH.
Qed.

(** unmounting removes exactly the nodes the view added *)
Theorem unmount_removes_exactly : forall pre post s w,
  mounted pre post s w -> unmount_st s (r_dom w) = pre ++ post.
Proof. intros pre post s w [_ [Hd [_ [Hnd _]]]]. rewrite Hd. apply unmount_block. exact Hnd. Qed.

(** a rebuild with a value of the same shape keeps the root node(s): same text node, same
    element, same placeholder, same Vec marker (applies at every level of the tree) *)
Theorem retained_nodes_kept : forall v s w s' w',
  rebuild_any v s w = (s', w') -> tcode_eqb (tc_view v) (tc_st s) = true ->
  match s with
  | SText id _ _ | SUnit id | SEl id _ _ _ _ _ => ids s' = [id]
  | SVec _ mk => exists l, ids s' = l ++ [mk]
  | _ => True
  end.
Proof.
  intros v s w s' w' E Htc.
  destruct s as [id k t|id|id tag prev d kids c|arr l|ar r c|c|ph|l mk|l b|rows mk g]; auto;
    destruct v as [k' t'| |tag' a c'|arr' l'|ar' r' c'|[c'|]|l'|l'|items']; try discriminate;
    cbn [rebuild_any] in E; rewrite Htc in E; cbn [negb] in E.
  - inversion E. reflexivity.
  - inversion E. reflexivity.
  - destruct (rebuild_any c' c _) as [c1 wk]. inversion E. reflexivity.
  - destruct l as [|s0 sr].
    + match type of E with (let '(_, _) := ?X in _) = _ => destruct X as [ns nx] end.
      match type of E with (let '(_, _) := ?X in _) = _ => destruct X as [ns' w1] end.
      inversion E. eexists. reflexivity.
    + destruct l' as [|x r].
      * inversion E. exists []. reflexivity.
      * match type of E with (let '(_, _) := ?X in _) = _ => destruct X as [[kept adds] w1] end.
        inversion E. eexists. reflexivity.
Qed.

(* ----------------------------------------------------- the known classes are real *)

(** F-C03-a: an empty StaticVec owns no node; replacing it loses the new content *)
Example refuted_static_empty :
  let '(s, w) := render_fresh [] [] (VEither 2 0 (VStatic [])) 0 in
  let '(s', w') := rebuild_any (VEither 2 1 (VText 0 [104; 105]%N)) s w in
  r_dom w' = [] /\ ids s' = [0%N].
Proof. vm_compute. auto. Qed.

(** F-C03-b: StaticVec::rebuild re-mounts at the end of the parent, after the sibling *)
Example refuted_static_after_sibling :
  let '(s, w) := render_fresh [0%N] [1%N] (VStatic [VText 0 [97%N]]) 2 in
  let '(s', w') := rebuild_any (VStatic [VText 0 [98%N]]) s w in
  r_dom w = [0; 2; 1]%N /\ r_dom w' = [0; 1; 3]%N /\ ids s' = [3%N].
Proof. vm_compute. auto. Qed.

(** F-C03-c: the class attribute is rewritten and the unchanged [class:on] toggle is lost *)
Example refuted_class_toggle :
  let a := {| va_id := None; va_hidden := false; va_class := [97%N]; va_on := true; va_color := [114%N] |} in
  let '(s, w) := render_fresh [] [] (VEl 0 a VUnit) 0 in
  let '(s', w') := rebuild_any (VEl 0 a VUnit) s w in
  cs s = cv (VEl 0 a VUnit) /\ cs s' <> cv (VEl 0 a VUnit).
Proof. vm_compute. split; [reflexivity|discriminate]. Qed.

(* ------------------------------------------------- the hypotheses are satisfiable *)

Definition ex_view1 : view :=
  VTuple false
    [VEl 2 {| va_id := Some [105%N]; va_hidden := true; va_class := [97; 32; 98]%N; va_on := false;
              va_color := [114%N] |}
         (VVec [VText 0 [120%N]; VOpt None; VEither 3 2 VUnit; VTuple true [VText 1 [55%N]]]);
     VOpt (Some (VText 0 [121%N]))].
(** the toggle is switched on, the class string changes, an Either branch switches, ... *)
Definition ex_view2 : view :=
  VTuple false
    [VEl 2 {| va_id := None; va_hidden := false; va_class := [98%N]; va_on := true; va_color := [98%N] |}
         (VVec [VEither 2 1 (VText 0 [122%N]); VText 0 [119%N]]);
     VOpt None].

Example ex_okv : okv ex_view1 /\ okv ex_view2.
Proof. unfold ex_view1, ex_view2. cbv. intuition discriminate. Qed.

Example ex_rebuild :
  let '(s, w) := render_fresh [0%N] [1%N] ex_view1 2 in
  let '(s', w') := rebuild_any ex_view2 s w in
  mounted [0%N] [1%N] s' w' /\ cs s' = cv ex_view2.
Proof.
  pose proof (render_fresh_ok [0%N] [1%N] ex_view1 2 (proj1 ex_okv)) as H.
  destruct (render_fresh [0%N] [1%N] ex_view1 2) as [s w] eqn:E. destruct H as [Hm Hc].
  - repeat constructor; simpl; intuition discriminate.
  - simpl. intros x [<-|[<-|[]]]; reflexivity.
  - apply (rebuild_eq_fresh [0%N] [1%N] s w ex_view2 Hm (proj2 ex_okv)).
    vm_compute in E. inversion E. subst. cbv. auto.
Qed.

(** a keyed list inside a tuple, updated with a move, a removal-free addition and a reorder:
    the hypotheses of the theorem hold and it applies *)
Definition ex_keyed1 : view :=
  VTuple false [VText 0 [60%N]; VKeyed [(1%N, VText 0 [97%N]); (2%N, VEl 0 {| va_id := None; va_hidden := false;
     va_class := [120%N]; va_on := false; va_color := [114%N] |} (VText 0 [98%N]))]].
Definition ex_keyed2 : view :=
  VTuple false [VText 0 [62%N]; VKeyed [(2%N, VEl 0 {| va_id := None; va_hidden := false;
     va_class := [120%N]; va_on := false; va_color := [114%N] |} (VText 0 [98%N])); (3%N, VUnit); (1%N, VText 0 [97%N])]].

Example ex_keyed_rebuild :
  let '(s, w) := render_fresh [0%N] [1%N] ex_keyed1 2 in
  let '(s', w') := rebuild_any ex_keyed2 s w in
  mounted [0%N] [1%N] s' w' /\ cs s' = cv ex_keyed2.
Proof.
  assert (okv ex_keyed1) as Hok1.
  { unfold ex_keyed1. apply okv_tuple. split; [discriminate|]. cbn [all_okv]. split; [exact I|]. split; [|exact I].
    apply okv_keyed. split; [repeat constructor; simpl; intuition discriminate|]. simpl. auto. }
  assert (okv ex_keyed2) as Hok2.
  { unfold ex_keyed2. apply okv_tuple. split; [discriminate|]. cbn [all_okv]. split; [exact I|]. split; [|exact I].
    apply okv_keyed. split; [repeat constructor; simpl; intuition discriminate|]. simpl. auto. }
  pose proof (render_fresh_ok [0%N] [1%N] ex_keyed1 2 Hok1) as H.
  destruct (render_fresh [0%N] [1%N] ex_keyed1 2) as [s w] eqn:E. destruct H as [Hm Hc].
  - repeat constructor; simpl; intuition discriminate.
  - simpl. intros x [<-|[<-|[]]]; reflexivity.
  - apply (rebuild_eq_fresh [0%N] [1%N] s w ex_keyed2 Hm Hok2).
    vm_compute in E. inversion E. subst. unfold ex_keyed2.
    cbn. split; [exact I|]. split; [|exact I].
    intros kv r [<-|[<-|[<-|[]]]] [<-|[<-|[]]] Ek; cbn in Ek; try discriminate; reflexivity.
Qed.
