(** C03: the serialisation compared with the implementation (ViewRun.v) is, once the
    node-identity flags are removed, the image of the content function [cs] the theorems
    speak about. *)
From Coq Require Import List NArith ZArith Bool Arith Lia.
From LV Require Import Base.Sexp Dom.Dom Dom.DomProofs Dom.Keyed Dom.KeyedProofs Dom.View Dom.ViewProofs Dom.ViewRun.
Import ListNotations.

(** serialisation of the id-free content *)
Fixpoint ser_t (t : tnode) : sexp :=
  match t with
  | TT s => Lst [Num 0; sbytes s]
  | TC => Lst [Num 1]
  | TE tag d kids => Lst [Num 2; snat tag; s_attrs d; Lst (map ser_t kids)]
  end.

(** a serialised node without its "already existed" flag (what the oracle compares) *)
Fixpoint strip (x : sexp) : sexp :=
  match x with
  | Lst [Num 0%Z; b; _] => Lst [Num 0; b]
  | Lst [Num 1%Z; _] => Lst [Num 1]
  | Lst [Num 2%Z; t; a; Lst ch; _] => Lst [Num 2; t; a; Lst (map strip ch)]
  | _ => x
  end.

Lemma lookup_keys : forall (t : list (N * sexp)), NoDup (map fst t) ->
  map (fun k => lookup_sexp k t) (map fst t) = map snd t.
Proof.
  induction t as [|[k x] t IH]; intros Hnd; [reflexivity|]. cbn [map fst snd] in *.
  inversion Hnd; subst. cbn [lookup_sexp]. rewrite N.eqb_refl. f_equal.
  rewrite <- IH by auto. apply map_ext_in. intros a Ha.
  destruct (N.eqb_spec a k); [subst; contradiction|reflexivity].
Qed.

Lemma map_fst_flat : forall {A} (f : A -> list (N * sexp)) (g : A -> list N) l,
  (forall x, In x l -> map fst (f x) = g x) -> map fst (flat_map f l) = flat_map g l.
Proof.
  induction l as [|x l IH]; intros H; [reflexivity|]. cbn [flat_map]. rewrite map_app, H, IH; auto.
  - intros; apply H; right; auto.
  - left; auto.
Qed.

Lemma map_snd_flat : forall {A} (f : A -> list (N * sexp)) (g : A -> list tnode) l,
  (forall x, In x l -> map strip (map snd (f x)) = map ser_t (g x)) ->
  map strip (map snd (flat_map f l)) = map ser_t (flat_map g l).
Proof.
  induction l as [|x l IH]; intros H; [reflexivity|]. cbn [flat_map]. rewrite !map_app, H, IH; auto.
  - intros; apply H; right; auto.
  - left; auto.
Qed.

Lemma all_good_in : forall n l x, all_good n l -> In x l -> good n x.
Proof. induction l; simpl; intros x H Hx; [contradiction|]. destruct H. destruct Hx; subst; auto. Qed.

Lemma st_ind' : forall P : st -> Prop,
  (forall id k t, P (SText id k t)) -> (forall id, P (SUnit id)) ->
  (forall id tag prev d kids c, P c -> P (SEl id tag prev d kids c)) ->
  (forall a l, Forall P l -> P (STuple a l)) ->
  (forall ar r c, P c -> P (SEither ar r c)) ->
  (forall c, P c -> P (SOptSome c)) -> (forall ph, P (SOptNone ph)) ->
  (forall l mk, Forall P l -> P (SVec l mk)) ->
  (forall l b, Forall P l -> P (SStatic l b)) ->
  (forall rows mk g, Forall (fun r => P (snd r)) rows -> P (SKeyed rows mk g)) ->
  forall s, P s.
Proof.
  intros P H1 H2 H3 H4 H5 H6 H7 H8 H9 H10. fix IH 1. intros s.
  destruct s as [id k t|id|id tag prev d kids c|arr l|ar r c|c|ph|l mk|l b|rows mk g].
  - apply H1.
  - apply H2.
  - apply H3. apply IH.
  - apply H4. induction l; constructor; auto.
  - apply H5. apply IH.
  - apply H6. apply IH.
  - apply H7.
  - apply H8. induction l; constructor; auto.
  - apply H9. induction l; constructor; auto.
  - apply H10. induction rows; constructor; auto.
Qed.

Lemma node_sexps_ok : forall old s n, good n s ->
  map fst (node_sexps old s) = ids s /\
  map strip (map snd (node_sexps old s)) = map ser_t (cs s).
Proof.
  intros old s. induction s using st_ind'; intros n Hg.
  - simpl. auto.
  - simpl. auto.
  - cbn [good] in Hg. destruct Hg as [_ [Hk [_ [Hnd Hg]]]]. destruct (IHs n Hg) as [I1 I2].
    cbn [node_sexps map fst snd ids cs ser_t strip]. split; [reflexivity|]. f_equal. f_equal.
    f_equal. f_equal. f_equal. rewrite Hk, <- I1. rewrite lookup_keys by (rewrite I1; exact Hnd).
    rewrite I2. reflexivity.
  - apply (proj1 (good_tuple _ _ _)) in Hg. destruct Hg as [_ Hg]. cbn [node_sexps ids cs].
    rewrite Forall_forall in H. split.
    + apply map_fst_flat. intros x Hx. exact (proj1 (H x Hx n (all_good_in _ _ _ Hg Hx))).
    + apply map_snd_flat. intros x Hx. exact (proj2 (H x Hx n (all_good_in _ _ _ Hg Hx))).
  - cbn [good node_sexps ids cs] in *. exact (IHs n Hg).
  - cbn [good node_sexps ids cs] in *. exact (IHs n Hg).
  - simpl. auto.
  - apply (proj1 (good_vec _ _ _)) in Hg. destruct Hg as [_ Hg]. cbn [node_sexps ids cs].
    rewrite Forall_forall in H. split.
    + rewrite map_app. f_equal. apply map_fst_flat. intros x Hx. exact (proj1 (H x Hx n (all_good_in _ _ _ Hg Hx))).
    + rewrite !map_app. f_equal. apply map_snd_flat. intros x Hx. exact (proj2 (H x Hx n (all_good_in _ _ _ Hg Hx))).
  - destruct Hg.
  - apply (proj1 (good_keyed _ _ _ _)) in Hg. destruct Hg as [_ [_ Hg]]. cbn [node_sexps ids cs].
    rewrite Forall_forall in H.
    assert (forall x, In x rows -> good n (snd x)) as Hgx.
    { intros x Hx. eapply all_good_in; [exact Hg|]. apply in_map. exact Hx. }
    split.
    + rewrite map_app. f_equal. apply map_fst_flat. intros x Hx. exact (proj1 (H x Hx n (Hgx x Hx))).
    + rewrite !map_app. f_equal. apply map_snd_flat. intros x Hx. exact (proj2 (H x Hx n (Hgx x Hx))).
Qed.

(** the serialised nodes of a good state, identity flags removed, are the image of [cs] *)
Theorem serialisation_is_cs : forall old s n, good n s -> NoDup (ids s) ->
  map strip (map (fun k => lookup_sexp k (node_sexps old s)) (ids s)) = map ser_t (cs s).
Proof.
  intros old s n Hg Hnd. destruct (node_sexps_ok old s n Hg) as [H1 H2].
  rewrite <- H1. rewrite lookup_keys by (rewrite H1; exact Hnd). exact H2.
Qed.

(** and [cv] is serialised the same way: equal contents give equal serialisations *)
Corollary same_content_same_serialisation : forall old old' s s' n n',
  good n s -> good n' s' -> NoDup (ids s) -> NoDup (ids s') -> cs s = cs s' ->
  map strip (map (fun k => lookup_sexp k (node_sexps old s)) (ids s))
  = map strip (map (fun k => lookup_sexp k (node_sexps old' s')) (ids s')).
Proof. intros. rewrite !(serialisation_is_cs _ _ _) by eauto. congruence. Qed.
