(** Executable entry point of the C05 model for the correspondence check.

    case  (0 view view2) | (1 view)  [streamed forms: observation (html in_order_eq out_of_order_eq)] :
      view ::= (0 bytes) text | (1) unit | (2 tag attrs kids) element | (3 tag attrs) void element
             | (4 views) tuple | (5 v) Some | (6) None | (7 v) Left | (8 v) Right | (9 views) Vec
             | (10 v) AnyView | (11 views) keyed | (12 dom) inert element | (13 n) integer primitive
             | (14 id pending v) Suspend (here: future ready) | (15 tag attrs parts) raw-text element
               textarea/style/script, parts ::= ((1 bytes) | (0) ..) string child / child rendering nothing
      tag (element) indexes [div span p section ul main], tag (void) indexes [br hr img input],
      attrs ::= ((key bytes) ..) with key indexing [id title lang],
      dom ::= (0 bytes) | (1) | (2 name attrs doms)   (names and attribute names as bytes)
    observation
      (html tree (1 nops) same touched csr_eq [perturbed_ok rebuild_ok]) hydration succeeded (the last
                                                                           two only when csr_eq = 1)
      (html tree (0))                                                      hydration error
      (html (-1))                                                          markup outside the parser subset
    [view2] only drives the implementation (rebuild after hydration vs the client-built twin);
    the model's answer for the last two flags is the property itself (1). *)
From Coq Require Import List ZArith NArith Bool.
From LV Require Import Base.Sexp Base.Bytes Dom.HydrateModel.
Import ListNotations.

Definition elem_tags : list bytes := [s_div; s_span; s_p; s_section; s_ul; s_main].
Definition void_tags : list bytes := [s_br; s_hr; s_img; s_input].
Definition raw_tags : list bytes := [s_textarea; s_style; s_script].
Definition attr_keys : list bytes :=
  [[105; 100]; [116; 105; 116; 108; 101]; [108; 97; 110; 103]]%N.

Definition dec_attrs (s : sexp) : list attr :=
  map (fun a => (nth (as_nat (nth_s 0 a)) attr_keys [], as_bytes (nth_s 1 a))) (as_list s).
Definition dec_attrs_raw (s : sexp) : list attr :=
  map (fun a => (as_bytes (nth_s 0 a), as_bytes (nth_s 1 a))) (as_list s).

Fixpoint dec_dom (s : sexp) : dom :=
  match s with
  | Num _ => DComment []
  | Lst l =>
      match l with
      | Num 0%Z :: b :: _ => DText (as_bytes b)
      | Num 2%Z :: n :: a :: Lst ks :: _ =>
          DElem (as_bytes n) (dec_attrs_raw a)
                ((fix go (l : list sexp) : list dom :=
                    match l with [] => [] | x :: r => dec_dom x :: go r end) ks)
      | _ => DComment []
      end
  end.

(** decimal digits of an integer primitive ([Display] of u32) *)
Fixpoint digits_fuel (fuel : nat) (n : N) (acc : bytes) : bytes :=
  match fuel with
  | O => acc
  | S fuel => let acc' := (48 + n mod 10)%N :: acc in
              if (n <? 10)%N then acc' else digits_fuel fuel (n / 10)%N acc'
  end.
Definition digits (n : N) : bytes := digits_fuel 40 n [].

Fixpoint dec_view (s : sexp) : view :=
  match s with
  | Num _ => VUnit
  | Lst l =>
      let many := fix many (l : list sexp) : list view :=
        match l with [] => [] | x :: r => dec_view x :: many r end in
      match l with
      | Num 0%Z :: b :: _ => VText (as_bytes b)
      | Num 2%Z :: t :: a :: Lst ks :: _ => VElem (nth (as_nat t) elem_tags []) (dec_attrs a) (many ks)
      | Num 3%Z :: t :: a :: _ => VVoid (nth (as_nat t) void_tags []) (dec_attrs a)
      | Num 4%Z :: Lst vs :: _ => VTuple (many vs)
      | Num 5%Z :: v :: _ => VSome (dec_view v)
      | Num 6%Z :: _ => VNone
      | Num 7%Z :: v :: _ => VLeft (dec_view v)
      | Num 8%Z :: v :: _ => VRight (dec_view v)
      | Num 9%Z :: Lst vs :: _ => VVec (many vs)
      | Num 10%Z :: v :: _ => VAny (dec_view v)
      | Num 11%Z :: Lst vs :: _ => VKeyed (many vs)
      | Num 12%Z :: d :: _ => VInert (dec_dom d)
      | Num 13%Z :: n :: _ => VText (digits (as_N n))
      | Num 14%Z :: _ :: _ :: v :: _ => VSuspend (dec_view v)  (* Suspend whose future is ready *)
      | Num 15%Z :: t :: a :: Lst ps :: _ =>
          VRaw (nth (as_nat t) raw_tags []) (dec_attrs a)
               (map (fun p => match as_list p with
                              | Num 1%Z :: b :: _ => Some (as_bytes b)
                              | _ => None
                              end) ps)
      | _ => VUnit
      end
  end.

Definition s_attrs (l : list attr) : sexp :=
  Lst (map (fun a => Lst [sbytes (fst a); sbytes (snd a)]) l).
Fixpoint s_dom (d : dom) : sexp :=
  match d with
  | DText s => Lst [Num 0%Z; sbytes s]
  | DComment _ => Lst [Num 1%Z]
  | DElem n a ks =>
      Lst [Num 2%Z; sbytes n; s_attrs a;
           Lst ((fix go (l : list dom) : list sexp :=
                   match l with [] => [] | k :: l => s_dom k :: go l end) ks)]
  end.

(** pre-order index of the node at a path (root = 0) *)
Fixpoint size (d : dom) : nat :=
  match d with
  | DElem _ _ ks => S ((fix go (l : list dom) : nat :=
                          match l with [] => O | k :: l => (size k + go l)%nat end) ks)
  | _ => 1%nat
  end.
Fixpoint id_of (d : dom) (p : list nat) : nat :=
  match p with
  | [] => O
  | i :: p' =>
      match d with
      | DElem _ _ ks =>
          S ((fold_right (fun k acc => (size k + acc)%nat) O (firstn i ks)
              + match nth_error ks i with Some k => id_of k p' | None => O end)%nat)
      | _ => O
      end
  end.

(** nodes written by a rebuild that changes every text and every attribute value: the bound
    text nodes and the bound elements carrying attributes *)
Fixpoint touched (s : stree) : list path :=
  let seq := fix seq (l : list stree) : list path :=
    match l with [] => [] | s :: l => touched s ++ seq l end in
  match s with
  | SText n _ => [n]
  | SMarker _ | SInert _ => []
  | SElem n a ks =>
      (match a with [] => [] | _ => [n] end) ++ match ks with Some l => seq l | None => [] end
  | SSeq l => seq l
  | SLeftS s | SRightS s | SAny s => touched s
  | SVec l _ => seq l
  | SKeyed _ _ _ => []      (* a keyed rebuild with unchanged keys never rebuilds its items *)
  | SSusp _ => []           (* Suspend::rebuild only spawns a task; nothing is rebuilt synchronously *)
  end.

Fixpoint insert_sorted (x : nat) (l : list nat) : list nat :=
  match l with
  | [] => [x]
  | y :: r => if Nat.eqb x y then l else if Nat.leb x y then x :: l else y :: insert_sorted x r
  end.
Definition sort_nats (l : list nat) : list nat := fold_right insert_sorted [] l.

Fixpoint dom_eqb (a b : dom) {struct a} : bool :=
  match a, b with
  | DText s, DText t => bytes_eqb s t
  | DComment _, DComment _ => true
  | DElem n a ks, DElem m b js =>
      bytes_eqb n m
      && sexp_eqb (s_attrs a) (s_attrs b)
      && (fix go (l m : list dom) : bool :=
            match l, m with
            | [], [] => true
            | x :: l, y :: m => dom_eqb x y && go l m
            | _, _ => false
            end) ks js
  | _, _ => false
  end.

Definition run_C05 (c : sexp) : sexp :=
  let v := dec_view (nth_s 1 c) in
  let html := render v in
  if Z.eqb (as_Z (nth_s 0 c)) 1 then
    (* case (1 view): the streamed forms of a view without asynchronous parts are the synchronous
       string (the model has only the synchronous printer: the two flags are the claim) *)
    Lst [sbytes html; Num 1%Z; Num 1%Z]
  else
  match parse html with
  | None => Lst [sbytes html; Lst [Num (-1)%Z]]
  | Some f =>
      let root := root_of f in
      let tree := Lst (map s_dom f) in
      match hydrate_from root v with
      | None => Lst [sbytes html; tree; Lst [Num 0%Z]]
      | Some (st, h) =>
          let after := apply_ops root (h_ops h) in
          let csr_eq := match strip after, strip (root_of (dom_csr v)) with
                        | [a], [b] => dom_eqb a b
                        | _, _ => false
                        end in
          Lst ([sbytes html; tree;
                Lst [Num 1%Z; snat (length (h_ops h))];
                Num 1%Z;
                snats (sort_nats (map (fun p => id_of root (rev p)) (touched st)));
                sbool csr_eq] ++ (if csr_eq then [Num 1%Z; Num 1%Z] else []))
      end
  end.
