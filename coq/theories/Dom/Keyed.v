(** Executable transcription of tachys/src/view/keyed.rs (after the [fix:] commit that
    tightens the [move_in_dom] elision): [diff], [group_adjacent_moves], [unpack_moves],
    [apply_diff], and [Keyed::build] / [rebuild] / [KeyedState::mount], over keys [N] and
    items that own m >= 1 DOM nodes inside one parent element (Dom.v).  The [set_index]
    callbacks, [view_fn] calls and item mounts / unmounts are logged.
    Model only — proofs are in KeyedProofs.v. *)
From Coq Require Import List NArith ZArith Bool Arith.
From LV Require Import Dom.Dom.
Import ListNotations.

(* ------------------------------------------------------------------ diff *)

(** [DiffOpMove] *)
Record mv := { m_from : nat; m_len : nat; m_to : nat; m_dom : bool }.
(** [DiffOpAddMode], [DiffOpAdd] *)
Inductive add_mode := Normal | Append.
Record addop := { a_at : nat; a_mode : add_mode }.
(** [Diff] *)
Record diff_t := {
  d_removed : list nat;
  d_moved : list mv;
  d_items_to_move : nat;
  d_added : list addop;
  d_clear : bool }.

Definition opt_eqb (a b : option N) : bool :=
  match a, b with
  | Some x, Some y => N.eqb x y
  | None, None => true
  | _, _ => false
  end.

(** [matches!(last_kept, Some(kept) if x < kept)] *)
Definition below_kept (x : nat) (kept : option nat) : bool :=
  match kept with Some k => x <? k | None => false end.

(** what one iteration of [for index in 0..max_len] decides when [from_item != to_item] *)
Definition it_rem (from to : list N) (index : nat) : bool :=
  match nth_error from index with Some f => negb (memN f to) | None => false end.
Definition it_add (from to : list N) (index : nat) : bool :=
  match nth_error to index with Some t => negb (memN t from) | None => false end.
(** [na] / [nr] = [added.len()] / [removed.len()] after this iteration's pushes *)
Definition it_move (from to : list N) (index na nr : nat) (kept : option nat) : option mv :=
  match nth_error from index with
  | Some f =>
      match index_of f to with
      | Some t =>
          let move_in_dom :=
            negb (Z.eqb (Z.of_nat t - Z.of_nat index) (Z.of_nat na - Z.of_nat nr))
            || below_kept t kept in
          Some {| m_from := index; m_len := 1; m_to := t; m_dom := move_in_dom |}
      | None => None
      end
  | None => None
  end.
Definition it_kept (mvop : option mv) (kept : option nat) : option nat :=
  match mvop with
  | Some m => if m_dom m then kept else Some (m_to m)
  | None => kept
  end.

(** The body of [for index in 0..max_len]: [n] iterations are left, [na] / [nr] are
    [added.len()] / [removed.len()] so far, [kept] is [last_kept].  Returns what the
    remaining iterations push onto (removed, moved, added). *)
Fixpoint diff_loop (from to : list N) (n index na nr : nat) (kept : option nat)
  : list nat * list mv * list addop :=
  match n with
  | 0 => ([], [], [])
  | S n' =>
      if opt_eqb (nth_error from index) (nth_error to index) then
        if below_kept index kept then
          let '(r, m, a) := diff_loop from to n' (S index) na nr kept in
          (r, {| m_from := index; m_len := 1; m_to := index; m_dom := true |} :: m, a)
        else diff_loop from to n' (S index) na nr (Some index)
      else
        let rem := it_rem from to index in
        let add := it_add from to index in
        let nr' := if rem then S nr else nr in
        let na' := if add then S na else na in
        let mvop := it_move from to index na' nr' kept in
        let '(r, m, a) := diff_loop from to n' (S index) na' nr' (it_kept mvop kept) in
        ((if rem then index :: r else r),
         (match mvop with Some x => x :: m | None => m end),
         (if add then {| a_at := index; a_mode := Normal |} :: a else a))
  end.

(** [group_adjacent_moves]: [prev] is the group being grown *)
Fixpoint group_loop (prev : option mv) (moved : list mv) : list mv :=
  match moved with
  | [] => match prev with Some p => [p] | None => [] end
  | m :: rest =>
      match prev with
      | Some p =>
          if (m_from m =? m_from p + m_len p) && (m_to m =? m_to p + m_len p)
             && Bool.eqb (m_dom m) (m_dom p)
          then group_loop (Some {| m_from := m_from p; m_len := S (m_len p);
                                   m_to := m_to p; m_dom := m_dom p |}) rest
          else p :: group_loop (Some m) rest
      | None => group_loop (Some m) rest
      end
  end.
Definition group_adjacent_moves (moved : list mv) : list mv := group_loop None moved.

Definition empty_diff : diff_t :=
  {| d_removed := []; d_moved := []; d_items_to_move := 0; d_added := []; d_clear := false |}.

Definition diff (from to : list N) : diff_t :=
  match from, to with
  | [], [] => empty_diff
  | _, [] => {| d_removed := []; d_moved := []; d_items_to_move := 0; d_added := [];
                d_clear := true |}
  | [], _ => {| d_removed := []; d_moved := []; d_items_to_move := 0;
                d_added := map (fun i => {| a_at := i; a_mode := Append |}) (seq 0 (length to));
                d_clear := false |}
  | _, _ =>
      let '(removed, moved, added) :=
        diff_loop from to (Nat.max (length from) (length to)) 0 0 0 None in
      let moved := group_adjacent_moves moved in
      {| d_removed := removed; d_moved := moved;
         d_items_to_move := fold_right (fun m s => m_len m + s) 0 moved;
         d_added := added; d_clear := false |}
  end.

(* ---------------------------------------------------------- unpack_moves *)

Definition single (m : mv) : mv :=
  {| m_from := m_from m; m_len := 1; m_to := m_to m; m_dom := m_dom m |}.
(** [move_.len -= 1; move_.from += 1; move_.to += 1; if move_.len == 0 { next }] *)
Definition advance (m : mv) (rest : list mv) : list mv :=
  if m_len m - 1 =? 0 then rest
  else {| m_from := S (m_from m); m_len := m_len m - 1; m_to := S (m_to m); m_dom := m_dom m |} :: rest.

(** [for i in 0..n]: [cur] = [moves_next :: moves_iter] *)
Fixpoint unpack_loop (n i : nat) (removes : list nat) (adds : list addop) (cur : list mv)
  : list mv * list addop :=
  match n with
  | 0 => ([], [])
  | S n' =>
      let skip := match removes with r :: _ => i =? r | [] => false end in
      if skip then unpack_loop n' (S i) (tl removes) adds cur
      else
        match adds, cur with
        | a :: adds', m :: cur' =>
            if a_at a =? i then
              let '(ms, ads) := unpack_loop n' (S i) removes adds' cur in (ms, a :: ads)
            else
              let '(ms, ads) := unpack_loop n' (S i) removes adds (advance m cur') in
              (single m :: ms, ads)
        | a :: adds', [] =>
            let '(ms, ads) := unpack_loop n' (S i) removes adds' [] in (ms, a :: ads)
        | [], m :: cur' =>
            let '(ms, ads) := unpack_loop n' (S i) removes [] (advance m cur') in
            (single m :: ms, ads)
        | [], [] => ([], [])
        end
  end.

Definition unpack_moves (d : diff_t) : list mv * list addop :=
  unpack_loop (d_items_to_move d + length (d_added d) + length (d_removed d)) 0
              (d_removed d) (d_added d) (d_moved d).

(* ------------------------------------------------------------ apply_diff *)

(** one rendered item: [(VFS, V::State)] — the key it was built for, the number of
    the [view_fn] call that built it, and the DOM nodes its state owns (in order) *)
Record item := { it_key : N; it_gen : nat; it_nodes : list node }.

Inductive event :=
| EvSetIndex (k : N) (g i : nat)     (* set_index(i) of the item built for k by call g *)
| EvMount (k : N) (g : nat)          (* Mountable::mount of that item's state *)
| EvUnmount (k : N) (g : nat)        (* Mountable::unmount *)
| EvBuild (k : N) (g i : nat).       (* view_fn(i, item-with-key-k), call number g *)

(** working state of [apply_diff]; [w_panic] is sticky (an [unwrap] on [None] or an
    index out of bounds) *)
Record work := {
  w_children : list (option item);
  w_dom : list node;
  w_log : list event;
  w_next : N;           (* next fresh node id *)
  w_gen : nat;          (* number of view_fn calls so far *)
  w_panic : bool }.

Definition panic (w : work) : work :=
  {| w_children := w_children w; w_dom := w_dom w; w_log := w_log w; w_next := w_next w;
     w_gen := w_gen w; w_panic := true |}.

Fixpoint set_nth {A} (i : nat) (x : A) (l : list A) : list A :=
  match l, i with
  | [], _ => []
  | _ :: r, 0 => x :: r
  | y :: r, S i' => y :: set_nth i' x r
  end.

Fixpoint somes {A} (l : list (option A)) : list A :=
  match l with
  | [] => []
  | Some x :: r => x :: somes r
  | None :: r => somes r
  end.

(** [Mountable::mount(parent, Some(anchor))] of an item: each node, in order *)
Definition mount_item (it : item) (anchor : option node) (dom : list node) : list node :=
  fold_left (fun d n => insert_before n anchor d) (it_nodes it) dom.
Definition unmount_item (it : item) (dom : list node) : list node :=
  fold_left (fun d n => remove_node n d) (it_nodes it) dom.

(** [sib.insert_before_this_or_marker(parent, child, Some(marker))]: before the first
    node of [sib] that is mounted, else before the marker *)
Definition insert_before_this_or_marker (sib child : item) (marker : node) (dom : list node)
  : list node :=
  match find (fun n => memN n dom) (it_nodes sib) with
  | Some a => mount_item child (Some a) dom
  | None => mount_item child (Some marker) dom
  end.

(** [children.get_next_closest_mounted_sibling(start)] = first [Some] of [children[start..]] *)
Definition next_mounted (children : list (option item)) (start : nat) : option item :=
  hd_error (somes (skipn start children)).

(** mount [it] where [apply_diff] mounts the item destined for index [at_] *)
Definition mount_at (children : list (option item)) (at_ : nat) (it : item) (marker : node)
                    (dom : list node) : list node :=
  match next_mounted children at_ with
  | Some sib => insert_before_this_or_marker sib it marker dom
  | None => mount_item it (Some marker) dom
  end.

Definition step_remove (w : work) (at_ : nat) : work :=
  if w_panic w then w else
  match nth_error (w_children w) at_ with
  | Some (Some it) =>
      {| w_children := set_nth at_ None (w_children w);
         w_dom := unmount_item it (w_dom w);
         w_log := w_log w ++ [EvUnmount (it_key it) (it_gen it)];
         w_next := w_next w; w_gen := w_gen w; w_panic := false |}
  | _ => panic w
  end.

(** [move_cmds.iter().map(|m| children[m.from].take())] *)
Definition step_take (acc : work * list (option item)) (m : mv) : work * list (option item) :=
  let '(w, mc) := acc in
  if w_panic w then acc else
  match nth_error (w_children w) (m_from m) with
  | Some o =>
      ({| w_children := set_nth (m_from m) None (w_children w); w_dom := w_dom w;
          w_log := w_log w; w_next := w_next w; w_gen := w_gen w; w_panic := false |},
       mc ++ [o])
  | None => (panic w, mc)
  end.

(** moves that do not touch the DOM: [children[to] = moved_children[i].take().inspect(set_index(to))] *)
Definition step_nondom (mc : list (option item)) (w : work) (im : nat * mv) : work :=
  let '(i, m) := im in
  if w_panic w || m_dom m then w else
  match nth_error mc i with
  | Some o =>
      if m_to m <? length (w_children w) then
        {| w_children := set_nth (m_to m) o (w_children w); w_dom := w_dom w;
           w_log := w_log w ++ match o with
                               | Some it => [EvSetIndex (it_key it) (it_gen it) (m_to m)]
                               | None => []
                               end;
           w_next := w_next w; w_gen := w_gen w; w_panic := false |}
      else panic w
  | None => panic w
  end.

(** moves in the DOM *)
Definition step_dom (marker : node) (mc : list (option item)) (w : work) (im : nat * mv) : work :=
  let '(i, m) := im in
  if w_panic w || negb (m_dom m) then w else
  match nth_error mc i with
  | Some (Some it) =>
      if m_to m <? length (w_children w) then
        {| w_children := set_nth (m_to m) (Some it) (w_children w);
           w_dom := mount_at (w_children w) (m_to m) it marker (w_dom w);
           w_log := w_log w ++ [EvMount (it_key it) (it_gen it);
                                EvSetIndex (it_key it) (it_gen it) (m_to m)];
           w_next := w_next w; w_gen := w_gen w; w_panic := false |}
      else panic w
  | _ => panic w
  end.

(** what building the item view of a key allocates: [b k next] = (the top-level nodes of the
    new item state, in order; the next free id).  The item views are arbitrary views, the
    keyed list only sees the nodes their states own. *)
Definition builder := N -> N -> list node * N.
(** every item owns [m] consecutive nodes (the views of harness mode c11) *)
Definition fixed_bld (m : nat) : builder :=
  fun _ nx => (map (fun j => (nx + N.of_nat j)%N) (seq 0 m), (nx + N.of_nat m)%N).

(** the item of key [k] owns [m k] consecutive nodes (harness mode 20: rows of any shape — nested
    keyed lists, Vec, Option, Either, tuples … —, of which the keyed list only sees the top-level
    nodes their states own, in mount order) *)
Definition var_bld (m : N -> nat) : builder :=
  fun k nx => (map (fun j => (nx + N.of_nat j)%N) (seq 0 (m k)), (nx + N.of_nat (m k))%N).

(** [view_fn(at, item).1.build()] *)
Definition build_item (b : builder) (k : N) (w : work) : item :=
  {| it_key := k; it_gen := w_gen w; it_nodes := fst (b k (w_next w)) |}.

Definition step_add (b : builder) (marker : node) (items : list N) (w : work) (a : addop) : work :=
  if w_panic w then w else
  match nth_error items (a_at a) with
  | Some k =>
      let it := build_item b k w in
      if a_at a <? length (w_children w) then
        {| w_children := set_nth (a_at a) (Some it) (w_children w);
           w_dom := match a_mode a with
                    | Normal => mount_at (w_children w) (a_at a) it marker (w_dom w)
                    | Append => mount_item it (Some marker) (w_dom w)
                    end;
           w_log := w_log w ++ [EvBuild k (w_gen w) (a_at a); EvMount k (w_gen w)];
           w_next := snd (b k (w_next w)); w_gen := S (w_gen w); w_panic := false |}
      else panic w
  | None => panic w
  end.

Definition step_clear (w : work) (o : option item) : work :=
  match o with
  | Some it =>
      {| w_children := w_children w; w_dom := unmount_item it (w_dom w);
         w_log := w_log w ++ [EvUnmount (it_key it) (it_gen it)];
         w_next := w_next w; w_gen := w_gen w; w_panic := w_panic w |}
  | None => w
  end.

Fixpoint enumerate_from {A} (i : nat) (l : list A) : list (nat * A) :=
  match l with [] => [] | x :: r => (i, x) :: enumerate_from (S i) r end.

Definition with_children (w : work) (c : list (option item)) : work :=
  {| w_children := c; w_dom := w_dom w; w_log := w_log w; w_next := w_next w;
     w_gen := w_gen w; w_panic := w_panic w |}.

(** [apply_diff(Some(parent), marker, diff, children, view_fn, items)] *)
Definition apply_diff (b : builder) (marker : node) (d : diff_t) (items : list N) (w : work) : work :=
  let w := if d_clear d
           then with_children (fold_left step_clear (w_children w) w) []
           else w in
  if d_clear d && match d_added d with [] => true | _ => false end then w else
  let w := fold_left step_remove (d_removed d) w in
  let '(moves, adds) := unpack_moves d in
  let '(w, mc) := fold_left step_take moves (w, []) in
  let w := with_children w (w_children w ++ repeat None (length (d_added d))) in
  let w := fold_left (step_nondom mc) (enumerate_from 0 moves) w in
  let w := fold_left (step_dom marker mc) (enumerate_from 0 moves) w in
  let w := fold_left (step_add b marker items) adds w in
  with_children w (map Some (somes (w_children w))).

(* ---------------------------------------------------- Keyed / KeyedState *)

(** [KeyedState] mounted in a parent whose children are [ks_dom] *)
Record kstate := {
  ks_bld : builder;           (* what the item views allocate *)
  ks_dom : list node;         (* children of the parent element *)
  ks_marker : node;           (* KeyedState.marker *)
  ks_keys : list N;           (* hashed_items *)
  ks_items : list item;       (* rendered_items (all [Some] between updates) *)
  ks_next : N;
  ks_gen : nat }.

Definition step_build (b : builder) (acc : work) (ik : nat * N) : work :=
  let '(i, k) := ik in
  let it := build_item b k acc in
  {| w_children := w_children acc ++ [Some it]; w_dom := w_dom acc;
     w_log := w_log acc ++ [EvBuild k (w_gen acc) i];
     w_next := snd (b k (w_next acc)); w_gen := S (w_gen acc); w_panic := w_panic acc |}.

Definition step_mount (anchor : option node) (w : work) (it : item) : work :=
  {| w_children := w_children w; w_dom := mount_item it anchor (w_dom w);
     w_log := w_log w ++ [EvMount (it_key it) (it_gen it)];
     w_next := w_next w; w_gen := w_gen w; w_panic := w_panic w |}.

(** [keyed(keys, ..).build()] followed by [state.mount(parent, anchor)] in a parent whose
    children are [dom]; node ids are allocated from [next] *)
Definition build_mount (b : builder) (dom : list node) (anchor : option node) (next : N) (keys : list N)
  : kstate * list event :=
  let w0 := {| w_children := []; w_dom := dom; w_log := []; w_next := next; w_gen := 0;
               w_panic := false |} in
  let w1 := fold_left (step_build b) (enumerate_from 0 keys) w0 in
  let marker := w_next w1 in
  let w2 := fold_left (step_mount anchor) (somes (w_children w1)) w1 in
  ({| ks_bld := b; ks_dom := insert_before marker anchor (w_dom w2); ks_marker := marker;
      ks_keys := keys; ks_items := somes (w_children w2);
      ks_next := (marker + 1)%N; ks_gen := w_gen w2 |}, w_log w2).

(** [keyed(new_keys, ..).rebuild(&mut state)]; the [bool] is "panicked" *)
Definition rebuild (st : kstate) (new_keys : list N) : kstate * list event * bool :=
  let w0 := {| w_children := map Some (ks_items st); w_dom := ks_dom st; w_log := [];
               w_next := ks_next st; w_gen := ks_gen st; w_panic := false |} in
  let w := apply_diff (ks_bld st) (ks_marker st) (diff (ks_keys st) new_keys) new_keys w0 in
  ({| ks_bld := ks_bld st; ks_dom := w_dom w; ks_marker := ks_marker st; ks_keys := new_keys;
      ks_items := somes (w_children w); ks_next := w_next w; ks_gen := w_gen w |},
   w_log w, w_panic w).

(** [state.unmount()] *)
Definition unmount (st : kstate) : list node :=
  remove_node (ks_marker st) (fold_left (fun d it => unmount_item it d) (ks_items st) (ks_dom st)).
