(** Executable entry point of the C04 model for the correspondence check.

    case  (view sigs steps)
      view  ::= (0 n) static text | (1 lbl expr) dynamic text | (2 props kids) element
              | (3 lbl memo cond view view) conditional
      props ::= ((kind lbl expr) ..)   kind 0 title=, 1 class=, 2 class:on=, 3 style:width=
      expr  ::= (0 i) signal | (1 n) constant | (2 a b) sum
      steps ::= ((writes picks) ..)    writes ((i x) ..), picks (k ..): after the writes the executor
                polls the (k mod len)-th ready task until none is ready (0 once the picks run out)
    observation  ((log snapshot 1) ..)  one entry for the mount and one per step:
      log      = labels of the closures invoked, in order
      snapshot = node, node ::= (0 n st) | (1 (title class on width) st (kids..)); absent property -1;
                 st = 2 new node, 1 same node mutated since the previous snapshot, 0 same node untouched
      the trailing 1 = "equals a fresh mount with the current values" (the property; the
      implementation reports what it measured). *)
From Coq Require Import List ZArith NArith Bool Arith.
From LV Require Import Base.Sexp Dom.ReactiveView.
Import ListNotations.

Fixpoint dec_expr (s : sexp) : expr :=
  match s with
  | Num _ => EConst 0
  | Lst l =>
      match l with
      | Num 0%Z :: i :: _ => ESig (as_nat i)
      | Num 1%Z :: n :: _ => EConst (as_N n)
      | Num 2%Z :: a :: b :: _ => EAdd (dec_expr a) (dec_expr b)
      | _ => EConst 0
      end
  end.

Definition dec_kind (s : sexp) : pkind :=
  match as_Z s with 0%Z => PAttr | 1%Z => PClass | 2%Z => PToggle | _ => PStyle end.
Definition dec_props (s : sexp) : list (pkind * nat * expr) :=
  map (fun p => (dec_kind (nth_s 0 p), as_nat (nth_s 1 p), dec_expr (nth_s 2 p))) (as_list s).

Fixpoint dec_view (s : sexp) : rview :=
  match s with
  | Num _ => RStatic 0
  | Lst l =>
      match l with
      | Num 0%Z :: n :: _ => RStatic (as_N n)
      | Num 1%Z :: lb :: e :: _ => RText (as_nat lb) (dec_expr e)
      | Num 2%Z :: ps :: Lst ks :: _ =>
          RElem (dec_props ps)
                ((fix go (l : list sexp) : list rview :=
                    match l with [] => [] | x :: r => dec_view x :: go r end) ks)
      | Num 3%Z :: lb :: m :: c :: a :: b :: _ =>
          RIf (as_nat lb) (as_bool m) (dec_expr c) (dec_view a) (dec_view b)
      | Num 4%Z :: lb :: es :: ea :: _ => RAsync (as_nat lb) (dec_expr es) (dec_expr ea)
      | _ => RStatic 0
      end
  end.

Fixpoint run_all (fuel : nat) (picks : list nat) (s : sys) : sys :=
  match fuel with
  | O => s
  | S fuel =>
      match ready (ev s) with
      | [] => s
      | _ => run_all fuel (tl picks) (step s (EPoll (hd O picks)))
      end
  end.

Definition clear_log (s : sys) : sys :=
  let v := ev s in
  {| root := root s;
     ev := {| sigs := sigs v; neid := neid v; nid := nid v; ready := ready v; log := []; nfut := nfut v; opened := opened v |} |}.

Definition status (prev : list (nat * nat)) (id m : nat) : Z :=
  match find (fun p => Nat.eqb (fst p) id) prev with
  | None => 2%Z
  | Some p => if Nat.eqb (snd p) m then 0%Z else 1%Z
  end.

Definition prop_obs (ps : list pinst) : sexp :=
  let get (k : pkind) (dflt : Z) : sexp :=
    match find (fun '(PI k' _ _ _) =>
                  match k, k' with
                  | PAttr, PAttr | PClass, PClass | PToggle, PToggle | PStyle, PStyle => true
                  | _, _ => false
                  end) ps with
    | Some (PI _ _ _ x) => sN x
    | None => Num dflt
    end in
  Lst [get PAttr (-1)%Z; get PClass (-1)%Z; get PToggle 0%Z; get PStyle (-1)%Z].

Fixpoint snap (prev : list (nat * nat)) (i : inst) : sexp :=
  match i with
  | IStatic id m n => Lst [Num 0%Z; sN n; Num (status prev id m)]
  | IText _ _ id m x => Lst [Num 0%Z; sN x; Num (status prev id m)]
  | IElem id m ps ks =>
      Lst [Num 1%Z; prop_obs ps; Num (status prev id m);
           Lst ((fix go (l : list inst) : list sexp :=
                   match l with [] => [] | k :: l => snap prev k :: go l end) ks)]
  | IIf _ _ _ _ _ _ ch => snap prev ch
  | IAsync _ _ _ id m sh _ _ =>
      match sh with Some x => Lst [Num 0%Z; sN x; Num (status prev id m)] | None => Lst [] end
  end.

Definition dec_writes (s : sexp) : list event :=
  map (fun w => EWrite (as_nat (nth_s 0 w)) (as_N (nth_s 1 w))) (as_list s).

(** extended cases: the nodes on screen without identity / mutation status; an async leaf that has
    never completed shows nothing *)
Fixpoint plain_nodes (i : inst) : list sexp :=
  match i with
  | IStatic _ _ n => [Lst [Num 0%Z; sN n; Num 0%Z]]
  | IText _ _ _ _ x => [Lst [Num 0%Z; sN x; Num 0%Z]]
  | IElem _ _ ps ks =>
      [Lst [Num 1%Z; prop_obs ps; Num 0%Z;
            Lst ((fix go (l : list inst) : list sexp :=
                    match l with [] => [] | k :: l => plain_nodes k ++ go l end) ks)]]
  | IIf _ _ _ _ _ _ ch => plain_nodes ch
  | IAsync _ _ _ _ _ sh _ _ => match sh with Some x => [Lst [Num 0%Z; sN x; Num 0%Z]] | None => [] end
  end.

(** the future the mounted async leaf labelled l is waiting for *)
Fixpoint current_future (l : nat) (i : inst) : option nat :=
  match i with
  | IStatic _ _ _ | IText _ _ _ _ _ => None
  | IElem _ _ _ ks =>
      (fix go (ks : list inst) : option nat :=
         match ks with
         | [] => None
         | k :: ks => match current_future l k with Some x => Some x | None => go ks end
         end) ks
  | IIf _ _ _ _ _ _ ch => current_future l ch
  | IAsync f _ _ _ _ _ pe _ =>
      if Nat.eqb (lbl f) l then match pe with Some (k, _) => Some k | None => None end else None
  end.
Definition index_of (k : nat) (o : list (nat * nat)) : nat :=
  length (filter (fun x => Nat.ltb (snd x) k) o).
(** (l 0): the future of the latest run of closure l completes; (l 1): the outstanding futures of
    its earlier runs complete (all superseded: the model has nothing to do but forget them) *)
Definition complete_at (c : sexp) (s : sys) : sys :=
  let l := as_nat (nth_s 0 c) in
  let o := filter (fun x => Nat.eqb (fst x) l) (opened (ev s)) in
  let cur := current_future l (root s) in
  if as_bool (nth_s 1 c) then
    fold_left (fun s x =>
                 match cur with
                 | Some k => if Nat.eqb (snd x) k then s
                             else step s (EComplete l (index_of (snd x)
                                    (filter (fun y => Nat.eqb (fst y) l) (opened (ev s)))))
                 | None => step s (EComplete l (index_of (snd x)
                                    (filter (fun y => Nat.eqb (fst y) l) (opened (ev s)))))
                 end) o s
  else match cur with
       | Some k => run_all (100 * 100)%nat [] (step s (EComplete l (index_of k o)))
       | None => s
       end.
(** the oldest / newest outstanding future of all *)
Definition complete_any (newest : bool) (s : sys) : sys :=
  match (if newest then rev (opened (ev s)) else opened (ev s)) with
  | [] => s
  | (l, k) :: _ =>
      let o := filter (fun x => Nat.eqb (fst x) l) (opened (ev s)) in
      let j := length (filter (fun x => Nat.ltb (snd x) k) o) in
      run_all (100 * 100)%nat [] (step s (EComplete l j))
  end.

Fixpoint drain (fuel : nat) (newest : bool) (s : sys) : sys :=
  match fuel with
  | O => s
  | S fuel =>
      match opened (ev s) with
      | [] => s
      | _ => drain fuel newest (complete_any newest s)
      end
  end.

Fixpoint run_ext_steps (steps : list sexp) (s : sys) : list sexp * sys :=
  match steps with
  | [] => ([], s)
  | st :: rest =>
      let s1 := run_events s (dec_writes (nth_s 0 st)) in
      let s2 := run_all (100 * 100)%nat (as_nats (nth_s 1 st)) s1 in
      let s3 := fold_left (fun s c => complete_at c s) (as_list (nth_s 2 st)) s2 in
      let '(obs, s4) := run_ext_steps rest s3 in
      (Lst (plain_nodes (root s3)) :: obs, s4)
  end.

Definition observe (prev : list (nat * nat)) (s : sys) : sexp :=
  Lst [snats (rev (log (ev s))); snap prev (root s); Num 1%Z].


Fixpoint run_steps (steps : list sexp) (s : sys) (prev : list (nat * nat)) : list sexp :=
  match steps with
  | [] => []
  | st :: rest =>
      let s1 := run_events (clear_log s) (dec_writes (nth_s 0 st)) in
      let s2 := run_all (100 * 100)%nat (as_nats (nth_s 1 st)) s1 in
      observe prev s2 :: run_steps rest s2 (nodes (root s2))
  end.

(** extended case (view sigs steps (drain) (1)) with steps (writes picks completions): observation =
    per idle point the nodes on screen, plus one entry after all outstanding futures completed *)
Definition run_ext (c : sexp) : sexp :=
  let v := dec_view (nth_s 0 c) in
  let s0 := run_all (100 * 100)%nat [] (mount v (map as_N (as_list (nth_s 1 c)))) in
  let '(obs, s1) := run_ext_steps (as_list (nth_s 2 c)) s0 in
  let s2 := drain 200 (as_bool (nth_s 0 (nth_s 3 c))) s1 in
  Lst (Lst (plain_nodes (root s0)) :: obs ++ [Lst (plain_nodes (root s2))]).

Definition run_C04 (c : sexp) : sexp :=
  match as_list c with
  | _ :: _ :: _ :: _ :: _ :: _ => run_ext c
  | _ =>
  let v := dec_view (nth_s 0 c) in
  let s0 := run_all (100 * 100)%nat [] (mount v (map as_N (as_list (nth_s 1 c)))) in
  Lst (observe [] s0 :: run_steps (as_list (nth_s 2 c)) s0 (nodes (root s0)))
  end.
