(** C11: [apply_diff] (keyed.rs, repaired) turns the rendered list into exactly the new
    list of keys — for all duplicate-free key sequences, item sizes and sibling contexts. *)
From Coq Require Import List NArith ZArith Bool Arith Lia Sorted Permutation.
From LV Require Import Dom.Dom Dom.DomProofs Dom.Keyed Dom.KeyedLemmas Dom.KeyedDiffProofs Dom.KeyedRender.
Import ListNotations.

(* ------------------------------------------------------------------ well-formed states *)

Definition find_item (k : N) (its : list item) : option item :=
  find (fun it => N.eqb (it_key it) k) its.
Definition nodes_in (its : list item) (k : N) : list node :=
  match find_item k its with Some it => it_nodes it | None => [] end.

Record wf_items (pre post : list node) (mk : node) (next : N) (its : list item) : Prop := {
  wf_keys : NoDup (map it_key its);
  wf_dom : NoDup (pre ++ flat_map it_nodes its ++ mk :: post);
  wf_nonempty : forall it, In it its -> it_nodes it <> [];
  wf_fresh : forall n, In n (pre ++ flat_map it_nodes its ++ mk :: post) -> (n < next)%N }.

Lemma find_item_In : forall its it, NoDup (map it_key its) -> In it its ->
  find_item (it_key it) its = Some it.
Proof.
  induction its as [|x its IH]; intros it Hnd Hin; [contradiction|].
  unfold find_item. cbn [find]. simpl in Hnd. inversion Hnd; subst.
  destruct Hin as [E|Hin].
  - subst. rewrite N.eqb_refl. reflexivity.
  - destruct (N.eqb_spec (it_key x) (it_key it)) as [E|E].
    + exfalso. apply H1. rewrite E. apply in_map. exact Hin.
    + apply IH; auto.
Qed.

Lemma find_item_Some : forall its k it, find_item k its = Some it -> In it its /\ it_key it = k.
Proof.
  intros its k it H. unfold find_item in H. apply find_some in H. destruct H as [H1 H2].
  apply N.eqb_eq in H2. auto.
Qed.

Lemma find_item_None : forall its k, find_item k its = None -> ~ In k (map it_key its).
Proof.
  intros its k H Hin. apply in_map_iff in Hin. destruct Hin as [it [E Hit]].
  unfold find_item in H. eapply find_none in H; eauto. simpl in H. rewrite E, N.eqb_refl in H.
  discriminate.
Qed.

Lemma nodes_in_item : forall its it, NoDup (map it_key its) -> In it its ->
  nodes_in its (it_key it) = it_nodes it.
Proof. intros. unfold nodes_in. rewrite find_item_In; auto. Qed.

Lemma flat_nodes_in : forall its l, NoDup (map it_key its) -> (forall it, In it l -> In it its) ->
  flat_map (nodes_in its) (map it_key l) = flat_map it_nodes l.
Proof.
  intros its l Hnd. induction l as [|x l IH]; intros Hl; [reflexivity|].
  cbn [map flat_map]. rewrite nodes_in_item; auto.
  - rewrite IH; auto. intros; apply Hl; right; auto.
  - apply Hl. left. auto.
Qed.

Lemma NoDup_app_l : forall {A} (a b : list A), NoDup (a ++ b) -> NoDup a.
Proof.
  induction a as [|x a IH]; intros b H; [constructor|]. simpl in H. inversion H; subst.
  constructor; eauto. intro Hx. apply H2. apply in_or_app. auto.
Qed.

Lemma NoDup_app_r : forall {A} (a b : list A), NoDup (a ++ b) -> NoDup b.
Proof. induction a as [|x a IH]; intros b H; auto. simpl in H. inversion H; subst. eauto. Qed.

Lemma NoDup_app_disj : forall {A} (a b : list A) x, NoDup (a ++ b) -> In x a -> ~ In x b.
Proof.
  induction a as [|y a IH]; intros b x H Hx; [contradiction|]. simpl in H. inversion H; subst.
  destruct Hx as [E|Hx].
  - subst. intro Hb. apply H2. apply in_or_app. auto.
  - eapply IH; eauto.
Qed.

Lemma NoDup_flat_block : forall {A B} (f : A -> list B) l k, NoDup (flat_map f l) -> In k l -> NoDup (f k).
Proof.
  induction l as [|x l IH]; intros k H Hk; [contradiction|]. cbn [flat_map] in H.
  destruct Hk as [E|Hk].
  - subst. eapply NoDup_app_l; eauto.
  - apply IH; auto. eapply NoDup_app_r; eauto.
Qed.

Lemma NoDup_flat_disj : forall {A B} (f : A -> list B) l k k' n,
  NoDup (flat_map f l) -> NoDup l -> In k l -> In k' l -> k <> k' -> In n (f k) -> ~ In n (f k').
Proof.
  induction l as [|x l IH]; intros k k' n H Hl Hk Hk' Hne Hn; [contradiction|].
  cbn [flat_map] in H. inversion Hl; subst.
  destruct Hk as [E|Hk]; destruct Hk' as [E'|Hk']; subst.
  - congruence.
  - intro Hc. eapply NoDup_app_disj; eauto. apply in_flat_map. eauto.
  - intro Hc. eapply NoDup_app_disj; [exact H | exact Hc |]. apply in_flat_map. eauto.
  - apply (IH k k' n); auto. eapply NoDup_app_r; eauto.
Qed.

Lemma good_of_wf : forall pre post mk next its,
  wf_items pre post mk next its -> good (nodes_in its) pre post mk (map it_key its).
Proof.
  intros pre post mk next its [Hk Hd Hne Hfr].
  assert (NoDup (flat_map it_nodes its)) as Hflat.
  { apply NoDup_app_r in Hd. apply NoDup_app_l in Hd. exact Hd. }
  assert (forall k, In k (map it_key its) -> exists it, In it its /\ it_key it = k /\ nodes_in its k = it_nodes it) as Hit.
  { intros k Hin. apply in_map_iff in Hin. destruct Hin as [it [E Hin]]. exists it.
    repeat split; auto. subst. apply nodes_in_item; auto. }
  constructor.
  - intros k Hin. destruct (Hit k Hin) as [it [Hi [E En]]]. rewrite En.
    eapply NoDup_flat_block; eauto.
  - intros k k' n Hin Hin' Hne' Hn.
    destruct (Hit k Hin) as [it [Hi [E En]]]. destruct (Hit k' Hin') as [it' [Hi' [E' En']]].
    rewrite En in Hn. rewrite En'.
    assert (NoDup its) as Hnd by (eapply NoDup_map_inv; eauto).
    eapply (NoDup_flat_disj it_nodes its it it'); eauto. congruence.
  - intros k n Hin Hn Hc. destruct (Hit k Hin) as [it [Hi [E En]]]. rewrite En in Hn.
    assert (In n (flat_map it_nodes its)) as Hf by (apply in_flat_map; eauto).
    apply in_app_or in Hc. destruct Hc as [Hc|Hc].
    + eapply NoDup_app_disj; [exact Hd | exact Hc |]. apply in_or_app. left. auto.
    + apply NoDup_app_r in Hd. eapply NoDup_app_disj; [exact Hd | exact Hf | exact Hc].
  - clear - Hd. induction pre as [|p pre IH]; simpl in *.
    + eapply NoDup_app_r; eauto.
    + inversion Hd; subst. constructor; auto. intro Hc. apply H1.
      apply in_app_or in Hc. apply in_or_app. destruct Hc; auto. right. apply in_or_app. auto.
Qed.

(* -------------------------------------------------- placing one item (moves in the DOM, additions) *)

Lemma NoDup_insert_mid : forall {A} (a b : list A) x, NoDup (a ++ b) -> ~ In x (a ++ b) -> NoDup (a ++ x :: b).
Proof.
  intros A a b x H Hx. eapply Permutation_NoDup; [apply Permutation_middle|]. constructor; auto.
Qed.

Lemma NoDup_remove_node : forall x l, NoDup l -> NoDup (remove_node x l).
Proof. intros. unfold remove_node. apply NoDup_filter. auto. Qed.

Section Apply.
Variables pre post : list node.
Variable mk : node.
Variable to : list N.

Record inv (nodes_of : N -> list node) (U seq : list N) (c : list (option item)) (dom : list node)
  : Prop := {
  i_dom : dom = render nodes_of pre post mk seq;
  i_good : good nodes_of pre post mk U;
  i_seqU : forall k, In k seq -> In k U;
  i_seq_nd : NoDup seq;
  i_items : forall it, In it (somes c) ->
            In (it_key it) U /\ nodes_of (it_key it) = it_nodes it /\ it_nodes it <> [];
  i_aligned : forall j it, nth_error c j = Some (Some it) -> nth_error to j = Some (it_key it);
  i_order : filter (fun k => memN k (map it_key (somes c))) seq = map it_key (somes c) }.

Lemma place_step : forall nodes_of U seq c dom t x,
  inv nodes_of U seq c dom -> nth_error c t = Some None ->
  In (it_key x) U -> nodes_of (it_key x) = it_nodes x -> it_nodes x <> [] ->
  nth_error to t = Some (it_key x) -> ~ In (it_key x) (map it_key (somes c)) ->
  exists seq', inv nodes_of U seq' (set_nth t (Some x) c) (mount_at c t x mk dom) /\
               (forall k, In k seq' <-> In k seq \/ k = it_key x).
Proof.
  intros nodes_of U seq c dom t x [Hdom Hgood HseqU Hnd Hitems Hal Hord] Hnone HxU Hxn Hxne Hto Hxp.
  assert (t < length c) as Hlt by (apply nth_error_Some; congruence).
  pose proof (somes_split_None _ _ Hnone) as Hsplit.
  pose proof (somes_set_nth t x c Hlt) as Hset.
  assert (forall it, In it (somes (set_nth t (Some x) c)) -> it = x \/ In it (somes c)) as Hin'.
  { intros it Hi. rewrite Hset in Hi. rewrite Hsplit. apply in_app_or in Hi.
    destruct Hi as [Hi|[Hi|Hi]]; auto; right; apply in_or_app; auto. }
  assert (forall it, In it (somes (set_nth t (Some x) c)) ->
            In (it_key it) U /\ nodes_of (it_key it) = it_nodes it /\ it_nodes it <> []) as Hitems'.
  { intros it Hi. destruct (Hin' it Hi) as [E|Hi']; [subst; auto | auto]. }
  assert (forall j it, nth_error (set_nth t (Some x) c) j = Some (Some it) ->
            nth_error to j = Some (it_key it)) as Hal'.
  { intros j it Hj. destruct (Nat.eq_dec t j) as [E|E].
    - subst. rewrite nth_set_nth_eq in Hj; auto. inversion Hj. subst. auto.
    - rewrite nth_set_nth_neq in Hj; auto. }
  unfold mount_at, next_mounted. rewrite (skipn_nth_None _ _ Hnone).
  rewrite Hsplit in Hord, Hxp. rewrite map_app in Hord, Hxp.
  destruct (somes (skipn (S t) c)) as [|sib rest] eqn:Esk; cbn [hd_error].
  - (* nothing mounted after index t: before the marker *)
    cbn [map] in Hord, Hxp. rewrite app_nil_r in Hord, Hxp.
    exists (remove_node (it_key x) seq ++ [it_key x]). split.
    + constructor; auto.
      * unfold mount_item. rewrite <- Hxn, Hdom. eapply render_mount_marker; eauto.
      * intros k Hk. apply in_app_or in Hk. destruct Hk as [Hk|[Hk|[]]]; [|subst; auto].
        apply remove_node_In in Hk. apply HseqU. tauto.
      * replace (remove_node (it_key x) seq ++ [it_key x])
          with (remove_node (it_key x) seq ++ it_key x :: []) by reflexivity.
        apply NoDup_insert_mid; rewrite app_nil_r.
        -- apply NoDup_remove_node. auto.
        -- rewrite remove_node_In. tauto.
      * rewrite Hset. rewrite map_app. cbn [map]. apply place_end; auto.
    + intros k. rewrite in_app_iff, remove_node_In. simpl.
      destruct (N.eq_dec k (it_key x)); [subst|]; intuition congruence.
  - (* before the next mounted item *)
    assert (In sib (somes c)) as Hsib.
    { rewrite Hsplit. apply in_or_app. right. left. auto. }
    destruct (Hitems sib Hsib) as [HsU [Hsn Hsne]].
    destruct (it_nodes sib) as [|a ys] eqn:Esn; [congruence|].
    cbn [map] in Hord, Hxp.
    set (y := it_key sib) in *.
    assert (In y seq) as Hyseq.
    { assert (In y (filter (fun k => memN k (map it_key (somes (firstn t c)) ++ y :: map it_key rest)) seq)) as Hy.
      { rewrite Hord. apply in_or_app. right. left. auto. }
      apply filter_In in Hy. tauto. }
    destruct (in_split _ _ Hyseq) as [S1 [S2 Eseq]].
    assert (it_key x <> y) as Hxy.
    { intro E. apply Hxp. rewrite E. apply in_or_app. right. left. auto. }
    assert (In a dom) as Hadom.
    { rewrite Hdom. unfold render. apply in_or_app. right. apply in_or_app. left.
      apply in_flat_map. exists y. split; auto. rewrite Hsn. left. auto. }
    unfold insert_before_this_or_marker. rewrite Esn. cbn [find].
    assert (memN a dom = true) as -> by (apply memN_In; auto).
    exists (remove_node (it_key x) S1 ++ it_key x :: y :: remove_node (it_key x) S2). split.
    + constructor; auto.
      * unfold mount_item. rewrite <- Hxn, Hdom, Eseq.
        eapply render_mount_before; eauto.
        -- intros k Hk. apply HseqU. rewrite Eseq. auto.
        -- rewrite <- Eseq. auto.
      * intros k Hk. apply in_app_or in Hk. destruct Hk as [Hk|[Hk|[Hk|Hk]]].
        -- apply remove_node_In in Hk. apply HseqU. rewrite Eseq. apply in_or_app. tauto.
        -- subst. auto.
        -- subst. auto.
        -- apply remove_node_In in Hk. apply HseqU. rewrite Eseq. apply in_or_app. right. right. tauto.
      * apply NoDup_insert_mid.
        -- pose proof (NoDup_remove_node (it_key x) _ Hnd) as Hrm.
           rewrite Eseq, remove_node_app in Hrm.
           assert (remove_node (it_key x) (y :: S2) = y :: remove_node (it_key x) S2) as Ey.
           { unfold remove_node. cbn [filter].
             destruct (N.eqb_spec (it_key x) y); [contradiction|reflexivity]. }
           rewrite Ey in Hrm. exact Hrm.
        -- intro Hc. apply in_app_or in Hc. destruct Hc as [Hc|[Hc|Hc]].
           ++ apply remove_node_In in Hc. tauto.
           ++ congruence.
           ++ apply remove_node_In in Hc. tauto.
      * rewrite Hset. rewrite map_app. cbn [map]. fold y.
        rewrite Eseq in Hord, Hnd. apply place_before; auto.
    + intros k. rewrite Eseq, !in_app_iff. cbn [In].
      rewrite !remove_node_In. destruct (N.eq_dec k (it_key x)); [subst|]; intuition congruence.
Qed.
