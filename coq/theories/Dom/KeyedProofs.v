(** C11: [apply_diff] (keyed.rs, repaired) turns the rendered list into exactly the new
    list of keys — for all duplicate-free key sequences, item sizes and sibling contexts. *)
From Coq Require Import List NArith ZArith Bool Arith Lia Sorted Permutation.
From LV Require Import Dom.Dom Dom.DomProofs Dom.Keyed Dom.KeyedLemmas Dom.KeyedDiffProofs Dom.KeyedRender.
Import ListNotations.

(* ------------------------------------------------------------------ well-formed states *)

Definition find_item (k : N) (its : list item) : option item :=
  find (fun it => N.eqb (it_key it) k) its.
Definition nodes_in (its : list item) (k : N) : list node :=
  match find_item k its with Some it => it_nodes it | None => [] end.

Record wf_items (pre post : list node) (mk : node) (next : N) (its : list item) : Prop := {
  wf_keys : NoDup (map it_key its);
  wf_dom : NoDup (pre ++ flat_map it_nodes its ++ mk :: post);
  wf_nonempty : forall it, In it its -> it_nodes it <> [];
  wf_fresh : forall n, In n (pre ++ flat_map it_nodes its ++ mk :: post) -> (n < next)%N }.

Lemma find_item_In : forall its it, NoDup (map it_key its) -> In it its ->
  find_item (it_key it) its = Some it.
Proof.
  induction its as [|x its IH]; intros it Hnd Hin; [contradiction|].
  unfold find_item. cbn [find]. simpl in Hnd. inversion Hnd; subst.
  destruct Hin as [E|Hin].
  - subst. rewrite N.eqb_refl. reflexivity.
  - destruct (N.eqb_spec (it_key x) (it_key it)) as [E|E].
    + exfalso. apply H1. rewrite E. apply in_map. exact Hin.
    + apply IH; auto.
Qed.

Lemma find_item_Some : forall its k it, find_item k its = Some it -> In it its /\ it_key it = k.
Proof.
  intros its k it H. unfold find_item in H. apply find_some in H. destruct H as [H1 H2].
  apply N.eqb_eq in H2. auto.
Qed.

Lemma find_item_None : forall its k, find_item k its = None -> ~ In k (map it_key its).
Proof.
  intros its k H Hin. apply in_map_iff in Hin. destruct Hin as [it [E Hit]].
  unfold find_item in H. eapply find_none in H; eauto. simpl in H. rewrite E, N.eqb_refl in H.
  discriminate.
Qed.

Lemma nodes_in_item : forall its it, NoDup (map it_key its) -> In it its ->
  nodes_in its (it_key it) = it_nodes it.
Proof. intros. unfold nodes_in. rewrite find_item_In; auto. Qed.

Lemma flat_nodes_in : forall its l, NoDup (map it_key its) -> (forall it, In it l -> In it its) ->
  flat_map (nodes_in its) (map it_key l) = flat_map it_nodes l.
Proof.
  intros its l Hnd. induction l as [|x l IH]; intros Hl; [reflexivity|].
  cbn [map flat_map]. rewrite nodes_in_item; auto.
  - rewrite IH; auto. intros; apply Hl; right; auto.
  - apply Hl. left. auto.
Qed.

Lemma NoDup_app_l : forall {A} (a b : list A), NoDup (a ++ b) -> NoDup a.
Proof.
  induction a as [|x a IH]; intros b H; [constructor|]. simpl in H. inversion H; subst.
  constructor; eauto. intro Hx. apply H2. apply in_or_app. auto.
Qed.

Lemma NoDup_app_r : forall {A} (a b : list A), NoDup (a ++ b) -> NoDup b.
Proof. induction a as [|x a IH]; intros b H; auto. simpl in H. inversion H; subst. eauto. Qed.

Lemma NoDup_app_disj : forall {A} (a b : list A) x, NoDup (a ++ b) -> In x a -> ~ In x b.
Proof.
  induction a as [|y a IH]; intros b x H Hx; [contradiction|]. simpl in H. inversion H; subst.
  destruct Hx as [E|Hx].
  - subst. intro Hb. apply H2. apply in_or_app. auto.
  - eapply IH; eauto.
Qed.

Lemma NoDup_flat_block : forall {A B} (f : A -> list B) l k, NoDup (flat_map f l) -> In k l -> NoDup (f k).
Proof.
  induction l as [|x l IH]; intros k H Hk; [contradiction|]. cbn [flat_map] in H.
  destruct Hk as [E|Hk].
  - subst. eapply NoDup_app_l; eauto.
  - apply IH; auto. eapply NoDup_app_r; eauto.
Qed.

Lemma NoDup_flat_disj : forall {A B} (f : A -> list B) l k k' n,
  NoDup (flat_map f l) -> NoDup l -> In k l -> In k' l -> k <> k' -> In n (f k) -> ~ In n (f k').
Proof.
  induction l as [|x l IH]; intros k k' n H Hl Hk Hk' Hne Hn; [contradiction|].
  cbn [flat_map] in H. inversion Hl; subst.
  destruct Hk as [E|Hk]; destruct Hk' as [E'|Hk']; subst.
  - congruence.
  - intro Hc. eapply NoDup_app_disj; eauto. apply in_flat_map. eauto.
  - intro Hc. eapply NoDup_app_disj; [exact H | exact Hc |]. apply in_flat_map. eauto.
  - apply (IH k k' n); auto. eapply NoDup_app_r; eauto.
Qed.

Lemma good_of_wf : forall pre post mk next its,
  wf_items pre post mk next its -> good (nodes_in its) pre post mk (map it_key its).
Proof.
  intros pre post mk next its [Hk Hd Hne Hfr].
  assert (NoDup (flat_map it_nodes its)) as Hflat.
  { apply NoDup_app_r in Hd. apply NoDup_app_l in Hd. exact Hd. }
  assert (forall k, In k (map it_key its) -> exists it, In it its /\ it_key it = k /\ nodes_in its k = it_nodes it) as Hit.
  { intros k Hin. apply in_map_iff in Hin. destruct Hin as [it [E Hin]]. exists it.
    repeat split; auto. subst. apply nodes_in_item; auto. }
  constructor.
  - intros k Hin. destruct (Hit k Hin) as [it [Hi [E En]]]. rewrite En.
    eapply NoDup_flat_block; eauto.
  - intros k k' n Hin Hin' Hne' Hn.
    destruct (Hit k Hin) as [it [Hi [E En]]]. destruct (Hit k' Hin') as [it' [Hi' [E' En']]].
    rewrite En in Hn. rewrite En'.
    assert (NoDup its) as Hnd by (eapply NoDup_map_inv; eauto).
    eapply (NoDup_flat_disj it_nodes its it it'); eauto. congruence.
  - intros k n Hin Hn Hc. destruct (Hit k Hin) as [it [Hi [E En]]]. rewrite En in Hn.
    assert (In n (flat_map it_nodes its)) as Hf by (apply in_flat_map; eauto).
    apply in_app_or in Hc. destruct Hc as [Hc|Hc].
    + eapply NoDup_app_disj; [exact Hd | exact Hc |]. apply in_or_app. left. auto.
    + apply NoDup_app_r in Hd. eapply NoDup_app_disj; [exact Hd | exact Hf | exact Hc].
  - clear - Hd. induction pre as [|p pre IH]; simpl in *.
    + eapply NoDup_app_r; eauto.
    + inversion Hd; subst. constructor; auto. intro Hc. apply H1.
      apply in_app_or in Hc. apply in_or_app. destruct Hc; auto. right. apply in_or_app. auto.
Qed.

(* -------------------------------------------------- placing one item (moves in the DOM, additions) *)

Lemma NoDup_insert_mid : forall {A} (a b : list A) x, NoDup (a ++ b) -> ~ In x (a ++ b) -> NoDup (a ++ x :: b).
Proof.
  intros A a b x H Hx. eapply Permutation_NoDup; [apply Permutation_middle|]. constructor; auto.
Qed.

Lemma NoDup_remove_node : forall x l, NoDup l -> NoDup (remove_node x l).
Proof. intros. unfold remove_node. apply NoDup_filter. auto. Qed.

Section Apply.
Variables pre post : list node.
Variable mk : node.
Variable to : list N.

Record inv (nodes_of : N -> list node) (U seq : list N) (c : list (option item)) (dom : list node)
  : Prop := {
  i_dom : dom = render nodes_of pre post mk seq;
  i_good : good nodes_of pre post mk U;
  i_seqU : forall k, In k seq -> In k U;
  i_seq_nd : NoDup seq;
  i_items : forall it, In it (somes c) ->
            In (it_key it) U /\ nodes_of (it_key it) = it_nodes it /\ it_nodes it <> [];
  i_aligned : forall j it, nth_error c j = Some (Some it) -> nth_error to j = Some (it_key it);
  i_order : filter (fun k => memN k (map it_key (somes c))) seq = map it_key (somes c) }.

Lemma place_step : forall nodes_of U seq c dom t x,
  inv nodes_of U seq c dom -> nth_error c t = Some None ->
  In (it_key x) U -> nodes_of (it_key x) = it_nodes x -> it_nodes x <> [] ->
  nth_error to t = Some (it_key x) -> ~ In (it_key x) (map it_key (somes c)) ->
  exists seq', inv nodes_of U seq' (set_nth t (Some x) c) (mount_at c t x mk dom) /\
               (forall k, In k seq' <-> In k seq \/ k = it_key x).
Proof.
  intros nodes_of U seq c dom t x [Hdom Hgood HseqU Hnd Hitems Hal Hord] Hnone HxU Hxn Hxne Hto Hxp.
  assert (t < length c) as Hlt by (apply nth_error_Some; congruence).
  pose proof (somes_split_None _ _ Hnone) as Hsplit.
  pose proof (somes_set_nth t x c Hlt) as Hset.
  assert (forall it, In it (somes (set_nth t (Some x) c)) -> it = x \/ In it (somes c)) as Hin'.
  { intros it Hi. rewrite Hset in Hi. rewrite Hsplit. apply in_app_or in Hi.
    destruct Hi as [Hi|[Hi|Hi]]; auto; right; apply in_or_app; auto. }
  assert (forall it, In it (somes (set_nth t (Some x) c)) ->
            In (it_key it) U /\ nodes_of (it_key it) = it_nodes it /\ it_nodes it <> []) as Hitems'.
  { intros it Hi. destruct (Hin' it Hi) as [E|Hi']; [subst; auto | auto]. }
  assert (forall j it, nth_error (set_nth t (Some x) c) j = Some (Some it) ->
            nth_error to j = Some (it_key it)) as Hal'.
  { intros j it Hj. destruct (Nat.eq_dec t j) as [E|E].
    - subst. rewrite nth_set_nth_eq in Hj; auto. inversion Hj. subst. auto.
    - rewrite nth_set_nth_neq in Hj; auto. }
  unfold mount_at, next_mounted. rewrite (skipn_nth_None _ _ Hnone).
  rewrite Hsplit in Hord, Hxp. rewrite map_app in Hord, Hxp.
  destruct (somes (skipn (S t) c)) as [|sib rest] eqn:Esk; cbn [hd_error].
  - (* nothing mounted after index t: before the marker *)
    cbn [map] in Hord, Hxp. rewrite app_nil_r in Hord, Hxp.
    exists (remove_node (it_key x) seq ++ [it_key x]). split.
    + constructor; auto.
      * unfold mount_item. rewrite <- Hxn, Hdom. eapply render_mount_marker; eauto.
      * intros k Hk. apply in_app_or in Hk. destruct Hk as [Hk|[Hk|[]]]; [|subst; auto].
        apply remove_node_In in Hk. apply HseqU. tauto.
      * replace (remove_node (it_key x) seq ++ [it_key x])
          with (remove_node (it_key x) seq ++ it_key x :: []) by reflexivity.
        apply NoDup_insert_mid; rewrite app_nil_r.
        -- apply NoDup_remove_node. auto.
        -- rewrite remove_node_In. tauto.
      * rewrite Hset. rewrite map_app. cbn [map]. apply place_end; auto.
    + intros k. rewrite in_app_iff, remove_node_In. simpl.
      destruct (N.eq_dec k (it_key x)); [subst|]; intuition congruence.
  - (* before the next mounted item *)
    assert (In sib (somes c)) as Hsib.
    { rewrite Hsplit. apply in_or_app. right. left. auto. }
    destruct (Hitems sib Hsib) as [HsU [Hsn Hsne]].
    destruct (it_nodes sib) as [|a ys] eqn:Esn; [congruence|].
    cbn [map] in Hord, Hxp.
    set (y := it_key sib) in *.
    assert (In y seq) as Hyseq.
    { assert (In y (filter (fun k => memN k (map it_key (somes (firstn t c)) ++ y :: map it_key rest)) seq)) as Hy.
      { rewrite Hord. apply in_or_app. right. left. auto. }
      apply filter_In in Hy. tauto. }
    destruct (in_split _ _ Hyseq) as [S1 [S2 Eseq]].
    assert (it_key x <> y) as Hxy.
    { intro E. apply Hxp. rewrite E. apply in_or_app. right. left. auto. }
    assert (In a dom) as Hadom.
    { rewrite Hdom. unfold render. apply in_or_app. right. apply in_or_app. left.
      apply in_flat_map. exists y. split; auto. rewrite Hsn. left. auto. }
    unfold insert_before_this_or_marker. rewrite Esn. cbn [find].
    assert (memN a dom = true) as -> by (apply memN_In; auto).
    exists (remove_node (it_key x) S1 ++ it_key x :: y :: remove_node (it_key x) S2). split.
    + constructor; auto.
      * unfold mount_item. rewrite <- Hxn, Hdom, Eseq.
        eapply render_mount_before; eauto.
        -- intros k Hk. apply HseqU. rewrite Eseq. auto.
        -- rewrite <- Eseq. auto.
      * intros k Hk. apply in_app_or in Hk. destruct Hk as [Hk|[Hk|[Hk|Hk]]].
        -- apply remove_node_In in Hk. apply HseqU. rewrite Eseq. apply in_or_app. tauto.
        -- subst. auto.
        -- subst. auto.
        -- apply remove_node_In in Hk. apply HseqU. rewrite Eseq. apply in_or_app. right. right. tauto.
      * apply NoDup_insert_mid.
        -- pose proof (NoDup_remove_node (it_key x) _ Hnd) as Hrm.
           rewrite Eseq, remove_node_app in Hrm.
           assert (remove_node (it_key x) (y :: S2) = y :: remove_node (it_key x) S2) as Ey.
           { unfold remove_node. cbn [filter].
             destruct (N.eqb_spec (it_key x) y); [contradiction|reflexivity]. }
           rewrite Ey in Hrm. exact Hrm.
        -- intro Hc. apply in_app_or in Hc. destruct Hc as [Hc|[Hc|Hc]].
           ++ apply remove_node_In in Hc. tauto.
           ++ congruence.
           ++ apply remove_node_In in Hc. tauto.
      * rewrite Hset. rewrite map_app. cbn [map]. fold y.
        rewrite Eseq in Hord, Hnd. apply place_before; auto.
    + intros k. rewrite Eseq, !in_app_iff. cbn [In].
      rewrite !remove_node_In. destruct (N.eq_dec k (it_key x)); [subst|]; intuition congruence.
Qed.

(** the abstract effect of a sequence of placements [(index, item)] *)
Definition place_fold (tasks : list (nat * item)) (cd : list (option item) * list node)
  : list (option item) * list node :=
  fold_left (fun cd tx => (set_nth (fst tx) (Some (snd tx)) (fst cd),
                           mount_at (fst cd) (fst tx) (snd tx) mk (snd cd))) tasks cd.

Lemma place_all : forall nodes_of U tasks seq c dom,
  inv nodes_of U seq c dom ->
  (forall t x, In (t, x) tasks ->
     In (it_key x) U /\ nodes_of (it_key x) = it_nodes x /\ it_nodes x <> [] /\
     nth_error to t = Some (it_key x) /\ t < length c /\ ~ In (it_key x) (map it_key (somes c))) ->
  NoDup (map (fun tx => it_key (snd tx)) tasks) ->
  exists seq', inv nodes_of U seq' (fst (place_fold tasks (c, dom))) (snd (place_fold tasks (c, dom))) /\
    (forall k, In k seq' <-> In k seq \/ In k (map (fun tx => it_key (snd tx)) tasks)) /\
    length (fst (place_fold tasks (c, dom))) = length c /\
    (forall it, In it (somes (fst (place_fold tasks (c, dom)))) <->
                In it (somes c) \/ In it (map snd tasks)).
Proof.
  intros nodes_of U tasks. induction tasks as [|[t x] tasks IH]; intros seq c dom Hinv Ht Hnd.
  - exists seq. simpl. split; [exact Hinv|]. split; [intros; tauto|]. split; [reflexivity|]. intros; tauto.
  - cbn [map] in Hnd. inversion Hnd as [|? ? Hx Hnd']; subst.
    destruct (Ht t x (or_introl eq_refl)) as [HU [Hn [Hne [Hto [Hlt Hnp]]]]].
    assert (nth_error c t = Some None) as Hnone.
    { destruct (nth_error c t) as [[it'|]|] eqn:E; auto.
      - exfalso. apply Hnp. pose proof (i_aligned _ _ _ _ _ Hinv _ _ E) as Ha.
        rewrite Hto in Ha. inversion Ha as [Hk]. rewrite Hk. apply in_map.
        apply In_somes_nth. eauto.
      - apply nth_error_None in E. lia. }
    destruct (place_step _ _ _ _ _ _ _ Hinv Hnone HU Hn Hne Hto Hnp) as [seq1 [Hinv1 Hseq1]].
    assert (forall it, In it (somes (set_nth t (Some x) c)) <-> In it (somes c) \/ it = x) as Hs1.
    { intros it. rewrite (somes_set_nth t x c Hlt). rewrite (somes_split_None _ _ Hnone).
      rewrite !in_app_iff. simpl. intuition congruence. }
    destruct (IH seq1 (set_nth t (Some x) c) (mount_at c t x mk dom) Hinv1) as [seq' [Hinv' [Hseq' [Hlen' Hs']]]]; auto.
    { intros t' x' Hin. destruct (Ht t' x' (or_intror Hin)) as [HU' [Hn' [Hne' [Hto' [Hlt' Hnp']]]]].
      repeat split; auto.
      - rewrite set_nth_length. auto.
      - intro Hc. apply in_map_iff in Hc. destruct Hc as [it [Ek Hit]]. apply Hs1 in Hit.
        destruct Hit as [Hit|Hit].
        + apply Hnp'. rewrite <- Ek. apply in_map. auto.
        + subst it. apply Hx. simpl. rewrite Ek.
          apply (in_map (fun tx => it_key (snd tx)) tasks (t', x')). auto. }
    exists seq'. cbn [place_fold fold_left fst snd]. fold (place_fold tasks (set_nth t (Some x) c, mount_at c t x mk dom)).
    split; [exact Hinv'|]. split; [|split].
    + intros k. rewrite Hseq', Hseq1. cbn [map fst snd In]. intuition congruence.
    + rewrite Hlen', set_nth_length. reflexivity.
    + intros it. rewrite Hs', Hs1. cbn [map snd In]. intuition congruence.
Qed.

(* --------------------------------------- the concrete folds of apply_diff as placement folds *)

Definition dom_tasks (xof : mv -> item) (ms : list mv) : list (nat * item) :=
  flat_map (fun mv => if m_dom mv then [(m_to mv, xof mv)] else []) ms.
Definition dom_log (xof : mv -> item) (ms : list mv) : list event :=
  flat_map (fun mv => if m_dom mv
                      then [EvMount (it_key (xof mv)) (it_gen (xof mv));
                            EvSetIndex (it_key (xof mv)) (it_gen (xof mv)) (m_to mv)]
                      else []) ms.

Lemma fold_step_dom : forall mc xof ms i0 w,
  w_panic w = false ->
  (forall j mv, nth_error ms j = Some mv -> m_dom mv = true ->
     nth_error mc (i0 + j) = Some (Some (xof mv)) /\ m_to mv < length (w_children w)) ->
  let w' := fold_left (step_dom mk mc) (enumerate_from i0 ms) w in
  let cd := place_fold (dom_tasks xof ms) (w_children w, w_dom w) in
  w_children w' = fst cd /\ w_dom w' = snd cd /\ w_log w' = w_log w ++ dom_log xof ms /\
  w_next w' = w_next w /\ w_gen w' = w_gen w /\ w_panic w' = false.
Proof.
  intros mc xof ms. induction ms as [|mv ms IH]; intros i0 w Hp H.
  - simpl. rewrite app_nil_r. repeat split; auto.
  - cbn [enumerate_from fold_left]. cbv zeta.
    destruct (m_dom mv) eqn:Ed.
    + destruct (H 0 mv eq_refl Ed) as [Hmc Hlt]. rewrite Nat.add_0_r in Hmc.
      apply Nat.ltb_lt in Hlt.
      assert (step_dom mk mc w (i0, mv) =
              {| w_children := set_nth (m_to mv) (Some (xof mv)) (w_children w);
                 w_dom := mount_at (w_children w) (m_to mv) (xof mv) mk (w_dom w);
                 w_log := w_log w ++ [EvMount (it_key (xof mv)) (it_gen (xof mv));
                                      EvSetIndex (it_key (xof mv)) (it_gen (xof mv)) (m_to mv)];
                 w_next := w_next w; w_gen := w_gen w; w_panic := false |}) as Es.
      { unfold step_dom. rewrite Hp, Ed, Hmc, Hlt. reflexivity. }
      rewrite Es. clear Es.
      match goal with |- context [fold_left _ _ ?w1] => set (w1' := w1) end.
      destruct (IH (S i0) w1') as [Hc [Hd [Hl [Hn [Hg Hp']]]]]; [reflexivity| |].
      { intros j mv' Hj Hd'. destruct (H (S j) mv' Hj Hd') as [H1 H2].
        rewrite Nat.add_succ_r in H1. split; auto. unfold w1'. cbn [w_children].
        rewrite set_nth_length. apply Nat.ltb_lt in Hlt. auto. }
      unfold dom_tasks, dom_log. cbn [flat_map]. rewrite Ed. cbn [app place_fold fold_left fst snd].
      fold (place_fold (dom_tasks xof ms)
              (set_nth (m_to mv) (Some (xof mv)) (w_children w),
               mount_at (w_children w) (m_to mv) (xof mv) mk (w_dom w))).
      fold (dom_log xof ms).
      rewrite Hc, Hd, Hl, Hn, Hg, Hp'. unfold w1'. cbn [w_children w_dom w_log w_next w_gen].
      rewrite <- app_assoc. repeat split; auto.
    + assert (step_dom mk mc w (i0, mv) = w) as Es.
      { unfold step_dom. rewrite Hp, Ed. reflexivity. }
      rewrite Es. clear Es.
      destruct (IH (S i0) w) as [Hc [Hd [Hl [Hn [Hg Hp']]]]]; auto.
      { intros j mv' Hj Hd'. destruct (H (S j) mv' Hj Hd') as [H1 H2].
        rewrite Nat.add_succ_r in H1. auto. }
      unfold dom_tasks, dom_log. cbn [flat_map]. rewrite Ed. cbn [app]. repeat split; auto.
Qed.

Definition nondom_children (xof : mv -> item) (ms : list mv) (c : list (option item))
  : list (option item) :=
  fold_left (fun c mv => if m_dom mv then c else set_nth (m_to mv) (Some (xof mv)) c) ms c.
Definition nondom_log (xof : mv -> item) (ms : list mv) : list event :=
  flat_map (fun mv => if m_dom mv then []
                      else [EvSetIndex (it_key (xof mv)) (it_gen (xof mv)) (m_to mv)]) ms.

Lemma nondom_children_length : forall xof ms c, length (nondom_children xof ms c) = length c.
Proof.
  intros xof ms. unfold nondom_children. induction ms as [|mv ms IH]; intros c; cbn [fold_left].
  - reflexivity.
  - rewrite IH. destruct (m_dom mv); [reflexivity | apply set_nth_length].
Qed.

Lemma fold_step_nondom : forall mc xof ms i0 w,
  w_panic w = false ->
  (forall j mv, nth_error ms j = Some mv -> m_dom mv = false ->
     nth_error mc (i0 + j) = Some (Some (xof mv)) /\ m_to mv < length (w_children w)) ->
  let w' := fold_left (step_nondom mc) (enumerate_from i0 ms) w in
  w_children w' = nondom_children xof ms (w_children w) /\ w_dom w' = w_dom w /\
  w_log w' = w_log w ++ nondom_log xof ms /\
  w_next w' = w_next w /\ w_gen w' = w_gen w /\ w_panic w' = false.
Proof.
  intros mc xof ms. induction ms as [|mv ms IH]; intros i0 w Hp H.
  - simpl. rewrite app_nil_r. repeat split; auto.
  - cbn [enumerate_from fold_left]. cbv zeta.
    destruct (m_dom mv) eqn:Ed.
    + assert (step_nondom mc w (i0, mv) = w) as Es.
      { unfold step_nondom. rewrite Hp, Ed. reflexivity. }
      rewrite Es. clear Es.
      destruct (IH (S i0) w) as [Hc [Hd [Hl [Hn [Hg Hp']]]]]; auto.
      { intros j mv' Hj Hd'. destruct (H (S j) mv' Hj Hd') as [H1 H2].
        rewrite Nat.add_succ_r in H1. auto. }
      unfold nondom_children, nondom_log. cbn [flat_map fold_left]. rewrite Ed. cbn [app].
      repeat split; auto.
    + destruct (H 0 mv eq_refl Ed) as [Hmc Hlt]. rewrite Nat.add_0_r in Hmc.
      apply Nat.ltb_lt in Hlt.
      assert (step_nondom mc w (i0, mv) =
              {| w_children := set_nth (m_to mv) (Some (xof mv)) (w_children w);
                 w_dom := w_dom w;
                 w_log := w_log w ++ [EvSetIndex (it_key (xof mv)) (it_gen (xof mv)) (m_to mv)];
                 w_next := w_next w; w_gen := w_gen w; w_panic := false |}) as Es.
      { unfold step_nondom. rewrite Hp, Ed, Hmc, Hlt. reflexivity. }
      rewrite Es. clear Es.
      match goal with |- context [fold_left _ _ ?w1] => set (w1' := w1) end.
      destruct (IH (S i0) w1') as [Hc [Hd [Hl [Hn [Hg Hp']]]]]; [reflexivity| |].
      { intros j mv' Hj Hd'. destruct (H (S j) mv' Hj Hd') as [H1 H2].
        rewrite Nat.add_succ_r in H1. split; auto. unfold w1'. cbn [w_children].
        rewrite set_nth_length. auto. }
      unfold nondom_children, nondom_log. cbn [flat_map fold_left]. rewrite Ed.
      fold (nondom_children xof ms (set_nth (m_to mv) (Some (xof mv)) (w_children w))).
      fold (nondom_log xof ms).
      rewrite Hc, Hd, Hl, Hn, Hg, Hp'. unfold w1'. cbn [w_children w_dom w_log w_next w_gen].
      rewrite <- app_assoc. repeat split; auto.
Qed.

Fixpoint add_tasks (m : nat) (items : list N) (next : N) (gen : nat) (adds : list addop)
  : list (nat * item) :=
  match adds with
  | [] => []
  | a :: r =>
      (a_at a, {| it_key := nth (a_at a) items 0%N; it_gen := gen;
                  it_nodes := map (fun j => (next + N.of_nat j)%N) (seq 0 m) |})
      :: add_tasks m items (next + N.of_nat m)%N (S gen) r
  end.
Definition add_log (tasks : list (nat * item)) : list event :=
  flat_map (fun tx => [EvBuild (it_key (snd tx)) (it_gen (snd tx)) (fst tx);
                       EvMount (it_key (snd tx)) (it_gen (snd tx))]) tasks.

Lemma fold_step_add : forall m items adds w,
  w_panic w = false ->
  Forall (fun a => a_mode a = Normal /\ a_at a < length items /\ a_at a < length (w_children w)) adds ->
  let w' := fold_left (step_add m mk items) adds w in
  let tasks := add_tasks m items (w_next w) (w_gen w) adds in
  let cd := place_fold tasks (w_children w, w_dom w) in
  w_children w' = fst cd /\ w_dom w' = snd cd /\ w_log w' = w_log w ++ add_log tasks /\
  w_next w' = (w_next w + N.of_nat (m * length adds))%N /\ w_gen w' = w_gen w + length adds /\
  w_panic w' = false.
Proof.
  intros m items adds. induction adds as [|a adds IH]; intros w Hp H.
  - simpl. rewrite app_nil_r, Nat.mul_0_r, N.add_0_r, Nat.add_0_r. repeat split; auto.
  - inversion H as [|? ? [Hm [Hli Hlc]] H']; subst.
    cbn [fold_left]. cbv zeta.
    destruct (nth_error items (a_at a)) as [k|] eqn:Ek.
    2:{ apply nth_error_None in Ek. lia. }
    assert (k = nth (a_at a) items 0%N) as Ek' by (symmetry; apply nth_error_nth; auto).
    pose proof Hlc as Hlc'. apply Nat.ltb_lt in Hlc'.
    assert (step_add m mk items w a =
            {| w_children := set_nth (a_at a) (Some (build_item m k w)) (w_children w);
               w_dom := mount_at (w_children w) (a_at a) (build_item m k w) mk (w_dom w);
               w_log := w_log w ++ [EvBuild k (w_gen w) (a_at a); EvMount k (w_gen w)];
               w_next := (w_next w + N.of_nat m)%N; w_gen := S (w_gen w); w_panic := false |}) as Es.
    { unfold step_add. rewrite Hp, Ek, Hlc', Hm. reflexivity. }
    rewrite Es. clear Es.
    match goal with |- context [fold_left _ _ ?w1] => set (w1' := w1) end.
    destruct (IH w1') as [Hc [Hd [Hl [Hn [Hg Hp']]]]]; [reflexivity| |].
    { eapply Forall_impl; [|exact H']. intros a' [A1 [A2 A3]]. repeat split; auto.
      unfold w1'. cbn [w_children]. rewrite set_nth_length. auto. }
    rewrite Hc, Hd, Hl, Hn, Hg, Hp'. unfold w1'. cbn [w_children w_dom w_log w_next w_gen].
    cbn [add_tasks]. unfold add_log. cbn [flat_map place_fold fold_left fst snd it_key it_gen].
    unfold build_item. rewrite <- Ek'.
    fold (add_log (add_tasks m items (w_next w + N.of_nat m) (S (w_gen w)) adds)).
    cbn [length]. rewrite <- app_assoc.
    repeat split; auto; try lia.
Qed.
