(** C11: [apply_diff] (keyed.rs, repaired) turns the rendered list into exactly the new
    list of keys — for all duplicate-free key sequences, item sizes and sibling contexts. *)
From Coq Require Import List NArith ZArith Bool Arith Lia Sorted Permutation.
From LV Require Import Dom.Dom Dom.DomProofs Dom.Keyed Dom.KeyedLemmas Dom.KeyedDiffProofs Dom.KeyedRender.
Import ListNotations.

(* ------------------------------------------------------------------ well-formed states *)

Definition find_item (k : N) (its : list item) : option item :=
  find (fun it => N.eqb (it_key it) k) its.
Definition nodes_in (its : list item) (k : N) : list node :=
  match find_item k its with Some it => it_nodes it | None => [] end.

Record wf_items (pre post : list node) (mk : node) (next : N) (its : list item) : Prop := {
  wf_keys : NoDup (map it_key its);
  wf_dom : NoDup (pre ++ flat_map it_nodes its ++ mk :: post);
  wf_nonempty : forall it, In it its -> it_nodes it <> [];
  wf_fresh : forall n, In n (pre ++ flat_map it_nodes its ++ mk :: post) -> (n < next)%N }.

Lemma find_item_In : forall its it, NoDup (map it_key its) -> In it its ->
  find_item (it_key it) its = Some it.
Proof.
  induction its as [|x its IH]; intros it Hnd Hin; [contradiction|].
  unfold find_item. cbn [find]. simpl in Hnd. inversion Hnd; subst.
  destruct Hin as [E|Hin].
  - subst. rewrite N.eqb_refl. reflexivity.
  - destruct (N.eqb_spec (it_key x) (it_key it)) as [E|E].
    + exfalso. apply H1. rewrite E. apply in_map. exact Hin.
    + apply IH; auto.
Qed.

Lemma find_item_Some : forall its k it, find_item k its = Some it -> In it its /\ it_key it = k.
Proof.
  intros its k it H. unfold find_item in H. apply find_some in H. destruct H as [H1 H2].
  apply N.eqb_eq in H2. auto.
Qed.

Lemma find_item_None : forall its k, find_item k its = None -> ~ In k (map it_key its).
Proof.
  intros its k H Hin. apply in_map_iff in Hin. destruct Hin as [it [E Hit]].
  unfold find_item in H. eapply find_none in H; eauto. simpl in H. rewrite E, N.eqb_refl in H.
  discriminate.
Qed.

Lemma nodes_in_item : forall its it, NoDup (map it_key its) -> In it its ->
  nodes_in its (it_key it) = it_nodes it.
Proof. intros. unfold nodes_in. rewrite find_item_In; auto. Qed.

Lemma flat_nodes_in : forall its l, NoDup (map it_key its) -> (forall it, In it l -> In it its) ->
  flat_map (nodes_in its) (map it_key l) = flat_map it_nodes l.
Proof.
  intros its l Hnd. induction l as [|x l IH]; intros Hl; [reflexivity|].
  cbn [map flat_map]. rewrite nodes_in_item; auto.
  - rewrite IH; auto. intros; apply Hl; right; auto.
  - apply Hl. left. auto.
Qed.

Lemma NoDup_app_l : forall {A} (a b : list A), NoDup (a ++ b) -> NoDup a.
Proof.
  induction a as [|x a IH]; intros b H; [constructor|]. simpl in H. inversion H; subst.
  constructor; eauto. intro Hx. apply H2. apply in_or_app. auto.
Qed.

Lemma NoDup_app_r : forall {A} (a b : list A), NoDup (a ++ b) -> NoDup b.
Proof. induction a as [|x a IH]; intros b H; auto. simpl in H. inversion H; subst. eauto. Qed.

Lemma NoDup_app_disj : forall {A} (a b : list A) x, NoDup (a ++ b) -> In x a -> ~ In x b.
Proof.
  induction a as [|y a IH]; intros b x H Hx; [contradiction|]. simpl in H. inversion H; subst.
  destruct Hx as [E|Hx].
  - subst. intro Hb. apply H2. apply in_or_app. auto.
  - eapply IH; eauto.
Qed.

Lemma NoDup_flat_block : forall {A B} (f : A -> list B) l k, NoDup (flat_map f l) -> In k l -> NoDup (f k).
Proof.
  induction l as [|x l IH]; intros k H Hk; [contradiction|]. cbn [flat_map] in H.
  destruct Hk as [E|Hk].
  - subst. eapply NoDup_app_l; eauto.
  - apply IH; auto. eapply NoDup_app_r; eauto.
Qed.

Lemma NoDup_flat_disj : forall {A B} (f : A -> list B) l k k' n,
  NoDup (flat_map f l) -> NoDup l -> In k l -> In k' l -> k <> k' -> In n (f k) -> ~ In n (f k').
Proof.
  induction l as [|x l IH]; intros k k' n H Hl Hk Hk' Hne Hn; [contradiction|].
  cbn [flat_map] in H. inversion Hl; subst.
  destruct Hk as [E|Hk]; destruct Hk' as [E'|Hk']; subst.
  - congruence.
  - intro Hc. eapply NoDup_app_disj; eauto. apply in_flat_map. eauto.
  - intro Hc. eapply NoDup_app_disj; [exact H | exact Hc |]. apply in_flat_map. eauto.
  - apply (IH k k' n); auto. eapply NoDup_app_r; eauto.
Qed.

Lemma good_of_wf : forall pre post mk next its,
  wf_items pre post mk next its -> good (nodes_in its) pre post mk (map it_key its).
Proof.
  intros pre post mk next its [Hk Hd Hne Hfr].
  assert (NoDup (flat_map it_nodes its)) as Hflat.
  { apply NoDup_app_r in Hd. apply NoDup_app_l in Hd. exact Hd. }
  assert (forall k, In k (map it_key its) -> exists it, In it its /\ it_key it = k /\ nodes_in its k = it_nodes it) as Hit.
  { intros k Hin. apply in_map_iff in Hin. destruct Hin as [it [E Hin]]. exists it.
    repeat split; auto. subst. apply nodes_in_item; auto. }
  constructor.
  - intros k Hin. destruct (Hit k Hin) as [it [Hi [E En]]]. rewrite En.
    eapply NoDup_flat_block; eauto.
  - intros k k' n Hin Hin' Hne' Hn.
    destruct (Hit k Hin) as [it [Hi [E En]]]. destruct (Hit k' Hin') as [it' [Hi' [E' En']]].
    rewrite En in Hn. rewrite En'.
    assert (NoDup its) as Hnd by (eapply NoDup_map_inv; eauto).
    eapply (NoDup_flat_disj it_nodes its it it'); eauto. congruence.
  - intros k n Hin Hn Hc. destruct (Hit k Hin) as [it [Hi [E En]]]. rewrite En in Hn.
    assert (In n (flat_map it_nodes its)) as Hf by (apply in_flat_map; eauto).
    apply in_app_or in Hc. destruct Hc as [Hc|Hc].
    + eapply NoDup_app_disj; [exact Hd | exact Hc |]. apply in_or_app. left. auto.
    + apply NoDup_app_r in Hd. eapply NoDup_app_disj; [exact Hd | exact Hf | exact Hc].
  - clear - Hd. induction pre as [|p pre IH]; simpl in *.
    + eapply NoDup_app_r; eauto.
    + inversion Hd; subst. constructor; auto. intro Hc. apply H1.
      apply in_app_or in Hc. apply in_or_app. destruct Hc; auto. right. apply in_or_app. auto.
Qed.

(* -------------------------------------------------- placing one item (moves in the DOM, additions) *)

Lemma NoDup_insert_mid : forall {A} (a b : list A) x, NoDup (a ++ b) -> ~ In x (a ++ b) -> NoDup (a ++ x :: b).
Proof.
  intros A a b x H Hx. eapply Permutation_NoDup; [apply Permutation_middle|]. constructor; auto.
Qed.

Lemma NoDup_remove_node : forall x l, NoDup l -> NoDup (remove_node x l).
Proof. intros. unfold remove_node. apply NoDup_filter. auto. Qed.

Section Apply.
Variables pre post : list node.
Variable mk : node.
Variable to : list N.

Record inv (nodes_of : N -> list node) (U seq : list N) (c : list (option item)) (dom : list node)
  : Prop := {
  i_dom : dom = render nodes_of pre post mk seq;
  i_good : good nodes_of pre post mk U;
  i_seqU : forall k, In k seq -> In k U;
  i_seq_nd : NoDup seq;
  i_items : forall it, In it (somes c) ->
            In (it_key it) U /\ nodes_of (it_key it) = it_nodes it /\ it_nodes it <> [];
  i_aligned : forall j it, nth_error c j = Some (Some it) -> nth_error to j = Some (it_key it);
  i_order : filter (fun k => memN k (map it_key (somes c))) seq = map it_key (somes c) }.

Lemma place_step : forall nodes_of U seq c dom t x,
  inv nodes_of U seq c dom -> nth_error c t = Some None ->
  In (it_key x) U -> nodes_of (it_key x) = it_nodes x -> it_nodes x <> [] ->
  nth_error to t = Some (it_key x) -> ~ In (it_key x) (map it_key (somes c)) ->
  exists seq', inv nodes_of U seq' (set_nth t (Some x) c) (mount_at c t x mk dom) /\
               (forall k, In k seq' <-> In k seq \/ k = it_key x).
Proof.
  intros nodes_of U seq c dom t x [Hdom Hgood HseqU Hnd Hitems Hal Hord] Hnone HxU Hxn Hxne Hto Hxp.
  assert (t < length c) as Hlt by (apply nth_error_Some; congruence).
  pose proof (somes_split_None _ _ Hnone) as Hsplit.
  pose proof (somes_set_nth t x c Hlt) as Hset.
  assert (forall it, In it (somes (set_nth t (Some x) c)) -> it = x \/ In it (somes c)) as Hin'.
  { intros it Hi. rewrite Hset in Hi. rewrite Hsplit. apply in_app_or in Hi.
    destruct Hi as [Hi|[Hi|Hi]]; auto; right; apply in_or_app; auto. }
  assert (forall it, In it (somes (set_nth t (Some x) c)) ->
            In (it_key it) U /\ nodes_of (it_key it) = it_nodes it /\ it_nodes it <> []) as Hitems'.
  { intros it Hi. destruct (Hin' it Hi) as [E|Hi']; [subst; auto | auto]. }
  assert (forall j it, nth_error (set_nth t (Some x) c) j = Some (Some it) ->
            nth_error to j = Some (it_key it)) as Hal'.
  { intros j it Hj. destruct (Nat.eq_dec t j) as [E|E].
    - subst. rewrite nth_set_nth_eq in Hj; auto. inversion Hj. subst. auto.
    - rewrite nth_set_nth_neq in Hj; auto. }
  unfold mount_at, next_mounted. rewrite (skipn_nth_None _ _ Hnone).
  rewrite Hsplit in Hord, Hxp. rewrite map_app in Hord, Hxp.
  destruct (somes (skipn (S t) c)) as [|sib rest] eqn:Esk; cbn [hd_error].
  - (* nothing mounted after index t: before the marker *)
    cbn [map] in Hord, Hxp. rewrite app_nil_r in Hord, Hxp.
    exists (remove_node (it_key x) seq ++ [it_key x]). split.
    + constructor; auto.
      * unfold mount_item. rewrite <- Hxn, Hdom. eapply render_mount_marker; eauto.
      * intros k Hk. apply in_app_or in Hk. destruct Hk as [Hk|[Hk|[]]]; [|subst; auto].
        apply remove_node_In in Hk. apply HseqU. tauto.
      * replace (remove_node (it_key x) seq ++ [it_key x])
          with (remove_node (it_key x) seq ++ it_key x :: []) by reflexivity.
        apply NoDup_insert_mid; rewrite app_nil_r.
        -- apply NoDup_remove_node. auto.
        -- rewrite remove_node_In. tauto.
      * rewrite Hset. rewrite map_app. cbn [map]. apply place_end; auto.
    + intros k. rewrite in_app_iff, remove_node_In. simpl.
      destruct (N.eq_dec k (it_key x)); [subst|]; intuition congruence.
  - (* before the next mounted item *)
    assert (In sib (somes c)) as Hsib.
    { rewrite Hsplit. apply in_or_app. right. left. auto. }
    destruct (Hitems sib Hsib) as [HsU [Hsn Hsne]].
    destruct (it_nodes sib) as [|a ys] eqn:Esn; [congruence|].
    cbn [map] in Hord, Hxp.
    set (y := it_key sib) in *.
    assert (In y seq) as Hyseq.
    { assert (In y (filter (fun k => memN k (map it_key (somes (firstn t c)) ++ y :: map it_key rest)) seq)) as Hy.
      { rewrite Hord. apply in_or_app. right. left. auto. }
      apply filter_In in Hy. tauto. }
    destruct (in_split _ _ Hyseq) as [S1 [S2 Eseq]].
    assert (it_key x <> y) as Hxy.
    { intro E. apply Hxp. rewrite E. apply in_or_app. right. left. auto. }
    assert (In a dom) as Hadom.
    { rewrite Hdom. unfold render. apply in_or_app. right. apply in_or_app. left.
      apply in_flat_map. exists y. split; auto. rewrite Hsn. left. auto. }
    unfold insert_before_this_or_marker. rewrite Esn. cbn [find].
    assert (memN a dom = true) as -> by (apply memN_In; auto).
    exists (remove_node (it_key x) S1 ++ it_key x :: y :: remove_node (it_key x) S2). split.
    + constructor; auto.
      * unfold mount_item. rewrite <- Hxn, Hdom, Eseq.
        eapply render_mount_before; eauto.
        -- intros k Hk. apply HseqU. rewrite Eseq. auto.
        -- rewrite <- Eseq. auto.
      * intros k Hk. apply in_app_or in Hk. destruct Hk as [Hk|[Hk|[Hk|Hk]]].
        -- apply remove_node_In in Hk. apply HseqU. rewrite Eseq. apply in_or_app. tauto.
        -- subst. auto.
        -- subst. auto.
        -- apply remove_node_In in Hk. apply HseqU. rewrite Eseq. apply in_or_app. right. right. tauto.
      * apply NoDup_insert_mid.
        -- pose proof (NoDup_remove_node (it_key x) _ Hnd) as Hrm.
           rewrite Eseq, remove_node_app in Hrm.
           assert (remove_node (it_key x) (y :: S2) = y :: remove_node (it_key x) S2) as Ey.
           { unfold remove_node. cbn [filter].
             destruct (N.eqb_spec (it_key x) y); [contradiction|reflexivity]. }
           rewrite Ey in Hrm. exact Hrm.
        -- intro Hc. apply in_app_or in Hc. destruct Hc as [Hc|[Hc|Hc]].
           ++ apply remove_node_In in Hc. tauto.
           ++ congruence.
           ++ apply remove_node_In in Hc. tauto.
      * rewrite Hset. rewrite map_app. cbn [map]. fold y.
        rewrite Eseq in Hord, Hnd. apply place_before; auto.
    + intros k. rewrite Eseq, !in_app_iff. cbn [In].
      rewrite !remove_node_In. destruct (N.eq_dec k (it_key x)); [subst|]; intuition congruence.
Qed.

(** the abstract effect of a sequence of placements [(index, item)] *)
Definition place_fold (tasks : list (nat * item)) (cd : list (option item) * list node)
  : list (option item) * list node :=
  fold_left (fun cd tx => (set_nth (fst tx) (Some (snd tx)) (fst cd),
                           mount_at (fst cd) (fst tx) (snd tx) mk (snd cd))) tasks cd.

Lemma place_all : forall nodes_of U tasks seq c dom,
  inv nodes_of U seq c dom ->
  (forall t x, In (t, x) tasks ->
     In (it_key x) U /\ nodes_of (it_key x) = it_nodes x /\ it_nodes x <> [] /\
     nth_error to t = Some (it_key x) /\ t < length c /\ ~ In (it_key x) (map it_key (somes c))) ->
  NoDup (map (fun tx => it_key (snd tx)) tasks) ->
  exists seq', inv nodes_of U seq' (fst (place_fold tasks (c, dom))) (snd (place_fold tasks (c, dom))) /\
    (forall k, In k seq' <-> In k seq \/ In k (map (fun tx => it_key (snd tx)) tasks)) /\
    length (fst (place_fold tasks (c, dom))) = length c /\
    (forall it, In it (somes (fst (place_fold tasks (c, dom)))) <->
                In it (somes c) \/ In it (map snd tasks)).
Proof.
  intros nodes_of U tasks. induction tasks as [|[t x] tasks IH]; intros seq c dom Hinv Ht Hnd.
  - exists seq. simpl. split; [exact Hinv|]. split; [intros; tauto|]. split; [reflexivity|]. intros; tauto.
  - cbn [map] in Hnd. inversion Hnd as [|? ? Hx Hnd']; subst.
    destruct (Ht t x (or_introl eq_refl)) as [HU [Hn [Hne [Hto [Hlt Hnp]]]]].
    assert (nth_error c t = Some None) as Hnone.
    { destruct (nth_error c t) as [[it'|]|] eqn:E; auto.
      - exfalso. apply Hnp. pose proof (i_aligned _ _ _ _ _ Hinv _ _ E) as Ha.
        rewrite Hto in Ha. inversion Ha as [Hk]. rewrite Hk. apply in_map.
        apply In_somes_nth. eauto.
      - apply nth_error_None in E. lia. }
    destruct (place_step _ _ _ _ _ _ _ Hinv Hnone HU Hn Hne Hto Hnp) as [seq1 [Hinv1 Hseq1]].
    assert (forall it, In it (somes (set_nth t (Some x) c)) <-> In it (somes c) \/ it = x) as Hs1.
    { intros it. rewrite (somes_set_nth t x c Hlt). rewrite (somes_split_None _ _ Hnone).
      rewrite !in_app_iff. simpl. intuition congruence. }
    destruct (IH seq1 (set_nth t (Some x) c) (mount_at c t x mk dom) Hinv1) as [seq' [Hinv' [Hseq' [Hlen' Hs']]]]; auto.
    { intros t' x' Hin. destruct (Ht t' x' (or_intror Hin)) as [HU' [Hn' [Hne' [Hto' [Hlt' Hnp']]]]].
      repeat split; auto.
      - rewrite set_nth_length. auto.
      - intro Hc. apply in_map_iff in Hc. destruct Hc as [it [Ek Hit]]. apply Hs1 in Hit.
        destruct Hit as [Hit|Hit].
        + apply Hnp'. rewrite <- Ek. apply in_map. auto.
        + subst it. apply Hx. simpl. rewrite Ek.
          apply (in_map (fun tx => it_key (snd tx)) tasks (t', x')). auto. }
    exists seq'. cbn [place_fold fold_left fst snd]. fold (place_fold tasks (set_nth t (Some x) c, mount_at c t x mk dom)).
    split; [exact Hinv'|]. split; [|split].
    + intros k. rewrite Hseq', Hseq1. cbn [map fst snd In]. intuition congruence.
    + rewrite Hlen', set_nth_length. reflexivity.
    + intros it. rewrite Hs', Hs1. cbn [map snd In]. intuition congruence.
Qed.

(* --------------------------------------- the concrete folds of apply_diff as placement folds *)

Definition dom_tasks (xof : mv -> item) (ms : list mv) : list (nat * item) :=
  flat_map (fun mv => if m_dom mv then [(m_to mv, xof mv)] else []) ms.
Definition dom_log (xof : mv -> item) (ms : list mv) : list event :=
  flat_map (fun mv => if m_dom mv
                      then [EvMount (it_key (xof mv)) (it_gen (xof mv));
                            EvSetIndex (it_key (xof mv)) (it_gen (xof mv)) (m_to mv)]
                      else []) ms.

Lemma fold_step_dom : forall mc xof ms i0 w,
  w_panic w = false ->
  (forall j mv, nth_error ms j = Some mv -> m_dom mv = true ->
     nth_error mc (i0 + j) = Some (Some (xof mv)) /\ m_to mv < length (w_children w)) ->
  let w' := fold_left (step_dom mk mc) (enumerate_from i0 ms) w in
  let cd := place_fold (dom_tasks xof ms) (w_children w, w_dom w) in
  w_children w' = fst cd /\ w_dom w' = snd cd /\ w_log w' = w_log w ++ dom_log xof ms /\
  w_next w' = w_next w /\ w_gen w' = w_gen w /\ w_panic w' = false.
Proof.
  intros mc xof ms. induction ms as [|mv ms IH]; intros i0 w Hp H.
  - simpl. rewrite app_nil_r. repeat split; auto.
  - cbn [enumerate_from fold_left]. cbv zeta.
    destruct (m_dom mv) eqn:Ed.
    + destruct (H 0 mv eq_refl Ed) as [Hmc Hlt]. rewrite Nat.add_0_r in Hmc.
      apply Nat.ltb_lt in Hlt.
      assert (step_dom mk mc w (i0, mv) =
              {| w_children := set_nth (m_to mv) (Some (xof mv)) (w_children w);
                 w_dom := mount_at (w_children w) (m_to mv) (xof mv) mk (w_dom w);
                 w_log := w_log w ++ [EvMount (it_key (xof mv)) (it_gen (xof mv));
                                      EvSetIndex (it_key (xof mv)) (it_gen (xof mv)) (m_to mv)];
                 w_next := w_next w; w_gen := w_gen w; w_panic := false |}) as Es.
      { unfold step_dom. rewrite Hp, Ed, Hmc, Hlt. reflexivity. }
      rewrite Es. clear Es.
      match goal with |- context [fold_left _ _ ?w1] => set (w1' := w1) end.
      destruct (IH (S i0) w1') as [Hc [Hd [Hl [Hn [Hg Hp']]]]]; [reflexivity| |].
      { intros j mv' Hj Hd'. destruct (H (S j) mv' Hj Hd') as [H1 H2].
        rewrite Nat.add_succ_r in H1. split; auto. unfold w1'. cbn [w_children].
        rewrite set_nth_length. apply Nat.ltb_lt in Hlt. auto. }
      unfold dom_tasks, dom_log. cbn [flat_map]. rewrite Ed. cbn [app place_fold fold_left fst snd].
      fold (place_fold (dom_tasks xof ms)
              (set_nth (m_to mv) (Some (xof mv)) (w_children w),
               mount_at (w_children w) (m_to mv) (xof mv) mk (w_dom w))).
      fold (dom_log xof ms).
      rewrite Hc, Hd, Hl, Hn, Hg, Hp'. unfold w1'. cbn [w_children w_dom w_log w_next w_gen].
      rewrite <- app_assoc. repeat split; auto.
    + assert (step_dom mk mc w (i0, mv) = w) as Es.
      { unfold step_dom. rewrite Hp, Ed. reflexivity. }
      rewrite Es. clear Es.
      destruct (IH (S i0) w) as [Hc [Hd [Hl [Hn [Hg Hp']]]]]; auto.
      { intros j mv' Hj Hd'. destruct (H (S j) mv' Hj Hd') as [H1 H2].
        rewrite Nat.add_succ_r in H1. auto. }
      unfold dom_tasks, dom_log. cbn [flat_map]. rewrite Ed. cbn [app]. repeat split; auto.
Qed.

Definition nondom_children (xof : mv -> item) (ms : list mv) (c : list (option item))
  : list (option item) :=
  fold_left (fun c mv => if m_dom mv then c else set_nth (m_to mv) (Some (xof mv)) c) ms c.
Definition nondom_log (xof : mv -> item) (ms : list mv) : list event :=
  flat_map (fun mv => if m_dom mv then []
                      else [EvSetIndex (it_key (xof mv)) (it_gen (xof mv)) (m_to mv)]) ms.

Lemma nondom_children_length : forall xof ms c, length (nondom_children xof ms c) = length c.
Proof.
  intros xof ms. unfold nondom_children. induction ms as [|mv ms IH]; intros c; cbn [fold_left].
  - reflexivity.
  - rewrite IH. destruct (m_dom mv); [reflexivity | apply set_nth_length].
Qed.

Lemma fold_step_nondom : forall mc xof ms i0 w,
  w_panic w = false ->
  (forall j mv, nth_error ms j = Some mv -> m_dom mv = false ->
     nth_error mc (i0 + j) = Some (Some (xof mv)) /\ m_to mv < length (w_children w)) ->
  let w' := fold_left (step_nondom mc) (enumerate_from i0 ms) w in
  w_children w' = nondom_children xof ms (w_children w) /\ w_dom w' = w_dom w /\
  w_log w' = w_log w ++ nondom_log xof ms /\
  w_next w' = w_next w /\ w_gen w' = w_gen w /\ w_panic w' = false.
Proof.
  intros mc xof ms. induction ms as [|mv ms IH]; intros i0 w Hp H.
  - simpl. rewrite app_nil_r. repeat split; auto.
  - cbn [enumerate_from fold_left]. cbv zeta.
    destruct (m_dom mv) eqn:Ed.
    + assert (step_nondom mc w (i0, mv) = w) as Es.
      { unfold step_nondom. rewrite Hp, Ed. reflexivity. }
      rewrite Es. clear Es.
      destruct (IH (S i0) w) as [Hc [Hd [Hl [Hn [Hg Hp']]]]]; auto.
      { intros j mv' Hj Hd'. destruct (H (S j) mv' Hj Hd') as [H1 H2].
        rewrite Nat.add_succ_r in H1. auto. }
      unfold nondom_children, nondom_log. cbn [flat_map fold_left]. rewrite Ed. cbn [app].
      repeat split; auto.
    + destruct (H 0 mv eq_refl Ed) as [Hmc Hlt]. rewrite Nat.add_0_r in Hmc.
      apply Nat.ltb_lt in Hlt.
      assert (step_nondom mc w (i0, mv) =
              {| w_children := set_nth (m_to mv) (Some (xof mv)) (w_children w);
                 w_dom := w_dom w;
                 w_log := w_log w ++ [EvSetIndex (it_key (xof mv)) (it_gen (xof mv)) (m_to mv)];
                 w_next := w_next w; w_gen := w_gen w; w_panic := false |}) as Es.
      { unfold step_nondom. rewrite Hp, Ed, Hmc, Hlt. reflexivity. }
      rewrite Es. clear Es.
      match goal with |- context [fold_left _ _ ?w1] => set (w1' := w1) end.
      destruct (IH (S i0) w1') as [Hc [Hd [Hl [Hn [Hg Hp']]]]]; [reflexivity| |].
      { intros j mv' Hj Hd'. destruct (H (S j) mv' Hj Hd') as [H1 H2].
        rewrite Nat.add_succ_r in H1. split; auto. unfold w1'. cbn [w_children].
        rewrite set_nth_length. auto. }
      unfold nondom_children, nondom_log. cbn [flat_map fold_left]. rewrite Ed.
      fold (nondom_children xof ms (set_nth (m_to mv) (Some (xof mv)) (w_children w))).
      fold (nondom_log xof ms).
      rewrite Hc, Hd, Hl, Hn, Hg, Hp'. unfold w1'. cbn [w_children w_dom w_log w_next w_gen].
      rewrite <- app_assoc. repeat split; auto.
Qed.

Fixpoint add_tasks (b : builder) (items : list N) (next : N) (gen : nat) (adds : list addop)
  : list (nat * item) :=
  match adds with
  | [] => []
  | a :: r =>
      let k := nth (a_at a) items 0%N in
      (a_at a, {| it_key := k; it_gen := gen; it_nodes := fst (b k next) |})
      :: add_tasks b items (snd (b k next)) (S gen) r
  end.
(** the id counter after these additions *)
Fixpoint add_next (b : builder) (items : list N) (next : N) (adds : list addop) : N :=
  match adds with
  | [] => next
  | a :: r => add_next b items (snd (b (nth (a_at a) items 0%N) next)) r
  end.
Definition add_log (tasks : list (nat * item)) : list event :=
  flat_map (fun tx => [EvBuild (it_key (snd tx)) (it_gen (snd tx)) (fst tx);
                       EvMount (it_key (snd tx)) (it_gen (snd tx))]) tasks.

Lemma fold_step_add : forall b items adds w,
  w_panic w = false ->
  Forall (fun a => a_mode a = Normal /\ a_at a < length items /\ a_at a < length (w_children w)) adds ->
  let w' := fold_left (step_add b mk items) adds w in
  let tasks := add_tasks b items (w_next w) (w_gen w) adds in
  let cd := place_fold tasks (w_children w, w_dom w) in
  w_children w' = fst cd /\ w_dom w' = snd cd /\ w_log w' = w_log w ++ add_log tasks /\
  w_next w' = add_next b items (w_next w) adds /\ w_gen w' = w_gen w + length adds /\
  w_panic w' = false.
Proof.
  intros b items adds. induction adds as [|a adds IH]; intros w Hp H.
  - simpl. rewrite app_nil_r, Nat.add_0_r. repeat split; auto.
  - inversion H as [|? ? [Hm [Hli Hlc]] H']; subst.
    cbn [fold_left]. cbv zeta.
    destruct (nth_error items (a_at a)) as [k|] eqn:Ek.
    2:{ apply nth_error_None in Ek. lia. }
    assert (k = nth (a_at a) items 0%N) as Ek' by (symmetry; apply nth_error_nth; auto).
    pose proof Hlc as Hlc'. apply Nat.ltb_lt in Hlc'.
    assert (step_add b mk items w a =
            {| w_children := set_nth (a_at a) (Some (build_item b k w)) (w_children w);
               w_dom := mount_at (w_children w) (a_at a) (build_item b k w) mk (w_dom w);
               w_log := w_log w ++ [EvBuild k (w_gen w) (a_at a); EvMount k (w_gen w)];
               w_next := snd (b k (w_next w)); w_gen := S (w_gen w); w_panic := false |}) as Es.
    { unfold step_add. rewrite Hp, Ek, Hlc', Hm. reflexivity. }
    rewrite Es. clear Es.
    match goal with |- context [fold_left _ _ ?w1] => set (w1' := w1) end.
    destruct (IH w1') as [Hc [Hd [Hl [Hn [Hg Hp']]]]]; [reflexivity| |].
    { eapply Forall_impl; [|exact H']. intros a' [A1 [A2 A3]]. repeat split; auto.
      unfold w1'. cbn [w_children]. rewrite set_nth_length. auto. }
    rewrite Hc, Hd, Hl, Hn, Hg, Hp'. unfold w1'. cbn [w_children w_dom w_log w_next w_gen].
    cbn [add_tasks add_next]. unfold add_log. cbn [flat_map place_fold fold_left fst snd it_key it_gen].
    unfold build_item. rewrite <- Ek'.
    fold (add_log (add_tasks b items (snd (b k (w_next w))) (S (w_gen w)) adds)).
    cbn [length]. rewrite <- app_assoc.
    repeat split; auto; try lia.
Qed.

(* ------------------------------------------------------------- removals and move-outs *)

Definition clear_at (idxs : list nat) (c : list (option item)) : list (option item) :=
  fold_left (fun c i => set_nth i None c) idxs c.

Lemma clear_at_length : forall idxs c, length (clear_at idxs c) = length c.
Proof.
  unfold clear_at. induction idxs as [|i idxs IH]; intros c; cbn [fold_left]; auto.
  rewrite IH. apply set_nth_length.
Qed.

Lemma clear_at_notin : forall idxs c j, ~ In j idxs -> nth_error (clear_at idxs c) j = nth_error c j.
Proof.
  unfold clear_at. induction idxs as [|i idxs IH]; intros c j H; cbn [fold_left]; auto.
  rewrite IH by (intro; apply H; right; auto). apply nth_set_nth_neq. intro; apply H; left; auto.
Qed.

Lemma clear_at_in : forall idxs c j, In j idxs -> j < length c -> nth_error (clear_at idxs c) j = Some None.
Proof.
  unfold clear_at. induction idxs as [|i idxs IH]; intros c j H Hl; [contradiction|]. cbn [fold_left].
  destruct (in_dec Nat.eq_dec j idxs) as [Hin|Hin].
  - apply IH; auto. rewrite set_nth_length. auto.
  - fold (clear_at idxs (set_nth i None c)). rewrite clear_at_notin; auto.
    destruct H as [E|H]; [subst|contradiction]. apply nth_set_nth_eq. auto.
Qed.

Lemma fold_step_remove : forall (item_at : nat -> item) idxs w,
  w_panic w = false -> NoDup idxs ->
  (forall i, In i idxs -> nth_error (w_children w) i = Some (Some (item_at i))) ->
  let w' := fold_left step_remove idxs w in
  w_children w' = clear_at idxs (w_children w) /\
  w_dom w' = fold_left (fun d i => unmount_item (item_at i) d) idxs (w_dom w) /\
  w_log w' = w_log w ++ map (fun i => EvUnmount (it_key (item_at i)) (it_gen (item_at i))) idxs /\
  w_next w' = w_next w /\ w_gen w' = w_gen w /\ w_panic w' = false.
Proof.
  intros item_at idxs. induction idxs as [|i idxs IH]; intros w Hp Hnd H; cbv zeta.
  - simpl. rewrite app_nil_r. repeat split; auto.
  - inversion Hnd; subst. cbn [fold_left].
    assert (step_remove w i =
            {| w_children := set_nth i None (w_children w);
               w_dom := unmount_item (item_at i) (w_dom w);
               w_log := w_log w ++ [EvUnmount (it_key (item_at i)) (it_gen (item_at i))];
               w_next := w_next w; w_gen := w_gen w; w_panic := false |}) as Es.
    { unfold step_remove. rewrite Hp, (H i (or_introl eq_refl)). reflexivity. }
    rewrite Es. clear Es.
    match goal with |- context [fold_left _ _ ?w1] => set (w1' := w1) end.
    destruct (IH w1') as [Hc [Hd [Hl [Hn [Hg Hp']]]]]; [reflexivity|auto| |].
    { intros j Hj. unfold w1'. cbn [w_children]. rewrite nth_set_nth_neq.
      - apply H. right. auto.
      - intro; subst; contradiction. }
    rewrite Hc, Hd, Hl, Hn, Hg, Hp'. unfold w1'. cbn [w_children w_dom w_log w_next w_gen map].
    rewrite <- app_assoc. repeat split; auto.
Qed.

Lemma fold_step_take : forall (item_at : nat -> item) moves w mc,
  w_panic w = false -> NoDup (map m_from moves) ->
  (forall mv, In mv moves -> nth_error (w_children w) (m_from mv) = Some (Some (item_at (m_from mv)))) ->
  let wm := fold_left step_take moves (w, mc) in
  w_children (fst wm) = clear_at (map m_from moves) (w_children w) /\
  snd wm = mc ++ map (fun mv => Some (item_at (m_from mv))) moves /\
  w_dom (fst wm) = w_dom w /\ w_log (fst wm) = w_log w /\
  w_next (fst wm) = w_next w /\ w_gen (fst wm) = w_gen w /\ w_panic (fst wm) = false.
Proof.
  intros item_at moves. induction moves as [|mv moves IH]; intros w mc Hp Hnd H; cbv zeta.
  - simpl. rewrite app_nil_r. repeat split; auto.
  - cbn [map] in Hnd. inversion Hnd; subst. cbn [fold_left].
    assert (step_take (w, mc) mv =
            ({| w_children := set_nth (m_from mv) None (w_children w); w_dom := w_dom w;
                w_log := w_log w; w_next := w_next w; w_gen := w_gen w; w_panic := false |},
             mc ++ [Some (item_at (m_from mv))])) as Es.
    { unfold step_take. rewrite Hp, (H mv (or_introl eq_refl)). reflexivity. }
    rewrite Es. clear Es.
    match goal with |- context [fold_left _ _ (?w1, _)] => set (w1' := w1) end.
    destruct (IH w1' (mc ++ [Some (item_at (m_from mv))])) as [Hc [Hm [Hd [Hl [Hn [Hg Hp']]]]]];
      [reflexivity|auto| |].
    { intros mv' Hj. unfold w1'. cbn [w_children]. rewrite nth_set_nth_neq.
      - apply H. right. auto.
      - intro E. apply H2. rewrite E. apply in_map. auto. }
    rewrite Hc, Hm, Hd, Hl, Hn, Hg, Hp'. unfold w1'. cbn [w_children w_dom w_log w_next w_gen map].
    rewrite <- app_assoc. repeat split; auto.
Qed.

Lemma unmount_item_diffl : forall it d, unmount_item it d = diffl d (it_nodes it).
Proof. intros. unfold unmount_item. apply unmount_fold. Qed.

Lemma render_unmount_all : forall nodes_of U (item_at : nat -> item) idxs seq,
  good nodes_of pre post mk U -> (forall k, In k seq -> In k U) ->
  (forall i, In i idxs -> In (it_key (item_at i)) U /\
                          nodes_of (it_key (item_at i)) = it_nodes (item_at i)) ->
  fold_left (fun d i => unmount_item (item_at i) d) idxs (render nodes_of pre post mk seq)
  = render nodes_of pre post mk (diffl seq (map (fun i => it_key (item_at i)) idxs)).
Proof.
  intros nodes_of U item_at idxs. induction idxs as [|i idxs IH]; intros seq G HU H.
  - simpl. rewrite diffl_nil_r. reflexivity.
  - cbn [fold_left map]. destruct (H i (or_introl eq_refl)) as [HiU Hin].
    rewrite unmount_item_diffl, <- Hin. rewrite (render_unmount _ _ _ _ _ G); auto.
    rewrite IH; auto.
    + rewrite diffl_cons. reflexivity.
    + intros k Hk. apply remove_node_In in Hk. apply HU. tauto.
    + intros j Hj. apply H. right. auto.
Qed.

(* ------------------------------------------------------ aligned child vectors are sorted *)

Definition aligned (c : list (option item)) : Prop :=
  forall j it, nth_error c j = Some (Some it) -> nth_error to j = Some (it_key it).

Definition tgtk (k : N) : nat := match index_of k to with Some t => t | None => 0 end.

Lemma set_nth_oob : forall {A} i (x : A) l, length l <= i -> set_nth i x l = l.
Proof. induction i; destruct l; simpl; intros; auto; try lia. f_equal. apply IHi. lia. Qed.

Lemma aligned_set : forall c t x, aligned c -> nth_error to t = Some (it_key x) ->
  aligned (set_nth t (Some x) c).
Proof.
  intros c t x Ha Ht j it Hj. destruct (Nat.lt_ge_cases t (length c)) as [Hl|Hl].
  - destruct (Nat.eq_dec t j) as [E|E].
    + subst. rewrite nth_set_nth_eq in Hj; auto. inversion Hj. subst. auto.
    + rewrite nth_set_nth_neq in Hj; auto.
  - rewrite set_nth_oob in Hj; auto.
Qed.

Lemma aligned_sorted_gen : NoDup to -> forall c off,
  (forall j it, nth_error c j = Some (Some it) -> nth_error to (off + j) = Some (it_key it)) ->
  StronglySorted (fun a b => tgtk a < tgtk b) (map it_key (somes c)) /\
  Forall (fun k => off <= tgtk k) (map it_key (somes c)).
Proof.
  intros Hnd. induction c as [|o c IH]; intros off H.
  - simpl. split; constructor.
  - destruct (IH (S off)) as [Hs Hf].
    { intros j it Hj. rewrite Nat.add_succ_l, <- Nat.add_succ_r. apply H. exact Hj. }
    destruct o as [it|]; cbn [somes map].
    + assert (tgtk (it_key it) = off) as Et.
      { unfold tgtk. rewrite (nth_index_of to off (it_key it)); auto.
        rewrite <- (Nat.add_0_r off). apply H. reflexivity. }
      split; constructor; auto; try lia.
      * rewrite Et. eapply Forall_impl; [|exact Hf]. simpl. intros; lia.
      * eapply Forall_impl; [|exact Hf]. simpl. intros; lia.
    + split; auto. eapply Forall_impl; [|exact Hf]. simpl. intros; lia.
Qed.

Lemma aligned_sorted : NoDup to -> forall c, aligned c ->
  StronglySorted (fun a b => tgtk a < tgtk b) (map it_key (somes c)).
Proof. intros Hnd c Ha. apply (aligned_sorted_gen Hnd c 0). intros j it Hj. apply Ha. exact Hj. Qed.

Lemma to_sorted : NoDup to -> StronglySorted (fun a b => tgtk a < tgtk b) to.
Proof.
  intros Hnd.
  set (c := map (fun k => Some {| it_key := k; it_gen := 0; it_nodes := [] |}) to).
  assert (map it_key (somes c) = to) as E.
  { unfold c. rewrite somes_map_Some'. cbn [it_key]. apply map_id. }
  rewrite <- E. apply aligned_sorted; auto.
  intros j it Hj. unfold c in Hj. rewrite nth_error_map in Hj.
  destruct (nth_error to j) as [k|]; simpl in Hj; [|discriminate]. inversion Hj. reflexivity.
Qed.

(* ------------------------------------------------------- moves that do not touch the DOM *)

Lemma same_key_same_item : forall its x y, NoDup (map it_key its) -> In x its -> In y its ->
  it_key x = it_key y -> x = y.
Proof.
  intros its x y Hnd Hx Hy E. pose proof (find_item_In its x Hnd Hx) as H1.
  pose proof (find_item_In its y Hnd Hy) as H2. rewrite E in H1. congruence.
Qed.

Lemma set_nth_somes_cases : forall c t (x it : item), t < length c ->
  In it (somes (set_nth t (Some x) c)) -> it = x \/ In it (somes c).
Proof.
  intros c t x it Hl Hi. apply In_somes_nth in Hi. destruct Hi as [j Hj].
  destruct (Nat.eq_dec t j) as [E|E].
  - subst. rewrite nth_set_nth_eq in Hj; auto. inversion Hj. auto.
  - rewrite nth_set_nth_neq in Hj; auto. right. apply In_somes_nth. eauto.
Qed.

Lemma nondom_ok : forall its xof ms c,
  NoDup (map it_key its) ->
  aligned c -> (forall it, In it (somes c) -> In it its) ->
  (forall mv, In mv ms -> nth_error to (m_to mv) = Some (it_key (xof mv)) /\ In (xof mv) its /\
                          m_to mv < length c) ->
  let c' := nondom_children xof ms c in
  aligned c' /\ (forall it, In it (somes c') -> In it its) /\
  (forall it, In it (somes c) -> In it (somes c')) /\
  (forall mv, In mv ms -> m_dom mv = false -> In (xof mv) (somes c')) /\
  (forall it, In it (somes c') -> In it (somes c) \/ exists mv, In mv ms /\ m_dom mv = false /\ it = xof mv).
Proof.
  intros its xof ms c Hnd. revert c. induction ms as [|mv ms IH]; intros c Ha Ho Hms; cbv zeta.
  - unfold nondom_children. simpl. repeat split; auto. intros mv [].
  - unfold nondom_children. cbn [fold_left].
    fold (nondom_children xof ms (if m_dom mv then c else set_nth (m_to mv) (Some (xof mv)) c)).
    destruct (Hms mv (or_introl eq_refl)) as [Hto [Hin Hlt]].
    destruct (m_dom mv) eqn:Ed.
    + destruct (IH c Ha Ho) as [A1 [A2 [A3 [A4 A5]]]].
      { intros mv' Hmv'. apply Hms. right. auto. }
      repeat split; auto.
      * intros mv' [E|Hmv'] Hd; [subst; congruence | auto].
      * intros it Hit. destruct (A5 it Hit) as [H|[mv' [H1 [H2 H3]]]]; auto.
        right. exists mv'. repeat split; auto. right. auto.
    + set (c1 := set_nth (m_to mv) (Some (xof mv)) c).
      assert (aligned c1) as Ha1 by (apply aligned_set; auto).
      assert (forall it, In it (somes c1) -> In it its) as Ho1.
      { intros it Hit. apply set_nth_somes_cases in Hit; auto. destruct Hit; [subst|]; auto. }
      assert (forall it, In it (somes c) -> In it (somes c1)) as Hmono.
      { intros it Hit. apply In_somes_nth in Hit. destruct Hit as [j Hj]. apply In_somes_nth.
        exists j. unfold c1. destruct (Nat.eq_dec (m_to mv) j) as [E|E].
        - rewrite <- E in *. rewrite nth_set_nth_eq; auto.
          pose proof (Ha _ _ Hj) as Hk. rewrite Hto in Hk. inversion Hk as [Hk'].
          assert (In it its) as Hit by (apply Ho; apply In_somes_nth; eauto).
          rewrite (same_key_same_item its (xof mv) it); auto.
        - rewrite nth_set_nth_neq; auto. }
      assert (In (xof mv) (somes c1)) as Hx1.
      { apply In_somes_nth. exists (m_to mv). unfold c1. apply nth_set_nth_eq. auto. }
      destruct (IH c1 Ha1 Ho1) as [A1 [A2 [A3 [A4 A5]]]].
      { intros mv' Hmv'. destruct (Hms mv' (or_intror Hmv')) as [B1 [B2 B3]].
        repeat split; auto. unfold c1. rewrite set_nth_length. auto. }
      repeat split; auto.
      * intros mv' [E|Hmv'] Hd; [subst; auto | auto].
      * intros it Hit. destruct (A5 it Hit) as [H|[mv' [H1 [H2 H3]]]].
        -- apply set_nth_somes_cases in H; auto. destruct H as [H|H]; auto.
           right. exists mv. repeat split; auto. left. auto.
        -- right. exists mv'. repeat split; auto. right. auto.
Qed.

(* --------------------------------------------------------------------- newly built items *)

Lemma add_tasks_fst : forall b items adds next gen,
  map fst (add_tasks b items next gen adds) = map a_at adds.
Proof. induction adds as [|a adds IH]; intros; cbn [add_tasks map fst]; [|rewrite IH]; reflexivity. Qed.

Lemma add_tasks_keys : forall b items adds next gen,
  map (fun tx => it_key (snd tx)) (add_tasks b items next gen adds)
  = map (fun a => nth (a_at a) items 0%N) adds.
Proof. induction adds as [|a adds IH]; intros; cbn [add_tasks map snd it_key]; [|rewrite IH]; reflexivity. Qed.

Lemma map_seq_shift : forall {A} (f : nat -> A) s k, map f (seq s k) = map (fun j => f (s + j)) (seq 0 k).
Proof.
  intros A f s k. revert s. induction k as [|k IH]; intros s; [reflexivity|].
  cbn [seq map]. rewrite Nat.add_0_r. f_equal. rewrite IH. rewrite <- seq_shift, map_map.
  apply map_ext. intros j. f_equal. lia.
Qed.

(** what a builder must guarantee: at least one node, all fresh and distinct *)
Definition bld_ok (b : builder) : Prop :=
  forall k nx, fst (b k nx) <> [] /\ NoDup (fst (b k nx)) /\
               (forall n, In n (fst (b k nx)) -> (nx <= n < snd (b k nx))%N).

Lemma bld_ok_mono : forall b k nx, bld_ok b -> (nx <= snd (b k nx))%N.
Proof.
  intros b k nx H. destruct (H k nx) as [Hne [_ Hr]]. destruct (fst (b k nx)) as [|n l]; [congruence|].
  specialize (Hr n (or_introl eq_refl)). lia.
Qed.

Lemma fixed_bld_ok : forall m, 1 <= m -> bld_ok (fixed_bld m).
Proof.
  intros m Hm k nx. unfold fixed_bld. cbn [fst snd]. repeat split.
  - destruct m; [lia|]. discriminate.
  - apply FinFun.Injective_map_NoDup; [|apply seq_NoDup].
    intros x y E. apply N.add_cancel_l in E. apply Nat2N.inj. exact E.
  - apply in_map_iff in H. destruct H as [j [E _]]. lia.
  - apply in_map_iff in H. destruct H as [j [E Hj]]. apply in_seq in Hj. lia.
Qed.

Lemma var_bld_ok : forall m, (forall k, 1 <= m k) -> bld_ok (var_bld m).
Proof.
  intros m Hm k nx. unfold var_bld. cbn [fst snd]. specialize (Hm k). repeat split.
  - destruct (m k); [lia|]. discriminate.
  - apply FinFun.Injective_map_NoDup; [|apply seq_NoDup].
    intros x y E. apply N.add_cancel_l in E. apply Nat2N.inj. exact E.
  - apply in_map_iff in H. destruct H as [j [E _]]. lia.
  - apply in_map_iff in H. destruct H as [j [E Hj]]. apply in_seq in Hj. lia.
Qed.

Lemma add_tasks_range : forall b items adds next gen, bld_ok b ->
  NoDup (flat_map it_nodes (map snd (add_tasks b items next gen adds))) /\
  (forall n, In n (flat_map it_nodes (map snd (add_tasks b items next gen adds))) ->
             (next <= n < add_next b items next adds)%N) /\
  (next <= add_next b items next adds)%N.
Proof.
  intros b items adds. induction adds as [|a adds IH]; intros next gen Hb.
  - simpl. split; [constructor|]. split; [intros n []|lia].
  - cbn [add_tasks map flat_map snd it_nodes add_next].
    set (k := nth (a_at a) items 0%N). destruct (Hb k next) as [Hne [Hnd Hr]].
    pose proof (bld_ok_mono b k next Hb) as Hm.
    destruct (IH (snd (b k next)) (S gen) Hb) as [I1 [I2 I3]]. repeat split.
    + clear -Hnd I1 I2 Hr. revert Hnd Hr. generalize (fst (b k next)) as l. induction l as [|x l IHl]; intros Hnd Hr; auto.
      simpl. inversion Hnd; subst. constructor.
      * intro Hc. apply in_app_or in Hc. destruct Hc as [Hc|Hc]; [contradiction|].
        specialize (I2 x Hc). specialize (Hr x (or_introl eq_refl)). lia.
      * apply IHl; auto. intros; apply Hr; right; auto.
    + apply in_app_or in H. destruct H as [H|H]; [specialize (Hr n H); lia | specialize (I2 n H); lia].
    + apply in_app_or in H. destruct H as [H|H]; [specialize (Hr n H); lia | specialize (I2 n H); lia].
    + lia.
Qed.

Lemma add_tasks_nonempty : forall b items adds next gen it, bld_ok b ->
  In it (map snd (add_tasks b items next gen adds)) -> it_nodes it <> [].
Proof.
  induction adds as [|a adds IH]; intros next gen it Hb Hin; [contradiction|].
  cbn [add_tasks map snd] in Hin. destruct Hin as [E|Hin].
  - subst. cbn [it_nodes]. apply Hb.
  - eapply IH; eauto.
Qed.

Fixpoint build_items (b : builder) (ks : list N) (next : N) (gen : nat) : list item :=
  match ks with
  | [] => []
  | k :: r => {| it_key := k; it_gen := gen; it_nodes := fst (b k next) |}
              :: build_items b r (snd (b k next)) (S gen)
  end.
Fixpoint build_next (b : builder) (ks : list N) (next : N) : N :=
  match ks with [] => next | k :: r => build_next b r (snd (b k next)) end.

Lemma build_items_keys : forall b ks next gen, map it_key (build_items b ks next gen) = ks.
Proof. induction ks as [|k ks IH]; intros; cbn [build_items map it_key]; [|rewrite IH]; reflexivity. Qed.

Lemma build_items_range : forall b ks next gen, bld_ok b ->
  NoDup (flat_map it_nodes (build_items b ks next gen)) /\
  (forall n, In n (flat_map it_nodes (build_items b ks next gen)) -> (next <= n < build_next b ks next)%N) /\
  (next <= build_next b ks next)%N.
Proof.
  intros b ks. induction ks as [|k ks IH]; intros next gen Hb.
  - simpl. split; [constructor|]. split; [intros n []|lia].
  - cbn [build_items flat_map it_nodes build_next]. destruct (Hb k next) as [Hne [Hnd Hr]].
    pose proof (bld_ok_mono b k next Hb) as Hm.
    destruct (IH (snd (b k next)) (S gen) Hb) as [I1 [I2 I3]]. repeat split.
    + clear -Hnd I1 I2 Hr. revert Hnd Hr. generalize (fst (b k next)) as l. induction l as [|x l IHl]; intros Hnd Hr; auto.
      simpl. inversion Hnd; subst. constructor.
      * intro Hc. apply in_app_or in Hc. destruct Hc as [Hc|Hc]; [contradiction|].
        specialize (I2 x Hc). specialize (Hr x (or_introl eq_refl)). lia.
      * apply IHl; auto. intros; apply Hr; right; auto.
    + apply in_app_or in H. destruct H as [H|H]; [specialize (Hr n H); lia | specialize (I2 n H); lia].
    + apply in_app_or in H. destruct H as [H|H]; [specialize (Hr n H); lia | specialize (I2 n H); lia].
    + lia.
Qed.

Lemma build_items_nonempty : forall b ks next gen it, bld_ok b ->
  In it (build_items b ks next gen) -> it_nodes it <> [].
Proof.
  induction ks as [|k ks IH]; intros next gen it Hb Hin; [contradiction|].
  cbn [build_items] in Hin. destruct Hin as [E|Hin].
  - subst. cbn [it_nodes]. apply Hb.
  - eapply IH; eauto.
Qed.


Lemma add_tasks_build_items : forall b items adds next gen,
  map snd (add_tasks b items next gen adds)
  = build_items b (map (fun x => nth (a_at x) items 0%N) adds) next gen.
Proof.
  induction adds as [|a adds IH]; intros next gen; [reflexivity|].
  cbn [add_tasks map snd build_items]. rewrite IH. reflexivity.
Qed.

Lemma add_next_build_next : forall b items adds next,
  add_next b items next adds = build_next b (map (fun x => nth (a_at x) items 0%N) adds) next.
Proof. induction adds as [|a adds IH]; intros next; [reflexivity|]. cbn [add_next map build_next]. apply IH. Qed.

Lemma sorted_unique_nat : forall l1 l2 : list nat,
  StronglySorted lt l1 -> StronglySorted lt l2 -> (forall x, In x l1 <-> In x l2) -> l1 = l2.
Proof.
  induction l1 as [|a l1 IH]; intros l2 S1 S2 E.
  - destruct l2 as [|b l2]; auto. exfalso. apply (E b). left. auto.
  - destruct l2 as [|b l2]. { exfalso. apply (E a). left. auto. }
    inversion S1 as [|? ? S1' F1]; subst. inversion S2 as [|? ? S2' F2]; subst.
    rewrite Forall_forall in F1, F2.
    assert (a = b) as ->.
    { destruct (E a) as [Ha _]. destruct (Ha (or_introl eq_refl)) as [Hb|Hb]; auto.
      destruct (E b) as [_ Hb']. destruct (Hb' (or_introl eq_refl)) as [Hc|Hc]; auto.
      specialize (F1 _ Hc). specialize (F2 _ Hb). lia. }
    f_equal. apply IH; auto. intros x. split; intros H.
    + destruct (E x) as [Hx _]. destruct (Hx (or_intror H)) as [Hb|Hb]; auto.
      subst. specialize (F1 _ H). lia.
    + destruct (E x) as [_ Hx]. destruct (Hx (or_intror H)) as [Hb|Hb]; auto.
      subst. specialize (F2 _ H). lia.
Qed.

Lemma NoDup_app_intro : forall {A} (a b : list A), NoDup a -> NoDup b ->
  (forall x, In x a -> ~ In x b) -> NoDup (a ++ b).
Proof.
  induction a as [|x a IH]; intros b Ha Hb H; auto. simpl. inversion Ha; subst.
  constructor.
  - intro Hc. apply in_app_or in Hc. destruct Hc; [contradiction|]. eapply H; eauto. left. auto.
  - apply IH; auto. intros y Hy. apply H. right. auto.
Qed.

Lemma fresh_nodes_NoDup : forall next K,
  NoDup (map (fun j => (next + N.of_nat j)%N) (seq 0 K)).
Proof.
  intros. apply FinFun.Injective_map_NoDup; [|apply seq_NoDup].
  intros x y E. apply N.add_cancel_l in E. apply Nat2N.inj. exact E.
Qed.

Lemma wf_extend : forall next next' its news,
  wf_items pre post mk next its ->
  NoDup (map it_key news) -> (forall k, In k (map it_key news) -> ~ In k (map it_key its)) ->
  NoDup (flat_map it_nodes news) ->
  (forall n, In n (flat_map it_nodes news) -> (next <= n < next')%N) -> (next <= next')%N ->
  (forall it, In it news -> it_nodes it <> []) ->
  wf_items pre post mk next' (its ++ news).
Proof.
  intros next next' its news [Hk Hd Hne Hfr] Hnk Hdisj Hfnd Hrange Hle Hnn.
  constructor.
  - rewrite map_app. apply NoDup_app_intro; auto. intros k H1 H2. eapply Hdisj; eauto.
  - rewrite flat_map_app.
    eapply Permutation_NoDup with (l := flat_map it_nodes news ++ pre ++ flat_map it_nodes its ++ mk :: post).
    + eapply perm_trans; [apply Permutation_app_swap_app|]. apply Permutation_app_head.
      rewrite <- app_assoc. apply Permutation_app_swap_app.
    + apply NoDup_app_intro; auto.
      intros n Hn Hc. apply Hrange in Hn. apply Hfr in Hc. lia.
  - intros it Hit. apply in_app_or in Hit. destruct Hit; auto.
  - intros n Hn. rewrite flat_map_app in Hn.
    assert (In n (pre ++ flat_map it_nodes its ++ mk :: post) \/ In n (flat_map it_nodes news)) as [H|H].
    { rewrite !in_app_iff in *. tauto. }
    + apply Hfr in H. lia.
    + apply Hrange in H. lia.
Qed.

(* ------------------------------------------------------------ the general case, assembled *)

(** [apply_diff] once [diff] said: no clear, removals [r], single moves [ms], additions [a] *)
Definition apply_general (b : builder) (r : list nat) (ms : list mv) (a : list addop)
                         (items : list N) (w : work) : work :=
  let w := fold_left step_remove r w in
  let '(w, mc) := fold_left step_take ms (w, []) in
  let w := with_children w (w_children w ++ repeat None (length a)) in
  let w := fold_left (step_nondom mc) (enumerate_from 0 ms) w in
  let w := fold_left (step_dom mk mc) (enumerate_from 0 ms) w in
  let w := fold_left (step_add b mk items) a w in
  with_children w (map Some (somes (w_children w))).

Lemma apply_diff_general : forall b d r ms a items w,
  d_clear d = false -> d_removed d = r -> d_added d = a -> unpack_moves d = (ms, a) ->
  apply_diff b mk d items w = apply_general b r ms a items w.
Proof.
  intros b d r ms a items w Hc Hr Ha Hu. unfold apply_diff, apply_general.
  rewrite Hc, Hr, Ha, Hu. cbn [andb]. reflexivity.
Qed.

Section Main.
Variable b : builder.
Hypothesis Hbld : bld_ok b.
Variable its : list item.
Variable next : N.
Variable gen : nat.
Hypothesis Hwf : wf_items pre post mk next its.
Hypothesis Hto : NoDup to.
Variable r : list nat.
Variable ms : list mv.
Variable a : list addop.
Hypothesis LS : loop_spec (map it_key its) to (Nat.max (length (map it_key its)) (length to)) 0 None r ms a.

Let from := map it_key its.
Let dummy : item := {| it_key := 0%N; it_gen := 0; it_nodes := [] |}.
Let item_at (i : nat) : item := nth i its dummy.
Let xof (mv : mv) : item := item_at (m_from mv).
Let tasksA := add_tasks b to next gen a.
Let news := map snd tasksA.
Let all := its ++ news.
Let nodes_of := nodes_in all.
Let U := map it_key all.

Lemma from_nth : forall i f, nth_error from i = Some f ->
  nth_error its i = Some (item_at i) /\ it_key (item_at i) = f /\ In (item_at i) its /\ i < length its.
Proof.
  intros i f H. unfold from in H. rewrite nth_error_map in H.
  destruct (nth_error its i) as [it|] eqn:E; simpl in H; [|discriminate]. inversion H. subst.
  assert (item_at i = it) as Ei by (unfold item_at; apply nth_error_nth; auto).
  rewrite Ei. repeat split; auto.
  - eapply nth_error_In; eauto.
  - apply nth_error_Some. congruence.
Qed.

Lemma from_nodup : NoDup from.
Proof. exact (wf_keys _ _ _ _ _ Hwf). Qed.

Lemma ms_facts : forall mv, In mv ms ->
  m_from mv < length its /\ nth_error its (m_from mv) = Some (xof mv) /\ In (xof mv) its /\
  nth_error from (m_from mv) = Some (it_key (xof mv)) /\
  index_of (it_key (xof mv)) to = Some (m_to mv) /\
  nth_error to (m_to mv) = Some (it_key (xof mv)) /\ m_to mv < length to /\ In (it_key (xof mv)) to.
Proof.
  intros mv Hmv. pose proof (ls_mv_ok _ _ _ _ _ _ _ _ LS) as H. rewrite Forall_forall in H.
  destruct (H mv Hmv) as [_ [_ [f [Hf Hi]]]]. fold from in Hf.
  destruct (from_nth _ _ Hf) as [H1 [H2 [H3 H4]]]. unfold xof. rewrite H2.
  pose proof (index_of_nth _ _ _ Hi) as Hn.
  repeat split; auto.
  - eapply index_of_Some_lt; eauto.
  - eapply nth_error_In; eauto.
Qed.

Lemma froms_nodup : NoDup (map m_from ms).
Proof. apply StronglySorted_lt_NoDup. exact (ls_mv_sorted _ _ _ _ _ _ _ _ LS). Qed.

Lemma r_facts : forall i, In i r ->
  nth_error its i = Some (item_at i) /\ In (item_at i) its /\ ~ In (it_key (item_at i)) to.
Proof.
  intros i Hi. apply (ls_rem _ _ _ _ _ _ _ _ LS) in Hi. destruct Hi as [_ [f [Hf Hn]]].
  fold from in Hf. destruct (from_nth _ _ Hf) as [H1 [H2 [H3 H4]]]. rewrite H2. auto.
Qed.

Lemma r_nodup : NoDup r.
Proof. apply StronglySorted_lt_NoDup. exact (ls_rem_sorted _ _ _ _ _ _ _ _ LS). Qed.

Lemma a_facts : forall x, In x a ->
  a_mode x = Normal /\ exists t, nth_error to (a_at x) = Some t /\ ~ In t from /\ nth (a_at x) to 0%N = t.
Proof.
  intros x Hx. pose proof (ls_add_mode _ _ _ _ _ _ _ _ LS) as Hmo. rewrite Forall_forall in Hmo.
  split; [auto|]. assert (In (a_at x) (map a_at a)) as Hi by (apply in_map; auto).
  apply (ls_add _ _ _ _ _ _ _ _ LS) in Hi. destruct Hi as [_ [t [Ht Hn]]]. exists t.
  repeat split; auto. apply nth_error_nth. auto.
Qed.

(** every index of [to] is within the resized child vector *)
Lemma to_length_bound : length to <= length its + length a.
Proof.
  assert (length (filter (fun k => memN k from) to) <= length from) as H1.
  { apply NoDup_incl_length; [apply NoDup_filter; auto|]. intros k Hk. apply filter_In in Hk.
    apply memN_In. tauto. }
  assert (length (filter (fun k => negb (memN k from)) to) <= length a) as H2.
  { rewrite <- (map_length (fun x => nth (a_at x) to 0%N) a).
    apply NoDup_incl_length; [apply NoDup_filter; auto|]. intros k Hk. apply filter_In in Hk.
    destruct Hk as [Hk Hn]. apply negb_true_iff, memN_false in Hn.
    apply In_nth_error in Hk. destruct Hk as [j Hj].
    assert (In j (map a_at a)) as Hja.
    { apply (ls_add _ _ _ _ _ _ _ _ LS). split; [|eauto]. split; [lia|].
      assert (j < length to) by (apply nth_error_Some; congruence). lia. }
    apply in_map_iff in Hja. destruct Hja as [x [Ex Hx]]. apply in_map_iff. exists x. split; auto.
    rewrite Ex. apply nth_error_nth. auto. }
  assert (length to = length (filter (fun k => memN k from) to)
                      + length (filter (fun k => negb (memN k from)) to)) as H3.
  { clear. induction to as [|k l IH]; [reflexivity|]. cbn [filter]. destruct (memN k from); simpl; lia. }
  unfold from in *. rewrite map_length in H1. lia.
Qed.

Lemma news_keys : map it_key news = map (fun x => nth (a_at x) to 0%N) a.
Proof. unfold news, tasksA. rewrite map_map. apply add_tasks_keys. Qed.

Lemma news_key_facts : forall k, In k (map it_key news) -> In k to /\ ~ In k from.
Proof.
  intros k Hk. rewrite news_keys in Hk. apply in_map_iff in Hk. destruct Hk as [x [E Hx]].
  destruct (a_facts x Hx) as [_ [t [Ht [Hn En]]]]. rewrite <- E, En. split; auto.
  eapply nth_error_In; eauto.
Qed.

Lemma news_keys_nodup : NoDup (map it_key news).
Proof.
  rewrite news_keys.
  pose proof (ls_add_sorted _ _ _ _ _ _ _ _ LS) as Hs.
  assert (forall x, In x a -> nth_error to (a_at x) = Some (nth (a_at x) to 0%N)) as Hn.
  { intros x Hx. destruct (a_facts x Hx) as [_ [t [Ht [_ En]]]]. congruence. }
  clear - Hs Hn Hto. induction a as [|x l IH]; [constructor|]. cbn [map] in *.
  inversion Hs as [|? ? Hs' Hf]; subst. constructor.
  - intro Hc. apply in_map_iff in Hc. destruct Hc as [y [E Hy]].
    assert (a_at y = a_at x).
    { pose proof (Hn x (or_introl eq_refl)) as H1. pose proof (Hn y (or_intror Hy)) as H2.
      rewrite <- E in H1. eapply NoDup_nth_error; eauto.
      - apply nth_error_Some. congruence.
      - congruence. }
    rewrite Forall_forall in Hf. specialize (Hf (a_at y) (in_map a_at l y Hy)). lia.
  - apply IH; auto. intros y Hy. apply Hn. right. auto.
Qed.

Definition newkeys : list N := filter (fun k => negb (memN k from)) to.

Lemma newkeys_eq : map (fun x => nth (a_at x) to 0%N) a = newkeys.
Proof.
  unfold newkeys.
  transitivity (map (fun i => nth i to 0%N)
                    (filter (fun i => negb (memN (nth i to 0%N) from)) (seq 0 (length to)))).
  2:{ rewrite <- (filter_map_swap (fun k => negb (memN k from)) (fun i => nth i to 0%N)).
      rewrite list_map_nth. reflexivity. }
  rewrite <- (map_map a_at (fun i => nth i to 0%N)). f_equal.
  apply sorted_unique_nat.
  - exact (ls_add_sorted _ _ _ _ _ _ _ _ LS).
  - apply StronglySorted_filter. apply seq_sorted.
  - intros i. rewrite (ls_add _ _ _ _ _ _ _ _ LS), filter_In, in_seq. split.
    + intros [Hr [t [Ht Hn]]]. assert (i < length to) by (apply nth_error_Some; congruence).
      split; [lia|]. apply negb_true_iff, memN_false. rewrite (nth_error_nth _ _ _ Ht). exact Hn.
    + intros [Hr Hn]. split; [lia|]. exists (nth i to 0%N). split.
      * apply nth_error_nth'. lia.
      * apply negb_true_iff, memN_false in Hn. exact Hn.
Qed.

Lemma news_eq : news = build_items b newkeys next gen.
Proof. unfold news, tasksA. rewrite add_tasks_build_items, newkeys_eq. reflexivity. Qed.

Lemma next_eq : add_next b to next a = build_next b newkeys next.
Proof. rewrite add_next_build_next, newkeys_eq. reflexivity. Qed.

Lemma length_a : length a = length newkeys.
Proof. rewrite <- newkeys_eq, map_length. reflexivity. Qed.

Lemma wf_all : wf_items pre post mk (add_next b to next a) all.
Proof.
  unfold all. destruct (add_tasks_range b to a next gen Hbld) as [R1 [R2 R3]].
  apply (wf_extend next); auto.
  - apply news_keys_nodup.
  - intros k Hk. apply news_key_facts in Hk. tauto.
  - intros it Hit. eapply add_tasks_nonempty; eauto.
Qed.

Lemma good_all : good nodes_of pre post mk U.
Proof. unfold nodes_of, U. eapply good_of_wf. apply wf_all. Qed.

Lemma all_nodes : forall it, In it all -> nodes_of (it_key it) = it_nodes it /\ In (it_key it) U /\ it_nodes it <> [].
Proof.
  intros it Hit. repeat split.
  - unfold nodes_of. apply nodes_in_item; auto. exact (wf_keys _ _ _ _ _ wf_all).
  - unfold U. apply in_map. auto.
  - exact (wf_nonempty _ _ _ _ _ wf_all it Hit).
Qed.

Let c2 := clear_at (map m_from ms) (clear_at r (map Some its)).
Let c3 := c2 ++ repeat None (length a).
Let c4 := nondom_children xof ms c3.
Let rkeys := map (fun i => it_key (item_at i)) r.
Let seq1 := diffl from rkeys.

Lemma c2_length : length c2 = length its.
Proof. unfold c2. rewrite !clear_at_length, map_length. reflexivity. Qed.

Lemma c3_length : length c3 = length its + length a.
Proof. unfold c3. rewrite app_length, c2_length, repeat_length. reflexivity. Qed.

Lemma c3_nth : forall j it, nth_error c3 j = Some (Some it) <->
  (nth_error its j = Some it /\ ~ In j r /\ ~ In j (map m_from ms)).
Proof.
  intros j it. unfold c3. destruct (Nat.lt_ge_cases j (length c2)) as [Hl|Hl].
  - rewrite nth_error_app1 by auto. unfold c2.
    destruct (in_dec Nat.eq_dec j (map m_from ms)) as [Hf|Hf].
    { rewrite clear_at_in; auto.
      - split; [discriminate | tauto].
      - rewrite clear_at_length, map_length. rewrite c2_length in Hl. auto. }
    rewrite clear_at_notin by auto.
    destruct (in_dec Nat.eq_dec j r) as [Hr|Hr].
    { rewrite clear_at_in; auto.
      - split; [discriminate | tauto].
      - rewrite map_length. rewrite c2_length in Hl. auto. }
    rewrite clear_at_notin by auto. rewrite nth_error_map.
    destruct (nth_error its j); simpl; split.
    + intros H. inversion H. auto.
    + intros [H _]. congruence.
    + discriminate.
    + intros [H _]. discriminate.
  - rewrite nth_error_app2 by auto. split.
    + intros H. exfalso.
      assert (In (Some it) (repeat (@None item) (length a))) as Hin by (eapply nth_error_In; eauto).
      apply repeat_spec in Hin. discriminate.
    + intros [H _]. exfalso. rewrite c2_length in Hl.
      assert (j < length its) by (apply nth_error_Some; congruence). lia.
Qed.

Lemma not_removed_in_to : forall j f, nth_error from j = Some f -> ~ In j r -> In f to.
Proof.
  intros j f Hf Hr. destruct (in_dec N.eq_dec f to) as [H|H]; auto. exfalso. apply Hr.
  apply (ls_rem _ _ _ _ _ _ _ _ LS). split; [|fold from; eauto].
  assert (j < length from) by (apply nth_error_Some; congruence). unfold from in *. lia.
Qed.

Lemma kept_fixed_target : forall j f, nth_error from j = Some f -> ~ In j r -> ~ In j (map m_from ms) ->
  nth_error to j = Some f.
Proof.
  intros j f Hf Hr Hm'. pose proof (not_removed_in_to _ _ Hf Hr) as Hin.
  destruct (index_of_In _ _ Hin) as [t Ht].
  destruct (Nat.eq_dec t j) as [E|E].
  - subst. apply index_of_nth. auto.
  - exfalso. apply Hm'. eapply (ls_mv_all _ _ _ _ _ _ _ _ LS); eauto.
    assert (j < length from) by (apply nth_error_Some; congruence). unfold from in *. lia.
Qed.

Lemma its_from : forall j it, nth_error its j = Some it -> nth_error from j = Some (it_key it) /\ it = item_at j.
Proof.
  intros j it H. split.
  - unfold from. apply map_nth_error. auto.
  - unfold item_at. symmetry. apply nth_error_nth. auto.
Qed.

Lemma c3_aligned : aligned c3.
Proof.
  intros j it Hj. apply c3_nth in Hj. destruct Hj as [Hi [Hr Hm']].
  destruct (its_from _ _ Hi) as [Hf _]. eapply kept_fixed_target; eauto.
Qed.

Lemma c3_old : forall it, In it (somes c3) -> In it its.
Proof.
  intros it Hit. apply In_somes_nth in Hit. destruct Hit as [j Hj]. apply c3_nth in Hj.
  destruct Hj as [Hi _]. eapply nth_error_In; eauto.
Qed.

Lemma c4_facts :
  aligned c4 /\ (forall it, In it (somes c4) -> In it its) /\
  (forall it, In it (somes c3) -> In it (somes c4)) /\
  (forall mv, In mv ms -> m_dom mv = false -> In (xof mv) (somes c4)) /\
  (forall it, In it (somes c4) -> In it (somes c3) \/ exists mv, In mv ms /\ m_dom mv = false /\ it = xof mv).
Proof.
  unfold c4. apply (nondom_ok its); auto.
  - exact (wf_keys _ _ _ _ _ Hwf).
  - apply c3_aligned.
  - apply c3_old.
  - intros mv Hmv. destruct (ms_facts mv Hmv) as [H1 [H2 [H3 [H4 [H5 [H6 [H7 H8]]]]]]].
    repeat split; auto. rewrite c3_length. pose proof to_length_bound. lia.
Qed.

Lemma domb_false_iff : forall i, domb ms i = false <-> (forall mv, In mv ms -> m_from mv = i -> m_dom mv = false).
Proof.
  intros i. unfold domb. split.
  - intros H mv Hmv E. destruct (m_dom mv) eqn:Ed; auto.
    assert (existsb (fun m0 => (m_from m0 =? i) && m_dom m0) ms = true) as Hc.
    { apply existsb_exists. exists mv. split; auto. rewrite E, Nat.eqb_refl, Ed. reflexivity. }
    congruence.
  - intros H. apply not_true_is_false. intro Hc. apply existsb_exists in Hc.
    destruct Hc as [mv [Hmv Hb]]. apply andb_true_iff in Hb. destruct Hb as [H1 H2].
    apply Nat.eqb_eq in H1. rewrite (H mv Hmv H1) in H2. discriminate.
Qed.

Lemma ms_from_inj : forall mv mv', In mv ms -> In mv' ms -> m_from mv = m_from mv' -> mv = mv'.
Proof.
  pose proof froms_nodup as Hnd. clear - Hnd. induction ms as [|x l IH]; intros mv mv' H1 H2 E; [contradiction|].
  cbn [map] in Hnd. inversion Hnd; subst. destruct H1 as [H1|H1]; destruct H2 as [H2|H2]; subst; auto.
  - exfalso. apply H3. rewrite E. apply in_map. auto.
  - exfalso. apply H3. rewrite <- E. apply in_map. auto.
Qed.

(** the keys placed before any DOM move are exactly those of the items left in place *)
Lemma c4_keys : forall i f, nth_error from i = Some f ->
  (In f (map it_key (somes c4)) <-> statb from to ms i = true).
Proof.
  intros i f Hf. destruct c4_facts as [A1 [A2 [A3 [A4 A5]]]]. pose proof from_nodup as Hnd.
  destruct (from_nth _ _ Hf) as [Hi [Hk [Hin Hlt]]]. unfold statb. split.
  - intros H. apply in_map_iff in H. destruct H as [it [Ek Hit]].
    destruct (A5 it Hit) as [H3|[mv [Hmv [Hd Ex]]]].
    + apply In_somes_nth in H3. destruct H3 as [j Hj]. apply c3_nth in Hj. destruct Hj as [Hj [Hr Hm']].
      destruct (its_from _ _ Hj) as [Hfj _]. rewrite Ek in Hfj.
      assert (i = j) as -> by (eapply nodup_nth_inj; eauto).
      apply andb_true_iff. split.
      * unfold retb. rewrite Hf. apply memN_In. eapply not_removed_in_to; eauto.
      * apply negb_true_iff. apply domb_false_iff. intros mv Hmv E. exfalso. apply Hm'.
        rewrite <- E. apply in_map. auto.
    + destruct (ms_facts mv Hmv) as [M1 [M2 [M3 [M4 [M5 [M6 [M7 M8]]]]]]].
      subst it. rewrite Ek in M4.
      assert (i = m_from mv) as -> by (eapply nodup_nth_inj; eauto).
      apply andb_true_iff. split.
      * unfold retb. rewrite Hf. apply memN_In. rewrite <- Ek. auto.
      * apply negb_true_iff. apply domb_false_iff. intros mv' Hmv' E.
        rewrite (ms_from_inj mv' mv); auto.
  - intros H. apply andb_true_iff in H. destruct H as [Hr Hd]. apply negb_true_iff in Hd.
    unfold retb in Hr. rewrite Hf in Hr. apply memN_In in Hr.
    destruct (in_dec Nat.eq_dec i (map m_from ms)) as [Hm'|Hm'].
    + apply in_map_iff in Hm'. destruct Hm' as [mv [E Hmv]].
      pose proof (proj1 (domb_false_iff i) Hd mv Hmv E) as Hdm.
      apply in_map_iff. exists (xof mv). split; auto. unfold xof. rewrite E. auto.
    + assert (~ In i r) as Hnr.
      { intro Hc. destruct (r_facts i Hc) as [_ [_ Hn]]. apply Hn. rewrite Hk. auto. }
      apply in_map_iff. exists (item_at i). split; auto. apply A3. apply In_somes_nth. exists i.
      apply c3_nth. auto.
Qed.

Lemma stat_seq_from : filter (statb from to ms) (seq 0 (Nat.max (length from) (length to)))
                      = filter (statb from to ms) (seq 0 (length from)).
Proof.
  assert (Nat.max (length from) (length to) = length from + (Nat.max (length from) (length to) - length from)) as E by lia.
  rewrite E, seq_app, filter_app. rewrite (filter_all_false _ (seq (0 + length from) _)).
  - apply app_nil_r.
  - intros i Hi. apply in_seq in Hi. unfold statb, retb.
    assert (nth_error from i = None) as -> by (apply nth_error_None; lia). reflexivity.
Qed.

Lemma tgt_tgtk : forall i, i < length from -> tgt from to i = tgtk (nth i from 0%N).
Proof.
  intros i Hi. unfold tgt, tgtk. rewrite (nth_error_nth' from 0%N Hi). reflexivity.
Qed.

Lemma stat_sorted :
  StronglySorted (fun x y => tgtk x < tgtk y)
                 (filter (fun k => memN k (map it_key (somes c4))) from).
Proof.
  pose proof from_nodup as Hnd.
  rewrite <- (list_map_nth from 0%N) at 1. rewrite filter_map_swap.
  apply StronglySorted_map.
  assert (filter (fun i => memN (nth i from 0%N) (map it_key (somes c4))) (seq 0 (length from))
          = filter (statb from to ms) (seq 0 (length from))) as ->.
  { apply filter_ext_in. intros i Hi. apply in_seq in Hi.
    assert (nth_error from i = Some (nth i from 0%N)) as Hf by (apply nth_error_nth'; lia).
    pose proof (c4_keys i _ Hf) as Hk.
    destruct (statb from to ms i); destruct (memN (nth i from 0%N) (map it_key (somes c4))) eqn:E; auto.
    - apply memN_false in E. exfalso. apply E. apply Hk. reflexivity.
    - apply memN_In in E. apply Hk in E. discriminate. }
  pose proof (ls_stat_sorted _ _ _ _ _ _ _ _ LS) as Hs. fold from in Hs. rewrite stat_seq_from in Hs.
  eapply sorted_strengthen; [exact Hs | apply NoDup_filter; apply seq_NoDup |].
  intros x y Hx Hy Hxy Hle. apply filter_In in Hx, Hy. destruct Hx as [Hx Sx]. destruct Hy as [Hy Sy].
  apply in_seq in Hx, Hy. rewrite <- !tgt_tgtk by lia.
  cbv beta in Hle. assert (tgt from to x <> tgt from to y); [|lia].
  unfold statb in Sx, Sy. apply andb_true_iff in Sx, Sy. destruct Sx as [Rx _]. destruct Sy as [Ry _].
  unfold retb in Rx, Ry. unfold tgt.
  destruct (nth_error from x) as [fx|] eqn:Ex; [|discriminate].
  destruct (nth_error from y) as [fy|] eqn:Ey; [|discriminate].
  apply memN_In in Rx, Ry. destruct (index_of_In _ _ Rx) as [tx Tx]. destruct (index_of_In _ _ Ry) as [ty Ty].
  rewrite Tx, Ty. intro E. subst ty. apply index_of_nth in Tx, Ty. rewrite Tx in Ty. inversion Ty. subst fy.
  apply Hxy. eapply nodup_nth_inj; eauto.
Qed.

Lemma seq1_facts : NoDup seq1 /\ (forall k, In k seq1 <-> In k from /\ In k to).
Proof.
  split.
  - unfold seq1, diffl. apply NoDup_filter. apply from_nodup.
  - intros k. unfold seq1. rewrite diffl_In. split.
    + intros [Hf Hn]. split; auto. apply In_nth_error in Hf. destruct Hf as [j Hj].
      eapply not_removed_in_to; eauto. intro Hc. apply Hn. unfold rkeys. apply in_map_iff. exists j.
      split; auto. destruct (from_nth _ _ Hj) as [_ [Hk _]]. auto.
    + intros [Hf Ht]. split; auto. unfold rkeys. intro Hc. apply in_map_iff in Hc.
      destruct Hc as [i [E Hi]]. destruct (r_facts i Hi) as [_ [_ Hn]]. apply Hn. rewrite E. auto.
Qed.

Lemma inv4 : inv nodes_of U seq1 c4 (render nodes_of pre post mk seq1).
Proof.
  destruct c4_facts as [A1 [A2 [A3 [A4 A5]]]]. destruct seq1_facts as [S1 S2].
  constructor; auto.
  - apply good_all.
  - intros k Hk. apply S2 in Hk. unfold U, all. rewrite map_app. apply in_or_app. left. tauto.
  - intros it Hit. assert (In it all) as Hall by (unfold all; apply in_or_app; left; auto).
    destruct (all_nodes it Hall) as [H1 [H2 H3]]. auto.
  - (* the items left in place are in the same order in [from] and in [to] *)
    apply (sorted_unique tgtk).
    + unfold seq1, diffl. rewrite filter_filter.
      rewrite (filter_ext _ (fun x => memN x (map it_key (somes c4)) && negb (memN x rkeys)))
        by (intros; apply andb_comm).
      rewrite <- filter_filter. apply StronglySorted_filter. apply stat_sorted.
    + apply aligned_sorted; auto.
    + intros k. rewrite filter_In. split; [intros [_ H]; apply memN_In; auto|].
      intros Hk. split; [|apply memN_In; auto]. apply S2.
      apply in_map_iff in Hk. destruct Hk as [it [Ek Hit]]. split.
      * rewrite <- Ek. unfold from. apply in_map. auto.
      * apply In_somes_nth in Hit. destruct Hit as [j Hj]. apply A1 in Hj. rewrite <- Ek.
        eapply nth_error_In; eauto.
Qed.

Lemma place_fold_length : forall tasks c d, length (fst (place_fold tasks (c, d))) = length c.
Proof.
  induction tasks as [|tx tasks IH]; intros c d; [reflexivity|].
  cbn [place_fold fold_left fst snd].
  fold (place_fold tasks (set_nth (fst tx) (Some (snd tx)) c, mount_at c (fst tx) (snd tx) mk d)).
  rewrite IH. apply set_nth_length.
Qed.

Let w0 : work :=
  {| w_children := map Some its; w_dom := pre ++ flat_map it_nodes its ++ mk :: post;
     w_log := []; w_next := next; w_gen := gen; w_panic := false |}.
Let w1 := fold_left step_remove r w0.
Let wm2 := fold_left step_take ms (w1, []).
Let w3 := with_children (fst wm2) (w_children (fst wm2) ++ repeat None (length a)).
Let w4 := fold_left (step_nondom (snd wm2)) (enumerate_from 0 ms) w3.
Let w5 := fold_left (step_dom mk (snd wm2)) (enumerate_from 0 ms) w4.
Let w6 := fold_left (step_add b mk to) a w5.
Let unmount_log := map (fun i => EvUnmount (it_key (item_at i)) (it_gen (item_at i))) r.

Lemma apply_general_eq :
  apply_general b r ms a to w0 = with_children w6 (map Some (somes (w_children w6))).
Proof.
  unfold apply_general, w6, w5, w4, w3, wm2, w1.
  destruct (fold_left step_take ms (fold_left step_remove r w0, [])) as [w mc]. reflexivity.
Qed.

Lemma dom0_render : w_dom w0 = render nodes_of pre post mk from.
Proof.
  unfold w0, render. cbn [w_dom]. f_equal. f_equal. unfold nodes_of, from. symmetry.
  apply flat_nodes_in.
  - exact (wf_keys _ _ _ _ _ wf_all).
  - intros it Hit. unfold all. apply in_or_app. left. auto.
Qed.

Lemma phases_1_4 :
  w_children w4 = c4 /\ w_dom w4 = render nodes_of pre post mk seq1 /\
  w_log w4 = unmount_log ++ nondom_log xof ms /\ w_next w4 = next /\ w_gen w4 = gen /\
  w_panic w4 = false /\ snd wm2 = map (fun mv => Some (xof mv)) ms.
Proof.
  (* removals *)
  destruct (fold_step_remove item_at r w0 eq_refl r_nodup) as [C1 [D1 [L1 [N1 [G1 P1]]]]].
  { intros i Hi. destruct (r_facts i Hi) as [H1 _]. unfold w0. cbn [w_children].
    apply map_nth_error. auto. }
  fold w1 in C1, D1, L1, N1, G1, P1.
  (* move-outs *)
  destruct (fold_step_take item_at ms w1 [] P1 froms_nodup) as [C2 [M2 [D2 [L2 [N2 [G2 P2]]]]]].
  { intros mv Hmv. destruct (ms_facts mv Hmv) as [H1 [H2 [H3 [H4 [H5 [H6 [H7 H8]]]]]]].
    rewrite C1. unfold w0. cbn [w_children]. rewrite clear_at_notin.
    - apply map_nth_error. auto.
    - intro Hc. destruct (r_facts _ Hc) as [_ [_ Hn]]. apply Hn. exact H8. }
  fold wm2 in C2, M2, D2, L2, N2, G2, P2. cbn [app] in M2.
  assert (w_children w3 = c3) as C3.
  { unfold w3. cbn [with_children w_children]. rewrite C2, C1. reflexivity. }
  assert (w_panic w3 = false) as P3 by (unfold w3; cbn [with_children w_panic]; auto).
  (* moves that do not touch the DOM *)
  destruct (fold_step_nondom (snd wm2) xof ms 0 w3 P3) as [C4 [D4 [L4 [N4 [G4 P4]]]]].
  { intros j mv Hj Hd. cbn [Nat.add]. rewrite M2, C3, c3_length. split.
    - rewrite nth_error_map, Hj. reflexivity.
    - assert (In mv ms) as Hmv by (eapply nth_error_In; eauto).
      destruct (ms_facts mv Hmv) as [_ [_ [_ [_ [_ [_ [H7 _]]]]]]]. pose proof to_length_bound. lia. }
  fold w4 in C4, D4, L4, N4, G4, P4.
  repeat split; auto.
  - rewrite C4, C3. reflexivity.
  - rewrite D4. unfold w3. cbn [with_children w_dom]. rewrite D2, D1, dom0_render.
    rewrite (render_unmount_all nodes_of U item_at).
    + reflexivity.
    + apply good_all.
    + intros k Hk. unfold U, all. rewrite map_app. apply in_or_app. left. auto.
    + intros i Hi. destruct (r_facts i Hi) as [_ [Hin _]].
      assert (In (item_at i) all) as Hall by (unfold all; apply in_or_app; left; auto).
      destruct (all_nodes _ Hall) as [H1 [H2 _]]. auto.
  - rewrite L4. unfold w3. cbn [with_children w_log]. rewrite L2, L1. reflexivity.
  - rewrite N4. unfold w3. cbn [with_children w_next]. rewrite N2, N1. reflexivity.
  - rewrite G4. unfold w3. cbn [with_children w_gen]. rewrite G2, G1. reflexivity.
Qed.

Lemma dom_tasks_in : forall t x, In (t, x) (dom_tasks xof ms) <->
  exists mv, In mv ms /\ m_dom mv = true /\ t = m_to mv /\ x = xof mv.
Proof.
  intros t x. unfold dom_tasks. rewrite in_flat_map. split.
  - intros [mv [Hmv Hin]]. destruct (m_dom mv) eqn:Ed; [|contradiction].
    destruct Hin as [E|[]]. inversion E. subst. eauto.
  - intros [mv [Hmv [Hd [E1 E2]]]]. exists mv. split; auto. rewrite Hd. left. congruence.
Qed.

Lemma dom_tasks_keys_nodup : NoDup (map (fun tx => it_key (snd tx)) (dom_tasks xof ms)).
Proof.
  pose proof froms_nodup as Hnd. pose proof ms_facts as Hf. pose proof from_nodup as Hfr.
  assert (forall mv mv', In mv ms -> In mv' ms -> it_key (xof mv) = it_key (xof mv') -> m_from mv = m_from mv') as Hinj.
  { intros mv mv' H1 H2 E. destruct (Hf mv H1) as [_ [_ [_ [A _]]]]. destruct (Hf mv' H2) as [_ [_ [_ [B _]]]].
    rewrite E in A. eapply nodup_nth_inj; eauto. }
  clear Hf. unfold dom_tasks.
  assert (forall l, NoDup (map m_from l) ->
            (forall mv mv', In mv l -> In mv' l -> it_key (xof mv) = it_key (xof mv') -> m_from mv = m_from mv') ->
            NoDup (map (fun tx => it_key (snd tx))
                       (flat_map (fun mv => if m_dom mv then [(m_to mv, xof mv)] else []) l))) as Hgen.
  { clear. induction l as [|mv l IH]; intros Hnd Hinj; [constructor|].
    cbn [flat_map map] in *. inversion Hnd as [|? ? H1 H2]; subst. destruct (m_dom mv).
    - cbn [app map snd]. constructor.
      + intro Hc. apply in_map_iff in Hc. destruct Hc as [[t x] [E Hin]]. cbn [snd] in E.
        apply in_flat_map in Hin. destruct Hin as [mv' [Hmv' Hin]]. destruct (m_dom mv'); [|contradiction].
        destruct Hin as [E'|[]]. inversion E'. subst. apply H1.
        rewrite (Hinj mv mv'); auto; [apply in_map; auto | left; auto | right; auto].
      + apply IH; auto. intros; apply Hinj; auto; right; auto.
    - apply IH; auto. intros; apply Hinj; auto; right; auto. }
  apply Hgen; auto.
Qed.

Lemma add_tasks_in : forall items adds nx g t x, In (t, x) (add_tasks b items nx g adds) ->
  exists ad, In ad adds /\ t = a_at ad /\ it_key x = nth (a_at ad) items 0%N.
Proof.
  induction adds as [|ad adds IH]; intros nx g t x H; [contradiction|].
  cbn [add_tasks] in H. destruct H as [E|H].
  - inversion E. subst. exists ad. repeat split; auto. left. auto.
  - destruct (IH _ _ _ _ H) as [ad' [H1 [H2 H3]]]. exists ad'. repeat split; auto. right. auto.
Qed.

Lemma flat_nodup : forall (f : N -> list node) s, NoDup s ->
  (forall k, In k s -> NoDup (f k)) ->
  (forall k k' n, In k s -> In k' s -> k <> k' -> In n (f k) -> ~ In n (f k')) ->
  NoDup (flat_map f s).
Proof.
  induction s as [|k s IH]; intros Hnd H1 H2; [constructor|]. cbn [flat_map]. inversion Hnd; subst.
  apply NoDup_app_intro.
  - apply H1. left. auto.
  - apply IH; auto.
    + intros; apply H1; right; auto.
    + intros k1 k2 n A B; apply H2; right; auto.
  - intros n Hn Hc. apply in_flat_map in Hc. destruct Hc as [k' [Hk' Hn']].
    eapply (H2 k k' n); eauto; [left; auto | right; auto | intro; subst; contradiction].
Qed.

Lemma render_nodup : forall s, NoDup s -> (forall k, In k s -> In k U) ->
  NoDup (render nodes_of pre post mk s).
Proof.
  intros s Hnd HU. pose proof good_all as G. unfold render.
  eapply Permutation_NoDup; [apply Permutation_app_swap_app|].
  apply NoDup_app_intro.
  - apply flat_nodup; auto.
    + intros k Hk. apply (g_nodup _ _ _ _ _ G). auto.
    + intros k k' n Hk Hk' Hne Hn. eapply (g_disj _ _ _ _ _ G k k'); eauto.
  - exact (g_sibs _ _ _ _ _ G).
  - intros n Hn. apply in_flat_map in Hn. destruct Hn as [k [Hk Hn]].
    eapply (g_sib _ _ _ _ _ G k n); eauto.
Qed.

Lemma flat_map_items : forall l, (forall it, In it l -> nodes_of (it_key it) = it_nodes it) ->
  flat_map nodes_of (map it_key l) = flat_map it_nodes l.
Proof.
  induction l as [|x l IH]; intros H; [reflexivity|]. cbn [map flat_map].
  rewrite H by (left; auto). rewrite IH; auto. intros; apply H; right; auto.
Qed.

(** [apply_diff] in the general case: final items, DOM, log, allocation counters and the
    well-formedness of the new state *)
Theorem apply_general_ok :
  let w := apply_general b r ms a to w0 in
  let items' := somes (w_children w) in
  w_panic w = false /\ map it_key items' = to /\
  w_dom w = pre ++ flat_map it_nodes items' ++ mk :: post /\
  (forall it, In it items' -> In it its \/ In it news) /\
  (forall it, In it its -> In (it_key it) to -> In it items') /\
  w_log w = unmount_log ++ nondom_log xof ms ++ dom_log xof ms ++ add_log tasksA /\
  w_next w = add_next b to next a /\ w_gen w = gen + length a /\
  wf_items pre post mk (w_next w) items'.
Proof.
  cbv zeta. rewrite apply_general_eq. cbn [with_children w_children w_dom w_log w_next w_gen w_panic].
  rewrite somes_map_Some.
  destruct phases_1_4 as [C4 [D4 [L4 [N4 [G4 [P4 M2]]]]]].
  destruct c4_facts as [A1 [A2 [A3 [A4 A5]]]]. destruct seq1_facts as [S1 S2].
  pose proof to_length_bound as Hbound.
  assert (length c4 = length its + length a) as Hlen4.
  { unfold c4. rewrite nondom_children_length. apply c3_length. }
  (* moves in the DOM *)
  assert (forall j mv, nth_error ms j = Some mv -> m_dom mv = true ->
            nth_error (snd wm2) (0 + j) = Some (Some (xof mv)) /\ m_to mv < length (w_children w4)) as Pre5.
  { intros j mv Hj Hd. cbn [Nat.add]. rewrite M2, C4, Hlen4. split.
    - rewrite nth_error_map, Hj. reflexivity.
    - assert (In mv ms) as Hmv by (eapply nth_error_In; eauto).
      destruct (ms_facts mv Hmv) as [_ [_ [_ [_ [_ [_ [H7 _]]]]]]]. lia. }
  pose proof (fold_step_dom (snd wm2) xof ms 0 w4 P4 Pre5) as X5. cbv zeta in X5.
  destruct X5 as [C5 [D5 [L5 [N5 [G5 P5]]]]].
  fold w5 in C5, D5, L5, N5, G5, P5. rewrite C4, D4 in C5, D5.
  destruct (place_all nodes_of U (dom_tasks xof ms) seq1 c4 _ inv4) as [seq5 [I5 [Q5 [Len5 It5]]]].
  { intros t x Hin. apply dom_tasks_in in Hin. destruct Hin as [mv [Hmv [Hd [Et Ex]]]]. subst t x.
    destruct (ms_facts mv Hmv) as [H1 [H2 [H3 [H4 [H5 [H6 [H7 H8]]]]]]].
    assert (In (xof mv) all) as Hall by (unfold all; apply in_or_app; left; auto).
    destruct (all_nodes _ Hall) as [B1 [B2 B3]]. repeat split; auto; try lia.
    intro Hc. apply (c4_keys _ _ H4) in Hc. unfold statb in Hc. apply andb_true_iff in Hc.
    destruct Hc as [_ Hc]. apply negb_true_iff in Hc.
    rewrite (proj1 (domb_false_iff _) Hc mv Hmv eq_refl) in Hd. discriminate. }
  { apply dom_tasks_keys_nodup. }
  set (cd5 := place_fold (dom_tasks xof ms) (c4, render nodes_of pre post mk seq1)) in *.
  (* additions *)
  assert (Forall (fun x => a_mode x = Normal /\ a_at x < length to /\ a_at x < length (w_children w5)) a) as Pre6.
  { rewrite Forall_forall. intros x Hx. destruct (a_facts x Hx) as [Hmo [t [Ht _]]].
    assert (a_at x < length to) by (apply nth_error_Some; congruence).
    repeat split; auto. rewrite C5, Len5. lia. }
  pose proof (fold_step_add b to a w5 P5 Pre6) as X6. cbv zeta in X6.
  destruct X6 as [C6 [D6 [L6 [N6 [G6 P6]]]]].
  fold w6 in C6, D6, L6, N6, G6, P6. rewrite N5, G5, N4, G4 in C6, D6, L6. fold tasksA in C6, D6, L6.
  rewrite N5, N4 in N6. rewrite G5, G4 in G6.
  rewrite C5, D5 in C6, D6.
  assert (forall it, In it (somes (fst cd5)) -> In it its) as Old5.
  { intros it Hit. apply It5 in Hit. destruct Hit as [Hit|Hit]; auto.
    apply in_map_iff in Hit. destruct Hit as [[t x] [E Hin]]. cbn [snd] in E. subst it.
    apply dom_tasks_in in Hin. destruct Hin as [mv [Hmv [_ [_ Ex]]]]. subst x.
    destruct (ms_facts mv Hmv) as [_ [_ [H3 _]]]. auto. }
  destruct (place_all nodes_of U tasksA seq5 (fst cd5) (snd cd5) I5) as [seq6 [I6 [Q6 [Len6 It6]]]].
  { intros t x Hin. assert (In x news) as Hn by (unfold news; apply in_map_iff; exists (t, x); auto).
    assert (In x all) as Hall by (unfold all; apply in_or_app; right; auto).
    destruct (all_nodes _ Hall) as [B1 [B2 B3]].
    destruct (add_tasks_in _ _ _ _ _ _ Hin) as [ad [Had [Et Ek]]].
    destruct (a_facts ad Had) as [_ [k [Hk [Hnf En]]]].
    assert (a_at ad < length to) by (apply nth_error_Some; congruence).
    repeat split; auto.
    - subst t. rewrite Ek, En. auto.
    - rewrite Len5. lia.
    - intro Hc. apply in_map_iff in Hc. destruct Hc as [it [E Hit]]. apply Old5 in Hit.
      apply Hnf. rewrite <- En, <- Ek, <- E. unfold from. apply in_map. auto. }
  { unfold tasksA. replace (map (fun tx => it_key (snd tx)) (add_tasks b to next gen a))
      with (map it_key news) by (unfold news, tasksA; rewrite map_map; reflexivity).
    apply news_keys_nodup. }
  set (cd6 := place_fold tasksA (fst cd5, snd cd5)) in *.
  set (items' := somes (fst cd6)).
  rewrite C6, D6, P6, L6, N6, G6, L5, L4.
  assert (forall it, In it items' -> In it its \/ In it news) as Prov.
  { intros it Hit. apply It6 in Hit. destruct Hit as [Hit|Hit]; auto. }
  (* the final keys are exactly [to] *)
  assert (map it_key items' = to) as Keys.
  { apply (sorted_unique tgtk).
    - apply aligned_sorted; auto. exact (i_aligned _ _ _ _ _ I6).
    - apply to_sorted; auto.
    - intros k. split.
      + intros Hk. apply in_map_iff in Hk. destruct Hk as [it [E Hit]]. apply In_somes_nth in Hit.
        destruct Hit as [j Hj]. apply (i_aligned _ _ _ _ _ I6) in Hj. rewrite <- E. eapply nth_error_In; eauto.
      + intros Hk. destruct (in_dec N.eq_dec k from) as [Hf|Hf].
        * apply In_nth_error in Hf. destruct Hf as [i Hi].
          destruct (statb from to ms i) eqn:Es.
          -- apply (c4_keys _ _ Hi) in Es. apply in_map_iff in Es. destruct Es as [it [E Hit]].
             apply in_map_iff. exists it. split; auto. apply It6. left. apply It5. left. auto.
          -- unfold statb in Es. assert (retb from to i = true) as Hr.
             { unfold retb. rewrite Hi. apply memN_In. auto. }
             rewrite Hr in Es. cbn [andb] in Es. apply negb_false_iff in Es. unfold domb in Es.
             apply existsb_exists in Es. destruct Es as [mv [Hmv Hb]]. apply andb_true_iff in Hb.
             destruct Hb as [Hb1 Hb2]. apply Nat.eqb_eq in Hb1.
             destruct (ms_facts mv Hmv) as [_ [_ [_ [H4 _]]]]. rewrite Hb1, Hi in H4. inversion H4 as [Hk'].
             apply in_map_iff. exists (xof mv). split; auto. apply It6. left. apply It5. right.
             apply in_map_iff. exists (m_to mv, xof mv). split; auto. apply dom_tasks_in. eauto.
        * apply In_nth_error in Hk. destruct Hk as [j Hj].
          assert (In j (map a_at a)) as Hja.
          { apply (ls_add _ _ _ _ _ _ _ _ LS). split; [|eauto].
            assert (j < length to) by (apply nth_error_Some; congruence). lia. }
          apply in_map_iff in Hja. destruct Hja as [ad [E Had]].
          assert (In k (map it_key news)) as Hn.
          { rewrite news_keys. apply in_map_iff. exists ad. split; auto. rewrite E.
            apply nth_error_nth. auto. }
          apply in_map_iff in Hn. destruct Hn as [it [E' Hit]]. apply in_map_iff. exists it.
          split; auto. apply It6. right. auto. }
  (* ... and so is the order of the items in the DOM *)
  assert (seq6 = to) as Seq.
  { pose proof (i_order _ _ _ _ _ I6) as Ho. fold items' in Ho. rewrite Keys in Ho.
    rewrite <- Ho. symmetry. apply filter_all_true. intros k Hk. apply memN_In.
    apply Q6 in Hk. destruct Hk as [Hk|Hk].
    - apply Q5 in Hk. destruct Hk as [Hk|Hk]; [apply S2 in Hk; tauto|].
      apply in_map_iff in Hk. destruct Hk as [[t x] [E Hin]]. cbn [snd] in E. subst k.
      apply dom_tasks_in in Hin. destruct Hin as [mv [Hmv [_ [_ Ex]]]]. subst x.
      destruct (ms_facts mv Hmv) as [_ [_ [_ [_ [_ [_ [_ H8]]]]]]]. auto.
    - apply news_key_facts. unfold news. rewrite map_map. auto. }
  assert (forall it, In it items' -> nodes_of (it_key it) = it_nodes it) as Nodes.
  { intros it Hit. destruct (i_items _ _ _ _ _ I6 it Hit) as [_ [H _]]. auto. }
  assert (snd cd6 = pre ++ flat_map it_nodes items' ++ mk :: post) as Dom.
  { rewrite (i_dom _ _ _ _ _ I6), Seq. unfold render. rewrite <- Keys, flat_map_items; auto. }
  assert (forall it, In it items' -> In it all) as Hall.
  { intros it Hit. unfold all. apply in_or_app. apply Prov. auto. }
  split; [reflexivity|]. split; [exact Keys|]. split; [exact Dom|]. split; [exact Prov|].
  split; [|split; [|split; [reflexivity|split; [reflexivity|]]]].
  - (* retained items keep their identity *)
    intros it Hit Hk. rewrite <- Keys in Hk. apply in_map_iff in Hk. destruct Hk as [it' [E Hit']].
    destruct (Prov it' Hit') as [Ho|Hn].
    + rewrite (same_key_same_item its it it'); auto. exact (wf_keys _ _ _ _ _ Hwf).
    + exfalso. assert (In (it_key it') (map it_key news)) as Hc by (apply in_map; auto).
      apply news_key_facts in Hc. destruct Hc as [_ Hc]. apply Hc. rewrite E. unfold from. apply in_map. auto.
  - rewrite <- !app_assoc. reflexivity.
  - (* the new state is well-formed *)
    constructor.
    + fold items'. rewrite Keys. auto.
    + fold items'. rewrite <- Dom, (i_dom _ _ _ _ _ I6). apply render_nodup.
      * exact (i_seq_nd _ _ _ _ _ I6).
      * exact (i_seqU _ _ _ _ _ I6).
    + intros it Hit. exact (wf_nonempty _ _ _ _ _ wf_all it (Hall it Hit)).
    + intros n Hn. apply (wf_fresh _ _ _ _ _ wf_all).
      rewrite !in_app_iff in *. destruct Hn as [Hn|[Hn|Hn]]; auto.
      right. left. apply in_flat_map in Hn. destruct Hn as [it [Hit Hn]]. apply in_flat_map.
      exists it. split; auto.
Qed.


(* ------------------------------------------------------------------ what the log says *)

(** keys passed to [view_fn], in call order *)
Definition built (log : list event) : list N :=
  flat_map (fun e => match e with EvBuild k _ _ => [k] | _ => [] end) log.

Lemma built_app : forall l1 l2, built (l1 ++ l2) = built l1 ++ built l2.
Proof. intros. unfold built. apply flat_map_app. Qed.

Lemma built_nil : forall l, (forall e, In e l -> match e with EvBuild _ _ _ => False | _ => True end) -> built l = [].
Proof.
  induction l as [|e l IH]; intros H; [reflexivity|]. unfold built in *. cbn [flat_map].
  rewrite IH by (intros; apply H; right; auto). specialize (H e (or_introl eq_refl)).
  destruct e; auto; contradiction.
Qed.

Lemma built_add_log : forall tasks, built (add_log tasks) = map (fun tx => it_key (snd tx)) tasks.
Proof. induction tasks as [|tx tasks IH]; [reflexivity|]. unfold built, add_log in *. cbn [flat_map map app]. rewrite IH. reflexivity. Qed.

Lemma add_tasks_fresh : forall items adds nx g t x, In (t, x) (add_tasks b items nx g adds) ->
  g <= it_gen x /\ (forall n, In n (it_nodes x) -> (nx <= n)%N).
Proof.
  induction adds as [|ad adds IH]; intros nx g t x H; [contradiction|].
  cbn [add_tasks] in H. destruct H as [E|H].
  - inversion E. subst. cbn [it_gen it_nodes]. split; auto. intros n Hn.
    destruct (Hbld (nth (a_at ad) items 0%N) nx) as [_ [_ Hr]]. specialize (Hr n Hn). lia.
  - destruct (IH _ _ _ _ H) as [H1 H2]. split; [lia|]. intros n Hn. specialize (H2 n Hn).
    pose proof (bld_ok_mono b (nth (a_at ad) items 0%N) nx Hbld). lia.
Qed.

Definition full_log : list event :=
  unmount_log ++ nondom_log xof ms ++ dom_log xof ms ++ add_log tasksA.

Lemma log_unmounts : forall it, In it its -> ~ In (it_key it) to ->
  In (EvUnmount (it_key it) (it_gen it)) full_log.
Proof.
  intros it Hit Hn. apply In_nth_error in Hit. destruct Hit as [i Hi].
  destruct (its_from _ _ Hi) as [Hf Ei].
  assert (In i r) as Hr.
  { apply (ls_rem _ _ _ _ _ _ _ _ LS). split; [|fold from; eauto].
    assert (i < length its) by (apply nth_error_Some; congruence). rewrite map_length. lia. }
  unfold full_log. apply in_or_app. left. unfold unmount_log. apply in_map_iff. exists i.
  rewrite <- Ei. auto.
Qed.

Lemma log_built : NoDup (built full_log) /\
  (forall k, In k (built full_log) <-> In k to /\ ~ In k from).
Proof.
  assert (built full_log = map it_key news) as E.
  { unfold full_log. rewrite !built_app, built_add_log.
    rewrite (built_nil unmount_log), (built_nil (nondom_log xof ms)), (built_nil (dom_log xof ms)).
    - unfold news. rewrite map_map. reflexivity.
    - intros e He. unfold dom_log in He. apply in_flat_map in He. destruct He as [mv [_ He]].
      destruct (m_dom mv); [|contradiction]. destruct He as [<-|[<-|[]]]; exact I.
    - intros e He. unfold nondom_log in He. apply in_flat_map in He. destruct He as [mv [_ He]].
      destruct (m_dom mv); [contradiction|]. destruct He as [<-|[]]; exact I.
    - intros e He. unfold unmount_log in He. apply in_map_iff in He. destruct He as [i [<- _]]. exact I. }
  rewrite E. split; [apply news_keys_nodup|]. intros k. split; [apply news_key_facts|].
  intros [Hk Hf]. apply In_nth_error in Hk. destruct Hk as [j Hj].
  assert (In j (map a_at a)) as Hja.
  { apply (ls_add _ _ _ _ _ _ _ _ LS). split; [|eauto].
    assert (j < length to) by (apply nth_error_Some; congruence). lia. }
  apply in_map_iff in Hja. destruct Hja as [ad [Ea Had]]. rewrite news_keys. apply in_map_iff.
  exists ad. split; auto. rewrite Ea. apply nth_error_nth. auto.
Qed.

Lemma log_set_index_sound : forall k g i, In (EvSetIndex k g i) full_log ->
  exists it, In it its /\ it_key it = k /\ it_gen it = g /\ index_of k to = Some i.
Proof.
  intros k g i H. unfold full_log in H. rewrite !in_app_iff in H. destruct H as [H|[H|[H|H]]].
  - unfold unmount_log in H. apply in_map_iff in H. destruct H as [j [E _]]. discriminate.
  - unfold nondom_log in H. apply in_flat_map in H. destruct H as [mv [Hmv H]].
    destruct (m_dom mv); [contradiction|]. destruct H as [E|[]]. inversion E. subst.
    destruct (ms_facts mv Hmv) as [_ [_ [H3 [_ [H5 _]]]]]. exists (xof mv). auto.
  - unfold dom_log in H. apply in_flat_map in H. destruct H as [mv [Hmv H]].
    destruct (m_dom mv); [|contradiction]. destruct H as [E|[E|[]]]; [discriminate|]. inversion E. subst.
    destruct (ms_facts mv Hmv) as [_ [_ [H3 [_ [H5 _]]]]]. exists (xof mv). auto.
  - unfold add_log in H. apply in_flat_map in H. destruct H as [tx [_ H]].
    destruct H as [E|[E|[]]]; discriminate.
Qed.

Lemma log_set_index_complete : forall it i j, nth_error its i = Some it ->
  index_of (it_key it) to = Some j -> i <> j -> In (EvSetIndex (it_key it) (it_gen it) j) full_log.
Proof.
  intros it i j Hi Hj Hne. destruct (its_from _ _ Hi) as [Hf Ei].
  assert (In i (map m_from ms)) as Hm'.
  { eapply (ls_mv_all _ _ _ _ _ _ _ _ LS); eauto.
    assert (i < length its) by (apply nth_error_Some; congruence). rewrite map_length. lia. }
  apply in_map_iff in Hm'. destruct Hm' as [mv [E Hmv]].
  destruct (ms_facts mv Hmv) as [_ [_ [_ [_ [H5 _]]]]].
  assert (xof mv = it) as Ex by (unfold xof; rewrite E; auto). rewrite Ex in H5.
  assert (m_to mv = j) as Et by congruence.
  unfold full_log. rewrite !in_app_iff. destruct (m_dom mv) eqn:Ed.
  - right. right. left. unfold dom_log. apply in_flat_map. exists mv. split; auto. rewrite Ed, Ex, Et.
    right. left. reflexivity.
  - right. left. unfold nondom_log. apply in_flat_map. exists mv. split; auto. rewrite Ed, Ex, Et.
    left. reflexivity.
Qed.

(** everything the property asks of one [rebuild], for the general case of [apply_diff] *)
Theorem apply_general_props :
  let w := apply_general b r ms a to w0 in
  let items' := somes (w_children w) in
  w_panic w = false /\ map it_key items' = to /\
  w_dom w = pre ++ flat_map it_nodes items' ++ mk :: post /\
  wf_items pre post mk (w_next w) items' /\ (next <= w_next w)%N /\ gen <= w_gen w /\
  (forall it, In it its -> In (it_key it) to -> In it items') /\
  (forall it, In it items' -> In it its \/
     (gen <= it_gen it /\ forall n, In n (it_nodes it) -> (next <= n)%N)) /\
  (forall it, In it its -> ~ In (it_key it) to -> In (EvUnmount (it_key it) (it_gen it)) (w_log w)) /\
  NoDup (built (w_log w)) /\
  (forall k, In k (built (w_log w)) <-> In k to /\ ~ In k (map it_key its)) /\
  (forall k g i, In (EvSetIndex k g i) (w_log w) ->
     exists it, In it its /\ it_key it = k /\ it_gen it = g /\ index_of k to = Some i) /\
  (forall it i j, nth_error its i = Some it -> index_of (it_key it) to = Some j -> i <> j ->
     In (EvSetIndex (it_key it) (it_gen it) j) (w_log w)).
Proof.
  pose proof apply_general_ok as H. cbv zeta in *.
  destruct H as [P [K [D [Prov [Id [L [Nx [Gn W]]]]]]]].
  fold full_log in L. rewrite L. destruct log_built as [B1 B2].
  split; [exact P|]. split; [exact K|]. split; [exact D|]. split; [exact W|].
  split; [rewrite Nx; exact (proj2 (proj2 (add_tasks_range b to a next gen Hbld)))|].
  split; [rewrite Gn; lia|]. split; [exact Id|].
  split; [|split; [apply log_unmounts|split; [exact B1|split; [exact B2|split;
            [apply log_set_index_sound|apply log_set_index_complete]]]]].
  intros it Hit. destruct (Prov it Hit) as [Ho|Hn]; auto. right.
  unfold news in Hn. apply in_map_iff in Hn. destruct Hn as [[t x] [E Hin]]. cbn [snd] in E. subst x.
  apply add_tasks_fresh in Hin. exact Hin.
Qed.

(** which items are new, exactly: the items built, in order, for the keys of [to] that were
    not rendered *)
Theorem apply_general_new :
  let w := apply_general b r ms a to w0 in
  (forall it, In it (somes (w_children w)) -> In it its \/ In it (build_items b newkeys next gen)) /\
  w_next w = build_next b newkeys next /\ w_gen w = gen + length newkeys.
Proof.
  pose proof apply_general_ok as H. cbv zeta in *.
  destruct H as [P [K [D [Prov [Id [L [Nx [Gn W]]]]]]]].
  rewrite <- news_eq, <- next_eq, <- length_a. auto.
Qed.

End Main.
End Apply.
