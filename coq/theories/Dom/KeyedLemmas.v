(** Generic list lemmas used by the C11 proofs: option vectors, sortedness. *)
From Coq Require Import List NArith Bool Arith Lia Sorted.
From LV Require Import Dom.Dom Dom.DomProofs Dom.Keyed.
Import ListNotations.

(* ---------------------------------------------------------------- set_nth / somes *)
Lemma set_nth_length : forall {A} i (x : A) l, length (set_nth i x l) = length l.
Proof. induction i; destruct l; simpl; auto. Qed.

Lemma nth_set_nth_eq : forall {A} i (x : A) l, i < length l -> nth_error (set_nth i x l) i = Some x.
Proof. induction i; destruct l; simpl; intros; try lia; auto. apply IHi. lia. Qed.

Lemma nth_set_nth_neq : forall {A} i j (x : A) l, i <> j -> nth_error (set_nth i x l) j = nth_error l j.
Proof.
  induction i; destruct l; destruct j; simpl; intros; auto; try congruence.
Qed.

Lemma set_nth_split : forall {A} i (x : A) l, i < length l ->
  set_nth i x l = firstn i l ++ x :: skipn (S i) l.
Proof.
  induction i; destruct l; simpl; intros; try lia; auto. f_equal. apply IHi. lia.
Qed.

Lemma somes_app : forall {A} (a b : list (option A)), somes (a ++ b) = somes a ++ somes b.
Proof. induction a as [|[x|] a IH]; simpl; intros; auto. rewrite IH. reflexivity. Qed.

Lemma somes_repeat_None : forall {A} n, somes (repeat (@None A) n) = [].
Proof. induction n; simpl; auto. Qed.

Lemma somes_map_Some : forall {A} (l : list A), somes (map Some l) = l.
Proof. induction l; simpl; congruence. Qed.

Lemma somes_map_Some' : forall {A B} (g : A -> B) (f : B -> N) (l : list A),
  map f (somes (map (fun k => Some (g k)) l)) = map (fun k => f (g k)) l.
Proof. induction l; simpl; congruence. Qed.

Lemma In_somes : forall {A} (x : A) l, In x (somes l) <-> In (Some x) l.
Proof.
  induction l as [|[y|] l IH]; simpl.
  - tauto.
  - rewrite IH. split; intros [H|H]; auto; left; congruence.
  - rewrite IH. split; auto. intros [H|H]; auto. discriminate.
Qed.

Lemma In_somes_nth : forall {A} (x : A) l, In x (somes l) <-> exists i, nth_error l i = Some (Some x).
Proof.
  intros. rewrite In_somes. split.
  - apply In_nth_error.
  - intros [i H]. eapply nth_error_In; eauto.
Qed.

Lemma skipn_nth_None : forall {A} t (l : list (option A)),
  nth_error l t = Some None -> somes (skipn t l) = somes (skipn (S t) l).
Proof.
  induction t; destruct l as [|o l]; simpl; intros H; try discriminate.
  - inversion H. reflexivity.
  - apply IHt in H. destruct l; auto.
Qed.

Lemma somes_split_None : forall {A} t (l : list (option A)),
  nth_error l t = Some None -> somes l = somes (firstn t l) ++ somes (skipn (S t) l).
Proof.
  intros A t l H. rewrite <- (firstn_skipn t l) at 1. rewrite somes_app.
  rewrite (skipn_nth_None _ _ H). reflexivity.
Qed.

Lemma somes_set_nth : forall {A} t (x : A) (l : list (option A)), t < length l ->
  somes (set_nth t (Some x) l) = somes (firstn t l) ++ x :: somes (skipn (S t) l).
Proof.
  intros. rewrite set_nth_split; auto. rewrite somes_app. reflexivity.
Qed.

Lemma somes_set_nth_None : forall {A} t (l : list (option A)) (x : A),
  nth_error l t = Some (Some x) ->
  somes l = somes (firstn t l) ++ x :: somes (skipn (S t) l) /\
  somes (set_nth t None l) = somes (firstn t l) ++ somes (skipn (S t) l).
Proof.
  intros A t l x H.
  assert (t < length l) as Hlt by (apply nth_error_Some; congruence).
  split.
  - rewrite <- (firstn_skipn t l) at 1. rewrite somes_app. f_equal.
    clear Hlt. revert l H. induction t; destruct l; simpl; intros; try discriminate.
    + inversion H. reflexivity.
    + rewrite (IHt l H). destruct l; reflexivity.
  - rewrite set_nth_split; auto. rewrite somes_app. reflexivity.
Qed.

(* ---------------------------------------------------------------- misc lists *)
Lemma app_pivot_inj : forall {A} (y : A) l1 l2 l3 l4,
  l1 ++ y :: l2 = l3 ++ y :: l4 -> ~ In y l1 -> ~ In y l3 -> l1 = l3 /\ l2 = l4.
Proof.
  induction l1 as [|a l1 IH]; destruct l3 as [|b l3]; simpl; intros l4 H H1 H3.
  - inversion H. auto.
  - inversion H. subst. exfalso. apply H3. left. auto.
  - inversion H. subst. exfalso. apply H1. left. auto.
  - inversion H. subst. destruct (IH l2 l3 l4) as [E1 E2]; auto. subst. auto.
Qed.

Lemma filter_filter : forall {A} (f g : A -> bool) l,
  filter f (filter g l) = filter (fun x => g x && f x) l.
Proof.
  induction l as [|x l IH]; simpl; auto.
  destruct (g x); simpl; [destruct (f x)|]; simpl; rewrite IH; auto.
Qed.

Lemma NoDup_filter : forall {A} (f : A -> bool) l, NoDup l -> NoDup (filter f l).
Proof.
  induction l as [|x l IH]; simpl; intros H; auto. inversion H; subst.
  destruct (f x); auto. constructor; auto. rewrite filter_In. tauto.
Qed.

Lemma nodup_nth_inj : forall {A} (l : list A) i j x,
  NoDup l -> nth_error l i = Some x -> nth_error l j = Some x -> i = j.
Proof.
  intros A l i j x Hnd Hi Hj. apply (proj1 (NoDup_nth_error l) Hnd).
  - apply nth_error_Some. congruence.
  - congruence.
Qed.

(** two lists strictly sorted by the same measure with the same elements are equal *)
Lemma sorted_unique : forall (f : N -> nat) l1 l2,
  StronglySorted (fun a b => f a < f b) l1 -> StronglySorted (fun a b => f a < f b) l2 ->
  (forall x, In x l1 <-> In x l2) -> l1 = l2.
Proof.
  induction l1 as [|a l1 IH]; intros l2 S1 S2 E.
  - destruct l2 as [|b l2]; auto. exfalso. apply (E b). left. auto.
  - destruct l2 as [|b l2]. { exfalso. apply (E a). left. auto. }
    inversion S1 as [|? ? S1' F1]; subst. inversion S2 as [|? ? S2' F2]; subst.
    rewrite Forall_forall in F1, F2.
    assert (a = b) as ->.
    { destruct (E a) as [Ha _]. destruct (Ha (or_introl eq_refl)) as [Hb|Hb]; auto.
      destruct (E b) as [_ Hb']. destruct (Hb' (or_introl eq_refl)) as [Hc|Hc]; auto.
      specialize (F1 _ Hc). specialize (F2 _ Hb). lia. }
    f_equal. apply IH; auto. intros x. split; intros H.
    + destruct (E x) as [Hx _]. destruct (Hx (or_intror H)) as [Hb|Hb]; auto.
      subst. specialize (F1 _ H). lia.
    + destruct (E x) as [_ Hx]. destruct (Hx (or_intror H)) as [Hb|Hb]; auto.
      subst. specialize (F2 _ H). lia.
Qed.

Lemma StronglySorted_filter : forall {A} (R : A -> A -> Prop) (f : A -> bool) l,
  StronglySorted R l -> StronglySorted R (filter f l).
Proof.
  induction l as [|x l IH]; simpl; intros H; auto. inversion H; subst.
  destruct (f x); auto. constructor; auto.
  rewrite Forall_forall in *. intros y Hy. apply filter_In in Hy. apply H3. tauto.
Qed.

Lemma StronglySorted_map : forall {A B} (R : B -> B -> Prop) (g : A -> B) l,
  StronglySorted (fun a b => R (g a) (g b)) l -> StronglySorted R (map g l).
Proof.
  induction l as [|x l IH]; simpl; intros H; [constructor|]. inversion H; subst.
  constructor; auto. rewrite Forall_forall in *. intros y Hy. apply in_map_iff in Hy.
  destruct Hy as [z [E Hz]]. subst. auto.
Qed.

Lemma StronglySorted_lt_NoDup : forall l, StronglySorted lt l -> NoDup l.
Proof.
  induction l as [|x l IH]; intros H; constructor; inversion H; subst; auto.
  rewrite Forall_forall in H3. intro Hx. specialize (H3 _ Hx). lia.
Qed.

Lemma seq_sorted : forall n s, StronglySorted lt (seq s n).
Proof.
  induction n; intros s; simpl; constructor; auto.
  rewrite Forall_forall. intros x Hx. apply in_seq in Hx. lia.
Qed.

Lemma sorted_strengthen : forall {A} (R R' : A -> A -> Prop) l,
  StronglySorted R l -> NoDup l ->
  (forall x y, In x l -> In y l -> x <> y -> R x y -> R' x y) -> StronglySorted R' l.
Proof.
  induction l as [|x l IH]; intros Hs Hnd H; [constructor|].
  inversion Hs; subst. inversion Hnd; subst. constructor.
  - apply IH; auto. intros; apply H; auto; right; auto.
  - rewrite Forall_forall in *. intros y Hy. apply H; auto.
    + left. auto.
    + right. auto.
    + intro; subst; contradiction.
Qed.

Lemma filter_map_swap : forall {A B} (P : B -> bool) (g : A -> B) l,
  filter P (map g l) = map g (filter (fun x => P (g x)) l).
Proof. induction l as [|x l IH]; simpl; auto. destruct (P (g x)); simpl; rewrite IH; auto. Qed.

Lemma list_map_nth : forall {A} (l : list A) d, map (fun i => nth i l d) (seq 0 (length l)) = l.
Proof.
  induction l as [|x l IH]; intros d; [reflexivity|]. cbn [length seq map nth]. f_equal.
  rewrite <- seq_shift, map_map. apply IH.
Qed.
