(** Minimal model of the DOM operations the keyed-list code relies on: the child list
    of ONE parent element, as a list of node ids, with the insertion / removal
    semantics of the DOM standard (and of the native hook, renderer/native_dom.rs):
    inserting a node detaches it first; an anchor that is not a child of the parent
    makes the insertion fail (nothing happens); inserting a node before itself leaves
    it where it is.  Model only — lemmas are in DomProofs.v. *)
From Coq Require Import List NArith Bool.
Import ListNotations.

Definition node := N.

Definition memN (x : N) (l : list N) : bool := existsb (N.eqb x) l.

(** [Node.remove()] / [Rndr::remove] *)
Definition remove_node (x : node) (l : list node) : list node :=
  filter (fun y => negb (N.eqb x y)) l.

(** [x] immediately before the first occurrence of [a] (nothing if [a] is absent) *)
Fixpoint insert_at (x a : node) (l : list node) : list node :=
  match l with
  | [] => []
  | y :: r => if N.eqb y a then x :: y :: r else y :: insert_at x a r
  end.

(** [parent.insertBefore(x, anchor)] / [Rndr::insert_node(parent, x, anchor)] *)
Definition insert_before (x : node) (anchor : option node) (l : list node) : list node :=
  match anchor with
  | None => remove_node x l ++ [x]
  | Some a =>
      if negb (memN a l) then l            (* NotFoundError: logged, nothing happens *)
      else if N.eqb a x then l             (* before itself = before its next sibling *)
      else insert_at x a (remove_node x l)
  end.

Fixpoint index_of (x : N) (l : list N) : option nat :=
  match l with
  | [] => None
  | y :: r => if N.eqb x y then Some 0 else option_map S (index_of x r)
  end.
