(** C05 — model of tachys' server rendering / browser parsing / hydration triangle.

    Anchors (what each definition transcribes):
      [Position], [to_html]  : tachys/src/view/mod.rs (Position), view/strings.rs, view/primitives.rs,
                               view/tuples.rs, view/iterators.rs (Option, Vec), view/either.rs,
                               view/any_view.rs, view/keyed.rs, html/element/mod.rs, html/mod.rs
                               (InertElement), reactive_graph/mod.rs (closures are transparent);
                               [to_html_with_buf] with escape = true, mark_branches = false
      [tokenize], [build]    : WHATWG HTML parsing, the subset of tokenizer states and "in body"
                               tree-construction rules that the emitted subset can reach (anything
                               else is the explicit error [None])
      [hydrate]              : [RenderHtml::hydrate::<FROM_SERVER = true>] of the same view types over
                               tachys/src/hydration.rs [Cursor] (child / sibling / parent / set /
                               next_placeholder) and [PositionState]; [None] exactly where the code
                               calls failed_to_cast_* (or unwrap/expect on a failed cast)
      [dom_csr]              : [Render::build] + mount of the same view (what a client-built tree is)
    No proofs in this file. *)
From Coq Require Import List NArith Bool.
From LV Require Import Base.Bytes.
Import ListNotations.
Open Scope N_scope.

(** * Views *)

(** tachys::view::Position *)
Inductive Position := Current | FirstChild | NextChild | NextChildAfterText | OnlyChild | LastChild.

Definition pos_eqb (a b : Position) : bool :=
  match a, b with
  | Current, Current | FirstChild, FirstChild | NextChild, NextChild
  | NextChildAfterText, NextChildAfterText | OnlyChild, OnlyChild | LastChild, LastChild => true
  | _, _ => false
  end.

Definition attr := (bytes * bytes)%type.

(** browser DOM (also the shape of an inert static subtree) *)
Inductive dom :=
| DText (s : bytes)
| DComment (s : bytes)
| DElem (name : bytes) (attrs : list attr) (kids : list dom).

(** The view grammar. [VElem n a kids]: [HtmlElement<E, At, (K1, .., Kn)>]; [kids = []] is an
    element on which [.child()] was never called ([Ch = ()], [Ch::EXISTS = false]).
    [VVoid]: a self-closing element type. [VTuple]: tuples / fragments (non-empty).
    [VSome]/[VNone]: [Option<T>] (= [Either<T, ()>]). [VLeft]/[VRight]: [Either] / [EitherOf*].
    [VVec]: [Vec<T>]. [VAny]: [AnyView], [Box<dyn ..>] and reactive closures [move || v] — all
    three forward [to_html] and [hydrate] unchanged. Second stage: [VKeyed] (keyed lists / <For>),
    [VInert] ([InertElement], a static subtree given by its DOM); [VRaw n a parts]: an element with
    [ESCAPE_CHILDREN = false] (textarea, style, script) whose children are strings ([Some s]) or
    render to nothing ([None]: [()], [None], an empty [Vec]) — its children are printed without
    separators, placeholders or markers and are not hydrated; [VSuspend v]: [Suspend] over a future
    that is resolved when the view is rendered / hydrated (tachys/src/reactive_graph/suspense.rs:
    [now_or_never] yields the value, which is rendered / hydrated in place). *)
Inductive view :=
| VText (s : bytes)
| VUnit
| VElem (name : bytes) (attrs : list attr) (kids : list view)
| VVoid (name : bytes) (attrs : list attr)
| VTuple (vs : list view)
| VSome (v : view)
| VNone
| VLeft (v : view)
| VRight (v : view)
| VVec (vs : list view)
| VAny (v : view)
| VKeyed (vs : list view)
| VInert (e : dom)
| VRaw (name : bytes) (attrs : list attr) (parts : list (option bytes))
| VSuspend (v : view).

(** * Server-side printer *)

(** html_escape::encode_text : & < > *)
Definition esc_text_byte (c : N) : bytes :=
  if c =? 38 then [38; 97; 109; 112; 59]          (* &amp; *)
  else if c =? 60 then [38; 108; 116; 59]          (* &lt; *)
  else if c =? 62 then [38; 103; 116; 59]          (* &gt; *)
  else [c].
Definition esc_text (s : bytes) : bytes := flat_map esc_text_byte s.

(** html_escape::encode_double_quoted_attribute : ampersand, less, greater, double quote *)
Definition esc_attr_byte (c : N) : bytes :=
  if c =? 34 then [38; 113; 117; 111; 116; 59]     (* &quot; *)
  else esc_text_byte c.
Definition esc_attr (s : bytes) : bytes := flat_map esc_attr_byte s.

Definition marker : bytes := [60; 33; 62].          (* <!> *)

(** [AttributeValue::to_html] of a plain attribute: [ key="escaped"] *)
Definition attr_html (a : attr) : bytes := [32] ++ fst a ++ [61; 34] ++ esc_attr (snd a) ++ [34].
Definition attrs_html (l : list attr) : bytes := flat_map attr_html l.

Definition open_tag (n : bytes) (a : list attr) : bytes := [60] ++ n ++ attrs_html a ++ [62].
Definition close_tag (n : bytes) : bytes := [60; 47] ++ n ++ [62].

(** the HTML void elements (the parser never looks for an end tag) *)
Definition s_br : bytes := [98; 114].
Definition s_hr : bytes := [104; 114].
Definition s_img : bytes := [105; 109; 103].
Definition s_input : bytes := [105; 110; 112; 117; 116].
Definition s_p : bytes := [112].
Definition s_span : bytes := [115; 112; 97; 110].
Definition s_div : bytes := [100; 105; 118].
Definition s_section : bytes := [115; 101; 99; 116; 105; 111; 110].
Definition s_ul : bytes := [117; 108].
Definition s_main : bytes := [109; 97; 105; 110].
Definition s_textarea : bytes := [116; 101; 120; 116; 97; 114; 101; 97].
Definition s_style : bytes := [115; 116; 121; 108; 101].
Definition s_script : bytes := [115; 99; 114; 105; 112; 116].

Fixpoint bytes_eqb (a b : bytes) : bool :=
  match a, b with
  | [], [] => true
  | x :: a, y :: b => (x =? y) && bytes_eqb a b
  | _, _ => false
  end.
Definition mem (n : bytes) (l : list bytes) : bool := existsb (bytes_eqb n) l.

Definition is_void (n : bytes) : bool := mem n [s_br; s_hr; s_img; s_input].

(** elements whose content the tokenizer reads as text: [Some true] = RCDATA (textarea: character
    references are decoded), [Some false] = RAWTEXT / script data (style, script) *)
Definition raw_kind (n : bytes) : option bool :=
  if bytes_eqb n s_textarea then Some true
  else if mem n [s_style; s_script] then Some false
  else None.
Definition raw_content (parts : list (option bytes)) : bytes :=
  flat_map (fun p => match p with Some s => s | None => [] end) parts.
(** html/element/mod.rs: the children of a textarea are rendered unescaped and escaped as a whole *)
Definition raw_html (n : bytes) (content : bytes) : bytes :=
  match raw_kind n with Some true => esc_text content | _ => content end.

(** serialisation of a DOM forest the way tachys prints the corresponding pieces (and the
    way the [view!] macro writes an inert subtree) *)
Fixpoint ser (d : dom) : bytes :=
  match d with
  | DText s => esc_text s
  | DComment _ => marker
  | DElem n a ks =>
      open_tag n a ++
      (if is_void n then []
       else match raw_kind n with
            | Some false =>
                (fix raw (l : list dom) : bytes :=
                   match l with DText s :: l => s ++ raw l | _ :: l => raw l | [] => [] end) ks ++ close_tag n
            | _ => (fix go (l : list dom) : bytes :=
                      match l with [] => [] | k :: l => ser k ++ go l end) ks ++ close_tag n
            end)
  end.
Fixpoint ser_forest (l : list dom) : bytes :=
  match l with [] => [] | k :: l => ser k ++ ser_forest l end.

(** [to_html_with_buf] : returns the bytes appended to the buffer and the new [*position] *)
Fixpoint to_html (v : view) (pos : Position) {struct v} : bytes * Position :=
  let seq := fix seq (l : list view) (pos : Position) {struct l} : bytes * Position :=
    match l with
    | [] => ([], pos)
    | v :: l => let '(b1, p1) := to_html v pos in
                let '(b2, p2) := seq l p1 in (b1 ++ b2, p2)
    end in
  match v with
  | VText s =>                                       (* view/strings.rs *)
      ((if pos_eqb pos NextChildAfterText then marker else [])
         ++ (match s with [] => [32] | _ => esc_text s end),
       NextChildAfterText)
  | VUnit | VNone => (marker, NextChild)             (* view/tuples.rs impl for () *)
  | VElem n a ks =>                                  (* html/element/mod.rs *)
      (open_tag n a
         ++ (match ks with [] => [] | _ => fst (seq ks FirstChild) end)
         ++ close_tag n,
       NextChild)
  | VVoid n a => (open_tag n a, NextChild)
  | VTuple vs => seq vs pos
  | VSome v | VLeft v | VRight v | VAny v | VSuspend v => to_html v pos
  | VVec vs =>                                       (* view/iterators.rs *)
      let '(b, _) := seq vs pos in (b ++ marker, NextChild)
  | VKeyed vs =>                                     (* view/keyed.rs, after the fix for F-C05-b: as Vec *)
      let '(b, _) := seq vs pos in (b ++ marker, NextChild)
  | VInert e => (ser e, NextChild)                   (* html/mod.rs InertElement *)
  | VRaw n a parts => (open_tag n a ++ raw_html n (raw_content parts) ++ close_tag n, NextChild)
  end.

Fixpoint html_seq (l : list view) (pos : Position) : bytes * Position :=
  match l with
  | [] => ([], pos)
  | v :: l => let '(b1, p1) := to_html v pos in
              let '(b2, p2) := html_seq l p1 in (b1 ++ b2, p2)
  end.

(** [RenderHtml::to_html] *)
Definition render (v : view) : bytes := fst (to_html v FirstChild).

(** * The DOM a browser is expected to build from that string (reference for the round trip) *)

Definition text_node (s : bytes) : dom := DText (match s with [] => [32] | _ => s end).
Definition sep : dom := DComment [].

Fixpoint dom_of (v : view) (pos : Position) {struct v} : list dom * Position :=
  let seq := fix seq (l : list view) (pos : Position) {struct l} : list dom * Position :=
    match l with
    | [] => ([], pos)
    | v :: l => let '(b1, p1) := dom_of v pos in
                let '(b2, p2) := seq l p1 in (b1 ++ b2, p2)
    end in
  match v with
  | VText s =>
      ((if pos_eqb pos NextChildAfterText then [sep] else []) ++ [text_node s], NextChildAfterText)
  | VUnit | VNone => ([sep], NextChild)
  | VElem n a ks =>
      ([DElem n a (match ks with [] => [] | _ => fst (seq ks FirstChild) end)], NextChild)
  | VVoid n a => ([DElem n a []], NextChild)
  | VTuple vs => seq vs pos
  | VSome v | VLeft v | VRight v | VAny v | VSuspend v => dom_of v pos
  | VVec vs => let '(b, _) := seq vs pos in (b ++ [sep], NextChild)
  | VKeyed vs => let '(b, _) := seq vs pos in (b ++ [sep], NextChild)
  | VInert e => ([e], NextChild)
  | VRaw n a parts =>
      ([DElem n a (match raw_content parts with [] => [] | c => [DText c] end)], NextChild)
  end.

Fixpoint dom_seq (l : list view) (pos : Position) : list dom * Position :=
  match l with
  | [] => ([], pos)
  | v :: l => let '(b1, p1) := dom_of v pos in
              let '(b2, p2) := dom_seq l p1 in (b1 ++ b2, p2)
  end.

(** the element the application hydrates into, holding the parsed nodes *)
Definition root_of (f : list dom) : dom := DElem s_div [] f.

(** * HTML parsing (subset) *)

(** Input-stream preprocessing: CR LF and lone CR become LF. *)
Fixpoint normalize_newlines (s : bytes) : bytes :=
  match s with
  | [] => []
  | c :: t =>
      if c =? 13 then
        match t with
        | d :: t' => if d =? 10 then 10 :: normalize_newlines t' else 10 :: normalize_newlines t
        | [] => [10]
        end
      else c :: normalize_newlines t
  end.

Inductive token :=
| TChar (c : N)
| TStart (name : bytes) (attrs : list attr)
| TEnd (name : bytes)
| TComment (data : bytes).

(** the tag token under construction: end-tag flag, name, finished attributes (reversed) *)
Record tagacc := { t_end : bool; t_name : bytes; t_attrs : list attr }.

(** Tokenizer states (13.2.5.x of the HTML standard) with the accumulators each one needs;
    names and values are accumulated in reverse. *)
Inductive tmode :=
| MData                                                    (* 13.2.5.1  *)
| MCharRefData (buf : bytes)                               (* 13.2.5.72/73 from data *)
| MTagOpen                                                 (* 13.2.5.6  *)
| MEndTagOpen                                              (* 13.2.5.7  *)
| MTagName (is_end : bool) (name : bytes)                  (* 13.2.5.8  *)
| MBeforeAttrName (tg : tagacc)                            (* 13.2.5.32 *)
| MAttrName (tg : tagacc) (an : bytes)                     (* 13.2.5.33 *)
| MAfterAttrName (tg : tagacc) (an : bytes)                (* 13.2.5.34 *)
| MBeforeAttrValue (tg : tagacc) (an : bytes)              (* 13.2.5.35 *)
| MAttrValDQ (tg : tagacc) (an av : bytes)                 (* 13.2.5.36 *)
| MCharRefAttr (tg : tagacc) (an av buf : bytes)           (* 13.2.5.72/73 from an attribute value *)
| MAfterAttrValQ (tg : tagacc)                             (* 13.2.5.39 *)
| MMarkupDecl                                              (* 13.2.5.42 -> bogus comment 13.2.5.41 *)
| MRaw (n : bytes) (rc : bool)                             (* 13.2.5.2 RCDATA / 13.2.5.3 RAWTEXT / 13.2.5.4 script data *)
| MRawRef (n : bytes) (buf : bytes)                        (* character reference in RCDATA *)
| MRawLt (n : bytes) (rc : bool)                           (* 13.2.5.9 / .12 / .15 less-than sign *)
| MRawEndOpen (n : bytes) (rc : bool)                      (* 13.2.5.10 / .13 / .16 end tag open *)
| MRawEndName (n : bytes) (rc : bool) (buf : bytes)        (* 13.2.5.11 / .14 / .17 end tag name *)
| MErr.                                                    (* outside the modelled subset *)

Definition tstate := (tmode * list token)%type.            (* output tokens reversed *)

Definition is_ws (c : N) : bool := (c =? 9) || (c =? 10) || (c =? 12) || (c =? 32).
Definition is_alpha (c : N) : bool := is_upper c || is_lower c.
Definition lower (c : N) : N := if is_upper c then c + 32 else c.

(** named character references of the subset: amp; lt; gt; quot; *)
Definition ref_names : list (bytes * N) :=
  [([97; 109; 112; 59], 38); ([108; 116; 59], 60); ([103; 116; 59], 62); ([113; 117; 111; 116; 59], 34)].
Fixpoint is_prefix (a b : bytes) : bool :=
  match a, b with
  | [], _ => true
  | x :: a, y :: b => (x =? y) && is_prefix a b
  | _ :: _, [] => false
  end.
Inductive refres := RMatch (c : N) | RMore | RNone.
Definition ref_lookup (b : bytes) : refres :=
  match find (fun e => bytes_eqb b (fst e)) ref_names with
  | Some e => RMatch (snd e)
  | None => if existsb (fun e => is_prefix b (fst e)) ref_names then RMore else RNone
  end.

(** completing the current attribute: a duplicate name is dropped (13.2.5.33) *)
Definition add_attr (tg : tagacc) (an av : bytes) : tagacc :=
  let name := rev an in
  if existsb (fun a => bytes_eqb name (fst a)) (t_attrs tg) then tg
  else {| t_end := t_end tg; t_name := t_name tg; t_attrs := (name, rev av) :: t_attrs tg |}.

(** emitting a start tag of textarea / style / script switches the tokenizer (the tree
    construction stage does that for these names in the "in body" mode) *)
Definition emit_tag (tg : tagacc) (out : list token) : tstate :=
  if t_end tg then (MData, TEnd (t_name tg) :: out)
  else (match raw_kind (t_name tg) with Some rc => MRaw (t_name tg) rc | None => MData end,
        TStart (t_name tg) (rev (t_attrs tg)) :: out).

(** a character of raw text; a '<' may start the end tag *)
Definition step_raw (n : bytes) (rc : bool) (out : list token) (c : N) : tstate :=
  if c =? 60 then (MRawLt n rc, out)
  else if rc && (c =? 38) then (MRawRef n [], out)
  else (MRaw n rc, TChar c :: out).
Definition chars_rev (l : bytes) (out : list token) : list token := map TChar l ++ out.

Definition step_attr_name (tg : tagacc) (an : bytes) (out : list token) (c : N) : tstate :=
  if is_ws c then (MAfterAttrName tg an, out)
  else if c =? 47 then (MErr, out)
  else if c =? 62 then emit_tag (add_attr tg an []) out
  else if c =? 61 then (MBeforeAttrValue tg an, out)
  else if (c =? 34) || (c =? 39) || (c =? 60) || (c =? 0) then (MErr, out)
  else (MAttrName tg (lower c :: an), out).

Definition step (st : tstate) (c : N) : tstate :=
  let '(m, out) := st in
  match m with
  | MData =>
      if c =? 38 then (MCharRefData [], out)
      else if c =? 60 then (MTagOpen, out)
      else (MData, TChar c :: out)
  | MCharRefData buf =>
      match ref_lookup (rev (c :: buf)) with
      | RMatch ch => (MData, TChar ch :: out)
      | RMore => (MCharRefData (c :: buf), out)
      | RNone => (MErr, out)
      end
  | MTagOpen =>
      if c =? 33 then (MMarkupDecl, out)
      else if c =? 47 then (MEndTagOpen, out)
      else if is_alpha c then (MTagName false [lower c], out)
      else (MErr, out)
  | MEndTagOpen =>
      if is_alpha c then (MTagName true [lower c], out) else (MErr, out)
  | MTagName e n =>
      if is_ws c then (MBeforeAttrName {| t_end := e; t_name := rev n; t_attrs := [] |}, out)
      else if c =? 47 then (MErr, out)
      else if c =? 62 then emit_tag {| t_end := e; t_name := rev n; t_attrs := [] |} out
      else if c =? 0 then (MErr, out)
      else (MTagName e (lower c :: n), out)
  | MBeforeAttrName tg =>
      if is_ws c then (MBeforeAttrName tg, out)
      else if c =? 47 then (MErr, out)
      else if c =? 62 then emit_tag tg out
      else if c =? 61 then (MErr, out)
      else step_attr_name tg [] out c
  | MAttrName tg an => step_attr_name tg an out c
  | MAfterAttrName tg an =>
      if is_ws c then (MAfterAttrName tg an, out)
      else if c =? 47 then (MErr, out)
      else if c =? 61 then (MBeforeAttrValue tg an, out)
      else if c =? 62 then emit_tag (add_attr tg an []) out
      else step_attr_name (add_attr tg an []) [] out c
  | MBeforeAttrValue tg an =>
      if is_ws c then (MBeforeAttrValue tg an, out)
      else if c =? 34 then (MAttrValDQ tg an [], out)
      else (MErr, out)
  | MAttrValDQ tg an av =>
      if c =? 34 then (MAfterAttrValQ (add_attr tg an av), out)
      else if c =? 38 then (MCharRefAttr tg an av [], out)
      else if c =? 0 then (MErr, out)
      else (MAttrValDQ tg an (c :: av), out)
  | MCharRefAttr tg an av buf =>
      match ref_lookup (rev (c :: buf)) with
      | RMatch ch => (MAttrValDQ tg an (ch :: av), out)
      | RMore => (MCharRefAttr tg an av (c :: buf), out)
      | RNone => (MErr, out)
      end
  | MAfterAttrValQ tg =>
      if is_ws c then (MBeforeAttrName tg, out)
      else if c =? 62 then emit_tag tg out
      else (MErr, out)
  | MMarkupDecl =>
      if c =? 62 then (MData, TComment [] :: out) else (MErr, out)
  | MRaw n rc => step_raw n rc out c
  | MRawRef n buf =>
      match ref_lookup (rev (c :: buf)) with
      | RMatch ch => (MRaw n true, TChar ch :: out)
      | RMore => (MRawRef n (c :: buf), out)
      | RNone => (MErr, out)
      end
  | MRawLt n rc =>
      if c =? 47 then (MRawEndOpen n rc, out)
      else if (c =? 33) && negb rc then (MErr, out)        (* script data escape states: not modelled *)
      else step_raw n rc (TChar 60 :: out) c
  | MRawEndOpen n rc =>
      if is_alpha c then (MRawEndName n rc [c], out)
      else step_raw n rc (TChar 47 :: TChar 60 :: out) c
  | MRawEndName n rc buf =>
      if is_alpha c then (MRawEndName n rc (c :: buf), out)
      else if bytes_eqb (map lower (rev buf)) n then
        (* an appropriate end tag token *)
        if c =? 62 then (MData, TEnd n :: out) else (MErr, out)
      else step_raw n rc (chars_rev buf (TChar 47 :: TChar 60 :: out)) c
  | MErr => (MErr, out)
  end.

Definition run_tok (st : tstate) (s : bytes) : tstate := fold_left step s st.

Definition tokenize (s : bytes) : option (list token) :=
  match run_tok (MData, []) s with
  | (MData, out) => Some (rev out)
  | _ => None
  end.

(** ** Tree construction ("in body", fragment case) *)

(** an open element: name, attributes, children so far (reversed) *)
Record frame := { f_name : bytes; f_attrs : list attr; f_kids : list dom }.

Inductive tagkind := KOrdinary | KBlock | KPara | KVoid | KVoidBlock.
(** the element names of the modelled subset:
    span = ordinary, not "special"; div section ul main = special, closes an open <p>;
    br img input = void; hr = void and closes an open <p>. *)
Definition kind_of (n : bytes) : option tagkind :=
  if bytes_eqb n s_span then Some KOrdinary
  else if mem n [s_div; s_section; s_ul; s_main] then Some KBlock
  else if bytes_eqb n s_p then Some KPara
  else if mem n [s_br; s_img; s_input] then Some KVoid
  else if bytes_eqb n s_hr then Some KVoidBlock
  else None.

Definition closes_p (k : tagkind) : bool :=
  match k with KBlock | KPara | KVoidBlock => true | _ => false end.
Definition kind_void (k : tagkind) : bool :=
  match k with KVoid | KVoidBlock => true | _ => false end.
Definition kind_special (k : tagkind) : bool :=
  match k with KOrdinary => false | _ => true end.

Definition add_kid (k : dom) (st : list frame) : list frame :=
  match st with
  | [] => []
  | fr :: st => {| f_name := f_name fr; f_attrs := f_attrs fr; f_kids := k :: f_kids fr |} :: st
  end.
Definition close_frame (fr : frame) : dom := DElem (f_name fr) (f_attrs fr) (rev (f_kids fr)).

(** pop the current node (never the root frame) *)
Definition pop1 (st : list frame) : list frame :=
  match st with
  | fr :: (below :: st') => add_kid (close_frame fr) (below :: st')
  | _ => st
  end.

(** the root frame is the last one and has the empty name *)
Definition has_open (n : bytes) (st : list frame) : bool := existsb (fun fr => bytes_eqb n (f_name fr)) st.

(** pop elements until one named [n] has been popped *)
Fixpoint pop_until (n : bytes) (st : list frame) (fuel : nat) : list frame :=
  match fuel with
  | O => st
  | S fuel =>
      match st with
      | fr :: (_ :: _) =>
          if bytes_eqb n (f_name fr) then pop1 st else pop_until n (pop1 st) fuel
      | _ => st
      end
  end.

(** "any other end tag" for a non-special name: walk up the stack; stop (ignore the token) at
    the first special element *)
Fixpoint end_ordinary (n : bytes) (walk st : list frame) : list frame :=
  match walk with
  | fr :: ((_ :: _) as rest) =>
      if bytes_eqb n (f_name fr) then pop_until n st (length st)
      else match kind_of (f_name fr) with
           | Some k => if kind_special k then st else end_ordinary n rest st
           | None => st
           end
  | _ => st
  end.

Definition append_char (c : N) (st : list frame) : list frame :=
  match st with
  | [] => []
  | fr :: st' =>
      match f_kids fr with
      | DText s :: ks =>
          {| f_name := f_name fr; f_attrs := f_attrs fr; f_kids := DText (s ++ [c]) :: ks |} :: st'
      | ks => {| f_name := f_name fr; f_attrs := f_attrs fr; f_kids := DText [c] :: ks |} :: st'
      end
  end.

Definition first_in_textarea (st : list frame) : bool :=
  match st with
  | fr :: _ => bytes_eqb (f_name fr) s_textarea && match f_kids fr with [] => true | _ => false end
  | [] => false
  end.

(** one tree-construction step; [None] = a tag outside the modelled subset *)
Definition bstep (st : option (list frame)) (t : token) : option (list frame) :=
  match st with
  | None => None
  | Some st =>
      match t with
      | TChar c =>
          if c =? 0 then Some st
          else if (c =? 10) && first_in_textarea st then Some st    (* a newline right after <textarea> is dropped *)
          else Some (append_char c st)
      | TComment d => Some (add_kid (DComment d) st)
      | TStart n a =>
          match kind_of n with
          | None =>
              match raw_kind n with
              | Some _ => Some ({| f_name := n; f_attrs := a; f_kids := [] |} :: st)
              | None => None
              end
          | Some k =>
              let st1 := if closes_p k && has_open s_p st then pop_until s_p st (length st) else st in
              if kind_void k then Some (add_kid (DElem n a []) st1)
              else Some ({| f_name := n; f_attrs := a; f_kids := [] |} :: st1)
          end
      | TEnd n =>
          match kind_of n with
          | None =>
              match raw_kind n, st with
              | Some _, fr :: _ :: _ => if bytes_eqb n (f_name fr) then Some (pop1 st) else None
              | _, _ => None
              end
          | Some KPara =>
              if has_open s_p st then Some (pop_until s_p st (length st))
              else Some (add_kid (DElem s_p [] []) st)
          | Some KBlock => if has_open n st then Some (pop_until n st (length st)) else Some st
          | Some KOrdinary => Some (end_ordinary n st st)
          | Some KVoid => if bytes_eqb n s_br then Some (add_kid (DElem s_br [] []) st) else Some st
          | Some KVoidBlock => Some st
          end
      end
  end.

Fixpoint close_all (st : list frame) (fuel : nat) : list frame :=
  match fuel with
  | O => st
  | S fuel => match st with _ :: (_ :: _) => close_all (pop1 st) fuel | _ => st end
  end.

Definition root_frame : frame := {| f_name := []; f_attrs := []; f_kids := [] |}.

Definition build (toks : list token) : option (list dom) :=
  match fold_left bstep toks (Some [root_frame]) with
  | Some st => match close_all st (length st) with
               | [fr] => Some (rev (f_kids fr))
               | _ => None
               end
  | None => None
  end.

(** the children a browser creates inside the context element for this markup *)
Definition parse (s : bytes) : option (list dom) :=
  match tokenize (normalize_newlines s) with
  | Some toks => build toks
  | None => None
  end.

(** * Hydration *)

(** A node is addressed by its path from the root element, innermost index first. *)
Definition path := list nat.

Fixpoint get (d : dom) (p : list nat) : option dom :=
  match p with
  | [] => Some d
  | i :: p' => match d with
               | DElem _ _ ks => match nth_error ks i with Some k => get k p' | None => None end
               | _ => None
               end
  end.
Definition node_at (root : dom) (c : path) : option dom := get root (rev c).

(** Cursor::child / sibling / parent: "does nothing if there is no such node" *)
Definition cur_child (root : dom) (c : path) : path :=
  match node_at root (0%nat :: c) with Some _ => 0%nat :: c | None => c end.
Definition cur_sibling (root : dom) (c : path) : path :=
  match c with
  | [] => c
  | i :: up => match node_at root (S i :: up) with Some _ => S i :: up | None => c end
  end.
Definition cur_parent (c : path) : path := match c with [] => c | _ :: up => up end.

(** DOM writes a hydration step may perform *)
Inductive op := OSetText (n : path) (s : bytes).

(** cursor, PositionState, log of DOM writes (reversed) *)
Record hstate := { h_cur : path; h_pos : Position; h_ops : list op }.

(** retained view state: which DOM node each part of the view is bound to *)
Inductive stree :=
| SText (n : path) (s : bytes)
| SMarker (n : path)
| SElem (n : path) (attrs : list attr) (kids : option (list stree))
| SSeq (l : list stree)
| SLeftS (s : stree)
| SRightS (s : stree)
| SVec (l : list stree) (m : path)
| SAny (s : stree)
| SKeyed (parent : path) (l : list stree) (m : path)
| SInert (n : path)
| SSusp (s : stree).

Definition is_text (d : option dom) : bool := match d with Some (DText _) => true | _ => false end.
Definition is_comment (d : option dom) : bool := match d with Some (DComment _) => true | _ => false end.
Definition is_elem (d : option dom) : bool := match d with Some (DElem _ _ _) => true | _ => false end.

(** Cursor::next_placeholder *)
Definition next_placeholder (root : dom) (h : hstate) : option (path * hstate) :=
  let c := if pos_eqb (h_pos h) FirstChild then cur_child root (h_cur h) else cur_sibling root (h_cur h) in
  if is_comment (node_at root c)
  then Some (c, {| h_cur := c; h_pos := NextChild; h_ops := h_ops h |})
  else None.

(** the element step shared by HtmlElement::hydrate (inner_1) and InertElement::hydrate *)
Definition goto_element (root : dom) (h : hstate) : option path :=
  let c := if pos_eqb (h_pos h) FirstChild then cur_child root (h_cur h)
           else if pos_eqb (h_pos h) Current then h_cur h
           else cur_sibling root (h_cur h) in
  if is_elem (node_at root c) then Some c else None.

Fixpoint hydrate (root : dom) (v : view) (h : hstate) {struct v} : option (stree * hstate) :=
  let seq := fix seq (l : list view) (h : hstate) {struct l} : option (list stree * hstate) :=
    match l with
    | [] => Some ([], h)
    | v :: l =>
        match hydrate root v h with
        | None => None
        | Some (s, h1) =>
            match seq l h1 with
            | None => None
            | Some (ss, h2) => Some (s :: ss, h2)
            end
        end
    end in
  match v with
  | VText s =>                                       (* view/strings.rs hydrate *)
      let c1 := if pos_eqb (h_pos h) FirstChild then cur_child root (h_cur h)
                else cur_sibling root (h_cur h) in
      let c2 := if pos_eqb (h_pos h) NextChildAfterText then cur_sibling root c1 else c1 in
      if is_text (node_at root c2)
      then Some (SText c2 s,
                 {| h_cur := c2; h_pos := NextChildAfterText;
                    (* after the fix for F-C05: the placeholder space is reset to "" *)
                    h_ops := match s with [] => OSetText c2 [] :: h_ops h | _ => h_ops h end |})
      else None
  | VUnit | VNone =>                                 (* view/tuples.rs hydrate for () *)
      match next_placeholder root h with
      | Some (m, h1) => Some ((match v with VNone => SRightS (SMarker m) | _ => SMarker m end), h1)
      | None => None
      end
  | VElem n a ks =>                                  (* html/element/mod.rs hydrate *)
      match goto_element root h with
      | None => None
      | Some el =>
          match ks with
          | [] => Some (SElem el a None, {| h_cur := el; h_pos := NextChild; h_ops := h_ops h |})
          | _ =>
              match seq ks {| h_cur := el; h_pos := FirstChild; h_ops := h_ops h |} with
              | None => None
              | Some (ss, h1) =>
                  Some (SElem el a (Some ss), {| h_cur := el; h_pos := NextChild; h_ops := h_ops h1 |})
              end
          end
      end
  | VVoid n a =>
      match goto_element root h with
      | None => None
      | Some el => Some (SElem el a None, {| h_cur := el; h_pos := NextChild; h_ops := h_ops h |})
      end
  | VTuple vs =>
      match seq vs h with Some (ss, h1) => Some (SSeq ss, h1) | None => None end
  | VSome v | VLeft v =>
      match hydrate root v h with Some (s, h1) => Some (SLeftS s, h1) | None => None end
  | VRight v =>
      match hydrate root v h with Some (s, h1) => Some (SRightS s, h1) | None => None end
  | VAny v =>
      match hydrate root v h with Some (s, h1) => Some (SAny s, h1) | None => None end
  | VSuspend v =>                                    (* Suspend::hydrate: Some(value).hydrate(..) *)
      match hydrate root v h with Some (s, h1) => Some (SSusp s, h1) | None => None end
  | VVec vs =>                                       (* view/iterators.rs hydrate for Vec *)
      match seq vs h with
      | None => None
      | Some (ss, h1) =>
          match next_placeholder root h1 with
          | Some (m, h2) => Some (SVec ss m, h2)
          | None => None
          end
      end
  | VKeyed vs =>                                     (* view/keyed.rs hydrate *)
      let parent := if pos_eqb (h_pos h) FirstChild then h_cur h else cur_parent (h_cur h) in
      if negb (is_elem (node_at root parent))
         || (negb (pos_eqb (h_pos h) FirstChild) && match h_cur h with [] => true | _ => false end)
      then None
      else match seq vs h with
           | None => None
           | Some (ss, h1) =>
               match next_placeholder root h1 with
               | Some (m, h2) => Some (SKeyed parent ss m, h2)
               | None => None
               end
           end
  | VInert e =>                                      (* html/mod.rs InertElement::hydrate *)
      match goto_element root h with
      | None => None
      | Some el => Some (SInert el, {| h_cur := el; h_pos := NextChild; h_ops := h_ops h |})
      end
  | VRaw n a _ =>                                    (* HtmlElement::hydrate with !E::ESCAPE_CHILDREN: children = None *)
      match goto_element root h with
      | None => None
      | Some el => Some (SElem el a None, {| h_cur := el; h_pos := NextChild; h_ops := h_ops h |})
      end
  end.

Fixpoint hydrate_seq (root : dom) (l : list view) (h : hstate) : option (list stree * hstate) :=
  match l with
  | [] => Some ([], h)
  | v :: l =>
      match hydrate root v h with
      | None => None
      | Some (s, h1) =>
          match hydrate_seq root l h1 with
          | None => None
          | Some (ss, h2) => Some (s :: ss, h2)
          end
      end
  end.

(** [hydrate_from::<true>(root)] : cursor at the root element, Position::FirstChild *)
Definition hydrate_from (root : dom) (v : view) : option (stree * hstate) :=
  hydrate root v {| h_cur := []; h_pos := FirstChild; h_ops := [] |}.

(** what the application does: parse the server's markup into the root element, then hydrate *)
Definition hydrate_parsed (v : view) : option (dom * stree * hstate) :=
  match parse (render v) with
  | Some f => match hydrate_from (root_of f) v with
              | Some (st, h) => Some (root_of f, st, h)
              | None => None
              end
  | None => None
  end.

(** the nodes a state is bound to, in binding order *)
Fixpoint bound (s : stree) : list path :=
  let seq := fix seq (l : list stree) : list path :=
    match l with [] => [] | s :: l => bound s ++ seq l end in
  match s with
  | SText n _ | SMarker n | SInert n => [n]
  | SElem n _ ks => n :: match ks with Some l => seq l | None => [] end
  | SSeq l => seq l
  | SLeftS s | SRightS s | SAny s | SSusp s => bound s
  | SVec l m | SKeyed _ l m => seq l ++ [m]
  end.
Fixpoint bound_seq (l : list stree) : list path :=
  match l with [] => [] | s :: l => bound s ++ bound_seq l end.

(** applying the logged DOM writes *)
Fixpoint set_text_at (d : dom) (p : list nat) (s : bytes) : dom :=
  match p with
  | [] => match d with DText _ => DText s | _ => d end
  | i :: p' =>
      match d with
      | DElem n a ks =>
          DElem n a ((fix upd (l : list dom) (i : nat) : list dom :=
                        match l, i with
                        | [], _ => []
                        | k :: l, O => set_text_at k p' s :: l
                        | k :: l, S i => k :: upd l i
                        end) ks i)
      | _ => d
      end
  end.
Definition apply_op (d : dom) (o : op) : dom :=
  match o with OSetText n s => set_text_at d (rev n) s end.
(** ops are logged newest first *)
Definition apply_ops (d : dom) (ops : list op) : dom := fold_left apply_op (rev ops) d.

(** * Client-side build (what [Render::build] + [mount] put into the parent) *)
Fixpoint dom_csr (v : view) : list dom :=
  let seq := fix seq (l : list view) : list dom :=
    match l with [] => [] | v :: l => dom_csr v ++ seq l end in
  match v with
  | VText s => [DText s]
  | VUnit | VNone => [sep]
  | VElem n a ks => [DElem n a (seq ks)]
  | VVoid n a => [DElem n a []]
  | VTuple vs => seq vs
  | VSome v | VLeft v | VRight v | VAny v | VSuspend v => dom_csr v
  | VVec vs | VKeyed vs => seq vs ++ [sep]
  | VInert e => [e]
  | VRaw n a parts => [DElem n a (map (fun p => match p with Some s => DText s | None => sep end) parts)]
  end.
Fixpoint csr_seq (l : list view) : list dom :=
  match l with [] => [] | v :: l => dom_csr v ++ csr_seq l end.

(** marker comments are not part of the rendered output *)
Fixpoint strip (d : dom) : list dom :=
  match d with
  | DText s => [DText s]
  | DComment _ => []
  | DElem n a ks =>
      [DElem n a ((fix go (l : list dom) : list dom :=
                     match l with [] => [] | k :: l => strip k ++ go l end) ks)]
  end.
Fixpoint strip_forest (l : list dom) : list dom :=
  match l with [] => [] | k :: l => strip k ++ strip_forest l end.

(** * Side conditions *)

(** text / attribute values: no NUL (dropped by the tree builder) and no CR (normalised away) *)
Definition char_ok (c : N) : bool := negb (c =? 0) && negb (c =? 13).
Definition text_ok (s : bytes) : bool := forallb char_ok s.

(** attribute names as tachys writes them: lower-case letters, digits, '-' ; non-empty *)
Definition name_char (c : N) : bool := is_lower c || is_digit c || (c =? 45).
Definition name_ok (s : bytes) : bool :=
  match s with [] => false | c :: _ => is_lower c && forallb name_char s end.

Fixpoint nodup_names (l : list attr) : bool :=
  match l with
  | [] => true
  | a :: l => negb (existsb (fun b => bytes_eqb (fst a) (fst b)) l) && nodup_names l
  end.
Definition attrs_ok (l : list attr) : bool :=
  forallb (fun a => name_ok (fst a) && text_ok (snd a)) l && nodup_names l.

(** content model: inside an open <p>, no element that would close it *)
Definition elem_ok (in_p : bool) (n : bytes) (void : bool) : bool :=
  match kind_of n with
  | None => false
  | Some k => Bool.eqb (kind_void k) void && negb (in_p && closes_p k)
  end.

(** a DOM subtree that is the parse of its own serialisation: known element names, void elements
    childless, nothing that closes an open <p> inside a <p>, parseable attributes, no empty text, no
    two adjacent text nodes, only empty comments (also: what an inert static subtree must be) *)
Definition is_text_node (d : dom) : bool := match d with DText _ => true | _ => false end.
Fixpoint node_ok (in_p : bool) (d : dom) : bool :=
  match d with
  | DText s => text_ok s && negb (match s with [] => true | _ => false end)
  | DComment s => match s with [] => true | _ => false end
  | DElem n a ks =>
      match kind_of n with
      | None => false
      | Some k =>
          negb (in_p && closes_p k) && attrs_ok a &&
          (if kind_void k then match ks with [] => true | _ => false end
           else (fix go (l : list dom) (prev_text : bool) : bool :=
                   match l with
                   | [] => true
                   | k' :: l =>
                       negb (prev_text && is_text_node k')
                       && node_ok (in_p || bytes_eqb n s_p) k' && go l (is_text_node k')
                   end) ks false)
      end
  end.
Fixpoint forest_ok (in_p : bool) (l : list dom) (prev_text : bool) : bool :=
  match l with
  | [] => true
  | k :: l => negb (prev_text && is_text_node k) && node_ok in_p k && forest_ok in_p l (is_text_node k)
  end.

(** [wf in_p v]: the view only uses element names of the modelled subset, void-ness as the
    parser sees it, nesting the HTML content model allows (nothing that closes an open <p> inside
    a <p>), parseable attribute names, text without NUL / CR, non-empty tuples.
    ([VKeyed] is treated as after the repair of F-C05-b.) *)
Fixpoint wf (in_p : bool) (v : view) {struct v} : bool :=
  let all := fix all (b : bool) (l : list view) {struct l} : bool :=
    match l with [] => true | v :: l => wf b v && all b l end in
  match v with
  | VText s => text_ok s
  | VUnit | VNone => true
  | VElem n a ks => elem_ok in_p n false && attrs_ok a && all (in_p || bytes_eqb n s_p) ks
  | VVoid n a => elem_ok in_p n true && attrs_ok a
  | VTuple vs => negb (match vs with [] => true | _ => false end) && all in_p vs
  | VSome v | VLeft v | VRight v | VAny v | VSuspend v => wf in_p v
  | VVec vs | VKeyed vs => all in_p vs
  | VInert e => match e with DElem _ _ _ => node_ok in_p e | _ => false end
  | VRaw _ _ _ => false      (* outside the proved grammar: modelled and compared only (finding F-C05-c) *)
  end.
Fixpoint wf_seq (b : bool) (l : list view) : bool :=
  match l with [] => true | v :: l => wf b v && wf_seq b l end.
