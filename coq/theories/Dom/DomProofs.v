(** Lemmas about the child-list model Dom.v: block moves and removals. *)
From Coq Require Import List NArith Bool Arith Lia.
From LV Require Import Dom.Dom.
Import ListNotations.

Lemma memN_In : forall x l, memN x l = true <-> In x l.
Proof.
  intros x l. unfold memN. rewrite existsb_exists. split.
  - intros [y [Hy He]]. apply N.eqb_eq in He. subst. exact Hy.
  - intros H. exists x. split; [exact H | apply N.eqb_refl].
Qed.

Lemma memN_false : forall x l, memN x l = false <-> ~ In x l.
Proof.
  intros x l. rewrite <- memN_In. destruct (memN x l); split; intro H; congruence.
Qed.

(** [l] without the elements of [ns] *)
Definition diffl (l ns : list N) : list N := filter (fun y => negb (memN y ns)) l.

Lemma filter_all_true : forall {A} (f : A -> bool) l, (forall x, In x l -> f x = true) -> filter f l = l.
Proof.
  induction l as [|y l IH]; intros H; cbn [filter]; auto.
  rewrite (H y (or_introl eq_refl)). rewrite IH; auto. intros; apply H; right; auto.
Qed.

Lemma filter_all_false : forall {A} (f : A -> bool) l, (forall x, In x l -> f x = false) -> filter f l = [].
Proof.
  induction l as [|y l IH]; intros H; cbn [filter]; auto.
  rewrite (H y (or_introl eq_refl)). rewrite IH; auto. intros; apply H; right; auto.
Qed.

Lemma diffl_app : forall a b ns, diffl (a ++ b) ns = diffl a ns ++ diffl b ns.
Proof. intros. unfold diffl. apply filter_app. Qed.

Lemma diffl_nil_r : forall l, diffl l [] = l.
Proof. intros. apply filter_all_true. intros; reflexivity. Qed.

Lemma remove_node_app : forall x a b, remove_node x (a ++ b) = remove_node x a ++ remove_node x b.
Proof. intros. unfold remove_node. apply filter_app. Qed.

Lemma remove_node_notin : forall x l, ~ In x l -> remove_node x l = l.
Proof.
  induction l as [|y l IH]; simpl; intros H; auto.
  destruct (N.eqb_spec x y) as [E|E]; simpl.
  - exfalso. apply H. left. auto.
  - rewrite IH; auto.
Qed.

Lemma remove_node_In : forall x y l, In y (remove_node x l) <-> In y l /\ y <> x.
Proof.
  intros. unfold remove_node. rewrite filter_In. split; intros [H1 H2]; split; auto.
  - intro E. subst. rewrite N.eqb_refl in H2. discriminate.
  - destruct (N.eqb_spec x y); auto.
Qed.

Lemma remove_node_diffl : forall x l, remove_node x l = diffl l [x].
Proof.
  intros. unfold remove_node, diffl. apply filter_ext. intros y. simpl.
  rewrite orb_false_r. rewrite N.eqb_sym. reflexivity.
Qed.

Lemma diffl_cons : forall l n ns, diffl l (n :: ns) = diffl (remove_node n l) ns.
Proof.
  intros l n ns. unfold diffl, remove_node.
  induction l as [|y l IH]; cbn [filter]; auto.
  assert (memN y (n :: ns) = (N.eqb y n || memN y ns)) as -> by reflexivity.
  rewrite (N.eqb_sym n y). destruct (N.eqb y n); cbn [negb orb filter].
  - apply IH.
  - destruct (memN y ns); cbn [negb]; rewrite IH; reflexivity.
Qed.

Lemma diffl_In : forall y l ns, In y (diffl l ns) <-> In y l /\ ~ In y ns.
Proof.
  intros. unfold diffl. rewrite filter_In. rewrite negb_true_iff, memN_false. tauto.
Qed.

Lemma diffl_disjoint : forall l ns, (forall y, In y l -> ~ In y ns) -> diffl l ns = l.
Proof.
  intros l ns H. apply filter_all_true. intros x Hx. apply negb_true_iff, memN_false. auto.
Qed.

Lemma diffl_self : forall l, diffl l l = [].
Proof.
  intros l. apply filter_all_false. intros x Hx. apply negb_false_iff, memN_In. auto.
Qed.

Lemma unmount_fold : forall ns l, fold_left (fun d n => remove_node n d) ns l = diffl l ns.
Proof.
  induction ns as [|n ns IH]; intros l; simpl.
  - symmetry. apply diffl_nil_r.
  - rewrite IH. symmetry. apply diffl_cons.
Qed.

Lemma insert_at_mid : forall x a l1 l2, ~ In a l1 -> insert_at x a (l1 ++ a :: l2) = l1 ++ x :: a :: l2.
Proof.
  induction l1 as [|y l1 IH]; intros l2 H; simpl.
  - rewrite N.eqb_refl. reflexivity.
  - destruct (N.eqb_spec y a) as [E|E].
    + exfalso. apply H. left. auto.
    + rewrite IH; auto. intro; apply H; right; auto.
Qed.

Lemma insert_before_mid : forall x a L R, ~ In a L -> x <> a ->
  insert_before x (Some a) (L ++ a :: R) = remove_node x L ++ x :: a :: remove_node x R.
Proof.
  intros x a L R Ha Hx. unfold insert_before.
  assert (memN a (L ++ a :: R) = true) as -> by (apply memN_In; apply in_or_app; right; left; auto).
  simpl. destruct (N.eqb_spec a x); [congruence|].
  rewrite remove_node_app. simpl. destruct (N.eqb_spec x a); [congruence|]. simpl.
  apply insert_at_mid. rewrite remove_node_In. tauto.
Qed.

(** mounting a block of nodes before an anchor: the block ends up, in order, right
    before the anchor and nowhere else *)
Lemma mount_block : forall ns a L R,
  NoDup ns -> ~ In a ns -> ~ In a L ->
  fold_left (fun d n => insert_before n (Some a) d) ns (L ++ a :: R)
  = diffl L ns ++ ns ++ a :: diffl R ns.
Proof.
  induction ns as [|n ns IH]; intros a L R Hnd Ha HL; cbn [fold_left].
  - rewrite !diffl_nil_r. reflexivity.
  - inversion Hnd as [|? ? Hn Hnd']; subst.
    rewrite insert_before_mid; auto.
    2:{ intro E. apply Ha. left. auto. }
    replace (remove_node n L ++ n :: a :: remove_node n R)
      with ((remove_node n L ++ [n]) ++ a :: remove_node n R)
      by (rewrite <- app_assoc; reflexivity).
    rewrite IH; auto.
    + rewrite diffl_app. rewrite !diffl_cons.
      assert (diffl [n] ns = [n]) as ->.
      { apply diffl_disjoint. intros y [E|[]]. subst. auto. }
      rewrite <- app_assoc. reflexivity.
    + intro; apply Ha; right; auto.
    + intro H. apply in_app_or in H. destruct H as [H|[H|[]]].
      * apply remove_node_In in H. tauto.
      * subst. apply Ha. left. auto.
Qed.

Lemma index_of_Some_lt : forall x l i, index_of x l = Some i -> i < length l.
Proof.
  induction l as [|y l IH]; simpl; intros i H; [discriminate|].
  destruct (N.eqb x y).
  - inversion H. lia.
  - destruct (index_of x l); simpl in H; inversion H. specialize (IH _ eq_refl). lia.
Qed.

Lemma index_of_nth : forall x l i, index_of x l = Some i -> nth_error l i = Some x.
Proof.
  induction l as [|y l IH]; simpl; intros i H; [discriminate|].
  destruct (N.eqb_spec x y).
  - inversion H. subst. reflexivity.
  - destruct (index_of x l); simpl in H; inversion H. simpl. apply IH. reflexivity.
Qed.

Lemma index_of_None : forall x l, index_of x l = None <-> ~ In x l.
Proof.
  induction l as [|y l IH]; simpl.
  - split; auto.
  - destruct (N.eqb_spec x y) as [E|E].
    + split; [discriminate|]. intro H. exfalso. apply H. left. auto.
    + destruct (index_of x l); simpl.
      * split; [discriminate|]. intro H. exfalso. apply H. right.
        destruct IH as [_ IH]. exfalso.
        assert (~ In x l) as Hn by (intro Hi; apply H; right; exact Hi).
        specialize (IH Hn). discriminate.
      * split; auto. intros _ [H|H]; [congruence|]. destruct IH as [IH _]. apply IH; auto.
Qed.

Lemma index_of_In : forall x l, In x l -> exists i, index_of x l = Some i.
Proof.
  intros x l H. destruct (index_of x l) eqn:E; eauto.
  apply index_of_None in E. contradiction.
Qed.

Lemma nth_index_of : forall l i x, NoDup l -> nth_error l i = Some x -> index_of x l = Some i.
Proof.
  induction l as [|y l IH]; intros i x Hnd H; destruct i; simpl in *; try discriminate.
  - inversion H. subst. rewrite N.eqb_refl. reflexivity.
  - inversion Hnd; subst. destruct (N.eqb_spec x y) as [E|E].
    + subst. exfalso. apply H2. eapply nth_error_In; eauto.
    + rewrite (IH i x); auto.
Qed.
