(** C03: rebuilding a view state in place yields the DOM of a fresh render of the new value. *)
From Coq Require Import List NArith Bool Arith Lia Permutation.
From LV Require Import Dom.Dom Dom.DomProofs Dom.Keyed Dom.KeyedLemmas Dom.KeyedProofs Dom.KeyedTop Dom.View.
Import ListNotations.

(* ------------------------------------------------------------- rendered content, id-free *)

(** what is displayed, forgetting node identity *)
Inductive tnode := TT (s : str) | TC | TE (tag : nat) (a : dattrs) (kids : list tnode).

(** ... by a fresh render of a view *)
Fixpoint cv (v : view) : list tnode :=
  match v with
  | VText _ s => [TT s]
  | VUnit => [TC]
  | VEl tag a c => [TE tag (build_attrs a) (cv c)]
  | VTuple _ l => flat_map cv l
  | VEither _ _ c => cv c
  | VOpt (Some c) => cv c
  | VOpt None => [TC]
  | VVec l => flat_map cv l ++ [TC]
  | VStatic l => flat_map cv l
  | VKeyed items => flat_map (fun kv => cv (snd kv)) items ++ [TC]
  end.

(** ... by a state (whose elements hold exactly the nodes of their child state, see [good]) *)
Fixpoint cs (s : st) : list tnode :=
  match s with
  | SText _ _ t => [TT t]
  | SUnit _ | SOptNone _ => [TC]
  | SEl _ tag _ d _ c => [TE tag d (cs c)]
  | STuple _ l | SStatic l _ => flat_map cs l
  | SEither _ _ c | SOptSome c => cs c
  | SVec l _ => flat_map cs l ++ [TC]
  | SKeyed rows _ _ => flat_map (fun r => cs (snd r)) rows ++ [TC]
  end.

(* ------------------------------------------------------------------------- the fragment *)

(** the new attributes [a] of an element rebuilt in place, against the attributes [prev] it
    was last rendered with: the class attribute is always rewritten from the class string,
    and the [class:on] toggle only reacts to a change of its flag; this goes wrong exactly
    when the toggle was on and [on] is not where it should be afterwards (F-C03-c) *)
Definition attrs_ok (prev a : vattrs) : bool :=
  negb (va_on prev && xorb (va_on a) (has_tok tok_on (tokens (va_class a)))).

(** views in which every state owns a node: no StaticVec / Fragment, no empty tuple or array *)
Fixpoint okv (v : view) : Prop :=
  match v with
  | VText _ _ | VUnit | VOpt None => True
  | VEl _ a c => okv c
  | VTuple _ l => l <> [] /\ (fix all l := match l with [] => True | x :: r => okv x /\ all r end) l
  | VEither _ _ c | VOpt (Some c) => okv c
  | VVec l => (fix all l := match l with [] => True | x :: r => okv x /\ all r end) l
  | VStatic _ => False
  | VKeyed items => NoDup (map fst items) /\
                    (fix all (l : list (N * view)) := match l with [] => True | kv :: r => okv (snd kv) /\ all r end) items
  end.

Fixpoint all_okv (l : list view) : Prop := match l with [] => True | x :: r => okv x /\ all_okv r end.

Lemma all_okv_fix : forall l,
  (fix all l := match l with [] => True | x :: r => okv x /\ all r end) l <-> all_okv l.
Proof. induction l; simpl; tauto. Qed.
Lemma okv_tuple : forall a l, okv (VTuple a l) <-> l <> [] /\ all_okv l.
Proof. intros. cbn [okv]. rewrite all_okv_fix. tauto. Qed.
Lemma okv_vec : forall l, okv (VVec l) <-> all_okv l.
Proof. intros. cbn [okv]. apply all_okv_fix. Qed.
Lemma okv_keyed : forall items, okv (VKeyed items) <-> NoDup (map fst items) /\ all_okv (map snd items).
Proof.
  intros. cbn [okv]. assert (forall l : list (N * view),
    (fix all (l : list (N * view)) := match l with [] => True | kv :: r => okv (snd kv) /\ all r end) l
    <-> all_okv (map snd l)) as H by (induction l; simpl; tauto).
  rewrite H. tauto.
Qed.

(** states of that fragment, with every id below [n]: each element holds exactly the nodes
    of its child state, and its DOM attributes are those of the value last rendered *)
Fixpoint good (n : N) (s : st) : Prop :=
  match s with
  | SText id _ _ | SUnit id | SOptNone id => (id < n)%N
  | SEl id _ prev d kids c =>
      (id < n)%N /\ kids = ids c /\ d = build_attrs prev /\ NoDup (ids c) /\ good n c
  | STuple _ l => l <> [] /\ (fix all l := match l with [] => True | x :: r => good n x /\ all r end) l
  | SEither _ _ c | SOptSome c => good n c
  | SVec l mk => (mk < n)%N /\ (fix all l := match l with [] => True | x :: r => good n x /\ all r end) l
  | SStatic _ _ => False
  | SKeyed rows mk _ =>
      (mk < n)%N /\ NoDup (map (fun r => fst (fst r)) rows) /\
      (fix all (l : list (N * nat * st)) := match l with [] => True | x :: r => good n (snd x) /\ all r end) rows
  end.
Fixpoint all_good (n : N) (l : list st) : Prop := match l with [] => True | x :: r => good n x /\ all_good n r end.

Lemma all_good_fix : forall n l,
  (fix all l := match l with [] => True | x :: r => good n x /\ all r end) l <-> all_good n l.
Proof. induction l; simpl; tauto. Qed.
Lemma good_tuple : forall n a l, good n (STuple a l) <-> l <> [] /\ all_good n l.
Proof. intros. cbn [good]. rewrite all_good_fix. tauto. Qed.
Lemma good_vec : forall n l mk, good n (SVec l mk) <-> (mk < n)%N /\ all_good n l.
Proof. intros. cbn [good]. rewrite all_good_fix. tauto. Qed.
Lemma good_keyed : forall n rows mk g, good n (SKeyed rows mk g) <->
  (mk < n)%N /\ NoDup (map (fun r => fst (fst r)) rows) /\ all_good n (map snd rows).
Proof.
  intros. cbn [good]. assert (forall l : list (N * nat * st),
    (fix all (l : list (N * nat * st)) := match l with [] => True | x :: r => good n (snd x) /\ all r end) l
    <-> all_good n (map snd l)) as H by (induction l; simpl; tauto).
  rewrite H. tauto.
Qed.

(** induction on views, with the hypothesis for every member of a list *)
Lemma view_ind' : forall P : view -> Prop,
  (forall k s, P (VText k s)) -> P VUnit ->
  (forall tag a c, P c -> P (VEl tag a c)) ->
  (forall a l, Forall P l -> P (VTuple a l)) ->
  (forall ar r c, P c -> P (VEither ar r c)) ->
  (forall c, P c -> P (VOpt (Some c))) -> P (VOpt None) ->
  (forall l, Forall P l -> P (VVec l)) ->
  (forall l, Forall P l -> P (VStatic l)) ->
  (forall items, Forall (fun kv => P (snd kv)) items -> P (VKeyed items)) ->
  forall v, P v.
Proof.
  intros P H1 H2 H3 H4 H5 H6 H7 H8 H9 H10. fix IH 1. intros v. destruct v as [k s| |tag a c|a l|ar r c|[c|]|l|l|items].
  - apply H1.
  - apply H2.
  - apply H3. apply IH.
  - apply H4. induction l; constructor; auto.
  - apply H5. apply IH.
  - apply H6. apply IH.
  - apply H7.
  - apply H8. induction l; constructor; auto.
  - apply H9. induction l; constructor; auto.
  - apply H10. induction items as [|[k x] items IHi]; constructor; auto.
Qed.

(* ----------------------------------------------------------------- ids, bounds, lists *)

Lemma good_mono : forall s n m, (n <= m)%N -> good n s -> good m s.
Proof.
  fix IH 1. intros s n m Hle. destruct s as [id k t|id|id tag prev d kids c|arr l|ar r c|c|ph|l mk|l b|rows mk g]; simpl; intros H.
  - lia.
  - lia.
  - destruct H as [H1 [H2 [H3 [H5 H6]]]].
    split; [lia|]. split; [auto|]. split; [auto|]. split; [auto|]. eapply IH; eauto.
  - destruct H as [H1 H2]. split; auto. clear H1. induction l as [|x l IHl]; auto. destruct H2 as [A B].
    split; [eapply IH; eauto | apply IHl; exact B].
  - eapply IH; eauto.
  - eapply IH; eauto.
  - lia.
  - destruct H as [H1 H2]. split; [lia|]. clear H1. induction l as [|x l IHl]; auto. destruct H2 as [A B].
    split; [eapply IH; eauto | apply IHl; exact B].
  - exact H.
  - destruct H as [H1 [H2 H3]]. split; [lia|]. split; [auto|]. clear H1 H2.
    induction rows as [|x l IHl]; auto. destruct H3 as [A B].
    split; [eapply IH; eauto | apply IHl; exact B].
Qed.

Lemma all_good_mono : forall l n m, (n <= m)%N -> all_good n l -> all_good m l.
Proof. induction l; simpl; intros; auto. destruct H0. split; eauto using good_mono. Qed.

(** all top-level ids of a good state are below the bound *)
Lemma good_ids_lt : forall s n, good n s -> forall x, In x (ids s) -> (x < n)%N.
Proof.
  fix IH 1. intros s n. destruct s as [id k t|id|id tag prev d kids c|arr l|ar r c|c|ph|l mk|l b|rows mk g]; simpl; intros H x Hx.
  - destruct Hx as [<-|[]]. auto.
  - destruct Hx as [<-|[]]. auto.
  - destruct Hx as [<-|[]]. tauto.
  - destruct H as [_ H]. induction l as [|y l IHl]; simpl in *; [contradiction|]. destruct H.
    apply in_app_or in Hx. destruct Hx; eauto.
  - eauto.
  - eauto.
  - destruct Hx as [<-|[]]. auto.
  - destruct H as [Hm H]. apply in_app_or in Hx. destruct Hx as [Hx|[<-|[]]]; auto.
    induction l as [|y l IHl]; simpl in *; [contradiction|]. destruct H.
    apply in_app_or in Hx. destruct Hx; eauto.
  - contradiction.
  - destruct H as [Hm [_ H]]. apply in_app_or in Hx. destruct Hx as [Hx|[<-|[]]]; auto.
    induction rows as [|y l IHl]; simpl in *; [contradiction|]. destruct H.
    apply in_app_or in Hx. destruct Hx; eauto.
Qed.

(** a good state always owns at least one top-level node *)
Lemma good_ids_nonempty : forall s n, good n s -> ids s <> [].
Proof.
  fix IH 1. intros s n. destruct s as [id k t|id|id tag prev d kids c|arr l|ar r c|c|ph|l mk|l b|rows mk g]; simpl; intros H; try discriminate.
  - destruct H as [Hne H]. destruct l as [|x l]; [congruence|]. destruct H as [Hx _]. simpl.
    pose proof (IH x n Hx). destruct (ids x); [congruence|discriminate].
  - eauto.
  - eauto.
  - destruct (flat_map ids l); discriminate.
  - contradiction.
  - destruct (flat_map (fun r => ids (snd r)) rows); discriminate.
Qed.

(* -------------------------------------------------------------- blocks of fresh nodes *)

Lemma mount_ids_before : forall ns a L R,
  NoDup ns -> ~ In a L -> (forall x, In x ns -> ~ In x (L ++ a :: R)) ->
  mount_ids ns (Some a) (L ++ a :: R) = L ++ ns ++ a :: R.
Proof.
  intros ns a L R Hnd Ha Hf. unfold mount_ids. rewrite mount_block; auto.
  - rewrite !diffl_disjoint; auto.
    + intros y Hy Hc. apply (Hf y Hc). apply in_or_app. right. right. auto.
    + intros y Hy Hc. apply (Hf y Hc). apply in_or_app. left. auto.
  - intro Hc. apply (Hf a Hc). apply in_or_app. right. left. auto.
Qed.

Lemma mount_ids_end : forall ns l,
  NoDup ns -> (forall x, In x ns -> ~ In x l) -> mount_ids ns None l = l ++ ns.
Proof.
  unfold mount_ids. induction ns as [|n ns IH]; intros l Hnd Hf; cbn [fold_left].
  - rewrite app_nil_r. reflexivity.
  - inversion Hnd; subst. unfold insert_before at 2. rewrite remove_node_notin by (apply Hf; left; auto).
    rewrite IH; auto.
    + rewrite <- app_assoc. reflexivity.
    + intros x Hx Hc. apply in_app_or in Hc. destruct Hc as [Hc|[Hc|[]]].
      * apply (Hf x); auto. right. auto.
      * subst. contradiction.
Qed.

Lemma unmount_block : forall s pre post,
  NoDup (pre ++ ids s ++ post) -> unmount_st s (pre ++ ids s ++ post) = pre ++ post.
Proof.
  intros s pre post Hnd. unfold unmount_st. rewrite unmount_fold. rewrite !diffl_app, diffl_self.
  rewrite !diffl_disjoint; auto.
  - intros y Hy Hc. apply NoDup_remove_2 in Hnd || idtac.
    clear -Hnd Hy Hc. induction pre as [|p pre IH]; simpl in *.
    + revert Hnd Hy Hc. generalize (ids s) as b. induction b as [|x b IHb]; simpl; intros Hnd Hy Hc; [contradiction|].
      inversion Hnd; subst. destruct Hc as [E|Hc].
      * subst. apply H1. apply in_or_app. right. auto.
      * eapply IHb; eauto.
    + inversion Hnd; subst. eauto.
  - intros y Hy Hc. clear -Hnd Hy Hc. induction pre as [|p pre IH]; simpl in *.
    + contradiction.
    + inversion Hnd; subst. destruct Hy as [E|Hy]; eauto. subst. apply H1. apply in_or_app. right.
      apply in_or_app. left. auto.
Qed.

(* ------------------------------------------------------------------------- mounting *)

Lemma mark_mounted_ids : forall s, ids (mark_mounted s) = ids s.
Proof.
  fix IH 1. intros s. destruct s as [id k t|id|id tag prev d kids c|arr l|ar r c|c|ph|l mk|l b|rows mk g]; simpl; auto.
  - induction l as [|x l IHl]; simpl; auto. rewrite IH, IHl. reflexivity.
  - f_equal. induction l as [|x l IHl]; simpl; auto. rewrite IH, IHl. reflexivity.
  - induction l as [|x l IHl]; simpl; auto. rewrite IH, IHl. reflexivity.
  - f_equal. induction rows as [|x l IHl]; simpl; auto. rewrite IH, IHl. reflexivity.
Qed.

Lemma mark_mounted_good : forall s n, good n s -> mark_mounted s = s.
Proof.
  fix IH 1. intros s n. destruct s as [id k t|id|id tag prev d kids c|arr l|ar r c|c|ph|l mk|l b|rows mk g]; simpl; intros H; auto.
  - destruct H as [_ H]. f_equal. induction l as [|x l IHl]; simpl; auto. destruct H as [A B].
    rewrite (IH x n A), IHl; auto.
  - f_equal. eauto.
  - f_equal. eauto.
  - destruct H as [_ H]. f_equal. induction l as [|x l IHl]; simpl; auto. destruct H as [A B].
    rewrite (IH x n A), IHl; auto.
  - contradiction.
  - destruct H as [_ [_ H]]. f_equal. induction rows as [|x l IHl]; simpl; auto. destruct H as [A B].
    rewrite (IH (snd x) n A), IHl; auto. destruct x; reflexivity.
Qed.

(** [insert_before_this] of a good state whose nodes are all children of the parent puts
    the child right before the state's first node *)
Lemma anchor_first : forall s n dom, good n s -> (forall x, In x (ids s) -> In x dom) ->
  exists a rest, ids s = a :: rest /\ anchor_of s dom = Some a.
Proof.
  fix IH 1. intros s n dom. destruct s as [id k t|id|id tag prev d kids c|arr l|ar r c|c|ph|l mk|l b|rows mk g]; simpl; intros H Hin.
  - exists id, []. split; auto. assert (memN id dom = true) as -> by (apply memN_In; apply Hin; left; auto). auto.
  - exists id, []. split; auto. assert (memN id dom = true) as -> by (apply memN_In; apply Hin; left; auto). auto.
  - exists id, []. split; auto. assert (memN id dom = true) as -> by (apply memN_In; apply Hin; left; auto). auto.
  - destruct H as [Hne H]. destruct l as [|x l]; [congruence|]. destruct H as [Hx _].
    destruct (IH x n dom Hx) as [a [rest [E Ea]]].
    { intros y Hy. apply Hin. simpl. apply in_or_app. left. auto. }
    exists a, (rest ++ flat_map ids l). simpl. rewrite E, Ea. auto.
  - eauto.
  - eauto.
  - exists ph, []. split; auto. assert (memN ph dom = true) as -> by (apply memN_In; apply Hin; left; auto). auto.
  - destruct H as [Hm H]. destruct l as [|x l].
    + simpl. exists mk, []. split; auto.
      assert (memN mk dom = true) as -> by (apply memN_In; apply Hin; left; auto). auto.
    + destruct H as [Hx _]. destruct (IH x n dom Hx) as [a [rest [E Ea]]].
      { intros y Hy. apply Hin. simpl. apply in_or_app. left. apply in_or_app. left. auto. }
      exists a, ((rest ++ flat_map ids l) ++ [mk]). simpl. rewrite E, Ea. split; auto.
  - contradiction.
  - destruct H as [Hm [_ H]]. destruct rows as [|x l].
    + simpl. exists mk, []. split; auto.
      assert (memN mk dom = true) as -> by (apply memN_In; apply Hin; left; auto). auto.
    + destruct H as [Hx _]. destruct (IH (snd x) n dom Hx) as [a [rest [E Ea]]].
      { intros y Hy. apply Hin. simpl. apply in_or_app. left. apply in_or_app. left. auto. }
      exists a, ((rest ++ flat_map (fun r => ids (snd r)) l) ++ [mk]). simpl. rewrite E, Ea. split; auto.
Qed.

(* ---------------------------------------------------------------------------- build *)

Fixpoint build_list (l : list view) (nx : N) : list st * N :=
  match l with
  | [] => ([], nx)
  | x :: r => let '(s, n1) := build x nx in let '(ss, n2) := build_list r n1 in (s :: ss, n2)
  end.

Lemma build_list_fix : forall l nx,
  (fix go (l : list view) (nx : N) {struct l} : list st * N :=
     match l with
     | [] => ([], nx)
     | x :: r => let '(s, n1) := build x nx in let '(ss, n2) := go r n1 in (s :: ss, n2)
     end) l nx = build_list l nx.
Proof. intros. reflexivity. Qed.

Lemma build_tuple : forall a l nx, build (VTuple a l) nx = let '(ss, n1) := build_list l nx in (STuple a ss, n1).
Proof. intros. cbn [build]. rewrite build_list_fix. reflexivity. Qed.
Lemma build_vec : forall l nx, build (VVec l) nx = let '(ss, n1) := build_list l (nx + 1)%N in (SVec ss nx, n1).
Proof. intros. cbn [build]. rewrite build_list_fix. reflexivity. Qed.

Definition build_spec (v : view) : Prop :=
  okv v -> forall n s n', build v n = (s, n') ->
  good n' s /\ cs s = cv v /\ (n <= n')%N /\ (forall x, In x (ids s) -> (n <= x)%N) /\ NoDup (ids s).

Lemma NoDup_app_ranges : forall (a b : list N) m,
  NoDup a -> NoDup b -> (forall x, In x a -> (x < m)%N) -> (forall x, In x b -> (m <= x)%N) -> NoDup (a ++ b).
Proof.
  induction a as [|x a IH]; intros b m Ha Hb H1 H2; auto. simpl. inversion Ha; subst. constructor.
  - intro Hc. apply in_app_or in Hc. destruct Hc as [Hc|Hc]; [contradiction|].
    specialize (H1 x (or_introl eq_refl)). specialize (H2 x Hc). lia.
  - eapply IH; eauto. intros; apply H1; right; auto.
Qed.

Lemma NoDup_snoc : forall (a : list N) x, NoDup a -> ~ In x a -> NoDup (a ++ [x]).
Proof.
  induction a as [|y a IH]; intros x Ha Hx; simpl.
  - constructor; [intros []|constructor].
  - inversion Ha; subst. constructor.
    + intro Hc. apply in_app_or in Hc. destruct Hc as [Hc|[Hc|[]]]; [contradiction|]. subst. apply Hx. left. auto.
    + apply IH; auto. intro; apply Hx; right; auto.
Qed.

Lemma all_good_ids_lt : forall l n, all_good n l -> forall x, In x (flat_map ids l) -> (x < n)%N.
Proof.
  induction l as [|s l IH]; simpl; intros n H x Hx; [contradiction|]. destruct H as [A B].
  apply in_app_or in Hx. destruct Hx; eauto using good_ids_lt.
Qed.

Lemma build_list_ok : forall l, Forall build_spec l -> all_okv l ->
  forall n ss n', build_list l n = (ss, n') ->
  all_good n' ss /\ flat_map cs ss = flat_map cv l /\ (n <= n')%N /\
  (forall x, In x (flat_map ids ss) -> (n <= x)%N) /\ NoDup (flat_map ids ss) /\ length ss = length l.
Proof.
  induction l as [|v l IH]; intros HF Hok n ss n' E.
  - simpl in E. inversion E. subst. simpl. repeat split; auto; try lia; try (intros x []); try constructor.
  - inversion HF as [|? ? Hv HF']; subst. destruct Hok as [Hokv Hokl]. cbn [build_list] in E.
    destruct (build v n) as [s n1] eqn:Eb. destruct (build_list l n1) as [ss1 n2] eqn:El.
    inversion E. subst ss n'. clear E.
    destruct (Hv Hokv n s n1 Eb) as [G [C [Le [Lo Nd]]]].
    destruct (IH HF' Hokl n1 ss1 n2 El) as [G' [C' [Le' [Lo' [Nd' Len]]]]].
    cbn [all_good flat_map length]. repeat split; auto.
    + eapply good_mono; eauto.
    + rewrite C, C'. reflexivity.
    + lia.
    + intros x Hx. apply in_app_or in Hx. destruct Hx as [Hx|Hx]; [auto|]. specialize (Lo' x Hx). lia.
    + eapply NoDup_app_ranges; eauto. intros; eapply good_ids_lt; eauto.
Qed.

Fixpoint build_rows (l : list (N * view)) (g : nat) (nx : N) : list (N * nat * st) * N :=
  match l with
  | [] => ([], nx)
  | (k, x) :: r => let '(s, n1) := build x nx in
                   let '(rest, n2) := build_rows r (S g) n1 in ((k, g, s) :: rest, n2)
  end.

Lemma build_keyed : forall items nx,
  build (VKeyed items) nx
  = let '(rows, nx1) := build_rows items 0 nx in (SKeyed rows nx1 (length items), (nx1 + 1)%N).
Proof. intros. reflexivity. Qed.

Lemma build_rows_list : forall l g n rows n', build_rows l g n = (rows, n') ->
  build_list (map snd l) n = (map snd rows, n') /\ map (fun r => fst (fst r)) rows = map fst l.
Proof.
  induction l as [|[k x] l IH]; intros g n rows n' E.
  - simpl in E. inversion E. auto.
  - cbn [build_rows] in E. cbn [map snd build_list].
    destruct (build x n) as [s n1]. destruct (build_rows l (S g) n1) as [rest n2] eqn:Er.
    inversion E. subst. destruct (IH _ _ _ _ Er) as [I1 I2]. rewrite I1. cbn [map snd fst]. rewrite I2. auto.
Qed.

Lemma flat_map_map : forall {A B C} (f : B -> list C) (g : A -> B) l,
  flat_map f (map g l) = flat_map (fun x => f (g x)) l.
Proof. induction l; simpl; congruence. Qed.

Lemma build_ok : forall v, build_spec v.
Proof.
  apply view_ind'; unfold build_spec.
  - intros k t _ n s n' E. simpl in E. inversion E. subst. simpl. repeat split; auto; try lia; try (intros x [<-|[]]; lia);
      try (constructor; [intros []|constructor]).
  - intros _ n s n' E. simpl in E. inversion E. subst. simpl. repeat split; auto; try lia; try (intros x [<-|[]]; lia);
      try (constructor; [intros []|constructor]).
  - intros tag a c IH Hc n s n' E. cbn [build okv] in E, Hc.
    destruct (build c (n + 1)%N) as [cs0 n1] eqn:Eb.
    destruct (IH Hc _ _ _ Eb) as [G [C [Le [Lo Nd]]]].
    unfold mount_st in E. rewrite (mark_mounted_good _ _ G) in E.
    rewrite mount_ids_end in E by (auto; intros x _ []). cbn [app] in E. inversion E. subst. clear E.
    cbn [good cs cv ids]. rewrite C.
    repeat split; auto; try lia; try (intros x [<-|[]]; lia); try (constructor; [intros []|constructor]).
  - intros a l HF Hok n s n' E. apply (proj1 (okv_tuple _ _)) in Hok. destruct Hok as [Hne Hok].
    rewrite build_tuple in E. destruct (build_list l n) as [ss n1] eqn:El. inversion E. subst. clear E.
    destruct (build_list_ok l HF Hok n ss n' El) as [G [C [Le [Lo [Nd Len]]]]].
    rewrite good_tuple. cbn [cs cv ids]. repeat split; auto.
    destruct ss; [destruct l; [congruence|discriminate]|discriminate].
  - intros ar r c IH Hc n s n' E. cbn [build] in E. destruct (build c n) as [cs0 n1] eqn:Eb.
    inversion E. subst. clear E. destruct (IH Hc _ _ _ Eb) as [G [C [Le [Lo Nd]]]].
    cbn [good cs cv ids]. repeat split; auto.
  - intros c IH Hc n s n' E. cbn [build] in E. destruct (build c n) as [cs0 n1] eqn:Eb.
    inversion E. subst. clear E. destruct (IH Hc _ _ _ Eb) as [G [C [Le [Lo Nd]]]].
    cbn [good cs cv ids]. repeat split; auto.
  - intros _ n s n' E. simpl in E. inversion E. subst. simpl. repeat split; auto; try lia; try (intros x [<-|[]]; lia);
      try (constructor; [intros []|constructor]).
  - intros l HF Hok n s n' E. apply okv_vec in Hok.
    rewrite build_vec in E. destruct (build_list l (n + 1)%N) as [ss n1] eqn:El. inversion E. subst. clear E.
    destruct (build_list_ok l HF Hok _ ss n' El) as [G [C [Le [Lo [Nd Len]]]]].
    rewrite good_vec. cbn [cs cv ids]. repeat split; auto; try lia.
    + rewrite C. reflexivity.
    + intros x Hx. apply in_app_or in Hx. destruct Hx as [Hx|[<-|[]]]; [|lia]. specialize (Lo x Hx). lia.
    + apply NoDup_snoc; auto. intro Hc. specialize (Lo n Hc). lia.
  - intros l _ [].
  - intros items HF Hok n s n' E. apply (proj1 (okv_keyed _)) in Hok. destruct Hok as [Hnk Hok].
    rewrite build_keyed in E. destruct (build_rows items 0 n) as [rows n1] eqn:Er. inversion E. subst. clear E.
    destruct (build_rows_list _ _ _ _ _ Er) as [El Ek].
    assert (Forall build_spec (map snd items)) as HF'.
    { rewrite Forall_forall in *. intros v Hv. apply in_map_iff in Hv. destruct Hv as [kv [Ev Hkv]].
      subst v. unfold build_spec. exact (HF kv Hkv). }
    destruct (build_list_ok _ HF' Hok _ _ _ El) as [G [C [Le [Lo [Nd Len]]]]].
    rewrite !flat_map_map in *. rewrite good_keyed. cbn [cs cv ids]. rewrite Ek.
    repeat split; auto; try lia.
    + eapply all_good_mono; [|exact G]. lia.
    + rewrite C. reflexivity.
    + intros x Hx. apply in_app_or in Hx. destruct Hx as [Hx|[<-|[]]]; [auto|lia].
    + apply NoDup_snoc; auto. intro Hc.
      assert (n1 < n1)%N; [|lia]. eapply all_good_ids_lt; [exact G|]. rewrite flat_map_map. exact Hc.
Qed.

(* --------------------------------------------------------------------- attributes *)

Lemma str_eqb_eq : forall a b, str_eqb a b = true -> a = b.
Proof.
  induction a as [|x a IH]; destruct b as [|y b]; simpl; intros H; try discriminate; auto.
  apply andb_true_iff in H. destruct H as [H1 H2]. apply N.eqb_eq in H1. f_equal; auto.
Qed.

Lemma filter_no_tok : forall t l, has_tok t l = false -> filter (fun x => negb (str_eqb t x)) l = l.
Proof.
  induction l as [|x l IH]; simpl; intros H; auto. apply orb_false_iff in H. destruct H as [H1 H2].
  rewrite H1. simpl. rewrite IH; auto.
Qed.

Lemma rebuild_attrs_ok : forall a prev, attrs_ok prev a = true ->
  rebuild_attrs a prev (build_attrs prev) = build_attrs a.
Proof.
  intros a prev H. unfold attrs_ok in H. apply negb_true_iff in H.
  unfold rebuild_attrs, build_attrs. cbn [da_id da_hidden da_class da_color]. f_equal.
  - destruct (va_id a) as [v|]; destruct (va_id prev) as [p|]; auto.
    destruct (str_eqb v p) eqn:E; auto. apply str_eqb_eq in E. subst. reflexivity.
  - destruct (va_hidden a), (va_hidden prev); reflexivity.
  - destruct (va_on a), (va_on prev); cbn [Bool.eqb andb xorb] in *; auto.
    + (* on before and after: fine only if the class string itself contains the token *)
      unfold add_class. destruct (has_tok tok_on (tokens (va_class a))); [reflexivity|discriminate].
    + (* switched off: the token must not be part of the class string *)
      unfold remove_class. destruct (has_tok tok_on (tokens (va_class a))) eqn:E; [discriminate|].
      rewrite filter_no_tok; auto.
  - destruct (str_eqb (va_color a) (va_color prev)) eqn:E; auto. apply str_eqb_eq in E. rewrite E. reflexivity.
Qed.

(** [compat v s]: wherever rebuilding the state [s] with [v] rebuilds an element in place,
    the new attributes are [attrs_ok] against the ones it was rendered with.  The
    complement, together with [~ okv], is KnownClass_C03. *)
Fixpoint compat (v : view) (s : st) {struct v} : Prop :=
  if negb (tcode_eqb (tc_view v) (tc_st s)) then True else
  match v, s with
  | VEl _ a c, SEl _ _ prev _ _ cs0 => attrs_ok prev a = true /\ compat c cs0
  | VTuple _ l, STuple _ ss =>
      (fix go l ss := match l, ss with x :: r, s :: sr => compat x s /\ go r sr | _, _ => True end) l ss
  | VEither _ r c, SEither _ r0 cs0 => if Nat.eqb r r0 then compat c cs0 else True
  | VOpt (Some c), SOptSome cs0 => compat c cs0
  | VVec l, SVec ss _ =>
      (fix go l ss := match l, ss with x :: r, s :: sr => compat x s /\ go r sr | _, _ => True end) l ss
  | VKeyed items, SKeyed rows _ _ =>
      (* a retained row is not rebuilt: it must already show what its (new) item view shows *)
      forall kv r, In kv items -> In r rows -> fst kv = fst (fst r) -> cs (snd r) = cv (snd kv)
  | _, _ => True
  end.

Fixpoint compat_list (l : list view) (ss : list st) : Prop :=
  match l, ss with x :: r, s :: sr => compat x s /\ compat_list r sr | _, _ => True end.

(* ------------------------------------------------------------ replacing a state *)

(** what a rebuild step must establish *)
Definition post_ok (pre post : list N) (v : view) (w : rw) (s' : st) (w' : rw) : Prop :=
  r_panic w' = false /\ r_dom w' = pre ++ ids s' ++ post /\ good (r_next w') s' /\ cs s' = cv v /\
  (r_next w <= r_next w')%N /\ NoDup (pre ++ ids s' ++ post).

Lemma NoDup_replace_block : forall (pre blk post new : list N) m,
  NoDup (pre ++ blk ++ post) -> NoDup new ->
  (forall x, In x (pre ++ post) -> (x < m)%N) -> (forall x, In x new -> (m <= x)%N) ->
  NoDup (pre ++ new ++ post).
Proof.
  intros pre blk post new m Hnd Hn Hlt Hge.
  assert (NoDup (pre ++ post)) as Hpp.
  { clear -Hnd. induction pre as [|p pre IH]; simpl in *.
    - induction blk; simpl in *; auto. inversion Hnd; auto.
    - inversion Hnd; subst. constructor; auto. intro Hc. apply H1. apply in_app_or in Hc.
      apply in_or_app. destruct Hc; auto. right. apply in_or_app. auto. }
  eapply Permutation_NoDup with (l := (pre ++ post) ++ new).
  - rewrite <- app_assoc. apply Permutation_app_head. apply Permutation_app_comm.
  - apply NoDup_app_ranges with (m := m); auto.
Qed.

Lemma replace_with_ok : forall v old pre post w,
  okv v -> good (r_next w) old -> r_panic w = false ->
  r_dom w = pre ++ ids old ++ post -> NoDup (pre ++ ids old ++ post) ->
  (forall x, In x (pre ++ post) -> (x < r_next w)%N) ->
  forall s' w', replace_with v old w = (s', w') -> post_ok pre post v w s' w'.
Proof.
  intros v old pre post w Hok Hg Hp Hd Hnd Hb s' w' E. unfold replace_with in E.
  destruct (build v (r_next w)) as [ns nx] eqn:Eb.
  destruct (build_ok v Hok _ _ _ Eb) as [G [C [Le [Lo Nd]]]].
  destruct (anchor_first old (r_next w) (r_dom w) Hg) as [a [rest [Ei Ea]]].
  { intros x Hx. rewrite Hd. apply in_or_app. right. apply in_or_app. left. auto. }
  unfold insert_before_this in E. rewrite Ea in E. unfold mount_st in E.
  rewrite (mark_mounted_good _ _ G) in E.
  assert (mount_ids (ids ns) (Some a) (r_dom w) = pre ++ ids ns ++ ids old ++ post) as Em.
  { rewrite Hd, Ei. cbn [app]. rewrite mount_ids_before; auto.
    - rewrite Ei in Hnd. apply NoDup_remove_2 in Hnd. intro Hc. apply Hnd. apply in_or_app. left. auto.
    - intros x Hx Hc. specialize (Lo x Hx).
      assert (x < r_next w)%N; [|lia].
      apply in_app_or in Hc. destruct Hc as [Hc|[Hc|Hc]].
      + apply Hb. apply in_or_app. auto.
      + subst x. eapply good_ids_lt; eauto. rewrite Ei. left. auto.
      + apply in_app_or in Hc. destruct Hc as [Hc|Hc].
        * eapply good_ids_lt; eauto. rewrite Ei. right. auto.
        * apply Hb. apply in_or_app. auto. }
  rewrite Em in E. inversion E. subst s' w'. clear E.
  assert (NoDup (pre ++ ids ns ++ post)) as Hnd'.
  { eapply NoDup_replace_block; eauto. }
  unfold post_ok. cbn [r_panic r_dom r_next]. repeat split; auto.
  replace (pre ++ ids ns ++ ids old ++ post) with ((pre ++ ids ns) ++ ids old ++ post)
    by (rewrite <- app_assoc; reflexivity).
  rewrite unmount_block.
  - rewrite <- app_assoc. reflexivity.
  - rewrite <- app_assoc. apply (NoDup_replace_block pre [] (ids old ++ post) (ids ns) (r_next w)); auto.
    intros x Hx. rewrite !in_app_iff in Hx. destruct Hx as [Hx|[Hx|Hx]].
    + apply Hb. apply in_or_app. auto.
    + eapply good_ids_lt; eauto.
    + apply Hb. apply in_or_app. auto.
Qed.

(* -------------------------------------------------------------------- rebuild, lists *)

Definition rb_spec (v : view) : Prop :=
  okv v -> forall s pre post w, compat v s ->
  good (r_next w) s -> r_panic w = false -> r_dom w = pre ++ ids s ++ post ->
  NoDup (pre ++ ids s ++ post) -> (forall x, In x (pre ++ post) -> (x < r_next w)%N) ->
  forall s' w', rebuild_any v s w = (s', w') -> post_ok pre post v w s' w'.

(** the member-wise rebuild of a tuple *)
Fixpoint rebuild_list (l : list view) (ss : list st) (w : rw) : list st * rw :=
  match l, ss with
  | x :: r, s :: sr => let '(s', w1) := rebuild_any x s w in
                       let '(rest, w2) := rebuild_list r sr w1 in (s' :: rest, w2)
  | _, _ => ([], w)
  end.

Definition posts_ok (pre post : list N) (l : list view) (w : rw) (ss' : list st) (w' : rw) : Prop :=
  r_panic w' = false /\ r_dom w' = pre ++ flat_map ids ss' ++ post /\ all_good (r_next w') ss' /\
  flat_map cs ss' = flat_map cv l /\ (r_next w <= r_next w')%N /\
  NoDup (pre ++ flat_map ids ss' ++ post).

Lemma bound_step : forall (pre post : list N) n m s',
  (forall x, In x (pre ++ post) -> (x < n)%N) -> (n <= m)%N -> good m s' ->
  forall x, In x ((pre ++ ids s') ++ post) -> (x < m)%N.
Proof.
  intros pre post n m s' Hb Hle Hg x Hx. rewrite !in_app_iff in Hx. destruct Hx as [[Hx|Hx]|Hx].
  - assert (x < n)%N by (apply Hb; apply in_or_app; auto). lia.
  - eapply good_ids_lt; eauto.
  - assert (x < n)%N by (apply Hb; apply in_or_app; auto). lia.
Qed.

Lemma rebuild_list_ok : forall l, Forall rb_spec l -> all_okv l ->
  forall ss pre post w, compat_list l ss ->
  length ss = length l -> all_good (r_next w) ss -> r_panic w = false ->
  r_dom w = pre ++ flat_map ids ss ++ post -> NoDup (pre ++ flat_map ids ss ++ post) ->
  (forall x, In x (pre ++ post) -> (x < r_next w)%N) ->
  forall ss' w', rebuild_list l ss w = (ss', w') ->
  posts_ok pre post l w ss' w' /\ length ss' = length l.
Proof.
  induction l as [|v l IH]; intros HF Hok ss pre post w Hcp Hlen Hg Hp Hd Hnd Hb ss' w' E.
  - destruct ss; [|discriminate]. simpl in E. inversion E. subst. unfold posts_ok. simpl in *.
    repeat split; auto. lia.
  - destruct ss as [|s sr]; [discriminate|]. inversion HF as [|? ? Hv HF']; subst.
    destruct Hok as [Hokv Hokl]. destruct Hg as [Hgs Hgr]. destruct Hcp as [Hcs Hcr]. cbn [rebuild_list] in E.
    destruct (rebuild_any v s w) as [s1 w1] eqn:E1. destruct (rebuild_list l sr w1) as [rest w2] eqn:E2.
    inversion E. subst ss' w'. clear E. cbn [flat_map] in Hd, Hnd.
    rewrite <- app_assoc in Hd, Hnd.
    destruct (Hv Hokv s pre (flat_map ids sr ++ post) w Hcs Hgs Hp Hd Hnd) with (s' := s1) (w' := w1)
      as [P1 [D1 [G1 [C1 [L1 N1]]]]]; auto.
    { intros x Hx. rewrite !in_app_iff in Hx. destruct Hx as [Hx|[Hx|Hx]].
      - apply Hb. apply in_or_app. auto.
      - eapply all_good_ids_lt; eauto.
      - apply Hb. apply in_or_app. auto. }
    destruct (IH HF' Hokl sr (pre ++ ids s1) post w1) with (ss' := rest) (w' := w2) as [[P2 [D2 [G2 [C2 [L2 N2]]]]] Len2]; auto.
    + eapply all_good_mono; eauto.
    + rewrite D1, <- app_assoc. reflexivity.
    + rewrite <- app_assoc. exact N1.
    + eapply bound_step; eauto.
    + unfold posts_ok. cbn [flat_map all_good length]. rewrite <- !app_assoc in *.
      repeat split; auto.
      * eapply good_mono; eauto.
      * rewrite C1, C2. reflexivity.
      * lia.
Qed.

(* ------------------------------------------------------------------------------- Vec *)

Lemma NoDup_drop_mid : forall (a b c : list N), NoDup (a ++ b ++ c) -> NoDup (a ++ c).
Proof.
  induction a as [|x a IHa]; simpl; intros b c Hn.
  - induction b; simpl in *; auto. inversion Hn; auto.
  - inversion Hn; subst. constructor; eauto. intro Hc. apply H1. apply in_app_or in Hc.
    apply in_or_app. destruct Hc; auto. right. apply in_or_app. auto.
Qed.

Lemma unmount_all_block : forall ss pre post,
  NoDup (pre ++ flat_map ids ss ++ post) ->
  fold_left (fun d s => unmount_st s d) ss (pre ++ flat_map ids ss ++ post) = pre ++ post.
Proof.
  induction ss as [|s ss IH]; intros pre post Hnd; [reflexivity|].
  cbn [fold_left flat_map] in *. rewrite <- app_assoc in *. rewrite unmount_block; auto.
  apply IH. clear -Hnd.
  assert (forall (a b c : list N), NoDup (a ++ b ++ c) -> NoDup (a ++ c)) as H.
  { induction a as [|x a IHa]; simpl; intros b c Hn.
    - induction b; simpl in *; auto. inversion Hn; auto.
    - inversion Hn; subst. constructor; eauto. intro Hc. apply H1. apply in_app_or in Hc.
      apply in_or_app. destruct Hc; auto. right. apply in_or_app. auto. }
  eapply H; eauto.
Qed.

Fixpoint vec_drop (sr : list st) (w : rw) : list st * list st * rw :=
  match sr with
  | [] => ([], [], w)
  | s :: sr => vec_drop sr (with_dom w (unmount_st s (r_dom w)))
  end.

Lemma vec_drop_ok : forall ss pre post w,
  r_dom w = pre ++ flat_map ids ss ++ post -> NoDup (pre ++ flat_map ids ss ++ post) ->
  exists w', vec_drop ss w = ([], [], w') /\ r_dom w' = pre ++ post /\ r_next w' = r_next w /\
             r_panic w' = r_panic w.
Proof.
  induction ss as [|s ss IH]; intros pre post w Hd Hnd.
  - exists w. simpl in *. auto.
  - cbn [vec_drop flat_map] in *. rewrite <- app_assoc in *.
    destruct (IH pre post (with_dom w (unmount_st s (r_dom w)))) as [w' [E [D [Nx P]]]].
    + cbn [with_dom r_dom]. rewrite Hd. apply unmount_block. auto.
    + clear -Hnd. revert Hnd. generalize (flat_map ids ss ++ post) as c. generalize (ids s) as b.
      induction pre as [|x a IHa]; simpl; intros b c Hn.
      * induction b; simpl in *; auto. inversion Hn; auto.
      * inversion Hn; subst. constructor; eauto. intro Hc. apply H1. apply in_app_or in Hc.
        apply in_or_app. destruct Hc; auto. right. apply in_or_app. auto.
    + exists w'. auto.
Qed.

(** the unkeyed diff of [Vec::rebuild] (zip_longest) *)
Definition vec_zip (mk : N) : list view -> list st -> rw -> list st * list st * rw :=
  fix go (l : list view) (ss : list st) (w : rw) {struct l} :=
  match l, ss with
  | x :: r, s :: sr => let '(s', w1) := rebuild_any x s w in
                       let '(kept, adds, w2) := go r sr w1 in (s' :: kept, adds, w2)
  | x :: r, [] =>
      if r_panic w then ([], [], w) else
      let '(s, nx) := build x (r_next w) in
      let '(s', w1) := mount_before s mk {| r_dom := r_dom w; r_next := nx; r_panic := r_panic w |} in
      let '(kept, adds, w2) := go r [] w1 in (kept, s' :: adds, w2)
  | [], s :: sr => vec_drop (s :: sr) w
  | [], [] => ([], [], w)
  end.

Lemma vec_zip_cc : forall mk x r s sr w,
  vec_zip mk (x :: r) (s :: sr) w
  = let '(s', w1) := rebuild_any x s w in
    let '(kept, adds, w2) := vec_zip mk r sr w1 in (s' :: kept, adds, w2).
Proof. reflexivity. Qed.
Lemma vec_zip_cn : forall mk x r w,
  vec_zip mk (x :: r) [] w
  = if r_panic w then ([], [], w) else
    let '(s, nx) := build x (r_next w) in
    let '(s', w1) := mount_before s mk {| r_dom := r_dom w; r_next := nx; r_panic := r_panic w |} in
    let '(kept, adds, w2) := vec_zip mk r [] w1 in (kept, s' :: adds, w2).
Proof. reflexivity. Qed.
Lemma vec_zip_nc : forall mk s sr w, vec_zip mk [] (s :: sr) w = vec_drop (s :: sr) w.
Proof. reflexivity. Qed.
Lemma vec_zip_nn : forall mk w, vec_zip mk [] [] w = ([], [], w).
Proof. reflexivity. Qed.

Lemma mount_before_ok : forall v s nx pre post mk w,
  okv v -> build v (r_next w) = (s, nx) -> r_panic w = false ->
  r_dom w = pre ++ mk :: post -> NoDup (pre ++ mk :: post) ->
  (forall x, In x (pre ++ mk :: post) -> (x < r_next w)%N) ->
  exists w1, mount_before s mk {| r_dom := r_dom w; r_next := nx; r_panic := r_panic w |} = (s, w1) /\
    r_panic w1 = false /\ r_dom w1 = pre ++ ids s ++ mk :: post /\ r_next w1 = nx /\
    good nx s /\ cs s = cv v /\ (r_next w <= nx)%N /\ NoDup (pre ++ ids s ++ mk :: post).
Proof.
  intros v s nx pre post mk w Hok Eb Hp Hd Hnd Hb.
  destruct (build_ok v Hok _ _ _ Eb) as [G [C [Le [Lo Nd]]]].
  unfold mount_before. cbn [r_dom r_next r_panic].
  assert (memN mk (r_dom w) = true) as -> by (apply memN_In; rewrite Hd; apply in_or_app; right; left; auto).
  unfold mount_st. rewrite (mark_mounted_good _ _ G). rewrite Hd.
  rewrite mount_ids_before; auto.
  - eexists. split; [reflexivity|]. cbn [with_dom r_dom r_next r_panic]. repeat split; auto.
    apply (NoDup_replace_block pre [] (mk :: post) (ids s) (r_next w)); auto.
  - apply NoDup_remove_2 in Hnd. intro Hc. apply Hnd. apply in_or_app. auto.
  - intros x Hx Hc. specialize (Lo x Hx). specialize (Hb x Hc). lia.
Qed.

Lemma vec_zip_left : forall mk l, all_okv l -> forall pre post w,
  r_panic w = false -> r_dom w = pre ++ mk :: post -> NoDup (pre ++ mk :: post) ->
  (forall x, In x (pre ++ mk :: post) -> (x < r_next w)%N) ->
  forall kept adds w', vec_zip mk l [] w = (kept, adds, w') ->
  kept = [] /\ posts_ok pre (mk :: post) l w adds w'.
Proof.
  intros mk l. induction l as [|v l IH]; intros Hok pre post w Hp Hd Hnd Hb kept adds w' E.
  - rewrite vec_zip_nn in E. inversion E. subst. split; auto. unfold posts_ok. simpl. repeat split; auto. lia.
  - destruct Hok as [Hokv Hokl]. rewrite vec_zip_cn in E. rewrite Hp in E.
    destruct (build v (r_next w)) as [s nx] eqn:Eb.
    destruct (mount_before_ok v s nx pre post mk w Hokv Eb Hp Hd Hnd Hb)
      as [w1 [Em [P1 [D1 [N1 [G1 [C1 [L1 Nd1]]]]]]]].
    rewrite Hp in Em. rewrite Em in E.
    destruct (vec_zip mk l [] w1) as [[k1 a1] w2] eqn:E2. inversion E. subst kept adds w'. clear E.
    destruct (IH Hokl (pre ++ ids s) post w1 P1) with (kept := k1) (adds := a1) (w' := w2)
      as [Ek [P2 [D2 [G2 [C2 [L2 N2]]]]]]; auto.
    + rewrite D1, <- app_assoc. reflexivity.
    + rewrite <- app_assoc. exact Nd1.
    + rewrite N1. intros x Hx. rewrite <- app_assoc in Hx. rewrite !in_app_iff in Hx.
      destruct Hx as [Hx|[Hx|Hx]].
      * assert (x < r_next w)%N by (apply Hb; apply in_or_app; auto). lia.
      * eapply good_ids_lt; eauto.
      * assert (x < r_next w)%N by (apply Hb; apply in_or_app; auto). lia.
    + split; auto. unfold posts_ok. cbn [flat_map all_good]. rewrite <- !app_assoc in *.
      rewrite N1 in *. repeat split; auto.
      * eapply good_mono; eauto.
      * rewrite C1, C2. reflexivity.
      * lia.
Qed.

Lemma vec_zip_ok : forall mk l, Forall rb_spec l -> all_okv l ->
  forall ss pre post w, compat_list l ss -> all_good (r_next w) ss -> r_panic w = false ->
  r_dom w = pre ++ flat_map ids ss ++ mk :: post -> NoDup (pre ++ flat_map ids ss ++ mk :: post) ->
  (forall x, In x (pre ++ mk :: post) -> (x < r_next w)%N) ->
  forall kept adds w', vec_zip mk l ss w = (kept, adds, w') ->
  posts_ok pre (mk :: post) l w (kept ++ adds) w'.
Proof.
  intros mk l. induction l as [|v l IH]; intros HF Hok ss pre post w Hcp Hg Hp Hd Hnd Hb kept adds w' E.
  - destruct ss as [|s sr].
    + rewrite vec_zip_nn in E. inversion E. subst. unfold posts_ok. simpl in *. repeat split; auto. lia.
    + rewrite vec_zip_nc in E. destruct (vec_drop_ok (s :: sr) pre (mk :: post) w Hd Hnd) as [w1 [E1 [D1 [N1 P1]]]].
      rewrite E1 in E. inversion E. subst. unfold posts_ok. cbn [app flat_map all_good].
      rewrite N1, P1. repeat split; auto; try lia.
      eapply NoDup_drop_mid; eauto.
  - inversion HF as [|? ? Hv HF']; subst. destruct Hok as [Hokv Hokl].
    destruct ss as [|s sr].
    + simpl flat_map in Hd, Hnd. cbn [app] in Hd, Hnd.
      destruct (vec_zip_left mk (v :: l) (conj Hokv Hokl) pre post w Hp Hd Hnd Hb kept adds w' E) as [Ek Hpo].
      subst kept. exact Hpo.
    + destruct Hg as [Hgs Hgr]. destruct Hcp as [Hcs Hcr]. rewrite vec_zip_cc in E.
      destruct (rebuild_any v s w) as [s1 w1] eqn:E1. destruct (vec_zip mk l sr w1) as [[k1 a1] w2] eqn:E2.
      inversion E. subst kept adds w'. clear E. cbn [flat_map] in Hd, Hnd. rewrite <- app_assoc in Hd, Hnd.
      destruct (Hv Hokv s pre (flat_map ids sr ++ mk :: post) w Hcs Hgs Hp Hd Hnd) with (s' := s1) (w' := w1)
        as [P1 [D1 [G1 [C1 [L1 N1]]]]]; auto.
      { intros x Hx. rewrite !in_app_iff in Hx. destruct Hx as [Hx|[Hx|Hx]].
        - apply Hb. apply in_or_app. auto.
        - eapply all_good_ids_lt; eauto.
        - apply Hb. apply in_or_app. auto. }
      destruct (IH HF' Hokl sr (pre ++ ids s1) post w1) with (kept := k1) (adds := a1) (w' := w2)
        as [P2 [D2 [G2 [C2 [L2 N2]]]]]; auto.
      * eapply all_good_mono; eauto.
      * rewrite D1, <- app_assoc. reflexivity.
      * rewrite <- app_assoc. exact N1.
      * eapply bound_step; eauto.
      * unfold posts_ok. cbn [app flat_map all_good]. rewrite <- !app_assoc in *.
        repeat split; auto.
        -- eapply good_mono; eauto.
        -- rewrite C1, C2. reflexivity.
        -- lia.
Qed.

Definition mount_step (mk : N) (acc : list st * rw) (s : st) : list st * rw :=
  let '(done, w) := acc in
  if r_panic w then (done ++ [s], w) else
  let '(s', w1) := mount_before s mk w in (done ++ [s'], w1).

Lemma fold_mount_before : forall mk ns done pre post w,
  all_good (r_next w) ns -> r_panic w = false -> r_dom w = pre ++ mk :: post ->
  NoDup (pre ++ flat_map ids ns ++ mk :: post) ->
  exists w', fold_left (mount_step mk) ns (done, w) = (done ++ ns, w') /\
    r_panic w' = false /\ r_dom w' = pre ++ flat_map ids ns ++ mk :: post /\ r_next w' = r_next w.
Proof.
  intros mk ns. induction ns as [|s ns IH]; intros done pre post w Hg Hp Hd Hnd.
  - exists w. simpl. rewrite app_nil_r. auto.
  - destruct Hg as [Hgs Hgr]. cbn [fold_left flat_map] in *. rewrite <- app_assoc in Hnd.
    unfold mount_step at 2. rewrite Hp. unfold mount_before.
    assert (memN mk (r_dom w) = true) as -> by (apply memN_In; rewrite Hd; apply in_or_app; right; left; auto).
    unfold mount_st. rewrite (mark_mounted_good _ _ Hgs). rewrite Hd.
    rewrite mount_ids_before.
    + destruct (IH (done ++ [s]) (pre ++ ids s) post (with_dom w (pre ++ ids s ++ mk :: post))) as [w' [E [P [D Nx]]]]; auto.
      * cbn [with_dom r_dom]. rewrite <- app_assoc. reflexivity.
      * rewrite <- app_assoc. exact Hnd.
      * exists w'. rewrite E. rewrite <- !app_assoc in *. cbn [app] in *. auto.
    + clear -Hnd. apply NoDup_app_r in Hnd. apply NoDup_app_l in Hnd. exact Hnd.
    + intro Hc. eapply NoDup_app_disj; [exact Hnd | exact Hc |].
      apply in_or_app. right. apply in_or_app. right. left. auto.
    + intros x Hx Hc. apply in_app_or in Hc. destruct Hc as [Hc|Hc].
      * eapply NoDup_app_disj; [exact Hnd | exact Hc |]. apply in_or_app. left. auto.
      * apply NoDup_app_r in Hnd. eapply NoDup_app_disj; [exact Hnd | exact Hx |].
        apply in_or_app. right. auto.
Qed.

(* ---------------------------------------------------------------- the main theorem *)

Lemma tcode_eqb_refl : forall t, tcode_eqb t t = true.
Proof. destruct t; simpl; rewrite ?Nat.eqb_refl, ?eqb_reflx; auto. Qed.

Lemma rebuild_any_diff : forall v s w,
  tcode_eqb (tc_view v) (tc_st s) = false -> rebuild_any v s w = replace_with v s w.
Proof. intros v s w H. destruct v; cbn [rebuild_any]; rewrite H; reflexivity. Qed.

Lemma compat_same : forall v s, tcode_eqb (tc_view v) (tc_st s) = true ->
  compat v s =
  match v, s with
  | VEl _ a c, SEl _ _ prev _ _ cs0 => attrs_ok prev a = true /\ compat c cs0
  | VTuple _ l, STuple _ ss => compat_list l ss
  | VEither _ r c, SEither _ r0 cs0 => if Nat.eqb r r0 then compat c cs0 else True
  | VOpt (Some c), SOptSome cs0 => compat c cs0
  | VVec l, SVec ss _ => compat_list l ss
  | VKeyed items, SKeyed rows _ _ =>
      forall kv r, In kv items -> In r rows -> fst kv = fst (fst r) -> cs (snd r) = cv (snd kv)
  | _, _ => True
  end.
Proof.
  intros v s H. destruct v; cbn [compat]; rewrite H; cbn [negb]; try reflexivity.
Qed.

Lemma rebuild_tuple_eq : forall a a0 l ss w, length l = length ss -> a = a0 ->
  rebuild_any (VTuple a l) (STuple a0 ss) w = let '(ss', w') := rebuild_list l ss w in (STuple a ss', w').
Proof.
  intros a a0 l ss w H Ha. subst a0. cbn [rebuild_any tc_view tc_st tcode_eqb].
  rewrite H, Nat.eqb_refl, eqb_reflx. reflexivity.
Qed.

Lemma rebuild_vec_zip_eq : forall l ss mk w, ss <> [] -> l <> [] ->
  rebuild_any (VVec l) (SVec ss mk) w
  = let '(kept, adds, w') := vec_zip mk l ss w in (SVec (kept ++ adds) mk, w').
Proof.
  intros l ss mk w Hs Hl. cbn [rebuild_any tc_view tc_st tcode_eqb negb].
  destruct ss as [|s sr]; [congruence|]. destruct l as [|x r]; [congruence|]. reflexivity.
Qed.

Lemma rebuild_vec_fill_eq : forall l mk w,
  rebuild_any (VVec l) (SVec [] mk) w
  = let '(ns, nx) := build_list l (r_next w) in
    let '(ns', w') := fold_left (mount_step mk) ns
                        ([], {| r_dom := r_dom w; r_next := nx; r_panic := r_panic w |}) in
    (SVec ns' mk, w').
Proof. intros. cbn [rebuild_any tc_view tc_st tcode_eqb negb]. reflexivity. Qed.

(* ---------------------------------------------------------------------- keyed lists *)

Definition view_of (items : list (N * view)) (k : N) : view :=
  match find (fun kv => N.eqb (fst kv) k) items with Some kv => snd kv | None => VUnit end.
Definition view_bld (items : list (N * view)) : builder :=
  fun k nx => let '(c, nx') := build (view_of items k) nx in (ids c, nx').
Definition item_of (r : N * nat * st) : item :=
  {| it_key := fst (fst r); it_gen := snd (fst r); it_nodes := ids (snd r) |}.

(** the states of the rows after the update *)
Definition rows_of (items : list (N * view)) (rows : list (N * nat * st))
  : list item -> N -> list (N * nat * st) :=
  fix go (its : list item) (nx : N) :=
  match its with
  | [] => []
  | it :: r =>
      match find (fun r0 => N.eqb (fst (fst r0)) (it_key it)) rows with
      | Some r0 => (it_key it, it_gen it, snd r0) :: go r nx
      | None => let '(c, nx') := build (view_of items (it_key it)) nx in
                (it_key it, it_gen it, c) :: go r nx'
      end
  end.

Lemma rows_of_cons : forall items rows it r nx,
  rows_of items rows (it :: r) nx =
  match find (fun r0 => N.eqb (fst (fst r0)) (it_key it)) rows with
  | Some r0 => (it_key it, it_gen it, snd r0) :: rows_of items rows r nx
  | None => let '(c, nx') := build (view_of items (it_key it)) nx in
            (it_key it, it_gen it, c) :: rows_of items rows r nx'
  end.
Proof. reflexivity. Qed.

Lemma rebuild_keyed_eq : forall items rows mk g0 w,
  rebuild_any (VKeyed items) (SKeyed rows mk g0) w =
  let kst := {| ks_bld := view_bld items; ks_dom := r_dom w; ks_marker := mk;
                ks_keys := map (fun r => fst (fst r)) rows; ks_items := map item_of rows;
                ks_next := r_next w; ks_gen := g0 |} in
  let '(kst', _, p) := Keyed.rebuild kst (map fst items) in
  (SKeyed (rows_of items rows (ks_items kst') (r_next w)) mk (ks_gen kst'),
   {| r_dom := ks_dom kst'; r_next := ks_next kst'; r_panic := r_panic w || p |}).
Proof. intros. cbn [rebuild_any tc_view tc_st tcode_eqb negb]. reflexivity. Qed.

Lemma all_okv_in : forall l v, all_okv l -> In v l -> okv v.
Proof. induction l; simpl; intros v H Hv; [contradiction|]. destruct H. destruct Hv; subst; auto. Qed.

Lemma all_good_in' : forall n l x, all_good n l -> In x l -> good n x.
Proof. induction l; simpl; intros x H Hx; [contradiction|]. destruct H. destruct Hx; subst; auto. Qed.

Lemma view_of_okv : forall items k, all_okv (map snd items) -> okv (view_of items k).
Proof.
  intros items k H. unfold view_of. destruct (find _ items) as [kv|] eqn:E; [|exact I].
  apply find_some in E. destruct E as [E _]. eapply all_okv_in; eauto. apply in_map. auto.
Qed.

Lemma view_of_in : forall items kv, NoDup (map fst items) -> In kv items -> view_of items (fst kv) = snd kv.
Proof.
  induction items as [|x items IH]; intros kv Hnd Hin; [contradiction|].
  unfold view_of. cbn [find]. cbn [map] in Hnd. inversion Hnd; subst. destruct Hin as [E|Hin].
  - subst. rewrite N.eqb_refl. reflexivity.
  - destruct (N.eqb_spec (fst x) (fst kv)) as [E|E].
    + exfalso. apply H1. rewrite E. apply in_map. auto.
    + apply IH; auto.
Qed.

Lemma view_bld_ok : forall items, all_okv (map snd items) -> bld_ok (view_bld items).
Proof.
  intros items Hok k nx. unfold view_bld. destruct (build (view_of items k) nx) as [c nx'] eqn:E.
  destruct (build_ok _ (view_of_okv items k Hok) _ _ _ E) as [G [C [Le [Lo Nd]]]]. cbn [fst snd].
  split; [eapply good_ids_nonempty; eauto|]. split; [exact Nd|].
  intros n Hn. split; [auto|eapply good_ids_lt; eauto].
Qed.

Lemma flat_map_ext_in' : forall {A B} (f g : A -> list B) l,
  (forall x, In x l -> f x = g x) -> flat_map f l = flat_map g l.
Proof.
  induction l as [|x l IH]; intros H; [reflexivity|]. cbn [flat_map]. rewrite H by (left; auto).
  rewrite IH; auto. intros; apply H; right; auto.
Qed.

Lemma find_item_rows : forall rows k,
  find_item k (map item_of rows) = option_map item_of (find (fun r0 => N.eqb (fst (fst r0)) k) rows).
Proof.
  induction rows as [|r rows IH]; intros k; [reflexivity|].
  unfold find_item in *. cbn [map find item_of it_key]. destruct (N.eqb (fst (fst r)) k); [reflexivity|apply IH].
Qed.

Lemma rows_assemble : forall items rows,
  all_okv (map snd items) ->
  forall to nx g,
  all_good nx (map snd rows) ->
  (forall r, In r rows -> In (fst (fst r)) to -> cs (snd r) = cv (view_of items (fst (fst r)))) ->
  let newk := filter (fun k => negb (memN k (map it_key (map item_of rows)))) to in
  let its := assemble to (map item_of rows) (build_items (view_bld items) newk nx g) in
  let rows' := rows_of items rows its nx in
  map item_of rows' = its /\
  all_good (build_next (view_bld items) newk nx) (map snd rows') /\
  flat_map (fun r => cs (snd r)) rows' = flat_map (fun k => cv (view_of items k)) to /\
  (nx <= build_next (view_bld items) newk nx)%N.
Proof.
  intros items rows Hok. pose proof (view_bld_ok items Hok) as Hb.
  induction to as [|k to IH]; intros nx g Hg Hcs; cbv zeta.
  - simpl. repeat split; auto. lia.
  - cbn [assemble filter]. rewrite find_item_rows.
    destruct (find (fun r0 => N.eqb (fst (fst r0)) k) rows) as [r0|] eqn:Ef; cbn [option_map].
    + (* retained row *)
      pose proof (find_some _ _ Ef) as [Hin Hk]. apply N.eqb_eq in Hk.
      assert (memN k (map it_key (map item_of rows)) = true) as Hm.
      { apply memN_In. rewrite <- Hk. change (fst (fst r0)) with (it_key (item_of r0)).
        apply in_map. apply in_map. exact Hin. }
      rewrite Hm. cbn [negb]. rewrite rows_of_cons. cbn [item_of it_key it_gen]. rewrite Hk, Ef.
      destruct (IH nx g Hg) as [I1 [I2 [I3 I4]]].
      { intros r Hr Hrk. apply Hcs; auto. right. auto. }
      cbv zeta in *. cbn [map flat_map snd]. repeat split; auto.
      * f_equal; auto. unfold item_of. cbn [fst snd]. rewrite Hk. reflexivity.
      * eapply good_mono; [exact I4|]. eapply all_good_in'; [exact Hg|]. apply in_map. auto.
      * f_equal; auto. rewrite <- Hk. apply Hcs; auto. left. auto.
    + (* new row *)
      assert (memN k (map it_key (map item_of rows)) = false) as Hm.
      { apply memN_false. intro Hc. apply in_map_iff in Hc. destruct Hc as [it [Ek Hit]].
        apply in_map_iff in Hit. destruct Hit as [r [Er Hr]]. subst it.
        eapply find_none in Ef; eauto. cbn [item_of it_key] in Ek. cbn beta in Ef. rewrite Ek, N.eqb_refl in Ef.
        discriminate. }
      destruct (build (view_of items k) nx) as [c nx'] eqn:Eb.
      assert (view_bld items k nx = (ids c, nx')) as Evb by (unfold view_bld; rewrite Eb; reflexivity).
      rewrite Hm. cbn [negb build_items build_next]. rewrite rows_of_cons. cbn [it_key it_gen]. rewrite Ef, Eb, Evb.
      cbn [fst snd].
      destruct (build_ok _ (view_of_okv items k Hok) _ _ _ Eb) as [G [C [Le [Lo Nd]]]].
      destruct (IH nx' (S g)) as [I1 [I2 [I3 I4]]].
      { eapply all_good_mono; eauto. }
      { intros r Hr Hrk. apply Hcs; auto. right. auto. }
      cbv zeta in *. cbn [map flat_map snd]. repeat split; auto.
      * f_equal; auto.
      * eapply good_mono; eauto.
      * f_equal; auto.
      * lia.
Qed.

Theorem rebuild_any_ok : forall v, rb_spec v.
Proof.
  apply view_ind'; unfold rb_spec.
  - (* text *)
    intros k t _ s pre post w Hcp Hg Hp Hd Hnd Hb s' w' E.
    destruct (tcode_eqb (tc_view (VText k t)) (tc_st s)) eqn:Etc.
    2:{ rewrite rebuild_any_diff in E by auto. eapply replace_with_ok; eauto. exact I. }
    destruct s; try discriminate. cbn [rebuild_any] in E. rewrite Etc in E. cbn [negb] in E.
    inversion E. subst. unfold post_ok. cbn [ids cs cv good] in *. repeat split; auto. lia.
  - (* unit *)
    intros _ s pre post w Hcp Hg Hp Hd Hnd Hb s' w' E.
    destruct (tcode_eqb (tc_view VUnit) (tc_st s)) eqn:Etc.
    2:{ rewrite rebuild_any_diff in E by auto. eapply replace_with_ok; eauto. exact I. }
    destruct s; try discriminate. cbn [rebuild_any tc_view tc_st tcode_eqb negb] in E.
    inversion E. subst. unfold post_ok. cbn [ids cs cv good] in *. repeat split; auto. lia.
  - (* element *)
    intros tag a c IH Hok s pre post w Hcp Hg Hp Hd Hnd Hb s' w' E.
    destruct (tcode_eqb (tc_view (VEl tag a c)) (tc_st s)) eqn:Etc.
    2:{ rewrite rebuild_any_diff in E by auto. eapply replace_with_ok; eauto. }
    rewrite compat_same in Hcp by auto.
    destruct s as [| |id tag0 prev d kids c0| | | | | | |]; try discriminate.
    cbn [tc_view tc_st tcode_eqb] in Etc. apply Nat.eqb_eq in Etc. subst tag0.
    cbn [rebuild_any tc_view tc_st tcode_eqb] in E. rewrite Nat.eqb_refl in E. cbn [negb] in E.
    cbn [okv] in Hok. destruct Hcp as [Ha Hcc]. destruct Hg as [Hid [Hk [Hda [Hndc Hgc]]]].
    destruct (rebuild_any c c0 {| r_dom := kids; r_next := r_next w; r_panic := r_panic w |}) as [c1 wk] eqn:Ec.
    inversion E. subst s' w'. clear E.
    destruct (IH Hok c0 [] [] {| r_dom := kids; r_next := r_next w; r_panic := r_panic w |} Hcc) with (s' := c1) (w' := wk)
      as [P1 [D1 [G1 [C1 [L1 N1]]]]]; cbn [r_dom r_next r_panic app]; auto.
    { rewrite app_nil_r. auto. }
    { rewrite app_nil_r. auto. }
    { intros x []. }
    cbn [app r_next] in *. rewrite app_nil_r in D1, N1.
    unfold post_ok. cbn [ids cs cv good r_panic r_dom r_next]. rewrite Hda, rebuild_attrs_ok by auto.
    rewrite C1. repeat split; auto; try lia.
  - (* tuple / array *)
    intros a l HF Hok s pre post w Hcp Hg Hp Hd Hnd Hb s' w' E.
    destruct (tcode_eqb (tc_view (VTuple a l)) (tc_st s)) eqn:Etc.
    2:{ rewrite rebuild_any_diff in E by auto. eapply replace_with_ok; eauto. }
    rewrite compat_same in Hcp by auto.
    destruct s as [| | |a0 ss| | | | | |]; try discriminate.
    cbn [tc_view tc_st tcode_eqb] in Etc. apply andb_true_iff in Etc. destruct Etc as [Ea Etc].
    apply eqb_prop in Ea. apply Nat.eqb_eq in Etc.
    rewrite rebuild_tuple_eq in E by auto. destruct (rebuild_list l ss w) as [ss1 w1] eqn:El.
    inversion E. subst s' w'. clear E. apply (proj1 (okv_tuple _ _)) in Hok. destruct Hok as [Hne Hokl].
    apply (proj1 (good_tuple _ _ _)) in Hg. destruct Hg as [_ Hgl]. cbn [ids] in Hd, Hnd.
    destruct (rebuild_list_ok l HF Hokl ss pre post w Hcp) with (ss' := ss1) (w' := w1)
      as [[P1 [D1 [G1 [C1 [L1 N1]]]]] Len1]; auto.
    unfold post_ok. cbn [ids cs cv]. rewrite good_tuple. repeat split; auto.
    destruct ss1; [destruct l; [congruence|discriminate]|discriminate].
  - (* Either / EitherOf3 *)
    intros ar r c IH Hok s pre post w Hcp Hg Hp Hd Hnd Hb s' w' E.
    destruct (tcode_eqb (tc_view (VEither ar r c)) (tc_st s)) eqn:Etc.
    2:{ rewrite rebuild_any_diff in E by auto. eapply replace_with_ok; eauto. }
    rewrite compat_same in Hcp by auto.
    destruct s as [| | | |ar0 r0 c0| | | | |]; try discriminate.
    cbn [rebuild_any] in E. rewrite Etc in E. cbn [negb] in E. cbn [okv good ids] in *.
    destruct (Nat.eqb r r0).
    + destruct (rebuild_any c c0 w) as [c1 w1] eqn:Ec. inversion E. subst s' w'. clear E.
      destruct (IH Hok c0 pre post w Hcp) with (s' := c1) (w' := w1) as [P1 [D1 [G1 [C1 [L1 N1]]]]]; auto.
      unfold post_ok. cbn [ids cs cv good]. repeat split; auto.
    + destruct (replace_with c c0 w) as [c1 w1] eqn:Ec. inversion E. subst s' w'. clear E.
      destruct (replace_with_ok c c0 pre post w Hok Hg Hp Hd Hnd Hb c1 w1 Ec) as [P1 [D1 [G1 [C1 [L1 N1]]]]].
      unfold post_ok. cbn [ids cs cv good]. repeat split; auto.
  - (* Some *)
    intros c IH Hok s pre post w Hcp Hg Hp Hd Hnd Hb s' w' E.
    destruct (tcode_eqb (tc_view (VOpt (Some c))) (tc_st s)) eqn:Etc.
    2:{ rewrite rebuild_any_diff in E by auto. eapply replace_with_ok; eauto. }
    rewrite compat_same in Hcp by auto.
    destruct s as [| | | | |c0|ph| | |]; try discriminate;
      cbn [rebuild_any tc_view tc_st tcode_eqb negb] in E; cbn [okv good ids] in *.
    + destruct (rebuild_any c c0 w) as [c1 w1] eqn:Ec. inversion E. subst s' w'. clear E.
      destruct (IH Hok c0 pre post w Hcp) with (s' := c1) (w' := w1) as [P1 [D1 [G1 [C1 [L1 N1]]]]]; auto.
      unfold post_ok. cbn [ids cs cv good]. repeat split; auto.
    + destruct (replace_with c (SUnit ph) w) as [c1 w1] eqn:Ec. inversion E. subst s' w'. clear E.
      destruct (replace_with_ok c (SUnit ph) pre post w Hok Hg Hp Hd Hnd Hb c1 w1 Ec) as [P1 [D1 [G1 [C1 [L1 N1]]]]].
      unfold post_ok. cbn [ids cs cv good]. repeat split; auto.
  - (* None *)
    intros _ s pre post w Hcp Hg Hp Hd Hnd Hb s' w' E.
    destruct (tcode_eqb (tc_view (VOpt None)) (tc_st s)) eqn:Etc.
    2:{ rewrite rebuild_any_diff in E by auto. eapply replace_with_ok; eauto. exact I. }
    destruct s as [| | | | |c0|ph| | |]; try discriminate;
      cbn [rebuild_any tc_view tc_st tcode_eqb negb] in E; cbn [good ids] in *.
    + (* the old content is replaced by a placeholder *)
      destruct (anchor_first c0 (r_next w) (r_dom w) Hg) as [a [rest [Ei Ea]]].
      { intros x Hx. rewrite Hd. apply in_or_app. right. apply in_or_app. left. auto. }
      unfold insert_before_this in E. rewrite Ea in E. unfold mount_st in E. cbn [mark_mounted ids] in E.
      assert (mount_ids [r_next w] (Some a) (r_dom w) = pre ++ [r_next w] ++ ids c0 ++ post) as Em.
      { rewrite Hd, Ei. cbn [app]. rewrite mount_ids_before.
        - reflexivity.
        - constructor; [intros []|constructor].
        - rewrite Ei in Hnd. intro Hc. eapply NoDup_app_disj; [exact Hnd | exact Hc |]. left. auto.
        - intros x [<-|[]] Hc.
          assert (r_next w < r_next w)%N; [|lia].
          apply in_app_or in Hc. destruct Hc as [Hc|Hc].
          + apply Hb. apply in_or_app. auto.
          + change (a :: rest ++ post) with ((a :: rest) ++ post) in Hc. rewrite <- Ei in Hc.
            apply in_app_or in Hc. destruct Hc as [Hc|Hc].
            * eapply good_ids_lt; eauto.
            * apply Hb. apply in_or_app. auto. }
      rewrite Em in E. inversion E. subst s' w'. clear E.
      unfold post_ok. cbn [ids cs cv good r_panic r_dom r_next].
      assert (NoDup (pre ++ [r_next w] ++ post)) as Hnd'.
      { apply (NoDup_replace_block pre (ids c0) post [r_next w] (r_next w)); auto.
        - constructor; [intros []|constructor].
        - intros x [<-|[]]. lia. }
      repeat split; auto; try lia.
      change (pre ++ r_next w :: ids c0 ++ post) with (pre ++ [r_next w] ++ ids c0 ++ post).
      replace (pre ++ [r_next w] ++ ids c0 ++ post) with ((pre ++ [r_next w]) ++ ids c0 ++ post)
        by (rewrite <- app_assoc; reflexivity).
      rewrite unmount_block.
      * rewrite <- app_assoc. reflexivity.
      * rewrite <- app_assoc. apply (NoDup_replace_block pre [] (ids c0 ++ post) [r_next w] (r_next w)); auto.
        -- constructor; [intros []|constructor].
        -- intros x Hx. rewrite !in_app_iff in Hx. destruct Hx as [Hx|[Hx|Hx]].
           ++ apply Hb. apply in_or_app. auto.
           ++ eapply good_ids_lt; eauto.
           ++ apply Hb. apply in_or_app. auto.
        -- intros x [<-|[]]. lia.
    + inversion E. subst. unfold post_ok. cbn [ids cs cv good]. repeat split; auto. lia.
  - (* Vec *)
    intros l HF Hok s pre post w Hcp Hg Hp Hd Hnd Hb s' w' E.
    destruct (tcode_eqb (tc_view (VVec l)) (tc_st s)) eqn:Etc.
    2:{ rewrite rebuild_any_diff in E by auto. eapply replace_with_ok; eauto. }
    rewrite compat_same in Hcp by auto.
    destruct s as [| | | | | | |ss mk| |]; try discriminate.
    pose proof Hok as Hokv. apply (proj1 (okv_vec _)) in Hok. apply (proj1 (good_vec _ _ _)) in Hg. destruct Hg as [Hmk Hgl].
    cbn [ids] in Hd, Hnd. rewrite <- app_assoc in Hd, Hnd. cbn [app] in Hd, Hnd.
    assert (forall x, In x (pre ++ mk :: post) -> (x < r_next w)%N) as Hb'.
    { intros x Hx. apply in_app_or in Hx. destruct Hx as [Hx|[Hx|Hx]].
      - apply Hb. apply in_or_app. auto.
      - subst. auto.
      - apply Hb. apply in_or_app. auto. }
    destruct ss as [|s0 sr].
    + (* the list was empty: everything is built and mounted before the marker *)
      rewrite rebuild_vec_fill_eq in E. destruct (build_list l (r_next w)) as [ns nx] eqn:Eb.
      assert (Forall build_spec l) as HFb by (apply Forall_forall; intros; apply build_ok).
      destruct (build_list_ok l HFb Hok _ _ _ Eb) as [G [C [Le [Lo [Nd Len]]]]].
      cbn [flat_map app] in Hd, Hnd.
      destruct (fold_mount_before mk ns [] pre post {| r_dom := r_dom w; r_next := nx; r_panic := r_panic w |})
        as [w1 [Ef [P1 [D1 N1]]]]; cbn [r_dom r_next r_panic]; auto.
      { apply (NoDup_replace_block pre [] (mk :: post) (flat_map ids ns) (r_next w)); auto. }
      rewrite Ef in E. cbn [app] in E. inversion E. subst s' w'. clear E.
      unfold post_ok. cbn [ids cs cv]. rewrite good_vec. cbn [r_next] in N1. rewrite N1, <- !app_assoc. cbn [app].
      repeat split; auto; try lia.
      * rewrite C. reflexivity.
      * apply (NoDup_replace_block pre [] (mk :: post) (flat_map ids ns) (r_next w)); auto.
    + destruct l as [|x r].
      * (* the new list is empty: everything is unmounted *)
        cbn [rebuild_any tc_view tc_st tcode_eqb negb] in E. inversion E. subst s' w'. clear E.
        unfold post_ok. cbn [ids cs cv flat_map app with_dom r_panic r_dom r_next]. rewrite good_vec.
        assert (fold_left (fun d s => unmount_st s d) (s0 :: sr) (r_dom w) = pre ++ mk :: post) as Hu
          by (rewrite Hd; apply unmount_all_block; auto).
        cbn [fold_left] in Hu. rewrite Hu.
        repeat split; auto; try lia. eapply NoDup_drop_mid; eauto.
      * rewrite rebuild_vec_zip_eq in E by discriminate.
        destruct (vec_zip mk (x :: r) (s0 :: sr) w) as [[kept adds] w1] eqn:Ez.
        inversion E. subst s' w'. clear E.
        destruct (vec_zip_ok mk (x :: r) HF Hok (s0 :: sr) pre post w Hcp Hgl Hp Hd Hnd Hb' kept adds w1 Ez)
          as [P1 [D1 [G1 [C1 [L1 N1]]]]].
        unfold post_ok. cbn [ids cs cv]. rewrite good_vec. rewrite <- !app_assoc. cbn [app].
        repeat split; auto; try lia; try (rewrite C1; reflexivity).
  - intros l _ [].
  - (* keyed list: C11's theorem about the list, the item views as builder *)
    intros items _ Hok s pre post w Hcp Hg Hp Hd Hnd Hb s' w' E.
    destruct (tcode_eqb (tc_view (VKeyed items)) (tc_st s)) eqn:Etc.
    2:{ rewrite rebuild_any_diff in E by auto. eapply replace_with_ok; eauto. }
    rewrite compat_same in Hcp by auto.
    destruct s as [| | | | | | | | |rows mk g0]; try discriminate.
    apply (proj1 (okv_keyed _)) in Hok. destruct Hok as [Hnk Hokl].
    apply (proj1 (good_keyed _ _ _ _)) in Hg. destruct Hg as [Hmk [Hnr Hgl]].
    cbn [ids] in Hd, Hnd. rewrite <- app_assoc in Hd, Hnd. cbn [app] in Hd, Hnd.
    rewrite rebuild_keyed_eq in E. cbv zeta in E.
    set (kst := {| ks_bld := view_bld items; ks_dom := r_dom w; ks_marker := mk;
                   ks_keys := map (fun r => fst (fst r)) rows; ks_items := map item_of rows;
                   ks_next := r_next w; ks_gen := g0 |}) in E.
    assert (flat_map it_nodes (map item_of rows) = flat_map (fun r => ids (snd r)) rows) as Hfl
      by (rewrite flat_map_map; reflexivity).
    assert (map it_key (map item_of rows) = map (fun r => fst (fst r)) rows) as Hkeys
      by (rewrite map_map; reflexivity).
    assert (st_wf pre post kst) as Hwf.
    { unfold st_wf, kst. cbn [ks_bld ks_items ks_keys ks_dom ks_marker ks_next].
      split; [apply view_bld_ok; auto|]. split; [exact Hkeys|]. rewrite Hfl. split; [exact Hd|].
      constructor.
      - rewrite Hkeys. exact Hnr.
      - rewrite Hfl. exact Hnd.
      - intros it Hit. apply in_map_iff in Hit. destruct Hit as [r [<- Hr]]. cbn [item_of it_nodes].
        eapply good_ids_nonempty. eapply all_good_in'; [exact Hgl|]. apply in_map. exact Hr.
      - rewrite Hfl. intros n Hn. rewrite !in_app_iff in Hn. cbn [In] in Hn. destruct Hn as [Hn|[Hn|[Hn|Hn]]].
        + apply Hb. apply in_or_app. auto.
        + eapply all_good_ids_lt; [exact Hgl|]. rewrite flat_map_map. exact Hn.
        + subst. exact Hmk.
        + apply Hb. apply in_or_app. auto. }
    pose proof (keyed_rebuild_ok pre post kst (map fst items) Hwf Hnk) as Hok'.
    pose proof (rebuild_items pre post kst (map fst items) Hwf Hnk) as Hit.
    unfold keyed_ok in Hok'. destruct (Keyed.rebuild kst (map fst items)) as [[kst' log] p] eqn:Er.
    destruct Hok' as [Ep [Hdom' [Hkeys' [_ [_ [_ [_ [_ [_ [_ Hwf']]]]]]]]]].
    destruct Hit as [Hits [Hnext Hgen]].
    inversion E. subst s' w'. clear E.
    assert (forall r, In r rows -> In (fst (fst r)) (map fst items) ->
              cs (snd r) = cv (view_of items (fst (fst r)))) as Hcs.
    { intros r Hr Hk. apply in_map_iff in Hk. destruct Hk as [kv [Ek Hkv]].
      rewrite <- Ek. rewrite (view_of_in items kv Hnk Hkv). apply Hcp; auto. }
    pose proof (rows_assemble items rows Hokl (map fst items) (r_next w) g0 Hgl Hcs) as R. cbv zeta in R.
    unfold new_items, newkeys in Hits, Hnext. cbn [kst ks_bld ks_items ks_next ks_gen ks_marker] in Hits, Hnext, Hdom'.
    rewrite <- Hits in R. destruct R as [R1 [R2 [R3 R4]]]. rewrite <- Hnext in R2, R4.
    set (rows' := rows_of items rows (ks_items kst') (r_next w)) in *.
    assert (flat_map it_nodes (ks_items kst') = flat_map (fun r => ids (snd r)) rows') as Hfl'.
    { rewrite <- R1. rewrite flat_map_map. reflexivity. }
    unfold post_ok. cbn [r_panic r_dom r_next ids cs cv]. rewrite good_keyed.
    rewrite <- app_assoc. cbn [app]. rewrite <- Hfl'.
    split; [rewrite Hp, Ep; reflexivity|]. split; [exact Hdom'|].
    split; [|split; [|split; [exact R4|]]].
    + split; [lia|]. split; [|exact R2].
      replace (map (fun r => fst (fst r)) rows') with (map it_key (ks_items kst')).
      * rewrite Hkeys'. exact Hnk.
      * rewrite <- R1. rewrite map_map. reflexivity.
    + rewrite R3. rewrite flat_map_map. f_equal. apply flat_map_ext_in'. intros kv Hkv.
      rewrite (view_of_in items kv Hnk Hkv). reflexivity.
    + destruct Hwf' as [_ [_ [_ W]]]. cbn [ks_marker kst] in *.
      assert (ks_marker kst' = mk) as Em.
      { unfold Keyed.rebuild in Er. inversion Er. reflexivity. }
      rewrite Em in W. exact (wf_dom _ _ _ _ _ W).
Qed.
