(** What [diff] (keyed.rs) computes: characterisation of the removed / moved / added
    lists, and the key fact behind the repaired [move_in_dom] elision — the items that
    are left in place in the DOM appear in the same relative order in [from] and [to]. *)
From Coq Require Import List NArith ZArith Bool Arith Lia Sorted.
From LV Require Import Dom.Dom Dom.DomProofs Dom.Keyed Dom.KeyedLemmas.
Import ListNotations.

(** is the item at [from]-index [i] moved in the DOM by one of [ms] *)
Definition domb (ms : list mv) (i : nat) : bool :=
  existsb (fun m => (m_from m =? i) && m_dom m) ms.
(** target index of the item at [from]-index [i] *)
Definition tgt (from to : list N) (i : nat) : nat :=
  match nth_error from i with
  | Some f => match index_of f to with Some t => t | None => 0 end
  | None => 0
  end.
Definition retb (from to : list N) (i : nat) : bool :=
  match nth_error from i with Some f => memN f to | None => false end.
(** retained and not moved in the DOM: stays where it is *)
Definition statb (from to : list N) (ms : list mv) (i : nat) : bool :=
  retb from to i && negb (domb ms i).

Definition kept_le (kept : option nat) (x : nat) : Prop :=
  match kept with Some k => k <= x | None => True end.

Definition mv_ok (from to : list N) (lo hi : nat) (m : mv) : Prop :=
  m_len m = 1 /\ lo <= m_from m < hi /\
  exists f, nth_error from (m_from m) = Some f /\ index_of f to = Some (m_to m).

Record loop_spec (from to : list N) (n index : nat) (kept : option nat)
                 (r : list nat) (ms : list mv) (a : list addop) : Prop := {
  ls_rem : forall i, In i r <-> index <= i < index + n /\
                                exists f, nth_error from i = Some f /\ ~ In f to;
  ls_rem_sorted : StronglySorted lt r;
  ls_add_mode : Forall (fun x => a_mode x = Normal) a;
  ls_add_sorted : StronglySorted lt (map a_at a);
  ls_add : forall i, In i (map a_at a) <-> index <= i < index + n /\
                                exists t, nth_error to i = Some t /\ ~ In t from;
  ls_mv_ok : Forall (mv_ok from to index (index + n)) ms;
  ls_mv_sorted : StronglySorted lt (map m_from ms);
  ls_mv_all : forall i f t, index <= i < index + n -> nth_error from i = Some f ->
                            index_of f to = Some t -> t <> i -> In i (map m_from ms);
  ls_stat_kept : Forall (fun i => kept_le kept (tgt from to i))
                        (filter (statb from to ms) (seq index n));
  ls_stat_sorted : StronglySorted (fun i j => tgt from to i <= tgt from to j)
                                  (filter (statb from to ms) (seq index n)) }.

Lemma opt_eqb_true : forall a b, opt_eqb a b = true -> a = b.
Proof.
  destruct a, b; simpl; intros H; try discriminate; auto. apply N.eqb_eq in H. congruence.
Qed.

Lemma opt_eqb_false : forall a b, opt_eqb a b = false -> a <> b.
Proof.
  destruct a, b; simpl; intros H E; try discriminate. inversion E. subst.
  rewrite N.eqb_refl in H. discriminate.
Qed.

Lemma domb_cons_other : forall h ms i, m_from h <> i -> domb (h :: ms) i = domb ms i.
Proof.
  intros. unfold domb. simpl. destruct (Nat.eqb_spec (m_from h) i); [contradiction|]. reflexivity.
Qed.

Lemma domb_none_below : forall from to lo hi ms i,
  Forall (mv_ok from to lo hi) ms -> i < lo -> domb ms i = false.
Proof.
  intros from to lo hi ms i H Hi. unfold domb. apply not_true_is_false. intro E.
  apply existsb_exists in E. destruct E as [m [Hm E]]. rewrite Forall_forall in H.
  destruct (H m Hm) as [_ [Hr _]]. apply andb_true_iff in E. destruct E as [E _].
  apply Nat.eqb_eq in E. lia.
Qed.

Lemma statb_ext_above : forall from to h ms lo n,
  m_from h < lo ->
  filter (statb from to (h :: ms)) (seq lo n) = filter (statb from to ms) (seq lo n).
Proof.
  intros. apply filter_ext_in. intros i Hi. apply in_seq in Hi. unfold statb.
  rewrite domb_cons_other; auto. lia.
Qed.

Lemma mv_ok_weaken : forall from to lo hi lo' hi' ms,
  Forall (mv_ok from to lo hi) ms -> lo' <= lo -> hi <= hi' -> Forall (mv_ok from to lo' hi') ms.
Proof.
  intros from to lo hi lo' hi' ms HF Hlo Hhi. eapply Forall_impl; [|exact HF].
  intros m [M1 [M2 M3]]. split; [|split]; auto. lia.
Qed.

Lemma kept_le_trans : forall kept a b, kept_le kept a -> a <= b -> kept_le kept b.
Proof. destruct kept; simpl; intros; auto. lia. Qed.

Lemma below_kept_false : forall x kept, below_kept x kept = false -> kept_le kept x.
Proof.
  destruct kept; simpl; intros H; auto. apply Nat.ltb_ge in H. exact H.
Qed.

Lemma Forall_kept_weaken : forall from to kept k l,
  kept_le kept k ->
  Forall (fun i => kept_le (Some k) (tgt from to i)) l ->
  Forall (fun i => kept_le kept (tgt from to i)) l.
Proof.
  intros. eapply Forall_impl; [|eassumption]. simpl. intros i Hi.
  eapply kept_le_trans; eauto.
Qed.

Lemma it_move_some : forall from to index na nr kept h,
  it_move from to index na nr kept = Some h ->
  exists f t, nth_error from index = Some f /\ index_of f to = Some t /\
              m_from h = index /\ m_len h = 1 /\ m_to h = t /\
              (m_dom h = false -> below_kept t kept = false).
Proof.
  unfold it_move. intros from to index na nr kept h H.
  destruct (nth_error from index) as [f|]; [|discriminate].
  destruct (index_of f to) as [t|] eqn:Ei; [|discriminate].
  inversion H. subst. exists f, t. simpl. repeat split; auto.
  intros E. apply orb_false_iff in E. tauto.
Qed.

Lemma it_move_none : forall from to index na nr kept,
  it_move from to index na nr kept = None -> retb from to index = false.
Proof.
  unfold it_move, retb. intros from to index na nr kept H.
  destruct (nth_error from index) as [f|]; auto.
  destruct (index_of f to) eqn:E; [discriminate|].
  apply index_of_None in E. apply memN_false. exact E.
Qed.

Lemma retb_of_index : forall from to i f t,
  nth_error from i = Some f -> index_of f to = Some t -> retb from to i = true.
Proof.
  intros. unfold retb. rewrite H. apply memN_In. eapply nth_error_In. eapply index_of_nth. eauto.
Qed.

Lemma tgt_of_index : forall from to i f t,
  nth_error from i = Some f -> index_of f to = Some t -> tgt from to i = t.
Proof. intros. unfold tgt. rewrite H, H0. reflexivity. Qed.

Lemma diff_loop_spec : forall from to, NoDup to ->
  forall n index na nr kept r ms a,
  index + n <= Nat.max (length from) (length to) ->
  diff_loop from to n index na nr kept = (r, ms, a) ->
  loop_spec from to n index kept r ms a.
Proof.
  intros from to Hto. induction n as [|n IH]; intros index na nr kept r ms a Hmax H.
  - cbn [diff_loop] in H. inversion H. subst.
    constructor; simpl; try (intros i; split; [intros [] | intros [? _]; lia]);
      try (intros; lia); constructor.
  - cbn [diff_loop] in H.
    destruct (opt_eqb (nth_error from index) (nth_error to index)) eqn:Heq.
    + (* same item at this index *)
      apply opt_eqb_true in Heq.
      assert (exists f, nth_error from index = Some f /\ nth_error to index = Some f) as [f [Hf Ht]].
      { destruct (nth_error from index) as [f|] eqn:E.
        - exists f. split; auto.
        - exfalso. symmetry in Heq. apply nth_error_None in E, Heq. lia. }
      assert (index_of f to = Some index) as Hidx by (apply nth_index_of; auto).
      assert (In f to) as Hfto by (eapply nth_error_In; eauto).
      assert (In f from) as Hffrom by (eapply nth_error_In; eauto).
      destruct (below_kept index kept) eqn:Hbk.
      * destruct (diff_loop from to n (S index) na nr kept) as [[r' m'] a'] eqn:E.
        inversion H. subst r' a' ms. clear H.
        specialize (IH (S index) na nr kept r m' a ltac:(lia) E). destruct IH.
        constructor; auto.
        -- intros i. rewrite ls_rem0. split.
           ++ intros [Hr Hx]. split; [lia|auto].
           ++ intros [Hr [g [Hg Hn]]]. split; [|eauto].
              destruct (Nat.eq_dec i index); [|lia]. subst. rewrite Hf in Hg. inversion Hg. subst. contradiction.
        -- intros i. rewrite ls_add0. split.
           ++ intros [Hr Hx]. split; [lia|auto].
           ++ intros [Hr [g [Hg Hn]]]. split; [|eauto].
              destruct (Nat.eq_dec i index); [|lia]. subst. rewrite Ht in Hg. inversion Hg. subst. contradiction.
        -- constructor.
           ++ split; [reflexivity|]. split; [simpl; lia|]. exists f. simpl. auto.
           ++ eapply mv_ok_weaken; eauto; lia.
        -- simpl. constructor; auto. rewrite Forall_forall. intros x Hx.
           apply in_map_iff in Hx. destruct Hx as [m [Em Hm]]. subst.
           rewrite Forall_forall in ls_mv_ok0. destruct (ls_mv_ok0 m Hm) as [_ [Hr _]]. lia.
        -- intros i g t Hr Hg Hi Hne. simpl.
           destruct (Nat.eq_dec i index); [left; auto|right]. eapply ls_mv_all0; eauto. lia.
        -- cbn [seq filter]. unfold statb at 1. unfold domb at 1. cbn [existsb m_from m_dom].
           rewrite Nat.eqb_refl. cbn [andb orb negb]. rewrite andb_false_r.
           rewrite statb_ext_above by (simpl; lia). auto.
        -- cbn [seq filter]. unfold statb at 1. unfold domb at 1. cbn [existsb m_from m_dom].
           rewrite Nat.eqb_refl. cbn [andb orb negb]. rewrite andb_false_r.
           rewrite statb_ext_above by (simpl; lia). auto.
      * specialize (IH (S index) na nr (Some index) r ms a ltac:(lia) H). destruct IH.
        assert (statb from to ms index = true) as Hst.
        { unfold statb. rewrite (retb_of_index _ _ _ _ _ Hf Hidx).
          rewrite (domb_none_below _ _ _ _ _ _ ls_mv_ok0) by lia. reflexivity. }
        assert (tgt from to index = index) as Htg by (eapply tgt_of_index; eauto).
        constructor; auto.
        -- intros i. rewrite ls_rem0. split.
           ++ intros [Hr Hx]. split; [lia|auto].
           ++ intros [Hr [g [Hg Hn]]]. split; [|eauto].
              destruct (Nat.eq_dec i index); [|lia]. subst. rewrite Hf in Hg. inversion Hg. subst. contradiction.
        -- intros i. rewrite ls_add0. split.
           ++ intros [Hr Hx]. split; [lia|auto].
           ++ intros [Hr [g [Hg Hn]]]. split; [|eauto].
              destruct (Nat.eq_dec i index); [|lia]. subst. rewrite Ht in Hg. inversion Hg. subst. contradiction.
        -- eapply mv_ok_weaken; eauto; lia.
        -- intros i g t Hr Hg Hi Hne.
           destruct (Nat.eq_dec i index).
           ++ subst. rewrite Hf in Hg. inversion Hg. subst. rewrite Hidx in Hi. inversion Hi. congruence.
           ++ eapply ls_mv_all0; eauto. lia.
        -- cbn [seq filter]. rewrite Hst. constructor.
           ++ rewrite Htg. apply below_kept_false. exact Hbk.
           ++ eapply Forall_kept_weaken; [|exact ls_stat_kept0]. apply below_kept_false. exact Hbk.
        -- cbn [seq filter]. rewrite Hst. constructor; auto.
           rewrite Htg. eapply Forall_impl; [|exact ls_stat_kept0]. simpl. auto.
    + (* different items *)
      apply opt_eqb_false in Heq.
      remember (it_rem from to index) as rem eqn:Hrem.
      remember (it_add from to index) as add eqn:Hadd.
      remember (it_move from to index (if add then S na else na) (if rem then S nr else nr) kept)
        as mvop eqn:Hmv.
      destruct (diff_loop from to n (S index) (if add then S na else na) (if rem then S nr else nr)
                          (it_kept mvop kept)) as [[r' m'] a'] eqn:E.
      inversion H. clear H.
      specialize (IH (S index) _ _ _ r' m' a' ltac:(lia) E). destruct IH.
      assert (Forall (mv_ok from to index (index + S n)) m') as Hok' by (eapply mv_ok_weaken; eauto; lia).
      assert (Forall (fun x => index < x) (map m_from m')) as Hgt.
      { rewrite Forall_forall. intros x Hx. apply in_map_iff in Hx. destruct Hx as [m [Em Hm]]. subst.
        rewrite Forall_forall in ls_mv_ok0. destruct (ls_mv_ok0 m Hm) as [_ [Hr _]]. lia. }
      constructor.
      * (* removed *)
        intros i. destruct rem.
        -- simpl. rewrite ls_rem0. symmetry in Hrem. unfold it_rem in Hrem.
           destruct (nth_error from index) as [f|] eqn:Hf; [|discriminate].
           apply negb_true_iff, memN_false in Hrem. split.
           ++ intros [Hi|[Hr Hx]]; [subst; split; [lia|eauto] | split; [lia|auto]].
           ++ intros [Hr Hx]. destruct (Nat.eq_dec index i); [left; auto|right]. split; [lia|auto].
        -- rewrite ls_rem0. symmetry in Hrem. unfold it_rem in Hrem. split.
           ++ intros [Hr Hx]. split; [lia|auto].
           ++ intros [Hr [g [Hg Hn]]]. split; [|eauto].
              destruct (Nat.eq_dec i index); [|lia]. subst. rewrite Hg in Hrem.
              apply negb_false_iff, memN_In in Hrem. contradiction.
      * destruct rem; auto. constructor; auto. rewrite Forall_forall. intros x Hx.
        apply ls_rem0 in Hx. lia.
      * destruct add; auto.
      * destruct add; auto. simpl. constructor; auto. rewrite Forall_forall. intros x Hx.
        apply ls_add0 in Hx. lia.
      * (* added *)
        intros i. destruct add.
        -- simpl. rewrite ls_add0. symmetry in Hadd. unfold it_add in Hadd.
           destruct (nth_error to index) as [t|] eqn:Ht; [|discriminate].
           apply negb_true_iff, memN_false in Hadd. split.
           ++ intros [Hi|[Hr Hx]]; [subst; split; [lia|eauto] | split; [lia|auto]].
           ++ intros [Hr Hx]. destruct (Nat.eq_dec index i); [left; auto|right]. split; [lia|auto].
        -- rewrite ls_add0. symmetry in Hadd. unfold it_add in Hadd. split.
           ++ intros [Hr Hx]. split; [lia|auto].
           ++ intros [Hr [g [Hg Hn]]]. split; [|eauto].
              destruct (Nat.eq_dec i index); [|lia]. subst. rewrite Hg in Hadd.
              apply negb_false_iff, memN_In in Hadd. contradiction.
      * (* moves well-formed *)
        destruct mvop as [h|]; auto. constructor; auto.
        symmetry in Hmv. apply it_move_some in Hmv.
        destruct Hmv as [f [t [Hf [Hi [M1 [M2 [M3 _]]]]]]].
        split; auto. split; [lia|]. exists f. rewrite M1, M3. auto.
      * destruct mvop as [h|]; auto. simpl. constructor; auto.
        symmetry in Hmv. apply it_move_some in Hmv.
        destruct Hmv as [f [t [Hf [Hi [M1 _]]]]]. rewrite M1. exact Hgt.
      * intros i g t Hr Hg Hi Hne. destruct (Nat.eq_dec i index).
        -- subst i. destruct mvop as [h|].
           ++ symmetry in Hmv. apply it_move_some in Hmv.
              destruct Hmv as [f [t' [Hf [Hi' [M1 _]]]]]. left. auto.
           ++ symmetry in Hmv. unfold it_move in Hmv. rewrite Hg, Hi in Hmv. discriminate.
        -- assert (In i (map m_from m')) by (eapply ls_mv_all0; eauto; lia).
           destruct mvop; simpl; auto.
      * (* the items left in place: lower bound *)
        cbn [seq filter]. destruct mvop as [h|].
        -- symmetry in Hmv. apply it_move_some in Hmv.
           destruct Hmv as [f [t [Hf [Hi [M1 [M2 [M3 Hbk]]]]]]].
           rewrite statb_ext_above by lia.
           unfold statb at 1. unfold domb at 1. cbn [existsb]. rewrite M1, Nat.eqb_refl. cbn [andb].
           fold (domb m' index). rewrite (domb_none_below _ _ _ _ _ _ ls_mv_ok0) by lia.
           rewrite orb_false_r. rewrite (retb_of_index _ _ _ _ _ Hf Hi). cbn [andb].
           unfold it_kept in ls_stat_kept0. destruct (m_dom h) eqn:Hd; cbn [negb].
           ++ exact ls_stat_kept0.
           ++ constructor.
              ** rewrite (tgt_of_index _ _ _ _ _ Hf Hi). apply below_kept_false. auto.
              ** rewrite M3 in ls_stat_kept0. eapply Forall_kept_weaken; [|exact ls_stat_kept0].
                 apply below_kept_false. auto.
        -- symmetry in Hmv. apply it_move_none in Hmv. unfold statb at 1. rewrite Hmv. cbn [andb].
           exact ls_stat_kept0.
      * cbn [seq filter]. destruct mvop as [h|].
        -- symmetry in Hmv. apply it_move_some in Hmv.
           destruct Hmv as [f [t [Hf [Hi [M1 [M2 [M3 Hbk]]]]]]].
           rewrite statb_ext_above by lia.
           unfold statb at 1. unfold domb at 1. cbn [existsb]. rewrite M1, Nat.eqb_refl. cbn [andb].
           fold (domb m' index). rewrite (domb_none_below _ _ _ _ _ _ ls_mv_ok0) by lia.
           rewrite orb_false_r. rewrite (retb_of_index _ _ _ _ _ Hf Hi). cbn [andb].
           unfold it_kept in ls_stat_kept0. destruct (m_dom h) eqn:Hd; cbn [negb]; auto.
           constructor; auto. rewrite (tgt_of_index _ _ _ _ _ Hf Hi). rewrite M3 in ls_stat_kept0.
           eapply Forall_impl; [|exact ls_stat_kept0]. simpl. auto.
        -- symmetry in Hmv. apply it_move_none in Hmv. unfold statb at 1. rewrite Hmv. cbn [andb].
           exact ls_stat_sorted0.
Qed.

(* ------------------------------------------- group_adjacent_moves / unpack_moves *)

(** the single moves a grouped move stands for *)
Definition expand (m : mv) : list mv :=
  map (fun j => {| m_from := m_from m + j; m_len := 1; m_to := m_to m + j; m_dom := m_dom m |})
      (seq 0 (m_len m)).

Definition total (ms : list mv) : nat := fold_right (fun m s => m_len m + s) 0 ms.

Lemma expand_single : forall m, m_len m = 1 -> expand m = [m].
Proof.
  intros [f l t d] H. simpl in H. subst. unfold expand. simpl. rewrite !Nat.add_0_r. reflexivity.
Qed.

Lemma expand_grow : forall p m,
  m_len m = 1 -> m_from m = m_from p + m_len p -> m_to m = m_to p + m_len p -> m_dom m = m_dom p ->
  expand {| m_from := m_from p; m_len := S (m_len p); m_to := m_to p; m_dom := m_dom p |}
  = expand p ++ [m].
Proof.
  intros p [f l t d] H1 H2 H3 H4. simpl in *. subst. unfold expand. cbn [m_from m_len m_to m_dom].
  rewrite seq_S, map_app. reflexivity.
Qed.

Lemma group_expand : forall ms prev,
  Forall (fun m => m_len m = 1) ms ->
  flat_map expand (group_loop prev ms)
  = (match prev with Some p => expand p | None => [] end) ++ ms.
Proof.
  induction ms as [|m ms IH]; intros prev H.
  - destruct prev; simpl; rewrite ?app_nil_r; reflexivity.
  - inversion H as [|? ? Hm H']; subst. cbn [group_loop]. destruct prev as [p|].
    + destruct ((m_from m =? m_from p + m_len p) && (m_to m =? m_to p + m_len p)
                && Bool.eqb (m_dom m) (m_dom p)) eqn:E.
      * apply andb_true_iff in E. destruct E as [E E3]. apply andb_true_iff in E.
        destruct E as [E1 E2]. apply Nat.eqb_eq in E1, E2. apply eqb_prop in E3.
        rewrite IH; auto. rewrite (expand_grow p m); auto. rewrite <- app_assoc. reflexivity.
      * cbn [flat_map]. rewrite IH; auto. rewrite (expand_single m Hm). reflexivity.
    + rewrite IH; auto. rewrite (expand_single m Hm). reflexivity.
Qed.

Lemma group_len : forall ms prev,
  Forall (fun m => m_len m = 1) ms ->
  (match prev with Some p => 1 <= m_len p | None => True end) ->
  Forall (fun m => 1 <= m_len m) (group_loop prev ms).
Proof.
  induction ms as [|m ms IH]; intros prev H Hp.
  - destruct prev; simpl; auto.
  - inversion H as [|? ? Hm H']; subst. cbn [group_loop]. destruct prev as [p|].
    + destruct ((m_from m =? m_from p + m_len p) && (m_to m =? m_to p + m_len p)
                && Bool.eqb (m_dom m) (m_dom p)).
      * apply IH; auto. simpl. lia.
      * constructor; auto. apply IH; auto. lia.
    + apply IH; auto. lia.
Qed.

Lemma expand_advance : forall m rest, 1 <= m_len m ->
  single m :: flat_map expand (advance m rest) = expand m ++ flat_map expand rest.
Proof.
  intros [f l t d] rest H. simpl in H. unfold advance, single, expand. cbn [m_from m_len m_to m_dom].
  destruct l as [|l]; [lia|]. cbn [seq map]. rewrite !Nat.add_0_r. simpl Nat.sub. rewrite Nat.sub_0_r.
  destruct l as [|l].
  - simpl. reflexivity.
  - cbn [Nat.eqb flat_map]. unfold expand. cbn [m_from m_len m_to m_dom app].
    f_equal. f_equal. rewrite <- seq_shift, map_map. apply map_ext. intros j.
    f_equal; lia.
Qed.

Lemma total_advance : forall m rest, 1 <= m_len m -> total (advance m rest) = total (m :: rest) - 1.
Proof.
  intros [f l t d] rest H. simpl in H. unfold advance. cbn [m_len].
  destruct l as [|[|l]]; simpl; lia.
Qed.

Lemma len_advance : forall m rest, Forall (fun m => 1 <= m_len m) (m :: rest) ->
  Forall (fun m => 1 <= m_len m) (advance m rest).
Proof.
  intros [f l t d] rest H. inversion H; subst. unfold advance. cbn [m_len] in *.
  destruct l as [|[|l]]; simpl; auto. constructor; auto. simpl. lia.
Qed.

Lemma total_zero : forall ms, Forall (fun m => 1 <= m_len m) ms -> total ms = 0 -> ms = [].
Proof. destruct ms; auto. intros H E. inversion H; subst. simpl in E. lia. Qed.

Lemma unpack_loop_spec : forall n i removes adds cur,
  Forall (fun m => 1 <= m_len m) cur ->
  total cur + length adds + length removes <= n ->
  unpack_loop n i removes adds cur = (flat_map expand cur, adds).
Proof.
  induction n as [|n IH]; intros i removes adds cur Hl Hn.
  - assert (total cur = 0) as Ht by lia. apply total_zero in Ht; auto. subst.
    destruct adds; simpl in Hn; [reflexivity | lia].
  - cbn [unpack_loop].
    destruct (match removes with r :: _ => i =? r | [] => false end) eqn:Hs.
    + destruct removes as [|r removes]; [discriminate|]. simpl tl. apply IH; auto. simpl in Hn. lia.
    + destruct adds as [|a adds]; destruct cur as [|m cur].
      * reflexivity.
      * inversion Hl; subst.
        rewrite IH; [|apply len_advance; auto | rewrite total_advance; auto; simpl in *; lia].
        rewrite expand_advance; auto.
      * rewrite IH; auto. simpl in *. lia.
      * inversion Hl; subst. destruct (a_at a =? i).
        -- rewrite IH; auto. simpl in *. lia.
        -- rewrite IH; [|apply len_advance; auto | rewrite total_advance; auto; simpl in *; lia].
           rewrite expand_advance; auto.
Qed.

(** [diff] on two non-empty lists, followed by [unpack_moves], hands [apply_diff] exactly the
    single moves and additions found by the loop *)
Lemma unpack_diff : forall from to r ms a,
  from <> [] -> to <> [] ->
  diff_loop from to (Nat.max (length from) (length to)) 0 0 0 None = (r, ms, a) ->
  Forall (fun m => m_len m = 1) ms ->
  d_removed (diff from to) = r /\ d_added (diff from to) = a /\ d_clear (diff from to) = false /\
  unpack_moves (diff from to) = (ms, a).
Proof.
  intros from to r ms a Hf Ht E Hl. unfold diff.
  destruct from as [|f0 from]; [congruence|]. destruct to as [|t0 to]; [congruence|].
  rewrite E. cbn [d_removed d_added d_clear]. repeat split; auto.
  unfold unpack_moves. cbn [d_removed d_added d_moved d_items_to_move].
  fold (total (group_adjacent_moves ms)).
  rewrite unpack_loop_spec.
  - unfold group_adjacent_moves. rewrite group_expand; auto.
  - apply group_len; auto.
  - lia.
Qed.
