(** C14 — transcription of the path builder router/src/static_routes.rs
    [StaticPath::into_paths]: the paths statically generated for a flat route and a map of
    prerendered parameter values.  No proofs in this file. *)
From Coq Require Import List NArith Bool.
From LV Require Import Base.Bytes Router.Match.
Import ListNotations.
Open Scope N_scope.

(** StaticParamsMap: ordered (name, values); [get] returns the first entry with that name *)
Definition pmap := list (bytes * list bytes).

Fixpoint pm_get (pm : pmap) (n : bytes) : option (list bytes) :=
  match pm with
  | [] => None
  | (k, vs) :: pm' => if bytes_eqb k n then Some vs else pm_get pm' n
  end.

(** StaticParamsMap::insert: a later insert replaces the values of the name in place;
    FromIterator keeps every entry (and [get] finds the first) *)
Fixpoint pm_insert (pm : pmap) (k : bytes) (vs : list bytes) : pmap :=
  match pm with
  | [] => [(k, vs)]
  | (k', vs') :: pm' => if bytes_eqb k' k then (k', vs) :: pm' else (k', vs') :: pm_insert pm' k vs
  end.
Definition pm_of_inserts (l : pmap) : pmap :=
  fold_left (fun m kv => pm_insert m (fst kv) (snd kv)) l [].

(** [if s.starts_with("/") || s.is_empty() { p + s } else { p + "/" + s }] *)
Definition join_static (p s : bytes) : bytes :=
  if starts_with_slash s || match s with [] => true | _ => false end then p ++ s
  else p ++ slash :: s.

(** [if val.starts_with("/") { p + val } else { p + "/" + val }] *)
Definition join_value (p v : bytes) : bytes :=
  if starts_with_slash v then p ++ v else p ++ slash :: v.

(** the [for segment in &self.segments] loop; [None] = the [todo!()] of the OptionalParam arm *)
Fixpoint paths_from (paths : list bytes) (segs : list pseg) (pm : pmap) : option (list bytes) :=
  match segs with
  | [] => Some paths
  | PUnit :: t => paths_from paths t pm
  | PStatic s :: t => paths_from (map (fun p => join_static p s) paths) t pm
  | PParam n :: t | PSplat n :: t =>
      paths_from
        (match pm_get pm n with
         | Some vals => flat_map (fun p => map (join_value p) vals) paths
         | None => []
         end) t pm
  | POpt _ :: _ => None
  end.

Definition into_paths (segs : list pseg) (pm : pmap) : option (list bytes) :=
  paths_from [[]] segs pm.

(** what the router hands to StaticPath::new: [Static(base)] ++ segments *)
Definition registered (base : option bytes) (f : list pseg) : list pseg :=
  match base with Some b => PStatic b :: f | None => f end.
