(** C14 — theorems about the matcher model of Router/Match.v. *)
From Coq Require Import List NArith Bool Arith Lia.
From LV Require Import Base.Bytes Router.Match.
Import ListNotations.
Open Scope N_scope.

(** ---- induction principle for nested tuples ---- *)
Section SegInd.
  Variable P : seg -> Prop.
  Hypothesis Hstatic : forall s, P (SStatic s).
  Hypothesis Hparam : forall n, P (SParam n).
  Hypothesis Hopt : forall n, P (SOpt n).
  Hypothesis Hwild : forall n, P (SWild n).
  Hypothesis Hunit : P SUnit.
  Hypothesis Htuple : forall l, Forall P l -> P (STuple l).

  Fixpoint seg_ind' (s : seg) : P s :=
    match s with
    | SStatic t => Hstatic t
    | SParam n => Hparam n
    | SOpt n => Hopt n
    | SWild n => Hwild n
    | SUnit => Hunit
    | STuple l =>
        Htuple l ((fix go (l : list seg) : Forall P l :=
                     match l with
                     | [] => Forall_nil P
                     | x :: l' => Forall_cons x (seg_ind' x) (go l')
                     end) l)
    end.
End SegInd.

(** ---- the matched prefix and the remainder partition the path ---- *)
Definition splits (t : bytes -> tres) : Prop :=
  forall p m r ps, t p = TSome m r ps -> m ++ r = p.

Lemma static_splits : forall s, splits (static_test s).
Proof.
  intros s p m r ps H. unfold static_test in H.
  destruct (static_loop _ _ _ _) as [[has ml]|]; [|discriminate].
  destruct has; [|discriminate]. inversion H; subst. apply firstn_skipn.
Qed.

Lemma param_like_splits : forall o n, splits (param_like o n).
Proof.
  intros o n p m r ps H. unfold param_like in H.
  destruct (after_first p) as [lead body].
  destruct o.
  - destruct (Nat.eqb _ 0).
    + inversion H; subst. reflexivity.
    + destruct (_ && _); [|discriminate]. inversion H; subst. apply firstn_skipn.
  - destruct (_ || _); [discriminate|].
    destruct (is_boundary _ _); [|discriminate]. inversion H; subst. apply firstn_skipn.
Qed.

Lemma wild_splits : forall n, splits (wild_test n).
Proof.
  intros n p m r ps H. unfold wild_test in H.
  destruct (after_first p) as [lead body].
  destruct (is_boundary _ _); [|discriminate]. inversion H; subst. apply firstn_skipn.
Qed.

Lemma skipn_app_len : forall (m r : bytes), skipn (length m) (m ++ r) = r.
Proof. induction m; simpl; auto. Qed.

Lemma firstn_app_len : forall (m r : bytes), firstn (length m) (m ++ r) = m.
Proof. induction m; simpl; intros; f_equal; auto. Qed.

Lemma skipn_add : forall (a b : nat) (l : bytes), skipn (a + b) l = skipn b (skipn a l).
Proof.
  induction a; simpl; intros; auto. destruct l; simpl; auto. now rewrite skipn_nil.
Qed.

Lemma pass_rest_splits :
  forall ts, Forall (fun t => splits (snd t)) ts ->
  forall include nth path r mlen ps r' mlen' ps',
    r = skipn mlen path ->
    pass_rest ts include nth r mlen ps = PDone r' mlen' ps' ->
    r' = skipn mlen' path.
Proof.
  induction ts as [|[opt test] ts IH]; intros Hall include nth path r mlen ps r' mlen' ps' Hr H.
  - simpl in H. inversion H; subst. reflexivity.
  - inversion Hall as [|? ? Ht Hts]; subst. simpl in Ht.
    cbn [pass_rest] in H.
    destruct (negb opt || _).
    + destruct (test (skipn mlen path)) as [| |m r1 p] eqn:E.
      * destruct opt; [discriminate|]. destruct (Nat.eqb include 0); discriminate.
      * discriminate.
      * eapply IH in H; eauto.
        apply Ht in E. rewrite skipn_add, <- E. now rewrite skipn_app_len.
    + eapply IH in H; eauto.
Qed.

Lemma tuple_loop_splits :
  forall t ts, splits (snd t) -> Forall (fun t => splits (snd t)) ts ->
  forall include, splits (tuple_loop t ts include).
Proof.
  intros [opt test] ts Ht Hts. simpl in Ht.
  induction include as [|i IH]; intros p m r ps H; cbn [tuple_loop] in H.
  - destruct (pass_first _ _ _ _) as [| | |r1 mlen ps1] eqn:E; try discriminate.
    inversion H; subst.
    assert (r = skipn mlen p) as ->; [|apply firstn_skipn].
    unfold pass_first in E.
    destruct (negb opt || _).
    + destruct (test p) as [| |m1 r2 p1] eqn:E1; try discriminate.
      eapply pass_rest_splits in E; eauto.
      apply Ht in E1. rewrite <- E1. now rewrite skipn_app_len.
    + eapply pass_rest_splits in E; eauto.
  - destruct (pass_first _ _ _ _) as [| | |r1 mlen ps1] eqn:E; try discriminate.
    + apply IH in H. exact H.
    + inversion H; subst.
      assert (r = skipn mlen p) as ->; [|apply firstn_skipn].
      unfold pass_first in E.
      destruct (negb opt || _).
      * destruct (test p) as [| |m1 r2 p1] eqn:E1; try discriminate.
        eapply pass_rest_splits in E; eauto.
        apply Ht in E1. rewrite <- E1. now rewrite skipn_app_len.
      * eapply pass_rest_splits in E; eauto.
Qed.

Theorem seg_test_partition :
  forall s path m r ps, seg_test s path = TSome m r ps -> m ++ r = path.
Proof.
  intros s. change (splits (seg_test s)).
  induction s using seg_ind'.
  - apply static_splits.
  - apply (param_like_splits false).
  - apply (param_like_splits true).
  - apply wild_splits.
  - intros p m r ps H. inversion H; subst. reflexivity.
  - intros p m r ps Hm. cbn [seg_test] in Hm.
    destruct l as [|a l]; [inversion Hm; subst; reflexivity|].
    inversion H as [|? ? Ha Hl]; subst.
    destruct l as [|b l].
    + cbn [map] in Hm. destruct (seg_test a p) as [| |m1 r1 p1] eqn:E; try discriminate.
      inversion Hm; subst. apply Ha in E. subst p. now rewrite firstn_app_len.
    + cbn [map] in Hm.
      eapply (tuple_loop_splits (seg_optional a, seg_test a)
                ((seg_optional b, seg_test b) :: map (fun x => (seg_optional x, seg_test x)) l));
        [exact Ha| |exact Hm].
      inversion Hl as [|? ? Hb Hl']; subst. constructor; [exact Hb|].
      clear -Hl'. induction Hl'; simpl; constructor; auto.
Qed.

Example seg_test_partition_nontrivial :
  seg_test (STuple [SStatic [102;111;111]; SParam [120]]) [47;102;111;111;47;98;47]
  = TSome [47;102;111;111;47;98] [47] [([120],[98])].
Proof. vm_compute. reflexivity. Qed.

(** ---- sibling routes: the first definition that matches wins ---- *)
Definition forest_size (l : list route) : nat :=
  fold_right (fun c acc => (route_size c + acc)%nat) 0%nat l.

Theorem first_match_wins :
  forall rs id p ch ps rem,
    match_siblings rs id p = NYes ch ps rem ->
    exists pre c post,
      rs = pre ++ c :: post
      /\ (forall pre1 x pre2, pre = pre1 ++ x :: pre2 ->
            match_nested x (id + forest_size pre1) p = NNo)
      /\ match_nested c (id + forest_size pre) p = NYes ch ps rem.
Proof.
  unfold match_siblings.
  induction rs as [|c rs IH]; intros id p ch ps rem H; cbn [first_match] in H.
  - discriminate.
  - destruct (match_nested c id p) eqn:E.
    + discriminate.
    + apply IH in H. destruct H as (pre & c' & post & -> & Hpre & Hc).
      exists (c :: pre), c', post. split; [reflexivity|]. split.
      * intros pre1 x pre2 Heq. destruct pre1 as [|y pre1]; simpl in Heq.
        -- inversion Heq; subst. simpl. now rewrite Nat.add_0_r.
        -- inversion Heq; subst. simpl.
           rewrite (Nat.add_assoc id). eapply Hpre. reflexivity.
      * simpl. now rewrite Nat.add_assoc.
    + inversion H; subst. exists [], c, rs. split; [reflexivity|]. split.
      * intros [|? ?] ? ? Heq; simpl in Heq; discriminate.
      * simpl. now rewrite Nat.add_0_r.
Qed.

(** a later sibling is never consulted once an earlier one matched (or panicked) *)
Theorem first_match_shadow :
  forall c rs id p ch ps rem,
    match_nested c id p = NYes ch ps rem ->
    match_siblings (c :: rs) id p = NYes ch ps rem.
Proof. intros. unfold match_siblings. cbn [first_match]. now rewrite H. Qed.

Example first_match_wins_nontrivial :
  match_siblings [Route (SStatic [97]) None; Route (SParam [120]) None; Route (SWild [119]) None]
                 0 [47;98]
  = NYes [(1%nat, [47;98])] [([120],[98])] [].
Proof. vm_compute. reflexivity. Qed.

(** ================================================================================
    Part A — without optional segments a (nested) tuple is the plain left-to-right
    composition of its leaf segments
    ================================================================================ *)
Fixpoint seqT (ts : list (bytes -> tres)) (q : bytes) : tres :=
  match ts with
  | [] => TSome [] q []
  | t :: ts' =>
      match t q with
      | TNone => TNone
      | TPanic => TPanic
      | TSome m r ps =>
          match seqT ts' r with
          | TSome m' r' ps' => TSome (m ++ m') r' (ps ++ ps')
          | o => o
          end
      end
  end.

Lemma seqT_app : forall a b q,
  seqT (a ++ b) q =
  match seqT a q with
  | TSome m r ps => match seqT b r with
                    | TSome m' r' ps' => TSome (m ++ m') r' (ps ++ ps')
                    | o => o
                    end
  | o => o
  end.
Proof.
  induction a as [|t a IH]; intros b q; cbn [seqT app].
  - destruct (seqT b q); reflexivity.
  - destruct (t q) as [| |m r ps]; try reflexivity.
    rewrite IH. destruct (seqT a r) as [| |m1 r1 ps1]; try reflexivity.
    destruct (seqT b r1) as [| |m2 r2 ps2]; try reflexivity.
    now rewrite !app_assoc.
Qed.

Lemma seqT_ext : forall (A : Type) (f g : A -> bytes -> tres) l,
  Forall (fun x => forall q, f x q = g x q) l ->
  forall q, seqT (map f l) q = seqT (map g l) q.
Proof.
  induction 1 as [|x l Hx Hl IH]; intros q; cbn [map seqT]; [reflexivity|].
  rewrite Hx. destruct (g x q); try reflexivity. now rewrite IH.
Qed.

Lemma seqT_splits : forall ts, Forall splits ts -> splits (seqT ts).
Proof.
  induction 1 as [|t ts Ht Hts IH]; intros q m r ps H; cbn [seqT] in H.
  - inversion H; subst. reflexivity.
  - destruct (t q) as [| |m1 r1 p1] eqn:E; try discriminate.
    destruct (seqT ts r1) as [| |m2 r2 p2] eqn:E2; try discriminate.
    inversion H; subst. apply Ht in E. apply IH in E2. subst. now rewrite app_assoc.
Qed.

Lemma pass_rest_seq :
  forall ts, Forall (fun t : tester => fst t = false) ts ->
  forall nth r mlen ps,
    pass_rest ts 0 nth r mlen ps =
    match seqT (map snd ts) r with
    | TNone => PFail
    | TPanic => PPanic
    | TSome m r' p => PDone r' (mlen + length m)%nat (ps ++ p)
    end.
Proof.
  induction 1 as [|[opt test] ts Ht Hts IH]; intros nth r mlen ps; cbn [pass_rest map seqT snd].
  - now rewrite Nat.add_0_r, app_nil_r.
  - simpl in Ht. subst opt. cbn [negb orb].
    destruct (test r) as [| |m1 r1 p1]; try reflexivity.
    rewrite IH. destruct (seqT (map snd ts) r1) as [| |m2 r2 p2]; try reflexivity.
    now rewrite app_length, Nat.add_assoc, app_assoc.
Qed.

Lemma tuple_loop_seq :
  forall (t : tester) ts,
    fst t = false -> Forall (fun t : tester => fst t = false) ts ->
    splits (snd t) -> Forall (fun t : tester => splits (snd t)) ts ->
    forall q, tuple_loop t ts 0 q = seqT (snd t :: map snd ts) q.
Proof.
  intros [opt test] ts Ho Hos Hs Hss q. simpl in Ho, Hs. subst opt.
  cbn [tuple_loop pass_first negb orb seqT snd].
  destruct (test q) as [| |m r p] eqn:E; try reflexivity.
  rewrite pass_rest_seq by assumption.
  destruct (seqT (map snd ts) r) as [| |m2 r2 p2] eqn:E2; try reflexivity.
  f_equal.
  apply Hs in E.
  assert (Hsp : splits (seqT (map snd ts))).
  { apply seqT_splits. clear -Hss. induction Hss; simpl; constructor; auto. }
  apply Hsp in E2. subst. rewrite app_assoc, <- app_length. apply firstn_app_len.
Qed.

Fixpoint leaf_list (s : seg) : list seg :=
  match s with
  | STuple l => flat_map leaf_list l
  | x => [x]
  end.

Lemma seqT_single : forall t q, seqT [t] q = t q.
Proof.
  intros. cbn [seqT]. destruct (t q); try reflexivity. now rewrite !app_nil_r.
Qed.

Lemma seqT_flat : forall (l : list seg) q,
  seqT (map (fun x => seqT (map seg_test (leaf_list x))) l) q
  = seqT (map seg_test (flat_map leaf_list l)) q.
Proof.
  induction l as [|x l IH]; intros q; cbn [map flat_map seqT]; [reflexivity|].
  rewrite map_app, seqT_app.
  destruct (seqT (map seg_test (leaf_list x)) q); try reflexivity.
  now rewrite IH.
Qed.

Lemma existsb_false_forall : forall (A : Type) (f : A -> bool) l,
  existsb f l = false -> Forall (fun x => f x = false) l.
Proof.
  induction l; simpl; intros H; constructor.
  - now apply orb_false_iff in H.
  - apply IHl. now apply orb_false_iff in H.
Qed.

Theorem flatten_seg :
  forall s, seg_optional s = false ->
  forall q, seg_test s q = seqT (map seg_test (leaf_list s)) q.
Proof.
  induction s using seg_ind'; intros Hno q;
    try (cbn [leaf_list map]; now rewrite seqT_single).
  cbn [seg_optional] in Hno. apply existsb_false_forall in Hno.
  assert (Hall : Forall (fun x => forall q, seg_test x q = seqT (map seg_test (leaf_list x)) q) l).
  { clear -H Hno. induction H; inversion Hno; subst; constructor; auto. }
  cbn [leaf_list]. rewrite <- seqT_flat.
  rewrite <- (seqT_ext _ seg_test _ l Hall).
  cbn [seg_test].
  destruct l as [|a l]; [reflexivity|].
  destruct l as [|b l].
  - cbn [map]. rewrite seqT_single.
    destruct (seg_test a q) as [| |m r p] eqn:E; try reflexivity.
    apply seg_test_partition in E. subst q. now rewrite firstn_app_len.
  - cbn [map].
    set (ts := (seg_optional b, seg_test b) :: map (fun x => (seg_optional x, seg_test x)) l).
    assert (Hf : Forall (fun t : tester => fst t = false) ((seg_optional a, seg_test a) :: ts)).
    { change ((seg_optional a, seg_test a) :: ts)
        with (map (fun x => (seg_optional x, seg_test x)) (a :: b :: l)).
      clear -Hno. induction Hno; simpl; constructor; auto. }
    assert (Hs : Forall (fun t : tester => splits (snd t)) ((seg_optional a, seg_test a) :: ts)).
    { change ((seg_optional a, seg_test a) :: ts)
        with (map (fun x => (seg_optional x, seg_test x)) (a :: b :: l)).
      generalize (a :: b :: l). intros l0. induction l0; simpl; constructor; auto.
      simpl. intros p m r ps. apply seg_test_partition. }
    assert (Hc : count_opt ((seg_optional a, seg_test a) :: ts) = 0%nat).
    { unfold count_opt. clear -Hf. induction Hf as [|[o t] l0 Ho Hl IH]; simpl; auto.
      simpl in Ho. subst o. exact IH. }
    rewrite Hc.
    inversion Hf; subst. inversion Hs; subst.
    rewrite tuple_loop_seq by assumption.
    cbn [snd]. unfold ts. cbn [map snd]. rewrite map_map. cbn [snd]. reflexivity.
Qed.

(** ================================================================================
    Part B — without optional segments a route tree is the ordered list of its
    root-to-leaf segment chains; the matcher picks the first chain that completes
    ================================================================================ *)
Section RouteInd.
  Variable P : route -> Prop.
  Hypothesis Hleaf : forall s, P (Route s None).
  Hypothesis Hnode : forall s ks, Forall P ks -> P (Route s (Some ks)).
  Fixpoint route_ind' (r : route) : P r :=
    match r with
    | Route s None => Hleaf s
    | Route s (Some ks) =>
        Hnode s ks ((fix go (l : list route) : Forall P l :=
                       match l with
                       | [] => Forall_nil P
                       | x :: l' => Forall_cons x (route_ind' x) (go l')
                       end) ks)
    end.
End RouteInd.

Fixpoint chain_route (r : route) : list (list seg) :=
  match r with
  | Route s None => [leaf_list s]
  | Route s (Some ks) => map (app (leaf_list s)) (flat_map chain_route ks)
  end.
Definition chains (rs : list route) : list (list seg) := flat_map chain_route rs.

(** no optional segment anywhere, and every [.child(..)] tuple is non-empty *)
Fixpoint plain_route (r : route) : bool :=
  match r with
  | Route s None => negb (seg_optional s)
  | Route s (Some ks) =>
      negb (seg_optional s) && match ks with [] => false | _ => true end
      && forallb plain_route ks
  end.

Inductive outcome := OPanic | ONo | OYes (ps : params) (rem : bytes).

Definition oproj (n : nres) : outcome :=
  match n with NPanic => OPanic | NNo => ONo | NYes _ ps rem => OYes ps rem end.

Fixpoint first_chain (Ls : list (list seg)) (q : bytes) : outcome :=
  match Ls with
  | [] => ONo
  | L :: Ls' =>
      match seqT (map seg_test L) q with
      | TPanic => OPanic
      | TNone => first_chain Ls' q
      | TSome _ r ps => if rem_ok r then OYes ps r else first_chain Ls' q
      end
  end.

Lemma first_chain_app : forall A B q,
  first_chain (A ++ B) q = match first_chain A q with ONo => first_chain B q | o => o end.
Proof.
  induction A as [|L A IH]; intros B q; cbn [app first_chain]; [reflexivity|].
  destruct (seqT (map seg_test L) q) as [| |m r ps]; auto.
  destruct (rem_ok r); auto.
Qed.

Lemma first_chain_rem_ok : forall Ls q ps rem,
  first_chain Ls q = OYes ps rem -> rem_ok rem = true.
Proof.
  induction Ls as [|L Ls IH]; intros q ps rem H; cbn [first_chain] in H; [discriminate|].
  destruct (seqT (map seg_test L) q) as [| |m r p]; try discriminate; eauto.
  destruct (rem_ok r) eqn:E; eauto. inversion H; subst. exact E.
Qed.

Lemma first_chain_prefix_some : forall A Ls q m r ps,
  seqT (map seg_test A) q = TSome m r ps ->
  first_chain (map (app A) Ls) q =
  match first_chain Ls r with OYes ips rem => OYes (ps ++ ips) rem | o => o end.
Proof.
  intros A Ls q m r ps HA. induction Ls as [|L Ls IH]; cbn [map first_chain]; [reflexivity|].
  rewrite map_app, seqT_app, HA.
  destruct (seqT (map seg_test L) r) as [| |m1 r1 p1]; auto.
  destruct (rem_ok r1); auto.
Qed.

Lemma first_chain_prefix_none : forall A Ls q,
  seqT (map seg_test A) q = TNone -> first_chain (map (app A) Ls) q = ONo.
Proof.
  intros A Ls q HA. induction Ls as [|L Ls IH]; cbn [map first_chain]; [reflexivity|].
  rewrite map_app, seqT_app, HA. exact IH.
Qed.

Lemma first_chain_prefix_panic : forall A Ls q,
  seqT (map seg_test A) q = TPanic -> Ls <> [] -> first_chain (map (app A) Ls) q = OPanic.
Proof.
  intros A Ls q HA Hne. destruct Ls as [|L Ls]; [congruence|].
  cbn [map first_chain]. now rewrite map_app, seqT_app, HA.
Qed.

Lemma chain_route_nonempty : forall r, plain_route r = true -> chain_route r <> [].
Proof.
  induction r using route_ind'; intros Hp; cbn [chain_route]; [discriminate|].
  cbn [plain_route] in Hp. apply andb_prop in Hp. destruct Hp as [Hp Hks].
  apply andb_prop in Hp. destruct Hp as [_ Hne].
  destruct ks as [|k ks]; [discriminate|].
  inversion H; subst. cbn [forallb] in Hks. apply andb_prop in Hks. destruct Hks as [Hk _].
  cbn [flat_map]. intros Hc. apply map_eq_nil in Hc. apply app_eq_nil in Hc.
  destruct Hc as [Hc _]. now apply H2 in Hk.
Qed.

Lemma forest_chains :
  forall ks,
    Forall (fun r => plain_route r = true ->
                     forall id q, oproj (match_nested r id q) = first_chain (chain_route r) q) ks ->
    forallb plain_route ks = true ->
    forall id q, oproj (first_match match_nested ks id q) = first_chain (flat_map chain_route ks) q.
Proof.
  induction 1 as [|k ks Hk Hks IH]; intros Hp id q; cbn [first_match flat_map].
  - reflexivity.
  - cbn [forallb] in Hp. apply andb_prop in Hp. destruct Hp as [Hpk Hpks].
    rewrite first_chain_app, <- (Hk Hpk id q).
    destruct (match_nested k id q); cbn [oproj]; auto.
Qed.

Theorem route_chains :
  forall r, plain_route r = true ->
  forall id q, oproj (match_nested r id q) = first_chain (chain_route r) q.
Proof.
  induction r using route_ind'; intros Hp id q; cbn [match_nested chain_route];
    unfold nested_step.
  - cbn [plain_route] in Hp. apply negb_true_iff in Hp.
    rewrite (flatten_seg s Hp q). cbn [first_chain].
    destruct (seqT (map seg_test (leaf_list s)) q) as [| |m r ps]; try reflexivity.
    unfold nested_finish. destruct (rem_ok r); cbn [oproj]; now rewrite ?app_nil_r.
  - cbn [plain_route] in Hp. apply andb_prop in Hp. destruct Hp as [Hp Hks].
    apply andb_prop in Hp. destruct Hp as [Hs Hne]. apply negb_true_iff in Hs.
    pose proof (forest_chains ks H Hks) as HF.
    rewrite (flatten_seg s Hs q).
    destruct (seqT (map seg_test (leaf_list s)) q) as [| |m r ps] eqn:E.
    + now rewrite first_chain_prefix_none.
    + rewrite first_chain_prefix_panic; auto.
      destruct ks as [|k ks]; [discriminate|].
      inversion H; subst. cbn [forallb] in Hks. apply andb_prop in Hks. destruct Hks as [Hk _].
      cbn [flat_map]. intros Hc. apply app_eq_nil in Hc. destruct Hc as [Hc _].
      now apply chain_route_nonempty in Hk.
    + rewrite (first_chain_prefix_some _ _ _ _ _ _ E), <- (HF (S id) r).
      destruct (first_match match_nested ks (S id) r) as [| |ch ips rem] eqn:E2; cbn [oproj].
      * reflexivity.
      * now rewrite Hs.
      * unfold nested_finish.
        assert (rem_ok rem = true) as ->; [|reflexivity].
        eapply first_chain_rem_ok. rewrite <- (HF (S id) r), E2. reflexivity.
Qed.

Corollary siblings_chains :
  forall rs, forallb plain_route rs = true ->
  forall id q, oproj (match_siblings rs id q) = first_chain (chains rs) q.
Proof.
  intros rs Hp id q. apply forest_chains; [|exact Hp].
  apply Forall_forall. intros r _ Hr. now apply route_chains.
Qed.
