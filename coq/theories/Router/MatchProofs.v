(** C14 — theorems about the matcher model of Router/Match.v. *)
From Coq Require Import List NArith Bool Arith Lia.
From LV Require Import Base.Bytes Router.Match.
Import ListNotations.
Open Scope N_scope.

(** ---- induction principle for nested tuples ---- *)
Section SegInd.
  Variable P : seg -> Prop.
  Hypothesis Hstatic : forall s, P (SStatic s).
  Hypothesis Hparam : forall n, P (SParam n).
  Hypothesis Hopt : forall n, P (SOpt n).
  Hypothesis Hwild : forall n, P (SWild n).
  Hypothesis Hunit : P SUnit.
  Hypothesis Htuple : forall l, Forall P l -> P (STuple l).

  Fixpoint seg_ind' (s : seg) : P s :=
    match s with
    | SStatic t => Hstatic t
    | SParam n => Hparam n
    | SOpt n => Hopt n
    | SWild n => Hwild n
    | SUnit => Hunit
    | STuple l =>
        Htuple l ((fix go (l : list seg) : Forall P l :=
                     match l with
                     | [] => Forall_nil P
                     | x :: l' => Forall_cons x (seg_ind' x) (go l')
                     end) l)
    end.
End SegInd.

(** ---- the matched prefix and the remainder partition the path ---- *)
Definition splits (t : bytes -> tres) : Prop :=
  forall p m r ps, t p = TSome m r ps -> m ++ r = p.

Lemma static_splits : forall s, splits (static_test s).
Proof.
  intros s p m r ps H. unfold static_test in H.
  destruct (static_loop _ _ _ _) as [[has ml]|]; [|discriminate].
  destruct has; [|discriminate]. inversion H; subst. apply firstn_skipn.
Qed.

Lemma param_like_splits : forall o n, splits (param_like o n).
Proof.
  intros o n p m r ps H. unfold param_like in H.
  destruct (after_first p) as [lead body].
  destruct o.
  - destruct (Nat.eqb _ 0).
    + inversion H; subst. reflexivity.
    + destruct (_ && _); [|discriminate]. inversion H; subst. apply firstn_skipn.
  - destruct (_ || _); [discriminate|].
    destruct (is_boundary _ _); [|discriminate]. inversion H; subst. apply firstn_skipn.
Qed.

Lemma wild_splits : forall n, splits (wild_test n).
Proof.
  intros n p m r ps H. unfold wild_test in H.
  destruct (after_first p) as [lead body].
  destruct (is_boundary _ _); [|discriminate]. inversion H; subst. apply firstn_skipn.
Qed.

Lemma skipn_app_len : forall (m r : bytes), skipn (length m) (m ++ r) = r.
Proof. induction m; simpl; auto. Qed.

Lemma firstn_app_len : forall (m r : bytes), firstn (length m) (m ++ r) = m.
Proof. induction m; simpl; intros; f_equal; auto. Qed.

Lemma skipn_add : forall (a b : nat) (l : bytes), skipn (a + b) l = skipn b (skipn a l).
Proof.
  induction a; simpl; intros; auto. destruct l; simpl; auto. now rewrite skipn_nil.
Qed.

Lemma pass_rest_splits :
  forall ts, Forall (fun t => splits (snd t)) ts ->
  forall include nth path r mlen ps r' mlen' ps',
    r = skipn mlen path ->
    pass_rest ts include nth r mlen ps = PDone r' mlen' ps' ->
    r' = skipn mlen' path.
Proof.
  induction ts as [|[opt test] ts IH]; intros Hall include nth path r mlen ps r' mlen' ps' Hr H.
  - simpl in H. inversion H; subst. reflexivity.
  - inversion Hall as [|? ? Ht Hts]; subst. simpl in Ht.
    cbn [pass_rest] in H.
    destruct (negb opt || _).
    + destruct (test (skipn mlen path)) as [| |m r1 p] eqn:E.
      * destruct opt; [discriminate|]. destruct (Nat.eqb include 0); discriminate.
      * discriminate.
      * eapply IH in H; eauto.
        apply Ht in E. rewrite skipn_add, <- E. now rewrite skipn_app_len.
    + eapply IH in H; eauto.
Qed.

Lemma tuple_loop_splits :
  forall t ts, splits (snd t) -> Forall (fun t => splits (snd t)) ts ->
  forall include, splits (tuple_loop t ts include).
Proof.
  intros [opt test] ts Ht Hts. simpl in Ht.
  induction include as [|i IH]; intros p m r ps H; cbn [tuple_loop] in H.
  - destruct (pass_first _ _ _ _) as [| | |r1 mlen ps1] eqn:E; try discriminate.
    inversion H; subst.
    assert (r = skipn mlen p) as ->; [|apply firstn_skipn].
    unfold pass_first in E.
    destruct (negb opt || _).
    + destruct (test p) as [| |m1 r2 p1] eqn:E1; try discriminate.
      eapply pass_rest_splits in E; eauto.
      apply Ht in E1. rewrite <- E1. now rewrite skipn_app_len.
    + eapply pass_rest_splits in E; eauto.
  - destruct (pass_first _ _ _ _) as [| | |r1 mlen ps1] eqn:E; try discriminate.
    + apply IH in H. exact H.
    + inversion H; subst.
      assert (r = skipn mlen p) as ->; [|apply firstn_skipn].
      unfold pass_first in E.
      destruct (negb opt || _).
      * destruct (test p) as [| |m1 r2 p1] eqn:E1; try discriminate.
        eapply pass_rest_splits in E; eauto.
        apply Ht in E1. rewrite <- E1. now rewrite skipn_app_len.
      * eapply pass_rest_splits in E; eauto.
Qed.

Theorem seg_test_partition :
  forall s path m r ps, seg_test s path = TSome m r ps -> m ++ r = path.
Proof.
  intros s. change (splits (seg_test s)).
  induction s using seg_ind'.
  - apply static_splits.
  - apply (param_like_splits false).
  - apply (param_like_splits true).
  - apply wild_splits.
  - intros p m r ps H. inversion H; subst. reflexivity.
  - intros p m r ps Hm. cbn [seg_test] in Hm.
    destruct l as [|a l]; [inversion Hm; subst; reflexivity|].
    inversion H as [|? ? Ha Hl]; subst.
    destruct l as [|b l].
    + cbn [map] in Hm. destruct (seg_test a p) as [| |m1 r1 p1] eqn:E; try discriminate.
      inversion Hm; subst. apply Ha in E. subst p. now rewrite firstn_app_len.
    + cbn [map] in Hm.
      eapply (tuple_loop_splits (seg_optional a, seg_test a)
                ((seg_optional b, seg_test b) :: map (fun x => (seg_optional x, seg_test x)) l));
        [exact Ha| |exact Hm].
      inversion Hl as [|? ? Hb Hl']; subst. constructor; [exact Hb|].
      clear -Hl'. induction Hl'; simpl; constructor; auto.
Qed.

Example seg_test_partition_nontrivial :
  seg_test (STuple [SStatic [102;111;111]; SParam [120]]) [47;102;111;111;47;98;47]
  = TSome [47;102;111;111;47;98] [47] [([120],[98])].
Proof. vm_compute. reflexivity. Qed.

(** ---- sibling routes: the first definition that matches wins ---- *)
Definition forest_size (l : list route) : nat :=
  fold_right (fun c acc => (route_size c + acc)%nat) 0%nat l.

Theorem first_match_wins :
  forall rs id p ch ps rem,
    match_siblings rs id p = NYes ch ps rem ->
    exists pre c post,
      rs = pre ++ c :: post
      /\ (forall pre1 x pre2, pre = pre1 ++ x :: pre2 ->
            match_nested x (id + forest_size pre1) p = NNo)
      /\ match_nested c (id + forest_size pre) p = NYes ch ps rem.
Proof.
  unfold match_siblings.
  induction rs as [|c rs IH]; intros id p ch ps rem H; cbn [first_match] in H.
  - discriminate.
  - destruct (match_nested c id p) eqn:E.
    + discriminate.
    + apply IH in H. destruct H as (pre & c' & post & -> & Hpre & Hc).
      exists (c :: pre), c', post. split; [reflexivity|]. split.
      * intros pre1 x pre2 Heq. destruct pre1 as [|y pre1]; simpl in Heq.
        -- inversion Heq; subst. simpl. now rewrite Nat.add_0_r.
        -- inversion Heq; subst. simpl.
           rewrite (Nat.add_assoc id). eapply Hpre. reflexivity.
      * simpl. now rewrite Nat.add_assoc.
    + inversion H; subst. exists [], c, rs. split; [reflexivity|]. split.
      * intros [|? ?] ? ? Heq; simpl in Heq; discriminate.
      * simpl. now rewrite Nat.add_0_r.
Qed.

(** a later sibling is never consulted once an earlier one matched (or panicked) *)
Theorem first_match_shadow :
  forall c rs id p ch ps rem,
    match_nested c id p = NYes ch ps rem ->
    match_siblings (c :: rs) id p = NYes ch ps rem.
Proof. intros. unfold match_siblings. cbn [first_match]. now rewrite H. Qed.

Example first_match_wins_nontrivial :
  match_siblings [Route (SStatic [97]) None; Route (SParam [120]) None; Route (SWild [119]) None]
                 0 [47;98]
  = NYes [(1%nat, [47;98])] [([120],[98])] [].
Proof. vm_compute. reflexivity. Qed.

(** ================================================================================
    Part A — without optional segments a (nested) tuple is the plain left-to-right
    composition of its leaf segments
    ================================================================================ *)
Fixpoint seqT (ts : list (bytes -> tres)) (q : bytes) : tres :=
  match ts with
  | [] => TSome [] q []
  | t :: ts' =>
      match t q with
      | TNone => TNone
      | TPanic => TPanic
      | TSome m r ps =>
          match seqT ts' r with
          | TSome m' r' ps' => TSome (m ++ m') r' (ps ++ ps')
          | o => o
          end
      end
  end.

Lemma seqT_app : forall a b q,
  seqT (a ++ b) q =
  match seqT a q with
  | TSome m r ps => match seqT b r with
                    | TSome m' r' ps' => TSome (m ++ m') r' (ps ++ ps')
                    | o => o
                    end
  | o => o
  end.
Proof.
  induction a as [|t a IH]; intros b q; cbn [seqT app].
  - destruct (seqT b q); reflexivity.
  - destruct (t q) as [| |m r ps]; try reflexivity.
    rewrite IH. destruct (seqT a r) as [| |m1 r1 ps1]; try reflexivity.
    destruct (seqT b r1) as [| |m2 r2 ps2]; try reflexivity.
    now rewrite !app_assoc.
Qed.

Lemma seqT_ext : forall (A : Type) (f g : A -> bytes -> tres) l,
  Forall (fun x => forall q, f x q = g x q) l ->
  forall q, seqT (map f l) q = seqT (map g l) q.
Proof.
  induction 1 as [|x l Hx Hl IH]; intros q; cbn [map seqT]; [reflexivity|].
  rewrite Hx. destruct (g x q); try reflexivity. now rewrite IH.
Qed.

Lemma seqT_splits : forall ts, Forall splits ts -> splits (seqT ts).
Proof.
  induction 1 as [|t ts Ht Hts IH]; intros q m r ps H; cbn [seqT] in H.
  - inversion H; subst. reflexivity.
  - destruct (t q) as [| |m1 r1 p1] eqn:E; try discriminate.
    destruct (seqT ts r1) as [| |m2 r2 p2] eqn:E2; try discriminate.
    inversion H; subst. apply Ht in E. apply IH in E2. subst. now rewrite app_assoc.
Qed.

Lemma pass_rest_seq :
  forall ts, Forall (fun t : tester => fst t = false) ts ->
  forall nth r mlen ps,
    pass_rest ts 0 nth r mlen ps =
    match seqT (map snd ts) r with
    | TNone => PFail
    | TPanic => PPanic
    | TSome m r' p => PDone r' (mlen + length m)%nat (ps ++ p)
    end.
Proof.
  induction 1 as [|[opt test] ts Ht Hts IH]; intros nth r mlen ps; cbn [pass_rest map seqT snd].
  - now rewrite Nat.add_0_r, app_nil_r.
  - simpl in Ht. subst opt. cbn [negb orb].
    destruct (test r) as [| |m1 r1 p1]; try reflexivity.
    rewrite IH. destruct (seqT (map snd ts) r1) as [| |m2 r2 p2]; try reflexivity.
    now rewrite app_length, Nat.add_assoc, app_assoc.
Qed.

Lemma tuple_loop_seq :
  forall (t : tester) ts,
    fst t = false -> Forall (fun t : tester => fst t = false) ts ->
    splits (snd t) -> Forall (fun t : tester => splits (snd t)) ts ->
    forall q, tuple_loop t ts 0 q = seqT (snd t :: map snd ts) q.
Proof.
  intros [opt test] ts Ho Hos Hs Hss q. simpl in Ho, Hs. subst opt.
  cbn [tuple_loop pass_first negb orb seqT snd].
  destruct (test q) as [| |m r p] eqn:E; try reflexivity.
  rewrite pass_rest_seq by assumption.
  destruct (seqT (map snd ts) r) as [| |m2 r2 p2] eqn:E2; try reflexivity.
  f_equal.
  apply Hs in E.
  assert (Hsp : splits (seqT (map snd ts))).
  { apply seqT_splits. clear -Hss. induction Hss; simpl; constructor; auto. }
  apply Hsp in E2. subst. rewrite app_assoc, <- app_length. apply firstn_app_len.
Qed.

Fixpoint leaf_list (s : seg) : list seg :=
  match s with
  | STuple l => flat_map leaf_list l
  | x => [x]
  end.

Lemma seqT_single : forall t q, seqT [t] q = t q.
Proof.
  intros. cbn [seqT]. destruct (t q); try reflexivity. now rewrite !app_nil_r.
Qed.

Lemma seqT_flat : forall (l : list seg) q,
  seqT (map (fun x => seqT (map seg_test (leaf_list x))) l) q
  = seqT (map seg_test (flat_map leaf_list l)) q.
Proof.
  induction l as [|x l IH]; intros q; cbn [map flat_map seqT]; [reflexivity|].
  rewrite map_app, seqT_app.
  destruct (seqT (map seg_test (leaf_list x)) q); try reflexivity.
  now rewrite IH.
Qed.

Lemma existsb_false_forall : forall (A : Type) (f : A -> bool) l,
  existsb f l = false -> Forall (fun x => f x = false) l.
Proof.
  induction l; simpl; intros H; constructor.
  - now apply orb_false_iff in H.
  - apply IHl. now apply orb_false_iff in H.
Qed.

Theorem flatten_seg :
  forall s, seg_optional s = false ->
  forall q, seg_test s q = seqT (map seg_test (leaf_list s)) q.
Proof.
  induction s using seg_ind'; intros Hno q;
    try (cbn [leaf_list map]; now rewrite seqT_single).
  cbn [seg_optional] in Hno. apply existsb_false_forall in Hno.
  assert (Hall : Forall (fun x => forall q, seg_test x q = seqT (map seg_test (leaf_list x)) q) l).
  { clear -H Hno. induction H; inversion Hno; subst; constructor; auto. }
  cbn [leaf_list]. rewrite <- seqT_flat.
  rewrite <- (seqT_ext _ seg_test _ l Hall).
  cbn [seg_test].
  destruct l as [|a l]; [reflexivity|].
  destruct l as [|b l].
  - cbn [map]. rewrite seqT_single.
    destruct (seg_test a q) as [| |m r p] eqn:E; try reflexivity.
    apply seg_test_partition in E. subst q. now rewrite firstn_app_len.
  - cbn [map].
    set (ts := (seg_optional b, seg_test b) :: map (fun x => (seg_optional x, seg_test x)) l).
    assert (Hf : Forall (fun t : tester => fst t = false) ((seg_optional a, seg_test a) :: ts)).
    { change ((seg_optional a, seg_test a) :: ts)
        with (map (fun x => (seg_optional x, seg_test x)) (a :: b :: l)).
      clear -Hno. induction Hno; simpl; constructor; auto. }
    assert (Hs : Forall (fun t : tester => splits (snd t)) ((seg_optional a, seg_test a) :: ts)).
    { change ((seg_optional a, seg_test a) :: ts)
        with (map (fun x => (seg_optional x, seg_test x)) (a :: b :: l)).
      generalize (a :: b :: l). intros l0. induction l0; simpl; constructor; auto.
      simpl. intros p m r ps. apply seg_test_partition. }
    assert (Hc : count_opt ((seg_optional a, seg_test a) :: ts) = 0%nat).
    { unfold count_opt. clear -Hf. induction Hf as [|[o t] l0 Ho Hl IH]; simpl; auto.
      simpl in Ho. subst o. exact IH. }
    rewrite Hc.
    inversion Hf; subst. inversion Hs; subst.
    rewrite tuple_loop_seq by assumption.
    cbn [snd]. unfold ts. cbn [map snd]. rewrite map_map. cbn [snd]. reflexivity.
Qed.

(** ================================================================================
    Part B — without optional segments a route tree is the ordered list of its
    root-to-leaf segment chains; the matcher picks the first chain that completes
    ================================================================================ *)
Section RouteInd.
  Variable P : route -> Prop.
  Hypothesis Hleaf : forall s, P (Route s None).
  Hypothesis Hnode : forall s ks, Forall P ks -> P (Route s (Some ks)).
  Fixpoint route_ind' (r : route) : P r :=
    match r with
    | Route s None => Hleaf s
    | Route s (Some ks) =>
        Hnode s ks ((fix go (l : list route) : Forall P l :=
                       match l with
                       | [] => Forall_nil P
                       | x :: l' => Forall_cons x (route_ind' x) (go l')
                       end) ks)
    end.
End RouteInd.

Fixpoint chain_route (r : route) : list (list seg) :=
  match r with
  | Route s None => [leaf_list s]
  | Route s (Some ks) => map (app (leaf_list s)) (flat_map chain_route ks)
  end.
Definition chains (rs : list route) : list (list seg) := flat_map chain_route rs.

(** no optional segment anywhere, and every [.child(..)] tuple is non-empty *)
Fixpoint plain_route (r : route) : bool :=
  match r with
  | Route s None => negb (seg_optional s)
  | Route s (Some ks) =>
      negb (seg_optional s) && match ks with [] => false | _ => true end
      && forallb plain_route ks
  end.

Inductive outcome := OPanic | ONo | OYes (ps : params) (rem : bytes).

Definition oproj (n : nres) : outcome :=
  match n with NPanic => OPanic | NNo => ONo | NYes _ ps rem => OYes ps rem end.

Fixpoint first_chain (Ls : list (list seg)) (q : bytes) : outcome :=
  match Ls with
  | [] => ONo
  | L :: Ls' =>
      match seqT (map seg_test L) q with
      | TPanic => OPanic
      | TNone => first_chain Ls' q
      | TSome _ r ps => if rem_ok r then OYes ps r else first_chain Ls' q
      end
  end.

Lemma first_chain_app : forall A B q,
  first_chain (A ++ B) q = match first_chain A q with ONo => first_chain B q | o => o end.
Proof.
  induction A as [|L A IH]; intros B q; cbn [app first_chain]; [reflexivity|].
  destruct (seqT (map seg_test L) q) as [| |m r ps]; auto.
  destruct (rem_ok r); auto.
Qed.

Lemma first_chain_rem_ok : forall Ls q ps rem,
  first_chain Ls q = OYes ps rem -> rem_ok rem = true.
Proof.
  induction Ls as [|L Ls IH]; intros q ps rem H; cbn [first_chain] in H; [discriminate|].
  destruct (seqT (map seg_test L) q) as [| |m r p]; try discriminate; eauto.
  destruct (rem_ok r) eqn:E; eauto. inversion H; subst. exact E.
Qed.

Lemma first_chain_prefix_some : forall A Ls q m r ps,
  seqT (map seg_test A) q = TSome m r ps ->
  first_chain (map (app A) Ls) q =
  match first_chain Ls r with OYes ips rem => OYes (ps ++ ips) rem | o => o end.
Proof.
  intros A Ls q m r ps HA. induction Ls as [|L Ls IH]; cbn [map first_chain]; [reflexivity|].
  rewrite map_app, seqT_app, HA.
  destruct (seqT (map seg_test L) r) as [| |m1 r1 p1]; auto.
  destruct (rem_ok r1); auto.
Qed.

Lemma first_chain_prefix_none : forall A Ls q,
  seqT (map seg_test A) q = TNone -> first_chain (map (app A) Ls) q = ONo.
Proof.
  intros A Ls q HA. induction Ls as [|L Ls IH]; cbn [map first_chain]; [reflexivity|].
  rewrite map_app, seqT_app, HA. exact IH.
Qed.

Lemma first_chain_prefix_panic : forall A Ls q,
  seqT (map seg_test A) q = TPanic -> Ls <> [] -> first_chain (map (app A) Ls) q = OPanic.
Proof.
  intros A Ls q HA Hne. destruct Ls as [|L Ls]; [congruence|].
  cbn [map first_chain]. now rewrite map_app, seqT_app, HA.
Qed.

Lemma chain_route_nonempty : forall r, plain_route r = true -> chain_route r <> [].
Proof.
  induction r using route_ind'; intros Hp; cbn [chain_route]; [discriminate|].
  cbn [plain_route] in Hp. apply andb_prop in Hp. destruct Hp as [Hp Hks].
  apply andb_prop in Hp. destruct Hp as [_ Hne].
  destruct ks as [|k ks]; [discriminate|].
  inversion H; subst. cbn [forallb] in Hks. apply andb_prop in Hks. destruct Hks as [Hk _].
  cbn [flat_map]. intros Hc. apply map_eq_nil in Hc. apply app_eq_nil in Hc.
  destruct Hc as [Hc _]. now apply H2 in Hk.
Qed.

Lemma forest_chains :
  forall ks,
    Forall (fun r => plain_route r = true ->
                     forall id q, oproj (match_nested r id q) = first_chain (chain_route r) q) ks ->
    forallb plain_route ks = true ->
    forall id q, oproj (first_match match_nested ks id q) = first_chain (flat_map chain_route ks) q.
Proof.
  induction 1 as [|k ks Hk Hks IH]; intros Hp id q; cbn [first_match flat_map].
  - reflexivity.
  - cbn [forallb] in Hp. apply andb_prop in Hp. destruct Hp as [Hpk Hpks].
    rewrite first_chain_app, <- (Hk Hpk id q).
    destruct (match_nested k id q); cbn [oproj]; auto.
Qed.

Theorem route_chains :
  forall r, plain_route r = true ->
  forall id q, oproj (match_nested r id q) = first_chain (chain_route r) q.
Proof.
  induction r using route_ind'; intros Hp id q; cbn [match_nested chain_route];
    unfold nested_step.
  - cbn [plain_route] in Hp. apply negb_true_iff in Hp.
    rewrite (flatten_seg s Hp q). cbn [first_chain].
    destruct (seqT (map seg_test (leaf_list s)) q) as [| |m r ps]; try reflexivity.
    unfold nested_finish. destruct (rem_ok r); cbn [oproj]; now rewrite ?app_nil_r.
  - cbn [plain_route] in Hp. apply andb_prop in Hp. destruct Hp as [Hp Hks].
    apply andb_prop in Hp. destruct Hp as [Hs Hne]. apply negb_true_iff in Hs.
    pose proof (forest_chains ks H Hks) as HF.
    rewrite (flatten_seg s Hs q).
    destruct (seqT (map seg_test (leaf_list s)) q) as [| |m r ps] eqn:E.
    + now rewrite first_chain_prefix_none.
    + rewrite first_chain_prefix_panic; auto.
      destruct ks as [|k ks]; [discriminate|].
      inversion H; subst. cbn [forallb] in Hks. apply andb_prop in Hks. destruct Hks as [Hk _].
      cbn [flat_map]. intros Hc. apply app_eq_nil in Hc. destruct Hc as [Hc _].
      now apply chain_route_nonempty in Hk.
    + rewrite (first_chain_prefix_some _ _ _ _ _ _ E), <- (HF (S id) r).
      destruct (first_match match_nested ks (S id) r) as [| |ch ips rem] eqn:E2; cbn [oproj].
      * reflexivity.
      * now rewrite Hs.
      * unfold nested_finish.
        assert (rem_ok rem = true) as ->; [|reflexivity].
        eapply first_chain_rem_ok. rewrite <- (HF (S id) r), E2. reflexivity.
Qed.

Corollary siblings_chains :
  forall rs, forallb plain_route rs = true ->
  forall id q, oproj (match_siblings rs id q) = first_chain (chains rs) q.
Proof.
  intros rs Hp id q. apply forest_chains; [|exact Hp].
  apply Forall_forall. intros r _ Hr. now apply route_chains.
Qed.

(** ================================================================================
    Part C — on a tame chain (no optional, no '/' inside static texts, "/" and the
    wildcard only last) and a path none of whose components properly extends a static
    text, the chain consumes the path exactly like its table pattern
    ================================================================================ *)
From LV Require Import Router.Flat.

Lemma bytes_eqb_eq : forall a b, bytes_eqb a b = true <-> a = b.
Proof.
  induction a as [|x a IH]; destruct b as [|y b]; cbn [bytes_eqb]; split; intros H;
    try reflexivity; try discriminate.
  - apply andb_prop in H. destruct H as [H1 H2]. apply N.eqb_eq in H1. apply IH in H2. now subst.
  - inversion H; subst. rewrite N.eqb_refl. cbn. now apply IH.
Qed.

Definition at_boundary (q : bytes) : bool :=
  match q with [] => true | c :: _ => c =? slash end.

Definition Inv (cores : list bytes) (q : bytes) : Prop :=
  at_boundary q = true /\ kb cores q = false.

Lemma kb_suffix : forall cores a r, kb cores (a ++ r) = false -> kb cores r = false.
Proof.
  induction a as [|c a IH]; cbn [app kb]; intros r H; auto.
  apply orb_false_iff in H. destruct H as [_ H]. auto.
Qed.

Lemma is_prefix_firstn : forall s q, is_prefix s q = true -> firstn (length s) q = s.
Proof. intros s q H. now apply bytes_eqb_eq. Qed.

Lemma is_prefix_split : forall s q, is_prefix s q = true -> q = s ++ skipn (length s) q.
Proof.
  intros s q H. rewrite <- (is_prefix_firstn s q H) at 1. symmetry. apply firstn_skipn.
Qed.

Lemma is_prefix_cons : forall c s c' q,
  is_prefix (c :: s) (c' :: q) = (c' =? c) && is_prefix s q.
Proof. reflexivity. Qed.

Lemma is_prefix_nil_r : forall c s, is_prefix (c :: s) [] = false.
Proof. reflexivity. Qed.

Lemma static_loop_spec :
  forall core, has_slash core = false ->
  forall test has ml,
    static_loop test core has ml =
    if is_prefix core test
    then Some (match core with [] => has | _ => true end, (ml + length core)%nat)
    else None.
Proof.
  induction core as [|n core IH]; intros Hns test has ml.
  - unfold is_prefix. cbn [length firstn bytes_eqb]. rewrite Nat.add_0_r.
    destruct test; reflexivity.
  - cbn [has_slash existsb] in Hns. apply orb_false_iff in Hns. destruct Hns as [Hn Hns].
    destruct test as [|c test]; [reflexivity|].
    rewrite is_prefix_cons. cbn [static_loop].
    destruct (c =? slash) eqn:Ec.
    + apply N.eqb_eq in Ec. subst c. rewrite N.eqb_sym, Hn. reflexivity.
    + destruct (c =? n) eqn:En; cbn [andb]; [|reflexivity].
      rewrite (IH Hns). destruct (is_prefix core test); [|reflexivity].
      cbn [length]. rewrite Nat.add_succ_r. cbn [Nat.add]. destruct core; reflexivity.
Qed.

Lemma static_test_empty : forall q, static_test [] q = TSome [] q [].
Proof.
  intros q. unfold static_test. cbn [starts_with_slash tl].
  rewrite orb_true_r, andb_true_r.
  assert (H : forall t, static_loop t [] true 0 = Some (true, 0%nat)) by (destruct t; reflexivity).
  destruct (starts_with_slash q); cbn [tl]; rewrite H; reflexivity.
Qed.

Lemma static_test_slash : forall q1, static_test [slash] (slash :: q1) = TSome [slash] q1 [].
Proof.
  intros q1. unfold static_test. cbn [starts_with_slash tl]. rewrite N.eqb_refl. cbn [andb orb tl].
  assert (H : static_loop q1 [] true 1 = Some (true, 1%nat)) by (destruct q1; reflexivity).
  rewrite H. reflexivity.
Qed.

Lemma static_test_slash_nil : static_test [slash] [] = TNone.
Proof. reflexivity. Qed.

Lemma usable_core_ne : forall c, usable_core c = true -> c <> [] /\ has_slash c = false.
Proof.
  intros c H. destruct c; [discriminate|]. split; [discriminate|].
  unfold usable_core in H. now apply negb_true_iff in H.
Qed.

Lemma static_test_tame_nil : forall t, usable_core (static_core t) = true -> static_test t [] = TNone.
Proof.
  intros t H. apply usable_core_ne in H. destruct H as [Hne _].
  unfold static_test. cbn [starts_with_slash andb tl].
  destruct t as [|c t]; [now cbn in Hne|]. cbn [static_loop].
  destruct t; reflexivity.
Qed.

Lemma static_test_tame :
  forall t q1, usable_core (static_core t) = true ->
  static_test t (slash :: q1) =
  if is_prefix (static_core t) q1
  then TSome (slash :: static_core t) (skipn (length (static_core t)) q1) []
  else TNone.
Proof.
  intros t q1 H. pose proof (usable_core_ne _ H) as [Hne Hns].
  unfold static_test. cbn [starts_with_slash tl]. rewrite N.eqb_refl.
  destruct t as [|c t]; [now cbn in Hne|].
  assert (Hthis : (if true && (starts_with_slash (c :: t) || false) then tl (c :: t) else c :: t)
                  = static_core (c :: t)).
  { cbn [starts_with_slash static_core tl andb orb]. destruct (c =? slash); reflexivity. }
  assert (Hhas : match c :: t with [] => true | [c0] => c0 =? slash | _ => false end = false).
  { destruct t as [|c2 t]; [|reflexivity].
    cbn [static_core] in Hne, Hns. destruct (c =? slash) eqn:E; [now elim Hne|reflexivity]. }
  rewrite Hhas.
  change (match c :: t with [] => true | _ :: _ => false end) with false.
  rewrite Hthis.
  rewrite (static_loop_spec _ Hns).
  destruct (is_prefix (static_core (c :: t)) q1) eqn:Ep; [|reflexivity].
  destruct (static_core (c :: t)) as [|c0 core] eqn:Ec; [now elim Hne|].
  cbn [Nat.add firstn skipn]. rewrite <- Ec in *.
  now rewrite (is_prefix_firstn _ _ Ep).
Qed.

Lemma is_boundary_run : forall q, is_boundary q (run_len q) = true.
Proof.
  induction q as [|c q IH]; [reflexivity|]. cbn [run_len].
  destruct (c =? slash) eqn:E.
  - apply N.eqb_eq in E. subst c. reflexivity.
  - exact IH.
Qed.

Lemma skipn_run_boundary : forall q, at_boundary (skipn (run_len q) q) = true.
Proof.
  induction q as [|c q IH]; [reflexivity|]. cbn [run_len].
  destruct (c =? slash) eqn:E; [cbn [skipn at_boundary]; exact E|exact IH].
Qed.

Lemma param_test_nil : forall n, param_like false n [] = TNone.
Proof. reflexivity. Qed.

Lemma param_test_boundary :
  forall n q1,
    param_like false n (slash :: q1) =
    match run_len q1 with
    | O => TNone
    | S _ => TSome (slash :: firstn (run_len q1) q1) (skipn (run_len q1) q1)
                   [(n, firstn (run_len q1) q1)]
    end.
Proof.
  intros n q1. unfold param_like, after_first. rewrite N.eqb_refl.
  destruct (run_len q1) as [|k] eqn:E; [reflexivity|].
  cbn [Nat.add Nat.eqb orb andb].
  change (is_boundary (slash :: q1) (S (S k))) with (is_boundary q1 (S k)).
  rewrite <- E, is_boundary_run. reflexivity.
Qed.

Lemma wild_test_nil : forall n, wild_test n [] = TSome [] [] [(n, [])].
Proof. reflexivity. Qed.

Lemma wild_test_boundary : forall n q1, wild_test n (slash :: q1) = TSome (slash :: q1) [] [(n, q1)].
Proof.
  intros n q1. unfold wild_test, after_first. rewrite N.eqb_refl. cbn [Nat.add].
  assert (Hb : is_boundary (slash :: q1) (S (length q1)) = true).
  { unfold is_boundary. cbn [nth_error].
    assert (nth_error q1 (length q1) = None) as -> by (apply nth_error_None; lia). reflexivity. }
  rewrite Hb. cbn [firstn skipn]. now rewrite firstn_all, skipn_all.
Qed.

(** ---- the pattern side ---- *)
Lemma spre_lit : forall w T q, has_slash w = false ->
  spre (map TChr w ++ T) q = if is_prefix w q then spre T (skipn (length w) q) else None.
Proof.
  induction w as [|c w IH]; intros T q Hns; [reflexivity|].
  cbn [has_slash existsb] in Hns. apply orb_false_iff in Hns. destruct Hns as [Hc Hns].
  cbn [map app spre]. rewrite Hc.
  destruct q as [|c' q]; [reflexivity|].
  rewrite is_prefix_cons. destruct (c' =? c); cbn [andb]; [|reflexivity].
  now rewrite IH.
Qed.

Lemma spre_slash_lit : forall core T q1, core <> [] -> has_slash core = false ->
  spre (TChr slash :: map TChr core ++ T) (slash :: q1) =
  if is_prefix core q1 then spre T (skipn (length core) q1) else None.
Proof.
  intros core T q1 Hne Hns. destruct core as [|c core]; [now elim Hne|].
  rewrite <- (spre_lit (c :: core) T q1 Hns).
  cbn [map app]. cbn [spre]. rewrite !N.eqb_refl. reflexivity.
Qed.

Lemma spre_slash_lit_nil : forall core T, core <> [] ->
  spre (TChr slash :: map TChr core ++ T) [] = None.
Proof.
  intros core T Hne. destruct core as [|c core]; [now elim Hne|]. reflexivity.
Qed.

Lemma static_toks_tame : forall t, usable_core (static_core t) = true ->
  seg_toks (PStatic t) = TChr slash :: map TChr (static_core t).
Proof.
  intros t H. apply usable_core_ne in H. destruct H as [Hne _].
  destruct t as [|c t]; [now cbn in Hne|].
  unfold seg_toks, sep, needs_sep, static_core.
  destruct (c =? slash) eqn:E; cbn [negb app]; [|reflexivity].
  apply N.eqb_eq in E. now subst c.
Qed.

(** ---- tame chains ---- *)
Definition trivial_leaf (x : seg) : bool :=
  match x with SUnit => true | SStatic [] => true | _ => false end.

Definition tame_static (t : bytes) : bool :=
  match t with [] => true | _ => usable_core (static_core t) end.

Fixpoint tame_chain (L : list seg) : bool :=
  match L with
  | [] => true
  | x :: L' =>
      match x with
      | SStatic t => if bytes_eqb t [slash] then forallb trivial_leaf L'
                     else tame_static t && tame_chain L'
      | SParam n => name_ok n && tame_chain L'
      | SWild n => name_ok n && forallb trivial_leaf L'
      | SUnit => tame_chain L'
      | SOpt _ => false
      | STuple _ => false
      end
  end.

Definition core_in (cores : list bytes) (x : seg) : Prop :=
  match x with
  | SStatic t => usable_core (static_core t) = true -> In (static_core t) cores
  | _ => True
  end.

Definition tproj (t : tres) : option (option (params * bytes)) :=
  match t with
  | TPanic => None
  | TNone => Some None
  | TSome _ r ps => Some (Some (ps, r))
  end.

Lemma trivial_seq : forall L, forallb trivial_leaf L = true ->
  (forall q, seqT (map seg_test L) q = TSome [] q []) /\ toks (flat_map gen_path L) = [].
Proof.
  induction L as [|x L IH]; intros H; [split; reflexivity|].
  cbn [forallb] in H. apply andb_prop in H. destruct H as [Hx HL].
  destruct (IH HL) as [IH1 IH2]. split.
  - intros q. cbn [map seqT].
    destruct x as [[|? ?]| | | | |]; try discriminate; cbn [seg_test].
    + rewrite static_test_empty, IH1. reflexivity.
    + rewrite IH1. reflexivity.
  - cbn [flat_map]. unfold toks in *. rewrite flat_map_app, IH2, app_nil_r.
    destruct x as [[|? ?]| | | | |]; try discriminate; reflexivity.
Qed.

Lemma toks_cons : forall x L,
  toks (flat_map gen_path (x :: L)) = toks (gen_path x) ++ toks (flat_map gen_path L).
Proof. intros. unfold toks. cbn [flat_map]. now rewrite flat_map_app. Qed.

Lemma name_ok_sep : forall n, name_ok n = true -> sep n = [TChr slash].
Proof. intros n H. unfold sep. unfold name_ok in H. rewrite H. reflexivity. Qed.

Theorem chain_spre :
  forall cores L,
    tame_chain L = true -> Forall (core_in cores) L ->
    forall q, Inv cores q ->
    tproj (seqT (map seg_test L) q) = Some (spre (toks (flat_map gen_path L)) q).
Proof.
  intros cores. induction L as [|x L IH]; intros Ht Hc q [Hb Hk]; [reflexivity|].
  inversion Hc as [|? ? Hx HL]; subst.
  rewrite toks_cons. cbn [map seqT].
  destruct x as [t|n|n|n| |l]; cbn [tame_chain] in Ht; try discriminate.
  - (* static *)
    destruct (bytes_eqb t [slash]) eqn:Es.
    + apply bytes_eqb_eq in Es. subst t.
      destruct (trivial_seq L Ht) as [Hseq Htoks]. rewrite Htoks.
      destruct q as [|c q1].
      * reflexivity.
      * cbn [at_boundary] in Hb. apply N.eqb_eq in Hb. subst c.
        cbn [seg_test]. rewrite static_test_slash, Hseq.
        cbn [gen_path toks flat_map seg_toks map app tproj].
        change (sep [slash]) with (@nil tok). cbn [app spre].
        rewrite !N.eqb_refl. reflexivity.
    + apply andb_prop in Ht. destruct Ht as [Hts HtL].
      destruct t as [|c0 t0].
      * (* "" *)
        cbn [seg_test]. rewrite static_test_empty.
        cbn [gen_path toks flat_map seg_toks sep needs_sep map app].
        specialize (IH HtL HL q (conj Hb Hk)).
        destruct (seqT (map seg_test L) q); cbn [tproj app] in *; exact IH.
      * set (t := c0 :: t0) in *. cbn [tame_static] in Hts.
        change (match t with [] => true | _ :: _ => usable_core (static_core t) end)
          with (usable_core (static_core t)) in Hts.
        pose proof (usable_core_ne _ Hts) as [Hne Hns].
        cbn [gen_path toks flat_map]. rewrite app_nil_r, (static_toks_tame _ Hts).
        cbn [seg_test].
        destruct q as [|c q1].
        -- rewrite (static_test_tame_nil _ Hts).
           change ((TChr slash :: map TChr (static_core t)) ++ toks (flat_map gen_path L))
             with (TChr slash :: map TChr (static_core t) ++ toks (flat_map gen_path L)).
           now rewrite spre_slash_lit_nil.
        -- cbn [at_boundary] in Hb. apply N.eqb_eq in Hb. subst c.
           rewrite (static_test_tame _ _ Hts).
           change ((TChr slash :: map TChr (static_core t)) ++ toks (flat_map gen_path L))
             with (TChr slash :: map TChr (static_core t) ++ toks (flat_map gen_path L)).
           rewrite (spre_slash_lit _ _ _ Hne Hns).
           destruct (is_prefix (static_core t) q1) eqn:Ep; [|reflexivity].
           (* the remainder is again at a component boundary *)
           assert (Hin : In (static_core t) cores) by (apply Hx; exact Hts).
           cbn [kb] in Hk. rewrite N.eqb_refl in Hk. cbn [andb] in Hk.
           apply orb_false_iff in Hk. destruct Hk as [Hbad Hk1].
           assert (Hb' : at_boundary (skipn (length (static_core t)) q1) = true).
           { pose proof (existsb_false_forall _ _ _ Hbad) as Hall.
             rewrite Forall_forall in Hall. specialize (Hall _ Hin).
             unfold bad_at in Hall. rewrite Ep in Hall. cbn [andb] in Hall.
             destruct (skipn (length (static_core t)) q1) as [|c r]; [reflexivity|].
             cbn [at_boundary]. now apply negb_false_iff in Hall. }
           assert (Hk' : kb cores (skipn (length (static_core t)) q1) = false).
           { apply (kb_suffix cores (static_core t)).
             rewrite <- (is_prefix_split _ _ Ep). exact Hk1. }
           specialize (IH HtL HL _ (conj Hb' Hk')).
           destruct (seqT (map seg_test L) (skipn (length (static_core t)) q1));
             cbn [tproj app] in *; exact IH.
  - (* param *)
    apply andb_prop in Ht. destruct Ht as [Hn HtL].
    cbn [gen_path toks flat_map seg_toks]. rewrite app_nil_r, (name_ok_sep _ Hn).
    cbn [seg_test app].
    destruct q as [|c q1].
    + reflexivity.
    + cbn [at_boundary] in Hb. apply N.eqb_eq in Hb. subst c.
      rewrite param_test_boundary. cbn [spre]. rewrite !N.eqb_refl.
      destruct (run_len q1) as [|k] eqn:Ek; [reflexivity|]. rewrite <- Ek.
      assert (Hb' : at_boundary (skipn (run_len q1) q1) = true) by apply skipn_run_boundary.
      assert (Hk' : kb cores (skipn (run_len q1) q1) = false).
      { apply (kb_suffix cores (slash :: firstn (run_len q1) q1)).
        cbn [app]. now rewrite firstn_skipn. }
      specialize (IH HtL HL _ (conj Hb' Hk')).
      destruct (seqT (map seg_test L) (skipn (run_len q1) q1)); cbn [tproj] in *.
      * injection IH as IH'. rewrite <- IH'. reflexivity.
      * discriminate.
      * injection IH as IH'. rewrite <- IH'. reflexivity.
  - (* wildcard, last *)
    apply andb_prop in Ht. destruct Ht as [Hn HtL].
    destruct (trivial_seq L HtL) as [Hseq Htoks]. rewrite Htoks, app_nil_r.
    cbn [gen_path toks flat_map seg_toks]. rewrite app_nil_r, (name_ok_sep _ Hn).
    cbn [seg_test app].
    destruct q as [|c q1].
    + rewrite wild_test_nil, Hseq. reflexivity.
    + cbn [at_boundary] in Hb. apply N.eqb_eq in Hb. subst c.
      rewrite wild_test_boundary, Hseq. cbn [spre tproj]. rewrite !N.eqb_refl.
      now rewrite app_nil_r.
  - (* unit *)
    cbn [seg_test gen_path toks flat_map app].
    specialize (IH Ht HL q (conj Hb Hk)).
    destruct (seqT (map seg_test L) q); cbn [tproj app] in *; exact IH.
Qed.

(** ================================================================================
    Part D — the table side, and the theorem
    ================================================================================ *)
Definition is_popt (x : pseg) : bool := match x with POpt _ => true | _ => false end.

Lemma seg_optional_gen : forall s, seg_optional s = existsb is_popt (gen_path s).
Proof.
  induction s using seg_ind'; try reflexivity.
  cbn [seg_optional gen_path]. induction H as [|x l Hx Hl IH]; [reflexivity|].
  cbn [existsb flat_map]. now rewrite existsb_app, Hx, IH.
Qed.

Fixpoint wf_tree_r (r : route) : bool :=
  match r with
  | Route _ None => true
  | Route _ (Some ks) => match ks with [] => false | _ => true end && forallb wf_tree_r ks
  end.
(** every [.child(..)] tuple has at least one route *)
Definition wf_tree (rs : list route) : bool := forallb wf_tree_r rs.

Lemma gen_route_nonempty : forall r, wf_tree_r r = true -> gen_route r <> [].
Proof.
  induction r using route_ind'; intros Hw; cbn [gen_route]; [discriminate|].
  cbn [wf_tree_r] in Hw. apply andb_prop in Hw. destruct Hw as [Hne Hks].
  destruct ks as [|k ks]; [discriminate|].
  inversion H; subst. cbn [forallb] in Hks. apply andb_prop in Hks. destruct Hks as [Hk _].
  cbn [flat_map]. intros Hc. apply map_eq_nil in Hc. apply app_eq_nil in Hc.
  destruct Hc as [Hc _]. now apply H2 in Hk.
Qed.

Lemma existsb_map_app_false :
  forall (g : pseg -> bool) A Ls,
    existsb (existsb g) (map (app A) Ls) = false ->
    (Ls <> [] -> existsb g A = false) /\ existsb (existsb g) Ls = false.
Proof.
  intros g A. induction Ls as [|L Ls IH]; cbn [map existsb]; intros H.
  - split; [intros Hc; now elim Hc|reflexivity].
  - apply orb_false_iff in H. destruct H as [H1 H2].
    rewrite existsb_app in H1. apply orb_false_iff in H1. destruct H1 as [HA HL].
    destruct (IH H2) as [_ IH2]. split; [intros _; exact HA|].
    now rewrite HL, IH2.
Qed.

Lemma existsb_flat_map_false :
  forall (A B : Type) (f : B -> bool) (g : A -> list B) l,
    existsb f (flat_map g l) = false -> Forall (fun x => existsb f (g x) = false) l.
Proof.
  induction l as [|x l IH]; cbn [flat_map]; intros H; constructor.
  - rewrite existsb_app in H. now apply orb_false_iff in H.
  - apply IH. rewrite existsb_app in H. now apply orb_false_iff in H.
Qed.

Lemma plain_from_flat :
  forall r, wf_tree_r r = true ->
  existsb (existsb is_popt) (gen_route r) = false -> plain_route r = true.
Proof.
  induction r using route_ind'; intros Hw Hf; cbn [plain_route gen_route] in *.
  - cbn [existsb] in Hf. rewrite orb_false_r in Hf. now rewrite seg_optional_gen, Hf.
  - cbn [wf_tree_r] in Hw. apply andb_prop in Hw. destruct Hw as [Hne Hks].
    apply existsb_map_app_false in Hf. destruct Hf as [Hs Hkids].
    assert (Hne' : flat_map gen_route ks <> []).
    { destruct ks as [|k ks]; [discriminate|].
      cbn [forallb] in Hks. apply andb_prop in Hks. destruct Hks as [Hk _].
      cbn [flat_map]. intros Hc. apply app_eq_nil in Hc. destruct Hc as [Hc _].
      now apply gen_route_nonempty in Hk. }
    rewrite seg_optional_gen, (Hs Hne'), Hne. cbn [negb andb].
    apply existsb_flat_map_false in Hkids.
    clear -H Hks Hkids. induction H as [|k ks Hk Hl IH]; [reflexivity|].
    cbn [forallb] in *. apply andb_prop in Hks. destruct Hks as [Hwk Hwks].
    inversion Hkids; subst. rewrite Hk, IH; auto.
Qed.

(** D2: the generated flat routes are the chains, segment by segment *)
Lemma flat_map_flat_map : forall (A B C : Type) (f : B -> list C) (g : A -> list B) l,
  flat_map f (flat_map g l) = flat_map (fun x => flat_map f (g x)) l.
Proof.
  induction l as [|x l IH]; [reflexivity|]. cbn [flat_map]. now rewrite flat_map_app, IH.
Qed.

Lemma gen_path_leaves : forall s, gen_path s = flat_map gen_path (leaf_list s).
Proof.
  induction s using seg_ind'; try (cbn [leaf_list flat_map gen_path]; now rewrite ?app_nil_r).
  cbn [gen_path leaf_list]. rewrite flat_map_flat_map.
  induction H as [|x l Hx Hl IH]; [reflexivity|]. cbn [flat_map]. now rewrite <- Hx, IH.
Qed.

Lemma map_flat_map : forall (A B C : Type) (f : B -> C) (g : A -> list B) l,
  map f (flat_map g l) = flat_map (fun x => map f (g x)) l.
Proof.
  induction l as [|x l IH]; [reflexivity|]. cbn [flat_map]. now rewrite map_app, IH.
Qed.

Lemma gen_route_chains : forall r, gen_route r = map (flat_map gen_path) (chain_route r).
Proof.
  induction r using route_ind'; cbn [gen_route chain_route map].
  - now rewrite <- gen_path_leaves.
  - rewrite map_map.
    assert (Hk : flat_map gen_route ks = map (flat_map gen_path) (flat_map chain_route ks)).
    { rewrite map_flat_map. induction H as [|k ks Hk Hl IH]; [reflexivity|].
      cbn [flat_map]. now rewrite Hk, IH. }
    rewrite Hk, map_map. apply map_ext. intros L.
    now rewrite flat_map_app, <- gen_path_leaves.
Qed.

Lemma gen_routes_chains : forall rs, gen_routes rs = map (flat_map gen_path) (chains rs).
Proof.
  intros rs. unfold gen_routes, chains. rewrite map_flat_map.
  induction rs as [|r rs IH]; [reflexivity|]. cbn [flat_map]. now rewrite gen_route_chains, IH.
Qed.

(** D3: outside the known classes every chain is tame *)
Definition is_leaf (x : seg) : bool := match x with STuple _ => false | _ => true end.

Lemma leaf_list_leaves : forall s, Forall (fun x => is_leaf x = true) (leaf_list s).
Proof.
  induction s using seg_ind'; try (repeat constructor).
  cbn [leaf_list]. induction H as [|x l Hx Hl IH]; [constructor|].
  cbn [flat_map]. apply Forall_app. split; assumption.
Qed.

Lemma chain_route_leaves :
  forall r, Forall (Forall (fun x => is_leaf x = true)) (chain_route r).
Proof.
  induction r using route_ind'; cbn [chain_route].
  - repeat constructor. apply leaf_list_leaves.
  - apply Forall_forall. intros L HL. apply in_map_iff in HL. destruct HL as (L0 & <- & HL0).
    apply Forall_app. split; [apply leaf_list_leaves|].
    apply in_flat_map in HL0. destruct HL0 as (k & Hk & HL0).
    rewrite Forall_forall in H. specialize (H k Hk). rewrite Forall_forall in H. now apply H.
Qed.

Lemma trivial_from_flat : forall L, Forall (fun x => is_leaf x = true) L ->
  forallb trivial_pseg (flat_map gen_path L) = true -> forallb trivial_leaf L = true.
Proof.
  induction 1 as [|x L Hx HL IH]; [reflexivity|]. cbn [flat_map forallb]. intros H.
  rewrite forallb_app in H. apply andb_prop in H. destruct H as [H1 H2].
  rewrite (IH H2), andb_true_r.
  destruct x as [[|? ?]| | | | |]; try reflexivity; try discriminate.
Qed.

Lemma nil_from_flat : forall L, Forall (fun x => is_leaf x = true) L ->
  flat_map gen_path L = [] -> forallb trivial_leaf L = true.
Proof.
  intros L HL H. apply trivial_from_flat; [exact HL|]. now rewrite H.
Qed.

Lemma tame_from_flat :
  forall L, Forall (fun x => is_leaf x = true) L ->
    existsb is_popt (flat_map gen_path L) = false ->
    wf_flat (flat_map gen_path L) = true ->
    slash_static_flat (flat_map gen_path L) = false ->
    tame_chain L = true.
Proof.
  induction 1 as [|x L Hx HL IH]; [reflexivity|].
  cbn [flat_map]. intros Ho Hw Hs.
  destruct x as [t|n|n|n| |l]; cbn [gen_path app tame_chain] in *; try discriminate.
  - (* static *)
    cbn [existsb is_popt orb] in Ho. cbn [wf_flat] in Hw. cbn [slash_static_flat] in Hs.
    apply orb_false_iff in Hs. destruct Hs as [Hs Hrest].
    apply orb_false_iff in Hs. destruct Hs as [Htl Hsl].
    destruct (bytes_eqb t [slash]) eqn:Et.
    + cbn [andb] in Hsl. apply negb_false_iff in Hsl. now apply trivial_from_flat.
    + rewrite (IH Ho Hw Hrest), andb_true_r.
      destruct t as [|c t]; [reflexivity|]. cbn [tame_static static_core tl] in *.
      destruct (c =? slash) eqn:Ec.
      * destruct t as [|c2 t].
        -- apply N.eqb_eq in Ec. subst c. cbn in Et. discriminate.
        -- unfold usable_core. now rewrite Htl.
      * unfold usable_core, has_slash. cbn [existsb]. rewrite Ec. cbn [orb].
        fold (has_slash t). now rewrite Htl.
  - (* param *)
    cbn [existsb is_popt orb] in Ho. cbn [wf_flat] in Hw. cbn [slash_static_flat] in Hs.
    apply andb_prop in Hw. destruct Hw as [Hn Hw]. now rewrite Hn, (IH Ho Hw Hs).
  - (* wildcard *)
    cbn [wf_flat] in Hw. apply andb_prop in Hw. destruct Hw as [Hn Hw]. rewrite Hn. cbn [andb].
    apply nil_from_flat; [exact HL|]. destruct (flat_map gen_path L); [reflexivity|discriminate].
  - (* unit *)
    now apply IH.
Qed.

Lemma cores_from_flat :
  forall base rs L, In L (chains rs) -> Forall (core_in (cores_of base rs)) L.
Proof.
  intros base rs L HL. apply Forall_forall. intros x Hx.
  destruct x as [t| | | | |]; cbn [core_in]; auto. intros Hu.
  unfold cores_of. apply filter_In. split; [|exact Hu].
  apply in_or_app. left. apply in_map. apply in_flat_map.
  exists (flat_map gen_path L). split.
  - rewrite gen_routes_chains. now apply in_map.
  - unfold statics_of. apply in_flat_map. exists (PStatic t). split; [|now left].
    apply in_flat_map. exists (SStatic t). split; [exact Hx|now left].
Qed.

(** D4: the pattern side of the trailing-slash tolerance *)
Lemma run_len_le : forall a, (run_len a <= length a)%nat.
Proof. induction a as [|c a IH]; cbn [run_len length]; [lia|]. destruct (c =? slash); lia. Qed.

Lemma run_len_snoc : forall a, run_len (a ++ [slash]) = run_len a.
Proof.
  induction a as [|c a IH]; cbn [app run_len].
  - now rewrite N.eqb_refl.
  - destruct (c =? slash); [reflexivity|now rewrite IH].
Qed.

Lemma spre_suffix : forall ts p b r, spre ts p = Some (b, r) -> exists a, p = a ++ r.
Proof.
  induction ts as [|t ts IH]; intros p b r H.
  - inversion H; subst. now exists [].
  - destruct t as [c|n|n]; cbn [spre] in H.
    + destruct (if c =? slash then ts else []) as [|[c2|n2|n2] rest] eqn:E.
      * destruct p as [|c' p']; [discriminate|]. destruct (c' =? c); [|discriminate].
        apply IH in H. destruct H as [a ->]. now exists (c' :: a).
      * destruct p as [|c' p']; [discriminate|]. destruct (c' =? c); [|discriminate].
        apply IH in H. destruct H as [a ->]. now exists (c' :: a).
      * destruct p as [|c' p']; [discriminate|]. destruct (c' =? c); [|discriminate].
        apply IH in H. destruct H as [a ->]. now exists (c' :: a).
      * destruct rest; [|discriminate].
        destruct p as [|c' p'].
        -- inversion H; subst. now exists [].
        -- destruct (c' =? slash); [|discriminate]. inversion H; subst.
           exists (c' :: p'). now rewrite app_nil_r.
    + destruct (run_len p) as [|k] eqn:Ek; [discriminate|]. rewrite <- Ek in H.
      destruct (spre ts (skipn (run_len p) p)) as [[b0 r0]|] eqn:E; [|discriminate].
      inversion H; subst. apply IH in E. destruct E as [a Ha].
      exists (firstn (run_len p) p ++ a). rewrite <- app_assoc, <- Ha. symmetry. apply firstn_skipn.
    + discriminate.
Qed.

Lemma skipn_snoc : forall (k : nat) (a r : bytes),
  (k <= length a)%nat -> skipn k (a ++ r) = skipn k a ++ r.
Proof. intros. rewrite skipn_app. replace (k - length a)%nat with 0%nat by lia. reflexivity. Qed.

Lemma firstn_snoc : forall (k : nat) (a r : bytes),
  (k <= length a)%nat -> firstn k (a ++ r) = firstn k a.
Proof.
  intros. rewrite firstn_app. replace (k - length a)%nat with 0%nat by lia.
  cbn [firstn]. now rewrite app_nil_r.
Qed.

Lemma spre_unsnoc : forall ts a b,
  spre ts (a ++ [slash]) = Some (b, [slash]) -> spre ts a = Some (b, []).
Proof.
  induction ts as [|t ts IH]; intros a b H.
  - cbn [spre] in *. inversion H as [[Hb Ha]].
    assert (a = []) as -> by (destruct a as [|x [|y a]]; [reflexivity|discriminate|discriminate]).
    reflexivity.
  - destruct t as [c|n|n]; cbn [spre] in *.
    + destruct (if c =? slash then ts else []) as [|[c2|n2|n2] rest] eqn:E;
        try (destruct a as [|c' a']; cbn [app] in H;
             [ destruct (slash =? c); [|discriminate];
               apply spre_suffix in H; destruct H as [x Hx];
               destruct x; discriminate
             | destruct (c' =? c); [|discriminate]; now apply IH ]).
      destruct rest; [|discriminate].
      destruct (a ++ [slash]) as [|c' p']; [discriminate|].
      destruct (c' =? slash); discriminate.
    + rewrite run_len_snoc in H.
      destruct (run_len a) as [|k] eqn:Ek; [discriminate|]. rewrite <- Ek in *.
      pose proof (run_len_le a) as Hle.
      rewrite skipn_snoc, firstn_snoc in H by exact Hle.
      destruct (spre ts (skipn (run_len a) a ++ [slash])) as [[b0 r0]|] eqn:E; [|discriminate].
      inversion H; subst. apply IH in E. now rewrite E.
    + discriminate.
Qed.

Lemma spre_snoc : forall ts a b,
  spre ts a = Some (b, []) ->
  exists b' r', spre ts (a ++ [slash]) = Some (b', r') /\ rem_ok r' = true.
Proof.
  induction ts as [|t ts IH]; intros a b H.
  - cbn [spre] in *. inversion H; subst. exists [], [slash]. split; [reflexivity|].
    cbn [rem_ok]. now rewrite N.eqb_refl.
  - destruct t as [c|n|n]; cbn [spre] in *.
    + destruct (if c =? slash then ts else []) as [|[c2|n2|n2] rest] eqn:E;
        try (destruct a as [|c' a']; [discriminate|]; cbn [app];
             destruct (c' =? c); [|discriminate]; now apply IH in H).
      destruct rest; [|discriminate].
      destruct a as [|c' a']; cbn [app].
      * rewrite N.eqb_refl. eexists _, []. split; reflexivity.
      * destruct (c' =? slash); [|discriminate]. eexists _, []. split; reflexivity.
    + rewrite run_len_snoc.
      destruct (run_len a) as [|k] eqn:Ek; [discriminate|]. rewrite <- Ek in *.
      pose proof (run_len_le a) as Hle.
      rewrite skipn_snoc, firstn_snoc by exact Hle.
      destruct (spre ts (skipn (run_len a) a)) as [[b0 r0]|] eqn:E; [|discriminate].
      inversion H; subst. apply IH in E. destruct E as (b' & r' & E & Hr).
      rewrite E. eexists _, r'. split; [reflexivity|exact Hr].
    + discriminate.
Qed.

Lemma ends_with_slash_split : forall p, ends_with_slash p = true -> exists a, p = a ++ [slash].
Proof.
  intros p H. unfold ends_with_slash in H.
  destruct (rev p) as [|c l] eqn:E; [discriminate|]. apply N.eqb_eq in H. subst c.
  exists (rev l). rewrite <- (rev_involutive p), E. reflexivity.
Qed.

Lemma ends_with_slash_snoc : forall a, ends_with_slash (a ++ [slash]) = true.
Proof. intros. unfold ends_with_slash. rewrite rev_app_distr. reflexivity. Qed.

Lemma rem_ok_cases : forall r, rem_ok r = true -> r = [] \/ r = [slash].
Proof.
  intros [|c [|d r]] H; cbn [rem_ok] in H; auto; [|discriminate].
  apply N.eqb_eq in H. subst. now right.
Qed.

Lemma flat_match_spre_ne :
  forall ts p, is_some (match strict ts p with
                        | Some b => Some b
                        | None => if ends_with_slash p then strict ts (removelast p) else None
                        end)
               = match spre ts p with Some (_, r) => rem_ok r | None => false end.
Proof.
  intros ts p. unfold strict.
  destruct (spre ts p) as [[b r]|] eqn:E.
  - destruct r as [|c r].
    + reflexivity.
    + destruct (rem_ok (c :: r)) eqn:Er.
      * apply rem_ok_cases in Er. destruct Er as [Er|Er]; [discriminate|]. inversion Er; subst.
        destruct (spre_suffix _ _ _ _ E) as [a ->].
        rewrite ends_with_slash_snoc, removelast_last.
        now rewrite (spre_unsnoc _ _ _ E).
      * destruct (ends_with_slash p) eqn:Ee; [|reflexivity].
        apply ends_with_slash_split in Ee. destruct Ee as [a ->]. rewrite removelast_last.
        destruct (spre ts a) as [[b2 [|? ?]]|] eqn:E2; try reflexivity.
        apply spre_snoc in E2. destruct E2 as (b' & r' & E2 & Hr).
        rewrite E in E2. inversion E2; subst. congruence.
  - destruct (ends_with_slash p) eqn:Ee; [|reflexivity].
    apply ends_with_slash_split in Ee. destruct Ee as [a ->]. rewrite removelast_last.
    destruct (spre ts a) as [[b2 [|? ?]]|] eqn:E2; try reflexivity.
    apply spre_snoc in E2. destruct E2 as (b' & r' & E2 & Hr). congruence.
Qed.

Lemma has_dslash_cons2 : forall a b p,
  has_dslash (a :: b :: p) = ((a =? slash) && (b =? slash)) || has_dslash (b :: p).
Proof. reflexivity. Qed.

Lemma flat_match_spre :
  forall l p, starts_with_slash p = true -> has_dslash p = false ->
    is_some (flat_match l p)
    = match spre (toks l) p with Some (_, r) => rem_ok r | None => false end.
Proof.
  intros l p Hs Hd. unfold flat_match, pattern.
  destruct (toks l) as [|t ts] eqn:Et; [|apply flat_match_spre_ne].
  cbn [spre]. destruct p as [|c p]; [discriminate|].
  cbn [starts_with_slash] in Hs. apply N.eqb_eq in Hs. subst c.
  destruct p as [|d p].
  - reflexivity.
  - unfold strict. cbn [spre]. rewrite N.eqb_refl. cbn [rem_ok].
    destruct (ends_with_slash (slash :: d :: p)) eqn:Ee; [|reflexivity].
    apply ends_with_slash_split in Ee. destruct Ee as [a Ha]. rewrite Ha, removelast_last.
    destruct a as [|a0 [|a1 a]]; try reflexivity.
    + cbn [spre]. destruct (a0 =? slash) eqn:E0; [|reflexivity].
      cbn [app] in Ha. inversion Ha; subst.
      rewrite has_dslash_cons2, N.eqb_refl in Hd. discriminate.
    + cbn [spre]. destruct (a0 =? slash); reflexivity.
Qed.

(** ---- assembling the theorem (no base) ---- *)
Lemma expand_no_opt : forall f, existsb is_popt f = false -> expand_optionals f = [f].
Proof.
  induction f as [|x f IH]; [reflexivity|]. cbn [existsb]. intros H.
  apply orb_false_iff in H. destruct H as [Hx Hf].
  destruct x; cbn [expand_optionals]; try (rewrite (IH Hf); reflexivity). discriminate.
Qed.

Definition good (p : bytes) (L : list seg) : bool :=
  match seqT (map seg_test L) p with TSome _ r _ => rem_ok r | _ => false end.

Definition is_yes (o : outcome) : bool := match o with OYes _ _ => true | _ => false end.

Lemma first_chain_existsb :
  forall p Ls, Forall (fun L => seqT (map seg_test L) p <> TPanic) Ls ->
    first_chain Ls p <> OPanic /\ is_yes (first_chain Ls p) = existsb (good p) Ls.
Proof.
  intros p. induction 1 as [|L Ls HL HLs IH]; cbn [first_chain existsb]; [split; [discriminate|reflexivity]|].
  destruct IH as [IH1 IH2]. unfold good at 1.
  destruct (seqT (map seg_test L) p) as [| |m r ps]; cbn [orb].
  - split; assumption.
  - now elim HL.
  - destruct (rem_ok r); cbn [orb is_yes]; split; auto; discriminate.
Qed.

Lemma existsb_ext_in : forall (A : Type) (f g : A -> bool) l,
  (forall x, In x l -> f x = g x) -> existsb f l = existsb g l.
Proof.
  induction l as [|x l IH]; intros H; [reflexivity|]. cbn [existsb].
  rewrite (H x (or_introl eq_refl)), IH; [reflexivity|]. intros y Hy. apply H. now right.
Qed.

Lemma existsb_map : forall (A B : Type) (f : B -> bool) (g : A -> B) l,
  existsb f (map g l) = existsb (fun x => f (g x)) l.
Proof. induction l as [|x l IH]; [reflexivity|]. cbn [map existsb]. now rewrite IH. Qed.

Lemma chains_leaves : forall rs L, In L (chains rs) -> Forall (fun x => is_leaf x = true) L.
Proof.
  intros rs L HL. apply in_flat_map in HL. destruct HL as (r & _ & HL).
  pose proof (chain_route_leaves r) as H. rewrite Forall_forall in H. now apply H.
Qed.

Lemma existsb_false_in : forall (A : Type) (f : A -> bool) l x,
  existsb f l = false -> In x l -> f x = false.
Proof.
  intros A f l x H Hx. apply existsb_false_forall in H. rewrite Forall_forall in H. now apply H.
Qed.

Theorem match_iff_flat_nobase :
  forall rs p,
    wf_tree rs = true -> wf_routes rs = true -> starts_with_slash p = true ->
    known_class_coarse None rs p = false ->
    matches None rs p = flat_any None rs p /\ match_route None rs p <> MPanic.
Proof.
  intros rs p Hwt Hwf Hsl Hk.
  unfold known_class_coarse in Hk.
  apply orb_false_iff in Hk. destruct Hk as [Hk Hds].
  apply orb_false_iff in Hk. destruct Hk as [Hk Hopt].
  apply orb_false_iff in Hk. destruct Hk as [Hkb Hss].
  unfold k_boundary in Hkb. unfold k_slash_static in Hss. rewrite orb_false_r in Hss.
  unfold k_optional_any in Hopt. unfold k_dslash in Hds.
  change (fun x : pseg => match x with POpt _ => true | _ => false end) with is_popt in Hopt.
  (* the tree has no optional segment *)
  assert (Hplain : forallb plain_route rs = true).
  { unfold gen_routes in Hopt. apply existsb_flat_map_false in Hopt.
    unfold wf_tree in Hwt. clear -Hopt Hwt.
    induction rs as [|r rs IH]; [reflexivity|]. cbn [forallb] in *.
    apply andb_prop in Hwt. destruct Hwt as [Hr Hrs]. inversion Hopt; subst.
    rewrite plain_from_flat, IH; auto. }
  pose proof (siblings_chains rs Hplain 0%nat p) as Hsib.
  (* every chain is tame and consumes the path like its pattern *)
  assert (Hchain : forall L, In L (chains rs) ->
            tproj (seqT (map seg_test L) p) = Some (spre (toks (flat_map gen_path L)) p)).
  { intros L HL.
    assert (Hin : In (flat_map gen_path L) (gen_routes rs))
      by (rewrite gen_routes_chains; now apply in_map).
    apply (chain_spre (cores_of None rs)).
    - apply tame_from_flat.
      + eapply chains_leaves; eauto.
      + eapply existsb_false_in; eauto.
      + unfold wf_routes in Hwf. rewrite forallb_forall in Hwf. now apply Hwf.
      + eapply existsb_false_in; eauto.
    - now apply cores_from_flat.
    - split; [|exact Hkb]. destruct p; [discriminate|exact Hsl]. }
  assert (Hnp : Forall (fun L => seqT (map seg_test L) p <> TPanic) (chains rs)).
  { apply Forall_forall. intros L HL Hc. specialize (Hchain L HL). rewrite Hc in Hchain. discriminate. }
  destruct (first_chain_existsb p _ Hnp) as [Hnopanic Hyes].
  (* the table side *)
  assert (Hflat : flat_any None rs p = existsb (good p) (chains rs)).
  { unfold flat_any, table. rewrite gen_routes_chains, existsb_map.
    apply existsb_ext_in. intros L HL.
    assert (Hin : In (flat_map gen_path L) (gen_routes rs))
      by (rewrite gen_routes_chains; now apply in_map).
    unfold route_matches_flat.
    rewrite (expand_no_opt _ (existsb_false_in _ _ _ _ Hopt Hin)).
    cbn [existsb]. rewrite orb_false_r.
    rewrite (flat_match_spre _ _ Hsl Hds).
    specialize (Hchain L HL). unfold good.
    destruct (seqT (map seg_test L) p) as [| |m r ps]; cbn [tproj] in Hchain.
    - injection Hchain as <-. reflexivity.
    - discriminate.
    - injection Hchain as <-. reflexivity. }
  rewrite Hflat, <- Hyes.
  unfold matches, match_route, strip_base.
  destruct (match_siblings rs 0 p) as [| |ch ps rem] eqn:Em; cbn [oproj] in Hsib.
  - now elim Hnopanic.
  - rewrite <- Hsib. split; [reflexivity|discriminate].
  - rewrite <- Hsib. cbn [is_yes].
    assert (rem_ok rem = true) as -> by (eapply first_chain_rem_ok; rewrite <- Hsib; reflexivity).
    split; [reflexivity|discriminate].
Qed.

(** the hypotheses are satisfiable by a non-trivial table and path (upstream's own test
    table, /blog/post/42), and both sides are [true] there *)
Example match_iff_flat_nontrivial :
  let rs := [Route (SStatic []) (Some [Route (SStatic []) None; Route (SStatic [97;98;111;117;116]) None]);
             Route (SStatic [47;98;108;111;103])
                   (Some [Route (SStatic []) None;
                          Route (STuple [SStatic [112;111;115;116]; SParam [105;100]]) None])] in
  let p := [47;98;108;111;103;47;112;111;115;116;47;52;50] in
  wf_tree rs = true /\ wf_routes rs = true /\ starts_with_slash p = true
  /\ known_class_coarse None rs p = false /\ matches None rs p = true /\ flat_any None rs p = true.
Proof. vm_compute. repeat split; reflexivity. Qed.

(** ================================================================================
    Refutations of the unrestricted statements (faithful model, vm_compute witnesses)
    ================================================================================ *)
(* /foox against (StaticSegment "foo", StaticSegment "x") *)
Theorem match_iff_flat_refuted_boundary :
  exists rs p, wf_tree rs = true /\ wf_routes rs = true /\ starts_with_slash p = true
               /\ matches None rs p = true /\ flat_any None rs p = false.
Proof.
  exists [Route (STuple [SStatic [102;111;111]; SStatic [120]]) None], [47;102;111;111;120].
  vm_compute. repeat split; reflexivity.
Qed.

(* /about against StaticSegment "/" { StaticSegment "", StaticSegment "about" } (table: //about) *)
Theorem match_iff_flat_refuted_slash_static :
  exists rs p, wf_tree rs = true /\ wf_routes rs = true /\ starts_with_slash p = true
               /\ matches None rs p = true /\ flat_any None rs p = false.
Proof.
  exists [Route (SStatic [47]) (Some [Route (SStatic []) None;
                                      Route (SStatic [97;98;111;117;116]) None])],
         [47;97;98;111;117;116].
  vm_compute. repeat split; reflexivity.
Qed.

(* /a/b against (:x?, "a", :y?): table has /a/{y}, the router does not match *)
Theorem match_iff_flat_refuted_optional :
  exists rs p, wf_tree rs = true /\ wf_routes rs = true /\ starts_with_slash p = true
               /\ matches None rs p = false /\ flat_any None rs p = true.
Proof.
  exists [Route (STuple [SOpt [120]; SStatic [97]; SOpt [121]]) None], [47;97;47;98].
  vm_compute. repeat split; reflexivity.
Qed.

(* // against StaticSegment "" : table entry "/" plus the tolerated trailing slash *)
Theorem match_iff_flat_refuted_dslash :
  exists rs p, wf_tree rs = true /\ wf_routes rs = true /\ starts_with_slash p = true
               /\ matches None rs p = false /\ flat_any None rs p = true.
Proof.
  exists [Route (SStatic []) None], [47;47].
  vm_compute. repeat split; reflexivity.
Qed.

Theorem match_iff_flat_refuted :
  exists base rs p, wf_tree rs = true /\ wf_routes rs = true /\ starts_with_slash p = true
                    /\ matches base rs p <> flat_any base rs p.
Proof.
  exists None. destruct match_iff_flat_refuted_boundary as (rs & p & H1 & H2 & H3 & H4 & H5).
  exists rs, p. repeat split; auto. rewrite H4, H5. discriminate.
Qed.

(* /xéa against (StaticSegment "x", ParamSegment "p"): str::split_at panics *)
Theorem match_route_total_refuted :
  exists rs p, wf_tree rs = true /\ wf_routes rs = true /\ starts_with_slash p = true
               /\ match_route None rs p = MPanic.
Proof.
  exists [Route (STuple [SStatic [120]; SParam [112]]) None], [47;120;195;169;97].
  vm_compute. repeat split; reflexivity.
Qed.

(** ================================================================================
    The matched parts of a nested match and the remainder partition the path —
    unless an optional parent fell back (then its matched text is stale)
    ================================================================================ *)
Fixpoint no_opt_parent (r : route) : bool :=
  match r with
  | Route _ None => true
  | Route s (Some ks) => negb (seg_optional s) && forallb no_opt_parent ks
  end.
Definition k_optional_parent (rs : list route) : bool := negb (forallb no_opt_parent rs).

Definition chain_text (ch : list (nat * bytes)) : bytes := concat (map snd ch).

Lemma forest_partition :
  forall ks,
    Forall (fun r => no_opt_parent r = true ->
              forall id p ch ps rem, match_nested r id p = NYes ch ps rem ->
                                     chain_text ch ++ rem = p) ks ->
    forallb no_opt_parent ks = true ->
    forall id p ch ps rem, first_match match_nested ks id p = NYes ch ps rem ->
                           chain_text ch ++ rem = p.
Proof.
  induction 1 as [|k ks Hk Hks IH]; intros Hp id p ch ps rem H; cbn [first_match] in H.
  - discriminate.
  - cbn [forallb] in Hp. apply andb_prop in Hp. destruct Hp as [Hpk Hpks].
    destruct (match_nested k id p) eqn:E; try discriminate.
    + eapply IH; eauto.
    + inversion H; subst. eapply Hk; eauto.
Qed.

Theorem nested_partition :
  forall r, no_opt_parent r = true ->
  forall id p ch ps rem, match_nested r id p = NYes ch ps rem -> chain_text ch ++ rem = p.
Proof.
  induction r using route_ind'; intros Hp id p ch ps rem Hm;
    cbn [match_nested] in Hm; unfold nested_step in Hm.
  - destruct (seg_test s p) as [| |m r1 ps1] eqn:E; try discriminate.
    unfold nested_finish in Hm. destruct (rem_ok r1); [|discriminate].
    inversion Hm; subst. unfold chain_text. cbn [map snd concat].
    rewrite app_nil_r. eapply seg_test_partition; eauto.
  - cbn [no_opt_parent] in Hp. apply andb_prop in Hp. destruct Hp as [Hs Hks].
    apply negb_true_iff in Hs.
    destruct (seg_test s p) as [| |m r1 ps1] eqn:E; try discriminate.
    destruct (first_match match_nested ks (S id) r1) as [| |ch1 ips rem1] eqn:E1; try discriminate.
    + rewrite Hs in Hm. discriminate.
    + unfold nested_finish in Hm. destruct (rem_ok rem1); [|discriminate].
      inversion Hm; subst. unfold chain_text. cbn [map snd concat].
      rewrite <- app_assoc.
      pose proof (forest_partition ks H Hks _ _ _ _ _ E1) as Hc. unfold chain_text in Hc.
      rewrite Hc. eapply seg_test_partition; eauto.
Qed.

Theorem siblings_partition_except_known :
  forall rs, k_optional_parent rs = false ->
  forall id p ch ps rem, match_siblings rs id p = NYes ch ps rem -> chain_text ch ++ rem = p.
Proof.
  intros rs Hk. unfold k_optional_parent in Hk. apply negb_false_iff in Hk.
  intros id p ch ps rem. unfold match_siblings. apply forest_partition; [|exact Hk].
  apply Forall_forall. intros r _ Hr. now apply nested_partition.
Qed.

(* /b against :x? { "b" }: the parent keeps matched = "/b" after the fallback *)
Theorem siblings_partition_refuted :
  exists rs p ch ps rem, match_siblings rs 0 p = NYes ch ps rem /\ chain_text ch ++ rem <> p.
Proof.
  exists [Route (SOpt [120]) (Some [Route (SStatic [98]) None])], [47;98].
  eexists _, _, _. split; [vm_compute; reflexivity|]. vm_compute. discriminate.
Qed.

Example siblings_partition_nontrivial :
  match_siblings [Route (SStatic [47;98]) (Some [Route (STuple [SStatic [112]; SParam [105]]) None])]
                 0 [47;98;47;112;47;52;47]
  = NYes [(0%nat, [47;98]); (1%nat, [47;112;47;52])] [([105],[52])] [47].
Proof. vm_compute. reflexivity. Qed.

(** ================================================================================
    Each parameter value is the corresponding path segment: the returned parameters are
    exactly the bindings of the table pattern of the matched flat route
    ================================================================================ *)
Lemma first_chain_yes : forall Ls p ps rem,
  first_chain Ls p = OYes ps rem ->
  exists L m, In L Ls /\ seqT (map seg_test L) p = TSome m rem ps.
Proof.
  induction Ls as [|L Ls IH]; intros p ps rem H; cbn [first_chain] in H; [discriminate|].
  destruct (seqT (map seg_test L) p) as [| |m r ps1] eqn:E; try discriminate.
  - apply IH in H. destruct H as (L0 & m & HL & Hm). exists L0, m. split; [now right|exact Hm].
  - destruct (rem_ok r).
    + inversion H; subst. exists L, m. split; [now left|exact E].
    + apply IH in H. destruct H as (L0 & m0 & HL & Hm). exists L0, m0. split; [now right|exact Hm].
Qed.

Theorem params_are_segments :
  forall rs p ch ps,
    wf_tree rs = true -> wf_routes rs = true -> starts_with_slash p = true ->
    known_class_coarse None rs p = false ->
    match_route None rs p = MYes ch ps ->
    exists f r, In f (gen_routes rs) /\ spre (toks f) p = Some (ps, r) /\ rem_ok r = true.
Proof.
  intros rs p ch ps Hwt Hwf Hsl Hk Hm.
  unfold known_class_coarse in Hk.
  apply orb_false_iff in Hk. destruct Hk as [Hk Hds].
  apply orb_false_iff in Hk. destruct Hk as [Hk Hopt].
  apply orb_false_iff in Hk. destruct Hk as [Hkb Hss].
  unfold k_boundary in Hkb. unfold k_slash_static in Hss. rewrite orb_false_r in Hss.
  unfold k_optional_any in Hopt.
  change (fun x : pseg => match x with POpt _ => true | _ => false end) with is_popt in Hopt.
  assert (Hplain : forallb plain_route rs = true).
  { unfold gen_routes in Hopt. apply existsb_flat_map_false in Hopt.
    unfold wf_tree in Hwt. clear -Hopt Hwt.
    induction rs as [|r rs IH]; [reflexivity|]. cbn [forallb] in *.
    apply andb_prop in Hwt. destruct Hwt as [Hr Hrs]. inversion Hopt; subst.
    rewrite plain_from_flat, IH; auto. }
  pose proof (siblings_chains rs Hplain 0%nat p) as Hsib.
  unfold match_route, strip_base in Hm.
  destruct (match_siblings rs 0 p) as [| |ch1 ps1 rem] eqn:Em; try discriminate.
  destruct (rem_ok rem) eqn:Er; [|discriminate]. inversion Hm; subst.
  cbn [oproj] in Hsib. symmetry in Hsib. apply first_chain_yes in Hsib.
  destruct Hsib as (L & m & HL & HS).
  assert (Hin : In (flat_map gen_path L) (gen_routes rs))
    by (rewrite gen_routes_chains; now apply in_map).
  exists (flat_map gen_path L), rem. split; [exact Hin|]. split; [|exact Er].
  assert (Hc : tproj (seqT (map seg_test L) p) = Some (spre (toks (flat_map gen_path L)) p)).
  { apply (chain_spre (cores_of None rs)).
    - apply tame_from_flat.
      + eapply chains_leaves; eauto.
      + eapply existsb_false_in; eauto.
      + unfold wf_routes in Hwf. rewrite forallb_forall in Hwf. now apply Hwf.
      + eapply existsb_false_in; eauto.
    - now apply cores_from_flat.
    - split; [|exact Hkb]. destruct p; [discriminate|exact Hsl]. }
  rewrite HS in Hc. cbn [tproj] in Hc. now injection Hc as <-.
Qed.

(** a value bound by a [{param}] of the pattern is a non-empty run without '/' *)
Definition is_wild_tok (t : tok) : bool := match t with TWild _ => true | _ => false end.

Lemma firstn_run_no_slash : forall p, has_slash (firstn (run_len p) p) = false.
Proof.
  induction p as [|c p IH]; [reflexivity|]. cbn [run_len].
  destruct (c =? slash) eqn:E; [reflexivity|].
  cbn [firstn has_slash existsb]. rewrite E. exact IH.
Qed.

Theorem pattern_param_values :
  forall ts p b r, existsb is_wild_tok ts = false -> spre ts p = Some (b, r) ->
    Forall (fun kv => snd kv <> [] /\ has_slash (snd kv) = false) b.
Proof.
  induction ts as [|t ts IH]; intros p b r Hw H.
  - inversion H; subst. constructor.
  - cbn [existsb] in Hw. apply orb_false_iff in Hw. destruct Hw as [Ht Hw].
    destruct t as [c|n|n]; cbn [spre] in H; [| |discriminate].
    + destruct (if c =? slash then ts else []) as [|[c2|n2|n2] rest] eqn:E;
        try (destruct p as [|c' p']; [discriminate|]; destruct (c' =? c); [|discriminate];
             eapply IH; eauto).
      destruct (c =? slash); [|discriminate]. subst ts. cbn in Hw. discriminate.
    + destruct (run_len p) as [|k] eqn:Ek; [discriminate|]. rewrite <- Ek in H.
      destruct (spre ts (skipn (run_len p) p)) as [[b0 r0]|] eqn:E0; [|discriminate].
      inversion H; subst. constructor.
      * cbn [snd]. split; [|apply firstn_run_no_slash].
        rewrite Ek. destruct p; [discriminate|]. discriminate.
      * eapply IH; eauto.
Qed.

(** ================================================================================
    build_then_match: the path built from a flat route's segments (the way the table
    entry is built) with given parameter values matches that route and returns them
    ================================================================================ *)
Fixpoint build (f : list pseg) (vals : list bytes) : bytes :=
  match f with
  | [] => []
  | PStatic s :: t => (if needs_sep s then [slash] else []) ++ s ++ build t vals
  | PParam n :: t | PSplat n :: t =>
      match vals with
      | v :: vs => (if needs_sep n then [slash] else []) ++ v ++ build t vs
      | [] => []
      end
  | _ :: t => build t vals
  end.
Definition build_path (f : list pseg) (vals : list bytes) : bytes :=
  match build f vals with [] => [slash] | p => p end.

Fixpoint bindings (f : list pseg) (vals : list bytes) : params :=
  match f with
  | [] => []
  | PParam n :: t | PSplat n :: t =>
      match vals with v :: vs => (n, v) :: bindings t vs | [] => [] end
  | _ :: t => bindings t vals
  end.

(** one value per param/splat; a param value is non-empty and free of '/' *)
Fixpoint vals_ok (f : list pseg) (vals : list bytes) : Prop :=
  match f with
  | [] => vals = []
  | PParam _ :: t =>
      match vals with v :: vs => v <> [] /\ has_slash v = false /\ vals_ok t vs | [] => False end
  | PSplat _ :: t => match vals with _ :: vs => vals_ok t vs | [] => False end
  | _ :: t => vals_ok t vals
  end.

Lemma trivial_flat_nil : forall f vals, forallb trivial_pseg f = true ->
  toks f = [] /\ build f vals = [] /\ bindings f vals = [].
Proof.
  induction f as [|x f IH]; intros vals H; [repeat split|].
  cbn [forallb] in H. apply andb_prop in H. destruct H as [Hx Hf].
  destruct (IH vals Hf) as (I1 & I2 & I3).
  destruct x as [[|? ?]| | | |]; try discriminate; unfold toks in *; cbn; auto.
Qed.

Lemma run_len_app_boundary : forall v r, has_slash v = false -> at_boundary r = true ->
  run_len (v ++ r) = length v.
Proof.
  induction v as [|c v IH]; intros r Hv Hr; cbn [app run_len length].
  - destruct r as [|d r]; [reflexivity|]. cbn [at_boundary] in Hr. cbn [run_len]. now rewrite Hr.
  - cbn [has_slash existsb] in Hv. apply orb_false_iff in Hv. destruct Hv as [Hc Hv].
    rewrite Hc. f_equal. now apply IH.
Qed.

Lemma is_prefix_app : forall s r, is_prefix s (s ++ r) = true.
Proof. intros. unfold is_prefix. rewrite firstn_app_len. now apply bytes_eqb_eq. Qed.

Lemma usable_static_split : forall t, usable_core (static_core t) = true ->
  (if needs_sep t then [slash] else []) ++ t = slash :: static_core t.
Proof.
  intros t H. apply usable_core_ne in H. destruct H as [Hne _].
  destruct t as [|c t]; [now cbn in Hne|]. unfold needs_sep, static_core.
  destruct (c =? slash) eqn:E; cbn [negb app]; [|reflexivity].
  apply N.eqb_eq in E. now subst.
Qed.

Lemma build_spre :
  forall f vals,
    existsb is_popt f = false -> wf_flat f = true -> slash_static_flat f = false ->
    vals_ok f vals ->
    at_boundary (build f vals) = true
    /\ spre (toks f) (build f vals) = Some (bindings f vals, []).
Proof.
  induction f as [|x f IH]; intros vals Ho Hw Hs Hv; [split; reflexivity|].
  cbn [existsb] in Ho. apply orb_false_iff in Ho. destruct Ho as [Hx Ho].
  change (toks (x :: f)) with (seg_toks x ++ toks f).
  destruct x as [t|n|n|n|]; cbn [is_popt] in Hx; try discriminate.
  - (* static *)
    cbn [wf_flat] in Hw. cbn [slash_static_flat] in Hs. cbn [vals_ok] in Hv.
    apply orb_false_iff in Hs. destruct Hs as [Hs Hrest].
    apply orb_false_iff in Hs. destruct Hs as [Htl Hsl].
    cbn [build bindings seg_toks].
    destruct (bytes_eqb t [slash]) eqn:Et.
    + apply bytes_eqb_eq in Et. subst t. cbn [andb] in Hsl. apply negb_false_iff in Hsl.
      destruct (trivial_flat_nil f vals Hsl) as (T1 & T2 & T3). rewrite T1, T2, T3.
      change (sep [slash]) with (@nil tok).
      split; [reflexivity|]. cbn. reflexivity.
    + destruct (IH vals Ho Hw Hrest Hv) as [IHb IHs].
      destruct t as [|c t0].
      * cbn [needs_sep app map sep]. split; assumption.
      * assert (Hu : usable_core (static_core (c :: t0)) = true).
        { cbn [static_core tl] in *. destruct (c =? slash) eqn:Ec.
          - destruct t0 as [|c2 t0].
            + apply N.eqb_eq in Ec. subst c. cbn in Et. discriminate.
            + unfold usable_core. now rewrite Htl.
          - unfold usable_core, has_slash. cbn [existsb]. rewrite Ec. cbn [orb].
            fold (has_slash t0). now rewrite Htl. }
        pose proof (usable_core_ne _ Hu) as [Hne Hns].
        rewrite app_assoc, (usable_static_split _ Hu).
        change (sep (c :: t0) ++ map TChr (c :: t0)) with (seg_toks (PStatic (c :: t0))).
        rewrite (static_toks_tame _ Hu).
        split; [cbn [app at_boundary]; apply N.eqb_refl|].
        change ((TChr slash :: map TChr (static_core (c :: t0))) ++ toks f)
          with (TChr slash :: map TChr (static_core (c :: t0)) ++ toks f).
        change ((slash :: static_core (c :: t0)) ++ build f vals)
          with (slash :: static_core (c :: t0) ++ build f vals).
        rewrite (spre_slash_lit _ _ _ Hne Hns), is_prefix_app, skipn_app_len. exact IHs.
  - (* param *)
    cbn [wf_flat] in Hw. apply andb_prop in Hw. destruct Hw as [Hn Hw].
    cbn [slash_static_flat] in Hs. cbn [vals_ok] in Hv.
    destruct vals as [|v vs]; [now elim Hv|]. destruct Hv as (Hvne & Hvs & Hv).
    destruct (IH vs Ho Hw Hs Hv) as [IHb IHs].
    cbn [build bindings seg_toks]. rewrite (name_ok_sep _ Hn).
    unfold name_ok in Hn. rewrite Hn. cbn [app].
    split; [cbn [at_boundary]; apply N.eqb_refl|].
    cbn [spre]. rewrite !N.eqb_refl.
    rewrite (run_len_app_boundary _ _ Hvs IHb).
    destruct v as [|v0 v]; [now elim Hvne|]. cbn [length].
    change (S (length v)) with (length (v0 :: v)).
    rewrite skipn_app_len, firstn_app_len, IHs. reflexivity.
  - (* splat, last *)
    cbn [wf_flat] in Hw. apply andb_prop in Hw. destruct Hw as [Hn Hw].
    destruct f; [|discriminate]. cbn [vals_ok] in Hv.
    destruct vals as [|v vs]; [now elim Hv|]. subst vs.
    cbn [build bindings seg_toks]. rewrite (name_ok_sep _ Hn).
    unfold name_ok in Hn. rewrite Hn. cbn [app]. rewrite app_nil_r.
    split; [cbn [at_boundary]; apply N.eqb_refl|].
    unfold toks. cbn [flat_map app spre]. rewrite !N.eqb_refl. reflexivity.
  - (* unit *)
    cbn [wf_flat] in Hw. cbn [slash_static_flat] in Hs. cbn [vals_ok] in Hv.
    cbn [build bindings seg_toks app]. now apply IH.
Qed.

Lemma build_nil_toks :
  forall f vals, existsb is_popt f = false -> wf_flat f = true -> vals_ok f vals ->
    build f vals = [] -> toks f = [].
Proof.
  induction f as [|x f IH]; intros vals Ho Hw Hv Eb; [reflexivity|].
  cbn [existsb] in Ho. apply orb_false_iff in Ho. destruct Ho as [Hx Ho].
  change (toks (x :: f)) with (seg_toks x ++ toks f).
  destruct x as [t|n|n|n|]; cbn [is_popt] in Hx; try discriminate.
  - cbn [build wf_flat vals_ok] in *. destruct t as [|c0 t0].
    + cbn [needs_sep app] in Eb. cbn [seg_toks sep needs_sep map app]. eapply IH; eauto.
    + destruct (needs_sep (c0 :: t0)); cbn [app] in Eb; discriminate.
  - cbn [wf_flat] in Hw. apply andb_prop in Hw. destruct Hw as [Hn _].
    cbn [vals_ok build] in *. destruct vals as [|v vs]; [now elim Hv|].
    unfold name_ok in Hn. rewrite Hn in Eb. cbn [app] in Eb. discriminate.
  - cbn [wf_flat] in Hw. apply andb_prop in Hw. destruct Hw as [Hn _].
    cbn [vals_ok build] in *. destruct vals as [|v vs]; [now elim Hv|].
    unfold name_ok in Hn. rewrite Hn in Eb. cbn [app] in Eb. discriminate.
  - cbn [build wf_flat vals_ok seg_toks app] in *. eapply IH; eauto.
Qed.

Theorem build_then_match :
  forall rs f vals p,
    wf_tree rs = true -> wf_routes rs = true ->
    gen_routes rs = [f] ->                (* a table with one flat route *)
    vals_ok f vals -> p = build_path f vals ->
    known_class_coarse None rs p = false ->
    exists ch, match_route None rs p = MYes ch (bindings f vals).
Proof.
  intros rs f vals p Hwt Hwf Hgen Hv Hp Hk.
  unfold known_class_coarse in Hk.
  apply orb_false_iff in Hk. destruct Hk as [Hk Hds].
  apply orb_false_iff in Hk. destruct Hk as [Hk Hopt].
  apply orb_false_iff in Hk. destruct Hk as [Hkb Hss].
  unfold k_boundary in Hkb. unfold k_slash_static in Hss. rewrite orb_false_r in Hss.
  unfold k_optional_any in Hopt.
  change (fun x : pseg => match x with POpt _ => true | _ => false end) with is_popt in Hopt.
  assert (Hplain : forallb plain_route rs = true).
  { unfold gen_routes in Hopt. apply existsb_flat_map_false in Hopt.
    unfold wf_tree in Hwt. clear -Hopt Hwt.
    induction rs as [|r rs IH]; [reflexivity|]. cbn [forallb] in *.
    apply andb_prop in Hwt. destruct Hwt as [Hr Hrs]. inversion Hopt; subst.
    rewrite plain_from_flat, IH; auto. }
  pose proof (siblings_chains rs Hplain 0%nat p) as Hsib.
  (* the single chain *)
  pose proof (gen_routes_chains rs) as Hgc. rewrite Hgen in Hgc.
  destruct (chains rs) as [|L [|L2 Ls]] eqn:Ech; try discriminate.
  cbn [map] in Hgc. injection Hgc as Hf.
  assert (HinL : In L (chains rs)) by (rewrite Ech; now left).
  assert (Hin : In f (gen_routes rs)) by (rewrite Hgen; now left).
  assert (Hfo : existsb is_popt f = false) by (eapply existsb_false_in; eauto).
  assert (Hfw : wf_flat f = true)
    by (unfold wf_routes in Hwf; rewrite forallb_forall in Hwf; now apply Hwf).
  assert (Hfs : slash_static_flat f = false) by (eapply existsb_false_in; eauto).
  destruct (build_spre f vals Hfo Hfw Hfs Hv) as [Hbb Hbs].
  (* the path starts with '/' *)
  assert (Hsl : starts_with_slash p = true).
  { subst p. unfold build_path. destruct (build f vals) as [|c q]; [reflexivity|exact Hbb]. }
  assert (Hc : tproj (seqT (map seg_test L) p) = Some (spre (toks (flat_map gen_path L)) p)).
  { apply (chain_spre (cores_of None rs)).
    - apply tame_from_flat.
      + eapply chains_leaves; eauto.
      + now rewrite <- Hf.
      + now rewrite <- Hf.
      + now rewrite <- Hf.
    - now apply cores_from_flat.
    - split; [|exact Hkb]. destruct p; [discriminate|exact Hsl]. }
  rewrite <- Hf in Hc.
  (* what the pattern binds on the built path *)
  assert (Hsp : exists r, spre (toks f) p = Some (bindings f vals, r) /\ rem_ok r = true).
  { subst p. unfold build_path. destruct (build f vals) as [|c q] eqn:Eb.
    - (* nothing contributed: the path is "/" *)
      rewrite (build_nil_toks f vals Hfo Hfw Hv Eb) in *.
      cbn [spre] in Hbs. injection Hbs as Hbn. rewrite <- Hbn.
      exists [slash]. split; reflexivity.
    - exists []. split; [exact Hbs|reflexivity]. }
  destruct Hsp as (r & Hsp & Hr).
  rewrite Hsp in Hc.
  unfold match_route, strip_base.
  cbn [first_chain] in Hsib.
  destruct (seqT (map seg_test L) p) as [| |m r1 ps1]; cbn [tproj] in Hc; try discriminate.
  injection Hc as Hps Hr1. subst ps1 r1. rewrite Hr in Hsib.
  destruct (match_siblings rs 0 p) as [| |ch ps rem]; cbn [oproj] in Hsib; try discriminate.
  injection Hsib as Hps Hrem. subst ps rem. rewrite Hr. now exists ch.
Qed.

Example build_then_match_nontrivial :
  let rs := [Route (SStatic [47;98]) (Some [Route (STuple [SStatic [112]; SParam [105;100]]) None])] in
  let f := [PStatic [47;98]; PStatic [112]; PParam [105;100]] in
  gen_routes rs = [f] /\ vals_ok f [[52;50]] /\ build_path f [[52;50]] = [47;98;47;112;47;52;50]
  /\ known_class_coarse None rs (build_path f [[52;50]]) = false
  /\ match_route None rs (build_path f [[52;50]])
     = MYes [(0%nat, [47;98]); (1%nat, [47;112;47;52;50])] [([105;100], [52;50])].
Proof.
  vm_compute. repeat split; try reflexivity; discriminate.
Qed.

(* StaticSegment "a/b" does not match the path built from its own table entry /a/b (F-C14-b) *)
Theorem build_then_match_refuted :
  exists rs f vals,
    wf_tree rs = true /\ wf_routes rs = true /\ gen_routes rs = [f] /\ vals_ok f vals
    /\ match_route None rs (build_path f vals) = MNo.
Proof.
  exists [Route (SStatic [97;47;98]) None], [PStatic [97;47;98]], [].
  vm_compute. repeat split; reflexivity.
Qed.

(** ================================================================================
    The same theorem with a base path (RouteDefs::new_with_base)
    ================================================================================ *)
Definition flat_good (q : bytes) (f : list pseg) : bool :=
  match spre (toks f) q with Some (_, r) => rem_ok r | None => false end.

(** the core of the argument, from any path at a component boundary *)
Lemma core_match :
  forall base rs q,
    wf_tree rs = true -> wf_routes rs = true ->
    existsb slash_static_flat (gen_routes rs) = false -> k_optional_any rs = false ->
    at_boundary q = true -> kb (cores_of base rs) q = false ->
    match_siblings rs 0 q <> NPanic
    /\ is_yes (oproj (match_siblings rs 0 q)) = existsb (flat_good q) (gen_routes rs).
Proof.
  intros base rs q Hwt Hwf Hss Hopt Hb Hkb.
  unfold k_optional_any in Hopt.
  change (fun x : pseg => match x with POpt _ => true | _ => false end) with is_popt in Hopt.
  assert (Hplain : forallb plain_route rs = true).
  { unfold gen_routes in Hopt. apply existsb_flat_map_false in Hopt.
    unfold wf_tree in Hwt. clear -Hopt Hwt.
    induction rs as [|r rs IH]; [reflexivity|]. cbn [forallb] in *.
    apply andb_prop in Hwt. destruct Hwt as [Hr Hrs]. inversion Hopt; subst.
    rewrite plain_from_flat, IH; auto. }
  pose proof (siblings_chains rs Hplain 0%nat q) as Hsib.
  assert (Hchain : forall L, In L (chains rs) ->
            tproj (seqT (map seg_test L) q) = Some (spre (toks (flat_map gen_path L)) q)).
  { intros L HL.
    assert (Hin : In (flat_map gen_path L) (gen_routes rs))
      by (rewrite gen_routes_chains; now apply in_map).
    apply (chain_spre (cores_of base rs)).
    - apply tame_from_flat.
      + eapply chains_leaves; eauto.
      + eapply existsb_false_in; eauto.
      + unfold wf_routes in Hwf. rewrite forallb_forall in Hwf. now apply Hwf.
      + eapply existsb_false_in; eauto.
    - now apply cores_from_flat.
    - split; assumption. }
  assert (Hnp : Forall (fun L => seqT (map seg_test L) q <> TPanic) (chains rs)).
  { apply Forall_forall. intros L HL Hc. specialize (Hchain L HL). rewrite Hc in Hchain. discriminate. }
  destruct (first_chain_existsb q _ Hnp) as [Hnopanic Hyes].
  rewrite Hsib. split.
  - intros Hc. rewrite Hc in Hsib. cbn [oproj] in Hsib. now rewrite <- Hsib in Hnopanic.
  - rewrite Hyes, gen_routes_chains, existsb_map. apply existsb_ext_in. intros L HL.
    specialize (Hchain L HL). unfold good, flat_good.
    destruct (seqT (map seg_test L) q) as [| |m r ps]; cbn [tproj] in Hchain.
    + injection Hchain as <-. reflexivity.
    + discriminate.
    + injection Hchain as <-. reflexivity.
Qed.

Lemma ends_with_slash_cons : forall c w,
  ends_with_slash (c :: w) = match w with [] => c =? slash | _ => ends_with_slash w end.
Proof.
  intros c w. unfold ends_with_slash. cbn [rev].
  destruct w as [|d w]; [reflexivity|].
  destruct (rev (d :: w)) as [|e l] eqn:E.
  - apply (f_equal (@length N)) in E. rewrite rev_length in E. discriminate.
  - reflexivity.
Qed.

Lemma spre_lit_gen : forall w T q, ends_with_slash w = false ->
  spre (map TChr w ++ T) q = if is_prefix w q then spre T (skipn (length w) q) else None.
Proof.
  induction w as [|c w IH]; intros T q He; [reflexivity|].
  rewrite ends_with_slash_cons in He.
  assert (Hdef : spre (map TChr (c :: w) ++ T) q =
                 match q with
                 | c' :: p' => if c' =? c then spre (map TChr w ++ T) p' else None
                 | [] => None
                 end).
  { cbn [map app spre]. destruct (c =? slash) eqn:Ec; [|reflexivity].
    destruct w as [|d w]; [discriminate|]. reflexivity. }
  rewrite Hdef. destruct q as [|c' q]; [reflexivity|].
  rewrite is_prefix_cons. destruct (c' =? c); cbn [andb]; [|reflexivity].
  apply IH. destruct w; [reflexivity|exact He].
Qed.

Lemma last_slash_split : forall l, has_slash l = true ->
  exists l1 l2, l = l1 ++ slash :: l2 /\ has_slash l2 = false.
Proof.
  induction l as [|c l IH]; intros H; [discriminate|].
  destruct (has_slash l) eqn:El.
  - destruct (IH eq_refl) as (l1 & l2 & -> & H2). exists (c :: l1), l2. split; [reflexivity|exact H2].
  - cbn [has_slash existsb] in H. fold (has_slash l) in H. rewrite El, orb_false_r in H.
    apply N.eqb_eq in H. subst c. exists [], l. split; [reflexivity|exact El].
Qed.

Lemma split_noslash : forall l cur, has_slash l = false -> split_comps_aux cur l = [rev cur ++ l].
Proof.
  induction l as [|c l IH]; intros cur H; cbn [split_comps_aux].
  - now rewrite app_nil_r.
  - cbn [has_slash existsb] in H. apply orb_false_iff in H. destruct H as [Hc Hl].
    rewrite Hc, (IH _ Hl). cbn [rev]. now rewrite <- app_assoc.
Qed.

Lemma split_last : forall x cur lc, has_slash lc = false ->
  In lc (split_comps_aux cur (x ++ slash :: lc)).
Proof.
  induction x as [|c x IH]; intros cur lc H; cbn [app split_comps_aux].
  - rewrite N.eqb_refl. right. rewrite (split_noslash _ _ H). now left.
  - destruct (c =? slash); [right|]; now apply IH.
Qed.

Lemma kb_at : forall cores x y, kb cores (x ++ slash :: y) = false ->
  existsb (fun s => bad_at s y) cores = false.
Proof.
  intros cores x y H. apply kb_suffix in H. cbn [kb] in H. rewrite N.eqb_refl in H.
  cbn [andb] in H. now apply orb_false_iff in H.
Qed.

Lemma trim_start_slashes_id : forall s, starts_with_slash s = false -> trim_start_slashes s = s.
Proof. intros [|c s] H; [reflexivity|]. cbn [starts_with_slash] in H. cbn. now rewrite H. Qed.

Lemma strip_prefix_is_prefix : forall s q,
  strip_prefix s q = if is_prefix s q then Some (skipn (length s) q) else None.
Proof. reflexivity. Qed.

Theorem match_iff_flat_base :
  forall b rs p,
    b <> [] ->
    wf_tree rs = true -> wf_routes rs = true -> starts_with_slash p = true ->
    known_class_coarse (Some b) rs p = false ->
    matches (Some b) rs p = flat_any (Some b) rs p /\ match_route (Some b) rs p <> MPanic.
Proof.
  intros b rs p Hbne Hwt Hwf Hsl Hk.
  unfold known_class_coarse in Hk.
  apply orb_false_iff in Hk. destruct Hk as [Hk Hds].
  apply orb_false_iff in Hk. destruct Hk as [Hk Hopt].
  apply orb_false_iff in Hk. destruct Hk as [Hkb Hss].
  unfold k_boundary in Hkb. unfold k_slash_static in Hss.
  apply orb_false_iff in Hss. destruct Hss as [Hss Hbase].
  assert (Hbu : base_untame b = negb (starts_with_slash b) || ends_with_slash b || has_dslash b)
    by (destruct b; [congruence|reflexivity]).
  rewrite Hbu in Hbase. clear Hbu.
  apply orb_false_iff in Hbase. destruct Hbase as [Hbase Hbd].
  apply orb_false_iff in Hbase. destruct Hbase as [Hbs Hbe]. apply negb_false_iff in Hbs.
  unfold k_dslash in Hds.
  (* shape of the base and of the path *)
  destruct b as [|c0 b']; [discriminate|]. cbn [starts_with_slash] in Hbs.
  apply N.eqb_eq in Hbs. subst c0.
  destruct p as [|c0 p1]; [discriminate|]. cbn [starts_with_slash] in Hsl.
  apply N.eqb_eq in Hsl. subst c0.
  assert (Hb'ns : starts_with_slash b' = false).
  { destruct b' as [|d b']; [reflexivity|]. cbn [starts_with_slash].
    rewrite has_dslash_cons2, N.eqb_refl in Hbd. cbn [andb] in Hbd.
    apply orb_false_iff in Hbd. now destruct Hbd. }
  assert (Hp1ns : starts_with_slash p1 = false).
  { destruct p1 as [|d p1]; [reflexivity|]. cbn [starts_with_slash].
    rewrite has_dslash_cons2, N.eqb_refl in Hds. cbn [andb] in Hds.
    apply orb_false_iff in Hds. now destruct Hds. }
  (* the table side: every entry starts with the base, literally *)
  assert (Hopt' := Hopt). unfold k_optional_any in Hopt'.
  change (fun x : pseg => match x with POpt _ => true | _ => false end) with is_popt in Hopt'.
  match goal with |- _ = ?X /\ _ =>
  assert (Hflat : X =
                  if is_prefix b' p1 then existsb (flat_good (skipn (length b') p1)) (gen_routes rs)
                  else false) end.
  { unfold flat_any, table. rewrite existsb_map.
    transitivity (existsb (fun f => if is_prefix b' p1 then flat_good (skipn (length b') p1) f else false)
                          (gen_routes rs)).
    - apply existsb_ext_in. intros f Hin. unfold route_matches_flat.
      assert (Hx : expand_optionals (PStatic (slash :: b') :: f) = [PStatic (slash :: b') :: f]).
      { apply expand_no_opt. cbn [existsb is_popt orb]. eapply existsb_false_in; eauto. }
      rewrite Hx. cbn [existsb]. rewrite orb_false_r.
      rewrite flat_match_spre; [|reflexivity|exact Hds].
      change (toks (PStatic (slash :: b') :: f))
        with (seg_toks (PStatic (slash :: b')) ++ toks f).
      unfold seg_toks, sep, needs_sep. rewrite N.eqb_refl. cbn [negb app].
      rewrite (spre_lit_gen (slash :: b') (toks f) (slash :: p1) Hbe).
      rewrite is_prefix_cons, N.eqb_refl. cbn [andb length skipn].
      destruct (is_prefix b' p1); reflexivity.
    - destruct (is_prefix b' p1); [reflexivity|].
      generalize (gen_routes rs). intros l0. induction l0; [reflexivity|exact IHl0]. }
  rewrite Hflat.
  (* the router side *)
  unfold matches, match_route, strip_base. cbn [starts_with_slash]. rewrite N.eqb_refl.
  cbn [trim_start_slashes]. rewrite N.eqb_refl.
  rewrite (trim_start_slashes_id _ Hb'ns), (trim_start_slashes_id _ Hp1ns), strip_prefix_is_prefix.
  destruct (is_prefix b' p1) eqn:Ep; [|split; [reflexivity|discriminate]].
  set (q := skipn (length b') p1).
  (* q starts at a component boundary *)
  assert (Hpq : slash :: p1 = (slash :: b') ++ q).
  { cbn [app]. f_equal. unfold q. now apply is_prefix_split. }
  destruct (last_slash_split (slash :: b')) as (l1 & l2 & Hl & Hl2).
  { cbn [has_slash existsb]. now rewrite N.eqb_refl. }
  assert (Hl2ne : l2 <> []).
  { intros ->. rewrite Hl in Hbe. rewrite ends_with_slash_snoc in Hbe. discriminate. }
  assert (Hin2 : In l2 (cores_of (Some (slash :: b')) rs)).
  { unfold cores_of. apply filter_In. split.
    - apply in_or_app. right. unfold split_comps. rewrite Hl. now apply split_last.
    - unfold usable_core. destruct l2; [now elim Hl2ne|]. now rewrite Hl2. }
  assert (Hbq : at_boundary q = true).
  { assert (Hkb2 : kb (cores_of (Some (slash :: b')) rs) (l1 ++ slash :: (l2 ++ q)) = false).
    { replace (l1 ++ slash :: l2 ++ q) with (slash :: p1); [exact Hkb|].
      rewrite Hpq, Hl, <- app_assoc. reflexivity. }
    apply kb_at in Hkb2.
    pose proof (existsb_false_in _ _ _ _ Hkb2 Hin2) as Hbad. unfold bad_at in Hbad.
    rewrite is_prefix_app, skipn_app_len in Hbad. cbn [andb] in Hbad.
    destruct q as [|d q']; [reflexivity|]. cbn [at_boundary]. now apply negb_false_iff in Hbad. }
  assert (Hkq : kb (cores_of (Some (slash :: b')) rs) q = false).
  { rewrite Hpq in Hkb. now apply kb_suffix in Hkb. }
  destruct (core_match (Some (slash :: b')) rs q Hwt Hwf Hss Hopt Hbq Hkq) as [Hnp Hyes].
  rewrite <- Hyes.
  destruct (match_siblings rs 0 q) as [| |ch ps rem] eqn:Em; cbn [oproj is_yes].
  - now elim Hnp.
  - split; [reflexivity|discriminate].
  - assert (rem_ok rem = true) as ->.
    { pose proof (siblings_chains rs) as Hs.
      assert (Hplain : forallb plain_route rs = true).
      { unfold gen_routes in Hopt'. apply existsb_flat_map_false in Hopt'.
        unfold wf_tree in Hwt. clear -Hopt' Hwt.
        induction rs as [|r rs IH]; [reflexivity|]. cbn [forallb] in *.
        apply andb_prop in Hwt. destruct Hwt as [Hr Hrs]. inversion Hopt'; subst.
        rewrite plain_from_flat, IH; auto. }
      specialize (Hs Hplain 0%nat q). rewrite Em in Hs. cbn [oproj] in Hs.
      eapply first_chain_rem_ok. symmetry. exact Hs. }
    split; [reflexivity|discriminate].
Qed.

Theorem match_iff_flat_except_known :
  forall base rs p,
    base <> Some [] ->
    wf_tree rs = true -> wf_routes rs = true -> starts_with_slash p = true ->
    known_class_coarse base rs p = false ->
    matches base rs p = flat_any base rs p /\ match_route base rs p <> MPanic.
Proof.
  intros [b|] rs p Hne; [apply match_iff_flat_base; congruence|apply match_iff_flat_nobase].
Qed.

Example match_iff_flat_base_nontrivial :
  let rs := [Route (SStatic [47]) None; Route (STuple [SStatic [97]; SParam [120]]) None] in
  let b := [47;112;102] in
  let p := [47;112;102;47;97;47;49] in
  wf_tree rs = true /\ wf_routes rs = true /\ known_class_coarse (Some b) rs p = false
  /\ matches (Some b) rs p = true /\ flat_any (Some b) rs p = true.
Proof. vm_compute. repeat split; reflexivity. Qed.

(** ================================================================================
    Declaration order at the level of the table: the parameters returned are those of
    the FIRST generated flat route that matches the path
    ================================================================================ *)
Lemma first_chain_first : forall Ls p ps rem,
  first_chain Ls p = OYes ps rem ->
  exists pre L post m,
    Ls = pre ++ L :: post
    /\ Forall (fun L0 => good p L0 = false \/ seqT (map seg_test L0) p = TPanic) pre
    /\ seqT (map seg_test L) p = TSome m rem ps /\ rem_ok rem = true.
Proof.
  induction Ls as [|L Ls IH]; intros p ps rem H; cbn [first_chain] in H; [discriminate|].
  destruct (seqT (map seg_test L) p) as [| |m r ps1] eqn:E; try discriminate.
  - apply IH in H. destruct H as (pre & L0 & post & m0 & -> & Hpre & Hm & Hr).
    exists (L :: pre), L0, post, m0. repeat split; auto.
    constructor; [|exact Hpre]. left. unfold good. now rewrite E.
  - destruct (rem_ok r) eqn:Er.
    + inversion H; subst. exists [], L, Ls, m. repeat split; auto.
    + apply IH in H. destruct H as (pre & L0 & post & m0 & -> & Hpre & Hm & Hr).
      exists (L :: pre), L0, post, m0. repeat split; auto.
      constructor; [|exact Hpre]. left. unfold good. now rewrite E.
Qed.

Theorem first_flat_route_wins :
  forall rs p ch ps,
    wf_tree rs = true -> wf_routes rs = true -> starts_with_slash p = true ->
    known_class_coarse None rs p = false ->
    match_route None rs p = MYes ch ps ->
    exists pre f post r,
      gen_routes rs = pre ++ f :: post
      /\ Forall (fun g => flat_good p g = false) pre
      /\ spre (toks f) p = Some (ps, r) /\ rem_ok r = true.
Proof.
  intros rs p ch ps Hwt Hwf Hsl Hk Hm.
  unfold known_class_coarse in Hk.
  apply orb_false_iff in Hk. destruct Hk as [Hk Hds].
  apply orb_false_iff in Hk. destruct Hk as [Hk Hopt].
  apply orb_false_iff in Hk. destruct Hk as [Hkb Hss].
  unfold k_boundary in Hkb. unfold k_slash_static in Hss. rewrite orb_false_r in Hss.
  assert (Hopt' := Hopt). unfold k_optional_any in Hopt'.
  change (fun x : pseg => match x with POpt _ => true | _ => false end) with is_popt in Hopt'.
  assert (Hplain : forallb plain_route rs = true).
  { unfold gen_routes in Hopt'. apply existsb_flat_map_false in Hopt'.
    unfold wf_tree in Hwt. clear -Hopt' Hwt.
    induction rs as [|r rs IH]; [reflexivity|]. cbn [forallb] in *.
    apply andb_prop in Hwt. destruct Hwt as [Hr Hrs]. inversion Hopt'; subst.
    rewrite plain_from_flat, IH; auto. }
  pose proof (siblings_chains rs Hplain 0%nat p) as Hsib.
  assert (Hchain : forall L, In L (chains rs) ->
            tproj (seqT (map seg_test L) p) = Some (spre (toks (flat_map gen_path L)) p)).
  { intros L HL.
    assert (Hin : In (flat_map gen_path L) (gen_routes rs))
      by (rewrite gen_routes_chains; now apply in_map).
    apply (chain_spre (cores_of None rs)).
    - apply tame_from_flat.
      + eapply chains_leaves; eauto.
      + eapply existsb_false_in; eauto.
      + unfold wf_routes in Hwf. rewrite forallb_forall in Hwf. now apply Hwf.
      + eapply existsb_false_in; eauto.
    - now apply cores_from_flat.
    - split; [|exact Hkb]. destruct p; [discriminate|exact Hsl]. }
  unfold match_route, strip_base in Hm.
  destruct (match_siblings rs 0 p) as [| |ch1 ps1 rem] eqn:Em; try discriminate.
  destruct (rem_ok rem) eqn:Er; [|discriminate]. inversion Hm; subst.
  cbn [oproj] in Hsib. symmetry in Hsib. apply first_chain_first in Hsib.
  destruct Hsib as (pre & L & post & m & Hls & Hpre & HS & _).
  exists (map (flat_map gen_path) pre), (flat_map gen_path L), (map (flat_map gen_path) post), rem.
  split; [rewrite gen_routes_chains, Hls, map_app; reflexivity|].
  split.
  - apply Forall_forall. intros g Hg. apply in_map_iff in Hg. destruct Hg as (L0 & <- & HL0).
    rewrite Forall_forall in Hpre. specialize (Hpre L0 HL0).
    assert (HinL0 : In L0 (chains rs)) by (rewrite Hls; apply in_or_app; now left).
    specialize (Hchain L0 HinL0). unfold flat_good.
    destruct Hpre as [Hg|Hp]; [|rewrite Hp in Hchain; discriminate].
    unfold good in Hg.
    destruct (seqT (map seg_test L0) p) as [| |m0 r0 ps0]; cbn [tproj] in Hchain.
    + injection Hchain as <-. reflexivity.
    + discriminate.
    + injection Hchain as <-. exact Hg.
  - assert (HinL : In L (chains rs)) by (rewrite Hls; apply in_or_app; right; now left).
    specialize (Hchain L HinL). rewrite HS in Hchain. cbn [tproj] in Hchain.
    injection Hchain as <-. split; [reflexivity|exact Er].
Qed.

(** ---- expand_optionals: no optional survives, and every optional is decided both ways ---- *)
Fixpoint count_popt (f : list pseg) : nat :=
  match f with
  | [] => 0%nat
  | POpt _ :: t => S (count_popt t)
  | _ :: t => count_popt t
  end.

Theorem expand_optionals_spec :
  forall f, Forall (fun e => existsb is_popt e = false) (expand_optionals f)
            /\ length (expand_optionals f) = (2 ^ count_popt f)%nat.
Proof.
  induction f as [|x f [IH1 IH2]]; [split; [repeat constructor|reflexivity]|].
  assert (Hmap : forall y, is_popt y = false ->
            Forall (fun e => existsb is_popt e = false) (map (cons y) (expand_optionals f))).
  { intros y Hy. apply Forall_forall. intros e He. apply in_map_iff in He.
    destruct He as (e0 & <- & He0). rewrite Forall_forall in IH1. cbn [existsb].
    now rewrite Hy, (IH1 _ He0). }
  destruct x; cbn [expand_optionals count_popt];
    try (split; [now apply Hmap|now rewrite map_length]).
  split.
  - apply Forall_app. split; [now apply Hmap|exact IH1].
  - rewrite app_length, map_length, IH2. cbn [Nat.pow]. lia.
Qed.
