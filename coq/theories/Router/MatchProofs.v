(** C14 — theorems about the matcher model of Router/Match.v. *)
From Coq Require Import List NArith Bool Arith Lia.
From LV Require Import Base.Bytes Router.Match.
Import ListNotations.
Open Scope N_scope.

(** ---- induction principle for nested tuples ---- *)
Section SegInd.
  Variable P : seg -> Prop.
  Hypothesis Hstatic : forall s, P (SStatic s).
  Hypothesis Hparam : forall n, P (SParam n).
  Hypothesis Hopt : forall n, P (SOpt n).
  Hypothesis Hwild : forall n, P (SWild n).
  Hypothesis Hunit : P SUnit.
  Hypothesis Htuple : forall l, Forall P l -> P (STuple l).

  Fixpoint seg_ind' (s : seg) : P s :=
    match s with
    | SStatic t => Hstatic t
    | SParam n => Hparam n
    | SOpt n => Hopt n
    | SWild n => Hwild n
    | SUnit => Hunit
    | STuple l =>
        Htuple l ((fix go (l : list seg) : Forall P l :=
                     match l with
                     | [] => Forall_nil P
                     | x :: l' => Forall_cons x (seg_ind' x) (go l')
                     end) l)
    end.
End SegInd.

(** ---- the matched prefix and the remainder partition the path ---- *)
Definition splits (t : bytes -> tres) : Prop :=
  forall p m r ps, t p = TSome m r ps -> m ++ r = p.

Lemma static_splits : forall s, splits (static_test s).
Proof.
  intros s p m r ps H. unfold static_test in H.
  destruct (static_loop _ _ _ _) as [[has ml]|]; [|discriminate].
  destruct has; [|discriminate]. inversion H; subst. apply firstn_skipn.
Qed.

Lemma param_like_splits : forall o n, splits (param_like o n).
Proof.
  intros o n p m r ps H. unfold param_like in H.
  destruct (after_first p) as [lead body].
  destruct o.
  - destruct (Nat.eqb _ 0).
    + inversion H; subst. reflexivity.
    + destruct (_ && _); [|discriminate]. inversion H; subst. apply firstn_skipn.
  - destruct (_ || _); [discriminate|].
    destruct (is_boundary _ _); [|discriminate]. inversion H; subst. apply firstn_skipn.
Qed.

Lemma wild_splits : forall n, splits (wild_test n).
Proof.
  intros n p m r ps H. unfold wild_test in H.
  destruct (after_first p) as [lead body].
  destruct (is_boundary _ _); [|discriminate]. inversion H; subst. apply firstn_skipn.
Qed.

Lemma skipn_app_len : forall (m r : bytes), skipn (length m) (m ++ r) = r.
Proof. induction m; simpl; auto. Qed.

Lemma firstn_app_len : forall (m r : bytes), firstn (length m) (m ++ r) = m.
Proof. induction m; simpl; intros; f_equal; auto. Qed.

Lemma skipn_add : forall (a b : nat) (l : bytes), skipn (a + b) l = skipn b (skipn a l).
Proof.
  induction a; simpl; intros; auto. destruct l; simpl; auto. now rewrite skipn_nil.
Qed.

Lemma pass_rest_splits :
  forall ts, Forall (fun t => splits (snd t)) ts ->
  forall include nth path r mlen ps r' mlen' ps',
    r = skipn mlen path ->
    pass_rest ts include nth r mlen ps = PDone r' mlen' ps' ->
    r' = skipn mlen' path.
Proof.
  induction ts as [|[opt test] ts IH]; intros Hall include nth path r mlen ps r' mlen' ps' Hr H.
  - simpl in H. inversion H; subst. reflexivity.
  - inversion Hall as [|? ? Ht Hts]; subst. simpl in Ht.
    cbn [pass_rest] in H.
    destruct (negb opt || _).
    + destruct (test (skipn mlen path)) as [| |m r1 p] eqn:E.
      * destruct opt; [discriminate|]. destruct (Nat.eqb include 0); discriminate.
      * discriminate.
      * eapply IH in H; eauto.
        apply Ht in E. rewrite skipn_add, <- E. now rewrite skipn_app_len.
    + eapply IH in H; eauto.
Qed.

Lemma tuple_loop_splits :
  forall t ts, splits (snd t) -> Forall (fun t => splits (snd t)) ts ->
  forall include, splits (tuple_loop t ts include).
Proof.
  intros [opt test] ts Ht Hts. simpl in Ht.
  induction include as [|i IH]; intros p m r ps H; cbn [tuple_loop] in H.
  - destruct (pass_first _ _ _ _) as [| | |r1 mlen ps1] eqn:E; try discriminate.
    inversion H; subst.
    assert (r = skipn mlen p) as ->; [|apply firstn_skipn].
    unfold pass_first in E.
    destruct (negb opt || _).
    + destruct (test p) as [| |m1 r2 p1] eqn:E1; try discriminate.
      eapply pass_rest_splits in E; eauto.
      apply Ht in E1. rewrite <- E1. now rewrite skipn_app_len.
    + eapply pass_rest_splits in E; eauto.
  - destruct (pass_first _ _ _ _) as [| | |r1 mlen ps1] eqn:E; try discriminate.
    + apply IH in H. exact H.
    + inversion H; subst.
      assert (r = skipn mlen p) as ->; [|apply firstn_skipn].
      unfold pass_first in E.
      destruct (negb opt || _).
      * destruct (test p) as [| |m1 r2 p1] eqn:E1; try discriminate.
        eapply pass_rest_splits in E; eauto.
        apply Ht in E1. rewrite <- E1. now rewrite skipn_app_len.
      * eapply pass_rest_splits in E; eauto.
Qed.

Theorem seg_test_partition :
  forall s path m r ps, seg_test s path = TSome m r ps -> m ++ r = path.
Proof.
  intros s. change (splits (seg_test s)).
  induction s using seg_ind'.
  - apply static_splits.
  - apply (param_like_splits false).
  - apply (param_like_splits true).
  - apply wild_splits.
  - intros p m r ps H. inversion H; subst. reflexivity.
  - intros p m r ps Hm. cbn [seg_test] in Hm.
    destruct l as [|a l]; [inversion Hm; subst; reflexivity|].
    inversion H as [|? ? Ha Hl]; subst.
    destruct l as [|b l].
    + cbn [map] in Hm. destruct (seg_test a p) as [| |m1 r1 p1] eqn:E; try discriminate.
      inversion Hm; subst. apply Ha in E. subst p. now rewrite firstn_app_len.
    + cbn [map] in Hm.
      eapply (tuple_loop_splits (seg_optional a, seg_test a)
                ((seg_optional b, seg_test b) :: map (fun x => (seg_optional x, seg_test x)) l));
        [exact Ha| |exact Hm].
      inversion Hl as [|? ? Hb Hl']; subst. constructor; [exact Hb|].
      clear -Hl'. induction Hl'; simpl; constructor; auto.
Qed.

Example seg_test_partition_nontrivial :
  seg_test (STuple [SStatic [102;111;111]; SParam [120]]) [47;102;111;111;47;98;47]
  = TSome [47;102;111;111;47;98] [47] [([120],[98])].
Proof. vm_compute. reflexivity. Qed.

(** ---- sibling routes: the first definition that matches wins ---- *)
Definition forest_size (l : list route) : nat :=
  fold_right (fun c acc => (route_size c + acc)%nat) 0%nat l.

Theorem first_match_wins :
  forall rs id p ch ps rem,
    match_siblings rs id p = NYes ch ps rem ->
    exists pre c post,
      rs = pre ++ c :: post
      /\ (forall pre1 x pre2, pre = pre1 ++ x :: pre2 ->
            match_nested x (id + forest_size pre1) p = NNo)
      /\ match_nested c (id + forest_size pre) p = NYes ch ps rem.
Proof.
  unfold match_siblings.
  induction rs as [|c rs IH]; intros id p ch ps rem H; cbn [first_match] in H.
  - discriminate.
  - destruct (match_nested c id p) eqn:E.
    + discriminate.
    + apply IH in H. destruct H as (pre & c' & post & -> & Hpre & Hc).
      exists (c :: pre), c', post. split; [reflexivity|]. split.
      * intros pre1 x pre2 Heq. destruct pre1 as [|y pre1]; simpl in Heq.
        -- inversion Heq; subst. simpl. now rewrite Nat.add_0_r.
        -- inversion Heq; subst. simpl.
           rewrite (Nat.add_assoc id). eapply Hpre. reflexivity.
      * simpl. now rewrite Nat.add_assoc.
    + inversion H; subst. exists [], c, rs. split; [reflexivity|]. split.
      * intros [|? ?] ? ? Heq; simpl in Heq; discriminate.
      * simpl. now rewrite Nat.add_0_r.
Qed.

(** a later sibling is never consulted once an earlier one matched (or panicked) *)
Theorem first_match_shadow :
  forall c rs id p ch ps rem,
    match_nested c id p = NYes ch ps rem ->
    match_siblings (c :: rs) id p = NYes ch ps rem.
Proof. intros. unfold match_siblings. cbn [first_match]. now rewrite H. Qed.

Example first_match_wins_nontrivial :
  match_siblings [Route (SStatic [97]) None; Route (SParam [120]) None; Route (SWild [119]) None]
                 0 [47;98]
  = NYes [(1%nat, [47;98])] [([120],[98])] [].
Proof. vm_compute. reflexivity. Qed.
